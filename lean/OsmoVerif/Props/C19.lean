/-
C19 — state is a deterministic function of history and survives export/import.

What is (and is not) a theorem here — the level of this property is PARTIAL:
* A pure Lean function is deterministic by construction; Go map seeds, goroutine schedules and the wall clock
  cannot be expressed in a model.  The runtime claim is tied by (A) the regenerated map-range facts
  `Gen.Det.mapRanges` with the obligation below (every range over a Go map whose body the translator cannot
  recognise as sorted / commutative / read-only must be in the hand-audited table) and by (C) engine `det`
  (two executions in one process, a third in another OS process, an export/import after a random block).
  Seed / schedule independence is OBSERVED by (C), not proved.
* (B) Proved for all inputs, over the models: the order-insensitivity mechanisms the code relies on (sorted keys,
  lookups, commutative folds, distinct-slot scatter) instantiated for `distributionInfo`, `TakerFeeSkim` and the
  scatter loop of `distributeSyntheticInternal`; and export/import of the modules that have a model (mint, epochs,
  sum tree, accumulator store) — including the two places where the code provably LOSES state on import.
-/
import OsmoVerif.Gen.Det
import OsmoVerif.Proofs.DetDistr
import OsmoVerif.Proofs.DetEpochsRun
import OsmoVerif.Props.C06
import OsmoVerif.Proofs.LockupGenesis
import OsmoVerif.Proofs.IncentivesGenesisRun
import OsmoVerif.Proofs.IncentivesGenesisFollow
import OsmoVerif.Proofs.TwapGenesis
import OsmoVerif.Proofs.SuperfluidGenesisAccs
import OsmoVerif.Props.C11
import OsmoVerif.Proofs.CLPoolGenesis
import OsmoVerif.Props.C07

namespace OsmoVerif.Props.C19
open List OsmoVerif.Det OsmoVerif.Spec

/-! ## (A) the regenerated tie: no unaudited order-sensitive map range -/

/-- Hand-audited table of the map ranges the translator classifies `effectful`
(file:function, ordinal, verdict).  Verdicts: `independent` = the effect does not depend on the iteration
order (reason in the comment); `non-consensus` = order may show but never reaches committed state, tx results or
events; `ORDER-DEPENDENT` = a consensus-relevant effect depends on the order (a finding, see `orderDependent`). -/
def auditedEffectful : List (String × Nat × String) := [
  -- collects the store keys into a slice handed to CommitMultiStore.AddListeners, which only builds a map from them
  ("app/app.go:registerStoreKeys", 1, "independent"),
  -- blockedAddrs[moduleAddress(acc)] = …: the key is an injective function of the range key (distinct module names)
  ("app/blocked.go:OsmosisApp.BlockedAddrs", 1, "independent"),
  -- clone[key] = copy(value): one write per distinct range key into a fresh map
  ("app/genesis.go:cloneGenesisState", 1, "independent"),
  -- telemetry gauge per mempool lane: metrics only
  ("app/lanes.go:LanedMempoolWithTelemetry.emitTxDistributionMetric", 1, "non-consensus"),
  -- out[v.index] = &v.lock with pairwise distinct non-negative indices (curIndex++): `scatter_perm_invariant`
  ("x/incentives/keeper/distribute.go:Keeper.distributeSyntheticInternal", 1, "independent"),
  -- gRPC query RewardsEst only (not whitelisted for wasm stargate queries); the gauges collected in map order are
  -- summed with Coins.Add
  ("x/incentives/keeper/gauge.go:Keeper.GetRewardsEst", 1, "non-consensus"),
  -- one sum tree per synthetic denom under its own store prefix (disjoint keys), no events, called only from the
  -- v19 upgrade handler (infinite gas meter)
  ("x/lockup/keeper/lock.go:Keeper.RebuildSuperfluidAccumulationStoresForDenom", 1, "independent"),
  -- pure recursive any-match over a decoded JSON value (no context, no gas): `exists` is order independent
  ("x/smart-account/authenticator/message_filter.go:checkForFloats", 1, "independent"),
  -- builds permAddrs[name] / permAddrMap[address] at keeper construction: distinct keys
  ("x/tokenfactory/keeper/keeper.go:NewKeeper", 1, "independent"),
  -- CLI test helpers (t.Run per test case)
  ("osmoutils/osmocli/cli_tester.go:RunTxTestCases", 1, "non-consensus"),
  ("osmoutils/osmocli/cli_tester.go:RunQueryTestCases", 1, "non-consensus"),
  -- CLI flag tables, lower-cased keys (a collision would be order dependent, client side only)
  ("osmoutils/osmocli/flag_advice.go:FlagAdvice.Sanitize", 1, "non-consensus"),
  ("osmoutils/osmocli/flag_advice.go:FlagAdvice.Sanitize", 2, "non-consensus"),
  -- returns the whitelist keys UNSORTED; app/upgrades/v15 setICQParams stores the slice as the icq AllowQueries
  -- parameter.  Latent (v15 plan only).  Finding F19b (engine probe).
  ("wasmbinding/stargate_whitelist.go:GetStargateWhitelistedPaths", 1, "ORDER-DEPENDENT")
]

def siteKey (x : String × Nat × String) : String × Nat := (x.1, x.2.1)

/-- THE OBLIGATION: every map range of the current /repo tree that is not recognisably order-insensitive has been
audited.  A newly introduced effectful range over a map (the realistic determinism bug) breaks this. -/
theorem no_unaudited_effectful_map_range :
    ((Gen.Det.mapRanges.filter (fun x => x.2.2 == "effectful")).map siteKey).all
      (fun k => (auditedEffectful.map siteKey).contains k) = true := by decide

/-- the resolver determined the operand type of EVERY range statement it scanned (nothing silently skipped) -/
theorem no_unresolved_range_operand : Gen.Det.unresolvedRanges = [] := by decide

/-- the audited sites whose effect genuinely depends on the map order (each a keyed known finding) -/
def orderDependent : List (String × Nat) :=
  ((auditedEffectful.filter (fun x => x.2.2 == "ORDER-DEPENDENT")).map siteKey)

theorem order_dependent_sites : orderDependent =
    [("wasmbinding/stargate_whitelist.go:GetStargateWhitelistedPaths", 1)] := by decide

/-- wall clock / goroutine / math-rand sites of the same files, audited:
 clock: InitOsmosisAppForTestnet (testnet tooling), v23 upgrade handler (log line only), epochs BeginBlocker and the
 smart-account ante/post handlers (telemetry timers), osmoutils/noapptest (test context);
 go: mempool-1559 `go e.Clone().tryPersist()` writes a backup FILE of the CheckTx-only base fee (feedecorator reads it
 only under ctx.IsCheckTx()); rand: osmoutils.GetRandomSubset has no caller outside tests. -/
def auditedAmbient : List (String × Nat) := [
  ("app/app.go:InitOsmosisAppForTestnet", 1), ("app/app.go:InitOsmosisAppForTestnet", 2),
  ("app/upgrades/v23/upgrades.go:CreateUpgradeHandler", 1), ("app/upgrades/v23/upgrades.go:CreateUpgradeHandler", 2),
  ("x/epochs/keeper/abci.go:Keeper.BeginBlocker", 1),
  ("x/smart-account/ante/ante.go:AuthenticatorDecorator.AnteHandle", 1),
  ("x/smart-account/post/post.go:AuthenticatorPostDecorator.PostHandle", 1),
  ("x/txfees/keeper/mempool-1559/code.go:EipState.updateBaseFee", 1),
  ("osmoutils/slice_helper.go:GetRandomSubset", 1), ("osmoutils/slice_helper.go:GetRandomSubset", 2),
  ("osmoutils/noapptest/ctx.go:DefaultCtxWithStoreKeys", 1)]

theorem no_unaudited_ambient_site :
    (Gen.Det.ambientSites.map siteKey).all (fun k => auditedAmbient.contains k) = true := by decide

/-! ## (B1) mechanisms -/

/-- "collect the keys, sort, iterate": sorting the keys of ANY iteration order of a map gives the same list -/
theorem sorted_keys_perm_invariant {β : Type} {m₁ m₂ : GoMap β} (h : m₁ ~ m₂) : sortedKeys m₁ = sortedKeys m₂ :=
  mergeSort_perm_eq (h.map Prod.fst)

/-- the sorted key list is ascending -/
theorem sorted_keys_ascending {β : Type} (m : GoMap β) : (sortedKeys m).Pairwise (fun a b => a ≤ b) := by
  have := pairwise_mergeSort sle_trans sle_total (m.map Prod.fst)
  exact this.imp (fun h => of_decide_eq_true h)

/-- a map read only through `m[k]` behaves the same in every iteration order -/
theorem lookup_perm_invariant {β : Type} {m₁ m₂ : GoMap β} (h : m₁ ~ m₂) (hn : (m₁.map Prod.fst).Nodup) (k : String) :
    lookup m₁ k = lookup m₂ k := lookup_perm h hn k

/-- iterating "in sorted key order" visits the same (key, value) sequence in every iteration order -/
theorem iterSorted_perm_invariant {β : Type} {m₁ m₂ : GoMap β} (h : m₁ ~ m₂) (hn : (m₁.map Prod.fst).Nodup) :
    iterSorted m₁ = iterSorted m₂ := by
  unfold iterSorted
  rw [sorted_keys_perm_invariant h]
  exact List.map_congr_left (fun k _ => by rw [lookup_perm h hn k])

/-- a loop whose body is a right-commutative update gives the same result in every iteration order -/
theorem fold_comm_perm_invariant {β γ : Type} (f : γ → String × β → γ) (hf : ∀ a x y, f (f a x) y = f (f a y) x)
    {m₁ m₂ : GoMap β} (h : m₁ ~ m₂) (init : γ) : foldMap f init m₁ = foldMap f init m₂ :=
  h.foldl_eq' (fun x _ y _ z => hf z x y) init

/-- instance: `total = total.Add(v)` (sdk.Int / Dec raw values are integers) -/
theorem sum_perm_invariant {m₁ m₂ : GoMap Int} (h : m₁ ~ m₂) (init : Int) :
    foldMap (fun a kv => a + kv.2) init m₁ = foldMap (fun a kv => a + kv.2) init m₂ :=
  fold_comm_perm_invariant _ (fun a x y => by omega) h init

/-- instance: counting -/
theorem count_perm_invariant {β : Type} (p : String × β → Bool) {m₁ m₂ : GoMap β} (h : m₁ ~ m₂) :
    foldMap (fun (n : Nat) kv => if p kv then n + 1 else n) 0 m₁ = foldMap (fun (n : Nat) kv => if p kv then n + 1 else n) 0 m₂ :=
  fold_comm_perm_invariant _ (fun a x y => by by_cases hx : p x <;> by_cases hy : p y <;> simp [hx, hy]) h 0

/-- instance: max (`if v > max { max = v }`) -/
theorem max_perm_invariant {m₁ m₂ : GoMap Int} (h : m₁ ~ m₂) (init : Int) :
    foldMap (fun a kv => if kv.2 > a then kv.2 else a) init m₁ = foldMap (fun a kv => if kv.2 > a then kv.2 else a) init m₂ :=
  fold_comm_perm_invariant _ (fun a x y => by grind) h init

/-- instance: coins accumulated per denom (`acc = acc.Add(coin)` seen as a function denom → amount) -/
theorem coins_accumulation_perm_invariant {m₁ m₂ : GoMap (String × Int)} (h : m₁ ~ m₂) (init : String → Int) :
    foldMap (fun (a : String → Int) kv => fun d => if d = kv.2.1 then a d + kv.2.2 else a d) init m₁ =
    foldMap (fun (a : String → Int) kv => fun d => if d = kv.2.1 then a d + kv.2.2 else a d) init m₂ :=
  fold_comm_perm_invariant _ (fun a x y => by
    funext d
    simp only []
    split <;> split <;> omega) h init

/-- building another map from a map: the copy is a permutation of the original whatever the order, hence (distinct
keys) indistinguishable by lookups -/
theorem rebuild_map_invariant {β : Type} (m : GoMap β) (hn : (m.map Prod.fst).Nodup) (k : String) :
    lookup (rebuild m) k = lookup m k := by
  have : rebuild m = m.reverse := by
    unfold rebuild
    have : ∀ (l acc : GoMap β), l.foldl (fun acc kv => kv :: acc) acc = l.reverse ++ acc := by
      intro l; induction l with
      | nil => intro acc; rfl
      | cons x r ih => intro acc; simp [ih]
    simpa using this m []
  rw [this]
  exact (lookup_perm (List.reverse_perm m).symm hn k).symm

/-- `delete(m, k)` for the keys of any iteration order -/
theorem delete_perm_invariant {β : Type} (m : GoMap β) {ks₁ ks₂ : List String} (h : ks₁ ~ ks₂) :
    deleteAll m ks₁ = deleteAll m ks₂ :=
  h.foldl_eq' (fun x _ y _ z => filter_ne_comm z x y) m

/-! ## (B2) x/incentives distributionInfo and the scatter loop -/

/-- `distributionInfo`: the per-receiver payouts (`doDistributionSends`: order AND amounts) of a whole distribution
do not depend on the iteration/insertion order of `lockOwnerAddrToID`: start from any two representations of the
same map; every later insertion of the second run may land anywhere (`MapEq` only asks for a permutation). -/
theorem distributionInfo_independent_of_map_order {C : Type} (add : C → C → C) (valid : String → Bool)
    {d d' : DistrInfo C} (h : MapEq d d') (locks : List (String × String × C)) :
    (runLocks add valid d locks).map sends = (runLocks add valid d' locks).map sends := by
  rcases runLocks_mapEq add valid locks h with ⟨h1, h2⟩ | ⟨e, e', h1, h2, he⟩
  · rw [h1, h2]
  · rw [h1, h2]; simp only [Option.map_some, sends, he.addr, he.coins]

/-- from the empty struct in particular -/
theorem distributionInfo_deterministic {C : Type} (add : C → C → C) (valid : String → Bool)
    (locks : List (String × String × C)) :
    ∀ d', MapEq (DistrInfo.new (C := C)) d' →
      (runLocks add valid DistrInfo.new locks).map sends = (runLocks add valid d' locks).map sends :=
  fun _ h => distributionInfo_independent_of_map_order add valid h locks

/-- receivers are paid in order of the FIRST lock of each owner; a later lock of a known owner only adds coins -/
theorem addLockRewards_known_owner_keeps_order {C : Type} (add : C → C → C) (valid : String → Bool)
    (d e : DistrInfo C) (o r : String) (c : C) (id : Nat) (hl : lookup d.ownerToID o = some id)
    (h : addLockRewards add valid d o r c = some e) :
    e.idToAddr = d.idToAddr ∧ e.nextID = d.nextID ∧ e.ownerToID = d.ownerToID ∧
    ∃ old, d.idToCoins[id]? = some old ∧ e.idToCoins = d.idToCoins.set id (add c old) := by
  unfold addLockRewards at h
  rw [hl] at h
  simp only at h
  cases hc : d.idToCoins[id]? with
  | none => rw [hc] at h; cases h
  | some old =>
    rw [hc] at h
    injection h with h
    subst h
    exact ⟨rfl, rfl, rfl, old, rfl, rfl⟩

theorem addLockRewards_new_owner_appends {C : Type} (add : C → C → C) (valid : String → Bool)
    (d e : DistrInfo C) (o r : String) (c : C) (hl : lookup d.ownerToID o = none)
    (h : addLockRewards add valid d o r c = some e) :
    valid r = true ∧ e.idToAddr = d.idToAddr ++ [r] ∧ e.idToCoins = d.idToCoins ++ [c] ∧ e.nextID = d.nextID + 1 := by
  unfold addLockRewards at h
  rw [hl] at h
  simp only at h
  cases hv : valid r with
  | false => rw [hv] at h; simp at h
  | true =>
    rw [hv] at h
    simp only [if_true] at h
    injection h with h
    subst h
    exact ⟨rfl, rfl, rfl, rfl⟩

example : (runLocks (fun (a b : Int) => a + b) (fun _ => true) DistrInfo.new
    [("alice", "ra", 5), ("bob", "rb", 7), ("alice", "ignored", 11)]).map sends = some [("ra", 16), ("rb", 7)] := by decide

/-- `for _, v := range qualifiedLocksMap { out[v.index] = &v.lock }`: with pairwise distinct non-negative indices
(guaranteed by `curIndex += 1`) the slice is the same for every iteration order -/
theorem scatter_perm_invariant {L : Type} (out : List (Option L)) {e₁ e₂ : List (Int × L)} (h : e₁ ~ e₂)
    (hd : ∀ x ∈ e₁, ∀ y ∈ e₁, x.1 = y.1 → 0 ≤ x.1 → x = y) : scatter out e₁ = scatter out e₂ :=
  h.foldl_eq' (fun x hx y hy z => scatter_step_comm z x y (hd x hx y hy)) out

example : ∀ x ∈ [((0 : Int), "l7"), (-1, "l3"), (1, "l9"), (-1, "l4")], ∀ y ∈ [((0 : Int), "l7"), (-1, "l3"), (1, "l9"), (-1, "l4")],
    x.1 = y.1 → 0 ≤ x.1 → x = y := by decide

/-- without distinct indices the loop WOULD be order dependent -/
theorem scatter_order_dependent_witness :
    scatter [none] [((0 : Int), "a"), (0, "b")] ≠ scatter [none] [((0 : Int), "b"), (0, "a")] := by decide

/-! ## (B3) x/poolmanager TakerFeeSkim -/

/-- the agreements processed, hence the ordered accumulator increments, depend only on the SET of denoms of the
route (the slice is sorted first), not on the route order -/
theorem takerFeeSkim_sorted (skim : Int → Int → Int) (own : String → Option (String × Int))
    (alloyed : String → List (String × Int)) {ds₁ ds₂ : List String} (h : ds₁ ~ ds₂) (fees : List (String × Int)) :
    takerFeeSkim skim own alloyed ds₁ fees = takerFeeSkim skim own alloyed ds₂ fees := by
  unfold takerFeeSkim shareAgreements
  rw [mergeSort_perm_eq h]

example : takerFeeSkim (fun a p => (a * p).tdiv 1000000000000000000)
    (fun d => if d = "uatom" then some ("uatom", 100000000000000000) else none) (fun _ => [])
    ["uatom"] [("uosmo", 1000)] = some [("uatom", "uosmo", 100)] := by
  simp [takerFeeSkim, shareAgreements]

/-! ## (B4) export / import of the modelled modules -/

/-! ### x/mint -/

/-- what the imported node holds: the provisions are RESET to `GenesisEpochProvisions` -/
theorem mint_import_resets_provisions (g0 : Int) (p : Mint.Params) (s : Mint.State) (v : Int) :
    (mintInit (mintExport g0 p s) v).2.provisions = g0 ∧
    (mintInit (mintExport g0 p s) v).2.lastReduction = s.lastReduction ∧
    (mintInit (mintExport g0 p s) v).1 = p := ⟨rfl, rfl, rfl⟩

/-- export/import is the identity on the mint state exactly when no reduction has happened yet
(x/mint/keeper/genesis.go:19 `data.Minter.EpochProvisions = data.Params.GenesisEpochProvisions`) -/
theorem mint_export_import_observationally_equal_iff (g0 : Int) (p : Mint.Params) (s : Mint.State) :
    (mintInit (mintExport g0 p s) s.devVesting).2 = s ↔ s.provisions = g0 := by
  obtain ⟨a, b, c⟩ := s
  simp only [mintInit, mintExport, Mint.State.mk.injEq, and_true]
  exact eq_comm

/-- … and then every later epoch produces the same observations -/
theorem mint_run_after_import (g0 : Int) (p : Mint.Params) (s : Mint.State) (h : s.provisions = g0) (es : List Int) :
    mintRun (mintInit (mintExport g0 p s) s.devVesting).1 (mintInit (mintExport g0 p s) s.devVesting).2 es = mintRun p s es := by
  rw [(mint_export_import_observationally_equal_iff g0 p s).mpr h]
  rfl

def exMintParams : Mint.Params :=
  { startEpoch := 1, reductionPeriod := 2, reductionFactor := 500000000000000000, staking := 400000000000000000,
    poolIncentives := 300000000000000000, developer := 200000000000000000, community := 100000000000000000, receivers := [] }

/-- the state after one reduction: provisions 2500000 (genesis 5000000) -/
def exMintState : Mint.State := { provisions := 2500000 * 1000000000000000000, lastReduction := 3, devVesting := 100000000 }

/-- F19f on the model: after a reduction, the node imported from the export mints TWICE as much in the next epoch -/
theorem mint_export_import_loses_reductions_witness :
    (mintRun exMintParams exMintState [4]).map (fun o => o.map (fun o => o.map (·.minted))) = [some (some 2500000)] ∧
    (mintRun (mintInit (mintExport (5000000 * 1000000000000000000) exMintParams exMintState) 100000000).1
             (mintInit (mintExport (5000000 * 1000000000000000000) exMintParams exMintState) 100000000).2 [4]).map
        (fun o => o.map (fun o => o.map (·.minted))) = [some (some 5000000)] := by
  constructor <;> decide +kernel

/-! ### x/epochs -/

/-- import succeeds on every exported timer list (sorted by identifier, valid, started) and reproduces it EXCEPT
that `CurrentEpochStartHeight` of every timer becomes the import height -/
theorem epochs_export_import_eq_modulo_start_height (ctxT ctxH : Int) (s : Epochs.State)
    (hs : s.timers.Pairwise (fun a b => a.identifier < b.identifier))
    (hv : ∀ e ∈ s.timers, Epochs.validate e = true ∧ e.startTime ≠ 0) :
    epochsImport ctxT ctxH s.subs (epochsExport s) = some { timers := s.timers.map (setH ctxH), subs := s.subs } := by
  have := epochsImport_aux ctxT ctxH s.subs s.timers [] (by simpa using hs) hv
  simpa [epochsImport, epochsExport] using this

/-- the observable loss: re-exporting the imported state differs from the export -/
theorem epochs_export_import_loses_start_height_witness :
    let s : Epochs.State := { timers := [⟨"day", 100, 86400, 7, 604900, true, 14⟩], subs := [] }
    (epochsImport 700000 28 [] (epochsExport s)).map epochsExport = some [⟨"day", 100, 86400, 7, 604900, true, 28⟩] ∧
    epochsExport s ≠ [⟨"day", 100, 86400, 7, 604900, true, 28⟩] := by
  constructor
  · rfl
  · decide

/-- nothing else is lost and nothing later depends on it: for EVERY block list and every hook script the imported
node commits the same signals, the same subscriber stores, and timers equal up to `CurrentEpochStartHeight` -/
theorem epochs_run_after_import (ctxT ctxH : Int) (s : Epochs.State)
    (hs : s.timers.Pairwise (fun a b => a.identifier < b.identifier))
    (hv : ∀ e ∈ s.timers, Epochs.validate e = true ∧ e.startTime ≠ 0) (bs : List Epochs.Block) :
    ∃ s', epochsImport ctxT ctxH s.subs (epochsExport s) = some s' ∧
      (epochsRun s' bs).2 = (epochsRun s bs).2 ∧
      (epochsRun s' bs).1.subs = (epochsRun s bs).1.subs ∧
      AllEqModH (epochsRun s' bs).1.timers (epochsRun s bs).1.timers := by
  refine ⟨_, epochs_export_import_eq_modulo_start_height ctxT ctxH s hs hv, ?_⟩
  have h0 : StateEqModH { timers := s.timers.map (setH ctxH), subs := s.subs } s := ⟨forall₂_setH ctxH s.timers, rfl⟩
  obtain ⟨⟨h1, h2⟩, h3⟩ := epochsRun_eqModH bs _ _ h0
  exact ⟨h3, h2, h1⟩

/-! ### osmoutils/sumtree (x/lockup accumulation store) -/

/-- export (ordered iteration) then import (new tree + one Set per leaf) never fails, yields a well-formed tree with
the SAME leaves — whatever the shape of the original tree was -/
theorem sumtree_export_import_abs {s : SumTree.Store} (h : SumTree.WF s) :
    ∃ s', sumtreeImport s.m (sumtreeExport s) = some s' ∧ SumTree.WF s' ∧ SumTree.abs s' = SumTree.abs s ∧ s'.m = s.m := by
  obtain ⟨s0, h0, hw0, ha0, hm0⟩ := SumTree.new_wf h.m2
  obtain ⟨s1, h1, hw1, ha1, hm1⟩ := foldlM_set_wf (sumtreeExport s) hw0
  refine ⟨s1, ?_, hw1, ?_, by rw [hm1, hm0]⟩
  · simp only [sumtreeImport, h0]; exact h1
  · rw [ha1, ha0]
    obtain ⟨hsorted, v, rest, hl⟩ := h.good
    exact reinsert_good s.leaves hsorted v rest hl

/-- every query of the imported tree agrees with the original -/
theorem sumtree_queries_agree_after_import {s : SumTree.Store} (h : SumTree.WF s) :
    ∃ s', sumtreeImport s.m (sumtreeExport s) = some s' ∧
      (∀ k, SumTree.get s' k = SumTree.get s k) ∧
      (∀ k, SumTree.splitAcc s' k = SumTree.splitAcc s k) ∧
      SumTree.iterate s' = SumTree.iterate s := by
  obtain ⟨s', h1, hw, ha, _⟩ := sumtree_export_import_abs h
  refine ⟨s', h1, ?_, ?_, ?_⟩
  · intro k; rw [SumTree.get_correct s' k, SumTree.get_correct s k, ha]
  · intro k; rw [SumTree.splitAcc_correct hw k, SumTree.splitAcc_correct h k, ha]
  · exact ha

/-- the history `Set [3] 1; Set [1] 2; Set [2] 3` on a fan-out-2 tree (C16 counts m = 2 as a tree on which only
insert-only histories are proved right) -/
def exTree : Option SumTree.Store := do
  let s0 ← SumTree.new 2
  let s1 ← SumTree.set s0 (SumTree.Ptr.of [3]) 1
  let s2 ← SumTree.set s1 (SumTree.Ptr.of [1]) 2
  SumTree.set s2 (SumTree.Ptr.of [2]) 3

/-- … which is why the statements above are about the abstraction and the queries: the INTERNAL SHAPE of the imported
tree may differ from the exported one (same leaves, different nodes) -/
theorem sumtree_shape_differs_witness :
    (exTree.bind fun s => (sumtreeImport s.m (sumtreeExport s)).map fun s' =>
      (s'.leaves == s.leaves, s'.levels == s.levels)) = some (true, false) := by decide +kernel

/-! ### osmoutils/accum (x/concentrated-liquidity accumulators) -/

/-- export/import of the accumulator store is the identity (distinct names / position keys, names accepted by
`setAccumulator`) -/
theorem accum_export_import_eq (st : Accum.Store)
    (h1 : (st.accs.map Prod.fst).Nodup) (h2 : (st.poss.map Prod.fst).Nodup)
    (h3 : ∀ a ∈ st.accs, Accum.hasSep a.1 = false) :
    accumImport (accumExport st) = some st := by
  obtain ⟨accs, poss⟩ := st
  simp only at h1 h2 h3
  have step1 : ∀ (l pre : List (String × Accum.Content)), ((pre ++ l).map Prod.fst).Nodup →
      (∀ a ∈ l, Accum.hasSep a.1 = false) → ∀ ps,
      l.foldlM accumImportAcc (⟨pre, ps⟩ : Accum.Store) = some ⟨pre ++ l, ps⟩ := by
    intro l
    induction l with
    | nil => intro pre _ _ ps; simp
    | cons a r ih =>
      intro pre hn hs ps
      obtain ⟨n, c⟩ := a
      have hk : n ∉ pre.map Prod.fst := by
        rw [List.map_append, List.nodup_append] at hn
        intro hc; exact hn.2.2 n hc n (by simp) rfl
      have hsep : Accum.hasSep n = false := hs (n, c) List.mem_cons_self
      have hstep : Accum.setAccumulator (⟨pre, ps⟩ : Accum.Store) n c.value c.total = (⟨pre ++ [(n, c)], ps⟩, true) := by
        obtain ⟨cv, ct⟩ := c
        simp only [Accum.setAccumulator, hsep, Bool.false_eq_true, if_false]
        rw [aset_new pre n _ hk]
      have e1 : (pre ++ [(n, c)]) ++ r = pre ++ (n, c) :: r := by simp
      have := ih (pre ++ [(n, c)]) (by rw [e1]; exact hn) (fun a ha => hs a (List.mem_cons_of_mem _ ha)) ps
      rw [List.foldlM_cons]
      simp only [accumImportAcc, hstep, bind, Option.bind]
      rw [this, e1]
  have s1 := step1 accs [] (by simpa using h1) h3 []
  unfold accumImport accumExport Accum.Store.empty
  simp only []
  rw [s1]
  simp only [Option.map_some, List.nil_append]
  have : ∀ (l : List ((String × String) × Accum.Record)) (st : Accum.Store),
      l.foldl (fun st r => st.setPos r.1.1 r.1.2 r.2) st =
        { st with poss := l.foldl (fun acc kv => Accum.aset acc kv.1 kv.2) st.poss } := by
    intro l; induction l with
    | nil => intro st; rfl
    | cons x r ih =>
      intro st
      obtain ⟨⟨x1, x2⟩, x3⟩ := x
      rw [List.foldl_cons, ih]
      rfl
  rw [this, foldl_aset poss [] (by simpa using h2)]
  simp

/-- hence every later operation sequence behaves identically -/
theorem accum_run_after_import (st : Accum.Store)
    (h1 : (st.accs.map Prod.fst).Nodup) (h2 : (st.poss.map Prod.fst).Nodup)
    (h3 : ∀ a ∈ st.accs, Accum.hasSep a.1 = false) (ops : List Accum.Op) :
    (accumImport (accumExport st)).map (fun s => Accum.run s ops) = some (Accum.run st ops) := by
  rw [accum_export_import_eq st h1 h2 h3]; rfl

/-! ## (B5) export/import of x/lockup (`Model/LockupGenesis.lean`: `ExportGenesis` walks the duration index, not the
lock records; `InitGenesis` = `InitializeAllLocks`, which rebuilds the reference index and the accumulation store
and whose error `InitGenesis` swallows).  `Lockup.Sim` is the observational equivalence of lockup states: equal bank,
last lock id and params; lock records, index entries equal as SETS (a KV store has no insertion order; the model's
lists do); equal accumulation for every denomination other than the non-denomination "" (DESIGN F6). -/

/-- **Export → import is observationally the identity on every reachable state** (any history of lockup messages,
`UnlockMaturedLock`, `WithdrawMaturedLocks`, `AddTokensToLockByID`): the export does not panic, `InitializeAllLocks`
completes (`true`), and the imported state is `Sim`-equivalent to the exported one. -/
theorem lockup_export_import_equiv {s : Lockup.State} (h : C06.Reachable s) :
    ∃ s', Lockup.exportImport s = some (s', true) ∧ Lockup.Sim s' s :=
  Lockup.exportImport_sim (C06.inv_reachable h)

/-- the exported document lists every lock exactly once (not-unlocking first, each group in index order), the last
lock id and the params. -/
theorem lockup_export_complete {s : Lockup.State} (h : C06.Reachable s) :
    ∃ g, Lockup.exportGenesis s = some g ∧ g.locks.Perm s.locks ∧ g.lastLockId = s.lastLockId ∧
      g.params = some s.forceAllowed := by
  obtain ⟨ls, h1, h2⟩ := Lockup.getPeriodLocks_inv (C06.inv_reachable h)
  exact ⟨{ lastLockId := s.lastLockId, locks := ls, params := some s.forceAllowed },
    by simp only [Lockup.exportGenesis, h1, Option.map_some], h2, rfl, rfl⟩

/-- `Sim` is an equivalence on states with unique lock ids. -/
theorem lockup_sim_equivalence :
    (∀ s : Lockup.State, (Lockup.ids s.locks).Nodup → Lockup.Sim s s) ∧
    (∀ s t, Lockup.Sim s t → Lockup.Sim t s) ∧ (∀ s t u, Lockup.Sim s t → Lockup.Sim t u → Lockup.Sim s u) :=
  ⟨fun _ hn => Lockup.Sim.refl hn, fun _ _ h => h.symm, fun _ _ _ h1 h2 => h1.trans h2⟩

/-- `Sim` is preserved by EVERY operation, with the same outcome (failure / returned lock id) on both sides:
equivalent states cannot be told apart by any transaction. -/
theorem lockup_sim_step {s t : Lockup.State} (h : Lockup.Sim s t) (tm : Int) (op : Lockup.Op) :
    Lockup.Sim (Lockup.step tm s op).1 (Lockup.step tm t op).1 ∧ (Lockup.step tm s op).2 = (Lockup.step tm t op).2 :=
  Lockup.step_sim h tm op

/-- every query of the model (13 keeper list queries, lock by id, last id, balances, accumulation of every real
denomination) answers the same on equivalent states. -/
theorem lockup_sim_queries {s t : Lockup.State} (h : Lockup.Sim s t) :
    (∀ id, Lockup.getLock s id = Lockup.getLock t id) ∧ s.lastLockId = t.lastLockId ∧
    (∀ o dn, Lockup.aget s.bal (o, dn) = Lockup.aget t.bal (o, dn)) ∧
    (∀ dn, Lockup.aget s.modBal dn = Lockup.aget t.modBal dn) ∧
    (∀ dn, dn ≠ "" → ∀ d, Lockup.accumQuery s dn d = Lockup.accumQuery t dn d) ∧
    Lockup.qAll s = Lockup.qAll t ∧ (∀ o, Lockup.qOwner s o = Lockup.qOwner t o) ∧
    (∀ o d nu, Lockup.qOwnerLonger s o d nu = Lockup.qOwnerLonger t o d nu) ∧
    (∀ o d, Lockup.qOwnerDuration s o d = Lockup.qOwnerDuration t o d) ∧
    (∀ o dn d nu, Lockup.qOwnerDenomLonger s o dn d nu = Lockup.qOwnerDenomLonger t o dn d nu) ∧
    (∀ o dn d, Lockup.qOwnerDenomDurationNotUnlocking s o dn d = Lockup.qOwnerDenomDurationNotUnlocking t o dn d) ∧
    (∀ dn d, Lockup.qDenomLonger s dn d = Lockup.qDenomLonger t dn d) ∧
    (∀ tm, Lockup.qUnlockingBefore s tm = Lockup.qUnlockingBefore t tm) ∧
    (∀ tm, Lockup.qUnlockingAfter s tm = Lockup.qUnlockingAfter t tm) ∧
    (∀ now o ts, Lockup.qOwnerPastTime s now o ts = Lockup.qOwnerPastTime t now o ts) ∧
    (∀ now o ts, Lockup.qOwnerUnlockedBefore s now o ts = Lockup.qOwnerUnlockedBefore t now o ts) ∧
    (∀ now o dn ts, Lockup.qOwnerDenomPastTime s now o dn ts = Lockup.qOwnerDenomPastTime t now o dn ts) ∧
    (∀ now dn ts, Lockup.qDenomPastTime s now dn ts = Lockup.qDenomPastTime t now dn ts) :=
  Lockup.queries_sim h

/-- **Every subsequent sequence of blocks produces the same state**: after export → import of a reachable state, any
further history gives the same outcomes transaction by transaction and equivalent states (hence, by
`lockup_sim_queries`, the same answers to every query at every point). -/
theorem lockup_run_after_import {s s' : Lockup.State} {b : Bool} (h : C06.Reachable s)
    (he : Lockup.exportImport s = some (s', b)) (hist : List (Int × Lockup.Op)) :
    Lockup.outcomes s' hist = Lockup.outcomes s hist ∧ Lockup.Sim (Lockup.run s' hist) (Lockup.run s hist) := by
  obtain ⟨s'', h1, h2⟩ := lockup_export_import_equiv h
  rw [h1] at he
  injection he with he
  injection he with he1 he2
  subst he1
  exact ⟨Lockup.outcomes_sim hist h2, Lockup.run_sim hist h2⟩

/-- the ONE thing the import changes: the accumulation tree of the non-denomination "" (fed by the stray `Increase`
of `AddTokensToLockByID`, F6) is not rebuilt, it is empty afterwards. -/
theorem lockup_import_empties_empty_denom_accum {s s' : Lockup.State} {b : Bool} (h : C06.Reachable s)
    (he : Lockup.exportImport s = some (s', b)) (d : Int) : Lockup.accumQuery s' "" d = 0 := by
  unfold Lockup.accumQuery
  split
  · rfl
  · exact Lockup.exportImport_empty_denom (C06.inv_reachable h) he d

/-- … and it really differs on a reachable state (`C06.demo`: one add-to-existing-lock of 50): 50 before, 0 after;
so plain equality `import (export s) = s` is FALSE for the model's (and the chain's) lockup store. -/
theorem lockup_export_import_drops_empty_denom_accum_witness :
    Lockup.accumQuery C06.demo "" 0 = 50 ∧
    (Lockup.exportImport C06.demo).map (fun p => (Lockup.accumQuery p.1 "" 0, p.2)) = some (0, true) := by
  decide

/-- state of `C06.demoHist` after its fifth transaction: lock 1 (A, 120foo, not unlocking), lock 2 (B, 70foo, extended
to 25), lock 3 (A, 30foo, unlocking until 210). -/
def lockupMid : Lockup.State :=
  Lockup.run (Lockup.initState [(("A", "foo"), 1000), (("B", "foo"), 500)] []) (C06.demoHist.take 5)

example : C06.Reachable lockupMid := ⟨_, _, C06.demoHist.take 5, rfl⟩
/-- the exported document: not-unlocking locks by (duration, id), then the unlocking ones. -/
example : (Lockup.exportGenesis lockupMid).map (fun g => (g.lastLockId, g.locks.map (·.id), g.params)) =
    some (3, [1, 2, 3], some []) := by decide
/-- the imported state: same records, accumulation and queries; the matured lock can be withdrawn as before. -/
example : (Lockup.exportImport lockupMid).map (fun p => (p.2, p.1.locks.map (·.id))) = some (true, [1, 2, 3]) ∧
    (Lockup.exportImport lockupMid).map (fun p => (Lockup.accumQuery p.1 "foo" 10, Lockup.accumQuery p.1 "foo" 11)) =
      some (220, 70) ∧
    (Lockup.exportImport lockupMid).map (fun p => (Lockup.qOwner p.1 "A", Lockup.qUnlockingBefore p.1 210)) =
      some ([1, 3], [3]) ∧
    (Lockup.exportImport lockupMid).map (fun p => (Lockup.step 210 p.1 (.unlockMatured 3)).2) = some (some 0) := by
  decide

/-- **`InitGenesis` rejects nothing and swallows the error of `InitializeAllLocks`** (`GenesisState.Validate` returns
nil): a document listing lock id 1 twice is imported "successfully" (`false` is not observable on chain) with the
record of the SECOND entry, the index entries of the FIRST, and NO accumulation store at all. -/
theorem lockup_init_genesis_swallows_error_witness :
    let l1 : Lockup.Lock := ⟨1, "A", 10, none, [("foo", 100)], ""⟩
    let l1' : Lockup.Lock := ⟨1, "B", 10, none, [("foo", 7)], ""⟩
    let l2 : Lockup.Lock := ⟨2, "B", 10, none, [("foo", 5)], ""⟩
    let r := Lockup.initGenesis {} { lastLockId := 2, locks := [l1, l1', l2], params := none }
    r.2 = false ∧ r.1.locks = [l1'] ∧ Lockup.qOwner r.1 "A" = [1] ∧ Lockup.qOwner r.1 "B" = [] ∧
      Lockup.accumQuery r.1 "foo" 0 = 0 := by
  decide

/-- `ExportGenesis` reads the INDEX, not the record store: a lock record without a duration index entry (not
reachable through messages — C06 `index_exact`) is silently left out of the document. -/
theorem lockup_export_reads_index_witness :
    let l1 : Lockup.Lock := ⟨1, "A", 10, none, [("foo", 100)], ""⟩
    (Lockup.exportGenesis { locks := [l1], lastLockId := 1 }).map (·.locks) = some [] := by
  decide

/-! ## (B6) export/import of x/incentives (`Model/IncentivesGenesis.lean`: `ExportGenesis` lists the gauges of the
ACTIVE and UPCOMING reference stores only; `InitGenesis` files every imported gauge by its FIELDS against the import
block time).  `Incentives.Reachable` = any history of create / top-up / route change / epoch from any configuration. -/

/-- **What export → import does, exactly**: on every reachable state whose active gauges have started (`now` is not
before an earlier block time) the imported state is the exporting state with (1) the due upcoming gauges moved to the
active store exactly as the next epoch hook would (`activate now`, F36), (2) the finished reference store EMPTY and
(3) only the records of active/upcoming gauges (`imported`); last gauge id, lockable durations and every field of every
remaining gauge are preserved.  Both sides fail together (`activate` = a duplicate reference, excluded by C09's `Inv`). -/
theorem incentives_export_import_eq {s : Incentives.State} {now : Int} (h : Incentives.Reachable s)
    (hstarted : ∀ kv ∈ s.active, kv.1 ≤ now) :
    Incentives.exportImport now s = (Incentives.activate now s.upcoming s.active).map (Incentives.imported s) :=
  Incentives.exportImport_eq (Incentives.reachable_inv h).1 (Incentives.reachable_inv h).2 (Incentives.reachable_wf h) hstarted

/-- the imported record store answers `GetGaugeByID` exactly for the gauges filed as active or upcoming. -/
theorem incentives_imported_records {s : Incentives.State} (h : Incentives.Reachable s) (id : Nat) :
    Incentives.getGauge (Incentives.importedGauges s) id =
      if id ∈ Incentives.refsIds s.active ++ Incentives.refsIds s.upcoming then Incentives.getGauge s.gauges id else none :=
  Incentives.getGauge_imported (Incentives.reachable_inv h).1 id

/-- new reachable-state invariants the proof needed: both live reference stores have strictly ascending keys without
empty id lists (what the KV store gives for free), and every gauge record is filed in one of the three stores. -/
theorem incentives_store_shape {s : Incentives.State} (h : Incentives.Reachable s) :
    Incentives.RefsWF s.upcoming ∧ Incentives.RefsWF s.active ∧
    ∀ g ∈ s.gauges, g.id ∈ Incentives.refsIds s.upcoming ++ Incentives.refsIds s.active ++ Incentives.refsIds s.finished :=
  ⟨(Incentives.reachable_wf h).1, (Incentives.reachable_wf h).2, Incentives.reachable_cov h⟩

/-- `Drop D` (the second state is the first without the records / finished entries of the gauges `D`) is preserved by
EVERY operation that is not a top-up of a gauge in `D`, with the same outcome (failure, or the payouts per owner). -/
theorem incentives_drop_step {D : List Nat} {s t : Incentives.State} (hi : Incentives.Reachable s)
    (h : Incentives.Drop D s t) (o : Incentives.Op) (ho : o.avoids D) :
    Incentives.Drop D (Incentives.step s o) (Incentives.step t o) ∧ Incentives.outcome s o = Incentives.outcome t o :=
  Incentives.step_drop (Incentives.reachable_inv hi).1 h o ho

/-- **"every subsequent sequence of blocks produces the same state"**: after export → import at `now`, ANY later history
of gauge creations, top-ups, route changes and epochs reports the same on both chains operation by operation — same
failures, same payouts to every owner in every epoch — and the imported chain keeps `Follow`ing the exporting one (same
configuration, counters, balance, records of all gauges not finished at export time, and the same result of every
activation), PROVIDED (`okAfter`) epochs happen at block times `≥ now` and no gauge that was already finished at export
time is topped up — since repository fix 21bb9c1bc7 such a top-up fails on both chains at every block time not before the
gauge's start (`Props.C09.finished_gauge_rejects_topup`, `incentives_import_keeps_topup_outcome_witness`; before the fix a
gauge finished with an unpaid epoch accepted it on the exporting chain only); the proviso is kept.  The early
activation done by the import (F36) is absorbed: filing a gauge commutes with activation (`activate_refsAdd_up`). -/
theorem incentives_run_after_import {s t : Incentives.State} {now : Int} (h : Incentives.Reachable s)
    (hstarted : ∀ kv ∈ s.active, kv.1 ≤ now) (ht : Incentives.exportImport now s = some t) (ops : List Incentives.Op)
    (hok : ∀ o ∈ ops, o.okAfter now (Incentives.refsIds s.finished)) :
    Incentives.outcomes t ops = Incentives.outcomes s ops ∧
    Incentives.Follow now (Incentives.refsIds s.finished) (Incentives.run s ops) (Incentives.run t ops) :=
  Incentives.run_after_import_full (Incentives.reachable_inv h).1 (Incentives.reachable_inv h).2 (Incentives.reachable_wf h)
    (Incentives.reachable_cov h) hstarted ht ops hok

/-- what `Follow` lets every query see: the same answer for every gauge that was not finished at export time, the same
last gauge id, module balance and configuration. -/
theorem incentives_follow_queries {now : Int} {D : List Nat} {s t : Incentives.State} (h : Incentives.Follow now D s t) :
    t.cfg = s.cfg ∧ t.lastId = s.lastId ∧ t.balance = s.balance ∧
    (∀ id, id ∉ D → Incentives.getGauge t.gauges id = Incentives.getGauge s.gauges id) ∧
    (∀ id, id ∈ D → Incentives.getGauge t.gauges id = none) ∧
    (∀ now', now ≤ now' → Incentives.activate now' t.upcoming t.active = Incentives.activate now' s.upcoming s.active) :=
  ⟨h.cfg, h.last, h.bal, fun id hid => by rw [h.look id, if_neg hid], fun id hid => by rw [h.look id, if_pos hid], h.act⟩

/-- (first version, kept: the special case "the later history starts with a succeeding epoch", with the stronger relation
`Drop` — identical reference stores — afterwards.) -/
theorem incentives_run_after_import_partial {s t : Incentives.State} {now now' : Int} (h : Incentives.Reachable s)
    (hstarted : ∀ kv ∈ s.active, kv.1 ≤ now) (ht : Incentives.exportImport now s = some t) (hle : now ≤ now')
    (thr : Incentives.Quotes) (locks : List Incentives.Lock) (hok : Incentives.epoch s now' thr locks ≠ none)
    (ops : List Incentives.Op) (hav : ∀ o ∈ ops, o.avoids (Incentives.refsIds s.finished)) :
    Incentives.outcomes t (.epoch now' thr locks :: ops) = Incentives.outcomes s (.epoch now' thr locks :: ops) ∧
    Incentives.Drop (Incentives.refsIds s.finished) (Incentives.run s (.epoch now' thr locks :: ops))
      (Incentives.run t (.epoch now' thr locks :: ops)) :=
  Incentives.run_after_import (Incentives.reachable_inv h).1 (Incentives.reachable_inv h).2 (Incentives.reachable_wf h)
    (Incentives.reachable_cov h) hstarted ht hle thr locks hok ops hav

/-- history: gauge 1 (2 epochs, 1000uosmo) pays 500 in each of its two epochs and finishes (filled 2 of 2); gauge 2
(perpetual) is created with a start time in the past. -/
def incHist : List Incentives.Op := [
  .create false "lp" 3600 [("uosmo", 1000)] 0 2,
  .epoch 10 [("uosmo", some 1)] [⟨1, 0, none, 3600, "lp", 100, false⟩],
  .epoch 20 [("uosmo", some 1)] [⟨1, 0, none, 3600, "lp", 100, false⟩],
  .create true "lp" 3600 [("uosmo", 700)] 5 1]

def incState : Incentives.State := Incentives.run (Incentives.init ⟨[3600], ["lp"], []⟩ []) incHist

example : Incentives.Reachable incState := ⟨_, _, incHist, rfl, rfl⟩
example : (Incentives.refsIds incState.upcoming, Incentives.refsIds incState.active, Incentives.refsIds incState.finished,
    incState.lastId) = ([2], [], [1], 2) := by decide +kernel

set_option synthInstance.maxSize 2048 in
/-- **finished gauges are not exported** (and F36: gauge 2, upcoming on the exporting chain, is active after the
import): `GetGaugeByID(1)` answers before and errors after; the finished list is empty after. -/
theorem incentives_export_drops_finished_gauges_witness :
    (Incentives.getGauge incState.gauges 1).isSome = true ∧
    (Incentives.exportImport 30 incState).map (fun t => (Incentives.getGauge t.gauges 1, Incentives.refsIds t.finished,
      Incentives.refsIds t.upcoming, Incentives.refsIds t.active, t.lastId, t.gauges.map (·.id))) =
      some (none, [], [], [2], 2, [2]) := by
  decide +kernel

/-- … but no LATER TRANSACTION on the gauge behaves differently (it did before repository fix 21bb9c1bc7, when a gauge
could sit in the finished store with `filled < numEpochs` and still accept deposits, F20/F63): `AddToGaugeRewards(1)`
fails on the exporting chain (the gauge is finished: `Props.C09.finished_gauge_rejects_topup`) and on the imported one
(gauge not found). -/
theorem incentives_import_keeps_topup_outcome_witness :
    (Incentives.addToGauge incState 1 [("uosmo", 50)] 30).isSome = false ∧
    (Incentives.exportImport 30 incState).map (fun t => (Incentives.addToGauge t 1 [("uosmo", 50)] 30).isSome) = some false := by
  decide +kernel

set_option synthInstance.maxSize 2048 in
/-- the next epoch pays the same on both chains (instance of `incentives_run_after_import_partial`). -/
example : (Incentives.exportImport 30 incState).map (fun t =>
      (Incentives.epoch t 40 [("uosmo", some 1)] [⟨1, 0, none, 3600, "lp", 100, false⟩]).map (·.2)) =
    some ((Incentives.epoch incState 40 [("uosmo", some 1)] [⟨1, 0, none, 3600, "lp", 100, false⟩]).map (·.2)) ∧
    (Incentives.epoch incState 40 [("uosmo", some 1)] [⟨1, 0, none, 3600, "lp", 100, false⟩]).map (fun r => Incentives.received r.2) =
      some [(0, [("uosmo", 700)])] := by
  decide +kernel

/-! ## (B7) export/import of x/twap (`Model/TwapGenesis.lean`, one (pool, pair)): the historical store is exported, the
most-recent-record store is rebuilt by `StoreNewRecord` in ascending time order, `InitGenesis` first runs
`GenesisState.Validate` and PANICS on a record it rejects. -/

/-- **Export → import is the identity or a panic**: on every well-formed store (C10 `WF`; every history of a created
pair, see below) the imported store EQUALS the exported one — historical index and most recent record — if `Validate`
accepts every stored record; otherwise `InitGenesis` panics (the chain cannot be restarted from its own export). -/
theorem twap_export_import_eq {s : Twap.Store} (wf : Twap.WF s) :
    Twap.exportImport s = if s.hist.all Twap.validRecord then some s else none :=
  Twap.exportImport_eq wf

/-- … for every history (end-of-block updates with arbitrary prices / error flags / times, pruning passes) of a pair
created at a representable time. -/
theorem twap_export_import_eq_on_histories {now height sp0 sp1 : Int} {e : Bool} (hz : Twap.zeroTime ≤ now)
    (ops : List Twap.Op) :
    let s := Twap.runOps (Twap.create {} now height sp0 sp1 e) ops
    Twap.exportImport s = if s.hist.all Twap.validRecord then some s else none :=
  Twap.exportImport_eq ((Twap.WF.create hz).runOps ops)

/-- hence every query and every later block behave identically after a successful import (the state is EQUAL). -/
theorem twap_run_after_import {s s' : Twap.Store} (wf : Twap.WF s) (h : Twap.exportImport s = some s')
    (ops : List Twap.Op) : Twap.runOps s' ops = Twap.runOps s ops := by
  rw [Twap.exportImport_eq wf] at h
  split at h
  · injection h with h; rw [h]
  · cases h

/-- when does the chain write only records that `Validate` accepts?  Creation and every end-of-block update with
`GoodInput` (positive height, non-zero time, a failed spot-price read comes with a zero price, a successful one with two
positive prices) keep all records valid — PROVIDED a successful read is not recorded at the very time of the previous
failed read (`hne`); pruning keeps validity. -/
theorem twap_valid_records_preserved :
    (∀ {now height sp0 sp1 : Int} {e : Bool}, Twap.GoodInput now height sp0 sp1 e →
      Twap.VInv (Twap.create {} now height sp0 sp1 e)) ∧
    (∀ {s s' : Twap.Store} {now height sp0 sp1 : Int} {e : Bool}, Twap.WF s → Twap.VInv s →
      Twap.GoodInput now height sp0 sp1 e → (e = false → ∀ r, s.recent = some r → r.lastErr ≠ now) →
      Twap.update s now height sp0 sp1 e = .ok s' → Twap.VInv s') ∧
    (∀ {s : Twap.Store} {k : Int}, Twap.WF s → Twap.VInv s → Twap.VInv (Twap.prune s k)) ∧
    (∀ {s : Twap.Store}, Twap.VInv s → s.hist.all Twap.validRecord = true) :=
  ⟨fun g => Twap.create_valid g, fun wf hv g hne h => Twap.update_valid wf hv g hne h,
    fun wf hv => Twap.prune_valid wf hv, fun hv => Twap.VInv_all hv⟩

/-- a concentrated pool created empty (both spot price reads fail: prices 0, error time = block time) that receives its
first position IN THE SAME BLOCK: the EndBlocker overwrites the record of that block time with the now readable prices
and inherits the error time, which equals the record's own time. -/
def twapSameBlock : Twap.Store :=
  Twap.runOps (Twap.create {} 1000000000 5 0 0 true)
    [.update 1000000000 5 506031233833671468615 1976162602501908 false]

/-- **the chain cannot import its own export** (observed on the real keeper by the `twap` engine with exactly these
numbers): `Validate` demands a zero price in a record whose error time is its own time; `InitGenesis` panics. -/
theorem twap_import_rejects_own_export_witness :
    twapSameBlock.hist.map (fun r => (r.time, r.lastErr, r.sp0, r.sp1)) =
      [(1000000000, 1000000000, 506031233833671468615, 1976162602501908)] ∧
    Twap.exportImport twapSameBlock = none := by
  decide +kernel

example : Twap.WF twapSameBlock :=
  (Twap.WF.create (now := 1000000000) (height := 5) (sp0 := 0) (sp1 := 0) (e := true) (by decide)).runOps _

/-- a history whose export imports (and is reproduced exactly): same pool, first position one block later. -/
def twapNextBlock : Twap.Store :=
  Twap.runOps (Twap.create {} 1000000000 5 0 0 true)
    [.update 6000000000 6 506031233833671468615 1976162602501908 false,
     .update 9000000000 7 500000000000000000000 2000000000000000 false, .prune 7000000000]

example : twapNextBlock.hist.length = 2 ∧ Twap.exportImport twapNextBlock = some twapNextBlock := by decide +kernel

/-! ## (B8) export/import of x/superfluid (`Model/SuperfluidGenesis.lean`): params, asset list, multipliers,
intermediary accounts and lock ↔ account connections are written back verbatim; `InitGenesis` panics on a connection
whose intermediary account is not in the document. -/

/-- **Export → import is the identity** on every state reachable from an initial state (C11 `Init`, no intermediary
account yet) whose multipliers live on the denominations `< n`: the import does not panic (every connection points to an
exported account — C11's invariant) and the imported state EQUALS the exported one. -/
theorem superfluid_export_import_eq {s₀ : Superfluid.State} (h0 : C11.Init s₀) (ha : s₀.accs = [])
    (ops : List Superfluid.Op) {n : Nat} (hm : ∀ d, n ≤ d → (Superfluid.run s₀ ops).mult d = 0) :
    Superfluid.exportImport n (Superfluid.run s₀ ops) = some (Superfluid.run s₀ ops) :=
  Superfluid.exportImport_eq (C11.reach_inv (C11.init_inv h0) ops) hm
    (Superfluid.accsOK_run ops s₀ (by unfold Superfluid.AccsOK; rw [ha]; exact List.nodup_nil))

/-- the new invariant behind it: intermediary accounts are unique per (denom, validator) along every history. -/
theorem superfluid_accounts_unique {s₀ : Superfluid.State} (h : Superfluid.AccsOK s₀) (ops : List Superfluid.Op) :
    ((Superfluid.run s₀ ops).accs.map (·.1)).Nodup :=
  Superfluid.accsOK_run ops s₀ h

/-- hence every later history is the same (the states are equal). -/
theorem superfluid_run_after_import {s₀ : Superfluid.State} (h0 : C11.Init s₀) (ha : s₀.accs = [])
    (ops : List Superfluid.Op) {n : Nat} (hm : ∀ d, n ≤ d → (Superfluid.run s₀ ops).mult d = 0) {s' : Superfluid.State}
    (h : Superfluid.exportImport n (Superfluid.run s₀ ops) = some s') (later : List Superfluid.Op) :
    Superfluid.run s' later = Superfluid.run (Superfluid.run s₀ ops) later := by
  rw [superfluid_export_import_eq h0 ha ops hm] at h
  injection h with h
  rw [h]

/-- `InitGenesis` validates: a document with a connection to an account it does not list makes the import panic. -/
theorem superfluid_import_rejects_dangling_connection_witness :
    Superfluid.initGenesis (Superfluid.freshOf C11.w0)
      { riskFactor := 0, assets := [], mults := [], accs := [], conns := [(1, (0, 0))] } = none := by
  decide +kernel

/-! ## (B9) export/import of one concentrated-liquidity pool (`Model/CLPoolGenesis.lean`): the pool struct, its
initialized ticks (store order = tick order), its positions (store order = id order), the next position id.  The
accumulators, incentive records and the module-wide liquidity totals are outside `Model/CLPool.lean` (engine only). -/

/-- new reachable-state invariant: the position list of the pool model is in ascending id order along every history
(create / add-to / withdraw / transfer / swap), as the position-id keys of the store are. -/
theorem cl_positions_id_sorted (s f : Int) (ops : List CLBook.Op) :
    CLBook.IdSorted (CLBook.run (CLBook.initPool s f) ops).positions :=
  CLBook.idSorted_run ops (CLBook.initPool_core s f) List.Pairwise.nil

/-- **Export → import of a pool is the identity** on every reachable pool state: struct, ticks (gross / net), positions
(owner, range, liquidity), next position id — and the bank balances it starts from. -/
theorem cl_export_import_eq (s f : Int) (ops : List CLBook.Op) :
    CLPool.exportImport (CLBook.run (CLBook.initPool s f) ops) = CLBook.run (CLBook.initPool s f) ops :=
  CLBook.exportImport_eq (C07.reachable_core s f ops) (cl_positions_id_sorted s f ops)

/-- hence every later history (LP operations and swaps) is the same. -/
theorem cl_run_after_import (s f : Int) (ops later : List CLBook.Op) :
    CLBook.run (CLPool.exportImport (CLBook.run (CLBook.initPool s f) ops)) later =
      CLBook.run (CLBook.run (CLBook.initPool s f) ops) later := by
  rw [cl_export_import_eq]

/-- non-vacuity: the C07 demo history (three positions, two swaps, withdraw, transfer, add-to-position). -/
example : (CLBook.run (CLBook.initPool 100 0) CLBook.demoOps).positions.map (·.id) ≠ [] ∧
    CLPool.exportImport (CLBook.run (CLBook.initPool 100 0) CLBook.demoOps) = CLBook.run (CLBook.initPool 100 0) CLBook.demoOps :=
  ⟨by decide +kernel, cl_export_import_eq 100 0 CLBook.demoOps⟩

end OsmoVerif.Props.C19
