/-
C19 — state is a deterministic function of history and survives export/import.

What is (and is not) a theorem here — the level of this property is PARTIAL:
* A pure Lean function is deterministic by construction; Go map seeds, goroutine schedules and the wall clock
  cannot be expressed in a model.  The runtime claim is tied by (A) the regenerated map-range facts
  `Gen.Det.mapRanges` with the obligation below (every range over a Go map whose body the translator cannot
  recognise as sorted / commutative / read-only must be in the hand-audited table) and by (C) engine `det`
  (two executions in one process, a third in another OS process, an export/import after a random block).
  Seed / schedule independence is OBSERVED by (C), not proved.
* (B) Proved for all inputs, over the models: the order-insensitivity mechanisms the code relies on (sorted keys,
  lookups, commutative folds, distinct-slot scatter) instantiated for `distributionInfo`, `TakerFeeSkim` and the
  scatter loop of `distributeSyntheticInternal`; and export/import of the modules that have a model (mint, epochs,
  sum tree, accumulator store) — including the two places where the code provably LOSES state on import.
-/
import OsmoVerif.Gen.Det
import OsmoVerif.Proofs.DetDistr
import OsmoVerif.Proofs.DetEpochsRun

namespace OsmoVerif.Props.C19
open List OsmoVerif.Det OsmoVerif.Spec

/-! ## (A) the regenerated tie: no unaudited order-sensitive map range -/

/-- Hand-audited table of the map ranges the translator classifies `effectful`
(file:function, ordinal, verdict).  Verdicts: `independent` = the effect does not depend on the iteration
order (reason in the comment); `non-consensus` = order may show but never reaches committed state, tx results or
events; `ORDER-DEPENDENT` = a consensus-relevant effect depends on the order (a finding, see `orderDependent`). -/
def auditedEffectful : List (String × Nat × String) := [
  -- collects the store keys into a slice handed to CommitMultiStore.AddListeners, which only builds a map from them
  ("app/app.go:registerStoreKeys", 1, "independent"),
  -- blockedAddrs[moduleAddress(acc)] = …: the key is an injective function of the range key (distinct module names)
  ("app/blocked.go:OsmosisApp.BlockedAddrs", 1, "independent"),
  -- clone[key] = copy(value): one write per distinct range key into a fresh map
  ("app/genesis.go:cloneGenesisState", 1, "independent"),
  -- telemetry gauge per mempool lane: metrics only
  ("app/lanes.go:LanedMempoolWithTelemetry.emitTxDistributionMetric", 1, "non-consensus"),
  -- out[v.index] = &v.lock with pairwise distinct non-negative indices (curIndex++): `scatter_perm_invariant`
  ("x/incentives/keeper/distribute.go:Keeper.distributeSyntheticInternal", 1, "independent"),
  -- gRPC query RewardsEst only (not whitelisted for wasm stargate queries); the gauges collected in map order are
  -- summed with Coins.Add
  ("x/incentives/keeper/gauge.go:Keeper.GetRewardsEst", 1, "non-consensus"),
  -- one sum tree per synthetic denom under its own store prefix (disjoint keys), no events, called only from the
  -- v19 upgrade handler (infinite gas meter)
  ("x/lockup/keeper/lock.go:Keeper.RebuildSuperfluidAccumulationStoresForDenom", 1, "independent"),
  -- SetPoolForDenomPair per (base denom, denom): distinct keys, so the final state is order independent, BUT the
  -- per-entry gas differs with the key length: inside MsgSetBaseDenoms the gas consumed when an out-of-gas panic
  -- fires in this loop (= GasUsed, hashed into LastResultsHash) depends on the order.  Finding F19a (engine probe).
  ("x/protorev/keeper/epoch_hook.go:Keeper.UpdatePools", 1, "ORDER-DEPENDENT"),
  ("x/protorev/keeper/epoch_hook.go:Keeper.UpdatePools", 2, "ORDER-DEPENDENT"),
  -- pure recursive any-match over a decoded JSON value (no context, no gas): `exists` is order independent
  ("x/smart-account/authenticator/message_filter.go:checkForFloats", 1, "independent"),
  -- builds permAddrs[name] / permAddrMap[address] at keeper construction: distinct keys
  ("x/tokenfactory/keeper/keeper.go:NewKeeper", 1, "independent"),
  -- CLI test helpers (t.Run per test case)
  ("osmoutils/osmocli/cli_tester.go:RunTxTestCases", 1, "non-consensus"),
  ("osmoutils/osmocli/cli_tester.go:RunQueryTestCases", 1, "non-consensus"),
  -- CLI flag tables, lower-cased keys (a collision would be order dependent, client side only)
  ("osmoutils/osmocli/flag_advice.go:FlagAdvice.Sanitize", 1, "non-consensus"),
  ("osmoutils/osmocli/flag_advice.go:FlagAdvice.Sanitize", 2, "non-consensus"),
  -- returns the whitelist keys UNSORTED; app/upgrades/v15 setICQParams stores the slice as the icq AllowQueries
  -- parameter.  Latent (v15 plan only).  Finding F19b (engine probe).
  ("wasmbinding/stargate_whitelist.go:GetStargateWhitelistedPaths", 1, "ORDER-DEPENDENT")
]

def siteKey (x : String × Nat × String) : String × Nat := (x.1, x.2.1)

/-- THE OBLIGATION: every map range of the current /repo tree that is not recognisably order-insensitive has been
audited.  A newly introduced effectful range over a map (the realistic determinism bug) breaks this. -/
theorem no_unaudited_effectful_map_range :
    ((Gen.Det.mapRanges.filter (fun x => x.2.2 == "effectful")).map siteKey).all
      (fun k => (auditedEffectful.map siteKey).contains k) = true := by decide

/-- the resolver determined the operand type of EVERY range statement it scanned (nothing silently skipped) -/
theorem no_unresolved_range_operand : Gen.Det.unresolvedRanges = [] := by decide

/-- the audited sites whose effect genuinely depends on the map order (each a keyed known finding) -/
def orderDependent : List (String × Nat) :=
  ((auditedEffectful.filter (fun x => x.2.2 == "ORDER-DEPENDENT")).map siteKey)

theorem order_dependent_sites : orderDependent =
    [("x/protorev/keeper/epoch_hook.go:Keeper.UpdatePools", 1), ("x/protorev/keeper/epoch_hook.go:Keeper.UpdatePools", 2),
     ("wasmbinding/stargate_whitelist.go:GetStargateWhitelistedPaths", 1)] := by decide

/-- wall clock / goroutine / math-rand sites of the same files, audited:
 clock: InitOsmosisAppForTestnet (testnet tooling), v23 upgrade handler (log line only), epochs BeginBlocker and the
 smart-account ante/post handlers (telemetry timers), osmoutils/noapptest (test context);
 go: mempool-1559 `go e.Clone().tryPersist()` writes a backup FILE of the CheckTx-only base fee (feedecorator reads it
 only under ctx.IsCheckTx()); rand: osmoutils.GetRandomSubset has no caller outside tests. -/
def auditedAmbient : List (String × Nat) := [
  ("app/app.go:InitOsmosisAppForTestnet", 1), ("app/app.go:InitOsmosisAppForTestnet", 2),
  ("app/upgrades/v23/upgrades.go:CreateUpgradeHandler", 1), ("app/upgrades/v23/upgrades.go:CreateUpgradeHandler", 2),
  ("x/epochs/keeper/abci.go:Keeper.BeginBlocker", 1),
  ("x/smart-account/ante/ante.go:AuthenticatorDecorator.AnteHandle", 1),
  ("x/smart-account/post/post.go:AuthenticatorPostDecorator.PostHandle", 1),
  ("x/txfees/keeper/mempool-1559/code.go:EipState.updateBaseFee", 1),
  ("osmoutils/slice_helper.go:GetRandomSubset", 1), ("osmoutils/slice_helper.go:GetRandomSubset", 2),
  ("osmoutils/noapptest/ctx.go:DefaultCtxWithStoreKeys", 1)]

theorem no_unaudited_ambient_site :
    (Gen.Det.ambientSites.map siteKey).all (fun k => auditedAmbient.contains k) = true := by decide

/-! ## (B1) mechanisms -/

/-- "collect the keys, sort, iterate": sorting the keys of ANY iteration order of a map gives the same list -/
theorem sorted_keys_perm_invariant {β : Type} {m₁ m₂ : GoMap β} (h : m₁ ~ m₂) : sortedKeys m₁ = sortedKeys m₂ :=
  mergeSort_perm_eq (h.map Prod.fst)

/-- the sorted key list is ascending -/
theorem sorted_keys_ascending {β : Type} (m : GoMap β) : (sortedKeys m).Pairwise (fun a b => a ≤ b) := by
  have := pairwise_mergeSort sle_trans sle_total (m.map Prod.fst)
  exact this.imp (fun h => of_decide_eq_true h)

/-- a map read only through `m[k]` behaves the same in every iteration order -/
theorem lookup_perm_invariant {β : Type} {m₁ m₂ : GoMap β} (h : m₁ ~ m₂) (hn : (m₁.map Prod.fst).Nodup) (k : String) :
    lookup m₁ k = lookup m₂ k := lookup_perm h hn k

/-- iterating "in sorted key order" visits the same (key, value) sequence in every iteration order -/
theorem iterSorted_perm_invariant {β : Type} {m₁ m₂ : GoMap β} (h : m₁ ~ m₂) (hn : (m₁.map Prod.fst).Nodup) :
    iterSorted m₁ = iterSorted m₂ := by
  unfold iterSorted
  rw [sorted_keys_perm_invariant h]
  exact List.map_congr_left (fun k _ => by rw [lookup_perm h hn k])

/-- a loop whose body is a right-commutative update gives the same result in every iteration order -/
theorem fold_comm_perm_invariant {β γ : Type} (f : γ → String × β → γ) (hf : ∀ a x y, f (f a x) y = f (f a y) x)
    {m₁ m₂ : GoMap β} (h : m₁ ~ m₂) (init : γ) : foldMap f init m₁ = foldMap f init m₂ :=
  h.foldl_eq' (fun x _ y _ z => hf z x y) init

/-- instance: `total = total.Add(v)` (sdk.Int / Dec raw values are integers) -/
theorem sum_perm_invariant {m₁ m₂ : GoMap Int} (h : m₁ ~ m₂) (init : Int) :
    foldMap (fun a kv => a + kv.2) init m₁ = foldMap (fun a kv => a + kv.2) init m₂ :=
  fold_comm_perm_invariant _ (fun a x y => by omega) h init

/-- instance: counting -/
theorem count_perm_invariant {β : Type} (p : String × β → Bool) {m₁ m₂ : GoMap β} (h : m₁ ~ m₂) :
    foldMap (fun (n : Nat) kv => if p kv then n + 1 else n) 0 m₁ = foldMap (fun (n : Nat) kv => if p kv then n + 1 else n) 0 m₂ :=
  fold_comm_perm_invariant _ (fun a x y => by by_cases hx : p x <;> by_cases hy : p y <;> simp [hx, hy]) h 0

/-- instance: max (`if v > max { max = v }`) -/
theorem max_perm_invariant {m₁ m₂ : GoMap Int} (h : m₁ ~ m₂) (init : Int) :
    foldMap (fun a kv => if kv.2 > a then kv.2 else a) init m₁ = foldMap (fun a kv => if kv.2 > a then kv.2 else a) init m₂ :=
  fold_comm_perm_invariant _ (fun a x y => by grind) h init

/-- instance: coins accumulated per denom (`acc = acc.Add(coin)` seen as a function denom → amount) -/
theorem coins_accumulation_perm_invariant {m₁ m₂ : GoMap (String × Int)} (h : m₁ ~ m₂) (init : String → Int) :
    foldMap (fun (a : String → Int) kv => fun d => if d = kv.2.1 then a d + kv.2.2 else a d) init m₁ =
    foldMap (fun (a : String → Int) kv => fun d => if d = kv.2.1 then a d + kv.2.2 else a d) init m₂ :=
  fold_comm_perm_invariant _ (fun a x y => by
    funext d
    simp only []
    split <;> split <;> omega) h init

/-- building another map from a map: the copy is a permutation of the original whatever the order, hence (distinct
keys) indistinguishable by lookups -/
theorem rebuild_map_invariant {β : Type} (m : GoMap β) (hn : (m.map Prod.fst).Nodup) (k : String) :
    lookup (rebuild m) k = lookup m k := by
  have : rebuild m = m.reverse := by
    unfold rebuild
    have : ∀ (l acc : GoMap β), l.foldl (fun acc kv => kv :: acc) acc = l.reverse ++ acc := by
      intro l; induction l with
      | nil => intro acc; rfl
      | cons x r ih => intro acc; simp [ih]
    simpa using this m []
  rw [this]
  exact (lookup_perm (List.reverse_perm m).symm hn k).symm

/-- `delete(m, k)` for the keys of any iteration order -/
theorem delete_perm_invariant {β : Type} (m : GoMap β) {ks₁ ks₂ : List String} (h : ks₁ ~ ks₂) :
    deleteAll m ks₁ = deleteAll m ks₂ :=
  h.foldl_eq' (fun x _ y _ z => filter_ne_comm z x y) m

/-! ## (B2) x/incentives distributionInfo and the scatter loop -/

/-- `distributionInfo`: the per-receiver payouts (`doDistributionSends`: order AND amounts) of a whole distribution
do not depend on the iteration/insertion order of `lockOwnerAddrToID`: start from any two representations of the
same map; every later insertion of the second run may land anywhere (`MapEq` only asks for a permutation). -/
theorem distributionInfo_independent_of_map_order {C : Type} (add : C → C → C) (valid : String → Bool)
    {d d' : DistrInfo C} (h : MapEq d d') (locks : List (String × String × C)) :
    (runLocks add valid d locks).map sends = (runLocks add valid d' locks).map sends := by
  rcases runLocks_mapEq add valid locks h with ⟨h1, h2⟩ | ⟨e, e', h1, h2, he⟩
  · rw [h1, h2]
  · rw [h1, h2]; simp only [Option.map_some, sends, he.addr, he.coins]

/-- from the empty struct in particular -/
theorem distributionInfo_deterministic {C : Type} (add : C → C → C) (valid : String → Bool)
    (locks : List (String × String × C)) :
    ∀ d', MapEq (DistrInfo.new (C := C)) d' →
      (runLocks add valid DistrInfo.new locks).map sends = (runLocks add valid d' locks).map sends :=
  fun _ h => distributionInfo_independent_of_map_order add valid h locks

/-- receivers are paid in order of the FIRST lock of each owner; a later lock of a known owner only adds coins -/
theorem addLockRewards_known_owner_keeps_order {C : Type} (add : C → C → C) (valid : String → Bool)
    (d e : DistrInfo C) (o r : String) (c : C) (id : Nat) (hl : lookup d.ownerToID o = some id)
    (h : addLockRewards add valid d o r c = some e) :
    e.idToAddr = d.idToAddr ∧ e.nextID = d.nextID ∧ e.ownerToID = d.ownerToID ∧
    ∃ old, d.idToCoins[id]? = some old ∧ e.idToCoins = d.idToCoins.set id (add c old) := by
  unfold addLockRewards at h
  rw [hl] at h
  simp only at h
  cases hc : d.idToCoins[id]? with
  | none => rw [hc] at h; cases h
  | some old =>
    rw [hc] at h
    injection h with h
    subst h
    exact ⟨rfl, rfl, rfl, old, rfl, rfl⟩

theorem addLockRewards_new_owner_appends {C : Type} (add : C → C → C) (valid : String → Bool)
    (d e : DistrInfo C) (o r : String) (c : C) (hl : lookup d.ownerToID o = none)
    (h : addLockRewards add valid d o r c = some e) :
    valid r = true ∧ e.idToAddr = d.idToAddr ++ [r] ∧ e.idToCoins = d.idToCoins ++ [c] ∧ e.nextID = d.nextID + 1 := by
  unfold addLockRewards at h
  rw [hl] at h
  simp only at h
  cases hv : valid r with
  | false => rw [hv] at h; simp at h
  | true =>
    rw [hv] at h
    simp only [if_true] at h
    injection h with h
    subst h
    exact ⟨rfl, rfl, rfl, rfl⟩

example : (runLocks (fun (a b : Int) => a + b) (fun _ => true) DistrInfo.new
    [("alice", "ra", 5), ("bob", "rb", 7), ("alice", "ignored", 11)]).map sends = some [("ra", 16), ("rb", 7)] := by decide

/-- `for _, v := range qualifiedLocksMap { out[v.index] = &v.lock }`: with pairwise distinct non-negative indices
(guaranteed by `curIndex += 1`) the slice is the same for every iteration order -/
theorem scatter_perm_invariant {L : Type} (out : List (Option L)) {e₁ e₂ : List (Int × L)} (h : e₁ ~ e₂)
    (hd : ∀ x ∈ e₁, ∀ y ∈ e₁, x.1 = y.1 → 0 ≤ x.1 → x = y) : scatter out e₁ = scatter out e₂ :=
  h.foldl_eq' (fun x hx y hy z => scatter_step_comm z x y (hd x hx y hy)) out

example : ∀ x ∈ [((0 : Int), "l7"), (-1, "l3"), (1, "l9"), (-1, "l4")], ∀ y ∈ [((0 : Int), "l7"), (-1, "l3"), (1, "l9"), (-1, "l4")],
    x.1 = y.1 → 0 ≤ x.1 → x = y := by decide

/-- without distinct indices the loop WOULD be order dependent -/
theorem scatter_order_dependent_witness :
    scatter [none] [((0 : Int), "a"), (0, "b")] ≠ scatter [none] [((0 : Int), "b"), (0, "a")] := by decide

/-! ## (B3) x/poolmanager TakerFeeSkim -/

/-- the agreements processed, hence the ordered accumulator increments, depend only on the SET of denoms of the
route (the slice is sorted first), not on the route order -/
theorem takerFeeSkim_sorted (skim : Int → Int → Int) (own : String → Option (String × Int))
    (alloyed : String → List (String × Int)) {ds₁ ds₂ : List String} (h : ds₁ ~ ds₂) (fees : List (String × Int)) :
    takerFeeSkim skim own alloyed ds₁ fees = takerFeeSkim skim own alloyed ds₂ fees := by
  unfold takerFeeSkim shareAgreements
  rw [mergeSort_perm_eq h]

example : takerFeeSkim (fun a p => (a * p).tdiv 1000000000000000000)
    (fun d => if d = "uatom" then some ("uatom", 100000000000000000) else none) (fun _ => [])
    ["uatom"] [("uosmo", 1000)] = some [("uatom", "uosmo", 100)] := by
  simp [takerFeeSkim, shareAgreements]

/-! ## (B4) export / import of the modelled modules -/

/-! ### x/mint -/

/-- what the imported node holds: the provisions are RESET to `GenesisEpochProvisions` -/
theorem mint_import_resets_provisions (g0 : Int) (p : Mint.Params) (s : Mint.State) (v : Int) :
    (mintInit (mintExport g0 p s) v).2.provisions = g0 ∧
    (mintInit (mintExport g0 p s) v).2.lastReduction = s.lastReduction ∧
    (mintInit (mintExport g0 p s) v).1 = p := ⟨rfl, rfl, rfl⟩

/-- export/import is the identity on the mint state exactly when no reduction has happened yet
(x/mint/keeper/genesis.go:19 `data.Minter.EpochProvisions = data.Params.GenesisEpochProvisions`) -/
theorem mint_export_import_observationally_equal_iff (g0 : Int) (p : Mint.Params) (s : Mint.State) :
    (mintInit (mintExport g0 p s) s.devVesting).2 = s ↔ s.provisions = g0 := by
  obtain ⟨a, b, c⟩ := s
  simp only [mintInit, mintExport, Mint.State.mk.injEq, and_true]
  exact eq_comm

/-- … and then every later epoch produces the same observations -/
theorem mint_run_after_import (g0 : Int) (p : Mint.Params) (s : Mint.State) (h : s.provisions = g0) (es : List Int) :
    mintRun (mintInit (mintExport g0 p s) s.devVesting).1 (mintInit (mintExport g0 p s) s.devVesting).2 es = mintRun p s es := by
  rw [(mint_export_import_observationally_equal_iff g0 p s).mpr h]
  rfl

def exMintParams : Mint.Params :=
  { startEpoch := 1, reductionPeriod := 2, reductionFactor := 500000000000000000, staking := 400000000000000000,
    poolIncentives := 300000000000000000, developer := 200000000000000000, community := 100000000000000000, receivers := [] }

/-- the state after one reduction: provisions 2500000 (genesis 5000000) -/
def exMintState : Mint.State := { provisions := 2500000 * 1000000000000000000, lastReduction := 3, devVesting := 100000000 }

/-- F19f on the model: after a reduction, the node imported from the export mints TWICE as much in the next epoch -/
theorem mint_export_import_loses_reductions_witness :
    (mintRun exMintParams exMintState [4]).map (fun o => o.map (fun o => o.map (·.minted))) = [some (some 2500000)] ∧
    (mintRun (mintInit (mintExport (5000000 * 1000000000000000000) exMintParams exMintState) 100000000).1
             (mintInit (mintExport (5000000 * 1000000000000000000) exMintParams exMintState) 100000000).2 [4]).map
        (fun o => o.map (fun o => o.map (·.minted))) = [some (some 5000000)] := by
  constructor <;> decide +kernel

/-! ### x/epochs -/

/-- import succeeds on every exported timer list (sorted by identifier, valid, started) and reproduces it EXCEPT
that `CurrentEpochStartHeight` of every timer becomes the import height -/
theorem epochs_export_import_eq_modulo_start_height (ctxT ctxH : Int) (s : Epochs.State)
    (hs : s.timers.Pairwise (fun a b => a.identifier < b.identifier))
    (hv : ∀ e ∈ s.timers, Epochs.validate e = true ∧ e.startTime ≠ 0) :
    epochsImport ctxT ctxH s.subs (epochsExport s) = some { timers := s.timers.map (setH ctxH), subs := s.subs } := by
  have := epochsImport_aux ctxT ctxH s.subs s.timers [] (by simpa using hs) hv
  simpa [epochsImport, epochsExport] using this

/-- the observable loss: re-exporting the imported state differs from the export -/
theorem epochs_export_import_loses_start_height_witness :
    let s : Epochs.State := { timers := [⟨"day", 100, 86400, 7, 604900, true, 14⟩], subs := [] }
    (epochsImport 700000 28 [] (epochsExport s)).map epochsExport = some [⟨"day", 100, 86400, 7, 604900, true, 28⟩] ∧
    epochsExport s ≠ [⟨"day", 100, 86400, 7, 604900, true, 28⟩] := by
  constructor
  · rfl
  · decide

/-- nothing else is lost and nothing later depends on it: for EVERY block list and every hook script the imported
node commits the same signals, the same subscriber stores, and timers equal up to `CurrentEpochStartHeight` -/
theorem epochs_run_after_import (ctxT ctxH : Int) (s : Epochs.State)
    (hs : s.timers.Pairwise (fun a b => a.identifier < b.identifier))
    (hv : ∀ e ∈ s.timers, Epochs.validate e = true ∧ e.startTime ≠ 0) (bs : List Epochs.Block) :
    ∃ s', epochsImport ctxT ctxH s.subs (epochsExport s) = some s' ∧
      (epochsRun s' bs).2 = (epochsRun s bs).2 ∧
      (epochsRun s' bs).1.subs = (epochsRun s bs).1.subs ∧
      AllEqModH (epochsRun s' bs).1.timers (epochsRun s bs).1.timers := by
  refine ⟨_, epochs_export_import_eq_modulo_start_height ctxT ctxH s hs hv, ?_⟩
  have h0 : StateEqModH { timers := s.timers.map (setH ctxH), subs := s.subs } s := ⟨forall₂_setH ctxH s.timers, rfl⟩
  obtain ⟨⟨h1, h2⟩, h3⟩ := epochsRun_eqModH bs _ _ h0
  exact ⟨h3, h2, h1⟩

/-! ### osmoutils/sumtree (x/lockup accumulation store) -/

/-- export (ordered iteration) then import (new tree + one Set per leaf) never fails, yields a well-formed tree with
the SAME leaves — whatever the shape of the original tree was -/
theorem sumtree_export_import_abs {s : SumTree.Store} (h : SumTree.WF s) :
    ∃ s', sumtreeImport s.m (sumtreeExport s) = some s' ∧ SumTree.WF s' ∧ SumTree.abs s' = SumTree.abs s ∧ s'.m = s.m := by
  obtain ⟨s0, h0, hw0, ha0, hm0⟩ := SumTree.new_wf h.m2
  obtain ⟨s1, h1, hw1, ha1, hm1⟩ := foldlM_set_wf (sumtreeExport s) hw0
  refine ⟨s1, ?_, hw1, ?_, by rw [hm1, hm0]⟩
  · simp only [sumtreeImport, h0]; exact h1
  · rw [ha1, ha0]
    obtain ⟨hsorted, v, rest, hl⟩ := h.good
    exact reinsert_good s.leaves hsorted v rest hl

/-- every query of the imported tree agrees with the original -/
theorem sumtree_queries_agree_after_import {s : SumTree.Store} (h : SumTree.WF s) :
    ∃ s', sumtreeImport s.m (sumtreeExport s) = some s' ∧
      (∀ k, SumTree.get s' k = SumTree.get s k) ∧
      (∀ k, SumTree.splitAcc s' k = SumTree.splitAcc s k) ∧
      SumTree.iterate s' = SumTree.iterate s := by
  obtain ⟨s', h1, hw, ha, _⟩ := sumtree_export_import_abs h
  refine ⟨s', h1, ?_, ?_, ?_⟩
  · intro k; rw [SumTree.get_correct s' k, SumTree.get_correct s k, ha]
  · intro k; rw [SumTree.splitAcc_correct hw k, SumTree.splitAcc_correct h k, ha]
  · exact ha

/-- the history `Set [3] 1; Set [1] 2; Set [2] 3` on a fan-out-2 tree (C16 counts m = 2 as a tree on which only
insert-only histories are proved right) -/
def exTree : Option SumTree.Store := do
  let s0 ← SumTree.new 2
  let s1 ← SumTree.set s0 (SumTree.Ptr.of [3]) 1
  let s2 ← SumTree.set s1 (SumTree.Ptr.of [1]) 2
  SumTree.set s2 (SumTree.Ptr.of [2]) 3

/-- … which is why the statements above are about the abstraction and the queries: the INTERNAL SHAPE of the imported
tree may differ from the exported one (same leaves, different nodes) -/
theorem sumtree_shape_differs_witness :
    (exTree.bind fun s => (sumtreeImport s.m (sumtreeExport s)).map fun s' =>
      (s'.leaves == s.leaves, s'.levels == s.levels)) = some (true, false) := by decide +kernel

/-! ### osmoutils/accum (x/concentrated-liquidity accumulators) -/

/-- export/import of the accumulator store is the identity (distinct names / position keys, names accepted by
`setAccumulator`) -/
theorem accum_export_import_eq (st : Accum.Store)
    (h1 : (st.accs.map Prod.fst).Nodup) (h2 : (st.poss.map Prod.fst).Nodup)
    (h3 : ∀ a ∈ st.accs, Accum.hasSep a.1 = false) :
    accumImport (accumExport st) = some st := by
  obtain ⟨accs, poss⟩ := st
  simp only at h1 h2 h3
  have step1 : ∀ (l pre : List (String × Accum.Content)), ((pre ++ l).map Prod.fst).Nodup →
      (∀ a ∈ l, Accum.hasSep a.1 = false) → ∀ ps,
      l.foldlM accumImportAcc (⟨pre, ps⟩ : Accum.Store) = some ⟨pre ++ l, ps⟩ := by
    intro l
    induction l with
    | nil => intro pre _ _ ps; simp
    | cons a r ih =>
      intro pre hn hs ps
      obtain ⟨n, c⟩ := a
      have hk : n ∉ pre.map Prod.fst := by
        rw [List.map_append, List.nodup_append] at hn
        intro hc; exact hn.2.2 n hc n (by simp) rfl
      have hsep : Accum.hasSep n = false := hs (n, c) List.mem_cons_self
      have hstep : Accum.setAccumulator (⟨pre, ps⟩ : Accum.Store) n c.value c.total = (⟨pre ++ [(n, c)], ps⟩, true) := by
        obtain ⟨cv, ct⟩ := c
        simp only [Accum.setAccumulator, hsep, Bool.false_eq_true, if_false]
        rw [aset_new pre n _ hk]
      have e1 : (pre ++ [(n, c)]) ++ r = pre ++ (n, c) :: r := by simp
      have := ih (pre ++ [(n, c)]) (by rw [e1]; exact hn) (fun a ha => hs a (List.mem_cons_of_mem _ ha)) ps
      rw [List.foldlM_cons]
      simp only [accumImportAcc, hstep, bind, Option.bind]
      rw [this, e1]
  have s1 := step1 accs [] (by simpa using h1) h3 []
  unfold accumImport accumExport Accum.Store.empty
  simp only []
  rw [s1]
  simp only [Option.map_some, List.nil_append]
  have : ∀ (l : List ((String × String) × Accum.Record)) (st : Accum.Store),
      l.foldl (fun st r => st.setPos r.1.1 r.1.2 r.2) st =
        { st with poss := l.foldl (fun acc kv => Accum.aset acc kv.1 kv.2) st.poss } := by
    intro l; induction l with
    | nil => intro st; rfl
    | cons x r ih =>
      intro st
      obtain ⟨⟨x1, x2⟩, x3⟩ := x
      rw [List.foldl_cons, ih]
      rfl
  rw [this, foldl_aset poss [] (by simpa using h2)]
  simp

/-- hence every later operation sequence behaves identically -/
theorem accum_run_after_import (st : Accum.Store)
    (h1 : (st.accs.map Prod.fst).Nodup) (h2 : (st.poss.map Prod.fst).Nodup)
    (h3 : ∀ a ∈ st.accs, Accum.hasSep a.1 = false) (ops : List Accum.Op) :
    (accumImport (accumExport st)).map (fun s => Accum.run s ops) = some (Accum.run st ops) := by
  rw [accum_export_import_eq st h1 h2 h3]; rfl

end OsmoVerif.Props.C19
