/-
C20 — only the owner or admin can move or alter what they own.

Theorems over `OsmoVerif.Auth` for ALL states, senders and arguments.  The model is tied to the Go
code by (T1) the extracted guard expressions pinned below (`guards_pinned`, `calls_pinned`,
`order_pinned`: a dropped, weakened or re-ordered comparison in the Go source changes
`Gen/Auth.lean` and breaks the obligation) and (T2) the `auth` engine, which replays every message it
sends to the real msg servers through `Auth.step`.
-/
import OsmoVerif.Model.Auth
import OsmoVerif.Proofs.AuthLemmas
import OsmoVerif.Gen.Auth

namespace OsmoVerif.Props.C20
open OsmoVerif.Auth

/-- walk an `if … then none else …` chain whose result is known: reject every branch. -/
macro "reject" : tactic => `(tactic| repeat' (first | rfl | contradiction | split))
/-- walk a handler equation `h : handler … = some s'` down to its success leaves. -/
macro "unpack " h:ident : tactic => `(tactic| repeat' (first | cases $h:ident | split at $h:ident))

/-- a handler that rejects leaves the state untouched (by construction of `step`). -/
theorem step_err_of_none {s : State} {m : Msg} (h : apply s m = none) : step s m = (s, .err) := by
  unfold step; rw [h]

theorem rejection_returns_input (s : State) (m : Msg) (h : (step s m).2 = .err) : (step s m).1 = s := by
  unfold step at *
  cases ha : apply s m with
  | none => rfl
  | some s' => rw [ha] at h; cases h

/-! ## tokenfactory: every admin message from anybody but the current admin is rejected -/

theorem tfMint_unauthorized (s : State) (sender denom : String) (amt : Int) (to : String)
    (h : sender ≠ adminOf s denom) : step s (.tfMint sender denom amt to) = (s, .err) := by
  apply step_err_of_none
  show tfMint s sender denom amt to = none
  unfold tfMint
  reject

theorem tfBurn_unauthorized (s : State) (sender denom : String) (amt : Int) (frm : String)
    (h : sender ≠ adminOf s denom) : step s (.tfBurn sender denom amt frm) = (s, .err) := by
  apply step_err_of_none
  show tfBurn s sender denom amt frm = none
  unfold tfBurn
  rw [if_pos h]

theorem tfForce_unauthorized (s : State) (sender denom : String) (amt : Int) (frm to : String)
    (h : sender ≠ adminOf s denom) : step s (.tfForce sender denom amt frm to) = (s, .err) := by
  apply step_err_of_none
  show tfForce s sender denom amt frm to = none
  unfold tfForce
  rw [if_pos h]

theorem tfChangeAdmin_unauthorized (s : State) (sender denom newAdmin : String)
    (h : sender ≠ adminOf s denom) : step s (.tfChangeAdmin sender denom newAdmin) = (s, .err) := by
  apply step_err_of_none
  show tfChangeAdmin s sender denom newAdmin = none
  unfold tfChangeAdmin
  rw [if_pos h]

theorem tfSetMeta_unauthorized (s : State) (sender base : String) (v : Bool) (desc : String)
    (h : sender ≠ adminOf s base) : step s (.tfSetMeta sender base v desc) = (s, .err) := by
  apply step_err_of_none
  show tfSetMeta s sender base v desc = none
  unfold tfSetMeta
  reject

theorem tfSetHook_unauthorized (s : State) (sender denom cw : String)
    (h : sender ≠ adminOf s denom) : step s (.tfSetHook sender denom cw) = (s, .err) := by
  apply step_err_of_none
  show tfSetHook s sender denom cw = none
  unfold tfSetHook
  rw [if_pos h]

/-- **After an administrator is renounced nobody can exercise these powers.**  Real senders are
valid (non-empty) addresses; see `renounced_empty_sender_witness` for why `sender ≠ ""` is needed. -/
theorem renounced_admin_is_dead (s : State) (denom : String) (hr : adminOf s denom = "")
    (sender : String) (hs : sender ≠ "") :
    (∀ amt to, step s (.tfMint sender denom amt to) = (s, .err)) ∧
    (∀ amt frm, step s (.tfBurn sender denom amt frm) = (s, .err)) ∧
    (∀ amt frm to, step s (.tfForce sender denom amt frm to) = (s, .err)) ∧
    (∀ newAdmin, step s (.tfChangeAdmin sender denom newAdmin) = (s, .err)) ∧
    (∀ v desc, step s (.tfSetMeta sender denom v desc) = (s, .err)) ∧
    (∀ cw, step s (.tfSetHook sender denom cw) = (s, .err)) := by
  have h : sender ≠ adminOf s denom := by rw [hr]; exact hs
  exact ⟨fun _ _ => tfMint_unauthorized _ _ _ _ _ h, fun _ _ => tfBurn_unauthorized _ _ _ _ _ h,
    fun _ _ _ => tfForce_unauthorized _ _ _ _ _ _ h, fun _ => tfChangeAdmin_unauthorized _ _ _ _ h,
    fun _ _ => tfSetMeta_unauthorized _ _ _ _ _ h, fun _ => tfSetHook_unauthorized _ _ _ _ h⟩

/-- a denom that was never created has admin "" and is therefore as dead as a renounced one. -/
theorem unknown_denom_is_dead (s : State) (denom : String) (hn : aget denom s.admins = none) :
    adminOf s denom = "" := by
  unfold adminOf; rw [hn]

/-! ### renounced is forever: no history of messages from real senders brings an admin back -/

def run (s : State) : List Msg → State
  | [] => s
  | m :: ms => run (step s m).1 ms

/-- the denom exists (has bank metadata, as every created denom does) and its admin is "". -/
def Renounced (s : State) (d : String) : Prop := (aget d s.metadata).isSome = true ∧ adminOf s d = ""

/-- messages that write the admin table or the bank metadata -/
def touchesAdmin : Msg → Bool
  | .tfCreate .. | .tfChangeAdmin .. | .tfSetMeta .. => true
  | _ => false

theorem clCollectAll_eq (s s' : State) (a : String) : ∀ ids, clCollectAll s a ids = some s' → s' = s := by
  intro ids
  induction ids with
  | nil => intro h; injection h with h; exact h.symm
  | cons i t ih =>
    intro h
    unfold clCollectAll at h
    split at h; · cases h
    split at h; · cases h
    exact ih h

/-- the shape of a successful AddToConcentratedLiquiditySuperfluidPosition -/
theorem sfAddToCL_some {s s' : State} {a : String} {i : Nat} {x y n : Int}
    (h : sfAddToCL s a i x y n = some s') :
    ∃ (p : Position) (l : Lock), aget i s.positions = some p ∧
      s' = { s with positions := aset s.nextPos { owner := a, pool := p.pool, locked := true, lockId := s.lastLock + 1 }
                                   (aerase i s.positions),
                    nextPos := s.nextPos + 1,
                    locks := aset (s.lastLock + 1) { l with owner := a, recv := "", amt := n, unlocking := false, sf := SF.bonded }
                               (aerase p.lockId s.locks),
                    lastLock := s.lastLock + 1 } := by
  unfold sfAddToCL at h
  split at h; · cases h
  cases hp : aget i s.positions with
  | none => rw [hp] at h; cases h
  | some p =>
    rw [hp] at h
    simp only at h
    split at h; · cases h
    split at h; · cases h
    cases hl : aget p.lockId s.locks with
    | none => rw [hl] at h; cases h
    | some l =>
      rw [hl] at h
      simp only at h
      unfold sfAddToCLLock at h
      split at h; · cases h
      split at h; · cases h
      split at h; · cases h
      split at h; · cases h
      split at h; · cases h
      split at h; · cases h
      injection h with h
      exact ⟨p, l, rfl, h.symm⟩

/-- every other message leaves the admin table and the metadata alone. -/
theorem apply_admin_frame (s s' : State) (m : Msg) (ht : touchesAdmin m = false) (hap : apply s m = some s') :
    s'.admins = s.admins ∧ s'.metadata = s.metadata := by
  cases m with
  | tfCreate | tfChangeAdmin | tfSetMeta => cases ht
  | clFees a ids =>
    simp only [apply, clCollect] at hap
    split at hap; · cases hap
    rw [clCollectAll_eq s s' a ids hap]; exact ⟨rfl, rfl⟩
  | clIncentives a ids =>
    simp only [apply, clCollect] at hap
    split at hap; · cases hap
    rw [clCollectAll_eq s s' a ids hap]; exact ⟨rfl, rfl⟩
  | tfMint => simp only [apply, tfMint] at hap; unpack hap; all_goals exact ⟨rfl, rfl⟩
  | tfBurn => simp only [apply, tfBurn] at hap; unpack hap; all_goals exact ⟨rfl, rfl⟩
  | tfForce => simp only [apply, tfForce] at hap; unpack hap; all_goals exact ⟨rfl, rfl⟩
  | tfSetHook => simp only [apply, tfSetHook] at hap; unpack hap; all_goals exact ⟨rfl, rfl⟩
  | lkBegin => simp only [apply, lkBegin] at hap; unpack hap; all_goals exact ⟨rfl, rfl⟩
  | lkExtend => simp only [apply, lkExtend] at hap; unpack hap; all_goals exact ⟨rfl, rfl⟩
  | lkSetRecv => simp only [apply, lkSetRecv] at hap; unpack hap; all_goals exact ⟨rfl, rfl⟩
  | lkForce => simp only [apply, lkForce] at hap; unpack hap; all_goals exact ⟨rfl, rfl⟩
  | clWithdraw => simp only [apply, clWithdraw] at hap; unpack hap; all_goals exact ⟨rfl, rfl⟩
  | clAdd => simp only [apply, clAdd] at hap; unpack hap; all_goals exact ⟨rfl, rfl⟩
  | clTransfer => simp only [apply, clTransfer] at hap; unpack hap; all_goals exact ⟨rfl, rfl⟩
  | sfDelegate => simp only [apply, sfDelegate] at hap; unpack hap; all_goals exact ⟨rfl, rfl⟩
  | sfUndelegate => simp only [apply, sfUndelegate] at hap; unpack hap; all_goals exact ⟨rfl, rfl⟩
  | sfUnbond => simp only [apply, sfUnbond] at hap; unpack hap; all_goals exact ⟨rfl, rfl⟩
  | sfUndelegateUnbond => simp only [apply, sfUndelegateUnbond] at hap; unpack hap; all_goals exact ⟨rfl, rfl⟩
  | lkBeginAll => simp only [apply, lkBeginAll] at hap; unpack hap; all_goals exact ⟨rfl, rfl⟩
  | sfConvert => simp only [apply, sfConvert] at hap; unpack hap; all_goals exact ⟨rfl, rfl⟩
  | sfMigrate => simp only [apply, sfMigrate] at hap; cases hap
  | sfAddToCL a i x y n =>
    obtain ⟨p, l, _, e⟩ := sfAddToCL_some (show sfAddToCL s a i x y n = some s' from hap)
    rw [e]; exact ⟨rfl, rfl⟩
  | vpDelegateBonded => simp only [apply, vpDelegateBonded] at hap; unpack hap; all_goals exact ⟨rfl, rfl⟩
  | gmScaling => simp only [apply, gmScaling] at hap; unpack hap; all_goals exact ⟨rfl, rfl⟩
  | sfUnpoolNoLock => simp only [apply, sfUnpoolNoLock] at hap; unpack hap; all_goals exact ⟨rfl, rfl⟩

theorem adminOf_congr {s s' : State} (h : s'.admins = s.admins) (d : String) : adminOf s' d = adminOf s d := by
  unfold adminOf; rw [h]

theorem adminOf_aset_ne (s : State) {dn d : String} (n : String) (h : dn ≠ d) (l : State)
    (hl : l.admins = aset dn n s.admins) : adminOf l d = adminOf s d := by
  unfold adminOf; rw [hl, aget_aset_ne h]

theorem renounced_step (s : State) (d : String) (h : Renounced s d) (m : Msg) (hs : m.sender ≠ "") :
    Renounced (step s m).1 d := by
  obtain ⟨hm, ha⟩ := h
  unfold step
  cases hap : apply s m with
  | none => exact ⟨hm, ha⟩
  | some s' =>
    show Renounced s' d
    by_cases ht : touchesAdmin m = false
    · obtain ⟨e1, e2⟩ := apply_admin_frame s s' m ht hap
      exact ⟨by rw [e2]; exact hm, by rw [adminOf_congr e1]; exact ha⟩
    · cases m with
      | tfCreate a sub =>
        simp only [apply, tfCreate] at hap
        unpack hap
        all_goals (
          have hex : ¬ (aget (mkDenom a sub) s.metadata).isSome = true := by assumption
          have hne : mkDenom a sub ≠ d := fun e => hex (by rw [e]; exact hm)
          refine ⟨?_, ?_⟩
          · show (aget d (aset (mkDenom a sub) "" s.metadata)).isSome = true
            rw [aget_aset_ne hne]; exact hm
          · rw [adminOf_aset_ne s a hne _ rfl]; exact ha)
      | tfChangeAdmin a dn n =>
        simp only [apply, tfChangeAdmin] at hap
        unpack hap
        have hg : ¬ a ≠ adminOf s dn := by assumption
        have hne : dn ≠ d := by
          intro e
          subst e
          have : a = adminOf s dn := Classical.not_not.mp hg
          rw [ha] at this
          exact hs this
        exact ⟨hm, by rw [adminOf_aset_ne s n hne _ rfl]; exact ha⟩
      | tfSetMeta a b v t =>
        simp only [apply, tfSetMeta] at hap
        unpack hap
        refine ⟨?_, ha⟩
        show (aget d (aset b t s.metadata)).isSome = true
        by_cases e : b = d
        · subst e; rw [aget_aset_self]; rfl
        · rw [aget_aset_ne e]; exact hm
      | _ => exact absurd rfl ht

/-- **Quantified over histories**: once a created denom's admin is renounced, after ANY sequence of
messages of ANY type from real senders the admin is still "" — so (by `renounced_admin_is_dead`)
every admin message keeps failing forever. -/
theorem renounced_forever (d : String) : ∀ (ms : List Msg) (s : State), Renounced s d →
    (∀ m ∈ ms, m.sender ≠ "") → Renounced (run s ms) d := by
  intro ms
  induction ms with
  | nil => intro s h _; exact h
  | cons m t ih =>
    intro s h hs
    exact ih _ (renounced_step s d h m (hs m List.mem_cons_self)) (fun m' hm' => hs m' (List.mem_cons_of_mem _ hm'))

/-! ## lockup -/

theorem lkBegin_unauthorized (s : State) (sender : String) (id : Nat) (amt : Int)
    (h : ownerOfLock s id ≠ some sender) : step s (.lkBegin sender id amt) = (s, .err) := by
  apply step_err_of_none
  show lkBegin s sender id amt = none
  unfold lkBegin
  unfold ownerOfLock at h
  cases hl : aget id s.locks with
  | none => rfl
  | some l =>
    rw [hl] at h
    have : sender ≠ l.owner := fun e => h (by rw [e]; rfl)
    simp only [if_pos this]

theorem lkExtend_unauthorized (s : State) (sender : String) (id : Nat) (dur : Int)
    (h : ownerOfLock s id ≠ some sender) : step s (.lkExtend sender id dur) = (s, .err) := by
  apply step_err_of_none
  show lkExtend s sender id dur = none
  unfold lkExtend
  unfold ownerOfLock at h
  split
  · rfl
  · cases hl : aget id s.locks with
    | none => rfl
    | some l =>
      rw [hl] at h
      have : l.owner ≠ sender := fun e => h (by rw [← e]; rfl)
      simp only [if_pos this]

theorem lkSetRecv_unauthorized (s : State) (sender : String) (id : Nat) (recv : String)
    (h : ownerOfLock s id ≠ some sender) : step s (.lkSetRecv sender id recv) = (s, .err) := by
  apply step_err_of_none
  show lkSetRecv s sender id recv = none
  unfold lkSetRecv
  unfold ownerOfLock at h
  split
  · rfl
  · split
    · rfl
    · cases hl : aget id s.locks with
      | none => rfl
      | some l =>
        rw [hl] at h
        have : l.owner ≠ sender := fun e => h (by rw [← e]; rfl)
        simp only [if_pos this]

/-- ForceUnlock needs BOTH: the sender owns the lock AND is on the governance allow-list. -/
theorem lkForce_unauthorized (s : State) (sender : String) (id : Nat) (amt : Int)
    (h : ownerOfLock s id ≠ some sender ∨ sender ∉ s.allowed) : step s (.lkForce sender id amt) = (s, .err) := by
  apply step_err_of_none
  show lkForce s sender id amt = none
  unfold lkForce
  unfold ownerOfLock at h
  cases hl : aget id s.locks with
  | none => rfl
  | some l =>
    rw [hl] at h
    by_cases ho : l.owner = sender
    · have hna : l.owner ∉ s.allowed := by
        rcases h with h | h
        · exact absurd (by rw [← ho]; rfl) h
        · rw [ho]; exact h
      simp only [ho, ne_eq, not_true_eq_false, if_false]
      rw [ho] at hna
      simp only [if_pos hna]
    · simp only [if_pos ho]

/-! ## concentrated liquidity -/

theorem clWithdraw_unauthorized (s : State) (sender : String) (id : Nat) (k : WKind)
    (h : ownerOfPosition s id ≠ some sender) : step s (.clWithdraw sender id k) = (s, .err) := by
  apply step_err_of_none
  show clWithdraw s sender id k = none
  unfold clWithdraw
  unfold ownerOfPosition at h
  split
  · rfl
  · cases hl : aget id s.positions with
    | none => rfl
    | some p =>
      rw [hl] at h
      have : sender ≠ p.owner := fun e => h (by rw [e]; rfl)
      simp only [if_pos this]

theorem clAdd_unauthorized (s : State) (sender : String) (id : Nat) (a0 a1 : Int)
    (h : ownerOfPosition s id ≠ some sender) : step s (.clAdd sender id a0 a1) = (s, .err) := by
  apply step_err_of_none
  show clAdd s sender id a0 a1 = none
  unfold clAdd
  unfold ownerOfPosition at h
  split
  · rfl
  · cases hl : aget id s.positions with
    | none => rfl
    | some p =>
      rw [hl] at h
      have : sender ≠ p.owner := fun e => h (by rw [e]; rfl)
      simp only [if_pos this]

theorem clCollectAll_unauthorized (s : State) (sender : String) : ∀ (ids : List Nat),
    (∃ id ∈ ids, ownerOfPosition s id ≠ some sender) → clCollectAll s sender ids = none := by
  intro ids
  induction ids with
  | nil => intro ⟨_, hm, _⟩; cases hm
  | cons i t ih =>
    intro ⟨id, hm, ho⟩
    unfold clCollectAll
    cases hl : aget i s.positions with
    | none => rfl
    | some p =>
      by_cases hp : sender ≠ p.owner
      · simp only [if_pos hp]
      · simp only [if_neg hp]
        apply ih
        rcases List.mem_cons.mp hm with e | hm'
        · subst e
          unfold ownerOfPosition at ho
          rw [hl] at ho
          exact absurd (by rw [Classical.not_not.mp hp]; rfl) ho
        · exact ⟨id, hm', ho⟩

/-- collecting spread rewards: one position in the list that is not the sender's rejects the whole message. -/
theorem clFees_unauthorized (s : State) (sender : String) (ids : List Nat)
    (h : ∃ id ∈ ids, ownerOfPosition s id ≠ some sender) : step s (.clFees sender ids) = (s, .err) := by
  apply step_err_of_none
  show clCollect s sender ids = none
  unfold clCollect
  split
  · rfl
  · exact clCollectAll_unauthorized s sender ids h

theorem clIncentives_unauthorized (s : State) (sender : String) (ids : List Nat)
    (h : ∃ id ∈ ids, ownerOfPosition s id ≠ some sender) : step s (.clIncentives sender ids) = (s, .err) := by
  apply step_err_of_none
  show clCollect s sender ids = none
  unfold clCollect
  split
  · rfl
  · exact clCollectAll_unauthorized s sender ids h

theorem clTransferOne_owner {ps ps' : List (Nat × Position)} {sender n : String} {id : Nat}
    (h : clTransferOne ps false sender n id = some ps') : (aget id ps).map (·.owner) = some sender := by
  unfold clTransferOne at h
  cases hl : aget id ps with
  | none => rw [hl] at h; cases h
  | some p =>
    rw [hl] at h
    simp only at h
    split at h
    · cases h
    · rename_i hg
      have : p.owner = sender := by
        apply Classical.byContradiction
        intro hne
        exact hg ⟨by simp, hne⟩
      simp only [Option.map_some, this]

theorem clTransferOne_frame {ps ps' : List (Nat × Position)} {g : Bool} {sender n : String} {id : Nat}
    (h : clTransferOne ps g sender n id = some ps') (j : Nat) (hj : id ≠ j) : aget j ps' = aget j ps := by
  unfold clTransferOne at h
  cases hl : aget id ps with
  | none => rw [hl] at h; cases h
  | some p =>
    rw [hl] at h
    simp only at h
    split at h; · cases h
    split at h; · cases h
    split at h; · cases h
    injection h with h
    subst h
    rw [aget_aset_ne hj, aget_aerase_ne hj]

theorem clTransferAll_owner (sender n : String) : ∀ (ids : List Nat) (ps ps' : List (Nat × Position)),
    ids.Nodup → clTransferAll ps false sender n ids = some ps' →
    ∀ id ∈ ids, (aget id ps).map (·.owner) = some sender := by
  intro ids
  induction ids with
  | nil => intro _ _ _ _ id hm; cases hm
  | cons i t ih =>
    intro ps ps' hnd h id hm
    unfold clTransferAll at h
    cases h1 : clTransferOne ps false sender n i with
    | none => rw [h1] at h; cases h
    | some ps1 =>
      rw [h1] at h
      simp only at h
      rcases List.mem_cons.mp hm with e | hm'
      · subst e; exact clTransferOne_owner h1
      · have hnd' := List.nodup_cons.mp hnd
        have := ih ps1 ps' hnd'.2 h id hm'
        have hne : i ≠ id := fun e => hnd'.1 (by rw [e]; exact hm')
        rw [clTransferOne_frame h1 id hne] at this
        exact this

/-- transferring positions: only the owner of EVERY listed position — or the governance module
account, the administrator of this message — gets through. -/
theorem clTransfer_unauthorized (s : State) (sender : String) (ids : List Nat) (newOwner : String)
    (hg : sender ≠ s.gov) (h : ∃ id ∈ ids, ownerOfPosition s id ≠ some sender) :
    step s (.clTransfer sender ids newOwner) = (s, .err) := by
  apply step_err_of_none
  show clTransfer s sender ids newOwner = none
  unfold clTransfer
  split; · rfl
  split; · rfl
  split; · rfl
  rename_i hnd
  have hnd' : ids.Nodup := Classical.not_not.mp hnd
  have hdec : decide (sender = s.gov) = false := by simp [hg]
  rw [hdec]
  cases hall : clTransferAll s.positions false sender newOwner ids with
  | none => rfl
  | some ps' =>
    obtain ⟨id, hm, ho⟩ := h
    exact absurd (clTransferAll_owner sender newOwner ids s.positions ps' hnd' hall id hm) ho

/-! ## superfluid -/

theorem sfDelegate_unauthorized (s : State) (sender : String) (id : Nat) (val : String)
    (h : ownerOfLock s id ≠ some sender) : step s (.sfDelegate sender id val) = (s, .err) := by
  apply step_err_of_none
  show sfDelegate s sender id val = none
  unfold sfDelegate
  unfold ownerOfLock at h
  cases hl : aget id s.locks with
  | none => rfl
  | some l =>
    rw [hl] at h
    have : l.owner ≠ sender := fun e => h (by rw [← e]; rfl)
    simp only [if_pos this]

theorem sfUndelegate_unauthorized (s : State) (sender : String) (id : Nat)
    (h : ownerOfLock s id ≠ some sender) : step s (.sfUndelegate sender id) = (s, .err) := by
  apply step_err_of_none
  show sfUndelegate s sender id = none
  unfold sfUndelegate
  unfold ownerOfLock at h
  cases hl : aget id s.locks with
  | none => rfl
  | some l =>
    rw [hl] at h
    have : l.owner ≠ sender := fun e => h (by rw [← e]; rfl)
    simp only [if_pos this]

theorem sfUnbond_unauthorized (s : State) (sender : String) (id : Nat)
    (h : ownerOfLock s id ≠ some sender) : step s (.sfUnbond sender id) = (s, .err) := by
  apply step_err_of_none
  show sfUnbond s sender id = none
  unfold sfUnbond
  unfold ownerOfLock at h
  cases hl : aget id s.locks with
  | none => rfl
  | some l =>
    rw [hl] at h
    have : l.owner ≠ sender := fun e => h (by rw [← e]; rfl)
    simp only [if_pos this]

theorem sfUndelegateUnbond_unauthorized (s : State) (sender : String) (id : Nat) (amt : Int)
    (h : ownerOfLock s id ≠ some sender) : step s (.sfUndelegateUnbond sender id amt) = (s, .err) := by
  apply step_err_of_none
  show sfUndelegateUnbond s sender id amt = none
  unfold sfUndelegateUnbond
  unfold ownerOfLock at h
  cases hl : aget id s.locks with
  | none => rfl
  | some l =>
    rw [hl] at h
    have : l.owner ≠ sender := fun e => h (by rw [← e]; rfl)
    simp only
    reject

/-! ## the messages of the full inventory -/

/-- **UnbondConvertAndStake** (lock id > 0): a sender who does not own the lock is rejected whatever the
state of the lock (vanilla bonded, unlocking, superfluid bonded / undelegating / unbonding), the
validator named and the sender's own funds or pool shares. -/
theorem sfConvert_unauthorized (s : State) (sender : String) (id : Nat) (val : String)
    (h : ownerOfLock s id ≠ some sender) : step s (.sfConvert sender id val) = (s, .err) := by
  apply step_err_of_none
  show sfConvert s sender id val = none
  unfold sfConvert
  unfold ownerOfLock at h
  split
  · rfl
  · cases hl : aget id s.locks with
    | none => rfl
    | some l =>
      rw [hl] at h
      have : l.owner ≠ sender := fun e => h (by rw [← e]; rfl)
      simp only [if_pos this]
      split <;> rfl

/-- the owner check of `convertLockToStake` is needed on its own: the one in `undelegateCommon` is only
reached for superfluid-BONDED locks.  Witness: dropping the second check (`sfConvertNoOwnCheck`) lets a
stranger convert bob's vanilla lock. -/
def sfConvertNoOwnCheck (s : State) (sender : String) (id : Nat) (val : String) : Option State :=
  if sender ∉ s.valid then none else
  match aget id s.locks with
  | none => none
  | some l =>
    if l.sf = SF.bonded ∧ l.owner ≠ sender then none else
    if !l.dk.isGamm then none else
    if !canStake s sender val then none else
    some { s with locks := aerase id s.locks }

/-- **UnlockAndMigrateSharesToFullRangeConcentratedPosition** is disabled for everybody. -/
theorem sfMigrate_disabled (s : State) (sender : String) (id : Nat) :
    step s (.sfMigrate sender id) = (s, .err) := rfl

/-- **AddToConcentratedLiquiditySuperfluidPosition**: only the owner of the position gets through … -/
theorem sfAddToCL_unauthorized (s : State) (sender : String) (id : Nat) (a0 a1 n : Int)
    (h : ownerOfPosition s id ≠ some sender) : step s (.sfAddToCL sender id a0 a1 n) = (s, .err) := by
  apply step_err_of_none
  show sfAddToCL s sender id a0 a1 n = none
  unfold sfAddToCL
  unfold ownerOfPosition at h
  split
  · rfl
  · cases hp : aget id s.positions with
    | none => rfl
    | some p =>
      rw [hp] at h
      have hne : p.owner ≠ sender := fun e => h (by rw [← e]; rfl)
      simp only
      split; · rfl
      split; · rfl
      cases hl : aget p.lockId s.locks with
      | none => rfl
      | some l =>
        simp only
        unfold sfAddToCLLock
        by_cases h1 : l.owner ≠ p.owner
        · rw [if_pos h1]
        · rw [if_neg h1]
          have h2 : l.owner ≠ sender := by rw [Classical.not_not.mp h1]; exact hne
          rw [if_pos h2]

/-- … and he must own the underlying lock as well. -/
theorem sfAddToCL_lock_unauthorized (s : State) (sender : String) (id : Nat) (a0 a1 n : Int) (p : Position)
    (hp : aget id s.positions = some p) (h : ownerOfLock s p.lockId ≠ some sender) :
    step s (.sfAddToCL sender id a0 a1 n) = (s, .err) := by
  apply step_err_of_none
  show sfAddToCL s sender id a0 a1 n = none
  unfold sfAddToCL
  unfold ownerOfLock at h
  split
  · rfl
  · rw [hp]
    simp only
    split; · rfl
    split; · rfl
    cases hl : aget p.lockId s.locks with
    | none => rfl
    | some l =>
      rw [hl] at h
      have h2 : l.owner ≠ sender := fun e => h (by rw [← e]; rfl)
      simp only
      unfold sfAddToCLLock
      reject

/-- **DelegateBondedTokens** (valset-pref): only the owner of the lock can break it. -/
theorem vpDelegateBonded_unauthorized (s : State) (sender : String) (id : Nat)
    (h : ownerOfLock s id ≠ some sender) : step s (.vpDelegateBonded sender id) = (s, .err) := by
  apply step_err_of_none
  show vpDelegateBonded s sender id = none
  unfold vpDelegateBonded
  unfold ownerOfLock at h
  split
  · rfl
  · cases hl : aget id s.locks with
    | none => rfl
    | some l =>
      rw [hl] at h
      have : l.owner ≠ sender := fun e => h (by rw [← e]; rfl)
      simp only [if_pos this]

/-- **StableSwapAdjustScalingFactors**: only the pool's scaling-factor controller … -/
theorem gmScaling_unauthorized (s : State) (sender : String) (pool : Nat) (k : Bool)
    (h : aget pool s.controllers ≠ some sender) : step s (.gmScaling sender pool k) = (s, .err) := by
  apply step_err_of_none
  show gmScaling s sender pool k = none
  unfold gmScaling
  cases hc : aget pool s.controllers with
  | none => rfl
  | some c =>
    rw [hc] at h
    have : sender ≠ c := fun e => h (by rw [e])
    simp only [if_pos this]

/-- … and a pool created without a controller has none: no real (non-empty) sender ever gets through. -/
theorem gmScaling_no_controller_is_dead (s : State) (sender : String) (pool : Nat) (k : Bool)
    (hc : aget pool s.controllers = some "") (hs : sender ≠ "") : step s (.gmScaling sender pool k) = (s, .err) :=
  gmScaling_unauthorized s sender pool k (by rw [hc]; exact fun e => hs (Option.some.inj e).symm)

/-- **UnPoolWhitelistedPool** from an address that has no lock of the pool's shares changes nothing at all,
accepted or not (the message names no lock; it can only reach the sender's own). -/
theorem sfUnpoolNoLock_changes_nothing (s : State) (sender : String) (pool : Nat) :
    (step s (.sfUnpoolNoLock sender pool)).1 = s := by
  unfold step
  cases hap : apply s (.sfUnpoolNoLock sender pool) with
  | none => rfl
  | some s' =>
    simp only [apply, sfUnpoolNoLock] at hap
    unpack hap
    rfl

/-- **BeginUnlockingAll** names no lock: whatever happens, a lock of somebody else is left exactly as it was. -/
theorem lkBeginAll_foreign_untouched (s : State) (sender : String) (j : Nat) (l0 : Lock)
    (h0 : aget j s.locks = some l0) (hne : l0.owner ≠ sender) :
    aget j (step s (.lkBeginAll sender)).1.locks = some l0 := by
  unfold step
  cases hap : apply s (.lkBeginAll sender) with
  | none => exact h0
  | some s' =>
    simp only [apply, lkBeginAll] at hap
    unpack hap
    show aget j (s.locks.map fun p => (p.1, beginAllOne sender p.2)) = some l0
    rw [aget_map_val, h0]
    show some (beginAllOne sender l0) = some l0
    unfold beginAllOne
    rw [if_neg (fun c => hne c.1)]

/-! ## protected module accounts -/

def isBankAction : Msg → Bool
  | .tfMint .. | .tfBurn .. | .tfForce .. => true
  | _ => false

/-- **mint / burn / force-transfer never reach into a protected module account**: whatever the
sender (the admin included) and the arguments, no balance of any `maccPerms` module account, in any
denom, changes. -/
theorem module_accounts_protected (s : State) (m : Msg) (hm : isBankAction m = true)
    (a : String) (ha : a ∈ s.moduleAccs) (d : String) :
    getBal (step s m).1.bal a d = getBal s.bal a d := by
  unfold step
  cases hap : apply s m with
  | none => rfl
  | some s' =>
    show getBal s'.bal a d = getBal s.bal a d
    cases m with
    | tfMint sender dn x t =>
      simp only [apply, tfMint] at hap
      unpack hap
      have hmod : ¬ orSender t sender ∈ s.moduleAccs := by assumption
      exact getBal_addBal_addr_ne _ _ _ (fun e => hmod (by rw [e]; exact ha))
    | tfBurn sender dn x f =>
      simp only [apply, tfBurn] at hap
      unpack hap
      have hmod : ¬ orSender f sender ∈ s.moduleAccs := by assumption
      exact getBal_addBal_addr_ne _ _ _ (fun e => hmod (by rw [e]; exact ha))
    | tfForce sender dn x f t =>
      simp only [apply, tfForce] at hap
      unpack hap
      have hf : ¬ f ∈ s.moduleAccs := by assumption
      have ht : ¬ t ∈ s.moduleAccs := by assumption
      rename_i b hp
      exact getBal_pay_ne hp (fun e => hf (by rw [e]; exact ha)) (fun e => ht (by rw [e]; exact ha)) d
    | _ => cases hm

/-- in particular a mint TO, a burn FROM and a force-transfer FROM/TO a module account are rejected. -/
theorem module_account_targets_rejected (s : State) (sender dn : String) (x : Int) (a other : String)
    (ha : a ∈ s.moduleAccs) (hne : a ≠ "") :
    step s (.tfMint sender dn x a) = (s, .err) ∧ step s (.tfBurn sender dn x a) = (s, .err) ∧
    step s (.tfForce sender dn x a other) = (s, .err) ∧ step s (.tfForce sender dn x other a) = (s, .err) := by
  have ho : orSender a sender = a := by unfold orSender; rw [if_neg hne]
  refine ⟨?_, ?_, ?_, ?_⟩ <;> apply step_err_of_none
  · show tfMint s sender dn x a = none
    unfold tfMint; rw [ho]; reject
  · show tfBurn s sender dn x a = none
    unfold tfBurn; rw [ho]; reject
  · show tfForce s sender dn x a other = none
    unfold tfForce; reject
  · show tfForce s sender dn x other a = none
    unfold tfForce; reject

/-! ## namespaces -/

/-- **A new denom is always `factory/<sender>/…`**: the message has no creator field, the sender becomes
the admin, and no other denom's admin record changes. -/
theorem createDenom_namespace (s s' : State) (sender sub : String)
    (h : step s (.tfCreate sender sub) = (s', .ok)) :
    s'.admins = aset (mkDenom sender sub) sender s.admins ∧
    adminOf s' (mkDenom sender sub) = sender ∧
    (∀ d, d ≠ mkDenom sender sub → adminOf s' d = adminOf s d) ∧
    '/' ∉ sender.toList ∧ sender ∈ s.valid ∧ aget (mkDenom sender sub) s.metadata = none := by
  unfold step at h
  cases hap : apply s (.tfCreate sender sub) with
  | none => rw [hap] at h; cases h
  | some s1 =>
    rw [hap] at h
    injection h with h1 _
    subst h1
    simp only [apply, tfCreate] at hap
    unpack hap
    all_goals (
      have hslash : ¬ '/' ∈ sender.toList := by assumption
      have hvalid : ¬ ¬ sender ∈ s.valid := by assumption
      have hex : ¬ (aget (mkDenom sender sub) s.metadata).isSome = true := by assumption
      refine ⟨rfl, ?_, ?_, hslash, Classical.not_not.mp hvalid, ?_⟩
      · unfold adminOf
        show (match aget (mkDenom sender sub) (aset (mkDenom sender sub) sender s.admins) with | some x => x | none => "") = sender
        rw [aget_aset_self]
      · intro d hd
        exact adminOf_aset_ne s sender (fun e => hd e.symm) _ rfl
      · cases hg : aget (mkDenom sender sub) s.metadata with
        | none => rfl
        | some v => rw [hg] at hex; exact absurd rfl hex)

/-- **Nobody can create (or re-administer by creating) in someone else's namespace**: a successful
CreateDenom by `sender` leaves the admin of every `factory/<other>/…`, `other ≠ sender`, untouched. -/
theorem createDenom_foreign_namespace_untouched (s s' : State) (sender sub other sub' : String)
    (h : step s (.tfCreate sender sub) = (s', .ok)) (ho : other ≠ sender) (hs : '/' ∉ other.toList) :
    adminOf s' (mkDenom other sub') = adminOf s (mkDenom other sub') := by
  obtain ⟨_, _, hframe, hslash, _, _⟩ := createDenom_namespace s s' sender sub h
  apply hframe
  intro e
  exact ho (mkDenom_creator_injective hs hslash e)

/-! ## the admin record changes only at the hands of the admin -/

/-- for every message: if the admin of a denom differs afterwards, then either the sender was the
current admin (ChangeAdmin) or the denom was just created in the sender's own namespace. -/
theorem admin_changes_only_by_admin (s : State) (m : Msg) (d : String)
    (h : adminOf (step s m).1 d ≠ adminOf s d) :
    (∃ n, m = .tfChangeAdmin (adminOf s d) d n) ∨ (∃ sub, m = .tfCreate m.sender sub ∧ d = mkDenom m.sender sub) := by
  unfold step at h
  cases hap : apply s m with
  | none => rw [hap] at h; exact absurd rfl h
  | some s' =>
    rw [hap] at h
    simp only at h
    by_cases ht : touchesAdmin m = false
    · exact absurd (adminOf_congr (apply_admin_frame s s' m ht hap).1 d) h
    · cases m with
      | tfCreate a sub =>
        right
        refine ⟨sub, rfl, ?_⟩
        have hok : step s (.tfCreate a sub) = (s', .ok) := by unfold step; rw [hap]
        obtain ⟨_, _, hframe, _⟩ := createDenom_namespace s s' a sub hok
        apply Classical.byContradiction
        intro hne
        exact h (hframe d hne)
      | tfChangeAdmin a dn n =>
        left
        simp only [apply, tfChangeAdmin] at hap
        unpack hap
        have hg : ¬ a ≠ adminOf s dn := by assumption
        have ha : a = adminOf s dn := Classical.not_not.mp hg
        by_cases e : dn = d
        · subst e; exact ⟨n, by rw [← ha]⟩
        · exact absurd (adminOf_aset_ne s n e _ rfl) h
      | tfSetMeta a b v t =>
        simp only [apply, tfSetMeta] at hap
        unpack hap
        exact absurd rfl h
      | _ => exact absurd rfl ht

/-! ## ownership records change only at the hands of the owner (any message, any state) -/

theorem owner_aset {locks : List (Nat × Lock)} {id j : Nat} {l lnew l0 l' : Lock}
    (hid : aget id locks = some l) (ho : lnew.owner = l.owner) (h0 : aget j locks = some l0)
    (h' : aget j (aset id lnew locks) = some l') : l'.owner = l0.owner := by
  by_cases e : id = j
  · subst e
    rw [aget_aset_self] at h'
    rw [hid] at h0
    injection h' with h'; injection h0 with h0
    rw [← h', ← h0]; exact ho
  · rw [aget_aset_ne e] at h'
    rw [h0] at h'; injection h' with h'; rw [h']

theorem owner_aset_fresh {locks : List (Nat × Lock)} {id k j : Nat} {l lnew lsplit l0 l' : Lock}
    (hid : aget id locks = some l) (ho : lnew.owner = l.owner) (hk : aget k locks = none)
    (h0 : aget j locks = some l0)
    (h' : aget j (aset k lsplit (aset id lnew locks)) = some l') : l'.owner = l0.owner := by
  have hkj : k ≠ j := fun e => by rw [e, h0] at hk; cases hk
  rw [aget_aset_ne hkj] at h'
  exact owner_aset hid ho h0 h'

/-- **A lock never changes owner**, whatever message is processed (lock ids handed out by a split are
fresh: `lastLock + 1` is unused, as in every reachable state). -/
theorem lock_owner_never_changes (s : State) (m : Msg) (j : Nat) (l0 l' : Lock)
    (hfresh : aget (s.lastLock + 1) s.locks = none)
    (h0 : aget j s.locks = some l0) (h' : aget j (step s m).1.locks = some l') : l'.owner = l0.owner := by
  unfold step at h'
  cases hap : apply s m with
  | none => rw [hap] at h'; simp only at h'; rw [h0] at h'; injection h' with h'; rw [h']
  | some s' =>
    rw [hap] at h'
    simp only at h'
    have same : s'.locks = s.locks → l'.owner = l0.owner := fun e => by
      rw [e, h0] at h'; injection h' with h'; rw [h']
    cases m with
    | clFees a ids =>
      simp only [apply, clCollect] at hap
      split at hap; · cases hap
      exact same (by rw [clCollectAll_eq s s' a ids hap])
    | clIncentives a ids =>
      simp only [apply, clCollect] at hap
      split at hap; · cases hap
      exact same (by rw [clCollectAll_eq s s' a ids hap])
    | tfCreate => simp only [apply, tfCreate] at hap; unpack hap; all_goals exact same rfl
    | tfMint => simp only [apply, tfMint] at hap; unpack hap; all_goals exact same rfl
    | tfBurn => simp only [apply, tfBurn] at hap; unpack hap; all_goals exact same rfl
    | tfForce => simp only [apply, tfForce] at hap; unpack hap; all_goals exact same rfl
    | tfChangeAdmin => simp only [apply, tfChangeAdmin] at hap; unpack hap; all_goals exact same rfl
    | tfSetMeta => simp only [apply, tfSetMeta] at hap; unpack hap; all_goals exact same rfl
    | tfSetHook => simp only [apply, tfSetHook] at hap; unpack hap; all_goals exact same rfl
    | clWithdraw => simp only [apply, clWithdraw] at hap; unpack hap; all_goals exact same rfl
    | clAdd => simp only [apply, clAdd] at hap; unpack hap; all_goals exact same rfl
    | clTransfer => simp only [apply, clTransfer] at hap; unpack hap; all_goals exact same rfl
    | lkBegin a i x =>
      simp only [apply, lkBegin] at hap; unpack hap
      all_goals (first
        | exact owner_aset (by assumption) (by rfl) h0 h'
        | exact owner_aset_fresh (by assumption) (by rfl) hfresh h0 h')
    | lkExtend a i x =>
      simp only [apply, lkExtend] at hap; unpack hap
      all_goals (first
        | exact same rfl
        | exact owner_aset (by assumption) (by rfl) h0 h')
    | lkSetRecv a i r =>
      simp only [apply, lkSetRecv] at hap; unpack hap
      all_goals exact owner_aset (by assumption) (by rfl) h0 h'
    | lkForce a i x =>
      simp only [apply, lkForce] at hap; unpack hap
      · simp only at h'
        by_cases e : i = j
        · subst e; rw [aget_aerase_self] at h'; cases h'
        · rw [aget_aerase_ne e, h0] at h'; injection h' with h'; rw [h']
      · exact owner_aset (by assumption) (by rfl) h0 h'
    | sfDelegate a i v =>
      simp only [apply, sfDelegate] at hap; unpack hap
      all_goals exact owner_aset (by assumption) (by rfl) h0 h'
    | sfUndelegate a i =>
      simp only [apply, sfUndelegate] at hap; unpack hap
      all_goals exact owner_aset (by assumption) (by rfl) h0 h'
    | sfUnbond a i =>
      simp only [apply, sfUnbond] at hap; unpack hap
      all_goals exact owner_aset (by assumption) (by rfl) h0 h'
    | sfUndelegateUnbond a i x =>
      simp only [apply, sfUndelegateUnbond] at hap; unpack hap
      all_goals (first
        | exact owner_aset (by assumption) (by rfl) h0 h'
        | exact owner_aset_fresh (by assumption) (by rfl) hfresh h0 h')
    | sfMigrate => simp only [apply, sfMigrate] at hap; cases hap
    | gmScaling => simp only [apply, gmScaling] at hap; unpack hap; all_goals exact same rfl
    | sfUnpoolNoLock => simp only [apply, sfUnpoolNoLock] at hap; unpack hap; all_goals exact same rfl
    | sfConvert a i v =>
      simp only [apply, sfConvert] at hap; unpack hap
      simp only at h'
      by_cases e : i = j
      · subst e; rw [aget_aerase_self] at h'; cases h'
      · rw [aget_aerase_ne e, h0] at h'; injection h' with h'; rw [h']
    | vpDelegateBonded a i =>
      simp only [apply, vpDelegateBonded] at hap; unpack hap
      simp only at h'
      by_cases e : i = j
      · subst e; rw [aget_aerase_self] at h'; cases h'
      · rw [aget_aerase_ne e, h0] at h'; injection h' with h'; rw [h']
    | lkBeginAll a =>
      simp only [apply, lkBeginAll] at hap; unpack hap
      simp only at h'
      rw [aget_map_val, h0] at h'
      injection h' with h'
      rw [← h']
      unfold beginAllOne
      split <;> rfl
    | sfAddToCL a i x y n =>
      obtain ⟨p, l, _, e⟩ := sfAddToCL_some (show sfAddToCL s a i x y n = some s' from hap)
      rw [e] at h'
      simp only at h'
      have hk : s.lastLock + 1 ≠ j := fun e => by rw [e, h0] at hfresh; cases hfresh
      rw [aget_aset_ne hk] at h'
      by_cases e : p.lockId = j
      · rw [e, aget_aerase_self] at h'; cases h'
      · rw [aget_aerase_ne e, h0] at h'; injection h' with h'; rw [h']

theorem clTransferOne_cases {ps ps' : List (Nat × Position)} {g : Bool} {sender n : String} {id : Nat}
    (h : clTransferOne ps g sender n id = some ps') :
    ∃ p, aget id ps = some p ∧ (g = true ∨ p.owner = sender) ∧
      aget id ps' = some { p with owner := n, locked := false } := by
  unfold clTransferOne at h
  cases hl : aget id ps with
  | none => rw [hl] at h; cases h
  | some p =>
    rw [hl] at h
    simp only at h
    split at h; · cases h
    rename_i hg
    split at h; · cases h
    split at h; · cases h
    injection h with h
    subst h
    refine ⟨p, rfl, ?_, by rw [aget_aset_self]⟩
    cases g with
    | true => exact Or.inl rfl
    | false =>
      right
      apply Classical.byContradiction
      intro hne
      exact hg ⟨by simp, hne⟩

theorem clTransferAll_owner_change (sender n : String) (g : Bool) : ∀ (ids : List Nat) (ps ps' : List (Nat × Position))
    (j : Nat) (p0 p' : Position), clTransferAll ps g sender n ids = some ps' →
    aget j ps = some p0 → aget j ps' = some p' → p'.owner ≠ p0.owner →
    j ∈ ids ∧ (g = true ∨ sender = p0.owner) := by
  intro ids
  induction ids with
  | nil =>
    intro ps ps' j p0 p' h h0 h' hne
    injection h with h
    subst h
    rw [h0] at h'; injection h' with h'
    exact absurd (by rw [h']) hne
  | cons i t ih =>
    intro ps ps' j p0 p' h h0 h' hne
    unfold clTransferAll at h
    cases h1 : clTransferOne ps g sender n i with
    | none => rw [h1] at h; cases h
    | some ps1 =>
      rw [h1] at h
      simp only at h
      obtain ⟨p, hp, hauth, hset⟩ := clTransferOne_cases h1
      by_cases e : i = j
      · subst e
        rw [hp] at h0
        injection h0 with h0
        subst h0
        exact ⟨List.mem_cons_self, hauth.imp id Eq.symm⟩
      · have hj1 : aget j ps1 = some p0 := by rw [clTransferOne_frame h1 j e]; exact h0
        obtain ⟨hm, ha⟩ := ih ps1 ps' j p0 p' h hj1 h' hne
        exact ⟨List.mem_cons_of_mem _ hm, ha⟩

/-- **A position changes owner only through TransferPositions sent by its current owner or by the
governance module account** — for every message type and every state (position ids handed out by
AddToPosition are fresh: `nextPos` is unused, as in every reachable state). -/
theorem position_owner_changes_only_by_owner_or_gov (s : State) (m : Msg) (j : Nat) (p0 p' : Position)
    (hfresh : aget s.nextPos s.positions = none)
    (h0 : aget j s.positions = some p0) (h' : aget j (step s m).1.positions = some p')
    (hne : p'.owner ≠ p0.owner) :
    ∃ ids n, m = .clTransfer m.sender ids n ∧ j ∈ ids ∧ (m.sender = s.gov ∨ m.sender = p0.owner) := by
  unfold step at h'
  cases hap : apply s m with
  | none => rw [hap] at h'; simp only at h'; rw [h0] at h'; injection h' with h'; exact absurd (by rw [h']) hne
  | some s' =>
    rw [hap] at h'
    simp only at h'
    have same : s'.positions = s.positions → False := fun e => by
      rw [e, h0] at h'; injection h' with h'; exact hne (by rw [h'])
    cases m with
    | clFees a ids =>
      simp only [apply, clCollect] at hap
      split at hap; · cases hap
      exact absurd (by rw [clCollectAll_eq s s' a ids hap]) same
    | clIncentives a ids =>
      simp only [apply, clCollect] at hap
      split at hap; · cases hap
      exact absurd (by rw [clCollectAll_eq s s' a ids hap]) same
    | tfCreate => simp only [apply, tfCreate] at hap; unpack hap; all_goals exact absurd rfl same
    | tfMint => simp only [apply, tfMint] at hap; unpack hap; all_goals exact absurd rfl same
    | tfBurn => simp only [apply, tfBurn] at hap; unpack hap; all_goals exact absurd rfl same
    | tfForce => simp only [apply, tfForce] at hap; unpack hap; all_goals exact absurd rfl same
    | tfChangeAdmin => simp only [apply, tfChangeAdmin] at hap; unpack hap; all_goals exact absurd rfl same
    | tfSetMeta => simp only [apply, tfSetMeta] at hap; unpack hap; all_goals exact absurd rfl same
    | tfSetHook => simp only [apply, tfSetHook] at hap; unpack hap; all_goals exact absurd rfl same
    | lkBegin => simp only [apply, lkBegin] at hap; unpack hap; all_goals exact absurd rfl same
    | lkExtend => simp only [apply, lkExtend] at hap; unpack hap; all_goals exact absurd rfl same
    | lkSetRecv => simp only [apply, lkSetRecv] at hap; unpack hap; all_goals exact absurd rfl same
    | lkForce => simp only [apply, lkForce] at hap; unpack hap; all_goals exact absurd rfl same
    | sfDelegate => simp only [apply, sfDelegate] at hap; unpack hap; all_goals exact absurd rfl same
    | sfUndelegate => simp only [apply, sfUndelegate] at hap; unpack hap; all_goals exact absurd rfl same
    | sfUnbond => simp only [apply, sfUnbond] at hap; unpack hap; all_goals exact absurd rfl same
    | sfUndelegateUnbond => simp only [apply, sfUndelegateUnbond] at hap; unpack hap; all_goals exact absurd rfl same
    | lkBeginAll => simp only [apply, lkBeginAll] at hap; unpack hap; all_goals exact absurd rfl same
    | sfConvert => simp only [apply, sfConvert] at hap; unpack hap; all_goals exact absurd rfl same
    | sfMigrate => simp only [apply, sfMigrate] at hap; cases hap
    | vpDelegateBonded => simp only [apply, vpDelegateBonded] at hap; unpack hap; all_goals exact absurd rfl same
    | gmScaling => simp only [apply, gmScaling] at hap; unpack hap; all_goals exact absurd rfl same
    | sfUnpoolNoLock => simp only [apply, sfUnpoolNoLock] at hap; unpack hap; all_goals exact absurd rfl same
    | sfAddToCL a i x y n =>
      exfalso
      obtain ⟨p, l, _, e⟩ := sfAddToCL_some (show sfAddToCL s a i x y n = some s' from hap)
      rw [e] at h'
      simp only at h'
      have hk : s.nextPos ≠ j := fun e => by rw [e, h0] at hfresh; cases hfresh
      rw [aget_aset_ne hk] at h'
      by_cases e : i = j
      · subst e; rw [aget_aerase_self] at h'; cases h'
      · rw [aget_aerase_ne e, h0] at h'; injection h' with h'; exact hne (by rw [h'])
    | clWithdraw a i k =>
      exfalso
      simp only [apply, clWithdraw] at hap; unpack hap
      · simp only at h'
        by_cases e : i = j
        · subst e; rw [aget_aerase_self] at h'; cases h'
        · rw [aget_aerase_ne e, h0] at h'; injection h' with h'; exact hne (by rw [h'])
      · exact same rfl
    | clAdd a i x y =>
      exfalso
      simp only [apply, clAdd] at hap; unpack hap
      simp only at h'
      have hk : s.nextPos ≠ j := fun e => by rw [e, h0] at hfresh; cases hfresh
      rw [aget_aset_ne hk] at h'
      by_cases e : i = j
      · subst e; rw [aget_aerase_self] at h'; cases h'
      · rw [aget_aerase_ne e, h0] at h'; injection h' with h'; exact hne (by rw [h'])
    | clTransfer a ids n =>
      simp only [apply, clTransfer] at hap
      split at hap; · cases hap
      split at hap; · cases hap
      split at hap; · cases hap
      split at hap
      · cases hap
      · rename_i ps hall
        injection hap with hap
        subst hap
        obtain ⟨hm, ha⟩ := clTransferAll_owner_change a n _ ids s.positions ps j p0 p' hall h0 h' hne
        refine ⟨ids, n, rfl, hm, ?_⟩
        rcases ha with hg | ho
        · left; exact of_decide_eq_true hg
        · right; exact ho

/-! ## non-vacuity: the owner / admin CAN -/

def s0 : State :=
  { valid := ["alice", "bob", "carol", "gov", "distr"], moduleAccs := ["gov", "distr"], contracts := [],
    nativeSupply := ["uosmo"], feeDenom := "uosmo", fee := 10, communityPool := "distr", gov := "gov",
    allowed := ["bob"], unbonding := 100, validators := ["val"],
    admins := [("factory/alice/gold", "alice"), ("factory/alice/dead", "")],
    metadata := [("factory/alice/gold", ""), ("factory/alice/dead", "")], hooks := [],
    bal := [(("bob", "factory/alice/gold"), 50), (("gov", "factory/alice/gold"), 7), (("carol", "uosmo"), 25),
            (("bob", "factory/alice/dead"), 9)],
    supply := [("factory/alice/gold", 57)],
    locks := [(1, ⟨"bob", "", 100, false, 40, true, .none, .gamm 1⟩), (2, ⟨"carol", "", 100, false, 40, true, .bonded, .gamm 1⟩)],
    lastLock := 2,
    positions := [(1, ⟨"alice", 1, false, 0⟩), (2, ⟨"bob", 1, false, 0⟩), (3, ⟨"carol", 1, false, 0⟩)], nextPos := 4 }

/-- every message type goes through for the owner / admin on a concrete state … -/
theorem owner_can :
    (step s0 (.tfCreate "carol" "silver")).2 = .ok ∧
    (step s0 (.tfMint "alice" "factory/alice/gold" 5 "bob")).2 = .ok ∧
    (step s0 (.tfBurn "alice" "factory/alice/gold" 5 "bob")).2 = .ok ∧
    (step s0 (.tfForce "alice" "factory/alice/gold" 5 "bob" "carol")).2 = .ok ∧
    (step s0 (.tfChangeAdmin "alice" "factory/alice/gold" "")).2 = .ok ∧
    (step s0 (.tfSetMeta "alice" "factory/alice/gold" true "shiny")).2 = .ok ∧
    (step s0 (.tfSetHook "alice" "factory/alice/gold" "")).2 = .ok ∧
    (step s0 (.lkBegin "bob" 1 10)).2 = .ok ∧
    (step s0 (.lkExtend "bob" 1 200)).2 = .ok ∧
    (step s0 (.lkSetRecv "bob" 1 "carol")).2 = .ok ∧
    (step s0 (.lkForce "bob" 1 0)).2 = .ok ∧
    (step s0 (.clWithdraw "alice" 1 .full)).2 = .ok ∧
    (step s0 (.clAdd "alice" 1 5 5)).2 = .ok ∧
    (step s0 (.clFees "bob" [2])).2 = .ok ∧
    (step s0 (.clIncentives "bob" [2])).2 = .ok ∧
    (step s0 (.clTransfer "bob" [2] "alice")).2 = .ok ∧
    (step s0 (.clTransfer "gov" [2, 3] "alice")).2 = .ok ∧
    (step s0 (.sfDelegate "bob" 1 "val")).2 = .ok ∧
    (step s0 (.sfUndelegate "carol" 2)).2 = .ok ∧
    (step s0 (.sfUndelegateUnbond "carol" 2 15)).2 = .ok := by decide

/-- … and the very same messages from somebody else are rejected (the hypotheses of the
`_unauthorized` theorems are satisfiable on a non-trivial state). -/
theorem stranger_cannot :
    (step s0 (.tfMint "bob" "factory/alice/gold" 5 "bob")).2 = .err ∧
    (step s0 (.tfBurn "gov" "factory/alice/gold" 5 "bob")).2 = .err ∧
    (step s0 (.lkBegin "carol" 1 10)).2 = .err ∧
    (step s0 (.lkForce "carol" 2 0)).2 = .err ∧
    (step s0 (.clWithdraw "bob" 1 .full)).2 = .err ∧
    (step s0 (.clTransfer "bob" [2, 3] "alice")).2 = .err ∧
    (step s0 (.sfUndelegate "bob" 2)).2 = .err ∧
    (step s0 (.tfBurn "alice" "factory/alice/gold" 5 "gov")).2 = .err ∧
    (step s0 (.tfMint "bob" "factory/alice/dead" 5 "bob")).2 = .err := by decide

def s1 : State :=
  { s0 with delegators := ["alice", "carol"], controllers := [(7, "bob"), (8, "")],
            locks := [(1, ⟨"bob", "", 100, false, 40, true, .none, .gamm 1⟩), (2, ⟨"carol", "", 100, false, 40, true, .bonded, .cl 1⟩),
                      (3, ⟨"alice", "", 100, false, 40, false, .none, .osmo⟩), (4, ⟨"bob", "", 100, true, 40, true, .undelegating, .gamm 1⟩)],
            lastLock := 4,
            positions := [(1, ⟨"alice", 1, false, 0⟩), (2, ⟨"bob", 1, false, 0⟩), (4, ⟨"carol", 1, true, 2⟩)], nextPos := 5 }

/-- the new messages go through for the owner … -/
theorem owner_can_more :
    (step s1 (.lkBeginAll "alice")).2 = .ok ∧
    (step s1 (.sfConvert "bob" 1 "val")).2 = .ok ∧
    (step s1 (.sfConvert "bob" 4 "val")).2 = .ok ∧
    (step s1 (.sfAddToCL "carol" 4 5 5 77)).2 = .ok ∧
    (step s1 (.vpDelegateBonded "alice" 3)).2 = .ok ∧
    (step s1 (.gmScaling "bob" 7 true)).2 = .ok := by decide

/-- … and fail for everybody else, even one who could otherwise execute them (a delegator, a valid
validator, a lock in every state); the disabled migration fails for the owner too. -/
theorem stranger_cannot_more :
    (step s1 (.sfConvert "carol" 1 "val")).2 = .err ∧
    (step s1 (.sfConvert "alice" 4 "val")).2 = .err ∧
    (step s1 (.sfAddToCL "alice" 4 5 5 77)).2 = .err ∧
    (step s1 (.vpDelegateBonded "carol" 3)).2 = .err ∧
    (step s1 (.sfMigrate "bob" 1)).2 = .err ∧
    (step s1 (.gmScaling "carol" 7 true)).2 = .err ∧
    (step s1 (.gmScaling "bob" 8 true)).2 = .err ∧
    aget 1 (step s1 (.lkBeginAll "alice")).1.locks = aget 1 s1.locks := by decide

/-- the second owner check of UnbondConvertAndStake is not redundant (see `sfConvertNoOwnCheck`). -/
theorem sfConvert_second_check_needed_witness :
    (sfConvertNoOwnCheck s1 "carol" 1 "val").isSome = true ∧ (sfConvertNoOwnCheck s1 "carol" 4 "val").isSome = true ∧
    sfConvert s1 "carol" 1 "val" = none := by decide

/-- why `renounced_admin_is_dead` needs `sender ≠ ""`: the Go guard is a plain string comparison with
the stored admin, and a renounced admin IS the empty string — a message whose sender field is empty
passes it (msg servers never see one: ValidateBasic / signer extraction reject an empty sender). -/
theorem renounced_empty_sender_witness :
    (step s0 (.tfBurn "" "factory/alice/dead" 9 "bob")).2 = .ok := by decide

/-! ## T1: the guards of the Go source, pinned -/

open OsmoVerif.Gen.Auth in
theorem guards_pinned :
    guards_tokenfactory_Mint = ["msg.Sender != authorityMetadata.GetAdmin()"] ∧
    guards_tokenfactory_Burn = ["msg.Sender != authorityMetadata.GetAdmin()"] ∧
    guards_tokenfactory_ForceTransfer = ["msg.Sender != authorityMetadata.GetAdmin()"] ∧
    guards_tokenfactory_ChangeAdmin = ["msg.Sender != authorityMetadata.GetAdmin()"] ∧
    guards_tokenfactory_SetDenomMetadata = ["msg.Sender != authorityMetadata.GetAdmin()"] ∧
    guards_tokenfactory_SetBeforeSendHook = ["msg.Sender != authorityMetadata.GetAdmin()"] ∧
    guards_tokenfactory_k_mintTo = ["k.IsModuleAcc(ctx, addr)"] ∧
    guards_tokenfactory_k_burnFrom = ["k.IsModuleAcc(ctx, addr)"] ∧
    guards_tokenfactory_k_forceTransfer = ["account.GetAddress().Equals(fromSdkAddr)", "account.GetAddress().Equals(toSdkAddr)"] ∧
    guards_lockup_BeginUnlocking = ["msg.Owner != lock.Owner"] ∧
    guards_lockup_ForceUnlock = ["lock.Owner != msg.Owner", "addr == lock.Owner && addr == msg.Owner", "!found"] ∧
    guards_lockup_k_ExtendLockup = ["lock.GetOwner() != owner.String()"] ∧
    guards_lockup_k_SetLockRewardReceiverAddress = ["lock.GetOwner() != owner.String()", "lock.Owner == newReceiverAddress"] ∧
    guards_cl_k_WithdrawPosition = ["owner.String() != position.Address"] ∧
    guards_cl_k_addToPosition = ["owner.String() != position.Address"] ∧
    guards_cl_k_collectSpreadRewards = ["sender.String() != position.Address"] ∧
    guards_cl_k_collectIncentives = ["sender.String() != position.Address"] ∧
    guards_cl_k_transferPositions = ["!isGovModuleSender && position.Address != sender.String()"] ∧
    def_cl_k_transferPositions_isGovModuleSender = "sender.Equals(k.accountKeeper.GetModuleAccount(ctx, govtypes.ModuleName).GetAddress())" ∧
    guards_superfluid_k_validateLockForSF = ["lock.Owner != sender"] ∧
    guards_superfluid_k_convertLockToStake = ["lock.Owner != sender.String()"] := by decide

open OsmoVerif.Gen.Auth in
/-- the identity the guard is applied to is the message's sender / owner field, and a new denom's
namespace and admin are the message sender. -/
theorem calls_pinned :
    call_tokenfactory_CreateDenom = "server.Keeper.CreateDenom(ctx, msg.Sender, msg.Subdenom)" ∧
    call_tokenfactory_k_CreateDenom_validate = "k.validateCreateDenom(ctx, creatorAddr, subdenom)" ∧
    call_tokenfactory_k_CreateDenom_create = "k.createDenomAfterValidation(ctx, creatorAddr, denom)" ∧
    call_tokenfactory_k_validateCreateDenom_GetTokenDenom = "types.GetTokenDenom(creatorAddr, subdenom)" ∧
    def_tokenfactory_k_createDenomAfterValidation_authorityMetadata = "types.DenomAuthorityMetadata{ Admin: creatorAddr, }" ∧
    def_tokenfactory_GetTokenDenom_denom = "strings.Join([]string{ModuleDenomPrefix, creator, subdenom}, \"/\")" ∧
    call_lockup_ExtendLockup = "server.keeper.ExtendLockup(ctx, msg.ID, owner, msg.Duration)" ∧
    call_lockup_ExtendLockup_owner = "sdk.AccAddressFromBech32(msg.Owner)" ∧
    call_lockup_SetRewardReceiverAddress = "server.keeper.SetLockRewardReceiverAddress(ctx, msg.LockID, owner, newRewardRecepient.String())" ∧
    call_lockup_SetRewardReceiverAddress_owner = "sdk.AccAddressFromBech32(msg.Owner)" ∧
    call_cl_WithdrawPosition = "server.keeper.WithdrawPosition(ctx, sender, msg.PositionId, msg.LiquidityAmount)" ∧
    call_cl_WithdrawPosition_sender = "sdk.AccAddressFromBech32(msg.Sender)" ∧
    call_cl_AddToPosition = "server.keeper.addToPosition(ctx, sender, msg.PositionId, msg.Amount0, msg.Amount1, msg.TokenMinAmount0, msg.TokenMinAmount1)" ∧
    call_cl_AddToPosition_sender = "sdk.AccAddressFromBech32(msg.Sender)" ∧
    call_cl_CollectSpreadRewards = "server.keeper.collectSpreadRewards(ctx, sender, positionId)" ∧
    call_cl_CollectSpreadRewards_sender = "sdk.AccAddressFromBech32(msg.Sender)" ∧
    call_cl_CollectIncentives = "server.keeper.collectIncentives(ctx, sender, positionId)" ∧
    call_cl_CollectIncentives_sender = "sdk.AccAddressFromBech32(msg.Sender)" ∧
    call_cl_TransferPositions = "server.keeper.transferPositions(ctx, msg.PositionIds, sender, newOwner)" ∧
    call_cl_TransferPositions_sender = "sdk.AccAddressFromBech32(msg.Sender)" ∧
    call_superfluid_SuperfluidDelegate = "server.keeper.SuperfluidDelegate(ctx, msg.Sender, msg.LockId, msg.ValAddr)" ∧
    call_superfluid_SuperfluidUndelegate = "server.keeper.SuperfluidUndelegate(ctx, msg.Sender, msg.LockId)" ∧
    call_superfluid_SuperfluidUnbondLock = "server.keeper.SuperfluidUnbondLock(ctx, msg.LockId, msg.Sender)" ∧
    call_superfluid_SuperfluidUndelegateAndUnbondLock = "server.keeper.SuperfluidUndelegateAndUnbondLock(ctx, msg.LockId, msg.Sender, msg.Coin.Amount)" ∧
    call_superfluid_UnbondConvertAndStake = "server.keeper.UnbondConvertAndStake(ctx, msg.LockId, msg.Sender, msg.ValAddr, msg.MinAmtToStake, msg.SharesToConvert)" := by
  repeat' (first | rfl | constructor)

open OsmoVerif.Gen.Auth in
/-- superfluid: the owner validation is the FIRST of the watched calls in every keeper entry point. -/
theorem order_pinned :
    order_superfluid_k_validateLockForSFDelegate = ["validateLockForSF", "GetSuperfluidAsset", "alreadySuperfluidStaking"] ∧
    order_superfluid_k_SuperfluidDelegate = ["validateLockForSFDelegate", "GetOrCreateIntermediaryAccount", "SetLockIdIntermediaryAccountConnection", "createSyntheticLockup", "mintOsmoTokensAndDelegate"] ∧
    order_superfluid_k_undelegateCommon = ["validateLockForSF", "DeleteLockIdIntermediaryAccountConnection", "DeleteSyntheticLockup", "forceUndelegateAndBurnOsmoTokens"] ∧
    order_superfluid_k_unbondLock = ["validateLockForSF", "BeginForceUnlock"] ∧
    order_superfluid_k_SuperfluidUndelegateAndUnbondLock = ["SuperfluidUndelegate", "unbondLock", "DeleteSyntheticLockup", "SuperfluidDelegate"] ∧
    order_superfluid_k_SuperfluidUndelegate = ["undelegateCommon", "createSyntheticLockup"] := by decide

/-! ### T1 for the messages of the full inventory -/

open OsmoVerif.Gen.Auth in
/-- UnbondConvertAndStake: `undelegateCommon` (and with it `validateLockForSF`) runs for superfluid-BONDED locks
only — the owner check inside `convertLockToStake` (`guards_pinned`, last line) is the one that protects vanilla,
unlocking and undelegating locks; AddToConcentratedLiquiditySuperfluidPosition compares the lock owner with the
position owner and with the sender; DelegateBondedTokens compares the lock owner with the delegator. -/
theorem guards_pinned_more :
    guards_superfluid_k_UnbondConvertAndStake = ["migrationType == SuperfluidBonded",
      "migrationType == SuperfluidBonded || migrationType == SuperfluidUnbonding || migrationType == NonSuperfluid",
      "migrationType == Unlocked"] ∧
    guards_superfluid_k_addToConcentratedLiquiditySuperfluidPosition = ["lock.Owner != position.Address", "lock.Owner != sender.String()"] ∧
    guards_superfluid_k_validateGammLockForSuperfluidStaking = ["lock.Owner != sender.String()"] ∧
    guards_valsetpref_k_validateLockForForceUnlock = ["lock.GetOwner() != delegatorAddr", "lock.IsUnlocking() || lock.Duration > time.Hour*24*7*2"] ∧
    stmt_superfluid_UnlockAndMigrateSharesToFullRangeConcentratedPosition =
      "return nil, errors.New(\"UnlockAndMigrateSharesToFullRangeConcentratedPosition is no longer supported\")" ∧
    guards_gamm_stableswap_SetScalingFactors = ["sender != p.ScalingFactorController"] := by decide

open OsmoVerif.Gen.Auth in
/-- the identity checked is the message's sender / owner / delegator field; BeginUnlockingAll and
UnPoolWhitelistedPool name no lock — they walk the locks of the address decoded from the sender field. -/
theorem calls_pinned_more :
    call_superfluid_k_UnbondConvertAndStake_sender = "sdk.AccAddressFromBech32(sender)" ∧
    call_superfluid_k_UnbondConvertAndStake_undelegateCommon = "k.undelegateCommon(ctx, sender, lockID)" ∧
    call_superfluid_k_UnbondConvertAndStake_convertLockToStake = "k.convertLockToStake(ctx, senderAddr, valAddr, lockID, minAmtToStake)" ∧
    call_superfluid_AddToConcentratedLiquiditySuperfluidPosition =
      "server.keeper.addToConcentratedLiquiditySuperfluidPosition(ctx, sender, msg.PositionId, msg.TokenDesired0.Amount, msg.TokenDesired1.Amount)" ∧
    call_superfluid_AddToConcentratedLiquiditySuperfluidPosition_sender = "sdk.AccAddressFromBech32(msg.Sender)" ∧
    call_superfluid_k_SuperfluidUndelegateToConcentratedPosition = "k.undelegateCommon(ctx, sender, gammLockID)" ∧
    call_superfluid_UnPoolWhitelistedPool_sender = "sdk.AccAddressFromBech32(msg.Sender)" ∧
    call_superfluid_UnPoolWhitelistedPool_locks = "server.keeper.lk.GetAccountLockedLongerDurationDenom(ctx, sender, lpShareDenom, minimalDuration)" ∧
    call_superfluid_UnPoolWhitelistedPool_unpool = "server.keeper.UnpoolAllowedPools(ctx, sender, msg.PoolId, lock.ID)" ∧
    call_lockup_BeginUnlockingAll = "server.keeper.BeginUnlockAllNotUnlockings(ctx, owner)" ∧
    call_lockup_BeginUnlockingAll_owner = "sdk.AccAddressFromBech32(msg.Owner)" ∧
    call_lockup_k_BeginUnlockAllNotUnlockings = "k.beginUnlockFromIterator(ctx, k.AccountLockIterator(ctx, false, account))" ∧
    call_lockup_k_beginUnlockFromIterator = "k.BeginUnlock(ctx, lock.ID, nil)" ∧
    call_valsetpref_DelegateBondedTokens = "server.keeper.ForceUnlockBondedOsmo(ctx, msg.LockID, msg.Delegator)" ∧
    call_valsetpref_DelegateBondedTokens_prefs = "server.keeper.GetDelegationPreferences(ctx, msg.Delegator)" ∧
    call_valsetpref_k_ForceUnlockBondedOsmo = "k.validateLockForForceUnlock(ctx, lockID, delegatorAddr)" ∧
    call_gamm_StableSwapAdjustScalingFactors = "server.keeper.setStableSwapScalingFactors(ctx, msg.PoolID, msg.ScalingFactors, msg.Sender)" ∧
    call_gamm_k_setStableSwapScalingFactors = "stableswapPool.SetScalingFactors(ctx, scalingFactors, sender)" := by
  repeat' (first | rfl | constructor)

open OsmoVerif.Gen.Auth in
/-- the owner validation precedes the first state change (force-unlock / pool exit / staking). -/
theorem order_pinned_more :
    order_superfluid_k_UnbondConvertAndStake = ["AccAddressFromBech32", "getMigrationType", "undelegateCommon", "convertLockToStake", "convertUnlockedToStake"] ∧
    order_superfluid_k_convertLockToStake = ["GetLockByID", "forceUnlockAndExitBalancerPool", "convertGammSharesToOsmoAndStake"] ∧
    order_superfluid_k_UnpoolAllowedPools = ["checkUnpoolWhitelisted", "validateGammLockForSuperfluidStaking", "unbondSuperfluidIfExists", "ForceUnlock", "ExitPool"] ∧
    order_valsetpref_k_ForceUnlockBondedOsmo = ["validateLockForForceUnlock", "GetSyntheticLockupByUnderlyingLockId", "ForceUnlock"] ∧
    order_valsetpref_DelegateBondedTokens = ["GetDelegationPreferences", "ForceUnlockBondedOsmo", "DelegateToValidatorSet"] ∧
    order_gamm_k_setStableSwapScalingFactors = ["GetPoolAndPoke", "SetScalingFactors", "setPool"] := by decide

end OsmoVerif.Props.C20
