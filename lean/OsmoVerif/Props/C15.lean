/-
C15 — the reward accumulator pays each position exactly growth × shares held.

All theorems are about the executable model `OsmoVerif.Accum` (Model/Accum.lean, tied to
osmoutils/accum and the sdk DecCoins by the `accum` correspondence engine) and quantify over ALL
finite histories `ops : List Op` (no bound on length, names, denoms or amounts).

Discipline (the property's quantifier, a decidable predicate `disciplined : Store → List Op → Bool`):
* every op is issued through a freshly fetched handle (`stepFresh` = `GetAccumulator` + method);
  [one long-lived handle per accumulator behaves identically: checked by the engine's `one` mode, where
  the handle's cached fields are compared with the store in every dump; not a theorem];
* a position name is created only while it does not exist (`admissible`), DecCoins arguments are in sdk
  order (`sorted`); growth/share amounts are NOT restricted in sign or size (more general than asked);
* a panicking call (LegacyDec overflow, negative interval difference) reverts the store, as the callers'
  cache-wrapped transaction store does (`stepTx`); errors are PROVED to be no-ops, not assumed.
The ledger (`Spec/AccumLedger.lean`) credits a position `g_d × sharesThen` at every growth event and nothing
else, except the explicit re-basing shifts of the interval ops; numerators are over 10^36, no division.
-/
import OsmoVerif.Proofs.AccumLedger

namespace OsmoVerif.Props.C15
open OsmoVerif.Accum OsmoVerif.Num OsmoVerif.Spec

/-! ## recorded total shares = Σ position shares -/
theorem totalShares_eq_sum (ops : List Op) (hd : disciplined Store.empty ops = true) :
    ∀ a c, alookup (run Store.empty ops).accs a = some c → c.total = sumShares (run Store.empty ops).poss a :=
  (inv_run ops _ inv_empty hd).total

/-- every reachable store is well formed (sdk order everywhere, unique keys, positions only under
existing accumulators, separator-free names). -/
theorem reachable_inv (ops : List Op) (hd : disciplined Store.empty ops = true) : Inv (run Store.empty ops) :=
  inv_run ops _ inv_empty hd

theorem amt_nonneg {cs : List (String × Int)} (h : ∀ x ∈ cs, 0 ≤ x.2) (d : String) : 0 ≤ amt cs d := by
  induction cs with
  | nil => simp [amt]
  | cons x t ih =>
    obtain ⟨e, y⟩ := x
    have h1 : 0 ≤ y := h (e, y) List.mem_cons_self
    have h2 := ih (fun z hz => h z (List.mem_cons_of_mem _ hz))
    simp only [amt]; split <;> omega

/-! ## what a claim returns and what remains -/
/-- `ClaimRewards` through a fresh handle on a well-formed store: it returns per denom the integer part
(rounded toward zero) of `GetTotalRewards` and the exact remainder as dust (`tc·10^18 + dust = total`,
`0 ≤ dust < 1`), leaves the handle alone, and the record becomes (same shares, snapshot = accumulator
value, no unclaimed rewards, same options) — or disappears when it held no shares. -/
theorem claim_eq_truncated_total {st : Store} (hI : Inv st) {a pos : String} {c : Content}
    (hc : alookup st.accs a = some c) {st' : Store} {h' : Handle} {tc : List (String × Int)} {dust : DecCoins}
    (h : claimRewards st (fresh a c) pos = (st', h', .ok (tc, dust))) :
    ∃ p tot, st.getPos a pos = some p ∧ getTotalRewards (fresh a c) p = some tot ∧ h' = fresh a c ∧
      (∀ d, IsTrunc (amt tot d) P18 (amt tc d) ∧ amt tc d * P18 + amt dust d = amt tot d ∧
            0 ≤ amt dust d ∧ amt dust d < P18 ∧ 0 ≤ amt tot d) ∧
      st'.accs = st.accs ∧
      st'.getPos a pos = (if p.shares = 0 then none else some ⟨p.shares, c.value, [], p.opt⟩) := by
  rcases claim_cases hc pos _ _ _ h with ⟨he, _⟩ | ⟨he, _⟩ | ⟨p, tot, tc', dust', he, hh, hp, ht, htr, hs⟩
  · cases he
  · cases he
  · cases he
    refine ⟨p, tot, hp, ht, hh, ?_, by rw [hs], ?_⟩
    · intro d
      have hsorted := getTotalRewards_sorted (hI.srtP a pos p hp).2 ht
      obtain ⟨e1, e2, e3⟩ := truncateDecimal_spec hsorted htr d
      obtain ⟨_, _, hnn⟩ := truncGo_spec tot [] [] tc dust htr
      have hnonneg : 0 ≤ amt tot d := amt_nonneg hnn d
      have hsp := tdiv_tmod_spec (amt tot d) P18 P18_pos
      refine ⟨by rw [e1]; exact tdiv_isTrunc _ _ P18_pos, e3, ?_, ?_, hnonneg⟩
      · rw [e2]; have := (hsp.2.1 hnonneg).1; omega
      · rw [e2]; have := (hsp.2.1 hnonneg).2; omega
    · rw [hs]
      simp only [Store.getPos]
      split
      · rw [alookup_adel, if_pos rfl]
      · rw [alookup_aset, if_pos rfl]

/-! ## claimable amount = ledger (Σ growth × sharesThen), up to the 18-decimal settlement rounding -/
theorem rewards_refine_ledger (ops : List Op) (hd : disciplined Store.empty ops = true) :
    Refines (run Store.empty ops) (ledgerRun Store.empty Ledger.init ops) :=
  refines_run ops _ _ inv_empty refines_empty hd

/-- unfolded form: for every live position and denom, with
`claimable = unclaimed·10^18 + (value − snapshot)·shares` (numerator over 10^36) and
`ledger = earned − paid·10^18`:  `|claimable − ledger| ≤ inexact · ½·10^18`, i.e. at most half a unit of the
18th decimal per settlement that actually rounded. -/
theorem rewards_rounding_bound (ops : List Op) (hd : disciplined Store.empty ops = true)
    {a pos : String} {p : Record} {c : Content}
    (hp : (run Store.empty ops).getPos a pos = some p) (hc : alookup (run Store.empty ops).accs a = some c) (d : String) :
    let l := ledgerRun Store.empty Ledger.init ops a pos
    let claimable := amt p.unclaimed d * P18 + (amt c.value d - amt p.snap d) * p.shares
    let ledger := l.earned d - l.paid d * P18
    2 * (claimable - ledger) ≤ l.inexact * P18 ∧ -((l.inexact * P18 : Int)) ≤ 2 * (claimable - ledger) :=
  rewards_refine_ledger ops hd a pos p c hp hc d

/-- exactness: while no settlement of the position has rounded (every product was representable with 18
decimals, e.g. integer shares or integer growth), claimable = ledger EXACTLY. -/
theorem rewards_exact_when_representable (ops : List Op) (hd : disciplined Store.empty ops = true)
    {a pos : String} {p : Record} {c : Content}
    (hp : (run Store.empty ops).getPos a pos = some p) (hc : alookup (run Store.empty ops).accs a = some c)
    (hex : (ledgerRun Store.empty Ledger.init ops a pos).inexact = 0) (d : String) :
    amt p.unclaimed d * P18 + (amt c.value d - amt p.snap d) * p.shares =
      (ledgerRun Store.empty Ledger.init ops a pos).earned d - (ledgerRun Store.empty Ledger.init ops a pos).paid d * P18 := by
  have := rewards_rounding_bound ops hd hp hc d
  simp only [hex] at this
  omega

/-- what `GetTotalRewards` (and hence the next claim, before truncation) reports is within
`(inexact + 1)·½·10^-18` of the ledger: one more half-even rounding of the pending product. -/
theorem totalRewards_vs_ledger (ops : List Op) (hd : disciplined Store.empty ops = true)
    {a pos : String} {p : Record} {c : Content} {tot : DecCoins}
    (hp : (run Store.empty ops).getPos a pos = some p) (hc : alookup (run Store.empty ops).accs a = some c)
    (ht : getTotalRewards (fresh a c) p = some tot) (d : String) :
    let l := ledgerRun Store.empty Ledger.init ops a pos
    let ledger := l.earned d - l.paid d * P18
    2 * (amt tot d * P18 - ledger) ≤ (l.inexact + 1) * P18 ∧ -((l.inexact + 1) * P18 : Int) ≤ 2 * (amt tot d * P18 - ledger) := by
  have hI := reachable_inv ops hd
  have hb := rewards_rounding_bound ops hd hp hc d
  obtain ⟨_, _, _, _, htot⟩ := getTotalRewards_amt (h := fresh a c) (hI.srtA a c hc) (hI.srtP a pos p hp).1 ht
  have hhe := hev_isHalfEven p.shares (amt c.value d - amt p.snap d)
  have htot' : amt tot d = amt p.unclaimed d + hev p.shares (amt c.value d - amt p.snap d) := htot d
  simp only at hb ⊢
  rw [htot']
  have h1 := hhe.1
  have h2 := hhe.2.1
  show 2 * ((amt p.unclaimed d + hev p.shares (amt c.value d - amt p.snap d)) * P18 - _) ≤ _ ∧ _
  rw [Int.add_mul, Int.add_mul, Int.one_mul]
  generalize hev p.shares (amt c.value d - amt p.snap d) * P18 = m at *
  generalize (amt c.value d - amt p.snap d) * p.shares = xs at *
  generalize amt p.unclaimed d * P18 = u at *
  generalize ((ledgerRun Store.empty Ledger.init ops a pos).inexact : Int) * P18 = n at *
  generalize (ledgerRun Store.empty Ledger.init ops a pos).paid d * P18 = pd at *
  omega

/-- the ledger only credits growth × shares: a `grow` event adds exactly `g_d × sharesThen` to every live
position of that accumulator and nothing to any other (definitional reading of the spec, stated). -/
theorem ledger_grow_credit (st : Store) (L : Ledger) (a : String) (g : DecCoins)
    (hok : (stepFresh st (.grow a g)).2 = .ok ()) (a' q d : String) :
    (ledgerStep st (.grow a g) L a' q).earned d =
      (L a' q).earned d + (if a' = a then amt g d * sharesOf st a' q else 0) ∧
    (ledgerStep st (.grow a g) L a' q).paid = (L a' q).paid ∧
    (ledgerStep st (.grow a g) L a' q).inexact = (L a' q).inexact := by
  unfold ledgerStep
  rw [if_neg (by rw [hok]; simp)]
  simp only [ledgerOk]
  split <;> simp

/-! ## frame: claiming resets exactly the claimer -/
theorem claim_frame (st : Store) (h : Handle) (pos : String) :
    let r := claimRewards st h pos
    r.1.accs = st.accs ∧ r.2.1 = h ∧ ∀ a' q, (a', q) ≠ (h.name, pos) → r.1.getPos a' q = st.getPos a' q := by
  unfold claimRewards
  split
  · exact ⟨rfl, rfl, fun _ _ _ => rfl⟩
  · split
    · exact ⟨rfl, rfl, fun _ _ _ => rfl⟩
    · split
      · exact ⟨rfl, rfl, fun _ _ _ => rfl⟩
      · split
        · refine ⟨rfl, rfl, fun a' q hne => ?_⟩
          simp only [Store.getPos, Store.delPos]
          rw [alookup_adel, if_neg (fun e => hne e.symm)]
        · refine ⟨rfl, rfl, fun a' q hne => ?_⟩
          simp only [Store.getPos, Store.setPos]
          rw [alookup_aset, if_neg (fun e => hne e.symm)]

/-! ## deleted / empty-claimed positions disappear -/
theorem delete_or_empty_claim_disappears (st : Store) (h : Handle) (pos : String) :
    (∀ st' h' out, deletePosition st h pos = (st', h', .ok out) → st'.getPos h.name pos = none) ∧
    (∀ st' h' out p, claimRewards st h pos = (st', h', .ok out) → st.getPos h.name pos = some p → p.shares = 0 →
      st'.getPos h.name pos = none) := by
  constructor
  · intro st' h' out hdel
    unfold deletePosition at hdel
    split at hdel
    · cases hdel
    · have hfr := claim_frame st h pos
      cases hcl : claimRewards st h pos with
      | mk s1 rest =>
        obtain ⟨h1, r1⟩ := rest
        rw [hcl] at hdel hfr
        simp only at hfr
        obtain ⟨_, hh, _⟩ := hfr
        subst hh
        cases r1 with
        | err => cases hdel
        | panic => cases hdel
        | ok x =>
          obtain ⟨tc, dust⟩ := x
          simp only at hdel
          split at hdel
          · cases hdel
          · unfold setAccumulator at hdel
            split at hdel
            · next heq => split at heq <;> cases heq <;> cases hdel
            · next heq =>
              split at heq
              · cases heq
              · cases heq
                split at hdel
                · cases hdel
                · cases hdel
                  simp only [Store.getPos, Store.delPos]
                  rw [alookup_adel, if_pos rfl]
  · intro st' h' out p hcl hp hz
    unfold claimRewards at hcl
    rw [hp] at hcl
    simp only at hcl
    split at hcl
    · cases hcl
    · split at hcl
      · cases hcl
      · rw [if_pos hz] at hcl
        cases hcl
        simp only [Store.getPos, Store.delPos]
        rw [alookup_adel, if_pos rfl]

/-! ## unknown positions / non-positive share changes fail without effect -/
theorem unknown_or_nonpositive_fails_noop (st : Store) (h : Handle) (pos : String) (n : Int) (iv cs : DecCoins) :
    ((st.getPos h.name pos = none ∨ n ≤ 0) → addToPositionInterval st h pos n iv = (st, h, .err)) ∧
    ((st.getPos h.name pos = none ∨ n ≤ 0) → removeFromPositionInterval st h pos n iv = (st, h, .err)) ∧
    ((st.getPos h.name pos = none ∨ n = 0) → updatePositionInterval st h pos n iv = (st, h, .err)) ∧
    (st.getPos h.name pos = none → setPositionInterval st h pos iv = (st, h, .err)) ∧
    (st.getPos h.name pos = none → addToUnclaimedRewards st h pos cs = (st, h, .err)) ∧
    (st.getPos h.name pos = none → claimRewards st h pos = (st, h, .err)) ∧
    (st.getPos h.name pos = none → deletePosition st h pos = (st, h, .err)) ∧
    (∀ p, st.getPos h.name pos = some p → p.shares < n → removeFromPositionInterval st h pos n iv = (st, h, .err)) := by
  have hadd : ∀ m, (st.getPos h.name pos = none ∨ m ≤ 0) → addToPositionInterval st h pos m iv = (st, h, .err) := by
    intro m hh
    unfold addToPositionInterval
    by_cases hm : 0 < m
    · rw [if_neg (by simpa using hm)]
      rcases hh with hh | hh
      · rw [hh]
      · omega
    · rw [if_pos hm]
  have hrem : ∀ m, (st.getPos h.name pos = none ∨ m ≤ 0) → removeFromPositionInterval st h pos m iv = (st, h, .err) := by
    intro m hh
    unfold removeFromPositionInterval
    by_cases hm : 0 < m
    · rw [if_neg (by simpa using hm)]
      rcases hh with hh | hh
      · rw [hh]
      · omega
    · rw [if_pos hm]
  refine ⟨hadd n, hrem n, ?_, ?_, ?_, ?_, ?_, ?_⟩
  · intro hh
    unfold updatePositionInterval
    by_cases h0 : n = 0
    · rw [if_pos h0]
    · rw [if_neg h0]
      rcases hh with hh | hh
      · split
        · exact hrem _ (Or.inl hh)
        · exact hadd _ (Or.inl hh)
      · exact absurd hh h0
  · intro hh; unfold setPositionInterval; rw [hh]
  · intro hh; unfold addToUnclaimedRewards; rw [hh]
  · intro hh; unfold claimRewards; rw [hh]
  · intro hh; unfold deletePosition; rw [hh]
  · intro p hp hlt
    unfold removeFromPositionInterval
    by_cases hm : 0 < n
    · rw [if_neg (by simpa using hm), hp]
      simp only
      rw [if_pos (by omega)]
    · rw [if_pos hm]

/-- EVERY call through a fresh handle that reports an error (any reason) leaves the store untouched, and a
call that did not succeed leaves the transactional state untouched. -/
theorem error_is_noop (ops : List Op) (hd : disciplined Store.empty ops = true) (op : Op) :
    ((stepFresh (run Store.empty ops) op).2 = .err → (stepFresh (run Store.empty ops) op).1 = run Store.empty ops) ∧
    ((stepFresh (run Store.empty ops) op).2 ≠ .ok () → stepTx (run Store.empty ops) op = run Store.empty ops) := by
  have hI := reachable_inv ops hd
  rcases step_cases hI.nosep op with ⟨hne, h⟩ | ⟨hok, _⟩
  · refine ⟨fun herr => ?_, fun _ => h⟩
    unfold stepTx at h
    cases hs : stepFresh (run Store.empty ops) op with
    | mk s r =>
      rw [hs] at h herr
      simp only at herr
      subst herr
      simpa using h
  · refine ⟨fun herr => ?_, fun hne => absurd hok hne⟩
    rw [hok] at herr; cases herr

/-! ## non-vacuity: a 3-position, 2-denom history inside the discipline, exercising growth, zero-share
claim, interval removal, rounding (inexact settlement), error ops and deletion -/
def hist : List Op := [
  .make "a0",
  .grow "a0" [("uatom", 500000000000000000)],
  .newPos "a0" "p0" (2 * 10 ^ 18) none false,
  .grow "a0" [("uatom", 10 ^ 18), ("uosmo", 333333333333333333)],
  .newPos "a0" "p1" 1500000000000000001 none true,
  .newPos "a0" "p2" 0 none false,
  .grow "a0" [("uatom", 7), ("uosmo", 10 ^ 18)],
  .addPos "a0" "p0" (10 ^ 18) none,
  .remPos "a0" "p1" 500000000000000001 (some [("uatom", 10 ^ 18)]),
  .grow "a0" [("uosmo", 2 * 10 ^ 18)],
  .claim "a0" "p2",
  .addPos "a0" "p9" 5 none,
  .updPos "a0" "p0" 0 none]

example : disciplined Store.empty hist = true := by decide +kernel
example : (run Store.empty hist).poss.length = 2 ∧ (run Store.empty hist).getPos "a0" "p2" = none := by decide +kernel
example : (alookup (run Store.empty hist).accs "a0").map (·.total) = some (4 * 10 ^ 18) := by decide +kernel
/-- p1's interval removal rounded once; p0's settlement was exact. -/
example : (ledgerRun Store.empty Ledger.init hist "a0" "p1").inexact = 1 ∧
    (ledgerRun Store.empty Ledger.init hist "a0" "p0").inexact = 0 := by decide +kernel
/-- p0 earned exactly Σ growth × sharesThen: uosmo 0.333…·2 + 1·2 + 2·3 (numerators over 10^36). -/
example : (ledgerRun Store.empty Ledger.init hist "a0" "p0").earned "uosmo" =
    333333333333333333 * (2 * 10 ^ 18) + 10 ^ 18 * (2 * 10 ^ 18) + 2 * 10 ^ 18 * (3 * 10 ^ 18) := by decide +kernel
/-- the hypotheses of the claim theorem are met on that state: p0 claims 2 uatom + 8 uosmo. -/
example : (match (claimRewards (run Store.empty hist)
      (fresh "a0" ⟨[("uatom", 1500000000000000007), ("uosmo", 3333333333333333333)], 4 * 10 ^ 18⟩) "p0").2.2 with
    | .ok (tc, _) => tc == [("uatom", 2), ("uosmo", 8)]
    | _ => false) = true := by decide +kernel

end OsmoVerif.Props.C15
