/-
C10 — the GEOMETRIC TWAP against the true time-weighted geometric mean, over Mathlib reals.

Clause of C10: "the geometric TWAP equals two to the time-weighted mean of their base-2 logarithms … to the stated
precision; … lie[s] between the minimum and maximum price in force, the two quote directions of the geometric TWAP are
reciprocal".  `Props/C10.geom_eq_exp2_mean_log2` states the value exactly in terms of the bit-exact models of
`LogBase2` / `Exp2` / `SigFigRound`; here the C13 real-analysis bounds (`C13Log.logBase2_abs_error` 89·10^-36,
`C13Exp2.exp2_rel_error_sharp` 10^-21, `C13SigFig.sigFigRound_half_unit`) are composed THROUGH the model
(`Model/Twap.lean`: `twapLog`, `interp`, `geomFromDiff`, `geomFinish`) for every well-formed store — i.e. every history
(`C10.history_well_formed`) — and every query interval.

Vocabulary (Proofs/TwapGeomReal.lean, Proofs/TwapGeomMean.lean): `dval x = x/10^18`; `effPrice r` = `P0LastSpotPrice`
as a value, ONE for a zero price (the code leaves the accumulator alone during such a period: its logarithm counts as 0;
`C10.error_flag_general` flags an interval interpolated from such a record); `lgPrice = log₂ effPrice`;
`meanLog h a b = Σ lgPrice(rᵢ)·wᵢ / Δms` over the overlap weights `wᵢ` of `[a,b]` (canonical milliseconds);
`trueGeo q0 h a b = 2^(± meanLog)` (`+` quote = asset0, `−` quote = asset1) `= Π pᵢ^(± wᵢ/Δms)`
(`true_geo_is_weighted_geometric_mean`); `PriceOK r : 0 ≤ sp0 ≤ MaxSpotPrice` (what `getSpotPrices` can record from a
pool that reports no negative price).

HOW THE CODE TREATS PRICES BELOW ONE (negative mean logarithm): `Exp2` only accepts [0, 2^9]; `geometric.computeTwap`
takes `Exp2(|mean|)` and INVERTS the result (`OneBigDec().Quo`) when (mean < 0 and quote = asset0) or (mean ≥ 0 and
quote = asset1).  There is ONE geometric accumulator (of `P0LastSpotPrice`); the quote = asset1 answer is the reciprocal
of the same `Exp2` value — `P1LastSpotPrice` never enters the geometric TWAP.

PROVED (all well-formed stores, all intervals):
 1. `geom_accumulator_is_integral_of_log` (+ `_history`, `geom_accumulator_real`): accumulator difference of two
    records `= Σ twapLog(pᵢ)·Δmsᵢ` EXACTLY (integer product, no rounding in the multiplication or the sum), with
    `twapLog p = (LogBase2(p·10^18)).tdiv 10^18` (truncation toward zero) and 0 for a zero price; against
    `Σ log₂(pᵢ)·Δmsᵢ` it is off by at most `(10^-18 + 89·10^-36)·Δms`.
 2. `geom_twap_accuracy`: hypotheses EXACTLY "the query is answered, the accumulator difference is ≠ 0, the prices
    carrying weight are in [0, MaxSpotPrice]" (⇒ Δms ≥ 1):
        |TWAP − T| ≤ (5·10^-8 + 10^-17)·T + 2·10^-18,      T = trueGeo
    and before the 8-figure `SigFigRound` (`geom_twap_accuracy_before_rounding`): `3·10^-18·T + 10^-18 + 10^-36`.
    Corollary `geom_twap_accuracy_8_figures`: relative 6·10^-8 whenever `T ≥ 10^-9` (the documented "SpotPriceSigFigs
    = 8 significant figures").  Budget: per recorded logarithm 10^-18 (Dec truncation) + 89·10^-36 (LogBase2); the
    truncated mean 10^-18; `2^η − 1 ≤ η`; Exp2 10^-21 (twice when inverted); Quo ½·10^-36; Dec() 10^-18; SigFigRound 5·10^-8.
 3. `geom_twap_between_min_max`: `lo·(1 − ρ) − α ≤ TWAP ≤ hi·(1 + ρ) + α` (ρ = 5·10^-8 + 10^-17, α = 2·10^-18) for any
    bounds of the prices carrying weight (reciprocal bounds for quote = asset1); `true_geo_between_min_max` is the exact
    weighted-geometric-mean inequality.  FALSE without the slack: `geom_outside_min_max_witness` (a constant 10-figure
    price 1.234567891 is answered 1.23456789 < min).
 4. `geom_twap_reciprocal`: `|TWAP₀·TWAP₁ − 1| ≤ 2ρ + ρ² + (1+ρ)·α·(T + 1/T) + α²` UNCONDITIONALLY (both directions come
    from the one accumulator); `geom_twap_reciprocal_moderate`: ≤ 1.1·10^-7 for `10^-9 ≤ T ≤ 10^9`.  The term `α·(T+1/T)`
    is real: `geom_reciprocal_extreme_witness` (price MaxSpotPrice: the reverse direction truncates to 0, product 0).
    `geom_twap_reverse_vs_recorded`: against the geometric mean `G₁` of the RECORDED reverse prices `P1LastSpotPrice`,
    under the hypothesis `|sp1·sp0 − 1| ≤ δ` on the records carrying weight: `|TWAP₁ − G₁| ≤ (ρ + δ/(1−δ))/T + α` and
    `(1−δ)/T ≤ G₁ ≤ 1/((1−δ)·T)`.
 5. excluded cases (finding F14) as theorems: `geom_twap_zero_of_zero_difference` (accumulator difference 0 ⇒ answer 0,
    whatever the prices), `geom_accuracy_fails_all_prices_one_witness`, `geom_accuracy_fails_logs_cancel_witness`
    (prices 4 then ¼, equal durations: answer 0, true mean 1 — the difference vanishes although no price is one),
    `geom_accuracy_fails_sub_millisecond_witness`.
 6. totality relative to the arithmetic strategy: `geom_exponent_in_exp2_domain` (prices in [0, MaxSpotPrice] ⇒ every
    recorded logarithm and the truncated mean lie in [−60, 128] ⇒ `Exp2`'s domain [0, 2^9] is never left),
    `geom_answered_whenever_arith_answered` (an answered arithmetic query over ≥ 1 ms — at most 2^63 ms, Go's int64 — has
    an answered geometric one with the same flag: the strategies share the endpoint records, `Exp2`, the reciprocal and
    `SigFigRound` return on that range).
NOT proved (no theorem): that the ENDPOINT records themselves can be interpolated (no `Dec` range check of the three
accumulators fires) for histories of realistic length — common to both strategies; the engine covers it differentially.
-/
import OsmoVerif.Props.C10
import OsmoVerif.Proofs.TwapGeomMean
import OsmoVerif.Proofs.TwapGeomTotal

namespace OsmoVerif.Props.C10Geom
open OsmoVerif.Twap OsmoVerif.Num OsmoVerif.Spec OsmoVerif.MathM OsmoVerif.Gen

/-! ## 1. the geometric accumulator is the integral of the recorded logarithm -/

/-- the exact roundings of one recorded logarithm: `twapLog p` returns only for `p > 0` and is `LogBase2` of the price
(as a 36-decimal `BigDec`) truncated toward zero to 18 decimals; the accumulator uses `logW` = that value, `0` for a
zero price.  Against the true logarithm: `10^-18 + 89·10^-36`. -/
theorem recorded_log_roundings (r : TwapRecord) :
    (r.sp0 = 0 → logW r = 0) ∧
    (∀ l, twapLog r.sp0 = some l → logW r = l ∧ 0 < r.sp0 ∧
      (∃ L, logBase2 (r.sp0 * Pdiff) = some L ∧ l = L.tdiv Pdiff) ∧
      |dval l - Real.logb 2 (dval r.sp0)| ≤ 1 / 10 ^ 18 + 89 / 10 ^ 36) ∧
    (PriceOK r → r.sp0 ≠ 0 → ∃ l, twapLog r.sp0 = some l) := by
  refine ⟨logW_zero, fun l hl => ?_, fun hp hne => twapLog_total (by have := hp.1; omega) hp.2⟩
  obtain ⟨hp, hL⟩ := twapLog_unfold hl
  exact ⟨by unfold logW; rw [hl], hp, hL, (twapLog_real hl).2⟩

/-- **geom_accumulator_is_integral_of_log**: between any two records of a well-formed index the geometric accumulator
advances by `Σ logW(rᵢ)·Δmsᵢ` — the recorded logarithm of every price in force times the canonical milliseconds it was
in force, an exact integer product and sum (`SpotPriceMulDuration` = `MulInt64`, `AddMut`: no rounding). -/
theorem geom_accumulator_is_integral_of_log {s : Store} (wf : WF s) {r r' : TwapRecord}
    (hr : r ∈ s.hist) (hr' : r' ∈ s.hist) (hle : r.time ≤ r'.time) :
    r'.geom - r.geom = wsum logW (weights s.hist (canonicalMs r.time) (canonicalMs r'.time)) := by
  have l0 := recAtOrBefore_self wf.chain hr
  have l1 := recAtOrBefore_self wf.chain hr'
  have e := accDiff_eq_wsum (Chain.geomAcc wf.chain) hle l0 l1
  simp only [Int.sub_self, Int.mul_zero, Int.add_zero] at e
  exact e

/-- history level: after a pool creation and ANY sequence of end-of-block updates (accepted, rejected, panicking) and
pruning passes (induction over the events: `C10.history_well_formed`). -/
theorem geom_accumulator_is_integral_of_log_history {now height sp0 sp1 : Int} {e : Bool} (hz : zeroTime ≤ now)
    (ops : List Op) {r r' : TwapRecord}
    (hr : r ∈ (runOps (create {} now height sp0 sp1 e) ops).hist)
    (hr' : r' ∈ (runOps (create {} now height sp0 sp1 e) ops).hist) (hle : r.time ≤ r'.time) :
    r'.geom - r.geom =
      wsum logW (weights (runOps (create {} now height sp0 sp1 e) ops).hist (canonicalMs r.time) (canonicalMs r'.time)) :=
  geom_accumulator_is_integral_of_log (C10.history_well_formed hz ops) hr hr' hle

/-- … and against the integral of the TRUE logarithm `Σ log₂(pᵢ)·Δmsᵢ`: off by at most `10^-18 + 89·10^-36` per
millisecond. -/
theorem geom_accumulator_real {s : Store} (wf : WF s) {r r' : TwapRecord}
    (hr : r ∈ s.hist) (hr' : r' ∈ s.hist) (hle : r.time ≤ r'.time)
    (hp : ∀ p ∈ weights s.hist (canonicalMs r.time) (canonicalMs r'.time), 0 < p.2 → PriceOK p.1) :
    |dval (r'.geom - r.geom) - wsumR lgPrice (weights s.hist (canonicalMs r.time) (canonicalMs r'.time))| ≤
      (1 / 10 ^ 18 + 89 / 10 ^ 36) * ((canonicalMs r'.time - canonicalMs r.time : Int) : ℝ) := by
  rw [geom_accumulator_is_integral_of_log wf hr hr' hle]
  obtain ⟨hsum, hnn⟩ := C10.weights_sum_to_interval wf hle (recAtOrBefore_self wf.chain hr)
  set ws := weights s.hist (canonicalMs r.time) (canonicalMs r'.time)
  have e1 : dval (wsum logW ws) = wsumR (fun r => dval (logW r)) ws := by
    unfold dval; rw [wsum_cast, ← wsumR_div]
  have h1 := wsumR_err (f := fun r => dval (logW r)) (g := lgPrice) (fun p hp' => (hnn p hp').1)
    (fun p hp' hpos' => logW_real (hp p hp' hpos'))
  rw [wsumR_one, hsum, ← e1] at h1
  exact h1

/-! ## 2. accuracy -/

/-- anatomy of an answered geometric query with a non-zero accumulator difference: the interval has at least one
canonical millisecond, the weights are those of a mean, and the value is `geomFinish` (`Exp2 |m|`, reciprocal rule,
`Dec()`, `SigFigRound`) of the truncated mean `m = (Σ logW·w).tdiv Δms`. -/
theorem geom_query_anatomy {s : Store} (wf : WF s) {now a b : Int} {q0 : Bool} {res : Int × Bool}
    (hnow : ∀ r ∈ s.hist, r.time ≤ now) (h : getTwap s now a b q0 .geometric = .ok res)
    (hS : wsum logW (weights s.hist (canonicalMs a) (canonicalMs b)) ≠ 0) :
    0 < canonicalMs b - canonicalMs a ∧
    wsum (fun _ => 1) (weights s.hist (canonicalMs a) (canonicalMs b)) = canonicalMs b - canonicalMs a ∧
    (∀ p ∈ weights s.hist (canonicalMs a) (canonicalMs b), 0 ≤ p.2 ∧ p.1 ∈ s.hist) ∧
    geomFinish q0 ((wsum logW (weights s.hist (canonicalMs a) (canonicalMs b))).tdiv (canonicalMs b - canonicalMs a))
      = some res.1 := by
  obtain ⟨hab, _, ra, _, _, _, hra, _⟩ := getTwap_ok wf hnow h
  obtain ⟨hsum, hnn⟩ := C10.weights_sum_to_interval wf hab hra
  have hm := ms_mono hab
  have hWne : canonicalMs b - canonicalMs a ≠ 0 := by
    intro hz
    rw [hz] at hsum
    exact hS (wsum_zero_of_total_zero logW (fun p hp => (hnn p hp).1) hsum)
  have hne : a ≠ b := by rintro rfl; omega
  have hv := C10.geom_eq_exp2_mean_log2 wf hnow hne h
  rw [C10.geomFromDiff_eq q0 _ _ hS hWne] at hv
  exact ⟨by omega, hsum, hnn, hv⟩

/-- **geom_twap_accuracy**: for every well-formed store and every answered query whose accumulator difference is not
zero (⇒ the interval spans ≥ 1 ms) and whose prices carrying weight are in `[0, MaxSpotPrice]` (a zero price counting
as one, as coded), the geometric TWAP is within `(5·10^-8 + 10^-17)·T + 2·10^-18` of the true value
`T = 2^(± Σ log₂(pᵢ)·wᵢ/Σw)`. -/
theorem geom_twap_accuracy {s : Store} (wf : WF s) {now a b : Int} {q0 : Bool} {res : Int × Bool}
    (hnow : ∀ r ∈ s.hist, r.time ≤ now) (h : getTwap s now a b q0 .geometric = .ok res)
    (hS : wsum logW (weights s.hist (canonicalMs a) (canonicalMs b)) ≠ 0)
    (hp : ∀ p ∈ weights s.hist (canonicalMs a) (canonicalMs b), 0 < p.2 → PriceOK p.1) :
    |dval res.1 - trueGeo q0 s.hist a b| ≤ (5 / 10 ^ 8 + 1 / 10 ^ 17) * trueGeo q0 s.hist a b + 2 / 10 ^ 18 := by
  obtain ⟨hpos, hsum, hnn, hv⟩ := geom_query_anatomy wf hnow h hS
  have hμ := meanExp_real (fun p hp' => (hnn p hp').1) hsum hpos hp
  exact (geomFinish_vs_true hv hμ).2

/-- the same BEFORE the 8-figure rounding: the answer is `SigFigRound(D, 10^8)` of a `Dec` `D` within
`3·10^-18·T + 10^-18 + 10^-36` of the true value — the whole analytic error is 3 parts in 10^18 plus the `Dec()`
truncation; everything else is the deliberate rounding to `SpotPriceSigFigs`. -/
theorem geom_twap_accuracy_before_rounding {s : Store} (wf : WF s) {now a b : Int} {q0 : Bool} {res : Int × Bool}
    (hnow : ∀ r ∈ s.hist, r.time ≤ now) (h : getTwap s now a b q0 .geometric = .ok res)
    (hS : wsum logW (weights s.hist (canonicalMs a) (canonicalMs b)) ≠ 0)
    (hp : ∀ p ∈ weights s.hist (canonicalMs a) (canonicalMs b), 0 < p.2 → PriceOK p.1) :
    ∃ D : Int, 0 ≤ D ∧ sigFigRound D Twap.SpotPriceSigFigs = some res.1 ∧
      |dval D - trueGeo q0 s.hist a b| ≤ 3 / 10 ^ 18 * trueGeo q0 s.hist a b + (1 / 10 ^ 18 + 1 / 10 ^ 36) := by
  obtain ⟨hpos, hsum, hnn, hv⟩ := geom_query_anatomy wf hnow h hS
  have hμ := meanExp_real (fun p hp' => (hnn p hp').1) hsum hpos hp
  exact (geomFinish_vs_true hv hμ).1

/-- at the documented precision (`SpotPriceSigFigs`: 8 significant figures): relative `6·10^-8` as soon as the true
value is at least `10^-9` (below that the 18-decimal representation itself has fewer than 9 digits). -/
theorem geom_twap_accuracy_8_figures {s : Store} (wf : WF s) {now a b : Int} {q0 : Bool} {res : Int × Bool}
    (hnow : ∀ r ∈ s.hist, r.time ≤ now) (h : getTwap s now a b q0 .geometric = .ok res)
    (hS : wsum logW (weights s.hist (canonicalMs a) (canonicalMs b)) ≠ 0)
    (hp : ∀ p ∈ weights s.hist (canonicalMs a) (canonicalMs b), 0 < p.2 → PriceOK p.1)
    (hT : 1 / 10 ^ 9 ≤ trueGeo q0 s.hist a b) :
    |dval res.1 - trueGeo q0 s.hist a b| ≤ 6 / 10 ^ 8 * trueGeo q0 s.hist a b := by
  have := geom_twap_accuracy wf hnow h hS hp
  nlinarith

/-- the true value is the weighted geometric mean `Π pᵢ^(wᵢ/Δms)` of the prices in force (quote = asset0), and the
quote = asset1 value is its reciprocal. -/
theorem true_geo_is_weighted_geometric_mean (h : List TwapRecord) (a b : Int)
    (hp : ∀ p ∈ weights h (canonicalMs a) (canonicalMs b), 0 ≤ p.1.sp0) :
    trueGeo true h a b = wprodR effPrice ((canonicalMs b - canonicalMs a : Int) : ℝ) (weights h (canonicalMs a) (canonicalMs b)) ∧
    trueGeo false h a b = 1 / trueGeo true h a b ∧ trueGeo true h a b * trueGeo false h a b = 1 := by
  refine ⟨?_, trueGeo_false h a b, ?_⟩
  · rw [trueGeo_true]; unfold meanLog; exact wgeo_eq_prod _ _ hp
  · rw [trueGeo_false]; have := trueGeo_pos true h a b; field_simp

/-! ## 3. between the minimum and the maximum price in force -/

/-- the exact inequality for the true value: the weighted geometric mean lies between any bounds of the prices that
carry weight (reciprocal bounds for quote = asset1). -/
theorem true_geo_between_min_max {s : Store} (wf : WF s) {a b : Int} {ra : TwapRecord} {lo hi : ℝ} (hab : a ≤ b)
    (hra : recAtOrBefore s.hist a = some ra) (hpos : 0 < canonicalMs b - canonicalMs a) (hlo : 0 < lo)
    (hb : ∀ p ∈ weights s.hist (canonicalMs a) (canonicalMs b), 0 < p.2 → lo ≤ effPrice p.1 ∧ effPrice p.1 ≤ hi) :
    (lo ≤ trueGeo true s.hist a b ∧ trueGeo true s.hist a b ≤ hi) ∧
    (1 / hi ≤ trueGeo false s.hist a b ∧ trueGeo false s.hist a b ≤ 1 / lo) := by
  obtain ⟨hsum, hnn⟩ := C10.weights_sum_to_interval wf hab hra
  have h1 := two_rpow_mean_between (fun p hp' => (hnn p hp').1) hsum hpos hlo hb
  have e : trueGeo true s.hist a b = (2 : ℝ) ^ meanLog s.hist a b := trueGeo_true _ _ _
  unfold meanLog at e
  rw [← e] at h1
  refine ⟨h1, ?_⟩
  rw [trueGeo_false]
  have hT := trueGeo_pos true s.hist a b
  have hhi : 0 < hi := by linarith [h1.1, h1.2]
  exact ⟨one_div_le_one_div_of_le hT h1.2, one_div_le_one_div_of_le hlo h1.1⟩

/-- **geom_twap_between_min_max**: the geometric TWAP lies between the least and the greatest price carrying weight
in the interval, up to the accuracy bound (ρ = 5·10^-8 + 10^-17 relative, 2·10^-18 absolute); for quote = asset1 the
bounds are the reciprocals of the `P0LastSpotPrice` bounds. -/
theorem geom_twap_between_min_max {s : Store} (wf : WF s) {now a b : Int} {q0 : Bool} {res : Int × Bool} {lo hi : ℝ}
    (hnow : ∀ r ∈ s.hist, r.time ≤ now) (h : getTwap s now a b q0 .geometric = .ok res)
    (hS : wsum logW (weights s.hist (canonicalMs a) (canonicalMs b)) ≠ 0)
    (hp : ∀ p ∈ weights s.hist (canonicalMs a) (canonicalMs b), 0 < p.2 → PriceOK p.1) (hlo : 0 < lo)
    (hb : ∀ p ∈ weights s.hist (canonicalMs a) (canonicalMs b), 0 < p.2 → lo ≤ effPrice p.1 ∧ effPrice p.1 ≤ hi) :
    (if q0 then lo else 1 / hi) * (1 - (5 / 10 ^ 8 + 1 / 10 ^ 17)) - 2 / 10 ^ 18 ≤ dval res.1 ∧
    dval res.1 ≤ (if q0 then hi else 1 / lo) * (1 + (5 / 10 ^ 8 + 1 / 10 ^ 17)) + 2 / 10 ^ 18 := by
  obtain ⟨hab, _, ra, _, _, _, hra, _⟩ := getTwap_ok wf hnow h
  obtain ⟨hpos, _⟩ := geom_query_anatomy wf hnow h hS
  obtain ⟨⟨t1, t2⟩, ⟨f1, f2⟩⟩ := true_geo_between_min_max wf hab hra hpos hlo hb
  have hacc := abs_le.mp (geom_twap_accuracy wf hnow h hS hp)
  have hT := trueGeo_pos q0 s.hist a b
  cases q0 with
  | true => simp only [if_true]; constructor <;> nlinarith [hacc.1, hacc.2]
  | false => simp only [Bool.false_eq_true, if_false]; constructor <;> nlinarith [hacc.1, hacc.2]

/-- WITNESS: the slack is needed — the literal "between min and max" is false of the code.  A constant price with ten
significant figures, 1.234567891, is answered 1.23456789 (8 figures), below the only price in force. -/
theorem geom_outside_min_max_witness :
    let s := runOps (create {} 1000000000 1 (1234567891 * 10 ^ 9) (810000007 * 10 ^ 9) false)
      [.update 3000000000 2 (1234567891 * 10 ^ 9) (810000007 * 10 ^ 9) false]
    getTwap s 7000000000 1000000000 5000000000 true .geometric = .ok (1234567890 * 10 ^ 9, false) ∧
    (∀ p ∈ weights s.hist (canonicalMs 1000000000) (canonicalMs 5000000000), p.1.sp0 = 1234567891 * 10 ^ 9) ∧
    (1234567890 * 10 ^ 9 : Int) < 1234567891 * 10 ^ 9 := by decide +kernel

/-! ## 4. the two quote directions are reciprocal -/

/-- **geom_twap_reciprocal** (unconditional: both directions are computed from the ONE accumulator of
`P0LastSpotPrice`, the quote = asset1 answer being the reciprocal of the same `Exp2` value): the product of the two
answers is 1 up to `2ρ + ρ² + (1+ρ)·α·(T + 1/T) + α²` with ρ = 5·10^-8 + 10^-17, α = 2·10^-18, `T` the true mean. -/
theorem geom_twap_reciprocal {s : Store} (wf : WF s) {now a b : Int} {r0 r1 : Int × Bool}
    (hnow : ∀ r ∈ s.hist, r.time ≤ now)
    (h0 : getTwap s now a b true .geometric = .ok r0) (h1 : getTwap s now a b false .geometric = .ok r1)
    (hS : wsum logW (weights s.hist (canonicalMs a) (canonicalMs b)) ≠ 0)
    (hp : ∀ p ∈ weights s.hist (canonicalMs a) (canonicalMs b), 0 < p.2 → PriceOK p.1) :
    |dval r0.1 * dval r1.1 - 1| ≤
      2 * (5 / 10 ^ 8 + 1 / 10 ^ 17) + (5 / 10 ^ 8 + 1 / 10 ^ 17) ^ 2 +
        (1 + (5 / 10 ^ 8 + 1 / 10 ^ 17)) * (2 / 10 ^ 18) * (trueGeo true s.hist a b + 1 / trueGeo true s.hist a b) +
        (2 / 10 ^ 18) ^ 2 := by
  have a0 := geom_twap_accuracy wf hnow h0 hS hp
  have a1 := geom_twap_accuracy wf hnow h1 hS hp
  rw [trueGeo_false] at a1
  exact recip_product_bound (trueGeo_pos true s.hist a b) (by norm_num) (by norm_num) a0 a1

/-- for a mean price between `10^-9` and `10^9` the two directions multiply to 1 within `1.1·10^-7` — two half units
of the eighth significant figure. -/
theorem geom_twap_reciprocal_moderate {s : Store} (wf : WF s) {now a b : Int} {r0 r1 : Int × Bool}
    (hnow : ∀ r ∈ s.hist, r.time ≤ now)
    (h0 : getTwap s now a b true .geometric = .ok r0) (h1 : getTwap s now a b false .geometric = .ok r1)
    (hS : wsum logW (weights s.hist (canonicalMs a) (canonicalMs b)) ≠ 0)
    (hp : ∀ p ∈ weights s.hist (canonicalMs a) (canonicalMs b), 0 < p.2 → PriceOK p.1)
    (hT1 : 1 / 10 ^ 9 ≤ trueGeo true s.hist a b) (hT2 : trueGeo true s.hist a b ≤ 10 ^ 9) :
    |dval r0.1 * dval r1.1 - 1| ≤ 11 / 10 ^ 8 := by
  have hr := geom_twap_reciprocal wf hnow h0 h1 hS hp
  have hT := trueGeo_pos true s.hist a b
  have hinv : 1 / trueGeo true s.hist a b ≤ 10 ^ 9 := by
    rw [div_le_iff₀ hT]; nlinarith
  have : (1 + (5 / 10 ^ 8 + 1 / 10 ^ 17 : ℝ)) * (2 / 10 ^ 18) * (trueGeo true s.hist a b + 1 / trueGeo true s.hist a b)
      ≤ (1 + (5 / 10 ^ 8 + 1 / 10 ^ 17)) * (2 / 10 ^ 18) * (10 ^ 9 + 10 ^ 9) :=
    mul_le_mul_of_nonneg_left (by linarith) (by norm_num)
  have c : 2 * (5 / 10 ^ 8 + 1 / 10 ^ 17 : ℝ) + (5 / 10 ^ 8 + 1 / 10 ^ 17) ^ 2 +
      (1 + (5 / 10 ^ 8 + 1 / 10 ^ 17)) * (2 / 10 ^ 18) * (10 ^ 9 + 10 ^ 9) + (2 / 10 ^ 18) ^ 2 ≤ 11 / 10 ^ 8 := by norm_num
  linarith

/-- WITNESS: the term `α·(T + 1/T)` is real.  At the largest recordable price (`MaxSpotPrice`, the clamp of
`getSpotPrices`) both directions are answered, the reverse one truncates to 0 in 18 decimals: the product is 0. -/
theorem geom_reciprocal_extreme_witness :
    let p := Twap.MaxSpotPrice
    let s := runOps (create {} 1000000000 1 p 0 false) [.update 3000000000 2 p 0 false]
    getTwap s 7000000000 1000000000 5000000000 true .geometric
      = .ok (340282366920938463227493799558988510799302118150000000000, false) ∧
    getTwap s 7000000000 1000000000 5000000000 false .geometric = .ok (0, false) := by decide +kernel

/-- **the reverse direction against the RECORDED reverse prices.**  `P1LastSpotPrice` is the pool's own reverse spot
price, not `1/P0LastSpotPrice`, and it never enters the geometric TWAP.  If on every record carrying weight it is
within the relative `δ < 1` of the reciprocal (`|sp1·sp0 − 1| ≤ δ`, both positive), then the quote = asset1 answer is
within `(ρ + δ/(1−δ))/T + α` of the geometric mean `G₁ = 2^(Σ log₂(sp1ᵢ)·wᵢ/Σw)` of the recorded reverse prices, and
`G₁` itself is within the factor `[1−δ, 1/(1−δ)]` of `1/T`. -/
theorem geom_twap_reverse_vs_recorded {s : Store} (wf : WF s) {now a b : Int} {res : Int × Bool} {δ : ℝ}
    (hnow : ∀ r ∈ s.hist, r.time ≤ now) (h : getTwap s now a b false .geometric = .ok res)
    (hS : wsum logW (weights s.hist (canonicalMs a) (canonicalMs b)) ≠ 0)
    (hp : ∀ p ∈ weights s.hist (canonicalMs a) (canonicalMs b), 0 < p.2 → PriceOK p.1)
    (hδ0 : 0 ≤ δ) (hδ1 : δ < 1)
    (hrev : ∀ p ∈ weights s.hist (canonicalMs a) (canonicalMs b), 0 < p.2 →
      0 < p.1.sp0 ∧ 0 < p.1.sp1 ∧ |dval p.1.sp1 * dval p.1.sp0 - 1| ≤ δ) :
    let G1 := (2 : ℝ) ^ (wsumR lgRev (weights s.hist (canonicalMs a) (canonicalMs b)) /
      ((canonicalMs b - canonicalMs a : Int) : ℝ))
    (1 - δ) * trueGeo false s.hist a b ≤ G1 ∧ G1 ≤ trueGeo false s.hist a b / (1 - δ) ∧
    |dval res.1 - G1| ≤ (5 / 10 ^ 8 + 1 / 10 ^ 17 + δ / (1 - δ)) * trueGeo false s.hist a b + 2 / 10 ^ 18 := by
  intro G1
  obtain ⟨hpos, hsum, hnn, _⟩ := geom_query_anatomy wf hnow h hS
  obtain ⟨g1, g2⟩ := rev_mean_close (fun p hp' => (hnn p hp').1) hsum hpos hδ0 hδ1 hrev
  have eT : trueGeo false s.hist a b = (2 : ℝ) ^ (-(wsumR lgPrice (weights s.hist (canonicalMs a) (canonicalMs b)) /
      ((canonicalMs b - canonicalMs a : Int) : ℝ))) := by
    unfold trueGeo dirSign meanLog; simp
  rw [← eT] at g1 g2
  refine ⟨g1, g2, ?_⟩
  have hacc := abs_le.mp (geom_twap_accuracy wf hnow h hS hp)
  have hT := trueGeo_pos false s.hist a b
  have h1δ : 0 < 1 - δ := by linarith
  have e2 : trueGeo false s.hist a b / (1 - δ) = trueGeo false s.hist a b + δ / (1 - δ) * trueGeo false s.hist a b := by
    field_simp; ring
  have hδ' : δ ≤ δ / (1 - δ) := by rw [le_div_iff₀ h1δ]; nlinarith
  have hδT : δ * trueGeo false s.hist a b ≤ δ / (1 - δ) * trueGeo false s.hist a b :=
    mul_le_mul_of_nonneg_right hδ' hT.le
  rw [e2] at g2
  rw [abs_le]; constructor <;> nlinarith [hacc.1, hacc.2]

/-! ## 5. the excluded cases (finding F14) -/

/-- a zero accumulator difference is answered 0 whatever the prices (`accumDiff.IsZero()` early return) — the
hypothesis `hS` of the theorems above is exactly the negation of this case. -/
theorem geom_twap_zero_of_zero_difference {s : Store} (wf : WF s) {now a b : Int} {q0 : Bool} {res : Int × Bool}
    (hnow : ∀ r ∈ s.hist, r.time ≤ now) (hne : a ≠ b) (h : getTwap s now a b q0 .geometric = .ok res)
    (hS : wsum logW (weights s.hist (canonicalMs a) (canonicalMs b)) = 0) : res.1 = 0 := by
  have hv := C10.geom_eq_exp2_mean_log2 wf hnow hne h
  rw [hS, C10.geomFromDiff_zero] at hv
  exact (Option.some.inj hv).symm

/-- an interval inside one canonical millisecond has a zero accumulator difference. -/
theorem sub_millisecond_interval_has_zero_difference {s : Store} (wf : WF s) {a b : Int} {ra : TwapRecord}
    (hab : a ≤ b) (hra : recAtOrBefore s.hist a = some ra) (hms : canonicalMs a = canonicalMs b) :
    wsum logW (weights s.hist (canonicalMs a) (canonicalMs b)) = 0 := by
  obtain ⟨hsum, hnn⟩ := C10.weights_sum_to_interval wf hab hra
  exact wsum_zero_of_total_zero logW (fun p hp => (hnn p hp).1) (by rw [hsum]; omega)

/-- F14, all prices one: answered 0 in both directions, accumulator difference 0, TRUE value 1 — the conclusion of
`geom_twap_accuracy` fails, so its hypothesis `hS` cannot be dropped. -/
theorem geom_accuracy_fails_all_prices_one_witness :
    let s := runOps (create {} 1000000000 1 P18 P18 false) [.update 3000000000 2 P18 P18 false, .update 6000000000 3 P18 P18 false]
    getTwap s 7000000000 1000000000 6000000000 true .geometric = .ok (0, false) ∧
    wsum logW (weights s.hist (canonicalMs 1000000000) (canonicalMs 6000000000)) = 0 ∧
    trueGeo true s.hist 1000000000 6000000000 = 1 ∧
    ¬ |dval 0 - trueGeo true s.hist 1000000000 6000000000| ≤
        (5 / 10 ^ 8 + 1 / 10 ^ 17) * trueGeo true s.hist 1000000000 6000000000 + 2 / 10 ^ 18 := by
  intro s
  have hw : weights s.hist (canonicalMs 1000000000) (canonicalMs 6000000000) =
      [(⟨1000000000, 1, P18, P18, 0, 0, 0, zeroTime⟩, 2000),
       (⟨3000000000, 2, P18, P18, 2000 * P18, 2000 * P18, 0, zeroTime⟩, 3000),
       (⟨6000000000, 3, P18, P18, 5000 * P18, 5000 * P18, 0, zeroTime⟩, 0)] := by decide +kernel
  have hT : trueGeo true s.hist 1000000000 6000000000 = 1 := by
    rw [trueGeo_true]; unfold meanLog; rw [hw]
    have e : ∀ t h a1 a2 g le, lgPrice ⟨t, h, P18, P18, a1, a2, g, le⟩ = 0 := by
      intro t h a1 a2 g le
      unfold lgPrice effPrice dval
      rw [if_neg (show (P18 : Int) ≠ 0 by decide)]
      have : ((P18 : Int) : ℝ) = 10 ^ 18 := by rw [show P18 = 10 ^ 18 by decide]; norm_num
      simp only [this]; rw [div_self (by positivity), Real.logb_one]
    simp only [wsumR, e]; simp
  refine ⟨by decide +kernel, by decide +kernel, hT, ?_⟩
  rw [hT]; unfold dval; norm_num [abs_of_neg]

/-- F14 strengthened — the difference also vanishes when LOGARITHMS CANCEL: price 4 for two seconds, then ¼ for two
seconds (`twapLog` = ±2 exactly).  No price is one, the arithmetic TWAP is 2.125, the true geometric mean is 1, the
geometric TWAP is answered 0. -/
theorem geom_accuracy_fails_logs_cancel_witness :
    let s := runOps (create {} 1000000000 1 (4 * P18) (P18 / 4) false)
      [.update 3000000000 2 (P18 / 4) (4 * P18) false, .update 5000000000 3 (P18 / 4) (4 * P18) false]
    getTwap s 7000000000 1000000000 5000000000 true .geometric = .ok (0, false) ∧
    getTwap s 7000000000 1000000000 5000000000 false .geometric = .ok (0, false) ∧
    getTwap s 7000000000 1000000000 5000000000 true .arithmetic = .ok (2125 * 10 ^ 15, false) ∧
    wsum logW (weights s.hist (canonicalMs 1000000000) (canonicalMs 5000000000)) = 0 ∧
    (weights s.hist (canonicalMs 1000000000) (canonicalMs 5000000000)).map (fun p => (p.1.sp0, logW p.1, p.2)) =
      [(4 * P18, 2 * P18, 2000), (P18 / 4, -2 * P18, 2000), (P18 / 4, -2 * P18, 0)] := by decide +kernel

/-- F14, sub-millisecond interval (start ≠ end inside one canonical millisecond): answered 0 although the price in
force is 4 (the arithmetic strategy panics there: F15). -/
theorem geom_accuracy_fails_sub_millisecond_witness :
    let s := runOps (create {} 1000000000 1 (4 * P18) (P18 / 4) false) [.update 3000000000 2 (4 * P18) (P18 / 4) false]
    getTwap s 7000000000 3000000000 3000000500 true .geometric = .ok (0, false) ∧
    wsum logW (weights s.hist (canonicalMs 3000000000) (canonicalMs 3000000500)) = 0 ∧
    canonicalMs 3000000000 = canonicalMs 3000000500 := by decide +kernel

/-! ## 6. the geometric strategy returns on the supported price range -/

/-- **geom_exponent_in_exp2_domain**: with the prices carrying weight in `[0, MaxSpotPrice]` the truncated mean
logarithm lies in `[−60, 128]`, so `Exp2` is only ever called inside its domain `[0, 2^9]` (on `|mean|`; the sign is
handled by the reciprocal rule). -/
theorem geom_exponent_in_exp2_domain {s : Store} (wf : WF s) {a b : Int} {ra : TwapRecord} (hab : a ≤ b)
    (hra : recAtOrBefore s.hist a = some ra) (hpos : 0 < canonicalMs b - canonicalMs a)
    (hp : ∀ p ∈ weights s.hist (canonicalMs a) (canonicalMs b), 0 < p.2 → PriceOK p.1) :
    -60 * P18 * (canonicalMs b - canonicalMs a) ≤ wsum logW (weights s.hist (canonicalMs a) (canonicalMs b)) ∧
    wsum logW (weights s.hist (canonicalMs a) (canonicalMs b)) ≤ 128 * P18 * (canonicalMs b - canonicalMs a) ∧
    -60 * P18 ≤ (wsum logW (weights s.hist (canonicalMs a) (canonicalMs b))).tdiv (canonicalMs b - canonicalMs a) ∧
    (wsum logW (weights s.hist (canonicalMs a) (canonicalMs b))).tdiv (canonicalMs b - canonicalMs a) ≤ 128 * P18 ∧
    (((wsum logW (weights s.hist (canonicalMs a) (canonicalMs b))).tdiv (canonicalMs b - canonicalMs a)).natAbs : Int) * Pdiff
      ≤ Osmomath.maxSupportedExponent := by
  obtain ⟨hsum, hnn⟩ := C10.weights_sum_to_interval wf hab hra
  obtain ⟨l1, l2⟩ := wsum_bounds (sel := logW) (lo := -60 * P18) (hi := 128 * P18) (fun p hp' => (hnn p hp').1)
    (fun p hp' hpos' => logW_range (hp p hp' hpos'))
  rw [hsum] at l1 l2
  obtain ⟨m1, m2⟩ := tdiv_mean_range hpos l1 l2
  refine ⟨l1, l2, m1, m2, ?_⟩
  have hP18 : P18 = 10 ^ 18 := by decide
  have hPd : Pdiff = 10 ^ 18 := by decide
  have hmax : Osmomath.maxSupportedExponent = 512 * 10 ^ 36 := by decide
  rw [hP18] at m1 m2
  rw [hPd, hmax]
  omega

/-- **geom_answered_whenever_arith_answered**: the two strategies interpolate the SAME endpoint records; whenever the
arithmetic TWAP of a non-degenerate interval is answered (so the interval spans ≥ 1 ms) — over at most 2^63 ms (Go's
`int64` milliseconds) and with the prices carrying weight in `[0, MaxSpotPrice]` — the geometric TWAP is answered too,
with the same error flag: no panic in `Sub`, `QuoInt64`, `Exp2`, `Quo`, `SigFigRound`. -/
theorem geom_answered_whenever_arith_answered {s : Store} (wf : WF s) {now a b : Int} {q0 : Bool} {res : Int × Bool}
    (hnow : ∀ r ∈ s.hist, r.time ≤ now) (hne : a ≠ b) (h : getTwap s now a b q0 .arithmetic = .ok res)
    (hp : ∀ p ∈ weights s.hist (canonicalMs a) (canonicalMs b), 0 < p.2 → PriceOK p.1)
    (hW : canonicalMs b - canonicalMs a < 2 ^ 63) :
    ∃ v, getTwap s now a b q0 .geometric = .ok (v, res.2) := by
  obtain ⟨A, B, he, hc⟩ := endpoints_of_ok h
  obtain ⟨hab, ra, rb, hra, hrb, hA, hB⟩ := endpoints_ok wf hnow he
  obtain ⟨a1, _, _, _, _, a6, _⟩ := interp_inherit_fields hA
  obtain ⟨b1, _, _, _, _, b6, _⟩ := endRecord_fields hB
  obtain ⟨hpos, _⟩ := C10.arith_twap_is_truncated_weighted_mean wf hnow hne h
  obtain ⟨l1, l2, m1, m2, _⟩ := geom_exponent_in_exp2_domain wf hab hra hpos hp
  have e := accDiff_eq_wsum (Chain.geomAcc wf.chain) hab hra hrb
  rw [← b6, ← a6] at e
  have htne : B.time - A.time ≠ 0 := by rw [a1, b1]; omega
  obtain ⟨_, hflag⟩ := computeTwap_value htne hc
  have hP18 : P18 = 10 ^ 18 := by decide
  rw [hP18] at l1 l2 m1 m2
  -- the subtraction fits a Dec
  have hsub : Dec.sub B.geom A.geom = some (wsum logW (weights s.hist (canonicalMs a) (canonicalMs b))) := by
    unfold Dec.sub chkDec
    rw [e]
    have c3 : (128 * 10 ^ 18 * 2 ^ 63 : Int) ≤ decUpper := by decide +kernel
    rw [if_pos ⟨by omega, by omega⟩]
  have hgeo : ∃ v, strategyTwap .geometric A B q0 = some v := by
    unfold strategyTwap
    simp only [a1, b1, hsub, Option.bind_some]
    unfold geomFromDiff
    by_cases hz : wsum logW (weights s.hist (canonicalMs a) (canonicalMs b)) = 0
    · exact ⟨0, by rw [if_pos hz]⟩
    · rw [if_neg hz]
      unfold Dec.quoInt
      rw [if_neg (by omega), Option.bind_some]
      exact geomFinish_total q0 (by rw [hP18]; omega) (by rw [hP18]; exact m2)
  obtain ⟨v, hv⟩ := hgeo
  refine ⟨v, ?_⟩
  rw [getTwap_eq_endpoints, he]
  simp only [Res.bind]
  unfold computeTwap
  simp only
  rw [if_neg htne, hv, hflag]
  rfl

/-! ## non-vacuity: a concrete three-record history -/

/-- prices 3, 5, 1/7 recorded at 1 s, 3 s, 6 s; the query `[2 s, 8 s]` gives them the weights 1000, 3000, 2000 ms:
`(3·5³/7²)^(1/6) = 1.40380203…` and its reciprocal `0.71235116…`; the accumulator difference is not zero and every
price is in range. -/
example :
    let s := runOps (create {} 1000000000 1 (3 * P18) (P18 / 3) false)
      [.update 3000000000 2 (5 * P18) (P18 / 5) false, .update 6000000000 3 (P18 / 7) (7 * P18) false]
    s.hist.length = 3 ∧
    getTwap s 9000000000 2000000000 8000000000 true .geometric = .ok (1403802030000000000, false) ∧
    getTwap s 9000000000 2000000000 8000000000 false .geometric = .ok (712351160000000000, false) ∧
    wsum logW (weights s.hist (canonicalMs 2000000000) (canonicalMs 8000000000)) = 2936036941268035006000 ∧
    (weights s.hist (canonicalMs 2000000000) (canonicalMs 8000000000)).map (fun p => (p.1.sp0, p.2)) =
      [(3 * P18, 1000), (5 * P18, 3000), (P18 / 7, 2000)] := by decide +kernel

/-- the accuracy theorem, the 8-figure corollary's premises and the reciprocal theorem INSTANTIATED on that history:
all hypotheses hold, the conclusions are statements about the concrete answers 1.40380203 and 0.71235116. -/
example :
    let s := runOps (create {} 1000000000 1 (3 * P18) (P18 / 3) false)
      [.update 3000000000 2 (5 * P18) (P18 / 5) false, .update 6000000000 3 (P18 / 7) (7 * P18) false]
    |dval 1403802030000000000 - trueGeo true s.hist 2000000000 8000000000| ≤
      (5 / 10 ^ 8 + 1 / 10 ^ 17) * trueGeo true s.hist 2000000000 8000000000 + 2 / 10 ^ 18 ∧
    |dval 712351160000000000 - trueGeo false s.hist 2000000000 8000000000| ≤
      (5 / 10 ^ 8 + 1 / 10 ^ 17) * trueGeo false s.hist 2000000000 8000000000 + 2 / 10 ^ 18 ∧
    |dval 1403802030000000000 * dval 712351160000000000 - 1| ≤
      2 * (5 / 10 ^ 8 + 1 / 10 ^ 17) + (5 / 10 ^ 8 + 1 / 10 ^ 17) ^ 2 +
        (1 + (5 / 10 ^ 8 + 1 / 10 ^ 17)) * (2 / 10 ^ 18) *
          (trueGeo true s.hist 2000000000 8000000000 + 1 / trueGeo true s.hist 2000000000 8000000000) +
        (2 / 10 ^ 18) ^ 2 := by
  intro s
  have wf : WF s := C10.history_well_formed (by decide) _
  have hnow : ∀ r ∈ s.hist, r.time ≤ 9000000000 := by decide +kernel
  have h0 : getTwap s 9000000000 2000000000 8000000000 true .geometric = .ok (1403802030000000000, false) := by
    decide +kernel
  have h1 : getTwap s 9000000000 2000000000 8000000000 false .geometric = .ok (712351160000000000, false) := by
    decide +kernel
  have hS : wsum logW (weights s.hist (canonicalMs 2000000000) (canonicalMs 8000000000)) ≠ 0 := by decide +kernel
  have hp : ∀ p ∈ weights s.hist (canonicalMs 2000000000) (canonicalMs 8000000000), 0 < p.2 → PriceOK p.1 := by
    decide +kernel
  exact ⟨geom_twap_accuracy wf hnow h0 hS hp, geom_twap_accuracy wf hnow h1 hS hp,
    geom_twap_reciprocal wf hnow h0 h1 hS hp⟩

/-- … and the totality theorem on it: from the answered arithmetic query (quote = asset1: 2.4888…) alone. -/
example :
    let s := runOps (create {} 1000000000 1 (3 * P18) (P18 / 3) false)
      [.update 3000000000 2 (5 * P18) (P18 / 5) false, .update 6000000000 3 (P18 / 7) (7 * P18) false]
    ∃ v, getTwap s 9000000000 2000000000 8000000000 false .geometric = .ok (v, false) := by
  intro s
  have wf : WF s := C10.history_well_formed (by decide) _
  have hnow : ∀ r ∈ s.hist, r.time ≤ 9000000000 := by decide +kernel
  have h : getTwap s 9000000000 2000000000 8000000000 false .arithmetic = .ok (2488888888888888888, false) := by
    decide +kernel
  have hp : ∀ p ∈ weights s.hist (canonicalMs 2000000000) (canonicalMs 8000000000), 0 < p.2 → PriceOK p.1 := by
    decide +kernel
  exact geom_answered_whenever_arith_answered wf hnow (by decide) h hp (by decide)

end OsmoVerif.Props.C10Geom
