/-
C02 ∘ C04 — the ledger theorems of C02 for histories whose pool-math results are THOSE OF THE ACTUAL POOL MATH.

C02 (`Props/C02.lean`, model `Model/GammKeeper`) proves the three-ledger agreement for ANY pool-math results on the op
lines, but its key equality — pool account = reported reserves + donations — is conditional on the history staying inside
a pool-math "contract" (ghost flag `clean`; `contract_swap`, `contract_exit`, `contract_join`).  C04 (`Props/C04.lean`,
model `Model/Gamm`) is the bit-exact pool math.  This file closes the gap:

  1. the contract predicates are PROVED for the actual math (`balancer_swap_in_contract`, `balancer_swap_out_in_contract`,
     `stableswap_swap_in_contract`, `exit_in_contract`, `exit_swap_out_in_contract`, `join_in_contract`), with the ONE
     exception characterised exactly: a balancer exact-in swap pays out the ENTIRE out-reserve iff `Pow` returned a
     value ≤ 0 (finding F13; `Pow` underflows to 0 for small bases and large weight ratios), never with equal weights;
  2. `mathIsGamm cfg s ops` ties every pool-model result of every op line of a history to the Model/Gamm function applied
     to the pool record in the state in which the keeper makes the call (through the static configuration `cfg`: weights,
     scaling factors, swap fee); `entireReserveSwaps s ops` lists the F13 events of the history;
     (`lpMathIsGamm` is the weaker tie the ledger theorems need: only all-asset join / exit / exit-swap results tied;
     swap results may then be ANY numbers);
  3. COMPOSED THEOREMS, over all histories with `mathIsGamm`: inside the contract ⇔ no F13 event
     (`contract_iff_no_entire_reserve_swap`); pool account = reserves + donations, share supply = reported total, supply =
     Σ balances, token supply = minted (`conservation`), unconditional for equal-weight pools
     (`conservation_equal_weights`); every F13 event is a `Pow ≤ 0` event (`entire_reserve_swap_is_pow_nonpos`); the
     witness that the exception is real THROUGH THE ACTUAL MATH (`entire_reserve_swap_gamm_witness`).
Non-vacuity: `demoOps` — 15 successful messages of every kind on a 1:1 balancer pool (reserves 10^12), a 3-asset
stableswap pool (scaling factors 1, 1, 10^12) and a 2:1 balancer pool, all payloads computed by Model/Gamm (`decide`).
-/
import OsmoVerif.Proofs.GammBridgeF13
import OsmoVerif.Props.C02

namespace OsmoVerif.Props.C02C04
open OsmoVerif.Gamm OsmoVerif.Ledger OsmoVerif.Num OsmoVerif.MathM OsmoVerif.GammMath

/-! ## 1. the contract predicates, for the actual pool math (Model/Gamm) -/

/-- FULL. Balancer `CalcOutAmtGivenIn` against the whole out-reserve `R > 0`, for EVERY pool state and amount for which it
returns `t`: with `pw` the value `Pow` returned for the base `resIn/(resIn + in·(1−spread))` and exponent `wIn/wOut`,
`t < R ⇔ pw > 0`;  `t = R ⇔ pw ≤ 0 ∧ −pw·R < 10¹⁸`;  `t > R ⇔ −pw·R ≥ 10¹⁸` (then `applySwap` panics: no swap). -/
theorem balancer_swap_in_contract {p : BalPool} {dIn dOut : String} {amt spread t : Int}
    (h : balCalcOut p [(dIn, amt)] dOut spread = .ok t) :
    ∃ aIn aOut wr y pw, findAsset p.assets dIn = some aIn ∧ findAsset p.assets dOut = some aOut ∧
      Dec.quo (toDec aIn.weight) (toDec aOut.weight) = some wr ∧
      Dec.quo (toDec aIn.amount) (amt * (P18 - spread) + toDec aIn.amount) = some y ∧
      pow y wr = some pw ∧
      (0 < aOut.amount →
        (t < aOut.amount ↔ 0 < pw) ∧
        (t = aOut.amount ↔ pw ≤ 0 ∧ -pw * aOut.amount < P18) ∧
        (aOut.amount < t ↔ P18 ≤ -pw * aOut.amount)) :=
  balCalcOut_vs_reserve h

/-- FULL, unconditional: with EQUAL weights the exponent is exactly 1 and `Pow(y, 1) = y > 0`: an equal-weight balancer
swap never pays out a whole reserve, whatever the amount in (there is no MaxInRatio in this tree). -/
theorem balancer_swap_in_contract_equal_weights {p : BalPool} {dIn dOut : String} {amt spread t : Int} {aIn aOut : BalAsset}
    (h : balCalcOut p [(dIn, amt)] dOut spread = .ok t)
    (hi : findAsset p.assets dIn = some aIn) (ho : findAsset p.assets dOut = some aOut)
    (hw : aIn.weight = aOut.weight) (hw0 : 0 < aIn.weight) (hR : 0 < aOut.amount) : t < aOut.amount :=
  balCalcOut_lt_reserve_equal_weights h hi ho hw hw0 hR

theorem pow_exponent_one {y : Int} (h0 : 0 < y) (h2 : y < 2 * P18) : pow y P18 = some y := pow_one_exp h0 h2

/-- FULL (F13 at the keeper). A `SwapOutAmtGivenIn` call of the keeper on a balancer record (distinct names, positive
reserves, `dout` a pool asset) whose op-line result `out` is Model/Gamm's: `0 < out ≤ reserve`, and it is the ENTIRE
reserve — the one way a swap leaves C02's contract — iff `Pow` returned `pw ≤ 0`. -/
theorem balancer_swap_entire_reserve_iff_pow_nonpos {cfg : Cfg} {p : Pool} {id : Nat} {din dout : Denom} {a out : Int}
    (hp : PoolOK p) (hk : p.kind = .balancer) (hd : dout ∈ keys p.reserves)
    (ht : (Call.swapIn p id din a dout (some out)).tied cfg = true) :
    ∃ aIn wr y pw, findAsset (toBal (cfg id) p).assets (dname din) = some aIn ∧
      Dec.quo (toDec aIn.weight) (toDec ((cfg id).weight dout)) = some wr ∧
      Dec.quo (toDec aIn.amount) (a * (P18 - (cfg id).swapFee) + toDec aIn.amount) = some y ∧
      pow y wr = some pw ∧ 0 < out ∧ out ≤ p.res dout ∧
      ((Call.swapIn p id din a dout (some out)).entireReserve = true ↔ pw ≤ 0) :=
  entireReserve_iff_pow_nonpos hp hk hd ht

/-- FULL, for ANY pool-math result: a successful gamm `SwapExactAmountIn` leaves the contract exactly when a balancer
record is answered with its entire out-reserve (the in-side can never be the problem: positive reserve + positive amount). -/
theorem swap_in_contract_exact {s s' : State} {u id : Nat} {din dout : Denom} {a minOut out : Int} {math : Option Int} {p : Pool}
    (h : gammSwapIn s u id din a dout minOut math = some (s', out)) (hp : getPool s.pools id = some p) (hok : PoolsOK s) :
    s'.clean = (s.clean && !(Call.swapIn p id din a dout math).entireReserve) :=
  (gammSwapIn_bridge h hp hok).2

/-- FULL, for ANY pool-math result: an exact-OUT swap never leaves the contract (the keeper refuses `tokenOut ≥ reserve`). -/
theorem balancer_swap_out_in_contract {s s' : State} {u id : Nat} {din dout : Denom} {b maxIn a : Int} {math : Option Int}
    (h : gammSwapOut s u id din maxIn dout b math = some (s', a)) (hok : PoolsOK s) : s'.clean = s.clean :=
  (gammSwapOut_bridge h hok).2

/-- FULL, for ANY pool-math result: a stableswap record update is all-or-nothing (`updatePoolLiquidityForSwap` panics
when a reserve would reach 0), so a stableswap swap never leaves the contract. -/
theorem stableswap_swap_in_contract {p p' : Pool} {din dout : Denom} {a b : Int} {ok : Bool}
    (h : recSwap p din a dout b = some (p', ok)) (hk : p.kind = .stableswap) : ok = true :=
  (recSwap_ok_iff h).mpr (fun hb => by rw [hk] at hb; cases hb)

/-- FULL, no hypothesis on the pool: `CalcExitPool` pays coins whose denoms are a sub-list of the liquidity's (no
repetition, same order), every amount positive and STRICTLY below its reserve. -/
theorem exit_in_contract {liq : GammMath.Coins} {T sh fee : Int} {cs : GammMath.Coins} (h : calcExitPool liq T sh fee = .ok cs) :
    (cs.map Prod.fst).Sublist (liq.map Prod.fst) ∧ ∀ d x, (d, x) ∈ cs → ∃ a, (d, a) ∈ liq ∧ 0 < x ∧ x < a :=
  calcExitPool_contract h

/-- … hence `MsgExitPool` with Model/Gamm's result stays inside the contract (both pool types). -/
theorem exit_in_contract_keeper (cfg : Cfg) {s s' : State} {u id : Nat} {shareIn : Int} {mins cs : Gamm.Coins}
    {math : Option Gamm.Coins} {p : Pool}
    (h : exitPool s u id shareIn mins math = some (s', cs)) (hp : getPool s.pools id = some p) (hok : PoolsOK s)
    (ht : (Call.exit p id shareIn math).tied cfg = true) : s'.clean = s.clean :=
  (exitPool_bridge cfg h hp hok ht).2

/-- FULL. Balancer `ExitSwapExactAmountOut` (positive reserve, 0 < weight ≤ total weight, swap fee in [0,1]): the amount
out is strictly below the reserve. -/
theorem exit_swap_out_in_contract {p p' : BalPool} {denom : String} {amtOut maxShares s : Int} {a : BalAsset}
    (h : balExitSwapOut p denom amtOut maxShares = .ok (s, p'))
    (ha : findAsset p.assets denom = some a) (hR : 0 < a.amount)
    (hw : 0 < a.weight) (hW : a.weight ≤ p.totalWeight) (hfee : 0 ≤ p.swapFee ∧ p.swapFee ≤ P18) :
    amtOut < a.amount :=
  balExitSwapOut_lt_reserve h ha hR hw hW hfee

/-- FULL. `MaximalExactRatioJoin` on offered amounts `⌈ratio·reserveᵢ⌉` (what `getMaximalNoSwapLPAmount` computes) uses
ALL of every coin: the pool adds to its record exactly the coins the keeper transfers. -/
theorem join_in_contract {liq : GammMath.Coins} {T : Int} {tokensIn : GammMath.Coins} {ratio shares : Int} {used : List Int}
    (h : maximalExactRatioJoin liq T tokensIn = .ok (shares, used)) (hr0 : 0 ≤ ratio)
    (hneed : ∀ c ∈ tokensIn, 0 < amountOf liq c.1 ∧ 0 ≤ c.2 ∧
      ratio * amountOf liq c.1 ≤ c.2 * P18 ∧ (c.2 - 1) * P18 < ratio * amountOf liq c.1) :
    used = tokensIn.map (·.2) :=
  maximalExactRatioJoin_uses_all h hr0 hneed

/-- … hence `MsgJoinPool` with Model/Gamm's result stays inside the contract (both pool types). -/
theorem join_in_contract_keeper (cfg : Cfg) {s s' : State} {u id : Nat} {shareOut : Int} {maxs : Gamm.Coins}
    {math : Option (Int × Gamm.Coins)} {p : Pool}
    (h : joinPool s u id shareOut maxs math = some s') (hp : getPool s.pools id = some p) (hok : PoolsOK s)
    (ht : ∀ needed, getMaximalNoSwapLPAmount p shareOut = some needed → (Call.joinNoSwap p id needed math).tied cfg = true) :
    s'.clean = s.clean :=
  (joinPool_bridge cfg h hp hok ht).2

/-! ## 2. histories whose pool math is Model/Gamm's -/

/-- the hypotheses of the composed theorems in their natural form: a sane static configuration (positive weights, swap fee in [0,1]), pool
creations listing distinct denom names, and EVERY pool-model result on every op line being the Model/Gamm result on the
record in the state in which the keeper makes that call. -/
structure GammHistory (cfg : Cfg) (n : Nat) (ops : List Op) : Prop where
  cfg_ok : CfgOK cfg
  names : OpsNamesOK ops
  math : mathIsGamm cfg (C02.init n) ops = true

/-- the WEAKER tie that the ledger theorems actually need: only the all-asset join, exit and `ExitSwapExactAmountOut`
results are Model/Gamm's (`Call.tiedLP`); swap / estimate / single-asset-join results may be ANY numbers. -/
structure LPGammHistory (cfg : Cfg) (n : Nat) (ops : List Op) : Prop where
  cfg_ok : CfgOK cfg
  names : OpsNamesOK ops
  math : lpMathIsGamm cfg (C02.init n) ops = true

theorem GammHistory.toLP {cfg : Cfg} {n : Nat} {ops : List Op} (h : GammHistory cfg n ops) : LPGammHistory cfg n ops :=
  ⟨h.cfg_ok, h.names, lpMathIsGamm_of_mathIsGamm cfg ops _ h.math⟩

/-- one message: tied results ⇒ records keep distinct names and positive reserves, and the contract is left exactly by
F13 events. -/
theorem message_contract_exact (cfg : Cfg) (hcfg : CfgOK cfg) {s s' : State} {m : Msg} (h : step s m = some s')
    (hok : PoolsOK s) (hn : m.namesOK) (ht : ∀ c ∈ calls s m, c.tiedLP cfg = true) :
    PoolsOK s' ∧ s'.clean = (s.clean && (calls s m).all (fun c => !c.entireReserve)) :=
  ⟨(step_bridge cfg hcfg h hok hn ht).1, (step_bridge cfg hcfg h hok hn ht).2.1⟩

/-! ## 3. the composed theorems -/

/-- FULL. A history whose pool math is Model/Gamm's is inside C02's pool-math contract IFF it contains no F13 event. -/
theorem contract_iff_no_entire_reserve_swap {cfg : Cfg} {n : Nat} {ops : List Op} (h : LPGammHistory cfg n ops) :
    (runOps (C02.init n) ops).clean = true ↔ entireReserveSwaps (C02.init n) ops = [] := by
  have := (runOps_bridge cfg h.cfg_ok ops (C02.init n) (init_PoolsOK n) h.names h.math).2
  rw [this]
  show (true && _) = true ↔ _
  rw [Bool.true_and, List.isEmpty_iff]

/-- FULL. No reserve of any pool record is ever ≤ 0, and no record ever lists two denoms with the same name. -/
theorem reserves_stay_positive {cfg : Cfg} {n : Nat} {ops : List Op} (h : LPGammHistory cfg n ops) :
    PoolsOK (runOps (C02.init n) ops) :=
  (runOps_bridge cfg h.cfg_ok ops (C02.init n) (init_PoolsOK n) h.names h.math).1

/-- FULL. **Pool account = reported reserves + donations** after every history of create / join / exit / swap / route /
send messages whose pool-math results are those of Model/Gamm — unconditional except for F13 events. -/
theorem pool_balance_eq_reserves_plus_donations {cfg : Cfg} {n : Nat} {ops : List Op} (h : LPGammHistory cfg n ops)
    (hF13 : entireReserveSwaps (C02.init n) ops = []) (id : Nat) (d : Denom) :
    (runOps (C02.init n) ops).bal (.pool id) d =
      (runOps (C02.init n) ops).reserve id d + (runOps (C02.init n) ops).don id d :=
  C02.bank_pool_eq_reserves_plus_donations n ops ((contract_iff_no_entire_reserve_swap h).mpr hF13) id d

/-- FULL. The whole of C02's conservation statement for histories with the ACTUAL pool math: pool account = reserves +
donations (for every pool id and denom), share supply = reported total shares, supply = Σ of all balances, token supply =
what the harness minted (nothing created or destroyed). Trader accounting (`C02.trader_accounting_*`) holds per message
for any math and needs no restatement. -/
theorem conservation {cfg : Cfg} {n : Nat} {ops : List Op} (h : LPGammHistory cfg n ops)
    (hF13 : entireReserveSwaps (C02.init n) ops = []) :
    let s := runOps (C02.init n) ops
    (∀ id d, s.bal (.pool id) d = s.reserve id d + s.don id d) ∧
    (∀ id, s.supply (.share id) = s.shares id) ∧
    (∀ d, s.supply d = s.total d) ∧
    (∀ name, s.supply (.tok name) = funded name ops) := by
  refine ⟨pool_balance_eq_reserves_plus_donations h hF13, C02.share_supply_eq_totalShares n ops,
    C02.supply_eq_sum_of_balances n ops, fun name => ?_⟩
  have := C02.non_share_supply_eq_funded name ops (C02.init n)
  have h0 : (C02.init n).supply (Denom.tok name) = 0 := rfl
  omega

/-- the hypotheses are prefix-closed … -/
theorem LPGammHistory.prefix {cfg : Cfg} {n : Nat} {pre post : List Op} (h : LPGammHistory cfg n (pre ++ post)) :
    LPGammHistory cfg n pre :=
  ⟨h.cfg_ok, fun m hm => h.names m (List.mem_append_left _ hm), by
    have := h.math
    rw [lpMathIsGamm_append, Bool.and_eq_true] at this
    exact this.1⟩

/-- … so the agreement of the ledgers holds AT EVERY MOMENT of a history without F13 events, not only at its end. -/
theorem conservation_at_every_moment {cfg : Cfg} {n : Nat} {pre post : List Op} (h : LPGammHistory cfg n (pre ++ post))
    (hF13 : entireReserveSwaps (C02.init n) (pre ++ post) = []) :
    let s := runOps (C02.init n) pre
    (∀ id d, s.bal (.pool id) d = s.reserve id d + s.don id d) ∧
    (∀ id, s.supply (.share id) = s.shares id) ∧
    (∀ d, s.supply d = s.total d) ∧
    (∀ name, s.supply (.tok name) = funded name pre) := by
  rw [entireReserveSwaps_append, List.append_eq_nil_iff] at hF13
  exact conservation h.prefix hF13.1

/-- FULL. Every F13 event of such a history is a `Pow ≤ 0` event of the actual balancer math. -/
theorem entire_reserve_swap_is_pow_nonpos {cfg : Cfg} {n : Nat} {ops : List Op} (h : GammHistory cfg n ops) :
    ∀ c ∈ entireReserveSwaps (C02.init n) ops, ∃ y wr pw, pow y wr = some pw ∧ pw ≤ 0 := by
  intro c hc
  obtain ⟨t1, t2, t3⟩ := runOps_events cfg h.cfg_ok ops (C02.init n) (init_PoolsOK n) h.names h.math c hc
  exact pow_nonpos_of_entireReserve t1 t2 t3

/-- FULL, UNCONDITIONAL: when every balancer pool has equal weights (and for stableswap pools always) there is no F13
event, so the three ledgers agree after every history. -/
theorem conservation_equal_weights {cfg : Cfg} {n : Nat} {ops : List Op} (h : GammHistory cfg n ops) (hw : EqualWeights cfg) :
    let s := runOps (C02.init n) ops
    s.clean = true ∧
    (∀ id d, s.bal (.pool id) d = s.reserve id d + s.don id d) ∧
    (∀ id, s.supply (.share id) = s.shares id) ∧
    (∀ d, s.supply d = s.total d) ∧
    (∀ name, s.supply (.tok name) = funded name ops) := by
  have hnil := entireReserveSwaps_nil_of_equal_weights cfg h.cfg_ok hw ops (C02.init n) (init_PoolsOK n) h.names h.math
  exact ⟨(contract_iff_no_entire_reserve_swap h.toLP).mpr hnil, conservation h.toLP hnil⟩

/-! ## the exception is real THROUGH THE ACTUAL MATH (finding F13) -/

def T (n : String) : Denom := .tok n

/-- weights 20 : 1. -/
def cfgW : Cfg := fun _ => ⟨fun d => if d = T "aaa" then 20 * 2 ^ 30 else 2 ^ 30, fun _ => 1, 0⟩

/-- 9000 aaa into a 1000 aaa / 5 bbb pool with weights 20:1: `Pow(0.1, 20) = 0` at 18 decimals, Model/Gamm answers
"5 bbb out" — the whole reserve. -/
def witnessOps : List Op :=
  [ .fund 0 "aaa" 1000000, .fund 0 "bbb" 1000000,
    .msg (.createPool 0 .balancer [(T "aaa", 1000), (T "bbb", 5)]),
    .msg (.swapExactAmountIn 0 (T "aaa") 9000 1 [⟨1, T "bbb", some 5⟩]) ]

theorem cfgW_ok : CfgOK cfgW :=
  ⟨fun _ d => by simp only [cfgW]; split <;> decide, fun _ => by simp only [cfgW]; decide⟩

/-- the history IS one of Model/Gamm (the `5` is what `balSwapOut` returns), it contains one F13 event, `Pow` returned 0,
and the pool account (0 bbb) differs from the reported reserve (5 bbb). -/
theorem entire_reserve_swap_gamm_witness :
    mathIsGamm cfgW (C02.init 1) witnessOps = true ∧
    (entireReserveSwaps (C02.init 1) witnessOps).length = 1 ∧
    pow (P18 / 10) (20 * P18) = some 0 ∧
    balSwapOut (mkBalPool [("aaa", 1000, 20), ("bbb", 5, 1)] (100 * P18) 0 0) [("aaa", 9000)] "bbb" 0 =
      .ok (5, mkBalPool [("aaa", 10000, 20), ("bbb", 5, 1)] (100 * P18) 0 0) ∧
    (let s := runOps (C02.init 1) witnessOps
     s.clean = false ∧ s.bal (.pool 1) (T "bbb") = 0 ∧ s.reserve 1 (T "bbb") = 5) := by
  decide +kernel

theorem witness_is_gamm_history : GammHistory cfgW 1 witnessOps :=
  ⟨cfgW_ok, fun m hm => by
    simp only [witnessOps, List.mem_cons, Op.msg.injEq, List.not_mem_nil, or_false, reduceCtorEq, false_or] at hm
    rcases hm with hm | hm <;> subst hm <;> simp [Msg.namesOK, names, T, dname],
   entire_reserve_swap_gamm_witness.1⟩

/-! ## non-vacuity: a 15-message history of every kind, all payloads computed by Model/Gamm -/

/-- pools 1, 2: equal weights / scaling factors 1, 1, 10^12, swap fee 0.3%; pool 3: weights 2 : 1, swap fee 0.1%. -/
def cfgD : Cfg := fun id =>
  if id = 3 then ⟨fun d => if d = T "aaa" then 2 * 2 ^ 30 else 2 ^ 30, fun _ => 1, 10 ^ 15⟩
  else ⟨fun _ => 2 ^ 30, fun d => if d = T "ccc" then 10 ^ 12 else 1, 3 * 10 ^ 15⟩

def demoOps : List Op :=
  [ .fund 0 "aaa" (10 ^ 30), .fund 0 "bbb" (10 ^ 30), .fund 0 "ccc" (10 ^ 30),
    .fund 1 "aaa" (10 ^ 20), .fund 1 "bbb" (10 ^ 20), .fund 1 "ccc" (10 ^ 28),
    .setParams { defaultTakerFee := 10 ^ 15 },
    .msg (.createPool 0 .balancer [(T "aaa", 10 ^ 12), (T "bbb", 10 ^ 12)]),
    .msg (.createPool 0 .stableswap [(T "aaa", 10 ^ 12), (T "bbb", 10 ^ 12), (T "ccc", 10 ^ 24)]),
    .msg (.createPool 0 .balancer [(T "aaa", 2 * 10 ^ 9), (T "bbb", 10 ^ 9)]),
    .msg (.bankSend 1 (.pool 1) (T "aaa") 7),
    .msg (.joinPool 1 1 (10 ^ 18) [] (some (10 ^ 18, [(T "aaa", 10000000000), (T "bbb", 10000000000)]))),
    .msg (.joinPool 1 2 (3 * 10 ^ 17) []
      (some (3 * 10 ^ 17, [(T "aaa", 3000000000), (T "bbb", 3000000000), (T "ccc", 3000000000000000000000)]))),
    .msg (.joinSwapExternAmountIn 1 3 (T "aaa") 1000000 1 (some 33319446912654500)),
    .msg (.joinSwapShareAmountOut 1 1 (T "bbb") (10 ^ 15) (10 ^ 12) (some 20030145)),
    .msg (.swapExactAmountIn 1 (T "aaa") 1000000 1
      [⟨1, T "bbb", some 996021⟩, ⟨2, T "ccc", some 992038731760298830⟩, ⟨2, T "aaa", some 988073⟩, ⟨3, T "bbb", some 984876⟩]),
    .msg (.swapExactAmountOut 1 (10 ^ 15) (T "ccc") (5 * 10 ^ 14) [⟨2, T "bbb", some 502, some 502⟩]),
    .msg (.swapExactAmountOut 1 (10 ^ 15) (T "aaa") 12345 [⟨3, T "bbb", some 12334, some 12334⟩]),
    .msg (.exitPool 1 1 (5 * 10 ^ 17) [] (some [(T "aaa", 4999955441), (T "bbb", 5000044722)])),
    .msg (.exitPool 1 2 (10 ^ 17) [] (some [(T "aaa", 999999014), (T "bbb", 1000000992), (T "ccc", 999999998512423267250)])),
    .msg (.exitSwapExternAmountOut 1 3 (T "aaa") 1000 (some 33322659335485)),
    .msg (.exitSwapShareAmountIn 1 1 (T "bbb") (10 ^ 17) 1 (some [(T "aaa", 999991088), (T "bbb", 1000008944)]) [some 996019851]) ]

/-- number of successful messages of a history. -/
def succeeded : State → List Op → Nat
  | _, [] => 0
  | s, .msg m :: os => (if (step s m).isSome then 1 else 0) + succeeded (applyOp s (.msg m)) os
  | s, o :: os => succeeded (applyOp s o) os

/-- every payload of `demoOps` is Model/Gamm's, all 15 messages succeed, there is no F13 event. -/
theorem demo_math_is_gamm :
    mathIsGamm cfgD (C02.init 1) demoOps = true ∧ succeeded (C02.init 1) demoOps = 15 ∧
    entireReserveSwaps (C02.init 1) demoOps = [] := by
  decide +kernel

theorem cfgD_ok : CfgOK cfgD :=
  ⟨fun id d => by
    unfold cfgD
    split
    · show 0 < (if d = T "aaa" then 2 * 2 ^ 30 else 2 ^ 30 : Int)
      split <;> decide
    · show (0 : Int) < 2 ^ 30
      decide,
   fun id => by
    unfold cfgD
    split
    · show (0 : Int) ≤ 10 ^ 15 ∧ (10 : Int) ^ 15 ≤ P18
      decide
    · show (0 : Int) ≤ 3 * 10 ^ 15 ∧ (3 : Int) * 10 ^ 15 ≤ P18
      decide⟩

theorem demo_is_gamm_history : GammHistory cfgD 1 demoOps :=
  ⟨cfgD_ok, fun m hm => by
    simp only [demoOps, List.mem_cons, Op.msg.injEq, List.not_mem_nil, or_false, reduceCtorEq, false_or] at hm
    rcases hm with hm | hm | hm | hm | hm | hm | hm | hm | hm | hm | hm | hm | hm | hm | hm <;> subst hm <;>
      simp [Msg.namesOK, names, T, dname],
   demo_math_is_gamm.1⟩

/-- the composed theorem applied: the three ledgers agree after `demoOps` (pool 1 also holds the 7 donated aaa). -/
example :
    let s := runOps (C02.init 1) demoOps
    s.bal (.pool 1) (T "aaa") = s.reserve 1 (T "aaa") + 7 ∧ s.supply (.share 2) = s.shares 2 := by
  have h := conservation demo_is_gamm_history.toLP demo_math_is_gamm.2.2
  refine ⟨?_, h.2.1 2⟩
  have := h.1 1 (T "aaa")
  have hd : (runOps (C02.init 1) demoOps).don 1 (T "aaa") = 7 := by decide +kernel
  rw [hd] at this; exact this

/-- non-vacuity of the pool-math side on the requested concrete pools. -/
example : balCalcOut (mkBalPool [("tka", 10 ^ 12, 1), ("tkb", 10 ^ 12, 1)] (100 * P18) 0 0) [("tka", 10 ^ 30)] "tkb" 0 =
    .ok 999999999999 := by decide +kernel
example : calcExitPool [("tka", 10 ^ 12), ("tkb", 10 ^ 12), ("tkc", 10 ^ 24)] (100 * P18) (P18) 0 =
    .ok [("tka", 10 ^ 10), ("tkb", 10 ^ 10), ("tkc", 10 ^ 22)] := by decide +kernel
example : maximalExactRatioJoin [("tka", 10 ^ 12), ("tkb", 10 ^ 12)] (100 * P18) [("tka", 10 ^ 10), ("tkb", 10 ^ 10)] =
    .ok (P18, [10 ^ 10, 10 ^ 10]) := by decide +kernel
example : balExitSwapOut (mkBalPool [("tka", 2 * 10 ^ 9, 2), ("tkb", 10 ^ 9, 1)] (100 * P18) (10 ^ 15) 0) "tka" 1000 (10 ^ 30) =
    .ok (33344450929000, mkBalPool [("tka", 2 * 10 ^ 9 - 1000, 2), ("tkb", 10 ^ 9, 1)] (100 * P18 - 33344450929000) (10 ^ 15) 0) := by
  decide +kernel

end OsmoVerif.Props.C02C04
