/-
C19 — export/import of x/tokenfactory (`Model/TokenFactoryGenesis.lean` over the tokenfactory part of `Model/Auth.lean`).

`ExportGenesis` lists every created denom with its authority metadata, plus the params; `InitGenesis` re-creates every
denom (`DeconstructDenom`, `createDenomAfterValidation` with the CREATOR as admin) and then overwrites the authority
metadata with the exported one — also when the exported admin is "" (renounced) or somebody else (foreign admin).
What the genesis does NOT carry: the before-send hook of a denom.

Statements are over `Auth.State` (tokenfactory + the bank entries it touches + the other modules' records of C20);
"reachable" = any history of ANY of the 27 modelled messages from real (non-empty) senders, started in any state that
satisfies `TFInv` (in particular a state produced by a genesis that carries admin-less and foreign-admin denoms).
-/
import OsmoVerif.Proofs.TokenFactoryGenesis

namespace OsmoVerif.Props.C19TokenFactory
open OsmoVerif.Auth

/-- reachable states: a base state satisfying the store invariant, then any history from non-empty senders -/
def Reachable (s : State) : Prop := ∃ s₀ ms, TFInv s₀ ∧ (∀ m ∈ ms, m.sender ≠ "") ∧ s = run s₀ ms

/-- the reachable-state invariant the import needs: one authority record per denom, every denom deconstructs to a
bech32 creator, every admin is "" or a bech32 address, every denom has bank metadata -/
theorem tf_reachable_inv {s : State} (h : Reachable s) : TFInv s := by
  obtain ⟨s₀, ms, h0, hs, rfl⟩ := h
  exact h0.run ms hs

/-- **Export → import on every reachable state**: `ExportGenesis` lists exactly the stored records, `InitGenesis` does
not panic, and the imported state is the exported one with (1) the same authority metadata for EVERY denom — also the
renounced (admin "") and the foreign-admin ones —, possibly in another internal order, (2) NO before-send hooks, and
(3) everything else (params, bank balances / supply / metadata, the records of the other modules) EQUAL. -/
theorem tf_export_import_equiv {s : State} (h : Reachable s) :
    ∃ A, tfExportImport s = some (withAH s A []) ∧ ∀ d, aget d A = aget d s.admins :=
  tfExportImport_eq (tf_reachable_inv h)

/-- … in terms of the observational equivalence `Sim` (equal up to the representation of the authority store and up to
the hooks) -/
theorem tf_export_import_sim {s : State} (h : Reachable s) :
    ∃ s', tfExportImport s = some s' ∧ Sim s s' ∧ s'.hooks = [] := by
  obtain ⟨A, h1, h2⟩ := tf_export_import_equiv h
  exact ⟨_, h1, ⟨A, [], rfl, h2⟩, rfl⟩

/-- the exported document: the params and one entry per record with the stored admin -/
theorem tf_export_complete {s : State} (h : Reachable s) :
    (tfExportGenesis s).denoms = s.admins.map (fun kv => ⟨kv.1, kv.2⟩) ∧
    (tfExportGenesis s).fee = s.fee ∧ (tfExportGenesis s).feeDenom = s.feeDenom :=
  ⟨tfExport_denoms (tf_reachable_inv h), rfl, rfl⟩

/-- `Sim` is an equivalence -/
theorem tf_sim_equivalence :
    (∀ s : State, Sim s s) ∧ (∀ s t, Sim s t → Sim t s) ∧ (∀ s t u, Sim s t → Sim t u → Sim s u) :=
  ⟨Sim.refl, fun _ _ h => h.symm, fun _ _ _ h1 h2 => h1.trans h2⟩

/-- **`Sim` is a bisimulation for all 27 messages of the model** (tokenfactory: create / mint / burn / force transfer /
change admin / set metadata / set hook; lockup, concentrated liquidity, superfluid, valset-pref, gamm): the same outcome on
both sides, `Sim` states afterwards.  No handler reads the hooks, and the authority metadata is read by lookup only. -/
theorem tf_sim_step {s t : State} (h : Sim s t) (m : Msg) :
    Sim (step s m).1 (step t m).1 ∧ (step s m).2 = (step t m).2 :=
  step_sim h m

/-- **everything a message or query reads is restored**: the admin of every denom (`GetAuthorityMetadata`), the params,
the bank entries, the environment and the records of the other modules are EQUAL on `Sim` states; only
`GetBeforeSendHook` may differ. -/
theorem tf_sim_reads {s t : State} (h : Sim s t) :
    (∀ d, adminOf t d = adminOf s d) ∧ t.fee = s.fee ∧ t.feeDenom = s.feeDenom ∧ t.metadata = s.metadata ∧
    t.bal = s.bal ∧ t.supply = s.supply ∧ t.valid = s.valid ∧ t.moduleAccs = s.moduleAccs ∧ t.contracts = s.contracts ∧
    t.locks = s.locks ∧ t.positions = s.positions ∧ (∀ d, isFactoryDenom t d = isFactoryDenom s d) := by
  refine ⟨h.adminOf, ?_⟩
  obtain ⟨A, H, rfl, _⟩ := h
  exact ⟨rfl, rfl, rfl, rfl, rfl, rfl, rfl, rfl, rfl, rfl, fun _ => rfl⟩

/-- **every later history has equal outcomes**: after export → import of a reachable state, any further sequence of
messages succeeds / fails identically on the exporting and on the imported chain, and the states stay `Sim`. -/
theorem tf_run_after_import {s s' : State} (h : Reachable s) (he : tfExportImport s = some s') (ms : List Msg) :
    outcomes s' ms = outcomes s ms ∧ Sim (run s ms) (run s' ms) := by
  obtain ⟨A, h1, h2⟩ := tf_export_import_equiv h
  rw [h1] at he
  injection he with he
  subst he
  obtain ⟨h3, h4⟩ := run_sim (⟨A, [], rfl, h2⟩ : Sim s (withAH s A [])) ms
  exact ⟨h4.symm, h3⟩

/-- renounced and foreign admins in particular: after the import (and after any later history on both chains) every denom
has the same admin as on the exporting chain -/
theorem tf_admins_after_import {s s' : State} (h : Reachable s) (he : tfExportImport s = some s') (ms : List Msg) (d : String) :
    adminOf (run s' ms) d = adminOf (run s ms) d :=
  (tf_run_after_import h he ms).2.adminOf d

/-- **the one thing the import loses**: no denom has a before-send hook afterwards … -/
theorem tf_import_drops_hooks {s s' : State} (h : Reachable s) (he : tfExportImport s = some s') (d : String) :
    hookOf s' d = "" := by
  obtain ⟨s'', h1, _, h3⟩ := tf_export_import_sim h
  rw [h1] at he
  injection he with he
  subst he
  unfold hookOf
  rw [h3]
  rfl

/-- … so the hook query agrees with the exporting chain exactly when no hook was set -/
theorem tf_export_import_hooks_eq_iff {s s' : State} (h : Reachable s) (he : tfExportImport s = some s') :
    (∀ d, hookOf s' d = hookOf s d) ↔ ∀ d, hookOf s d = "" := by
  constructor
  · intro hh d; rw [← hh d]; exact tf_import_drops_hooks h he d
  · intro hh d; rw [hh d]; exact tf_import_drops_hooks h he d

/-! ## a concrete chain: a live admin, a RENOUNCED admin, a FOREIGN admin, a before-send hook -/

/-- `factory/alice/gold` (admin alice, hook contract `ctr`), `factory/alice/dead` (renounced), `factory/alice/lent` (admin
bob: foreign) -/
def tfBase : State :=
  { valid := ["alice", "bob", "carol", "gov", "distr", "ctr"], moduleAccs := ["gov", "distr"], contracts := ["ctr"],
    nativeSupply := ["uosmo"], feeDenom := "uosmo", fee := 10, communityPool := "distr", gov := "gov",
    allowed := [], unbonding := 100, validators := [],
    admins := [("factory/alice/gold", "alice"), ("factory/alice/dead", ""), ("factory/alice/lent", "bob")],
    metadata := [("factory/alice/gold", ""), ("factory/alice/dead", ""), ("factory/alice/lent", "")],
    hooks := [("factory/alice/gold", "ctr")],
    bal := [(("bob", "factory/alice/gold"), 50), (("carol", "uosmo"), 25)],
    supply := [("factory/alice/gold", 50)], locks := [], lastLock := 0, positions := [], nextPos := 1 }

theorem tfBase_inv : TFInv tfBase :=
  ⟨by decide, by decide, by decide, by decide⟩

/-- a history on it: carol creates a denom (pays the fee), bob (foreign admin) mints `lent`, alice renounces `gold` -/
def tfHist : List Msg :=
  [.tfCreate "carol" "silver", .tfMint "bob" "factory/alice/lent" 7 "carol", .tfChangeAdmin "alice" "factory/alice/gold" ""]

def tfMid : State := run tfBase tfHist

example : Reachable tfMid := ⟨tfBase, tfHist, tfBase_inv, by decide, rfl⟩
example : outcomes tfBase tfHist = [.ok, .ok, .ok] := by decide

/-- the import restores all four denoms with their admins — created, renounced by a message, renounced at genesis, foreign —
the fee, the balances; the state differs in the ORDER of the authority records (plain equality of the model state is false) and
in the hooks -/
example : (tfExportImport tfMid).map (fun t => (adminOf t "factory/carol/silver", adminOf t "factory/alice/gold",
      adminOf t "factory/alice/dead", adminOf t "factory/alice/lent", t.fee, getBal t.bal "carol" "factory/alice/lent")) =
      some ("carol", "", "", "bob", 10, 7) ∧
    (tfExportImport tfMid).map (fun t => t.admins.map (·.1)) = some (tfMid.admins.map (·.1)).reverse ∧
    tfMid.admins.map (·.1) ≠ (tfMid.admins.map (·.1)).reverse := by
  decide

/-- **FINDING (not in the genesis): the before-send hook is lost.**  `GetBeforeSendHook(factory/alice/gold)` answers `ctr` on
the exporting chain and "" on the imported one; nothing in the genesis document mentions it. -/
theorem tf_import_drops_before_send_hook_witness :
    hookOf tfMid "factory/alice/gold" = "ctr" ∧
    (tfExportImport tfMid).map (fun t => hookOf t "factory/alice/gold") = some "" ∧
    (tfExportGenesis tfMid).denoms = [⟨"factory/alice/gold", ""⟩, ⟨"factory/carol/silver", "carol"⟩,
      ⟨"factory/alice/dead", ""⟩, ⟨"factory/alice/lent", "bob"⟩] := by
  decide

/-- later transactions behave the same on both chains (instance of `tf_run_after_import`): the renounced denoms stay dead,
the foreign admin keeps his powers, the creator has none -/
example : (tfExportImport tfMid).map (fun t => outcomes t
      [.tfMint "alice" "factory/alice/gold" 1 "", .tfMint "bob" "factory/alice/lent" 1 "", .tfMint "alice" "factory/alice/lent" 1 "",
       .tfBurn "carol" "factory/carol/silver" 0 ""]) = some [.err, .ok, .err, .ok] ∧
    outcomes tfMid [.tfMint "alice" "factory/alice/gold" 1 "", .tfMint "bob" "factory/alice/lent" 1 "",
       .tfMint "alice" "factory/alice/lent" 1 "", .tfBurn "carol" "factory/carol/silver" 0 ""] = [.err, .ok, .err, .ok] := by
  decide

/-- `InitGenesis` panics on a document with a denom that does not deconstruct (creator not a bech32 address) or with an
admin that is neither "" nor an address … -/
theorem tf_import_rejects_malformed_witness :
    tfInitGenesis (tfFresh tfBase) ⟨"uosmo", 10, [⟨"factory/nobody/x", ""⟩]⟩ = none ∧
    tfInitGenesis (tfFresh tfBase) ⟨"uosmo", 10, [⟨"uosmo", ""⟩]⟩ = none ∧
    tfInitGenesis (tfFresh tfBase) ⟨"uosmo", 10, [⟨"factory/alice/gold", "nobody"⟩]⟩ = none := by
  decide

/-- … but it does NOT run `GenesisState.Validate` (module.go: `cdc.MustUnmarshalJSON` then `keeper.InitGenesis`): a document
listing a denom twice is imported, the LATER authority metadata wins (never produced by an export: `tf_export_complete` +
`TFInv.nodup`). -/
theorem tf_import_accepts_duplicate_denom_witness :
    (tfInitGenesis (tfFresh tfBase) ⟨"uosmo", 10, [⟨"factory/alice/gold", "alice"⟩, ⟨"factory/alice/gold", "bob"⟩]⟩).map
      (fun t => adminOf t "factory/alice/gold") = some "bob" := by
  decide

end OsmoVerif.Props.C19TokenFactory
