/-
C08 — spread rewards and incentives reach exactly the liquidity that earned them.

PROVED here (all inputs): the per-step credit arithmetic — the growth credited per unit of liquidity
times the active liquidity never exceeds the (scaled) charge, hence positions whose liquidity adds up
to at most the active liquidity (invariant (a) of C07) can never be credited more than was paid in;
growth is linear in the shares held (k-fold liquidity ⇒ k-fold credit before rounding) and identical
shares are credited identically.  The accumulator mechanics (what a position can claim = Σ growth ×
shares held then, claim/add/remove neither lose nor duplicate) are the theorems of C15 over the same
accumulator code.  NOT PROVED (decided by the `cl` engine's oracles on the real keeper only): the
tick-crossing "growth outside" bookkeeping (`growth_inside_is_time_in_range`), uptime accumulators and
the forfeit rule.
-/
import OsmoVerif.Model.CLRewards
import OsmoVerif.Proofs.NumLemmas
import OsmoVerif.Props.C15

namespace OsmoVerif.Props.C08
open OsmoVerif.CLRewards OsmoVerif.Num OsmoVerif.Spec

theorem tdiv_mul_le {n d : Int} (hn : 0 ≤ n) (hd : 0 < d) : 0 ≤ n.tdiv d ∧ n.tdiv d * d ≤ n := by
  obtain ⟨e, hp, _⟩ := tdiv_tmod_spec n d hd
  have := hp hn
  exact ⟨Int.tdiv_nonneg hn (by omega), by omega⟩

/-- one step: credited growth × active liquidity ≤ charge × scaling factor (18-decimal raw units). -/
theorem spreadGrowth_bound {charge liq scale g : Int} (hc : 0 ≤ charge) (hl : 0 < liq) (hs : 0 < scale)
    (h : spreadGrowth charge liq scale = some g) : 0 ≤ g ∧ g * liq ≤ charge * scale := by
  unfold spreadGrowth at h
  rw [if_neg (by omega)] at h
  by_cases hsc : scale = P18
  · rw [if_pos hsc] at h
    simp only [Option.bind_eq_bind, Option.bind_some, bind] at h
    unfold Dec.quoTruncate at h
    rw [if_neg (by omega)] at h
    unfold chkDec at h
    split at h
    · injection h with h
      subst h
      have := tdiv_mul_le (n := charge * P18) (d := liq) (Int.mul_nonneg hc (by decide)) hl
      rw [hsc]; exact this
    · cases h
  · rw [if_neg hsc] at h
    cases hm : Dec.mulTruncate charge scale with
    | none => rw [hm] at h; cases h
    | some scaled =>
      rw [hm] at h
      simp only [Option.bind_eq_bind, Option.bind_some, bind] at h
      have hsv : 0 ≤ scaled ∧ scaled * P18 ≤ charge * scale := by
        unfold Dec.mulTruncate chkDec chopTrunc at hm
        split at hm
        · injection hm with hm
          subst hm
          exact tdiv_mul_le (Int.mul_nonneg hc (by omega)) (by decide)
        · cases hm
      unfold Dec.quoTruncate at h
      rw [if_neg (by omega)] at h
      unfold chkDec at h
      split at h
      · injection h with h
        subst h
        have := tdiv_mul_le (n := scaled * P18) (d := liq) (Int.mul_nonneg hsv.1 (by decide)) hl
        exact ⟨this.1, by omega⟩
      · cases h

theorem sum_mul (g : Int) : ∀ l : List Int, sumL (l.map (g * ·)) = g * sumL l
  | [] => by simp [sumL]
  | x :: xs => by simp only [List.map, sumL, sum_mul g xs, Int.mul_add]

/-- **total credited never exceeds what was paid in**: any family of positions whose liquidity adds up
to at most the active liquidity is credited, together, at most the charge (scaled units). -/
theorem total_credit_le_charge {charge liq scale g : Int} (hc : 0 ≤ charge) (hl : 0 < liq) (hs : 0 < scale)
    (h : spreadGrowth charge liq scale = some g) (shares : List Int) (hsum : sumL shares ≤ liq) :
    sumL (shares.map (g * ·)) ≤ charge * scale := by
  obtain ⟨hg, hb⟩ := spreadGrowth_bound hc hl hs h
  rw [sum_mul]
  have : g * sumL shares ≤ g * liq := Int.mul_le_mul_of_nonneg_left hsum hg
  omega

/-- identical shares are credited identically, k-fold shares k-fold (before the accumulator's
per-settlement rounding, bounded in C15 `rewards_rounding_bound`). -/
theorem credit_linear (g s k : Int) : g * (k * s) = k * (g * s) := by
  rw [← Int.mul_assoc, Int.mul_comm g k, Int.mul_assoc]

/-- no active liquidity ⇒ nothing is credited (the charge stays in the spread-reward account as dust). -/
theorem no_liquidity_no_credit (charge scale : Int) : spreadGrowth charge 0 scale = some 0 := by
  unfold spreadGrowth; rw [if_pos rfl]

/-! non-vacuity -/
example : spreadGrowth (3 * P18) (7 * P18) P18 = some 428571428571428571 := by decide +kernel
example : spreadGrowth (3 * P18) (7 * P18) (10 ^ 27 * P18) = some 428571428571428571428571428571428571428571428 := by decide +kernel

end OsmoVerif.Props.C08
