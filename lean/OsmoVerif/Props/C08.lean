/-
C08 — spread rewards and incentives reach exactly the liquidity that earned them.

Model: `Model/CLFees.lean` = `Model/CLPool.lean` (the C01/C03/C07 state machine, untouched) + the spread-reward
bookkeeping (global accumulator, growth-outside per stored tick, accumulator record per position, claim with
scale-down / dust re-deposit), tied to the keeper by the `cl` engine after EVERY op (`clp fdump`).
History model and helper lemmas: Proofs/CLFees{Trace,Arith,Rec,Ops,Inv,Hist}.lean.

PROVED here, for ALL histories (induction over the message list, unbounded), spread rewards:
 * every reachable state satisfies C07's pool invariant and the accumulator-side invariant (`reachable_inv`);
 * growth-outside bookkeeping: growth inside a range whose boundaries are stored ticks is unchanged by tick crossings in
   either direction, by in-bucket tick moves, by initialisation/removal of other ticks, and grows by exactly the growth
   added while lower ≤ currentTick < upper (`growth_inside_*`, `swap_growth_inside`, `growth_inside_history`);
 * what a position can claim = trunc/scale-down of  unclaimed + round₁₈((growth inside now − snapshot) × liquidity)  — the
   C15 accumulator formula with "growth inside the range" for "accumulator value" (`claimable_formula`), hence over a
   history = the growth events while in range × liquidity (`claimable_after_history`);
 * twins earn the same (`twins_equal_rewards`), a range the price never entered earns nothing
   (`never_in_range_earns_nothing`), k-fold liquidity earns k-fold up to (k+1)/2 raw units (`k_fold_liquidity_raw`);
 * collect pays exactly the claimable amount and resets the record; a second claim pays nothing in pools past the scaling
   migration (`second_claim_pays_nothing_scaled`; scaling factor one: `_partial`, see there); a partial withdrawal parks
   exactly the accrued amount in the record, a full withdrawal / add-to-position pays it out; a transfer changes nothing;
 * the per-step credit arithmetic (growth × active liquidity ≤ charge × scale).
   also: accumulator total shares = Σ position liquidity in every reachable state (`total_shares_eq_sum`), hence a second
   claim pays nothing for scaling factor one too (`second_claim_pays_nothing`);
 * **the SUM bound** (`sum_invariant`, `total_claimable_le_paid_in`, `spread_reward_solvency`): in every reachable state,
   per pool token, (paid out + Σ positions claimable) · scale · 10¹⁸ ≤ paid in · scale · 10¹⁸ + (m/2) · 10¹⁸ where m = number
   of messages so far + number of live positions — the half units are the half-even `MulDec` roundings of the record
   settlements, the only rounding not in the pool's favour — hence, for histories of fewer than 2·scale ≥ 2·10¹⁸ messages,
   paid out + Σ claimable ≤ paid in, i.e. the spread-reward address balance `fee − out` covers every claim (C01's clause).
NOT PROVED: the dust bound in the other direction (balance − Σ claimable ≤ bound in #steps/#claims; engine oracle
`rewards:spread-lost:*`); the uptime accumulators and the forfeit rule (phase 2: engine oracles `incentives:*`).
-/
import OsmoVerif.Model.CLRewards
import OsmoVerif.Proofs.NumLemmas
import OsmoVerif.Props.C15
import OsmoVerif.Proofs.CLFeesFinal
import OsmoVerif.Props.C07

namespace OsmoVerif.Props.C08
open OsmoVerif.CLRewards OsmoVerif.Num OsmoVerif.Spec OsmoVerif.CLFees OsmoVerif.CLFeesP OsmoVerif.CLBook OsmoVerif.CLPool OsmoVerif.CL OsmoVerif.Gen

theorem tdiv_mul_le {n d : Int} (hn : 0 ≤ n) (hd : 0 < d) : 0 ≤ n.tdiv d ∧ n.tdiv d * d ≤ n := by
  obtain ⟨e, hp, _⟩ := tdiv_tmod_spec n d hd
  have := hp hn
  exact ⟨Int.tdiv_nonneg hn (by omega), by omega⟩

/-- one step: credited growth × active liquidity ≤ charge × scaling factor (18-decimal raw units). -/
theorem spreadGrowth_bound {charge liq scale g : Int} (hc : 0 ≤ charge) (hl : 0 < liq) (hs : 0 < scale)
    (h : spreadGrowth charge liq scale = some g) : 0 ≤ g ∧ g * liq ≤ charge * scale := by
  unfold spreadGrowth at h
  rw [if_neg (by omega)] at h
  by_cases hsc : scale = P18
  · rw [if_pos hsc] at h
    simp only [Option.bind_eq_bind, Option.bind_some, bind] at h
    unfold Dec.quoTruncate at h
    rw [if_neg (by omega)] at h
    unfold chkDec at h
    split at h
    · injection h with h
      subst h
      have := tdiv_mul_le (n := charge * P18) (d := liq) (Int.mul_nonneg hc (by decide)) hl
      rw [hsc]; exact this
    · cases h
  · rw [if_neg hsc] at h
    cases hm : Dec.mulTruncate charge scale with
    | none => rw [hm] at h; cases h
    | some scaled =>
      rw [hm] at h
      simp only [Option.bind_eq_bind, Option.bind_some, bind] at h
      have hsv : 0 ≤ scaled ∧ scaled * P18 ≤ charge * scale := by
        unfold Dec.mulTruncate chkDec chopTrunc at hm
        split at hm
        · injection hm with hm
          subst hm
          exact tdiv_mul_le (Int.mul_nonneg hc (by omega)) (by decide)
        · cases hm
      unfold Dec.quoTruncate at h
      rw [if_neg (by omega)] at h
      unfold chkDec at h
      split at h
      · injection h with h
        subst h
        have := tdiv_mul_le (n := scaled * P18) (d := liq) (Int.mul_nonneg hsv.1 (by decide)) hl
        exact ⟨this.1, by omega⟩
      · cases h

theorem sum_mul (g : Int) : ∀ l : List Int, sumL (l.map (g * ·)) = g * sumL l
  | [] => by simp [sumL]
  | x :: xs => by simp only [List.map, sumL, sum_mul g xs, Int.mul_add]

/-- **total credited never exceeds what was paid in**: any family of positions whose liquidity adds up
to at most the active liquidity is credited, together, at most the charge (scaled units). -/
theorem total_credit_le_charge {charge liq scale g : Int} (hc : 0 ≤ charge) (hl : 0 < liq) (hs : 0 < scale)
    (h : spreadGrowth charge liq scale = some g) (shares : List Int) (hsum : sumL shares ≤ liq) :
    sumL (shares.map (g * ·)) ≤ charge * scale := by
  obtain ⟨hg, hb⟩ := spreadGrowth_bound hc hl hs h
  rw [sum_mul]
  have : g * sumL shares ≤ g * liq := Int.mul_le_mul_of_nonneg_left hsum hg
  omega

/-- identical shares are credited identically, k-fold shares k-fold (before the accumulator's
per-settlement rounding, bounded in C15 `rewards_rounding_bound`). -/
theorem credit_linear (g s k : Int) : g * (k * s) = k * (g * s) := by
  rw [← Int.mul_assoc, Int.mul_comm g k, Int.mul_assoc]

/-- no active liquidity ⇒ nothing is credited (the charge stays in the spread-reward account as dust). -/
theorem no_liquidity_no_credit (charge scale : Int) : spreadGrowth charge 0 scale = some 0 := by
  unfold spreadGrowth; rw [if_pos rfl]

/-! non-vacuity -/
example : spreadGrowth (3 * P18) (7 * P18) P18 = some 428571428571428571 := by decide +kernel
example : spreadGrowth (3 * P18) (7 * P18) (10 ^ 27 * P18) = some 428571428571428571428571428571428571428571428 := by decide +kernel

/-! # the spread-reward bookkeeping over histories -/

/-! ## the model extends the pool state machine conservatively -/

/-- the step-trace loop added for the fee layer is `swapLoopS` plus a trace. -/
theorem trace_loop_refines_swap_loop (scale : Int) (og zfo : Bool) (spf limit : Int) (fuel : Nat) (st : SwapSt) (ahead : Ticks)
    (steps crossed : Nat) :
    (swapLoopT scale og zfo spf limit fuel st ahead steps crossed).map (·.1) =
      swapLoopS scale og zfo spf limit fuel st ahead steps crossed :=
  swapLoopT_fst scale og zfo spf limit fuel st ahead steps crossed

/-- every successful message acts on the pool component exactly as the `CLPool` operation C01/C03/C07 speak about. -/
theorem message_acts_on_pool_as_CLPool {f f' : Fees} {op : FOp} (h : applyF f op = some f') :
    match op.toBook with
    | some b => CLBook.apply f.pool b = some f'.pool
    | none => f'.pool = f.pool :=
  applyF_pool h

/-! ## invariants of every reachable state -/

theorem reachable_inv {s spf scale : Int} (hs : 0 < s) (hspf : SpfOK spf) (ops : List FOp) :
    FullInv (runF (initF s spf scale) ops) :=
  run_full ops (initF_full hs hspf)

theorem reachable_inv_authorized {s spf scale : Int} (hs : s ∈ CL.AuthorizedTickSpacing) (hf : spf ∈ CL.AuthorizedSpreadFactors)
    (ops : List FOp) : FullInv (runF (initF s spf scale) ops) :=
  reachable_inv (C07.authorized_parameters_ok.1 s hs) (C07.authorized_parameters_ok.2 spf hf) ops

/-- every position has an accumulator record holding exactly its liquidity, and both its boundary ticks carry a
growth-outside value. -/
theorem position_has_record {f : Fees} (hf : FullInv f) {q : Position} (hq : q ∈ f.pool.positions) :
    (∃ r, getRec f.acc.recs q.id = some r ∧ r.shares = q.liq) ∧
    (getOut f.acc.outs q.lower).isSome ∧ (getOut f.acc.outs q.upper).isSome := by
  obtain ⟨r, hr, e, _⟩ := hf.acc.recs q hq
  exact ⟨⟨r, hr, e⟩, hf.acc.stored q hq⟩

/-! ## the growth-outside bookkeeping -/

/-- growth added to the accumulator is credited to a range exactly when the current tick is inside it. -/
theorem growth_inside_credited_iff_in_range {cur G g ol ou l u : Int} (hlu : l < u) :
    insideI cur (G + g) ol ou l u = insideI cur G ol ou l u + (if l ≤ cur ∧ cur < u then g else 0) :=
  insideI_grow hlu

/-- crossing the lower (resp. upper) boundary tick — its stored value becomes accumulator − value, and its side of
the current tick flips — leaves growth below (resp. above) it unchanged; both swap directions. -/
theorem growth_outside_flip_on_crossing {cur cur' t G o : Int} (h : t ≤ cur ↔ ¬ t ≤ cur') :
    belowI cur' t G (G - o) = belowI cur t G o ∧ aboveI cur' t G (G - o) = aboveI cur t G o :=
  ⟨belowI_flip h, aboveI_flip h⟩

/-- moving the current tick without passing the tick leaves them unchanged. -/
theorem growth_outside_kept_in_bucket {cur cur' t G o : Int} (h : t ≤ cur ↔ t ≤ cur') :
    belowI cur' t G o = belowI cur t G o ∧ aboveI cur' t G o = aboveI cur t G o :=
  ⟨belowI_keep h, aboveI_keep h⟩

/-- along the loop of one swap (any number of crossings, either direction): growth inside a range with stored
boundaries increases by exactly the growth of the iterations that started with the current tick in the range. -/
theorem swap_growth_inside {scale : Int} {zfo : Bool} {G : V2} {tl : Ticks} {ps : List Position} {l u : Int} (hlu : l < u)
    (hl : ∃ n, (l, n) ∈ tl) (hu : ∃ n, (u, n) ∈ tl) (s : Bool)
    (trs : List StepTrace) (cur cur' acc : Int) (outs : List (Int × V2)) (acc' : Int) (outs' : List (Int × V2)) (ol ou : V2)
    (hok : TraceOK zfo tl ps cur trs cur') (hfold : foldTrace scale zfo G trs acc outs = some (acc', outs'))
    (gl : getOut outs l = some ol) (gu : getOut outs u = some ou) :
    ∃ ol' ou', getOut outs' l = some ol' ∧ getOut outs' u = some ou' ∧
      insideI cur' (get s G + dlt s zfo acc') (get s ol') (get s ou') l u =
        insideI cur (get s G + dlt s zfo acc) (get s ol) (get s ou) l u + dlt s zfo (traceGrowth scale l u trs) :=
  foldTrace_inside hlu hl hu s trs cur cur' acc outs acc' outs' ol ou hok hfold gl gu

/-- **growth inside = growth while in range**, between any two moments of any history, for a position that exists at
both (under the same id; its boundary ticks then stay initialised in between): the difference is the sum of the growth
events of the successful messages in between that happened while lower ≤ currentTick < upper. -/
theorem growth_inside_history {f : Fees} (hf : FullInv f) (ops : List FOp) {q q' : Position}
    (hq : q ∈ f.pool.positions) (hq' : q' ∈ (runF f ops).pool.positions) (hid : q'.id = q.id) :
    q'.lower = q.lower ∧ q'.upper = q.upper ∧
    ∀ s, get s (insideF (runF f ops) q.lower q.upper) =
      get s (insideF f q.lower q.upper) + evSum s q.lower q.upper (effHist f ops) :=
  run_inside ops hf q hq q' hq' hid

/-! ## what a position can claim -/

/-- the accumulator formula (C15) instantiated: claimable = whole tokens (scaled down) of
`unclaimed + round₁₈((growth inside now − snapshot) × shares)`, per pool token. -/
theorem claimable_formula {f : Fees} {id : Nat} {c : Int × Int} (h : CLFees.claimable f id = some c) :
    ∃ (pos : Position) (r : Rec) (total : V2), pos ∈ f.pool.positions ∧ pos.id = id ∧ getRec f.acc.recs id = some r ∧
      (∀ s, get s total = rewardI (get s r.unclaimed) (get s (insideF f pos.lower pos.upper) - get s r.snap) r.shares ∧
        0 ≤ get s (insideF f pos.lower pos.upper) - get s r.snap) ∧
      c = (claimAmt f.pool.scale total.a, claimAmt f.pool.scale total.b) :=
  claimable_spec h

/-- over a history that does not address the position: claimable at the end = whole tokens of
`unclaimed₀ + round₁₈((growth inside₀ − snapshot₀ + Σ growth events while in range) × liquidity)`. -/
theorem claimable_after_history {f : Fees} (hf : FullInv f) {q : Position} (hq : q ∈ f.pool.positions) {r : Rec}
    (hr : getRec f.acc.recs q.id = some r) (ops : List FOp) (ht : ∀ op ∈ ops, ¬ touches op q.id)
    {c : Int × Int} (hc : CLFees.claimable (runF f ops) q.id = some c) :
    ∃ total : V2,
      (∀ s, get s total = rewardI (get s r.unclaimed)
        (get s (insideF f q.lower q.upper) + evSum s q.lower q.upper (effHist f ops) - get s r.snap) r.shares) ∧
      c = (claimAmt (runF f ops).pool.scale total.a, claimAmt (runF f ops).pool.scale total.b) := by
  obtain ⟨pos, r', total, hmem, hid, hr', htot, hcc⟩ := claimable_spec hc
  have hfr := run_rec_frame ops hf (x := q.id) (by rw [hr]; rfl) ht
  rw [hfr, hr] at hr'
  injection hr' with hr'
  subst hr'
  obtain ⟨e1, e2, hin⟩ := run_inside ops hf q hq pos hmem hid
  refine ⟨total, fun s => ?_, hcc⟩
  rw [(htot s).1, e1, e2, hin s]

theorem evSum_zero_of_never_in_range {s : Bool} {l u : Int} :
    ∀ {evs : List Ev}, (∀ e ∈ evs, ¬ (l ≤ e.1 ∧ e.1 < u)) → evSum s l u evs = 0
  | [], _ => rfl
  | e :: es, h => by
    simp only [evSum]
    rw [if_neg (h e List.mem_cons_self), evSum_zero_of_never_in_range (fun x hx => h x (List.mem_cons_of_mem _ hx))]
    rfl

theorem claimAmt_zero (scale : Int) : claimAmt scale 0 = 0 := by
  unfold claimAmt scaleDownZ; split <;> simp

/-- **a position whose range the price never entered earns nothing**: a fresh record (nothing unclaimed, snapshot =
growth inside at that moment — what creation produces, `create_gives_fresh_record`) and no growth event while the
current tick was in range ⇒ nothing claimable, whatever else happened (swaps crossing other ticks, other positions'
operations, claims). -/
theorem never_in_range_earns_nothing {f : Fees} (hf : FullInv f) {q : Position} (hq : q ∈ f.pool.positions) {r : Rec}
    (hr : getRec f.acc.recs q.id = some r) (hfresh : r.unclaimed = V2.zero ∧ r.snap = insideF f q.lower q.upper)
    (ops : List FOp) (ht : ∀ op ∈ ops, ¬ touches op q.id)
    (hnever : ∀ e ∈ effHist f ops, ¬ (q.lower ≤ e.1 ∧ e.1 < q.upper))
    {c : Int × Int} (hc : CLFees.claimable (runF f ops) q.id = some c) : c = (0, 0) := by
  obtain ⟨total, htot, hcc⟩ := claimable_after_history hf hq hr ops ht hc
  have hz : ∀ s, get s total = 0 := by
    intro s
    rw [htot s, hfresh.1, hfresh.2, get_zero, evSum_zero_of_never_in_range hnever]
    unfold rewardI
    have : get s (insideF f q.lower q.upper) + 0 - get s (insideF f q.lower q.upper) = 0 := by omega
    rw [this, Int.zero_mul]; decide
  have ha : total.a = 0 := hz true
  have hb : total.b = 0 := hz false
  rw [hcc, ha, hb, claimAmt_zero]

/-- creation produces a fresh record: shares = liquidity, snapshot = growth inside now, nothing unclaimed. -/
theorem create_gives_fresh_record {f f' : Fees} {owner : String} {lower upper a0 a1 : Int} {id : Nat} {x0 x1 liq lo up : Int}
    (hf : FullInv f) (h : CLFees.createPosition f owner lower upper a0 a1 = some (f', id, x0, x1, liq, lo, up)) :
    getRec f'.acc.recs id = some ⟨id, liq, insideF f' lo up, V2.zero⟩ ∧
    f'.pool.positions = f.pool.positions ++ [⟨id, owner, lo, up, liq⟩] := by
  obtain ⟨_, _, hrec, _, _, hpos, _⟩ := createMin_facts hf.pool.core hf.acc h
  exact ⟨hrec, hpos⟩

/-- **twins**: two positions with the same range whose records agree (same liquidity, same snapshot, same unclaimed —
the case for positions created at the same moment and claimed at the same moments) can claim the same at every later
moment of every history that addresses neither. -/
theorem twins_equal_rewards {f : Fees} (hf : FullInv f) {q1 q2 : Position} (h1 : q1 ∈ f.pool.positions) (h2 : q2 ∈ f.pool.positions)
    (hrange : q1.lower = q2.lower ∧ q1.upper = q2.upper) {r1 r2 : Rec}
    (hr1 : getRec f.acc.recs q1.id = some r1) (hr2 : getRec f.acc.recs q2.id = some r2)
    (hsame : r1.shares = r2.shares ∧ r1.snap = r2.snap ∧ r1.unclaimed = r2.unclaimed)
    (ops : List FOp) (ht : ∀ op ∈ ops, ¬ touches op q1.id ∧ ¬ touches op q2.id)
    {c1 c2 : Int × Int} (hc1 : CLFees.claimable (runF f ops) q1.id = some c1) (hc2 : CLFees.claimable (runF f ops) q2.id = some c2) :
    c1 = c2 := by
  obtain ⟨t1, ht1, e1⟩ := claimable_after_history hf h1 hr1 ops (fun op ho => (ht op ho).1) hc1
  obtain ⟨t2, ht2, e2⟩ := claimable_after_history hf h2 hr2 ops (fun op ho => (ht op ho).2) hc2
  have : t1 = t2 := by
    apply get_ext; intro s
    rw [ht1 s, ht2 s, hrange.1, hrange.2, hsame.1, hsame.2.1, hsame.2.2]
  rw [e1, e2, this]

/-- two positions created one after the other with the same range and resulting liquidity ARE twins: equal records. -/
theorem twins_created_together {f f1 f2 : Fees} {o1 o2 : String} {l1 u1 a0 a1 l2 u2 b0 b1 : Int} {id1 id2 : Nat}
    {x0 x1 y0 y1 liq lo up : Int} (hf : FullInv f)
    (h1 : CLFees.createPosition f o1 l1 u1 a0 a1 = some (f1, id1, x0, x1, liq, lo, up))
    (h2 : CLFees.createPosition f1 o2 l2 u2 b0 b1 = some (f2, id2, y0, y1, liq, lo, up)) :
    ∃ r1 r2, getRec f2.acc.recs id1 = some r1 ∧ getRec f2.acc.recs id2 = some r2 ∧
      r1.shares = r2.shares ∧ r1.snap = r2.snap ∧ r1.unclaimed = r2.unclaimed := by
  have hap : applyF f (.create o1 l1 u1 a0 a1) = some f1 := by simp only [applyF, h1, Option.map_some]
  have hf1 := (apply_facts hf hap).1
  obtain ⟨_, eid1, hrec1, _, _, hpos1, _⟩ := createMin_facts hf.pool.core hf.acc h1
  obtain ⟨sf2, eid2, hrec2, fr2, _, hpos2, _⟩ := createMin_facts hf1.pool.core hf1.acc h2
  have hlt : id1 < f1.pool.nextId := hf1.acc.recIds id1 (by rw [hrec1]; rfl)
  have hmem1 : (⟨id1, o1, lo, up, liq⟩ : Position) ∈ f1.pool.positions := by rw [hpos1]; simp
  have hmem2 : (⟨id1, o1, lo, up, liq⟩ : Position) ∈ f2.pool.positions := by rw [hpos2]; simp [hmem1]
  have hin := sf2.inside _ hmem1 _ hmem2 rfl
  refine ⟨⟨id1, liq, insideF f1 lo up, V2.zero⟩, ⟨id2, liq, insideF f2 lo up, V2.zero⟩,
    by rw [fr2 id1 (by omega)]; exact hrec1, hrec2, rfl, ?_, rfl⟩
  apply get_ext; intro s
  have := hin s
  simp only [evSum, Int.add_zero] at this
  exact this.symm

/-! ## k-fold liquidity -/

theorem chopRound_bound {x : Int} (hx : 0 ≤ x) : 2 * (chopRound P18 x * P18 - x) ≤ P18 ∧ -P18 ≤ 2 * (chopRound P18 x * P18 - x) := by
  have hP : P18 = 1000000000000000000 := by decide
  obtain ⟨e, hp, _⟩ := tdiv_tmod_spec x P18 (by decide)
  have hr := hp hx
  unfold chopRound
  rw [if_neg (by omega)]
  unfold chopRoundNonneg
  simp only
  have h2 : P18.tdiv 2 = 500000000000000000 := by decide
  rw [h2]
  have hq1 : (x.tdiv P18 + 1) * P18 = x.tdiv P18 * P18 + P18 := by rw [Int.add_mul, Int.one_mul]
  split
  · constructor <;> omega
  · split
    · constructor <;> omega
    · split
      · rw [hq1]; constructor <;> omega
      · split
        · constructor <;> omega
        · rw [hq1]; constructor <;> omega

/-- **k-fold liquidity earns k-fold, up to rounding**: the accrued amount (raw 18-decimal units, before the truncation
to whole tokens) of a record with `k·s` shares differs from `k` times that of a record with `s` shares over the same
growth `d` by at most `(k+1)/2` units of 10⁻¹⁸. -/
theorem k_fold_liquidity_raw {d s k : Int} (hd : 0 ≤ d) (hs : 0 ≤ s) (hk : 0 ≤ k) :
    2 * (rewardI 0 d (k * s) - k * rewardI 0 d s) ≤ k + 1 ∧ -(k + 1) ≤ 2 * (rewardI 0 d (k * s) - k * rewardI 0 d s) := by
  unfold rewardI
  simp only [Int.zero_add]
  have hP : P18 = 1000000000000000000 := by decide
  have hx : 0 ≤ d * s := Int.mul_nonneg hd hs
  have hy : 0 ≤ d * (k * s) := Int.mul_nonneg hd (Int.mul_nonneg hk hs)
  obtain ⟨a1, a2⟩ := chopRound_bound hx
  obtain ⟨b1, b2⟩ := chopRound_bound hy
  have e : d * (k * s) = k * (d * s) := by rw [← Int.mul_assoc, Int.mul_comm d k, Int.mul_assoc]
  rw [e] at b1 b2 ⊢
  -- k × the first bound
  have k1 : k * (2 * (chopRound P18 (d * s) * P18 - d * s)) ≤ k * P18 := Int.mul_le_mul_of_nonneg_left a1 hk
  have k2 : k * (-P18) ≤ k * (2 * (chopRound P18 (d * s) * P18 - d * s)) := Int.mul_le_mul_of_nonneg_left a2 hk
  have e1 : k * (2 * (chopRound P18 (d * s) * P18 - d * s)) = 2 * (k * chopRound P18 (d * s)) * P18 - 2 * (k * (d * s)) := by
    rw [Int.mul_sub, Int.mul_sub]
    have : k * (2 * (chopRound P18 (d * s) * P18)) = 2 * (k * chopRound P18 (d * s)) * P18 := by
      rw [← Int.mul_assoc, Int.mul_comm k 2, Int.mul_assoc 2, ← Int.mul_assoc k, Int.mul_assoc 2]
    rw [this]
    have : k * (2 * (d * s)) = 2 * (k * (d * s)) := by
      rw [← Int.mul_assoc, Int.mul_comm k 2, Int.mul_assoc]
    rw [this]
  rw [e1] at k1 k2
  have e2 : k * -P18 = -(k * P18) := Int.mul_neg k P18
  rw [e2] at k2
  rw [hP] at *
  constructor <;> omega

/-! ## claiming, withdrawing, adding, transferring neither lose nor duplicate -/

/-- collect pays exactly what the query reports as claimable (same state, same computation), out of the spread-reward
address, only to the owner, and re-bases the record: nothing unclaimed, snapshot = growth inside now. -/
theorem collect_pays_exactly_claimable {f f' : Fees} {sender : String} {id : Nat} {c0 c1 : Int} (hf : FullInv f)
    (h : CLFees.collect f sender id = some (f', c0, c1)) :
    CLFees.claimable f id = some (c0, c1) ∧ f'.out0 = f.out0 + c0 ∧ f'.out1 = f.out1 + c1 ∧ f'.pool = f.pool ∧
    ∃ pos r, pos ∈ f.pool.positions ∧ pos.id = id ∧ sender = pos.owner ∧ getRec f.acc.recs id = some r ∧
      getRec f'.acc.recs id = some ⟨id, r.shares, insideF f pos.lower pos.upper, V2.zero⟩ := by
  obtain ⟨pos, hfind, hown, hcl, hpool, ho0, ho1, _⟩ := collect_spec h
  obtain ⟨_, _, pos', r, total, hm, hid, hown', hr, _, _, _, hrec, _⟩ := collect_facts hf.pool.core hf.acc h
  refine ⟨?_, ho0, ho1, hpool, pos', r, hm, hid, hown', hr, hrec⟩
  unfold CLFees.claimable findPos
  rw [hfind]
  simp only [Option.bind_some, hcl, Option.map_some]

/-- a non-owner cannot collect. -/
theorem collect_by_non_owner_fails {f : Fees} {sender : String} {id : Nat} {pos : Position}
    (hfind : f.pool.positions.find? (fun x => decide (x.id = id)) = some pos) (hne : sender ≠ pos.owner) :
    CLFees.collect f sender id = none := by
  unfold CLFees.collect findPos
  rw [hfind]
  simp only [Option.bind_some, ne_eq, hne, not_false_eq_true, ↓reduceIte]

/-- **a second claim pays nothing** in pools past the accumulator scaling migration (scaling factor ≠ 1: no dust goes
back into the accumulator). -/
theorem second_claim_pays_nothing_scaled {f f' : Fees} {sender : String} {id : Nat} {c0 c1 : Int} (hf : FullInv f)
    (hscale : f.pool.scale ≠ P18) (h : CLFees.collect f sender id = some (f', c0, c1))
    {c : Int × Int} (hc : CLFees.claimable f' id = some c) : c = (0, 0) := by
  obtain ⟨sf, hpool, pos, r, total, hm, hid, _, hr, _, _, _, hrec, _, eo, _, eg, _⟩ := collect_facts hf.pool.core hf.acc h
  obtain ⟨pos2, r2, total2, hm2, hid2, hr2, htot2, hcc⟩ := claimable_spec hc
  rw [hrec] at hr2; injection hr2 with hr2; subst hr2
  rw [hpool] at hm2
  have : pos2 = pos := mem_eq_of_id hf.pool.core.pos.uniq hm2 hm (by rw [hid2, hid])
  subst this
  have hin : ∀ s, get s (insideF f' pos2.lower pos2.upper) = get s (insideF f pos2.lower pos2.upper) := by
    intro s
    have hm' : pos2 ∈ f'.pool.positions := by rw [hpool]; exact hm
    have := sf.inside pos2 hm pos2 hm' rfl s
    rw [this, evSum_single, get_vsub, eg s]
    unfold dustGrowthI
    rw [if_neg hscale]
    split <;> omega
  have hz : ∀ s, get s total2 = 0 := by
    intro s
    rw [(htot2 s).1, hin s]
    simp only [get_zero]
    unfold rewardI
    rw [Int.sub_self, Int.zero_mul]; decide
  have ha : total2.a = 0 := hz true
  have hb : total2.b = 0 := hz false
  rw [hcc, ha, hb, claimAmt_zero]

/-- scaling factor one: the forfeited sub-unit dust of the claim goes back into the accumulator per unit of TOTAL
shares, so a second claim sees `round₁₈(dust·10¹⁸/totalShares × shares)` raw units — below one token because
shares ≤ totalShares.  PARTIAL: the formula is proved; the conclusion "= 0 tokens" needs the invariant
totalShares = Σ record shares, which is not proved here (the engine checks `rewards:duplicate-claim` after every collect). -/
theorem second_claim_formula_unscaled_partial {f f' : Fees} {sender : String} {id : Nat} {c0 c1 : Int} (hf : FullInv f)
    (h : CLFees.collect f sender id = some (f', c0, c1)) {c : Int × Int} (hc : CLFees.claimable f' id = some c) :
    ∃ (pos : Position) (r : Rec) (total : V2), pos ∈ f.pool.positions ∧ pos.id = id ∧ getRec f.acc.recs id = some r ∧
      c = (claimAmt f.pool.scale (rewardI 0 (if pos.lower ≤ f.pool.tick ∧ f.pool.tick < pos.upper
              then dustGrowthI f.pool.scale total.a f.acc.totalShares else 0) r.shares),
           claimAmt f.pool.scale (rewardI 0 (if pos.lower ≤ f.pool.tick ∧ f.pool.tick < pos.upper
              then dustGrowthI f.pool.scale total.b f.acc.totalShares else 0) r.shares)) := by
  obtain ⟨sf, hpool, pos, r, total, hm, hid, _, hr, _, _, _, hrec, _, eo, _, eg, _⟩ := collect_facts hf.pool.core hf.acc h
  obtain ⟨pos2, r2, total2, hm2, hid2, hr2, htot2, hcc⟩ := claimable_spec hc
  rw [hrec] at hr2; injection hr2 with hr2; subst hr2
  rw [hpool] at hm2
  have : pos2 = pos := mem_eq_of_id hf.pool.core.pos.uniq hm2 hm (by rw [hid2, hid])
  subst this
  have hin : ∀ s, get s (insideF f' pos2.lower pos2.upper) - get s (insideF f pos2.lower pos2.upper) =
      if pos2.lower ≤ f.pool.tick ∧ f.pool.tick < pos2.upper then dustGrowthI f.pool.scale (get s total) f.acc.totalShares else 0 := by
    intro s
    have hm' : pos2 ∈ f'.pool.positions := by rw [hpool]; exact hm
    have := sf.inside pos2 hm pos2 hm' rfl s
    rw [this, evSum_single, get_vsub, eg s]
    split <;> omega
  refine ⟨pos2, r, total, hm, hid, hr, ?_⟩
  have ha := (htot2 true).1
  have hb := (htot2 false).1
  simp only [get_zero] at ha hb
  rw [hin true] at ha; rw [hin false] at hb
  have ha' : total2.a = _ := ha
  have hb' : total2.b = _ := hb
  rw [hcc, hpool, ha', hb']
  rfl

/-- **partial withdrawal parks the accrued rewards in the record** (nothing paid, nothing lost): the record's
`unclaimed` becomes exactly the raw total a claim would have been computed from, its snapshot the growth inside now;
**full withdrawal pays it out** (`claimAmt` of the same total) and removes the record. -/
theorem withdraw_settles_rewards {f f' : Fees} {owner : String} {id : Nat} {req o0 o1 : Int} (hf : FullInv f)
    (h : CLFees.withdrawPosition f owner id req = some (f', o0, o1)) :
    ∃ (pos : Position) (r : Rec) (rewards : V2), pos ∈ f.pool.positions ∧ pos.id = id ∧ owner = pos.owner ∧
      getRec f.acc.recs id = some r ∧
      (∀ s, get s rewards = rewardI (get s r.unclaimed) (get s (insideF f pos.lower pos.upper) - get s r.snap) r.shares) ∧
      ((req ≠ pos.liq ∧ getRec f'.acc.recs id = some ⟨id, pos.liq - req, insideF f pos.lower pos.upper, rewards⟩ ∧
          f'.out0 = f.out0 ∧ f'.out1 = f.out1) ∨
       (req = pos.liq ∧ getRec f'.acc.recs id = none ∧
          f'.out0 = f.out0 + claimAmt f.pool.scale rewards.a ∧ f'.out1 = f.out1 + claimAmt f.pool.scale rewards.b)) := by
  obtain ⟨_, _, pos, r, rewards, hm, hid, hown, hr, _, _, _, hrew, hcase⟩ := withdraw_facts hf.pool.core hf.acc h
  refine ⟨pos, r, rewards, hm, hid, hown, hr, fun s => (hrew s).1, ?_⟩
  rcases hcase with ⟨a, b, _, c, d, _⟩ | ⟨a, b, c, d, _⟩
  · exact Or.inl ⟨a, b, c, d⟩
  · exact Or.inr ⟨a, b, c, d⟩

/-- add-to-position = full withdrawal of the old position (which pays its rewards out, see above) + creation of a
fresh position (new id, nothing unclaimed). -/
theorem add_is_full_withdraw_then_create {f f' : Fees} {owner : String} {id nid : Nat} {add0 add1 x0 x1 : Int}
    (h : CLFees.addToPosition f owner id add0 add1 = some (f', nid, x0, x1)) :
    ∃ (pos : Position) (f1 : Fees) (w0 w1 liq lo up : Int),
      f.pool.positions.find? (fun x => decide (x.id = id)) = some pos ∧
      CLFees.withdrawPosition f owner id pos.liq = some (f1, w0, w1) ∧
      CLFees.createPositionMin f1 owner pos.lower pos.upper (w0 + add0) (w1 + add1) w0 w1 = some (f', nid, x0, x1, liq, lo, up) := by
  obtain ⟨pos, f1, w0, w1, liq, lo, up, hfind, _, _, _, hw, _, hc⟩ := add_spec h
  exact ⟨pos, f1, w0, w1, liq, lo, up, hfind, hw, hc⟩

/-- a transfer changes the owner only: accumulator, records, paid-out totals and the current tick are untouched, so
the new owner can claim exactly what the old one could. -/
theorem transfer_keeps_rewards {f f' : Fees} {sender : String} {id : Nat} {newOwner : String} (hf : FullInv f)
    (h : CLFees.transferPosition f sender id newOwner = some f') :
    f'.acc = f.acc ∧ f'.out0 = f.out0 ∧ f'.out1 = f.out1 ∧ f'.pool.tick = f.pool.tick ∧
    f'.pool.positions = (f.pool.positions.map fun q => if q.id = id then { q with owner := newOwner } else q) := by
  obtain ⟨_, a, b, c, d, e⟩ := transfer_facts hf.pool.core hf.acc h
  exact ⟨a, b, c, d, e⟩

/-- operations that do not address a position leave its record untouched (frame). -/
theorem untouched_record_unchanged {f : Fees} (hf : FullInv f) (ops : List FOp) {x : Nat}
    (hx : (getRec f.acc.recs x).isSome) (ht : ∀ op ∈ ops, ¬ touches op x) :
    getRec (runF f ops).acc.recs x = getRec f.acc.recs x :=
  run_rec_frame ops hf hx ht

/-! ## total shares, second claim, the SUM bound -/

/-- the accumulator's total shares are the total liquidity of the live positions, in every reachable state. -/
theorem total_shares_eq_sum {s spf scale : Int} (hs : 0 < s) (hspf : SpfOK spf) (hsc : 0 < scale) (ops : List FOp) :
    (runF (initF s spf scale) ops).acc.totalShares = totalLiq (runF (initF s spf scale) ops).pool.positions :=
  (run_sum ops (initF_full hs hspf) (initF_sum hsc)).ts

/-- the SUM invariant of every reachable state (see `SumInv`): `n` = number of messages so far. -/
theorem sum_invariant {s spf scale : Int} (hs : 0 < s) (hspf : SpfOK spf) (hsc : 0 < scale) (ops : List FOp) :
    SumInv (runF (initF s spf scale) ops) ops.length := by
  have := run_sum ops (initF_full hs hspf) (initF_sum (spacing := s) (spf := spf) hsc)
  simpa using this

/-- **a second claim pays nothing**, for either scaling factor: with scaling factor one the claim's sub-unit dust goes
back into the accumulator per unit of TOTAL shares, and the claimant's share of it (shares ≤ total shares) is below one
token. -/
theorem second_claim_pays_nothing {f f' : Fees} {sender : String} {id : Nat} {c0 c1 : Int} (hf : FullInv f)
    (hts : f.acc.totalShares = totalLiq f.pool.positions) (hsc : 0 < f.pool.scale)
    (h : CLFees.collect f sender id = some (f', c0, c1)) {c : Int × Int} (hc : CLFees.claimable f' id = some c) :
    c = (0, 0) := by
  obtain ⟨sf, hpool, pos, r, total, hm, hid, _, hr, htot, _, _, hrec, _, eo, _, eg, _⟩ := collect_facts hf.pool.core hf.acc h
  obtain ⟨pos2, r2, total2, hm2, hid2, hr2, htot2, hcc⟩ := claimable_spec hc
  rw [hrec] at hr2; injection hr2 with hr2; subst hr2
  rw [hpool] at hm2
  have : pos2 = pos := mem_eq_of_id hf.pool.core.pos.uniq hm2 hm (by rw [hid2, hid])
  subst this
  obtain ⟨r0, hr0, esh, _⟩ := hf.acc.recs pos2 hm
  rw [hid, hr] at hr0; injection hr0 with hr0; subst hr0
  have hliq := hf.pool.core.pos.liqPos
  have hshT : r.shares ≤ f.acc.totalShares := by rw [esh, hts]; exact liq_le_totalLiq hliq hm
  have hsh0 : 0 ≤ r.shares := by rw [esh]; have := hliq pos2 hm; omega
  have hz : ∀ s, claimAmt f.pool.scale (get s total2) = 0 := by
    intro s
    have hm' : pos2 ∈ f'.pool.positions := by rw [hpool]; exact hm
    have hin := sf.inside pos2 hm pos2 hm' rfl s
    rw [evSum_single, get_vsub, eg s] at hin
    rw [(htot2 s).1]
    simp only [get_zero]
    apply dust_claim_zero hsc (htot s).2.2 hsh0 hshT
    rw [hin]
    split
    · left; omega
    · right; omega
  have ha : claimAmt f.pool.scale total2.a = 0 := hz true
  have hb : claimAmt f.pool.scale total2.b = 0 := hz false
  rw [hcc, hpool, ha, hb]

theorem sumBy_const (k : Int) (ps : List Position) : sumBy (fun _ => k) ps = ps.length * k := by
  induction ps with
  | nil => simp
  | cons a as ih => simp only [sumBy_cons, ih, List.length_cons, Nat.cast_add, Nat.cast_one, Int.add_mul, Int.one_mul]; omega

/-- **total claimed + claimable never exceeds what was paid in, up to the counted half-unit roundings**: in every
reachable state whose claim queries succeed, for each pool token `b` (raw × raw units on both sides):
`2·(paid out + Σ positions claimable)·scale·10¹⁸ ≤ 2·paid in·10¹⁸·scale + (#messages + #positions)·10¹⁸`. -/
theorem total_claimable_le_paid_in {s spf scale : Int} (hs : 0 < s) (hspf : SpfOK spf) (hsc : 0 < scale) (ops : List FOp)
    (hall : ∀ q ∈ (runF (initF s spf scale) ops).pool.positions, (CLFees.claimable (runF (initF s spf scale) ops) q.id).isSome)
    (b : Bool) :
    2 * ((outS (runF (initF s spf scale) ops) b + sumBy (claimS (runF (initF s spf scale) ops) b) (runF (initF s spf scale) ops).pool.positions)
        * (scale * P18)) ≤
      2 * (feeS (runF (initF s spf scale) ops) b * (P18 * scale)) +
        ((ops.length : Int) + (runF (initF s spf scale) ops).pool.positions.length) * P18 := by
  have hf := reachable_inv (scale := scale) hs hspf ops
  have hsum := sum_invariant hs hspf hsc ops
  have hscale : (runF (initF s spf scale) ops).pool.scale = scale := run_scale _ _
  generalize runF (initF s spf scale) ops = f at *
  have hbound := hsum.bound b
  rw [hscale] at hbound
  unfold phi at hbound
  rw [hscale] at hbound
  have hsc' : 0 < f.pool.scale := by rw [hscale]; exact hsc
  have hle : sumBy (fun q => (2 * (scale * P18)) * claimS f b q) f.pool.positions ≤
      sumBy (fun q => 2 * entI f b q + P18) f.pool.positions := by
    apply sumBy_le
    intro q hq
    have := (claimS_le_entI hf hsc' hq (hall q hq) b).2
    rw [hscale] at this
    have e : 2 * (scale * P18) * claimS f b q = 2 * (claimS f b q * (scale * P18)) := by
      rw [Int.mul_assoc, Int.mul_comm (scale * P18)]
    rw [e]; exact this
  rw [sumBy_mul, sumBy_add, sumBy_mul, sumBy_const] at hle
  rw [Int.add_mul, Int.add_mul]
  have e : 2 * (scale * P18) * sumBy (claimS f b) f.pool.positions = 2 * (sumBy (claimS f b) f.pool.positions * (scale * P18)) := by
    rw [Int.mul_assoc, Int.mul_comm (scale * P18)]
  rw [e] at hle
  omega

/-- **the spread-reward address covers every claim** (the solvency clause of C01 for spread rewards): in every state
reached by fewer than `2·scale` (≥ 2·10¹⁸) messages — counting live positions too — paid out + Σ claimable ≤ paid in, i.e.
`Σ claimable ≤ fee − out`, the address balance. -/
theorem spread_reward_solvency {s spf scale : Int} (hs : 0 < s) (hspf : SpfOK spf) (hsc : 0 < scale) (ops : List FOp)
    (hall : ∀ q ∈ (runF (initF s spf scale) ops).pool.positions, (CLFees.claimable (runF (initF s spf scale) ops) q.id).isSome)
    (hsmall : (ops.length : Int) + (runF (initF s spf scale) ops).pool.positions.length < 2 * scale) (b : Bool) :
    outS (runF (initF s spf scale) ops) b + sumBy (claimS (runF (initF s spf scale) ops) b) (runF (initF s spf scale) ops).pool.positions ≤
      feeS (runF (initF s spf scale) ops) b := by
  have h := total_claimable_le_paid_in hs hspf hsc ops hall b
  generalize runF (initF s spf scale) ops = f at *
  generalize outS f b + sumBy (claimS f b) f.pool.positions = X at *
  generalize feeS f b = F at *
  generalize ((ops.length : Int) + f.pool.positions.length) = m at *
  have hP := P18_pos
  have hK : 0 < scale * P18 := Int.mul_pos hsc hP
  have hm : m * P18 < 2 * scale * P18 := Int.mul_lt_mul_of_pos_right hsmall hP
  have e1 : F * (P18 * scale) = F * (scale * P18) := by rw [Int.mul_comm P18 scale]
  rw [e1] at h
  have h2 : X * (scale * P18) < (F + 1) * (scale * P18) := by
    rw [Int.add_mul, Int.one_mul]
    have e2 : 2 * scale * P18 = 2 * (scale * P18) := Int.mul_assoc _ _ _
    omega
  have := Int.lt_of_mul_lt_mul_right h2 (Int.le_of_lt hK)
  omega

/-! non-vacuity: a history with three positions (alice in range, carol below the price), swaps in both directions
crossing initialised ticks, a collect, a partial withdrawal and a second collect -/

def demoF : Fees := initF 100 2000000000000000 P18
def demoFOps : List FOp :=
  [.create "alice" (-1000) 1000 1000000 1000000, .create "bob" 0 2000 500000 500000, .create "carol" (-3000) (-1000) 0 7000000,
   .swap true true 3000000, .swap true false 3000000, .collect "alice" 1, .withdraw "alice" 1 1000000000000000000000,
   .swap true true 200000, .collect "alice" 1, .collect "bob" 1]

example : SpfOK demoF.pool.spf ∧ 0 < demoF.pool.spacing := ⟨⟨by decide, by decide⟩, by decide⟩

/-- the first swap crosses ticks 0 and −1000 (carol's range is entered: she earns, bob never does), the second comes
back; alice is paid what the query reported, a second claim pays nothing, the partial withdrawal keeps her accruing,
and bob cannot collect alice's position. -/
example :
    (runF demoF (demoFOps.take 4)).pool.tick = -1827 ∧ (runF demoF (demoFOps.take 5)).pool.tick = 0 ∧
    (runF demoF (demoFOps.take 5)).acc.outs.map (·.1) = [-3000, -1000, 0, 1000, 2000] ∧
    CLFees.claimable (runF demoF (demoFOps.take 5)) 1 = some (200, 201) ∧
    CLFees.claimable (runF demoF (demoFOps.take 5)) 2 = some (0, 0) ∧
    CLFees.claimable (runF demoF (demoFOps.take 5)) 3 = some (5799, 5798) ∧
    (runF demoF (demoFOps.take 6)).out0 = 200 ∧ (runF demoF (demoFOps.take 6)).out1 = 201 ∧
    CLFees.claimable (runF demoF (demoFOps.take 6)) 1 = some (0, 0) ∧
    CLFees.claimable (runF demoF (demoFOps.take 8)) 1 = some (201, 0) ∧
    applyF (runF demoF (demoFOps.take 9)) (.collect "bob" 1) = none := by
  decide +kernel

/-- the invariants hold along this history (instance of `reachable_inv`). -/
example : FullInv (runF demoF demoFOps) := reachable_inv (by decide) ⟨by decide, by decide⟩ demoFOps

/-- the hypotheses of the SUM theorems hold on this history (every claim query succeeds, far fewer than 2·scale
messages), and its numbers: paid out 401 + claimable 5998 ≤ paid in 6400 (token0), 201 + 5798 ≤ 6000 (token1);
total shares = Σ liquidity. -/
example :
    (∀ q ∈ (runF demoF demoFOps).pool.positions, (CLFees.claimable (runF demoF demoFOps) q.id).isSome) ∧
    ((demoFOps.length : Int) + (runF demoF demoFOps).pool.positions.length < 2 * P18) ∧
    (outS (runF demoF demoFOps) true, sumBy (claimS (runF demoF demoFOps) true) (runF demoF demoFOps).pool.positions,
      feeS (runF demoF demoFOps) true) = (401, 5998, 6400) ∧
    (outS (runF demoF demoFOps) false, sumBy (claimS (runF demoF demoFOps) false) (runF demoF demoFOps).pool.positions,
      feeS (runF demoF demoFOps) false) = (201, 5798, 6000) ∧
    (runF demoF demoFOps).acc.totalShares = totalLiq (runF demoF demoFOps).pool.positions := by
  decide +kernel

end OsmoVerif.Props.C08
