/-
Tie T1 for x/mint (owning property C18): the arithmetic of `Model/Mint.lean` is the code REGENERATED from
the Go source by the expression translator (`tools/extract/gen_expr.go` → `Gen/MintFn.lean`).

A (generated definitions, used by the model):
  * `Mint.getProportions`            := `Gen.Mint.getProportions`       (x/mint/keeper `getProportions`)
  * the reduction in `afterEpochEnd` := `Gen.Mint.NextEpochProvisions`  (`Minter.NextEpochProvisions`)
  * the minted amount                := `Gen.Mint.EpochProvision`       (`Minter.EpochProvision`)
  so `Props/C18` (`getProportions_truncated`, `epochProvision_spec`, `reduction_step`, `allocation`, …) is
  proved by unfolding what the translator emitted on this run.
B (ordered operator / comparison / call lists, operands numbered by declaration order) for the two keeper
  functions whose control flow `Mint.afterEpochEnd` mirrors by hand: which proportion goes to which module,
  `mintedCoin.Amount − staking − pool − dev` for the community pool, the balance guard `LT`, the per-receiver
  `getProportions(devRewardCoin, w.Weight)`.
-/
import OsmoVerif.Model.Mint
import OsmoVerif.Gen.MintFn

namespace OsmoVerif.Props.TieGenMint
open OsmoVerif

/-- the model's `getProportions` is the generated definition. -/
theorem getProportions_model_eq_gen : Mint.getProportions = Gen.Mint.getProportions := rfl

/-- the generated reduction, spelled out (breaks when the Go operator or an operand changes). -/
theorem NextEpochProvisions_gen (prov factor : Int) :
    Gen.Mint.NextEpochProvisions prov factor = Num.Dec.mul prov factor := rfl

/-- the generated minted amount, spelled out: `TruncateInt`, then `sdk.NewCoin`. -/
theorem EpochProvision_gen (prov : Int) :
    Gen.Mint.EpochProvision prov = (Num.Dec.truncateInt prov).bind Num.newCoin := rfl

/-- B — `Keeper.DistributeMintedCoin` (mirrored by `Mint.afterEpochEnd`: `st`, `pl`, `dv`, `comm`). -/
theorem opsx_Keeper_DistributeMintedCoin_pinned : Gen.Mint.opsx_Keeper_DistributeMintedCoin =
    ["distributeToModule(v0,v1,v0.feeCollectorName,v2,v4.Staking)",
     "distributeToModule(v0,v1,poolincentivestypes.ModuleName,v2,v4.PoolIncentives)",
     "distributeDeveloperRewards(v0,v1,v2,v4.DeveloperRewards,v3.WeightedDeveloperRewardsReceivers)",
     "Sub(v2.Amount,v5)", "Sub(_,v7)", "Sub(_,v8)", "FundCommunityPool(v0.communityPoolKeeper,v1,_,_)"] := by decide

/-- B — `Keeper.distributeDeveloperRewards` (mirrored by `Mint.afterEpochEnd` + `Mint.payReceivers`: the
vesting-balance guard, burn of the full developer share, per-receiver truncated portions, supply offsets). -/
theorem opsx_Keeper_distributeDeveloperRewards_pinned : Gen.Mint.opsx_Keeper_distributeDeveloperRewards =
    ["getProportions(v2,v3)", "LT(v8.Amount,v5.Amount)", "BurnCoins(v0.bankKeeper,v1,types.ModuleName,v9)",
     "AddSupplyOffset(v0.bankKeeper,v1,v2.Denom,v8.Amount)", "==(_,0)", "FundCommunityPool(v0.communityPoolKeeper,v1,v9,v7)",
     "getProportions(v5,v10.Weight)", "==(v10.Address,emptyWeightedAddressReceiver)", "FundCommunityPool(v0.communityPoolKeeper,v1,v12,_)",
     "SendCoinsFromModuleToAccount(v0.bankKeeper,v1,types.DeveloperVestingModuleAcctName,v13,v12)", "Neg(v8.Amount)",
     "AddSupplyOffset(v0.bankKeeper,v1,v2.Denom,_)"] := by decide

end OsmoVerif.Props.TieGenMint
