/-
Tie T1 for x/mint (owning property C18): the arithmetic of `Model/Mint.lean` is the code REGENERATED from
the Go source by the expression translator (`tools/extract/gen_expr.go` → `Gen/MintFn.lean`).

A (generated definitions, used by the model):
  * `Mint.getProportions`            := `Gen.Mint.getProportions`       (x/mint/keeper `getProportions`)
  * the reduction in `afterEpochEnd` := `Gen.Mint.NextEpochProvisions`  (`Minter.NextEpochProvisions`)
  * the minted amount                := `Gen.Mint.EpochProvision`       (`Minter.EpochProvision`)
  so `Props/C18` (`getProportions_truncated`, `epochProvision_spec`, `reduction_step`, `allocation`, …) is
  proved by unfolding what the translator emitted on this run.
B (ordered operator / comparison / call lists, operands numbered by declaration order) for the two keeper
  functions whose control flow `Mint.afterEpochEnd` mirrors by hand: which proportion goes to which module,
  `mintedCoin.Amount − staking − pool − dev` for the community pool, the balance guard `LT`, the per-receiver
  `getProportions(devRewardCoin, w.Weight)`.
-/
import OsmoVerif.Model.Mint
import OsmoVerif.Model.PoolIncentives
import OsmoVerif.Gen.MintFn

namespace OsmoVerif.Props.TieGenMint
open OsmoVerif

/-- the model's `getProportions` is the generated definition. -/
theorem getProportions_model_eq_gen : Mint.getProportions = Gen.Mint.getProportions := rfl

/-- the generated reduction, spelled out (breaks when the Go operator or an operand changes). -/
theorem NextEpochProvisions_gen (prov factor : Int) :
    Gen.Mint.NextEpochProvisions prov factor = Num.Dec.mul prov factor := rfl

/-- the generated minted amount, spelled out: `TruncateInt`, then `sdk.NewCoin`. -/
theorem EpochProvision_gen (prov : Int) :
    Gen.Mint.EpochProvision prov = (Num.Dec.truncateInt prov).bind Num.newCoin := rfl

/-- B — `Keeper.DistributeMintedCoin` (mirrored by `Mint.afterEpochEnd`: `st`, `pl`, `dv`, `comm`). -/
theorem opsx_Keeper_DistributeMintedCoin_pinned : Gen.Mint.opsx_Keeper_DistributeMintedCoin =
    ["distributeToModule(v0,v1,v0.feeCollectorName,v2,v4.Staking)",
     "distributeToModule(v0,v1,poolincentivestypes.ModuleName,v2,v4.PoolIncentives)",
     "distributeDeveloperRewards(v0,v1,v2,v4.DeveloperRewards,v3.WeightedDeveloperRewardsReceivers)",
     "Sub(v2.Amount,v5)", "Sub(_,v7)", "Sub(_,v8)", "FundCommunityPool(v0.communityPoolKeeper,v1,_,_)"] := by decide

/-- B — `Keeper.distributeDeveloperRewards` (mirrored by `Mint.afterEpochEnd` + `Mint.payReceivers`: the
vesting-balance guard, burn of the full developer share, per-receiver truncated portions, supply offsets). -/
theorem opsx_Keeper_distributeDeveloperRewards_pinned : Gen.Mint.opsx_Keeper_distributeDeveloperRewards =
    ["getProportions(v2,v3)", "LT(v8.Amount,v5.Amount)", "BurnCoins(v0.bankKeeper,v1,types.ModuleName,v9)",
     "AddSupplyOffset(v0.bankKeeper,v1,v2.Denom,v8.Amount)", "==(_,0)", "FundCommunityPool(v0.communityPoolKeeper,v1,v9,v7)",
     "getProportions(v5,v10.Weight)", "==(v10.Address,emptyWeightedAddressReceiver)", "FundCommunityPool(v0.communityPoolKeeper,v1,v12,_)",
     "SendCoinsFromModuleToAccount(v0.bankKeeper,v1,types.DeveloperVestingModuleAcctName,v13,v12)", "Neg(v8.Amount)",
     "AddSupplyOffset(v0.bankKeeper,v1,v2.Denom,_)"] := by decide

/-- B — x/pool-incentives `Keeper.AllocateAsset` (mirrored by `PoolIncentives.allocateAsset` / `allocLoop` / `allocAmount`: the asset is
the module account's whole balance, zero asset and zero TOTAL WEIGHT short-cuts, `asset.Mul(weight.Quo(totalWeight)).TruncateInt()`, the
non-positive skip, gauge id 0 = community pool, `AddToGaugeRewards` otherwise). -/
theorem opsx_Keeper_AllocateAsset_pinned : Gen.Mint.opsx_Keeper_AllocateAsset =
    ["GetBalance(v0.bankKeeper,v1,v4,v3.MintedDenom)", "IsZero(v5.Amount)", "GetDistrInfo(v0,v1)", "IsZero(v6.TotalWeight)", "FundCommunityPoolFromModule(v0,v1,v5)", "ToLegacyDec(v5.Amount)", "ToLegacyDec(v6.TotalWeight)", "ToLegacyDec(v9.Weight)", "Quo(_,v8)", "Mul(v7,_)", "TruncateInt(_)", "IsPositive(v10)", "!", "==(v9.GaugeId,types.CommunityPoolDistributionGaugeID)", "FundCommunityPoolFromModule(v0,v1,_)", "AddToGaugeRewards(v0.incentivesKeeper,v1,_,v12,v9.GaugeId)"] := by decide

/-- B — `Keeper.UpdateDistrRecords` (mirrored by `PoolIncentives.updateDistrRecords`: total re-summed from the existing records, the old
weight SUBTRACTED before the new one is added when the gauge is present, zero weights filtered out, sorted by gauge id). -/
theorem opsx_Keeper_UpdateDistrRecords_pinned : Gen.Mint.opsx_Keeper_UpdateDistrRecords =
    ["GetDistrInfo(v0,v1)", "Add(v4,v5.Weight)", "validateRecords(v0,v1,v2)", "Sub(v4,v8.Weight)", "Add(v4,v7.Weight)", "Add(v4,v7.Weight)", "Equal(v8.Weight,osmomath.ZeroInt())", "!", "<(v10[v11].GaugeId,v10[v12].GaugeId)", "SliceStable(v10,_)", "SetDistrInfo(v0,v1,_)"] := by decide

/-- B — `Keeper.ReplaceDistrRecords` (mirrored by `PoolIncentives.replaceDistrRecords`). -/
theorem opsx_Keeper_ReplaceDistrRecords_pinned : Gen.Mint.opsx_Keeper_ReplaceDistrRecords =
    ["GetDistrInfo(v0,v1)", "validateRecords(v0,v1,v2)", "Add(v5,v6.Weight)", "SetDistrInfo(v0,v1,v3)"] := by decide

/-- B — `Keeper.validateRecords` (mirrored by `PoolIncentives.validateFrom`: descending id, non-zero id must be an existing perpetual gauge). -/
theorem opsx_Keeper_validateRecords_pinned : Gen.Mint.opsx_Keeper_validateRecords =
    ["<(v5.GaugeId,v3)", "!=(v5.GaugeId,0)", "GetGaugeByID(v0.incentivesKeeper,v1,v5.GaugeId)", "!"] := by decide

end OsmoVerif.Props.TieGenMint
