/-
C18 (continued) — "every minted coin is allocated", the pool-incentives side: the distribution table that the
mint hook's `AllocateAsset` reads, and the allocation itself.  Theorems over `OsmoVerif.PoolIncentives`
(`Model/PoolIncentives.lean`, tied to x/pool-incentives by the `mint` engine through the real gov handler,
keeper and x/incentives gauges).

* `totalWeight_eq_sum` — the cached `DistrInfo.TotalWeight` equals the sum of the stored record weights after
  EVERY history of `UpdateDistrRecords` / `ReplaceDistrRecords` (any gauge sets, any record lists), and the
  records stay strictly sorted by gauge id.
* `all_records_removed_goes_to_community_pool`, `empty_table_goes_to_community_pool`.
* `allocateAsset_allocates_everything_partial` — gauge receipts + community pool + what STAYS on the module
  account = the asset.  The full claim (nothing stays) is FALSE on the code: `allocateAsset_dust_witness`
  (truncation), `allocateAsset_ratio_rounding_witness` (the weight ratio is rounded to 18 decimals before it is
  multiplied: three equal gauges and an asset of 3 receive 0 each), and the hook even FAILS when the rounded
  ratios add up to more than one: `allocateAsset_overallocation_witness`.
* `single_record_allocates_everything` — with one record nothing stays.
* `mintEpoch_every_minted_coin_accounted` — the whole epoch: minted = staking + developer + community
  remainder + gauges + community funding by pool-incentives + growth of the module account's dust.
-/
import OsmoVerif.Model.PoolIncentives
import OsmoVerif.Props.C18

namespace OsmoVerif.Props.C18Distr
open OsmoVerif.PoolIncentives OsmoVerif.Num OsmoVerif.Mint

/-- strictly increasing gauge ids. -/
def SortedIds (l : List Record) : Prop := l.Pairwise (fun a b => a.gauge < b.gauge)

/-! ## helper facts (part of the claim: what the loops compute) -/

theorem sint_add_eq {a b c : Int} (h : SInt.add a b = some c) : c = a + b := by
  unfold SInt.add chkInt at h
  split at h
  · injection h with h; exact h.symm
  · cases h

theorem sint_sub_eq {a b c : Int} (h : SInt.sub a b = some c) : c = a - b := by
  unfold SInt.sub chkInt at h
  split at h
  · injection h with h; exact h.symm
  · cases h

theorem addWeights_eq : ∀ (rs : List Record) (t t' : Int), addWeights t rs = some t' → t' = t + sumWeights rs := by
  intro rs
  induction rs with
  | nil => intro t t' h; simp only [addWeights] at h; injection h with h; simp [sumWeights, h]
  | cons r rs ih =>
    intro t t' h
    simp only [addWeights] at h
    cases ha : SInt.add t r.weight with
    | none => rw [ha] at h; cases h
    | some t1 =>
      rw [ha] at h
      simp only [Option.bind_some] at h
      have := ih _ _ h
      have h1 := sint_add_eq ha
      simp only [sumWeights]; omega

/-- `validateRecords` accepts only strictly increasing gauge ids. -/
theorem validateFrom_sorted (gs : Gauges) : ∀ (rs : List Record) (seen : List Nat) (last : Nat),
    validateFrom gs seen last rs = true →
    (∀ r ∈ rs, last ≤ r.gauge ∧ r.gauge ∉ seen) ∧ SortedIds rs := by
  intro rs
  induction rs with
  | nil => intro seen last _; exact ⟨by simp, List.Pairwise.nil⟩
  | cons r rs ih =>
    intro seen last h
    unfold validateFrom at h
    split at h
    · cases h
    · rename_i hseen
      split at h
      · cases h
      · rename_i hlast
        have hrec : validateFrom gs (r.gauge :: seen) r.gauge rs = true := by
          split at h
          · split at h
            · cases h
            · split at h
              · cases h
              · exact h
          · exact h
        obtain ⟨hall, hs⟩ := ih _ _ hrec
        have hseen' : r.gauge ∉ seen := by simpa using hseen
        refine ⟨?_, ?_⟩
        · intro x hx
          rcases List.mem_cons.1 hx with rfl | hx
          · exact ⟨by omega, hseen'⟩
          · obtain ⟨h1, h2⟩ := hall x hx
            simp only [List.mem_cons, not_or] at h2
            exact ⟨by omega, h2.2⟩
        · refine List.Pairwise.cons ?_ hs
          intro x hx
          obtain ⟨h1, h2⟩ := hall x hx
          simp only [List.mem_cons, not_or] at h2
          have : x.gauge ≠ r.gauge := h2.1
          omega

theorem mem_upsert {r y : Record} : ∀ {m : List Record}, y ∈ upsert r m → y = r ∨ y ∈ m := by
  intro m
  induction m with
  | nil => intro h; simp [upsert] at h; exact Or.inl h
  | cons x rest ih =>
    intro h
    unfold upsert at h
    split at h
    · rcases List.mem_cons.1 h with h | h
      · exact Or.inl h
      · exact Or.inr h
    · split at h
      · rcases List.mem_cons.1 h with h | h
        · exact Or.inl h
        · exact Or.inr (List.mem_cons_of_mem _ h)
      · rcases List.mem_cons.1 h with h | h
        · exact Or.inr (by rw [h]; exact List.mem_cons_self)
        · rcases ih h with h | h
          · exact Or.inl h
          · exact Or.inr (List.mem_cons_of_mem _ h)

theorem upsert_sorted (r : Record) : ∀ {m : List Record}, SortedIds m → SortedIds (upsert r m) := by
  intro m
  induction m with
  | nil => intro _; exact List.Pairwise.cons (by simp) List.Pairwise.nil
  | cons x rest ih =>
    intro h
    obtain ⟨hx, hrest⟩ := List.pairwise_cons.1 h
    unfold upsert
    split
    · rename_i hlt
      refine List.Pairwise.cons ?_ h
      intro y hy
      rcases List.mem_cons.1 hy with rfl | hy
      · exact hlt
      · have := hx y hy; omega
    · split
      · rename_i heq
        refine List.Pairwise.cons ?_ hrest
        intro y hy
        have := hx y hy; omega
      · rename_i hnlt hne
        refine List.Pairwise.cons ?_ (ih hrest)
        intro y hy
        rcases mem_upsert hy with rfl | hy
        · omega
        · exact hx y hy

theorem find?_some {id : Nat} {old : Record} : ∀ {m : List Record}, find? id m = some old → old ∈ m ∧ old.gauge = id := by
  intro m
  induction m with
  | nil => intro h; cases h
  | cons x rest ih =>
    intro h
    unfold find? at h
    split at h
    · injection h with h; subst h; exact ⟨List.mem_cons_self, by assumption⟩
    · obtain ⟨h1, h2⟩ := ih h
      exact ⟨List.mem_cons_of_mem _ h1, h2⟩

/-- replacing a present record: the sum loses the old weight and gains the new one. -/
theorem upsert_sum_found (r : Record) : ∀ {m : List Record} {old : Record}, SortedIds m →
    find? r.gauge m = some old → sumWeights (upsert r m) = sumWeights m - old.weight + r.weight := by
  intro m
  induction m with
  | nil => intro old _ h; cases h
  | cons x rest ih =>
    intro old hs h
    obtain ⟨hx, hrest⟩ := List.pairwise_cons.1 hs
    unfold find? at h
    unfold upsert
    split at h
    · rename_i heq
      injection h with h; subst h
      rw [if_neg (by omega), if_pos heq.symm]
      simp only [sumWeights]; omega
    · rename_i hne
      obtain ⟨hmem, hg⟩ := find?_some h
      have := hx old hmem
      rw [if_neg (by omega), if_neg (by omega)]
      simp only [sumWeights]
      rw [ih hrest h]; omega

/-- inserting an absent record: the sum gains its weight. -/
theorem upsert_sum_none (r : Record) : ∀ {m : List Record},
    find? r.gauge m = none → sumWeights (upsert r m) = sumWeights m + r.weight := by
  intro m
  induction m with
  | nil => intro _; simp [upsert, sumWeights]
  | cons x rest ih =>
    intro h
    unfold find? at h
    split at h
    · cases h
    · rename_i hne
      unfold upsert
      split
      · simp only [sumWeights]; omega
      · rw [if_neg (by omega)]
        simp only [sumWeights]
        rw [ih h]; omega

theorem upsert_append_last (r : Record) : ∀ {m : List Record}, (∀ x ∈ m, x.gauge < r.gauge) → upsert r m = m ++ [r] := by
  intro m
  induction m with
  | nil => intro _; rfl
  | cons x rest ih =>
    intro h
    have hx := h x List.mem_cons_self
    unfold upsert
    rw [if_neg (by omega), if_neg (by omega), ih (fun y hy => h y (List.mem_cons_of_mem _ hy))]
    rfl

/-- first loop of `UpdateDistrRecords` on a sorted table: the map IS the table, the total its sum. -/
theorem loadExisting_sorted : ∀ (rs m : List Record) (t : Int) (m' : List Record) (t' : Int),
    SortedIds (m ++ rs) → loadExisting m t rs = some (m', t') → m' = m ++ rs ∧ t' = t + sumWeights rs := by
  intro rs
  induction rs with
  | nil =>
    intro m t m' t' _ h
    simp only [loadExisting] at h
    injection h with h; injection h with h1 h2
    simp [sumWeights, h1, h2]
  | cons r rs ih =>
    intro m t m' t' hs h
    simp only [loadExisting] at h
    cases ha : SInt.add t r.weight with
    | none => rw [ha] at h; cases h
    | some t1 =>
      rw [ha] at h
      simp only [Option.bind_some] at h
      have hlt : ∀ x ∈ m, x.gauge < r.gauge := by
        intro x hx
        exact (List.pairwise_append.1 hs).2.2 x hx r List.mem_cons_self
      rw [upsert_append_last r hlt] at h
      have hs' : SortedIds ((m ++ [r]) ++ rs) := by
        rw [List.append_assoc]; exact hs
      obtain ⟨e1, e2⟩ := ih _ _ _ _ hs' h
      have h1 := sint_add_eq ha
      refine ⟨by rw [e1, List.append_assoc]; rfl, ?_⟩
      simp only [sumWeights]; omega

/-- second loop: the running total stays the sum of the map, the map stays sorted. -/
theorem applyUpdates_inv : ∀ (rs m : List Record) (t : Int) (m' : List Record) (t' : Int),
    SortedIds m → t = sumWeights m → applyUpdates m t rs = some (m', t') → SortedIds m' ∧ t' = sumWeights m' := by
  intro rs
  induction rs with
  | nil =>
    intro m t m' t' hs ht h
    simp only [applyUpdates] at h
    injection h with h; injection h with h1 h2
    subst h1; subst h2
    exact ⟨hs, ht⟩
  | cons r rs ih =>
    intro m t m' t' hs ht h
    unfold applyUpdates at h
    split at h
    · rename_i old hf
      cases h1 : SInt.sub t old.weight with
      | none => rw [h1] at h; cases h
      | some t1 =>
        rw [h1] at h
        simp only [Option.bind_some] at h
        cases h2 : SInt.add t1 r.weight with
        | none => rw [h2] at h; cases h
        | some t2 =>
          rw [h2] at h
          simp only [Option.bind_some] at h
          refine ih _ _ _ _ (upsert_sorted r hs) ?_ h
          rw [upsert_sum_found r hs hf, sint_add_eq h2, sint_sub_eq h1, ht]
    · rename_i hf
      cases h1 : SInt.add t r.weight with
      | none => rw [h1] at h; cases h
      | some t1 =>
        rw [h1] at h
        simp only [Option.bind_some] at h
        refine ih _ _ _ _ (upsert_sorted r hs) ?_ h
        rw [upsert_sum_none r hf, sint_add_eq h1, ht]

theorem sumWeights_filter_nonzero : ∀ (m : List Record),
    sumWeights (m.filter (fun r => r.weight ≠ 0)) = sumWeights m := by
  intro m
  induction m with
  | nil => rfl
  | cons x rest ih =>
    by_cases hx : x.weight = 0
    · have : decide (x.weight ≠ 0) = false := by simp [hx]
      rw [List.filter_cons_of_neg (by simp [hx])]
      simp only [sumWeights]; rw [ih]; omega
    · rw [List.filter_cons_of_pos (by simp [hx])]
      simp only [sumWeights]; rw [ih]

/-! ## the cached total -/

/-- the invariant of the stored table. -/
def Inv (d : DistrInfo) : Prop := d.totalWeight = sumWeights d.records ∧ SortedIds d.records

theorem replace_inv {gs : Gauges} {d d' : DistrInfo} {rs : List Record}
    (h : replaceDistrRecords gs d rs = .ok d') : Inv d' ∧ d'.records = rs := by
  unfold replaceDistrRecords at h
  split at h
  · cases h
  · rename_i hv
    split at h
    · cases h
    · rename_i t ht
      injection h with h; subst h
      have := addWeights_eq _ _ _ ht
      have hv' : validateRecords gs rs = true := by simpa using hv
      exact ⟨⟨by simp only; omega, (validateFrom_sorted gs rs [] 0 hv').2⟩, rfl⟩

theorem update_inv {gs : Gauges} {d d' : DistrInfo} {rs : List Record} (hd : Inv d)
    (h : updateDistrRecords gs d rs = .ok d') : Inv d' ∧ ∀ r ∈ d'.records, r.weight ≠ 0 := by
  unfold updateDistrRecords at h
  split at h
  · cases h
  · rename_i m0 t0 hl
    obtain ⟨e1, e2⟩ := loadExisting_sorted d.records [] 0 m0 t0 (by simpa using hd.2) hl
    split at h
    · cases h
    · split at h
      · cases h
      · rename_i m t ha
        injection h with h; subst h
        have hm0 : m0 = d.records := by simpa using e1
        obtain ⟨hs, ht⟩ := applyUpdates_inv rs m0 t0 m t (by rw [hm0]; exact hd.2) (by rw [hm0, e2]; omega) ha
        refine ⟨⟨?_, ?_⟩, ?_⟩
        · simp only; rw [sumWeights_filter_nonzero]; exact ht
        · exact List.Pairwise.sublist List.filter_sublist hs
        · intro r hr
          simpa using (List.mem_filter.1 hr).2

/-- every table reachable from the empty one by accepted proposals / keeper calls; the gauges that exist may
differ from call to call. -/
inductive Reach : DistrInfo → Prop
  | init : Reach ⟨0, []⟩
  | update {d d' : DistrInfo} (gs : Gauges) (rs : List Record) :
      Reach d → updateDistrRecords gs d rs = .ok d' → Reach d'
  | replace {d d' : DistrInfo} (gs : Gauges) (rs : List Record) :
      Reach d → replaceDistrRecords gs d rs = .ok d' → Reach d'

/-- **`DistrInfo.TotalWeight` = Σ record weights after every update history** (and the records are strictly
sorted by gauge id). -/
theorem totalWeight_eq_sum {d : DistrInfo} (h : Reach d) :
    d.totalWeight = sumWeights d.records ∧ SortedIds d.records := by
  induction h with
  | init => exact ⟨rfl, List.Pairwise.nil⟩
  | update gs rs _ hu ih => exact (update_inv ih hu).1
  | replace gs rs _ hr _ => exact (replace_inv hr).1

/-- the same for proposals run as governance runs them (`ValidateBasic` first). -/
theorem totalWeight_eq_sum_proposals {gs : Gauges} {d d' : DistrInfo} {rs : List Record} (hd : Reach d)
    (h : updateProposal gs d rs = .ok d' ∨ replaceProposal gs d rs = .ok d') :
    d'.totalWeight = sumWeights d'.records := by
  rcases h with h | h
  · unfold updateProposal at h
    split at h
    · cases h
    · exact (totalWeight_eq_sum (Reach.update gs rs hd h)).1
  · unfold replaceProposal at h
    split at h
    · cases h
    · exact (totalWeight_eq_sum (Reach.replace gs rs hd h)).1

/-- removing a record subtracts its weight: an update that only sets present records to weight zero lowers
the total by exactly the weights it removed (stated for one record). -/
theorem remove_subtracts_weight {gs : Gauges} {d d' : DistrInfo} {old : Record} (hd : Reach d)
    (hf : find? old.gauge d.records = some old)
    (h : updateDistrRecords gs d [⟨old.gauge, 0⟩] = .ok d') :
    d'.totalWeight = d.totalWeight - old.weight := by
  have hinv := totalWeight_eq_sum hd
  unfold updateDistrRecords at h
  split at h
  · cases h
  · rename_i m0 t0 hl
    obtain ⟨e1, e2⟩ := loadExisting_sorted d.records [] 0 m0 t0 (by simpa using hinv.2) hl
    have hm0 : m0 = d.records := by simpa using e1
    subst hm0
    split at h
    · cases h
    · split at h
      · cases h
      · rename_i m t ha
        injection h with h; subst h
        simp only [applyUpdates, hf] at ha
        cases h1 : SInt.sub t0 old.weight with
        | none => rw [h1] at ha; cases ha
        | some t1 =>
          rw [h1] at ha
          simp only [Option.bind_some] at ha
          cases h2 : SInt.add t1 0 with
          | none => rw [h2] at ha; cases ha
          | some t2 =>
            rw [h2] at ha
            simp only [Option.bind_some] at ha
            injection ha with ha; injection ha with ha1 ha2
            have := sint_sub_eq h1
            have := sint_add_eq h2
            simp only; omega

/-! ## allocation -/

theorem allocLoop_conservation (asset total : Int) : ∀ (rs : List Record) (bal : Int) (o : AllocOut),
    allocLoop asset total bal rs = some o →
    sumGauges o.gauges + o.community + o.left = bal ∧ (0 ≤ bal → 0 ≤ o.left) ∧ 0 ≤ o.community ∧
    ∀ x ∈ o.gauges, 0 < x.2 := by
  intro rs
  induction rs with
  | nil =>
    intro bal o h
    simp only [allocLoop] at h
    injection h with h; subst h
    simp [sumGauges]
  | cons r rs ih =>
    intro bal o h
    unfold allocLoop at h
    cases ha : allocAmount asset total r.weight with
    | none => rw [ha] at h; cases h
    | some a =>
      rw [ha] at h
      simp only [Option.bind_some] at h
      split at h
      · exact ih _ _ h
      · rename_i hpos
        split at h
        · cases h
        · rename_i hbal
          cases hr : allocLoop asset total (bal - a) rs with
          | none => rw [hr] at h; cases h
          | some o' =>
            rw [hr] at h
            simp only [Option.bind_some] at h
            obtain ⟨c1, c2, c3, c4⟩ := ih _ _ hr
            split at h
            · injection h with h; subst h
              exact ⟨by simp only; omega, fun hb => c2 (by omega), by simp only; omega, c4⟩
            · injection h with h; subst h
              refine ⟨by simp only [sumGauges]; omega, fun hb => c2 (by omega), c3, ?_⟩
              intro x hx
              rcases List.mem_cons.1 hx with rfl | hx
              · simp only; omega
              · exact c4 x hx

/-- PARTIAL form of "everything is allocated": the gauge receipts, the community-pool funding and what STAYS on
the pool-incentives module account add up to the asset; nothing is negative.
Full statement (not provable: false on the code, see the three witnesses below):
`allocateAsset bal d = some o → o.left = 0`. -/
theorem allocateAsset_allocates_everything_partial {bal : Int} {d : DistrInfo} {o : AllocOut} (hb : 0 ≤ bal)
    (h : allocateAsset bal d = some o) :
    sumGauges o.gauges + o.community + o.left = bal ∧ 0 ≤ o.left ∧ 0 ≤ o.community ∧ ∀ x ∈ o.gauges, 0 < x.2 := by
  unfold allocateAsset at h
  split at h
  · rename_i h0
    injection h with h; subst h
    simp [sumGauges, h0]
  · split at h
    · injection h with h; subst h
      simp [sumGauges, hb]
    · obtain ⟨c1, c2, c3, c4⟩ := allocLoop_conservation _ _ _ _ _ h
      exact ⟨c1, c2 hb, c3, c4⟩

/-- a table whose total weight is zero forwards the whole asset to the community pool. -/
theorem empty_table_goes_to_community_pool (bal : Int) {d : DistrInfo} (h : d.totalWeight = 0) :
    allocateAsset bal d = some { gauges := [], community := bal, left := 0 } := by
  unfold allocateAsset
  by_cases h0 : bal = 0
  · rw [if_pos h0, h0]
  · rw [if_neg h0, if_pos h]

/-- … in particular after ALL records have been removed by any history of proposals (the cached total is
then zero: `totalWeight_eq_sum`). -/
theorem all_records_removed_goes_to_community_pool (bal : Int) {d : DistrInfo} (hd : Reach d)
    (h : d.records = []) : allocateAsset bal d = some { gauges := [], community := bal, left := 0 } := by
  apply empty_table_goes_to_community_pool
  rw [(totalWeight_eq_sum hd).1, h]; rfl

/-- one record: its weight ratio is exactly one, it receives the whole asset, nothing stays. -/
theorem single_record_allocates_everything {bal w : Int} {g : Nat} {o : AllocOut} (hw : w ≠ 0) (hb0 : 0 ≤ bal)
    (h : allocateAsset bal ⟨w, [⟨g, w⟩]⟩ = some o) : o.left = 0 := by
  unfold allocateAsset at h
  split at h
  · injection h with h; subst h; rfl
  · rename_i hb
    simp only [] at h
    unfold allocLoop at h
    have hq : Dec.quo (SInt.toDec w) (SInt.toDec w) = some P18 := by
      unfold Dec.quo SInt.toDec
      have hne : w * P18 ≠ 0 := Int.mul_ne_zero hw (by decide)
      rw [if_neg hne]
      have : (w * P18 * (P18 * P18)).tdiv (w * P18) = P18 * P18 := Int.mul_tdiv_cancel_left _ hne
      rw [this, C18.chopRound_mul_exact]
      unfold chkDec; rw [if_pos (by decide)]
    have hm : Dec.mul (SInt.toDec bal) P18 = chkDec (bal * P18) := by
      unfold Dec.mul SInt.toDec
      rw [C18.chopRound_mul_exact]
    unfold allocAmount at h
    simp only [hq, Option.bind_some, hm] at h
    cases hc : chkDec (bal * P18) with
    | none => rw [hc] at h; cases h
    | some v =>
      have hv : v = bal * P18 := by
        unfold chkDec at hc; split at hc
        · injection hc with hc; exact hc.symm
        · cases hc
      rw [hc] at h
      simp only [Option.bind_some] at h
      cases ht : Dec.truncateInt v with
      | none => rw [ht] at h; cases h
      | some a =>
        have hab : a = bal := by
          unfold Dec.truncateInt chkInt at ht
          split at ht
          · injection ht with ht
            rw [← ht, hv]
            exact Int.mul_tdiv_cancel _ (by decide)
          · cases ht
        rw [ht] at h
        simp only [Option.bind_some] at h
        subst hab
        split at h
        · rename_i hle
          omega
        · split at h
          · cases h
          · simp only [allocLoop, Option.bind_some, Int.sub_self] at h
            split at h <;> (injection h with h; subst h; rfl)

/-! ## witnesses: what the full claim would need and the code does not do -/

/-- truncation dust is NOT forwarded: three equal gauges, asset 100 → 33 each, 1 stays on the module account
(it is part of the next epoch's asset). -/
theorem allocateAsset_dust_witness :
    allocateAsset 100 ⟨3, [⟨1, 1⟩, ⟨2, 1⟩, ⟨3, 1⟩]⟩ = some ⟨[(1, 33), (2, 33), (3, 33)], 0, 1⟩ := by decide +kernel

/-- a record does not even receive `⌊asset·w/W⌋`: the ratio `w/W` is rounded to 18 decimals FIRST
(1/3 ↦ 0.333…333), so with asset 3 each of three equal gauges receives 0 instead of 1. -/
theorem allocateAsset_ratio_rounding_witness :
    allocateAsset 3 ⟨3, [⟨1, 1⟩, ⟨2, 1⟩, ⟨3, 1⟩]⟩ = some ⟨[], 0, 3⟩ := by decide +kernel

/-- the rounded ratios can add up to MORE than one (4/17, 4/17, 9/17 ↦ sum 1 + 10⁻¹⁸): with an asset of
3·10¹⁸ the records are promised 3 coins more than there are, the last send fails, `AllocateAsset` errors,
the mint hook panics and the whole mint epoch is discarded. -/
theorem allocateAsset_overallocation_witness :
    allocateAsset (3 * 10 ^ 18) ⟨17, [⟨1, 4⟩, ⟨2, 4⟩, ⟨3, 9⟩]⟩ = none ∧
    mintEpoch ⟨0, 10, P18, 0, P18, 0, 0, []⟩ ⟨3 * 10 ^ 18 * P18, 0, 0⟩
      { distr := ⟨17, [⟨1, 4⟩, ⟨2, 4⟩, ⟨3, 9⟩]⟩, gauges := [(1, true), (2, true), (3, true)], poolAcct := 0 } 0 = none := by
  constructor <;> decide +kernel

/-! ## the whole epoch -/

/-- Every minted coin is accounted for: staking share + developer share (burned, paid from the vesting
account) + community remainder + gauge receipts + what pool-incentives forwards to the community pool + the
GROWTH of what stays on the pool-incentives module account = the minted amount; the mint account is empty. -/
theorem mintEpoch_every_minted_coin_accounted {p : Params} {s s' : State} {w w' : World} {e : Int}
    {o : Obs} {a : AllocOut} (h : mintEpoch p s w e = some (s', w', some (o, a))) :
    o.staking + o.dev + o.communityRemainder + sumGauges a.gauges + a.community + (w'.poolAcct - w.poolAcct) = o.minted ∧
    o.mintAccountAfter = 0 ∧ w'.distr = w.distr := by
  unfold mintEpoch at h
  split at h
  · cases h
  · cases h
  · rename_i s1 o1 he
    split at h
    · cases h
    · rename_i a1 ha
      injection h with h
      injection h with h1 h2
      injection h2 with h2 h3
      injection h3 with h3
      injection h3 with h3 h4
      subst h1; subst h2; subst h3; subst h4
      obtain ⟨hsum, hacct, _⟩ := C18.allocation he
      unfold allocateAsset at ha
      split at ha
      · rename_i h0
        injection ha with ha; subst ha
        exact ⟨by simp only [sumGauges]; omega, hacct, rfl⟩
      · split at ha
        · injection ha with ha; subst ha
          exact ⟨by simp only [sumGauges]; omega, hacct, rfl⟩
        · obtain ⟨c1, _⟩ := allocLoop_conservation _ _ _ _ _ ha
          exact ⟨by simp only; omega, hacct, rfl⟩

/-- before the start epoch the table and the module account are not touched. -/
theorem mintEpoch_before_start {p : Params} {s : State} {w : World} {e : Int} (h : e < p.startEpoch) :
    mintEpoch p s w e = some (s, w, none) := by
  unfold mintEpoch; rw [C18.no_mint_before_start h]

/-! ## non-vacuity -/

def exGauges : Gauges := [(1, true), (2, true), (3, true), (4, false)]

-- add two records, remove one with weight zero: the total follows
example : (match updateDistrRecords exGauges ⟨0, []⟩ [⟨0, 100⟩, ⟨1, 300⟩] with
    | .ok d => (match updateDistrRecords exGauges d [⟨1, 0⟩] with | .ok d' => some (d.totalWeight, d'.totalWeight, d'.records) | _ => none)
    | _ => none) = some (400, 100, [⟨0, 100⟩]) := by decide +kernel

-- … and removing the last one empties the table: everything goes to the community pool
example : (match updateDistrRecords exGauges ⟨100, [⟨0, 100⟩]⟩ [⟨0, 0⟩] with
    | .ok d => some (d, allocateAsset 450000 d) | _ => none) = some (⟨0, []⟩, some ⟨[], 450000, 0⟩) := by decide +kernel

-- rejected: duplicate id, unsorted ids, unknown gauge, non-perpetual gauge
example : (match updateDistrRecords exGauges ⟨0, []⟩ [⟨1, 1⟩, ⟨1, 2⟩] with | .err => true | _ => false) = true := by decide +kernel
example : (match replaceDistrRecords exGauges ⟨0, []⟩ [⟨2, 1⟩, ⟨1, 2⟩] with | .err => true | _ => false) = true := by decide +kernel
example : (match updateDistrRecords exGauges ⟨0, []⟩ [⟨9, 1⟩] with | .err => true | _ => false) = true := by decide +kernel
example : (match updateDistrRecords exGauges ⟨0, []⟩ [⟨4, 1⟩] with | .err => true | _ => false) = true := by decide +kernel

example : Reach ⟨400, [⟨0, 100⟩, ⟨1, 300⟩]⟩ :=
  Reach.update exGauges [⟨0, 100⟩, ⟨1, 300⟩] Reach.init (by decide +kernel)

-- an allocation with a community-pool record (gauge id 0) and two gauges
example : allocateAsset 450000 ⟨400, [⟨0, 100⟩, ⟨1, 100⟩, ⟨2, 200⟩]⟩ = some ⟨[(1, 112500), (2, 225000)], 112500, 0⟩ := by
  decide +kernel


-- a whole epoch: 1000 minted, 250 to pool incentives, split 1:1 between gauge 1 and the community pool
example : (match mintEpoch ⟨0, 3, P18 / 2, P18 / 4, P18 / 4, P18 / 4, P18 / 4, []⟩ ⟨1000 * P18, 0, 10 ^ 9⟩
      { distr := ⟨2, [⟨0, 1⟩, ⟨1, 1⟩]⟩, gauges := exGauges, poolAcct := 0 } 0 with
    | some (_, _, some (o, a)) => some (o.minted, o.pool, a.gauges, a.community, a.left)
    | _ => none)
    = some (1000, 250, [(1, 125)], 125, 0) := by decide +kernel

end OsmoVerif.Props.C18Distr
