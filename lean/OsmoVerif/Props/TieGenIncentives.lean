/-
Tie T1 for x/incentives (owning property C09).  `distributeInternal` is a loop nest over locks and coins on raw
`big.Int`s: Deliverable B — its ordered operator / comparison / call list (operands numbered by declaration order) is
pinned.  The per-lock share `coin·lockAmt / (lockSum·remainEpochs)` is `Mul(v30,v30,coin.Amount)`, `Quo(v30,v30,v24)`
with `v24` = `lockSum.MulRaw(remainEpochs)`: mirrored by `Incentives.lockCoins` (`(c.2 * amt).tdiv den`), the
minimum-value check by `Incentives.minFilter` (`==(v28.Denom,v7.Denom)` / `LT(v29,v7.Amount)`: the minimum-value denom
itself; `LT(v29,v35.Amount)`: cache miss, compared with the fresh quote; `IsNegative(v31)` / `LT(v29,v31)`: cache hit, a
cached NEGATIVE value (`noRouteSentinel`) reads "no usable route" — since repository fix af3cbe6371; the two error returns of the
cache-miss path became sentinel + `continue` with d4c28ad126, which this operator list does not show: the engine does), the
positivity test `Sign() == 1` by `0 < q`.
-/
import OsmoVerif.Gen.IncentivesFn

namespace OsmoVerif.Props.TieGenIncentives
open OsmoVerif

/-- B — `Keeper.distributeInternal`: mirrored by `Incentives.lockCoins` / `lockPays` / `distributeGauge` -/
theorem opsx_Keeper_distributeInternal_pinned : Gen.Incentives.opsx_Keeper_distributeInternal =
    ["Sub(v2.Coins,v2.DistributedCoins)", "!", "==(v9,uint64(0))",
     "==(v2.DistributeTo.LockQueryType,lockuptypes.NoLock)", "!=(v12,poolmanagertypes.Concentrated)",
     "NewIntFromUint64(v9)", "Quo(v15.Amount,_)", "QuoMut(_,millisecondsInSecDec)", "QuoTruncateMut(_,_)",
     "Add(v6,v17)", "skipSpamGaugeDistribute(v0,v1,v3,v2,v6,v8)", "IsZero(v22)", "||(_,_)", "MulRaw(v22,_)",
     "BigIntMut(v23)", "guaranteedNonzeroCoinAmountOf(v25.Coins,v21)", "BigIntMut(_)", "NewIntFromBigInt(v27)",
     "BigIntMut(v29)", "BigIntMut(v28.Amount)", "Mul(v30,v30,v28.Amount.BigIntMut())", "Quo(v30,v30,v24)",
     "==(v28.Denom,v7.Denom)", "LT(v29,v7.Amount)", "!", "LT(v29,v35.Amount)", "IsNegative(v31)", "LT(v29,v31)",
     "Sign(v29)", "==(v29.Sign(),1)", "Add(v26,v36)", "Len(v26)", ">(v26.Len(),1)", "==(v37,\"\")",
     "addLockRewards(v4,v25.Owner,v37,v26)", "Add(v6,v26)", "updateGaugePostDistribute(v0,v1,v2,v6)"] := by decide

/-- B — `Keeper.updateGaugePostDistribute`: mirrored by `Incentives.Gauge.postDistribute` -/
theorem opsx_Keeper_updateGaugePostDistribute_pinned : Gen.Incentives.opsx_Keeper_updateGaugePostDistribute =
    ["Add(v2.DistributedCoins,v3)"] := by decide

/-- B — `Keeper.skipSpamGaugeDistribute`: mirrored by `Incentives.isSpam` -/
theorem opsx_Keeper_skipSpamGaugeDistribute_pinned : Gen.Incentives.opsx_Keeper_skipSpamGaugeDistribute =
    ["==(_,0)", "Len(v5)", "==(v5.Len(),1)", "LTE(v5[0].Amount,osmomath.NewInt(100))", "&&(_,_)",
     "!=(v5[0].Denom,\"stake\")", "&&(_,_)"] := by decide

/-- B — `Keeper.checkFinishDistribution` (since repository fix 21bb9c1bc7): candidates by the snapshot (`!IsPerpetual &&
NumEpochsPaidOver <= FilledEpochs+1`), re-read with `GetGaugeByID`, skipped while `NumEpochsPaidOver > FilledEpochs`, the
RE-READ gauge is moved: mirrored by `Incentives.finishLoop` -/
theorem opsx_Keeper_checkFinishDistribution_pinned : Gen.Incentives.opsx_Keeper_checkFinishDistribution =
    ["!", "<=(v3.NumEpochsPaidOver,_)", "&&(_,_)", "GetGaugeByID(v0,v1,v3.Id)", ">(v4.NumEpochsPaidOver,v4.FilledEpochs)",
     "moveActiveGaugeToFinishedGauge(v0,v1,v4)"] := by decide

end OsmoVerif.Props.TieGenIncentives
