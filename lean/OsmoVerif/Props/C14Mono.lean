/-
C14 (monotonicity part) — tick → price → sqrt price, for ALL ticks of the supported range (no sampling):
closed formula of `tickToPrice`, strict monotonicity and bounds of the price, monotonicity, bounds and strict
monotonicity of `tickToSqrtPrice` (both square-root regimes and the regime boundary at `MinInitializedTick`).
Everything is about the executable model `OsmoVerif.Tick` (bit-exact with x/concentrated-liquidity/math/tick.go).
Helper lemmas: Proofs/TickLemmas.lean.
-/
import OsmoVerif.Model.Tick
import OsmoVerif.Proofs.NumLemmas
import OsmoVerif.Proofs.TickLemmas
import OsmoVerif.Props.C13

namespace OsmoVerif.Props.C14Mono
open OsmoVerif.Tick OsmoVerif.Num OsmoVerif.MathM OsmoVerif.Gen OsmoVerif.Props.C13

/-! ## 1. closed formula -/

/-- the closed form `F` (defined in Proofs/TickLemmas.lean), spelled out: raw 36-decimal value of
`10^g·(1 + a·10^-6)` for `t = 9·10^6·g + a ≥ 0`, and of `10^-(g'+1)·(10 − a'·10^-6)` for `-t = 9·10^6·g' + a' > 0`. -/
theorem F_def (t : Int) :
    F t = if 0 ≤ t then (10 ^ 6 + t % 9000000) * 10 ^ (30 + t / 9000000).toNat
          else (10 ^ 7 - (-t) % 9000000) * 10 ^ (29 - (-t) / 9000000).toNat := rfl

/-- every tick strictly above the floor and up to `MaxTick` converts, to exactly `F t`: the table lookups
stay inside the tables, `MulInt` does not overflow and the price-bound check never fires. -/
theorem tickToPrice_formula {t : Int} (h1 : CL.MinInitializedTickV2 < t) (h2 : t ≤ CL.MaxTick) :
    tickToPrice t = some (F t) := by
  obtain ⟨_, c2, c3, _⟩ := tick_consts
  exact tickToPrice_eq_F (by omega) (by omega)

/-- the two floor ticks share the minimum spot price. -/
theorem tickToPrice_floor :
    tickToPrice CL.MinInitializedTickV2 = some CL.MinSpotPriceV2 ∧
    tickToPrice CL.MinCurrentTickV2 = some CL.MinSpotPriceV2 := by decide +kernel

/-- consequently the conversion is total on `[MinCurrentTickV2, MaxTick]` (and fails outside: `C14.tick_out_of_range_rejected`). -/
theorem tickToPrice_total {t : Int} (h1 : CL.MinCurrentTickV2 ≤ t) (h2 : t ≤ CL.MaxTick) :
    ∃ p, tickToPrice t = some p := by
  obtain ⟨_, c2, _, c4, _⟩ := tick_consts
  exact ⟨_, tickToPrice_eq_priceOf (by omega) (by omega)⟩

/-! ## 2. strict monotonicity of the price -/

/-- successor step of the closed form, including the decade boundaries; `Δ·10^7 ≥ F t` is the relative
increment bound (each tick moves the price by at least 10^-7 relative). -/
theorem F_succ {t : Int} (h : CL.MinInitializedTickV2 < t) :
    0 < F t ∧ F t < F (t + 1) ∧ F t ≤ (F (t + 1) - F t) * 10 ^ 7 := by
  obtain ⟨_, _, c3, _⟩ := tick_consts
  have := F_step t (by omega)
  exact ⟨this.1, F_succ_lt t (by omega), this.2⟩

/-- the step from the floor tick: 10^6 → 1000001 (raw). -/
theorem floor_step :
    tickToPrice CL.MinInitializedTickV2 = some 1000000 ∧
    tickToPrice (CL.MinInitializedTickV2 + 1) = some 1000001 := by decide +kernel

theorem tickToPrice_strictMono {t1 t2 p1 p2 : Int}
    (hlo : CL.MinInitializedTickV2 ≤ t1) (hlt : t1 < t2) (hhi : t2 ≤ CL.MaxTick)
    (h1 : tickToPrice t1 = some p1) (h2 : tickToPrice t2 = some p2) : p1 < p2 := by
  obtain ⟨_, c2, c3, _⟩ := tick_consts
  rw [tickToPrice_eq_priceOf (by omega) (by omega)] at h1 h2
  injection h1 with h1; injection h2 with h2
  subst h1; subst h2
  exact priceOf_strictMono (by omega) hlt

/-- and so tick → price is injective on the range. -/
theorem tickToPrice_injective {t1 t2 p : Int}
    (l1 : CL.MinInitializedTickV2 ≤ t1) (u1 : t1 ≤ CL.MaxTick) (l2 : CL.MinInitializedTickV2 ≤ t2) (u2 : t2 ≤ CL.MaxTick)
    (h1 : tickToPrice t1 = some p) (h2 : tickToPrice t2 = some p) : t1 = t2 := by
  rcases Int.lt_trichotomy t1 t2 with h | h | h
  · have := tickToPrice_strictMono l1 h u2 h1 h2; omega
  · exact h
  · have := tickToPrice_strictMono l2 h u1 h2 h1; omega

/-! ## 3. bounds of the price -/
theorem tickToPrice_in_bounds {t p : Int} (hlo : CL.MinCurrentTickV2 ≤ t) (hhi : t ≤ CL.MaxTick)
    (h : tickToPrice t = some p) : CL.MinSpotPriceV2 ≤ p ∧ p ≤ CL.MaxSpotPriceBigDec := by
  obtain ⟨_, c2, _, c4, _, c6, c7⟩ := tick_consts
  rw [tickToPrice_eq_priceOf (by omega) (by omega)] at h
  injection h with h; subst h
  rw [c6, c7]; exact priceOf_bounds (by omega)

/-! ## 4. the sqrt price never decreases -/

/-- on the launch range the price is a multiple of 10^18, so `Dec()` (truncation to 18 decimals) is exact. -/
theorem price_launch_range_18_decimals {t p : Int} (hlo : CL.MinInitializedTick ≤ t) (hhi : t ≤ CL.MaxTick)
    (h : tickToPrice t = some p) : ∃ v, p = v * 10 ^ 18 := by
  obtain ⟨c1, c2, c3, _⟩ := tick_consts
  rw [tickToPrice_formula (by omega) hhi] at h
  injection h with h; subst h
  exact F_mul18 (by omega)

theorem tickToSqrtPrice_total {t : Int} (h1 : CL.MinCurrentTickV2 ≤ t) (h2 : t ≤ CL.MaxTick) :
    ∃ s, tickToSqrtPrice t = some s := by
  obtain ⟨_, c2, _, c4, _⟩ := tick_consts
  exact Tick.tickToSqrtPrice_total (by omega) (by omega)

theorem tickToSqrtPrice_mono {t1 t2 s1 s2 : Int}
    (hlo : CL.MinCurrentTickV2 ≤ t1) (hle : t1 ≤ t2) (hhi : t2 ≤ CL.MaxTick)
    (h1 : tickToSqrtPrice t1 = some s1) (h2 : tickToSqrtPrice t2 = some s2) : s1 ≤ s2 := by
  obtain ⟨_, c2, _, c4, _⟩ := tick_consts
  obtain ⟨lo1, hi1⟩ := sqrt_spec (by omega) (by omega) h1
  obtain ⟨lo2, hi2⟩ := sqrt_spec (by omega) (by omega) h2
  have hp := priceOf_mono hle
  rcases Int.lt_or_le t2 (-108000000) with b2 | b2
  · -- both in the 36-digit regime
    exact monotonicSqrtRaw_mono hp (lo1 (by omega)) (lo2 b2)
  · obtain ⟨v2, r2, e2, m2, rfl⟩ := hi2 b2
    rcases Int.lt_or_le t1 (-108000000) with b1 | b1
    · -- across the regime boundary
      exact msqrt_cross (lo1 b1) m2 (by omega)
    · -- both in the 18-digit regime
      obtain ⟨v1, r1, e1, m1, rfl⟩ := hi1 b1
      have : r1 ≤ r2 := monotonicSqrtRaw_mono (by omega) m1 m2
      omega

/-! ## 5. bounds of the sqrt price -/
theorem tickToSqrtPrice_ends :
    tickToSqrtPrice CL.MinCurrentTickV2 = some (10 ^ 3 * Pdiff) ∧
    tickToSqrtPrice CL.MinInitializedTickV2 = some (10 ^ 3 * Pdiff) ∧
    tickToSqrtPrice CL.MaxTick = some (10 ^ 19 * P36) := by decide +kernel

/-- `0 < √MinSpotPriceV2 = 10^-15 ≤ s ≤ √MaxSpotPrice = 10^19` (raw BigDec). -/
theorem tickToSqrtPrice_in_bounds {t s : Int} (hlo : CL.MinCurrentTickV2 ≤ t) (hhi : t ≤ CL.MaxTick)
    (h : tickToSqrtPrice t = some s) : 0 < s ∧ 10 ^ 3 * Pdiff ≤ s ∧ s ≤ 10 ^ 19 * P36 := by
  obtain ⟨e1, _, e3⟩ := tickToSqrtPrice_ends
  have a := tickToSqrtPrice_mono (Int.le_refl _) hlo hhi e1 h
  have b := tickToSqrtPrice_mono hlo hhi (Int.le_refl _) h e3
  have : (0 : Int) < 10 ^ 3 * Pdiff := by decide +kernel
  exact ⟨by omega, a, b⟩

/-! ## 6. the sqrt price strictly increases (whole range, hence the launch range) -/

/-- the two ticks around the regime boundary. -/
theorem regime_boundary_step :
    tickToSqrtPrice (CL.MinInitializedTick - 1) = some 999999949999998749999937499997 ∧
    tickToSqrtPrice CL.MinInitializedTick = some 1000000000000000000000000000000 := by decide +kernel

theorem tickToSqrtPrice_succ_lt {t s s' : Int} (hlo : CL.MinInitializedTickV2 ≤ t) (hhi : t < CL.MaxTick)
    (h1 : tickToSqrtPrice t = some s) (h2 : tickToSqrtPrice (t + 1) = some s') : s < s' := by
  obtain ⟨c1, c2, c3, _⟩ := tick_consts
  obtain ⟨lo1, hi1⟩ := sqrt_spec (by omega) (by omega) h1
  obtain ⟨lo2, hi2⟩ := sqrt_spec (by omega) (by omega) h2
  obtain ⟨hpos, hrel⟩ := priceOf_step t (by omega)
  have hb := (priceOf_bounds (t := t) (by omega)).1
  rcases Int.lt_or_le (t + 1) (-108000000) with b | b
  · -- 36-digit regime
    refine msqrt_strict (lo1 (by omega)) (lo2 b) ?_ hrel
    push_cast; omega
  · rcases Int.lt_or_eq_of_le b with b' | b'
    · -- 18-digit regime
      obtain ⟨v1, r1, e1, m1, rfl⟩ := hi1 (by omega)
      obtain ⟨v2, r2, e2, m2, rfl⟩ := hi2 b
      have hN : 10 ^ 24 ≤ priceOf t := by
        have := priceOf_mono (t1 := -108000000) (t2 := t) (by omega)
        rwa [priceOf_above (by omega), F_launch] at this
      have : r1 < r2 := by
        refine msqrt_strict m1 m2 ?_ ?_
        · push_cast; omega
        · omega
      omega
    · -- across the boundary: two concrete ticks
      have : t = CL.MinInitializedTick - 1 := by omega
      subst this
      obtain ⟨a, b⟩ := regime_boundary_step
      have e : CL.MinInitializedTick - 1 + 1 = CL.MinInitializedTick := by omega
      rw [e] at h2
      rw [a] at h1; rw [b] at h2
      injection h1 with h1; injection h2 with h2
      subst h1; subst h2; decide

theorem tickToSqrtPrice_strictMono {t1 t2 s1 s2 : Int}
    (hlo : CL.MinInitializedTickV2 ≤ t1) (hlt : t1 < t2) (hhi : t2 ≤ CL.MaxTick)
    (h1 : tickToSqrtPrice t1 = some s1) (h2 : tickToSqrtPrice t2 = some s2) : s1 < s2 := by
  obtain ⟨_, c2, c3, c4, _⟩ := tick_consts
  obtain ⟨sm, hm⟩ := tickToSqrtPrice_total (t := t1 + 1) (by omega) (by omega)
  have a := tickToSqrtPrice_succ_lt hlo (by omega) h1 hm
  have b := tickToSqrtPrice_mono (t1 := t1 + 1) (by omega) (by omega) hhi hm h2
  omega

theorem tickToSqrtPrice_strictMono_launch_range {t s s' : Int}
    (hlo : CL.MinInitializedTick ≤ t) (hhi : t < CL.MaxTick)
    (h1 : tickToSqrtPrice t = some s) (h2 : tickToSqrtPrice (t + 1) = some s') : s < s' := by
  obtain ⟨c1, _, c3, _⟩ := tick_consts
  exact tickToSqrtPrice_succ_lt (by omega) hhi h1 h2

/-- tick → sqrt price is injective on `[MinInitializedTickV2, MaxTick]` (distinct initialized ticks never
share a sqrt price; only the two floor ticks `MinCurrentTickV2`/`MinInitializedTickV2` coincide). -/
theorem tickToSqrtPrice_injective {t1 t2 s : Int}
    (l1 : CL.MinInitializedTickV2 ≤ t1) (u1 : t1 ≤ CL.MaxTick) (l2 : CL.MinInitializedTickV2 ≤ t2) (u2 : t2 ≤ CL.MaxTick)
    (h1 : tickToSqrtPrice t1 = some s) (h2 : tickToSqrtPrice t2 = some s) : t1 = t2 := by
  rcases Int.lt_trichotomy t1 t2 with h | h | h
  · have := tickToSqrtPrice_strictMono l1 h u2 h1 h2; omega
  · exact h
  · have := tickToSqrtPrice_strictMono l2 h u1 h2 h1; omega

/-! ## 7. non-vacuity -/
example : tickToPrice 1 = some (F 1) ∧ F 1 = 1000001000000000000000000000000000000 := by decide +kernel
example : tickToPrice 8999999 = some 9999999000000000000000000000000000000 ∧
    tickToPrice 9000000 = some (10 * P36) := by decide +kernel                       -- decade boundary, t > 0
example : tickToPrice (-9000000) = some 100000000000000000000000000000000000 ∧
    tickToPrice (-9000001) = some 99999990000000000000000000000000000 := by decide +kernel   -- decade boundary, t < 0
example : F (-269999999) = 1000001 ∧ F 342000000 = CL.MaxSpotPriceBigDec := by decide +kernel
example : tickToSqrtPrice 0 = some P36 ∧ tickToSqrtPrice 1 = some 1000000499999875001000000000000000000 := by
  decide +kernel
example : tickToSqrtPrice (-269999999) = some 1000000499999875000063 := by decide +kernel
example : ∃ s s', tickToSqrtPrice (-108000001) = some s ∧ tickToSqrtPrice (-108000000) = some s' ∧ s < s' :=
  ⟨_, _, regime_boundary_step.1, regime_boundary_step.2, by decide⟩

end OsmoVerif.Props.C14Mono
