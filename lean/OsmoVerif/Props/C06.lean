/-
C06 — lockup: locked funds are safe, time-locked and exactly indexed.
Theorems over `OsmoVerif.Lockup` (tied to x/lockup's msg server + keeper by the `lockup` engine through
the real app).  Histories are arbitrary lists of (block time, operation); the operations are the
lockup messages (with their ValidateBasic), `UnlockMaturedLock`, the EndBlocker's
`WithdrawMaturedLocks`, keeper `AddTokensToLockByID` under its callers' contract (same denom), and the
concentrated-liquidity keeper's locking of freshly minted full-range position shares (`clLock`:
`CreateFullRangePositionLocked` / `…Unlocking` → mint into the module account + `CreateLockNoSend`).
Shares of a CL denomination (`cl/pool/<id>`) are BURNED when their lock is withdrawn; module balance,
accumulation and index statements hold for them like for every other denomination, the conservation
statement is replaced by "no account ever receives them".
No assumption on the block times is needed (monotone or not).
-/
import OsmoVerif.Proofs.LockupSorted

namespace OsmoVerif.Props.C06
open OsmoVerif.Lockup

/-- states reachable from a genesis with funded accounts and no locks by any history. -/
def Reachable (s : State) : Prop := ∃ bal allowed hist, run (initState bal allowed) hist = s

/-! ## the invariant is inductive -/

theorem inv_init (bal : List ((Addr × Denom) × Int)) (allowed : List Addr) : Inv (initState bal allowed) := by
  refine ⟨by simp [initState, ids], ?_, ?_, ?_, ?_, ?_, by simp [initState], ?_⟩
  · intro l hl; simp [initState] at hl
  · intro l hl; simp [initState] at hl
  · intro l hl; simp [initState] at hl
  · intro dn; simp [initState, aget, lsum]
  · intro dn _ d; simp [initState, accSumGE, lsum]
  · intro k id; simp [initState]

theorem step_eq (t : Int) (s : State) (op : Op) :
    (applyOp t s op = none ∧ step t s op = (s, none)) ∨
    (∃ s' r, applyOp t s op = some (s', r) ∧ step t s op = (s', some r)) := by
  unfold step
  cases h : applyOp t s op with
  | none => exact Or.inl ⟨rfl, rfl⟩
  | some p => exact Or.inr ⟨p.1, p.2, rfl, rfl⟩

/-- every operation preserves the invariant (`Inv s → Inv (step s op).1`). -/
theorem inv_step {t : Int} {s : State} {op : Op} (h : Inv s) : Inv (step t s op).1 := by
  rcases step_eq t s op with ⟨_, e⟩ | ⟨s', r, ha, e⟩
  · rw [e]; exact h
  · rw [e]; exact (applyOp_ok h ha).1

theorem inv_run {s : State} (h : Inv s) (hist : List (Int × Op)) : Inv (run s hist) := by
  induction hist generalizing s with
  | nil => exact h
  | cons x xs ih => exact ih (inv_step h)

theorem inv_reachable {s : State} (h : Reachable s) : Inv s := by
  obtain ⟨bal, allowed, hist, rfl⟩ := h
  exact inv_run (inv_init bal allowed) hist

/-- a failing operation (error or panic anywhere inside it) leaves the state untouched. -/
theorem failed_op_noop (t : Int) (s : State) (op : Op) (h : (step t s op).2 = none) : (step t s op).1 = s := by
  rcases step_eq t s op with ⟨_, e⟩ | ⟨s', r, _, e⟩
  · rw [e]
  · rw [e] at h; cases h

/-! ## the module account holds exactly the live locks' coins -/

theorem module_balance_eq_sum_locks {s : State} (h : Reachable s) (dn : Denom) :
    aget s.modBal dn = lsum (fun l => amountOf l.coins dn) s.locks :=
  (inv_reachable h).modbal dn

/-! ## accumulation store: for every denomination and every duration `d`,
`GetPeriodLocksAccumulation` = total of the live locks (unlocking or not) with duration ≥ d -/

theorem accum_eq_sum_ge_duration {s : State} (h : Reachable s) (dn : Denom) (hdn : dn ≠ "") (d : Int) (hd : 0 ≤ d) :
    accumQuery s dn d = lsum (fun l => if d ≤ l.duration then amountOf l.coins dn else 0) s.locks := by
  unfold accumQuery
  rw [if_neg (by omega)]
  exact (inv_reachable h).accum dn hdn d

/-! ## the reference index is exact -/

/-- the index holds, for every live lock, exactly the keys `addLockRefs` derives for it, each once. -/
theorem index_exact {s : State} (h : Reachable s) :
    s.refs.Nodup ∧ ∀ k id, (k, id) ∈ s.refs ↔ ∃ l ∈ s.locks, l.id = id ∧ k ∈ indexKeys l := by
  have hi := inv_reachable h
  refine ⟨hi.refsNodup, fun k id => ?_⟩
  rw [hi.refsOK k id]
  simp

/-- the generic index step: after `deleteLockRefs` (of any superset of the lock's entries) followed by
`addLockRefs` of the updated lock, an exact index is exact again. -/
theorem index_exact_delete_add {refs refs' : List (RefKey × Nat)} {L L' : List Lock} {old : Option Lock} {new : Lock}
    {ks : List RefKey} (h : RefsOK none refs L) (hp : Put L L' old new)
    (hks : ∀ k, (k, new.id) ∈ refs → k ∈ ks)
    (hadd : addRefsL (delRefsL refs ks new.id) (indexKeys new) new.id = some refs') : RefsOK none refs' L' :=
  refsOK_put_reindex h hp (Or.inl rfl) hks hadd

/-- lock ids are unique and never exceed the last issued id; every lock holds one positive coin. -/
theorem lock_records_wellformed {s : State} (h : Reachable s) :
    (s.locks.map (·.id)).Nodup ∧ (∀ l ∈ s.locks, l.id ≤ s.lastLockId) ∧
    (∀ l ∈ s.locks, ∃ dn a, l.coins = [(dn, a)] ∧ 0 < a ∧ dn ≠ "") ∧ (∀ l ∈ s.locks, 0 < l.duration) :=
  let hi := inv_reachable h
  ⟨hi.nodup, hi.idle, hi.single, hi.durpos⟩

/-! ## every query returns exactly the matching locks -/

theorem every_query_exact {s : State} (h : Reachable s) (id : Nat) :
    (id ∈ qAll s ↔ ∃ l ∈ s.locks, l.id = id) ∧
    (∀ o, id ∈ qOwner s o ↔ ∃ l ∈ s.locks, l.id = id ∧ l.owner = o) ∧
    (∀ o d nu, id ∈ qOwnerLonger s o d nu ↔
      ∃ l ∈ s.locks, l.id = id ∧ l.owner = o ∧ durKey d ≤ l.duration ∧ (nu = true → l.endTime = none)) ∧
    (∀ o d, id ∈ qOwnerDuration s o d ↔ ∃ l ∈ s.locks, l.id = id ∧ l.owner = o ∧ l.duration = durKey d) ∧
    (∀ o dn d nu, id ∈ qOwnerDenomLonger s o dn d nu ↔
      ∃ l ∈ s.locks, l.id = id ∧ l.owner = o ∧ l.hasDenom dn ∧ durKey d ≤ l.duration ∧ (nu = true → l.endTime = none)) ∧
    (∀ o dn d, id ∈ qOwnerDenomDurationNotUnlocking s o dn d ↔
      ∃ l ∈ s.locks, l.id = id ∧ l.owner = o ∧ l.hasDenom dn ∧ l.duration = durKey d ∧ l.endTime = none) ∧
    (∀ dn d, id ∈ qDenomLonger s dn d ↔ ∃ l ∈ s.locks, l.id = id ∧ l.hasDenom dn ∧ durKey d ≤ l.duration) ∧
    (∀ t, id ∈ qUnlockingBefore s t ↔ ∃ l ∈ s.locks, l.id = id ∧ l.endsBy t) ∧
    (∀ t, id ∈ qUnlockingAfter s t ↔ ∃ l ∈ s.locks, l.id = id ∧ l.endsAfter t) ∧
    (∀ now o ts, id ∈ qOwnerPastTime s now o ts ↔
      ∃ l ∈ s.locks, l.id = id ∧ l.owner = o ∧ (l.endsAfter ts ∨ (l.endTime = none ∧ pastDur now ts ≤ l.duration))) ∧
    (∀ now o ts, id ∈ qOwnerUnlockedBefore s now o ts ↔
      ∃ l ∈ s.locks, l.id = id ∧ l.owner = o ∧ (l.endsBy ts ∨ (now ≤ ts ∧ l.endTime = none ∧ l.duration < ts - now))) ∧
    (∀ now o dn ts, id ∈ qOwnerDenomPastTime s now o dn ts ↔
      ∃ l ∈ s.locks, l.id = id ∧ l.owner = o ∧ l.hasDenom dn ∧
        (l.endsAfter ts ∨ (l.endTime = none ∧ pastDur now ts ≤ l.duration))) ∧
    (∀ now dn ts, id ∈ qDenomPastTime s now dn ts ↔
      ∃ l ∈ s.locks, l.id = id ∧ l.hasDenom dn ∧ (l.endsAfter ts ∨ (l.endTime = none ∧ pastDur now ts ≤ l.duration))) := by
  have hi := inv_reachable h
  exact ⟨qAll_exact hi id, fun o => qOwner_exact hi o id, fun o d nu => qOwnerLonger_exact hi o d nu id,
    fun o d => qOwnerDuration_exact hi o d id, fun o dn d nu => qOwnerDenomLonger_exact hi o dn d nu id,
    fun o dn d => qOwnerDenomDurationNotUnlocking_exact hi o dn d id, fun dn d => qDenomLonger_exact hi dn d id,
    fun t => qUnlockingBefore_exact hi t id, fun t => qUnlockingAfter_exact hi t id,
    fun now o ts => qOwnerPastTime_exact hi now o ts id, fun now o ts => qOwnerUnlockedBefore_exact hi now o ts id,
    fun now o dn ts => qOwnerDenomPastTime_exact hi now o dn ts id, fun now dn ts => qDenomPastTime_exact hi now dn ts id⟩

/-- … as ascending lists without duplicates: with `every_query_exact`, each query result IS the sorted list
of the matching lock ids. -/
theorem every_query_sorted_without_duplicates {s : State} (h : Reachable s) :
    ((qAll s).Pairwise (· ≤ ·) ∧ (qAll s).Nodup) ∧
    (∀ o, (qOwner s o).Pairwise (· ≤ ·) ∧ (qOwner s o).Nodup) ∧
    (∀ o d nu, (qOwnerLonger s o d nu).Pairwise (· ≤ ·) ∧ (qOwnerLonger s o d nu).Nodup) ∧
    (∀ o d, (qOwnerDuration s o d).Pairwise (· ≤ ·) ∧ (qOwnerDuration s o d).Nodup) ∧
    (∀ o dn d nu, (qOwnerDenomLonger s o dn d nu).Pairwise (· ≤ ·) ∧ (qOwnerDenomLonger s o dn d nu).Nodup) ∧
    (∀ o dn d, (qOwnerDenomDurationNotUnlocking s o dn d).Pairwise (· ≤ ·) ∧ (qOwnerDenomDurationNotUnlocking s o dn d).Nodup) ∧
    (∀ dn d, (qDenomLonger s dn d).Pairwise (· ≤ ·) ∧ (qDenomLonger s dn d).Nodup) ∧
    (∀ t, (qUnlockingBefore s t).Pairwise (· ≤ ·) ∧ (qUnlockingBefore s t).Nodup) ∧
    (∀ t, (qUnlockingAfter s t).Pairwise (· ≤ ·) ∧ (qUnlockingAfter s t).Nodup) ∧
    (∀ now o ts, (qOwnerPastTime s now o ts).Pairwise (· ≤ ·) ∧ (qOwnerPastTime s now o ts).Nodup) ∧
    (∀ now o ts, (qOwnerUnlockedBefore s now o ts).Pairwise (· ≤ ·) ∧ (qOwnerUnlockedBefore s now o ts).Nodup) ∧
    (∀ now o dn ts, (qOwnerDenomPastTime s now o dn ts).Pairwise (· ≤ ·) ∧ (qOwnerDenomPastTime s now o dn ts).Nodup) ∧
    (∀ now dn ts, (qDenomPastTime s now dn ts).Pairwise (· ≤ ·) ∧ (qDenomPastTime s now dn ts).Nodup) := by
  obtain ⟨a1, a2, a3, a4, a5, a6, a7, a8, a9, a10, a11, a12, a13⟩ := queries_sorted s
  obtain ⟨b1, b2, b3, b4, b5, b6, b7, b8, b9, b10, b11, b12, b13⟩ := queries_nodup (inv_reachable h)
  exact ⟨⟨a1, b1⟩, fun o => ⟨a2 o, b2 o⟩, fun o d nu => ⟨a3 o d nu, b3 o d nu⟩, fun o d => ⟨a4 o d, b4 o d⟩,
    fun o dn d nu => ⟨a5 o dn d nu, b5 o dn d nu⟩, fun o dn d => ⟨a6 o dn d, b6 o dn d⟩, fun dn d => ⟨a7 dn d, b7 dn d⟩,
    fun t => ⟨a8 t, b8 t⟩, fun t => ⟨a9 t, b9 t⟩, fun now o ts => ⟨a10 now o ts, b10 now o ts⟩,
    fun now o ts => ⟨a11 now o ts, b11 now o ts⟩, fun now o dn ts => ⟨a12 now o dn ts, b12 now o dn ts⟩,
    fun now dn ts => ⟨a13 now dn ts, b13 now dn ts⟩⟩

/-! ## conservation: owner balance + amount locked by the owner -/

/-- amount of `dn` locked by owner `o`. -/
def lockedBy (s : State) (o : Addr) (dn : Denom) : Int := lsum (fOwner o dn) s.locks

theorem owner_plus_locked_conserved_step {t : Int} {s : State} {op : Op} (h : Inv s) (o : Addr) (dn : Denom)
    (hcl : isCLDenom dn = false) :
    aget (step t s op).1.bal (o, dn) + lockedBy (step t s op).1 o dn = aget s.bal (o, dn) + lockedBy s o dn := by
  rcases step_eq t s op with ⟨_, e⟩ | ⟨s', r, ha, e⟩
  · rw [e]
  · rw [e]
    obtain ⟨Δ, ef⟩ := (applyOp_ok h ha).2
    simp only [lockedBy, ef.bal o dn hcl, ef.locks]; omega

/-- CL shares never reach an account: no operation raises any account's balance of a CL share denomination
(they are minted straight into a lock and burned out of it). -/
theorem cl_shares_never_paid_out_step {t : Int} {s : State} {op : Op} (h : Inv s) (o : Addr) (dn : Denom)
    (hcl : isCLDenom dn = true) : aget (step t s op).1.bal (o, dn) ≤ aget s.bal (o, dn) := by
  rcases step_eq t s op with ⟨_, e⟩ | ⟨s', r, ha, e⟩
  · rw [e]; exact Int.le_refl _
  · rw [e]
    obtain ⟨Δ, ef⟩ := (applyOp_ok h ha).2
    exact ef.balCL o dn hcl

theorem cl_shares_never_paid_out (bal : List ((Addr × Denom) × Int)) (allowed : List Addr) (hist : List (Int × Op))
    (o : Addr) (dn : Denom) (hcl : isCLDenom dn = true) :
    aget (run (initState bal allowed) hist).bal (o, dn) ≤ aget bal (o, dn) := by
  have key : ∀ (hist : List (Int × Op)) (s : State), Inv s → aget (run s hist).bal (o, dn) ≤ aget s.bal (o, dn) := by
    intro hist
    induction hist with
    | nil => intro s _; exact Int.le_refl _
    | cons x xs ih =>
      intro s hs
      show aget (run (step x.1 s x.2).1 xs).bal (o, dn) ≤ _
      exact Int.le_trans (ih _ (inv_step hs)) (cl_shares_never_paid_out_step hs o dn hcl)
  exact key hist (initState bal allowed) (inv_init bal allowed)

/-- over any history, each owner's balance plus the amount he has locked stays what genesis gave him:
coins leave a lock only into its owner's balance, and only the owner's balance pays for his locks
(CL shares excepted: see `cl_shares_never_paid_out`). -/
theorem owner_plus_locked_conserved (bal : List ((Addr × Denom) × Int)) (allowed : List Addr) (hist : List (Int × Op))
    (o : Addr) (dn : Denom) (hcl : isCLDenom dn = false) :
    let s := run (initState bal allowed) hist
    aget s.bal (o, dn) + lockedBy s o dn = aget bal (o, dn) := by
  have key : ∀ (hist : List (Int × Op)) (s : State), Inv s →
      aget (run s hist).bal (o, dn) + lockedBy (run s hist) o dn = aget s.bal (o, dn) + lockedBy s o dn := by
    intro hist
    induction hist with
    | nil => intro s _; rfl
    | cons x xs ih =>
      intro s hs
      show aget (run (step x.1 s x.2).1 xs).bal (o, dn) + lockedBy (run (step x.1 s x.2).1 xs) o dn = _
      rw [ih _ (inv_step hs), owner_plus_locked_conserved_step hs o dn hcl]
  have := key hist (initState bal allowed) (inv_init bal allowed)
  have h0 : lockedBy (initState bal allowed) o dn = 0 := rfl
  have h1 : (initState bal allowed).bal = bal := rfl
  rw [h0, h1] at this
  simp only; omega

/-! ## time lock -/

/-- amount of `dn` in the locks of `o` that are matured at block time `t` (unlocking, end time ≤ t). -/
def fMat (t : Int) (o : Addr) (dn : Denom) (l : Lock) : Int :=
  if l.owner = o ∧ matured t l = true then amt dn l else 0

theorem lsum_add (f g : Lock → Int) (L : List Lock) : lsum (fun l => f l + g l) L = lsum f L + lsum g L := by
  induction L with
  | nil => rfl
  | cons x xs ih => simp only [lsum, ih]; omega

theorem lsum_nonneg (f : Lock → Int) (L : List Lock) (h : ∀ l ∈ L, 0 ≤ f l) : 0 ≤ lsum f L := by
  induction L with
  | nil => simp [lsum]
  | cons x xs ih =>
    have := h x List.mem_cons_self
    have := ih (fun l hl => h l (List.mem_cons_of_mem _ hl))
    simp only [lsum]; omega

/-- **Not before the end time.** Whatever an operation at block time `t` does (force unlock by a
whitelisted address excepted), the amount an owner has in locks that are NOT matured at `t` — not
unlocking, or unlocking with end time after `t` — does not decrease. -/
theorem unmatured_locked_never_decreases {t : Int} {s : State} {op : Op} (h : Inv s) (hf : op.isForce = false)
    (o : Addr) (dn : Denom) :
    lsum (fUnm t o dn) s.locks ≤ lsum (fUnm t o dn) (step t s op).1.locks := by
  rcases step_eq t s op with ⟨_, e⟩ | ⟨s', r, ha, e⟩
  · rw [e]; exact Int.le_refl _
  · rw [e]
    obtain ⟨Δ, ef⟩ := (applyOp_ok h ha).2
    have := ef.time hf o dn
    rw [ef.locks]; omega

/-- **Only to the owner, only after the end.** An operation at block time `t` raises an account's
balance by at most the coins of that account's OWN locks that are matured at `t`. -/
theorem coins_only_to_owner_after_end {t : Int} {s : State} {op : Op} (h : Inv s) (hf : op.isForce = false)
    (o : Addr) (dn : Denom) :
    aget (step t s op).1.bal (o, dn) ≤ aget s.bal (o, dn) + lsum (fMat t o dn) s.locks := by
  have nonneg : ∀ s : State, Inv s → 0 ≤ lsum (fMat t o dn) s.locks := by
    intro s hi
    apply lsum_nonneg
    intro l hl
    obtain ⟨dn0, a, hc, ha, _⟩ := hi.single l hl
    simp only [fMat, amt_single dn0 dn a l hc]
    repeat' split
    all_goals omega
  cases hcl : isCLDenom dn
  · have hcons := owner_plus_locked_conserved_step (t := t) (op := op) h o dn hcl
    have hun := unmatured_locked_never_decreases (t := t) (op := op) h hf o dn
    have hsplit : ∀ L : List Lock, lsum (fOwner o dn) L = lsum (fUnm t o dn) L + lsum (fMat t o dn) L := by
      intro L
      rw [← lsum_add]
      congr 1
      funext l
      simp only [fOwner, fUnm, fMat]
      by_cases h1 : l.owner = o <;> cases h2 : matured t l <;> simp [h1]
    have hnn := nonneg (step t s op).1 (inv_step h)
    simp only [lockedBy, hsplit] at hcons
    omega
  · -- CL shares are never paid out at all
    have := cl_shares_never_paid_out_step (t := t) (op := op) h o dn hcl
    have := nonneg s h
    omega

/-! ### lock level: end time = unlock start + duration, frozen; release only when matured -/

theorem lock_level_step {t : Int} {s : State} {op : Op} (h : Inv s) :
    FrzD t op.isForce s.locks s.lastLockId (step t s op).1.locks := by
  rcases step_eq t s op with ⟨_, e⟩ | ⟨s', r, ha, e⟩
  · rw [e]; exact FrzD.refl _ _ h.idle h.nodup
  · rw [e]
    obtain ⟨Δ, ef⟩ := (applyOp_ok h ha).2
    exact ef.frz

/-- a lock id keeps its owner forever, and once it is unlocking its end time and duration never change. -/
theorem lock_owner_and_end_time_frozen {t : Int} {s : State} {op : Op} (h : Inv s) {l l' : Lock}
    (hl : l ∈ s.locks) (hl' : l' ∈ (step t s op).1.locks) (hid : l'.id = l.id) :
    l'.owner = l.owner ∧ ∀ e, l.endTime = some e → l'.endTime = some e ∧ l'.duration = l.duration :=
  let k := (lock_level_step (t := t) (op := op) h).keep l hl l' hl' hid
  ⟨k.1, k.2.1⟩

/-- an unlocking lock either was already unlocking (same id, end time, duration) or it began unlocking in
this very transaction and its end time is the block time plus its duration. -/
theorem end_time_is_unlock_start_plus_duration {t : Int} {s : State} {op : Op} (h : Inv s) (hf : op.isForce = false)
    {l' : Lock} (hl' : l' ∈ (step t s op).1.locks) {e : Int} (he : l'.endTime = some e) :
    e = t + l'.duration ∨ ∃ l ∈ s.locks, l.id = l'.id ∧ l.endTime = some e ∧ l.duration = l'.duration := by
  have fz := lock_level_step (t := t) (op := op) h
  rcases fz.back l' hl' with ⟨l, hl, hid⟩ | hlt
  · obtain ⟨_, k2, k3⟩ := fz.keep l hl l' hl' hid.symm
    cases hle : l.endTime with
    | none =>
      rcases k3 hle with hn | ⟨hb, _⟩
      · rw [hn] at he; cases he
      · rw [hb] at he; injection he with he; exact Or.inl he.symm
    | some e0 =>
      obtain ⟨c1, c2⟩ := k2 e0 hle
      rw [c1] at he; injection he with he; subst he
      exact Or.inr ⟨l, hl, hid, hle, c2.symm⟩
  · rcases fz.fresh l' hl' hlt with hn | ⟨hb, _⟩ | hforce
    · rw [hn] at he; cases he
    · rw [hb] at he; injection he with he; exact Or.inl he.symm
    · rw [hf] at hforce; cases hforce

/-- a lock leaves the store (its coins returned) only when it is unlocking and its end time has come. -/
theorem released_only_when_matured {t : Int} {s : State} {op : Op} (h : Inv s) (hf : op.isForce = false)
    {l : Lock} (hl : l ∈ s.locks) (hgone : ∀ l' ∈ (step t s op).1.locks, l'.id ≠ l.id) :
    ∃ e, l.endTime = some e ∧ e ≤ t := by
  have hm := (lock_level_step (t := t) (op := op) h).gone hf l hl hgone
  unfold matured at hm
  cases he : l.endTime with
  | none => simp [he] at hm
  | some e => exact ⟨e, rfl, by simpa [he] using hm⟩

/-- histories without force unlocks. -/
def NoForce (hist : List (Int × Op)) : Prop := ∀ x ∈ hist, x.2.isForce = false

/-- over any history without force unlocks: the end time of every unlocking lock is the block time of
one of the history's transactions (the one in which it began to unlock) plus the lock's duration. -/
theorem end_time_in_history (bal : List ((Addr × Denom) × Int)) (allowed : List Addr) (hist : List (Int × Op))
    (hnf : NoForce hist) :
    ∀ l ∈ (run (initState bal allowed) hist).locks, ∀ e, l.endTime = some e → ∃ x ∈ hist, e = x.1 + l.duration := by
  have key : ∀ (hist : List (Int × Op)) (s : State) (T : List Int), Inv s → NoForce hist →
      (∀ l ∈ s.locks, ∀ e, l.endTime = some e → ∃ t0 ∈ T, e = t0 + l.duration) →
      ∀ l ∈ (run s hist).locks, ∀ e, l.endTime = some e → ∃ t0 ∈ T ++ hist.map (·.1), e = t0 + l.duration := by
    intro hist
    induction hist with
    | nil => intro s T _ _ h0 l hl e he; simpa using h0 l hl e he
    | cons x xs ih =>
      intro s T hi hnf h0 l hl e he
      have hfx : x.2.isForce = false := hnf x List.mem_cons_self
      have h1 : ∀ l ∈ (step x.1 s x.2).1.locks, ∀ e, l.endTime = some e → ∃ t0 ∈ T ++ [x.1], e = t0 + l.duration := by
        intro l' hl' e' he'
        rcases end_time_is_unlock_start_plus_duration hi hfx hl' he' with hb | ⟨l0, hl0, _, he0, hd0⟩
        · exact ⟨x.1, by simp, hb⟩
        · obtain ⟨t0, ht0, ee⟩ := h0 l0 hl0 e' he0
          exact ⟨t0, by simp [ht0], by rw [ee, hd0]⟩
      have := ih (step x.1 s x.2).1 (T ++ [x.1]) (inv_step hi) (fun y hy => hnf y (List.mem_cons_of_mem _ hy)) h1 l hl e he
      simpa [List.append_assoc] using this
  intro l hl e he
  obtain ⟨t0, ht0, ee⟩ := key hist (initState bal allowed) [] (inv_init bal allowed) hnf
    (by intro l hl; simp [initState] at hl) l hl e he
  simp only [List.nil_append, List.mem_map] at ht0
  obtain ⟨x, hx, rfl⟩ := ht0
  exact ⟨x, hx, ee⟩

/-- **Never before unlock start plus duration** (history level): if the transaction `(t, op)` following the
history `pre` makes lock `l` disappear, then `l` began to unlock in a transaction of `pre` at some block
time `t0` with `t0 + duration ≤ t`. -/
theorem never_released_before_start_plus_duration (bal : List ((Addr × Denom) × Int)) (allowed : List Addr)
    (pre : List (Int × Op)) (t : Int) (op : Op) (hnf : NoForce pre) (hf : op.isForce = false)
    {l : Lock} (hl : l ∈ (run (initState bal allowed) pre).locks)
    (hgone : ∀ l' ∈ (step t (run (initState bal allowed) pre) op).1.locks, l'.id ≠ l.id) :
    ∃ x ∈ pre, x.1 + l.duration ≤ t := by
  obtain ⟨e, he, hle⟩ := released_only_when_matured (inv_run (inv_init bal allowed) pre) hf hl hgone
  obtain ⟨x, hx, ee⟩ := end_time_in_history bal allowed pre hnf l hl e he
  exact ⟨x, hx, by omega⟩

/-- a force unlock by an address that is not on the governance whitelist fails. -/
theorem force_unlock_needs_whitelist (t : Int) (s : State) (owner : Addr) (id : Nat) (c : Coins)
    (h : owner ∉ s.forceAllowed) : applyOp t s (.forceUnlock owner id c) = none := by
  simp only [applyOp, msgForceUnlock, Option.map_eq_none_iff]
  split
  · rfl
  · split
    · rfl
    · split
      · rfl
      · split
        · rfl
        · have : (!s.forceAllowed.contains owner) = true := by simpa using h
          rw [if_pos this]


/-! ## non-vacuity: a concrete history (add-to-existing, split by partial unlock, refused early unlock,
unlock at exactly the end time) -/

def demoHist : List (Int × Op) := [
  (100, .lockTokens "A" [("foo", 100)] 10),
  (100, .lockTokens "A" [("foo", 50)] 10),        -- added to lock 1
  (100, .lockTokens "B" [("foo", 70)] 10),        -- lock 2, same duration key
  (150, .extend "B" 2 25),
  (200, .beginUnlock "A" 1 [("foo", 30)]),        -- splits: lock 3 unlocking until 210
  (209, .unlockMatured 3),                        -- refused
  (210, .unlockMatured 3)]                        -- released to A

def demo : State := run (initState [(("A", "foo"), 1000), (("B", "foo"), 500)] []) demoHist

example : Reachable demo := ⟨_, _, demoHist, rfl⟩
example : demo.locks.map (·.id) = [1, 2] ∧ demo.locks.map (·.owner) = ["A", "B"] ∧ demo.locks.map (·.duration) = [10, 25] ∧
    demo.locks.map (·.endTime) = [none, none] ∧ demo.locks.map (·.coins) = [[("foo", 120)], [("foo", 70)]] := by decide
example : aget demo.modBal "foo" = 190 ∧ aget demo.bal ("A", "foo") = 880 ∧ aget demo.bal ("B", "foo") = 430 := by decide
example : accumQuery demo "foo" 10 = 190 ∧ accumQuery demo "foo" 11 = 70 ∧ accumQuery demo "foo" 26 = 0 := by decide
example : qOwner demo "A" = [1] ∧ qDenomLonger demo "foo" 0 = [1, 2] ∧ qOwnerDuration demo "B" 25 = [2] := by decide
/-- the refused early unlock really is refused, the one at the end time succeeds. -/
example : (step 209 (run (initState [(("A", "foo"), 1000), (("B", "foo"), 500)] []) (demoHist.take 5)) (.unlockMatured 3)).2 = none ∧
    (step 210 (run (initState [(("A", "foo"), 1000), (("B", "foo"), 500)] []) (demoHist.take 5)) (.unlockMatured 3)).2 = some 0 := by
  decide

/-! ### CL shares: locked by the CL keeper, burned on withdrawal -/

def clDemoHist : List (Int × Op) := [
  (100, .clLock "A" "cl/pool/1" 500 10 false),      -- lock 1: 500 shares minted into the module account
  (100, .clLock "B" "cl/pool/1" 70 25 true),        -- lock 2, unlocking at once (migration path), until 125
  (100, .lockTokens "A" [("cl/pool/1", 5)] 10),     -- refused: nobody holds shares
  (110, .beginUnlock "A" 1 [("cl/pool/1", 200)]),   -- splits: lock 3 unlocking until 120
  (120, .withdrawMatured 0)]                        -- lock 3 withdrawn: its 200 shares are burned

def clDemo : State := run (initState [(("A", "foo"), 1000)] []) clDemoHist

example : isCLDenom "cl/pool/1" = true ∧ isCLDenom "foo" = false ∧ isCLDenom "gamm/pool/1" = false := by decide
example : clDemo.locks.map (·.id) = [1, 2] ∧ clDemo.locks.map (·.coins) = [[("cl/pool/1", 300)], [("cl/pool/1", 70)]] ∧
    clDemo.locks.map (·.endTime) = [none, some 125] := by decide
/-- module account and accumulation follow the live locks; the owner received nothing. -/
example : aget clDemo.modBal "cl/pool/1" = 370 ∧ aget clDemo.bal ("A", "cl/pool/1") = 0 ∧
    accumQuery clDemo "cl/pool/1" 0 = 370 ∧ accumQuery clDemo "cl/pool/1" 11 = 70 ∧ accumQuery clDemo "cl/pool/1" 26 = 0 := by decide
example : (step 100 (run (initState [(("A", "foo"), 1000)] []) (clDemoHist.take 2)) (.lockTokens "A" [("cl/pool/1", 5)] 10)).2 = none := by
  decide

/-! ## recorded observations outside the property (keeper API, not reachable through messages) -/

/-- DESIGN F6: `AddTokensToLockByID` on a lock without synthetic lock increases the accumulation store of
the empty denomination (not a denomination: `accum_eq_sum_ge_duration` quantifies over `dn ≠ ""`). -/
theorem empty_denom_accumulation_witness : accumQuery demo "" 0 = 50 := by decide

/-- keeper-level `CreateLock` accepts several denominations (messages do not: `MsgLockTokens.ValidateBasic`);
a partial unlock that removes one of them entirely leaves that denomination's index entry of the
remaining lock behind. -/
def staleDemo : Option State :=
  (createLock (initState [(("A", "bar"), 100), (("A", "foo"), 100)] []) "A" [("bar", 5), ("foo", 10)] 10).bind fun p =>
    (beginUnlock 100 p.1 1 [("bar", 5)]).map (·.1)

/-- lock 1 no longer holds `bar` but is still indexed under it. -/
theorem multi_denom_partial_unlock_stale_index_witness :
    staleDemo.map (fun s => (decide ((⟨false, IdxKey.denomDur "bar" 10⟩, 1) ∈ s.refs), (getLock s 1).map (·.coins),
      qDenomLonger s "bar" 0)) = some (true, some [("foo", 10)], [1, 2]) := by
  decide

/-- keeper-level `AddTokensToLockByID` with a denomination the lock does not hold (its only in-tree
caller never does this) adds the coins without any index entry for the new denomination. -/
def foreignDemo : Option State :=
  (createLock (initState [(("A", "bar"), 100), (("A", "foo"), 100)] []) "A" [("foo", 10)] 10).bind fun p =>
    addTokensToLockByID p.1 1 "A" "bar" 5

theorem add_foreign_denom_unindexed_witness :
    foreignDemo.map (fun s => ((getLock s 1).map (·.coins), qDenomLonger s "bar" 0)) =
      some (some [("bar", 5), ("foo", 10)], []) := by
  decide

end OsmoVerif.Props.C06
