/-
C14 (round-trip part) — `CalculateSqrtPriceToTick` is COMPLETE on the swap-reachable range: for every sqrt price
of the range it returns the tick whose bucket contains it (never an error), hence tick → sqrt price → tick is the
identity.  For ALL ticks / ALL sqrt prices of the range (no sampling); everything is about the executable model
`OsmoVerif.Tick` (bit-exact with x/concentrated-liquidity/math/tick.go).

Exact ranges (what is TRUE of the code):
* round trip `√price(t) ↦ t`: every `t` with `MinCurrentTick ≤ t ≤ MaxTick`  (`MinCurrentTick = MinInitializedTick − 1`
  is the last tick of the 36-decimal regime and is still served; `MaxTick` is reached through the inclusive branch);
  for EVERY tick below `MinCurrentTick` the candidate is rejected for backwards compatibility (`roundTrip_below_rejected`,
  `roundTrip_iff`);
* totality: every `s` with `√price(MinCurrentTick) ≤ s ≤ MaxSqrtPrice` (in particular `MinSqrtPrice ≤ s ≤ MaxSqrtPrice`).
  The rejection below is on the CANDIDATE, not on the result: a sqrt price one ulp below `√price(MinCurrentTick)`
  still yields the candidate `MinCurrentTick` and the function returns `MinCurrentTick − 1` (`below_range_witness`).
Why the ±1 correction suffices: with `r'` the 18-decimal least root of the price `N'` of the next tick,
`N ≤ ⌊s·s⌋₁₈ ≤ r'² ≤ N' + 2(r'−1)` and `4·10^7·(r'−1) ≤ N'`, while a tick increment is at least `10^-7·N'`; so the
candidate computed from the price is the true bucket `T` or `T+1` (`candidate_in_window`), both inside the window the
comparisons repair.  Helper lemmas: Proofs/TickRoundTrip1.lean … TickRoundTrip4.lean.
-/
import OsmoVerif.Model.Tick
import OsmoVerif.Proofs.TickRoundTrip3
import OsmoVerif.Proofs.TickRoundTrip4
import OsmoVerif.Props.C14
import OsmoVerif.Props.C14Mono

namespace OsmoVerif.Props.C14RoundTrip
open OsmoVerif.Tick OsmoVerif.Num OsmoVerif.MathM OsmoVerif.Gen

/-! ## 0. the constants of the range (regenerated from the source) -/

theorem range_constants :
    CL.MinCurrentTick = CL.MinInitializedTick - 1 ∧
    tickToSqrtPrice CL.MinCurrentTick = some 999999949999998749999937499997 ∧
    tickToSqrtPrice CL.MinInitializedTick = some CL.MinSqrtPriceBigDec ∧
    tickToSqrtPrice CL.MaxTick = some CL.MaxSqrtPriceBigDec ∧
    CL.MinSqrtPriceBigDec = CL.MinSqrtPrice * Pdiff ∧ CL.MaxSqrtPriceBigDec = CL.MaxSqrtPrice * Pdiff ∧
    CL.MinSqrtPriceBigDec = 10 ^ 30 ∧ CL.MaxSqrtPriceBigDec = 10 ^ 55 := by decide +kernel

/-! ## 1. the candidate is the true bucket or the one above -/

/-- If `s` lies in the sqrt-price bucket of a launch-range tick `T < MaxTick`, then `s·s` does not overflow, the
price → tick search succeeds on it, and its result is `T` or `T + 1`. -/
theorem candidate_in_window {s T lo hi : Int} (hT0 : CL.MinInitializedTick ≤ T) (hT1 : T < CL.MaxTick)
    (h0 : tickToSqrtPrice T = some lo) (h1 : tickToSqrtPrice (T + 1) = some hi) (hle : lo ≤ s) (hlt : s < hi) :
    ∃ p c, BigDec.mul s s = some p ∧ calculatePriceToTick p = some c ∧ (c = T ∨ c = T + 1) := by
  obtain ⟨c1, c2, c3, c4, _⟩ := tick_consts
  obtain ⟨r, rfl, hr0, hr1, _⟩ := sqrt_root (t := T) (by omega) (by omega) h0
  obtain ⟨r', rfl, hr'0, _, hr'2⟩ := sqrt_root (t := T + 1) (by omega) (by omega) h1
  have hmax : r' * 10 ^ 18 ≤ 10 ^ 55 := by
    have e3 := C14Mono.tickToSqrtPrice_ends.2.2
    have := C14Mono.tickToSqrtPrice_mono (t1 := T + 1) (t2 := CL.MaxTick) (by omega) (by omega) (Int.le_refl _) h1 e3
    have e : 10 ^ 19 * P36 = 10 ^ 55 := by decide +kernel
    rwa [e] at this
  exact candidate_window (by omega) (by omega) (Int.le_of_lt hr0) hle hlt (by omega) hr1 hr'0 hr'2

/-! ## 2. completeness of the bucket search -/

/-- Every sqrt price inside the bucket `[√price(T), √price(T+1))` of a tick `MinCurrentTick ≤ T < MaxTick` is
mapped to `T` — no spurious `SqrtPriceToTickError`, the ±1 correction always suffices. -/
theorem sqrtPriceToTick_complete {s T lo hi : Int} (hT0 : CL.MinCurrentTick ≤ T) (hT1 : T < CL.MaxTick)
    (h0 : tickToSqrtPrice T = some lo) (h1 : tickToSqrtPrice (T + 1) = some hi) (hle : lo ≤ s) (hlt : s < hi) :
    calculateSqrtPriceToTick s = some T := by
  obtain ⟨c1, c2, c3, c4, _⟩ := tick_consts
  have c5 := consts3
  rcases Int.lt_or_le T (-108000000) with h | h
  · have hT : T = -108000001 := by omega
    subst hT
    obtain ⟨b1, b2⟩ := C14Mono.regime_boundary_step
    rw [c1] at b1 b2
    have e : (-108000001 : Int) + 1 = -108000000 := by omega
    rw [e, b2] at h1
    have e' : (-108000001 : Int) = -108000000 - 1 := by omega
    rw [e', b1] at h0
    injection h0 with h0; injection h1 with h1
    subst h0; subst h1
    rw [e']; exact Tick.sqrtPriceToTick_lo_bucket hle hlt
  · exact Tick.sqrtPriceToTick_complete h (by omega) h0 h1 hle hlt

/-- the top of the range: the maximum sqrt price maps to `MaxTick` (inclusive upper edge of the shifted candidate). -/
theorem sqrtPriceToTick_max : calculateSqrtPriceToTick CL.MaxSqrtPriceBigDec = some CL.MaxTick := by
  decide +kernel

/-- Exact characterisation on the range: the function returns `T` **iff** `s` lies in `T`'s bucket
(`⇒` is `C14.sqrtPriceToTick_bucket`, `⇐` is completeness). -/
theorem sqrtPriceToTick_eq_iff {s T lo hi : Int} (hT0 : CL.MinCurrentTick ≤ T) (hT1 : T < CL.MaxTick)
    (h0 : tickToSqrtPrice T = some lo) (h1 : tickToSqrtPrice (T + 1) = some hi) :
    calculateSqrtPriceToTick s = some T ↔ lo ≤ s ∧ s < hi := by
  constructor
  · intro h
    obtain ⟨lo', hlo', hle, hor⟩ := C14.sqrtPriceToTick_bucket h
    rw [h0] at hlo'; injection hlo' with hlo'; subst hlo'
    refine ⟨hle, ?_⟩
    rcases hor with ⟨hi', hhi', hlt⟩ | ⟨heq, _⟩
    · rw [h1] at hhi'; injection hhi' with hhi'; subst hhi'; exact hlt
    · rw [h0] at heq; injection heq with heq; subst heq
      obtain ⟨c1, c2, c3, c4, _⟩ := tick_consts
      have c5 := consts3
      exact C14Mono.tickToSqrtPrice_succ_lt (by omega) hT1 h0 h1
  · intro ⟨a, b⟩; exact sqrtPriceToTick_complete hT0 hT1 h0 h1 a b

/-! ## 3. round trip: tick → sqrt price → tick -/

/-- **Round-trip totality.**  For EVERY tick `t` with `MinCurrentTick ≤ t ≤ MaxTick` (the whole swap-reachable
range: all initializable launch ticks, the current-tick floor `MinCurrentTick = MinInitializedTick − 1`, and the
inclusive top `MaxTick`), the sqrt price of `t` is mapped back to `t`. -/
theorem roundTrip {t s : Int} (hlo : CL.MinCurrentTick ≤ t) (hhi : t ≤ CL.MaxTick)
    (hs : tickToSqrtPrice t = some s) : calculateSqrtPriceToTick s = some t := by
  obtain ⟨c1, c2, c3, c4, _⟩ := tick_consts
  have c5 := consts3
  rcases Int.lt_or_eq_of_le hhi with h | h
  · obtain ⟨s', hs'⟩ := C14Mono.tickToSqrtPrice_total (t := t + 1) (by omega) (by omega)
    exact sqrtPriceToTick_complete hlo h hs hs' (Int.le_refl _)
      (C14Mono.tickToSqrtPrice_succ_lt (by omega) h hs hs')
  · subst h
    rw [range_constants.2.2.2.1] at hs
    injection hs with hs; subst hs
    exact sqrtPriceToTick_max

/-- the statement as asked for the initializable ticks `[MinInitializedTick, MaxTick]`. -/
theorem roundTrip_initializable {t s : Int} (hlo : CL.MinInitializedTick ≤ t) (hhi : t ≤ CL.MaxTick)
    (hs : tickToSqrtPrice t = some s) : calculateSqrtPriceToTick s = some t :=
  roundTrip (by have := range_constants.1; omega) hhi hs

/-- in one line: `tickToSqrtPrice` followed by `calculateSqrtPriceToTick` is the identity on the range
(the first conversion is total there by `C14Mono.tickToSqrtPrice_total`). -/
theorem roundTrip_bind {t : Int} (hlo : CL.MinCurrentTick ≤ t) (hhi : t ≤ CL.MaxTick) :
    (tickToSqrtPrice t).bind calculateSqrtPriceToTick = some t := by
  obtain ⟨c1, c2, c3, c4, _⟩ := tick_consts
  have c5 := consts3
  obtain ⟨s, hs⟩ := C14Mono.tickToSqrtPrice_total (t := t) (by omega) hhi
  rw [hs]; exact roundTrip hlo hhi hs

/-- The lower bound is exact: for EVERY tick of the extended range below `MinCurrentTick` the round trip is an
error — `s·s` rounds back to the tick's price exactly, the candidate is the tick itself, and the
backwards-compatibility check rejects it. -/
theorem roundTrip_below_rejected {t s : Int} (hlo : CL.MinCurrentTickV2 ≤ t) (hhi : t < CL.MinCurrentTick)
    (hs : tickToSqrtPrice t = some s) : calculateSqrtPriceToTick s = none := by
  obtain ⟨c1, c2, c3, c4, _⟩ := tick_consts
  have c5 := consts3
  exact Tick.roundTrip_lo_rejected (by omega) (by omega) hs

/-- so, on the whole tick range `[MinCurrentTickV2, MaxTick]`, the round trip succeeds **iff** `t ≥ MinCurrentTick`
(outside that range `tickToSqrtPrice` itself fails: `C14.tick_out_of_range_rejected`). -/
theorem roundTrip_iff {t : Int} (hlo : CL.MinCurrentTickV2 ≤ t) (hhi : t ≤ CL.MaxTick) :
    (tickToSqrtPrice t).bind calculateSqrtPriceToTick = some t ↔ CL.MinCurrentTick ≤ t := by
  constructor
  · intro h
    by_contra hc
    obtain ⟨s, hs⟩ := C14Mono.tickToSqrtPrice_total hlo hhi
    rw [hs, Option.bind_some, roundTrip_below_rejected hlo (by omega) hs] at h
    cases h
  · intro h; exact roundTrip_bind h hhi

/-! ## 4. totality on the range of sqrt prices -/

/-- **No spurious error.**  For EVERY sqrt price `s` with `√price(MinCurrentTick) ≤ s ≤ MaxSqrtPrice` the function
returns a tick of `[MinCurrentTick, MaxTick]`, and it is the tick whose bucket contains `s`. -/
theorem sqrtPriceToTick_total_extended {s : Int}
    (hlo : 999999949999998749999937499997 ≤ s) (hhi : s ≤ CL.MaxSqrtPriceBigDec) :
    ∃ t lo, calculateSqrtPriceToTick s = some t ∧ CL.MinCurrentTick ≤ t ∧ t ≤ CL.MaxTick ∧
      tickToSqrtPrice t = some lo ∧ lo ≤ s ∧ (∀ hi, tickToSqrtPrice (t + 1) = some hi → s < hi) := by
  obtain ⟨c1, c2, c3, c4, _⟩ := tick_consts
  have c5 := consts3
  obtain ⟨_, k1, _, k3, _, _, _, k7⟩ := range_constants
  rcases Int.lt_or_eq_of_le hhi with hlt | heq
  · -- the bucket that contains s
    let f : Int → Int := fun t => (tickToSqrtPrice t).getD 0
    have hf : ∀ t, -108000001 ≤ t → t ≤ 342000000 → tickToSqrtPrice t = some (f t) := by
      intro t a b
      obtain ⟨x, hx⟩ := C14Mono.tickToSqrtPrice_total (t := t) (by omega) (by omega)
      simp only [f, hx, Option.getD_some]
    have hflo : f (-108000001) ≤ s := by
      have : f (-108000001) = 999999949999998749999937499997 := by
        have := hf (-108000001) (by omega) (by omega)
        rw [← c5, k1] at this
        injection this with this; rw [c5] at this; exact this.symm
      omega
    have hfhi : s < f (-108000001 + (450000001 : Nat)) := by
      have e : (-108000001 : Int) + (450000001 : Nat) = 342000000 := by omega
      have : f 342000000 = CL.MaxSqrtPriceBigDec := by
        have := hf 342000000 (by omega) (by omega)
        rw [← c2, k3] at this
        injection this with this; rw [c2] at this; exact this.symm
      rw [e, this]; exact hlt
    obtain ⟨T, t1, t2, t3, t4⟩ := bucket_exists f s 450000001 (-108000001) hflo hfhi
    have h0 := hf T (by omega) (by omega)
    have h1 := hf (T + 1) (by omega) (by omega)
    refine ⟨T, f T, sqrtPriceToTick_complete (by omega) (by omega) h0 h1 t3 t4, by omega, by omega, h0, t3, ?_⟩
    intro hi hhi'
    rw [h1] at hhi'; injection hhi' with hhi'; omega
  · subst heq
    refine ⟨CL.MaxTick, CL.MaxSqrtPriceBigDec, sqrtPriceToTick_max, by omega, by omega, k3, Int.le_refl _, ?_⟩
    intro hi hhi'
    rw [(C14.tick_out_of_range_rejected (t := CL.MaxTick + 1) (Or.inr (by omega))).2] at hhi'
    cases hhi'

/-- the statement for the swap-reachable sqrt prices `[MinSqrtPrice, MaxSqrtPrice]`
(`MinSqrtPrice = √price(MinInitializedTick)`, `MaxSqrtPrice = √price(MaxTick)`: `range_constants`): the result is an
initializable tick. -/
theorem sqrtPriceToTick_total_in_range {s : Int}
    (hlo : CL.MinSqrtPriceBigDec ≤ s) (hhi : s ≤ CL.MaxSqrtPriceBigDec) :
    ∃ t, calculateSqrtPriceToTick s = some t ∧ CL.MinInitializedTick ≤ t ∧ t ≤ CL.MaxTick := by
  obtain ⟨c1, c2, c3, c4, _⟩ := tick_consts
  have c5 := consts3
  obtain ⟨_, k1, k2, k3, _, _, k6, k7⟩ := range_constants
  obtain ⟨t, lo, h, a, b, hl, hle, hnext⟩ := sqrtPriceToTick_total_extended (s := s) (by omega) hhi
  refine ⟨t, h, ?_, b⟩
  -- t = MinCurrentTick is impossible: its bucket ends at MinSqrtPrice
  by_contra hc
  have ht : t = CL.MinCurrentTick := by omega
  subst ht
  have e : CL.MinCurrentTick + 1 = CL.MinInitializedTick := by omega
  have := hnext _ (by rw [e]; exact k2)
  omega

/-- The lower end of totality concerns the candidate, not the result: one ulp below `√price(MinCurrentTick)` the
candidate is still `MinCurrentTick`, passes the backwards-compatibility check, and the correction then returns
`MinCurrentTick − 1` — a tick below `MinCurrentTick` (consistent with `C14.sqrtPriceToTick_bucket`; such sqrt prices
are below `MinSqrtPrice` and not reachable by swaps). -/
theorem below_range_witness :
    calculateSqrtPriceToTick (999999949999998749999937499997 - 1) = some (CL.MinCurrentTick - 1) ∧
    (BigDec.mul (999999949999998749999937499997 - 1) (999999949999998749999937499997 - 1)).bind calculatePriceToTick
      = some CL.MinCurrentTick := by decide +kernel

/-! ## 5. non-vacuity -/
example : (tickToSqrtPrice 0).bind calculateSqrtPriceToTick = some 0 := roundTrip_bind (by decide) (by decide)
example : tickToSqrtPrice 1 = some 1000000499999875001000000000000000000 ∧
    calculateSqrtPriceToTick 1000000499999875001000000000000000000 = some 1 := by decide +kernel
example : (tickToSqrtPrice (-1)).bind calculateSqrtPriceToTick = some (-1) := by decide +kernel
example : (tickToSqrtPrice CL.MaxTick).bind calculateSqrtPriceToTick = some CL.MaxTick := by decide +kernel
example : (tickToSqrtPrice (CL.MaxTick - 1)).bind calculateSqrtPriceToTick = some (CL.MaxTick - 1) := by decide +kernel
example : (tickToSqrtPrice CL.MinInitializedTick).bind calculateSqrtPriceToTick = some CL.MinInitializedTick := by
  decide +kernel
example : (tickToSqrtPrice CL.MinCurrentTick).bind calculateSqrtPriceToTick = some CL.MinCurrentTick := by
  decide +kernel
example : (tickToSqrtPrice (CL.MinCurrentTick - 1)).bind calculateSqrtPriceToTick = none ∧
    (tickToSqrtPrice CL.MinInitializedTickV2).bind calculateSqrtPriceToTick = none := by decide +kernel
-- decade boundaries (both sides) and a high spacing where the half-even `Quo` rounds at 36 decimals
example : (tickToSqrtPrice 9000000).bind calculateSqrtPriceToTick = some 9000000 ∧
    (tickToSqrtPrice 8999999).bind calculateSqrtPriceToTick = some 8999999 ∧
    (tickToSqrtPrice (-9000000)).bind calculateSqrtPriceToTick = some (-9000000) ∧
    (tickToSqrtPrice (-9000001)).bind calculateSqrtPriceToTick = some (-9000001) ∧
    (tickToSqrtPrice 290000017).bind calculateSqrtPriceToTick = some 290000017 := by decide +kernel
-- a sqrt price strictly inside a bucket and one ulp below a bucket edge (candidate one too high, corrected)
example : calculateSqrtPriceToTick (1000000499999875001000000000000000000 - 1) = some 0 ∧
    (BigDec.mul (1000000499999875001000000000000000000 - 1) (1000000499999875001000000000000000000 - 1)).bind
      calculatePriceToTick = some 1 := by decide +kernel
example : ∃ t, calculateSqrtPriceToTick (31415926535 * 10 ^ 30) = some t ∧ CL.MinInitializedTick ≤ t ∧ t ≤ CL.MaxTick :=
  sqrtPriceToTick_total_in_range (by decide +kernel) (by decide +kernel)

end OsmoVerif.Props.C14RoundTrip
