/-
C03, extension 2 — the SAME-AMOUNT comparison with the ideal curve, as theorems.

`Spec/CLCurve.lean` defines the exact piecewise constant-liquidity curve walked through a list of initialised ticks in
exact rational arithmetic: `idealOut zfo ahead K P x` = amount out for the amount in `x` (net of the spread factor) from
sqrt price `P` in a bucket of liquidity `K`, crossing the ticks `ahead` (each with its sqrt price and net liquidity).  For a
pool state `p` and direction `zfo` the walk starts at `p.sqrtPrice` with `p.liquidity` over the pool's own initialised ticks
ahead of `p.tick` (`poolIdealOut p zfo x`; units: amounts raw 18-decimal, 10^18 = one token).  The ideal amount IN for an
amount out `y` is the generalised inverse of the monotone `idealOut` (`x ≥ ideal_in(y)` iff `idealOut x ≥ y`); the exact-out
statements are given in that form.

Proved for every state satisfying the C07 invariant (every reachable state), every price limit, both directions:
* the walk is well-formed (`ideal_walk_wellformed`) and the ideal curve is monotone (`ideal_out_monotone`);
* the path a swap takes lies ON the ideal curve (`swap_path_on_ideal_curve`): Σ exact out of its steps = ideal out of
  Σ exact in of its steps, whatever the number of buckets crossed;
* EXACT-IN, upper side (`exact_in_out_le_ideal`): `amountOut ≤ idealOut((1 − spf)·amountIn) ≤ idealOut((1 − spf)·specified)`;
* EXACT-IN, lower side (`exact_in_out_ge_ideal_shifted`):
    `idealOut((1 − spf)·consumed − δ) − steps·outLossU − 1 token < amountOut`,   `δ = sumInSlack` ≈ one token per step
  (`in_slack_bounded`: each step's slack ≤ 1 token + 2 raw units + amountIn_step·10^-18 + remaining·10^-30 + liquidity·10^-24);
* EXACT-OUT, pool's side (`exact_out_out_le_ideal`): `amountOut ≤ idealOut((1 − spf)·amountIn)`, i.e. the amount charged, net of
  the spread factor, is at least the ideal amount in for what was paid out (`idealOut` is monotone: `x ≥ ideal_in(y)` iff
  `idealOut x ≥ y`).
* EXACT-OUT, swapper's side (`exact_out_in_le_ideal_shifted`): for `X = ((amountIn − 1)·10^18 − steps)/(1 + feeRate) −
  steps·inGainU` (the amount charged less one token, one raw unit per step, the spread charges at their rounded rate and one
  whole-token rounding per step) the ideal curve pays `idealOut X ≤ delivered + δ' < (amountOut + 1)·10^18 + δ'`,
  `δ' = sumOutSlack` (`out_slack_bounded`: each step ≤ 3 raw units + liquidity·10^-24): the amount charged is not more than the
  ideal amount in for (slightly more than) what was paid out, plus about one token per step and the spread charges.
-/
import OsmoVerif.Props.C03Limit
import OsmoVerif.Proofs.CLIdeal4

namespace OsmoVerif.Props.C03Ideal
open OsmoVerif.Num OsmoVerif.Spec OsmoVerif.Gen OsmoVerif.CL OsmoVerif.CLPool OsmoVerif.CLBook OsmoVerif.CLSolv
open OsmoVerif.CLLimit OsmoVerif.CLIdeal OsmoVerif.Spec.CLCurve

/-! ## 0. the ideal curve of a pool state -/

/-- the ideal amount out of pool state `p` in direction `zfo` for the amount in `x` (net of the spread factor). -/
def poolIdealOut (p : Pool) (zfo : Bool) (x : ℚ) : ℚ :=
  idealOut zfo (specAhead (ticksAhead zfo (tickList p) p.tick)) (Kof p.liquidity) p.sqrtPrice x

/-- the definitions of Spec/CLCurve.lean, restated (`K` = raw liquidity·10^36, prices raw 36-decimal, amounts raw 18-decimal). -/
theorem ideal_curve_defs (zfo : Bool) (K P s nk x : ℚ) (rest : List (ℚ × ℚ)) (liq : Int) (nt net : Int) (ahead : Ticks) :
    amt0 K P s = (s - P) * K / (P * s) ∧ amt1 K P s = (s - P) * K / 10 ^ 72 ∧
    capIn zfo K P s = (if zfo then amt0 K s P else amt1 K P s) ∧
    capOut zfo K P s = (if zfo then amt1 K s P else amt0 K P s) ∧
    nextP zfo K P x = (if K = 0 then P else if zfo then P * K / (x * P + K) else P + x * 10 ^ 72 / K) ∧
    outB zfo K P x = capOut zfo K P (nextP zfo K P x) ∧
    idealOut zfo [] K P x = (if x ≤ 0 then 0 else outB zfo K P x) ∧
    idealOut zfo ((s, nk) :: rest) K P x =
      (if x ≤ 0 then 0 else if x ≤ capIn zfo K P s then outB zfo K P x
        else capOut zfo K P s + idealOut zfo rest (if zfo then K - nk else K + nk) s (x - capIn zfo K P s)) ∧
    Kof liq = (liq : ℚ) * 10 ^ 36 ∧
    specAhead ((nt, net) :: ahead) = ((sqrtAt nt : ℚ), (net : ℚ) * 10 ^ 36) :: specAhead ahead :=
  ⟨rfl, rfl, rfl, rfl, rfl, rfl, idealOut_nil _ _ _ _, idealOut_cons _ _ _ _ _ _ _, rfl, rfl⟩

/-- on a state with positions the ideal walk is well-formed: non-negative liquidity in every bucket ahead, positive tick
prices ordered in swap direction, starting from the positive current price. -/
theorem ideal_walk_wellformed {p : Pool} (hinv : Inv p) (hne : p.positions ≠ []) (zfo : Bool) :
    WF zfo (specAhead (ticksAhead zfo (tickList p) p.tick)) (Kof p.liquidity) p.sqrtPrice :=
  WF_of_LA (ticksOK_of_core hinv.core) (ticksAhead zfo (tickList p) p.tick) ⟨p.sqrtPrice, p.tick, p.liquidity⟩
    (hinv.price.2 hne).1 (hinv.price.2 hne).2 ⟨hinv.active, rfl⟩

/-- a pool without positions has no liquidity and no tick: its ideal curve pays nothing. -/
theorem empty_pool_ideal {p : Pool} (hinv : Inv p) (hne : p.positions = []) (zfo : Bool) (x : ℚ) :
    poolIdealOut p zfo x = 0 := by
  have hticks : tickList p = [] := by
    unfold tickList
    cases ht : p.ticks with
    | nil => rfl
    | cons y ys =>
      obtain ⟨q, hq, _⟩ := (hinv.core.stored y.tick).mp ⟨y, by rw [ht]; exact List.mem_cons_self, rfl⟩
      rw [hne] at hq; cases hq
  have hah : ticksAhead zfo (tickList p) p.tick = [] := by rw [hticks]; cases zfo <;> rfl
  have hliq0 : p.liquidity = 0 := by
    have := hinv.active
    unfold InvActive at this
    rw [this, hne]; rfl
  unfold poolIdealOut
  rw [hah, hliq0]
  show idealOut zfo [] (Kof 0) _ x = 0
  rw [idealOut_nil]
  split
  · rfl
  · unfold outB Kof
    simp only [Int.cast_zero, zero_mul, capOut_zeroK]

/-- the ideal amount out is non-negative and monotone in the amount in. -/
theorem ideal_out_monotone {p : Pool} (hinv : Inv p) (zfo : Bool) {x y : ℚ} (hxy : x ≤ y) :
    0 ≤ poolIdealOut p zfo x ∧ poolIdealOut p zfo x ≤ poolIdealOut p zfo y := by
  by_cases hne : p.positions = []
  · rw [empty_pool_ideal hinv hne, empty_pool_ideal hinv hne]; exact ⟨le_refl _, le_refl _⟩
  · have hwf := ideal_walk_wellformed hinv hne zfo
    exact ⟨idealOut_nonneg _ _ _ _ hwf, idealOut_mono _ _ _ _ _ hwf hxy⟩

/-! ## 1. the path of a swap lies on the ideal curve -/

/-- Every swap (any kind, any price limit) is a run of steps whose exact amounts add up to a POINT OF THE IDEAL CURVE of
the pool state it started from: `Σ exact out = idealOut(Σ exact in)` — across any number of initialised ticks, empty gaps
included (`sumExactIn/Out`: exact curve amounts of each step's bucket between the step's actual start and end price). -/
theorem swap_path_on_ideal_curve {p : Pool} (hinv : Inv p) (hspf : SpfOK p.spf) {ogi zfo : Bool} {pl specified : Int}
    {r : SwapOut}
    (h : computeSwap ogi zfo p.spf pl ⟨p.sqrtPrice, p.tick, p.liquidity⟩ (tickList p) specified = some r) :
    ∃ (limit : Int) (tr : List StepRec) (st' : SwapSt),
      Run ogi zfo p.spf limit
        { remaining := specified * P18, calculated := 0, pool := ⟨p.sqrtPrice, p.tick, p.liquidity⟩, spreadTotal := 0,
          noProgress := 0 } tr st' ∧
      Path p.sqrtPrice tr r.pool.sqrtPrice ∧ tr.length = r.steps ∧
      sumExactOut zfo tr = poolIdealOut p zfo (sumExactIn zfo tr) ∧
      (r.amountOut : ℚ) * 10 ^ 18 ≤ sumExactOut zfo tr ∧ sumExactIn zfo tr ≤ (r.amountIn : ℚ) * 10 ^ 18 := by
  obtain ⟨limit, tr, st', _, hv, hrun, hlen, hp, _, _, c1, c2, _, _, hgood, _, hw⟩ := computeSwap_walk hinv hspf h
  obtain ⟨hs0, hs1⟩ := spfOK_lt hspf
  have hc := curve_of_run_goodL hs0 hs1 (fun hpos => limit_pos_of_valid hpos hv) hrun hgood c1 c2
  exact ⟨limit, tr, st', hrun, by rw [hp]; exact hrun.path, hlen, hw, hc.1, hc.2⟩

/-! ## 2. exact-in: never more than the ideal for the same amount -/

/-- EXACT-IN, UPPER SIDE, full (any number of buckets, any price limit, partial fills included): the amount paid out is at
most the ideal amount out for the amount actually charged, net of the exact spread factor — hence for the specified amount:
  `amountOut·10^18 ≤ idealOut(amountIn·(10^18 − spf)) ≤ idealOut(specified·(10^18 − spf))`
(`spf` raw 18-decimal: `amountIn·(10^18 − spf)` is `(1 − spread factor)·amountIn` in raw 18-decimal units). -/
theorem exact_in_out_le_ideal {p : Pool} (hinv : Inv p) (hspf : SpfOK p.spf) {zfo : Bool} {pl specified : Int}
    {r : SwapOut}
    (h : computeSwap true zfo p.spf pl ⟨p.sqrtPrice, p.tick, p.liquidity⟩ (tickList p) specified = some r) :
    (r.amountOut : ℚ) * 10 ^ 18 ≤ poolIdealOut p zfo ((r.amountIn : ℚ) * (10 ^ 18 - p.spf)) ∧
    poolIdealOut p zfo ((r.amountIn : ℚ) * (10 ^ 18 - p.spf)) ≤ poolIdealOut p zfo ((specified : ℚ) * (10 ^ 18 - p.spf)) := by
  obtain ⟨limit, tr, st', _, hv, hrun, hlen, hp, _, _, c1, c2, _, _, hgood, _, hw⟩ := computeSwap_walk hinv hspf h
  obtain ⟨hs0, hs1⟩ := spfOK_lt hspf
  have hc := curve_of_run_goodL hs0 hs1 (fun hpos => limit_pos_of_valid hpos hv) hrun hgood c1 c2
  have hnet := run_exact_le_net hs0 hs1 hrun hgood
  have qs1 : (0 : ℚ) < 10 ^ 18 - p.spf := by
    have : ((p.spf : Int) : ℚ) < ((P18 : Int) : ℚ) := Int.cast_lt.mpr hs1
    rw [P18_cast] at this; linarith
  have hceil : ((sumIn true tr + sumCharge tr : Int) : ℚ) ≤ (r.amountIn : ℚ) * 10 ^ 18 := by
    have : ((sumIn true tr + sumCharge tr : Int) : ℚ) ≤ ((r.amountIn * P18 : Int) : ℚ) := Int.cast_le.mpr c1.2
    rw [Int.cast_mul, P18_cast] at this; exact this
  have hX : sumExactIn zfo tr ≤ (r.amountIn : ℚ) * (10 ^ 18 - p.spf) := by
    have h1 : sumExactIn zfo tr * 10 ^ 18 ≤ (r.amountIn : ℚ) * 10 ^ 18 * (10 ^ 18 - p.spf) :=
      le_trans hnet (mul_le_mul_of_nonneg_right hceil (le_of_lt qs1))
    have h2 : sumExactIn zfo tr * 10 ^ 18 ≤ (r.amountIn : ℚ) * (10 ^ 18 - p.spf) * 10 ^ 18 := by linarith
    exact le_of_mul_le_mul_right h2 (by positivity)
  have hb := C03.swap_specified_side_bounded h
  simp only [↓reduceIte] at hb
  have hspec : (r.amountIn : ℚ) * (10 ^ 18 - p.spf) ≤ (specified : ℚ) * (10 ^ 18 - p.spf) :=
    mul_le_mul_of_nonneg_right (by exact_mod_cast hb) (le_of_lt qs1)
  have hw' : sumExactOut zfo tr = poolIdealOut p zfo (sumExactIn zfo tr) := hw
  refine ⟨?_, (ideal_out_monotone hinv zfo hspec).2⟩
  calc (r.amountOut : ℚ) * 10 ^ 18 ≤ sumExactOut zfo tr := hc.1
    _ = poolIdealOut p zfo (sumExactIn zfo tr) := hw'
    _ ≤ _ := (ideal_out_monotone hinv zfo hX).2

/-- for every reachable state. -/
theorem exact_in_out_le_ideal_reachable {s f : Int} (hs : 0 < s) (hf : SpfOK f) (ops : List Op) {zfo : Bool}
    {pl specified : Int} {r : SwapOut}
    (h : computeSwap true zfo (run (initPool s f) ops).spf pl
      ⟨(run (initPool s f) ops).sqrtPrice, (run (initPool s f) ops).tick, (run (initPool s f) ops).liquidity⟩
      (tickList (run (initPool s f) ops)) specified = some r) :
    (r.amountOut : ℚ) * 10 ^ 18 ≤
      poolIdealOut (run (initPool s f) ops) zfo ((specified : ℚ) * (10 ^ 18 - (run (initPool s f) ops).spf)) := by
  obtain ⟨hinv, hspf⟩ := C03.reachable_state_inv hs hf ops
  obtain ⟨a, b⟩ := exact_in_out_le_ideal hinv hspf h
  exact le_trans a b

/-- … and for a swap executed through the pool's own operation (`SwapExactAmountIn`). -/
theorem executed_exact_in_out_le_ideal {p p' : Pool} (hinv : Inv p) (hspf : SpfOK p.spf) {zfo : Bool}
    {specified ain aout fee : Int} (h : CLPool.swap p true zfo specified = some (p', ain, aout, fee)) :
    (aout : ℚ) * 10 ^ 18 ≤ poolIdealOut p zfo ((ain : ℚ) * (10 ^ 18 - p.spf)) := by
  obtain ⟨r, _, hex, e1, e2, _⟩ := swap_bal h
  have := (exact_in_out_le_ideal hinv hspf (execSwap_spec hex)).1
  rw [e1, e2]; exact this

/-! ## 3. exact-in: not much less than the ideal for the same amount -/

/-- the per-step slack `inSlack` (Proofs/CLIdeal3.lean), restated. -/
theorem in_slack_def (zfo : Bool) (spf : Int) (e : StepRec) (liq sp next amt : Int) (tr : List StepRec) :
    inSlack zfo spf e =
      (if e.target ≠ e.res.sqrtPriceNext ∧ 0 < spf then
        (if zfo then priceSlack0 e.st.pool.liquidity e.st.pool.sqrtPrice e.res.sqrtPriceNext (e.st.remaining * (P18 - spf))
          else (e.st.pool.liquidity : ℚ) / 10 ^ 36)
      else inGain zfo e.res.sqrtPriceNext e.st.pool.sqrtPrice + (e.res.amountSpecified : ℚ) / 10 ^ 18 + 1) ∧
    priceSlack0 liq sp next amt =
      10 ^ 36 * (10 ^ 36 + ((amt : ℚ) * sp / 10 ^ 36 + (liq : ℚ) * 10 ^ 18) + next) / ((next : ℚ) * sp) / 10 ^ 18 ∧
    sumInSlack zfo spf (e :: tr) = inSlack zfo spf e + sumInSlack zfo spf tr ∧ sumInSlack zfo spf [] = 0 :=
  ⟨rfl, rfl, rfl, rfl⟩

/-- EXACT-IN, LOWER SIDE, full (any number of buckets, any price limit).  With `consumed = specified·10^18 − remaining` (raw
18-decimal: what the swap took of the specified amount, spread charges included), `δ = sumInSlack zfo spf tr` and
`steps·outLossU + 10^18` the output-side rounding of `C03.swap_shortfall_bounded`:
  `idealOut(consumed·(1 − spf) − δ) − steps·outLossU − 10^18 < amountOut·10^18`
and, since `consumed > (amountIn − 1)·10^18`, the same with `(amountIn − 1)·(10^18 − spf)` in place of `consumed·(1 − spf)`.
Together with `exact_in_out_le_ideal`:  `idealOut(net in − δ) − ε < amountOut ≤ idealOut(net in)`. -/
theorem exact_in_out_ge_ideal_shifted {p : Pool} (hinv : Inv p) (hspf : SpfOK p.spf) {zfo : Bool} {pl specified : Int}
    {r : SwapOut}
    (h : computeSwap true zfo p.spf pl ⟨p.sqrtPrice, p.tick, p.liquidity⟩ (tickList p) specified = some r) :
    ∃ (limit : Int) (tr : List StepRec) (st' : SwapSt),
      Run true zfo p.spf limit
        { remaining := specified * P18, calculated := 0, pool := ⟨p.sqrtPrice, p.tick, p.liquidity⟩, spreadTotal := 0,
          noProgress := 0 } tr st' ∧
      tr.length = r.steps ∧ 0 ≤ st'.remaining ∧
      poolIdealOut p zfo (((specified * P18 - st'.remaining : Int) : ℚ) * (10 ^ 18 - p.spf) / 10 ^ 18 - sumInSlack zfo p.spf tr) -
          r.steps * outLossU zfo (pathFloor zfo p.sqrtPrice) - 10 ^ 18 < (r.amountOut : ℚ) * 10 ^ 18 ∧
      poolIdealOut p zfo (((r.amountIn : ℚ) - 1) * (10 ^ 18 - p.spf) - sumInSlack zfo p.spf tr) -
          r.steps * outLossU zfo (pathFloor zfo p.sqrtPrice) - 10 ^ 18 < (r.amountOut : ℚ) * 10 ^ 18 := by
  obtain ⟨limit, tr, st', _, hv, hrun, hlen, hp, hrem0, _, c1, c2, hsum, _, hgood, _, hw⟩ := computeSwap_walk hinv hspf h
  obtain ⟨hs0, hs1⟩ := spfOK_lt hspf
  have hr := (rounding_of_run_goodL hs0 hs1 hrun hgood hlen c1 c2).2.1 rfl
  simp only at hr
  have hnet := run_net_le_exact hs0 hs1 hrun hgood
  simp only [↓reduceIte] at hsum
  rw [hsum] at hnet c1
  have qs1 : (0 : ℚ) < 10 ^ 18 - p.spf := by
    have : ((p.spf : Int) : ℚ) < ((P18 : Int) : ℚ) := Int.cast_lt.mpr hs1
    rw [P18_cast] at this; linarith
  have hw' : sumExactOut zfo tr = poolIdealOut p zfo (sumExactIn zfo tr) := hw
  have hX : ((specified * P18 - st'.remaining : Int) : ℚ) * (10 ^ 18 - p.spf) / 10 ^ 18 - sumInSlack zfo p.spf tr ≤
      sumExactIn zfo tr := by
    rw [sub_le_iff_le_add, div_le_iff₀ (by positivity)]
    exact hnet
  have hcons : (((r.amountIn : ℚ) - 1) * 10 ^ 18) < ((specified * P18 - st'.remaining : Int) : ℚ) := by
    have : (((r.amountIn - 1) * P18 : Int) : ℚ) < ((specified * P18 - st'.remaining : Int) : ℚ) := Int.cast_lt.mpr c1.1
    push_cast at this ⊢; rw [P18_cast] at this; exact this
  have hX2 : ((r.amountIn : ℚ) - 1) * (10 ^ 18 - p.spf) - sumInSlack zfo p.spf tr ≤
      ((specified * P18 - st'.remaining : Int) : ℚ) * (10 ^ 18 - p.spf) / 10 ^ 18 - sumInSlack zfo p.spf tr := by
    have : ((r.amountIn : ℚ) - 1) * (10 ^ 18 - p.spf) ≤
        ((specified * P18 - st'.remaining : Int) : ℚ) * (10 ^ 18 - p.spf) / 10 ^ 18 := by
      rw [le_div_iff₀ (by positivity)]
      have := mul_le_mul_of_nonneg_right (le_of_lt hcons) (le_of_lt qs1)
      linarith
    linarith
  have m1 := (ideal_out_monotone hinv zfo hX).2
  have m2 := (ideal_out_monotone hinv zfo hX2).2
  rw [hw'] at hr
  refine ⟨limit, tr, st', hrun, hlen, hrem0, ?_, ?_⟩
  · exact lt_of_le_of_lt (sub_le_sub_right (sub_le_sub_right m1 _) _) hr
  · exact lt_of_le_of_lt (sub_le_sub_right (sub_le_sub_right (le_trans m2 m1) _) _) hr

/-- the slack in numbers.  When the sqrt prices of the path are ≥ 10^-6 (always going down; going up when the pool's is),
every step's slack is at most one token + 2 raw units + its own amount in·10^-18 + the amount then remaining·10^-30 + the
bucket's liquidity·10^-24 (all raw 18-decimal; the last two terms are the rounding of the next sqrt price in the step that
does not reach its target). -/
theorem in_slack_bounded {p : Pool} (hinv : Inv p) (hspf : SpfOK p.spf) {zfo : Bool} {pl specified : Int} {r : SwapOut}
    (hfloor : zfo = true ∨ 1000000000000000000000000000000 ≤ p.sqrtPrice)
    (h : computeSwap true zfo p.spf pl ⟨p.sqrtPrice, p.tick, p.liquidity⟩ (tickList p) specified = some r) :
    ∃ (limit : Int) (tr : List StepRec) (st' : SwapSt),
      Run true zfo p.spf limit
        { remaining := specified * P18, calculated := 0, pool := ⟨p.sqrtPrice, p.tick, p.liquidity⟩, spreadTotal := 0,
          noProgress := 0 } tr st' ∧
      tr.length = r.steps ∧
      ∀ e ∈ tr, inSlack zfo p.spf e ≤ 10 ^ 18 + 2 + (e.res.amountSpecified : ℚ) / 10 ^ 18 +
        (e.st.remaining : ℚ) / 10 ^ 30 + (e.st.pool.liquidity : ℚ) / 10 ^ 24 := by
  obtain ⟨limit, tr, st', _, hv, hrun, hlen, _, _, _, _, _, _, _, hgood, _, _⟩ := computeSwap_walk hinv hspf h
  obtain ⟨hs0, hs1⟩ := spfOK_lt hspf
  refine ⟨limit, tr, st', hrun, hlen, fun e he => ?_⟩
  obtain ⟨⟨⟨hliq, _⟩, hsp, hn, hdirs⟩, _, _⟩ := hgood e he
  obtain ⟨hrem, _, hstep⟩ := hrun.mem e he
  have hfl := (run_floorL hrun hgood).2 e he
  have hm : 1000000000000000000000000000000 ≤ pathFloor zfo p.sqrtPrice := by
    unfold pathFloor
    rcases hfloor with rfl | hge
    · simp
    · split
      · exact Int.le_refl _
      · exact hge
  simp only at hfl
  have ht : 0 < e.target := by
    cases zfo
    · simp only [Bool.false_eq_true, ↓reduceIte] at hdirs; omega
    · simp only [↓reduceIte] at hdirs; omega
  unfold stepOf at hstep
  simp only [↓reduceIte] at hstep
  obtain ⟨_, _, ⟨k, k0, ek⟩, _⟩ := stepOutGivenIn_curve hliq hsp ht hs0 hs1 (by omega) hstep
  have a0 : 0 ≤ e.res.amountSpecified := by rw [ek]; exact Int.mul_nonneg k0 P18_nonneg
  exact inSlack_le hs0 hs1 (by omega) (by omega) hliq (by omega) a0

/-! ## 4. exact-out: the amount charged covers the ideal amount in for what was paid out -/

/-- EXACT-OUT, the pool's side, full: `amountOut·10^18 ≤ idealOut(amountIn·(10^18 − spf))` — the ideal curve pays at least the
amount paid out for the amount charged net of the exact spread factor; equivalently (the ideal amount out is monotone in the
amount in) the amount charged net of the spread factor is at least the ideal amount in for the amount paid out. -/
theorem exact_out_out_le_ideal {p : Pool} (hinv : Inv p) (hspf : SpfOK p.spf) {zfo : Bool} {pl specified : Int}
    {r : SwapOut}
    (h : computeSwap false zfo p.spf pl ⟨p.sqrtPrice, p.tick, p.liquidity⟩ (tickList p) specified = some r) :
    (r.amountOut : ℚ) * 10 ^ 18 ≤ poolIdealOut p zfo ((r.amountIn : ℚ) * (10 ^ 18 - p.spf)) := by
  obtain ⟨limit, tr, st', _, hv, hrun, hlen, hp, _, _, c1, c2, _, _, hgood, _, hw⟩ := computeSwap_walk hinv hspf h
  obtain ⟨hs0, hs1⟩ := spfOK_lt hspf
  have hc := curve_of_run_goodL hs0 hs1 (fun hpos => limit_pos_of_valid hpos hv) hrun hgood c1 c2
  have hnet := run_exact_le_net_out hs0 hs1 hrun hgood
  have qs1 : (0 : ℚ) < 10 ^ 18 - p.spf := by
    have : ((p.spf : Int) : ℚ) < ((P18 : Int) : ℚ) := Int.cast_lt.mpr hs1
    rw [P18_cast] at this; linarith
  have hceil : ((sumIn false tr + sumCharge tr : Int) : ℚ) ≤ (r.amountIn : ℚ) * 10 ^ 18 := by
    have : ((sumIn false tr + sumCharge tr : Int) : ℚ) ≤ ((r.amountIn * P18 : Int) : ℚ) := Int.cast_le.mpr c1.2
    rw [Int.cast_mul, P18_cast] at this; exact this
  have hX : sumExactIn zfo tr ≤ (r.amountIn : ℚ) * (10 ^ 18 - p.spf) := by
    have h1 : sumExactIn zfo tr * 10 ^ 18 ≤ (r.amountIn : ℚ) * 10 ^ 18 * (10 ^ 18 - p.spf) :=
      le_trans hnet (mul_le_mul_of_nonneg_right hceil (le_of_lt qs1))
    have h2 : sumExactIn zfo tr * 10 ^ 18 ≤ (r.amountIn : ℚ) * (10 ^ 18 - p.spf) * 10 ^ 18 := by linarith
    exact le_of_mul_le_mul_right h2 (by positivity)
  have hw' : sumExactOut zfo tr = poolIdealOut p zfo (sumExactIn zfo tr) := hw
  calc (r.amountOut : ℚ) * 10 ^ 18 ≤ sumExactOut zfo tr := hc.1
    _ = poolIdealOut p zfo (sumExactIn zfo tr) := hw'
    _ ≤ _ := (ideal_out_monotone hinv zfo hX).2

/-- … for a swap executed through the pool's own operation (`SwapExactAmountOut`). -/
theorem executed_exact_out_le_ideal {p p' : Pool} (hinv : Inv p) (hspf : SpfOK p.spf) {zfo : Bool}
    {specified ain aout fee : Int} (h : CLPool.swap p false zfo specified = some (p', ain, aout, fee)) :
    (aout : ℚ) * 10 ^ 18 ≤ poolIdealOut p zfo ((ain : ℚ) * (10 ^ 18 - p.spf)) := by
  obtain ⟨r, _, hex, e1, e2, _⟩ := swap_bal h
  have := exact_out_out_le_ideal hinv hspf (execSwap_spec hex)
  rw [e1, e2]; exact this

/-! ## 5. exact-out: not much more than the ideal amount in for the same amount out -/

/-- the per-step slack `outSlack` (Proofs/CLIdeal4.lean), restated. -/
theorem out_slack_def (zfo : Bool) (e : StepRec) (liq sp next : Int) (tr : List StepRec) :
    outSlack zfo e = outLoss zfo e.res.sqrtPriceNext e.st.pool.sqrtPrice +
      (if zfo then (e.st.pool.liquidity : ℚ) / 10 ^ 36
        else priceSlackOut0 e.st.pool.liquidity e.st.pool.sqrtPrice e.res.sqrtPriceNext) ∧
    priceSlackOut0 liq sp next = 10 ^ 36 * (10 ^ 36 + (liq : ℚ) * 10 ^ 18 + next) / ((sp : ℚ) * next) / 10 ^ 18 ∧
    sumOutSlack zfo (e :: tr) = outSlack zfo e + sumOutSlack zfo tr ∧ sumOutSlack zfo [] = 0 :=
  ⟨rfl, rfl, rfl, rfl⟩

/-- EXACT-OUT, SWAPPER'S SIDE, full (any number of buckets, any price limit).  `delivered = specified·10^18 − remaining`
(raw 18-decimal, `< (amountOut + 1)·10^18`).  For the amount charged reduced by its roundings,
  `X = ((amountIn − 1)·10^18 − steps)/(1 + feeRate spf) − steps·inGainU`
(`feeRate spf = spf/(1−spf) + 10^-18`, `inGainU` = one token (+ 10^54/m² for token0)), the ideal curve pays
  `idealOut X ≤ delivered + sumOutSlack < (amountOut + 1)·10^18 + sumOutSlack`.
Since `idealOut` is monotone this says: `X` is at most the ideal amount in for `delivered + sumOutSlack`. -/
theorem exact_out_in_le_ideal_shifted {p : Pool} (hinv : Inv p) (hspf : SpfOK p.spf) {zfo : Bool} {pl specified : Int}
    {r : SwapOut}
    (h : computeSwap false zfo p.spf pl ⟨p.sqrtPrice, p.tick, p.liquidity⟩ (tickList p) specified = some r) :
    ∃ (limit : Int) (tr : List StepRec) (st' : SwapSt),
      Run false zfo p.spf limit
        { remaining := specified * P18, calculated := 0, pool := ⟨p.sqrtPrice, p.tick, p.liquidity⟩, spreadTotal := 0,
          noProgress := 0 } tr st' ∧
      tr.length = r.steps ∧ 0 ≤ st'.remaining ∧
      poolIdealOut p zfo ((((r.amountIn : ℚ) - 1) * 10 ^ 18 - r.steps) / (1 + feeRate p.spf) -
          r.steps * inGainU zfo (pathFloor zfo p.sqrtPrice)) ≤
        ((specified * P18 - st'.remaining : Int) : ℚ) + sumOutSlack zfo tr ∧
      ((specified * P18 - st'.remaining : Int) : ℚ) < ((r.amountOut : ℚ) + 1) * 10 ^ 18 := by
  obtain ⟨limit, tr, st', _, hv, hrun, hlen, hp, hrem0, _, c1, c2, hsum, _, hgood, _, hw⟩ := computeSwap_walk hinv hspf h
  obtain ⟨hs0, hs1⟩ := spfOK_lt hspf
  have hr := ((rounding_of_run_goodL hs0 hs1 hrun hgood hlen c1 c2).2.2 rfl).2
  simp only at hr
  have hfr := feeRate_nonneg hs0 hs1
  have hX : (((r.amountIn : ℚ) - 1) * 10 ^ 18 - r.steps) / (1 + feeRate p.spf) -
      r.steps * inGainU zfo (pathFloor zfo p.sqrtPrice) ≤ sumExactIn zfo tr := by
    rw [sub_le_iff_le_add, div_le_iff₀ (by linarith)]
    linarith
  have m1 := (ideal_out_monotone hinv zfo hX).2
  have hw' : sumExactOut zfo tr = poolIdealOut p zfo (sumExactIn zfo tr) := hw
  have hout := run_exact_out_lt hs0 hs1 hrun hgood
  simp only [Bool.false_eq_true, ↓reduceIte] at hsum
  rw [hsum] at hout c2
  refine ⟨limit, tr, st', hrun, hlen, hrem0, ?_, ?_⟩
  · rw [← hw'] at m1
    exact le_trans m1 hout
  · have hlt : specified * P18 - st'.remaining < (r.amountOut + 1) * P18 := by
      rcases Int.lt_or_le (specified * P18 - st'.remaining) 0 with hneg | hnn
      · have := (c2.2 hneg).2
        rw [Int.add_mul]; have := P18_pos; omega
      · exact (c2.1 hnn).2
    have : ((specified * P18 - st'.remaining : Int) : ℚ) < (((r.amountOut + 1) * P18 : Int) : ℚ) := Int.cast_lt.mpr hlt
    rw [Int.cast_mul, P18_cast] at this
    push_cast at this ⊢
    exact this

/-- the slack in numbers: at sqrt prices ≥ 10^-6 every step's `outSlack` is at most 3 raw units + the bucket's liquidity·10^-24. -/
theorem out_slack_bounded {p : Pool} (hinv : Inv p) (hspf : SpfOK p.spf) {zfo : Bool} {pl specified : Int} {r : SwapOut}
    (hfloor : zfo = true ∨ 1000000000000000000000000000000 ≤ p.sqrtPrice)
    (h : computeSwap false zfo p.spf pl ⟨p.sqrtPrice, p.tick, p.liquidity⟩ (tickList p) specified = some r) :
    ∃ (limit : Int) (tr : List StepRec) (st' : SwapSt),
      Run false zfo p.spf limit
        { remaining := specified * P18, calculated := 0, pool := ⟨p.sqrtPrice, p.tick, p.liquidity⟩, spreadTotal := 0,
          noProgress := 0 } tr st' ∧
      tr.length = r.steps ∧ ∀ e ∈ tr, outSlack zfo e ≤ 3 + (e.st.pool.liquidity : ℚ) / 10 ^ 24 := by
  obtain ⟨limit, tr, st', _, hv, hrun, hlen, _, _, _, _, _, _, _, hgood, _, _⟩ := computeSwap_walk hinv hspf h
  refine ⟨limit, tr, st', hrun, hlen, fun e he => ?_⟩
  obtain ⟨⟨⟨hliq, _⟩, _, _, _⟩, _, _⟩ := hgood e he
  have hfl := (run_floorL hrun hgood).2 e he
  have hm : 1000000000000000000000000000000 ≤ pathFloor zfo p.sqrtPrice := by
    unfold pathFloor
    rcases hfloor with rfl | hge
    · simp
    · split
      · exact Int.le_refl _
      · exact hge
  simp only at hfl
  exact outSlack_le (by omega) (by omega) hliq

/-! ## 6. non-vacuity -/

section Examples
open OsmoVerif.CLBook

/-- The reachable state of C03 §8 (alice [−1000, 1000), bob [0, 2000), price 1, spread factor 0.1 %): its ideal walk going up
has the two ticks 1000 and 2000 ahead, and is well-formed. -/
example :
    let p := run demoInit (demoOps.take 2)
    ticksAhead false (tickList p) p.tick =
      [(1000, -2001499875062460257502969826), (2000, -500749875124843813046785138)] ∧
    ticksAhead true (tickList p) p.tick =
      [(0, 500749875124843813046785138), (-1000, 2001499875062460257502969826)] := by
  decide +kernel

/-- the tick-crossing one-for-zero exact-in swap of C03 §8 (1 500 000 in, 1 497 504 out, two steps) against the ideal curve
for the same amount: upper side `exact_in_out_le_ideal`, lower side `exact_in_out_ge_ideal_shifted`, and the path lies on
the ideal curve. -/
example :
    (∃ (tr : List StepRec), tr.length = 2 ∧
      sumExactOut false tr = poolIdealOut (run demoInit (demoOps.take 2)) false (sumExactIn false tr)) ∧
    ((1497504 : Int) : ℚ) * 10 ^ 18 ≤
      poolIdealOut (run demoInit (demoOps.take 2)) false (((1500000 : Int) : ℚ) * (10 ^ 18 - (1000000000000000 : Int))) ∧
    (∃ (tr : List StepRec), tr.length = 2 ∧
      poolIdealOut (run demoInit (demoOps.take 2)) false
          ((((1500000 : Int) : ℚ) - 1) * (10 ^ 18 - (1000000000000000 : Int)) - sumInSlack false 1000000000000000 tr) -
        ((2 : Nat) : ℚ) * outLossU false (pathFloor false (run demoInit (demoOps.take 2)).sqrtPrice) - 10 ^ 18 <
        ((1497504 : Int) : ℚ) * 10 ^ 18) := by
  have h : computeSwap true false (run (initPool 100 1000000000000000) (demoOps.take 2)).spf 0
      ⟨(run (initPool 100 1000000000000000) (demoOps.take 2)).sqrtPrice,
        (run (initPool 100 1000000000000000) (demoOps.take 2)).tick,
        (run (initPool 100 1000000000000000) (demoOps.take 2)).liquidity⟩
      (tickList (run (initPool 100 1000000000000000) (demoOps.take 2))) 1500000 =
      some ⟨1500000, 1497504, 1500000000000000000000,
        ⟨1000994507237732597832529718031126170, 1990, 500749875124843813046785138⟩, 2, 1⟩ := by decide +kernel
  obtain ⟨hinv, hspf⟩ := C03.reachable_state_inv (s := 100) (f := 1000000000000000) (by decide) ⟨by decide, by decide⟩
    (demoOps.take 2)
  have hsf : (run (initPool 100 1000000000000000) (demoOps.take 2)).spf = 1000000000000000 := by decide +kernel
  obtain ⟨_, tr1, _, _, _, hlen1, hw1, _, _⟩ := swap_path_on_ideal_curve hinv hspf h
  have up := (exact_in_out_le_ideal hinv hspf h).1
  obtain ⟨_, tr2, _, _, hlen2, _, _, lo⟩ := exact_in_out_ge_ideal_shifted hinv hspf h
  rw [hsf] at up lo
  exact ⟨⟨tr1, hlen1, hw1⟩, up, ⟨tr2, hlen2, lo⟩⟩

/-- the exact-out swap of C03 §8 (1 400 000 out for 1 402 224 in): the ideal curve pays at least 1 400 000 for the amount
charged net of the spread factor. -/
example : ((1400000 : Int) : ℚ) * 10 ^ 18 ≤
    poolIdealOut (run demoInit (demoOps.take 2)) false (((1402224 : Int) : ℚ) * (10 ^ 18 - (1000000000000000 : Int))) := by
  have h : computeSwap false false (run (initPool 100 1000000000000000) (demoOps.take 2)).spf (execPriceLimit false)
      ⟨(run (initPool 100 1000000000000000) (demoOps.take 2)).sqrtPrice,
        (run (initPool 100 1000000000000000) (demoOps.take 2)).tick,
        (run (initPool 100 1000000000000000) (demoOps.take 2)).liquidity⟩
      (tickList (run (initPool 100 1000000000000000) (demoOps.take 2))) 1400000 =
      some ⟨1402224, 1400000, 1402223223223224622642,
        ⟨1000799440591246664722928910808755021, 1599, 500749875124843813046785138⟩, 2, 1⟩ := by decide +kernel
  obtain ⟨hinv, hspf⟩ := C03.reachable_state_inv (s := 100) (f := 1000000000000000) (by decide) ⟨by decide, by decide⟩
    (demoOps.take 2)
  have hsf : (run (initPool 100 1000000000000000) (demoOps.take 2)).spf = 1000000000000000 := by decide +kernel
  have := exact_out_out_le_ideal hinv hspf h
  rw [hsf] at this
  exact this

end Examples

end OsmoVerif.Props.C03Ideal
