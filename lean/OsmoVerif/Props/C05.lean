/-
C05 — router: multi-hop equals composition, estimates equal execution, limits hold.

Theorems over `OsmoVerif.Router` (the x/poolmanager router with the pool modules and the bank as ARBITRARY
functions over an arbitrary state; tied to the Go code by the `router` engine through the real msg server /
gRPC query keeper).  Every statement quantifies over all routes, all pool functions, all fee configurations.
Sub-claims the code violates are refuted on concrete witnesses (`…_witness`), see the engine's known findings.
-/
import OsmoVerif.Proofs.RouterFee
import OsmoVerif.Proofs.RouterIn
import OsmoVerif.Proofs.RouterOut

namespace OsmoVerif.Props.C05
open OsmoVerif.Router OsmoVerif.Num OsmoVerif.Spec

variable {σ : Type}

/-! ## multi-hop = composition -/

/-- `RouteExactAmountIn` over ANY route and ANY pools is exactly the hops performed one after another through
the single-pool `SwapExactAmountIn` (taker fee on each hop's input, the whole output of a hop fed into the
next, inner hops with minimum 1, the caller's minimum on the last hop only), ledger included. -/
theorem route_in_eq_composition (P : Pools σ) (c : FeeCfg) (sender : Addr) (route : List StepIn) (dIn : Denom)
    (amt minOut : Int) (s : σ) (hv : validRouteIn route = true) :
    routeExactAmountIn P c sender route dIn amt minOut s = composeIn P c sender minOut route dIn amt s := by
  unfold routeExactAmountIn
  rw [if_pos hv, routeInLoop_eq P c sender route.length minOut route 0 dIn amt [] s (by simp), withAcc_nil]

theorem route_in_invalid (P : Pools σ) (c : FeeCfg) (sender : Addr) (route : List StepIn) (dIn : Denom)
    (amt minOut : Int) (s : σ) (hv : validRouteIn route = false) :
    routeExactAmountIn P c sender route dIn amt minOut s = .error .invalid := by
  unfold routeExactAmountIn
  simp [hv]

theorem validRouteOut_ne_nil {route : List StepOut} (hv : validRouteOut route = true) : route ≠ [] := by
  intro h; subst h; simp [validRouteOut] at hv

/-- `RouteExactAmountOut` over ANY route and ANY pools: the backward estimate pass (`expectedIns`, structural)
on the state before the swap, then the hops performed one after another IN ROUTE ORDER through the single-pool
exact-out swap, hop `i` buying what hop `i+1` was estimated to need with its own estimate as maximum (the
caller's maximum on the first hop); the result is the first hop's input plus its taker fee. -/
theorem route_out_eq_composition (P : Pools σ) (c : FeeCfg) (sender : Addr) (route : List StepOut) (maxIn : Int)
    (dOut : Denom) (out : Int) (s : σ) (hv : validRouteOut route = true) :
    routeExactAmountOut P c sender route maxIn dOut out s =
      match expectedIns P c route dOut out s with
      | .error e => .error e
      | .ok (ins, _) => finishOut 0 0 [] (composeOut P c sender (route.zip (ins.set 0 maxIn)) dOut out s) := by
  unfold routeExactAmountOut
  rw [if_pos hv, createMultihop_eq]
  cases he : expectedIns P c route dOut out s with
  | error e => simp [fstOf]
  | ok v =>
    obtain ⟨ins, need⟩ := v
    have hl := expectedIns_length P c route dOut out s ins need he
    have hne := validRouteOut_ne_nil hv
    have hpos : ¬ (ins.length = 0) := by
      rw [hl]; intro h0; exact hne (List.length_eq_zero_iff.mp h0)
    simp only [fstOf]
    rw [if_neg hpos]
    have := routeOutLoop_eq P c sender route (ins.set 0 maxIn) dOut out (by simp [hl]) route.length 0 0 [] s (by simp)
    rw [this, List.drop_zero]

/-! ## split routes -/

/-- a split exact-in route that succeeds produced exactly the legs executed one after another (each a routed
swap with minimum 0 on the state the previous leg left): the result is the SUM of the legs' outputs, the final
state is the last leg's, and the total passed the caller's minimum. -/
theorem split_eq_sum (P : Pools σ) (c : FeeCfg) (sender : Addr) (legs : List LegIn) (dIn : Denom) (minOut : Int)
    (s s' : σ) (total : Int) (recs : List HopRec)
    (h : splitRouteExactAmountIn P c sender legs dIn minOut s = .ok ((total, recs), s')) :
    ∃ outs, legsIn P c sender dIn legs s = .ok (outs, s') ∧ total = listSum (outs.map (·.1)) ∧
      recs = flattenRecs outs ∧ minOut ≤ total ∧ 0 < total := by
  unfold splitRouteExactAmountIn at h
  split at h
  · cases h1 : splitInLoop P c sender dIn legs 0 [] s with
    | error e => rw [h1] at h; cases h
    | ok r =>
      obtain ⟨⟨t, rs⟩, s1⟩ := r
      rw [h1] at h
      simp only at h
      split at h
      · cases h
      · split at h
        · cases h
        · injection h with h
          injection h with h2 h3
          injection h2 with h4 h5
          subst h4; subst h5; subst h3
          obtain ⟨outs, ho, hs, hr⟩ := splitInLoop_spec P c sender dIn legs 0 [] s t rs s1 h1
          exact ⟨outs, ho, by omega, by simpa using hr, by omega, by omega⟩
  · cases h

/-- the same for exact-out: the sum of the legs' inputs (each leg with maximum 2^256 − 1), total within the
caller's maximum. -/
theorem split_out_eq_sum (P : Pools σ) (c : FeeCfg) (sender : Addr) (legs : List LegOut) (dOut : Denom)
    (maxIn : Int) (s s' : σ) (total : Int) (recs : List HopRec)
    (h : splitRouteExactAmountOut P c sender legs dOut maxIn s = .ok ((total, recs), s')) :
    ∃ outs, legsOut P c sender dOut legs s = .ok (outs, s') ∧ total = listSum (outs.map (·.1)) ∧
      recs = flattenRecs outs ∧ total ≤ maxIn ∧ 0 < total := by
  unfold splitRouteExactAmountOut at h
  split at h
  · cases h1 : splitOutLoop P c sender dOut legs 0 [] s with
    | error e => rw [h1] at h; cases h
    | ok r =>
      obtain ⟨⟨t, rs⟩, s1⟩ := r
      rw [h1] at h
      simp only at h
      split at h
      · cases h
      · split at h
        · cases h
        · injection h with h
          injection h with h2 h3
          injection h2 with h4 h5
          subst h4; subst h5; subst h3
          obtain ⟨outs, ho, hs, hr⟩ := splitOutLoop_spec P c sender dOut legs 0 [] s t rs s1 h1
          exact ⟨outs, ho, by omega, by simpa using hr, by omega, by omega⟩
  · cases h

/-- a leg that fails fails the split message as a whole. -/
theorem split_fails_if_leg_fails (P : Pools σ) (c : FeeCfg) (sender : Addr) (legs : List LegIn) (dIn : Denom)
    (minOut : Int) (s : σ) (e : Err) (h : legsIn P c sender dIn legs s = .error e) :
    ∃ e', splitRouteExactAmountIn P c sender legs dIn minOut s = .error e' := by
  unfold splitRouteExactAmountIn
  split
  · obtain ⟨e', he⟩ := splitInLoop_error P c sender dIn legs 0 [] s e h
    rw [he]; exact ⟨_, rfl⟩
  · exact ⟨_, rfl⟩

theorem split_out_fails_if_leg_fails (P : Pools σ) (c : FeeCfg) (sender : Addr) (legs : List LegOut) (dOut : Denom)
    (maxIn : Int) (s : σ) (e : Err) (h : legsOut P c sender dOut legs s = .error e) :
    ∃ e', splitRouteExactAmountOut P c sender legs dOut maxIn s = .error e' := by
  unfold splitRouteExactAmountOut
  split
  · obtain ⟨e', he⟩ := splitOutLoop_error P c sender dOut legs 0 [] s e h
    rw [he]; exact ⟨_, rfl⟩
  · exact ⟨_, rfl⟩

/-! ## estimates -/

/-- exact-in: if every pool's quote equals what its swap produces on the same state (`Consistent`), swaps and
fee transfers do not change OTHER pools' quotes (`Framed`), the route visits each pool at most once, and the
sender is not on the reduced-fee whitelist, then whenever the routed swap succeeds the estimate query on the
state before it returns exactly the executed amount.  (`1 ≤ minOut`: what `ValidateBasic` enforces.) -/
theorem estimate_eq_execute_distinct_pools (P : Pools σ) (hC : Consistent P) (hF : Framed P) (c : FeeCfg)
    (sender : Addr) (hwl : c.whitelist.contains sender = false) (route : List StepIn)
    (hd : (route.map (·.pool)).Nodup) (dIn : Denom) (amt minOut : Int) (hmin : 1 ≤ minOut) (s s' : σ) (y : Int)
    (recs : List HopRec)
    (h : routeExactAmountIn P c sender route dIn amt minOut s = .ok ((y, recs), s')) :
    multihopEstimateOutGivenExactAmountIn P c true route dIn amt s = .ok y := by
  unfold routeExactAmountIn at h
  unfold multihopEstimateOutGivenExactAmountIn
  split at h
  · rename_i hv
    rw [if_pos hv]
    exact estimate_of_loop P hC hF c sender hwl route.length minOut hmin route 0 dIn amt [] s s y recs s'
      (fun _ _ _ _ _ => rfl) hd h
  · cases h

/-- exact-out: the amount `RouteExactAmountOut` returns is decided by its FIRST hop, which executes on the very
state the estimates were computed on; so for a consistent first pool and a non-whitelisted sender the estimate
query equals the executed amount for EVERY route, whether or not it revisits pools. -/
theorem estimate_eq_execute_out (P : Pools σ) (hC : Consistent P) (c : FeeCfg) (sender : Addr)
    (hwl : c.whitelist.contains sender = false) (route : List StepOut) (maxIn : Int) (dOut : Denom) (out : Int)
    (s s' : σ) (tin : Int) (recs : List HopRec)
    (h : routeExactAmountOut P c sender route maxIn dOut out s = .ok ((tin, recs), s')) :
    multihopEstimateInGivenExactAmountOut P c route dOut out s = .ok tin := by
  have hv : validRouteOut route = true := by
    unfold routeExactAmountOut at h
    split at h
    · assumption
    · cases h
  rw [route_out_eq_composition P c sender route maxIn dOut out s hv] at h
  unfold multihopEstimateInGivenExactAmountOut
  rw [if_pos hv, createMultihop_eq]
  cases route with
  | nil => exact absurd rfl (validRouteOut_ne_nil hv)
  | cons st0 rest =>
    rw [expectedIns_cons] at h ⊢
    cases hr : expectedIns P c rest dOut out s with
    | error e => rw [hr] at h; cases h
    | ok v =>
      obtain ⟨insR, d, a⟩ := v
      rw [hr] at h
      simp only at h ⊢
      cases hq : P.calcIn st0.pool st0.inDenom d a s with
      | error e => rw [hq] at h; cases h
      | ok tin0 =>
        rw [hq] at h
        simp only at h ⊢
        cases hfee : calcTakerFeeExactOut tin0 (getTradingPairTakerFee c st0.inDenom d) with
        | none => rw [hfee] at h; cases h
        | some w =>
          obtain ⟨after0, f0⟩ := w
          rw [hfee] at h
          simp only [fstOf, List.set_cons_zero, List.zip_cons_cons] at h ⊢
          -- the first executed hop asks the first pool for exactly (d, a)
          have key : ∀ (tl : List (StepOut × Int)) (after : Int) (rec : HopRec) (s1 : σ),
              hopExactOut P c sender st0 maxIn d a s = .ok ((after, rec), s1) → after = after0 := by
            intro tl after rec s1 hh
            obtain ⟨cur, dl, f, s2, hsw, _, hch, _⟩ := hopExactOut_ok hh
            have hcur := hC.calcIn_eq _ _ _ _ _ _ _ _ _ hsw
            rw [hq] at hcur
            injection hcur with hcur
            subst hcur
            obtain ⟨hcalc, _, _⟩ := chargeTakerFee_ok hwl hch
            simp only [Bool.false_eq_true, if_false] at hcalc
            rw [hfee] at hcalc
            injection hcalc with hcalc
            injection hcalc with h1 _
            exact h1.symm
          cases rest with
          | nil =>
            simp only [expectedIns] at hr
            injection hr with hr
            injection hr with hr1 hr2
            injection hr2 with hr3 hr4
            subst hr3; subst hr4
            simp only [List.zip_nil_left, composeOut] at h
            cases hh : hopExactOut P c sender st0 maxIn dOut out s with
            | error e => rw [hh] at h; simp [finishOut] at h
            | ok v =>
              obtain ⟨⟨after, rec⟩, s1⟩ := v
              rw [hh] at h
              simp only [finishOut, if_true] at h
              injection h with h
              injection h with h1 _
              injection h1 with h2 _
              rw [← h2, key [] after rec s1 hh]
          | cons nx rest' =>
            obtain ⟨hd, tl, htl⟩ := expectedIns_cons_need P c nx rest' dOut out s insR d a hr
            subst hd; subst htl
            simp only [List.zip_cons_cons, composeOut] at h
            cases hh : hopExactOut P c sender st0 maxIn nx.inDenom a s with
            | error e => rw [hh] at h; simp [finishOut] at h
            | ok v =>
              obtain ⟨⟨after, rec⟩, s1⟩ := v
              rw [hh] at h
              simp only at h
              cases h2 : composeOut P c sender ((nx, a) :: rest'.zip tl) dOut out s1 with
              | error e => rw [h2] at h; simp [finishOut] at h
              | ok v2 =>
                obtain ⟨rs, s2⟩ := v2
                rw [h2] at h
                simp only [finishOut, if_true] at h
                injection h with h
                injection h with h1 _
                injection h1 with h3 _
                rw [← h3, key [] after rec s1 hh]

/-- estimates are queries: whatever they return, the state is the one they were asked on (in the model an
estimate has no state to return; the engine checks the real stores' digest). -/
theorem estimate_pure (P : Pools σ) (c : FeeCfg) (applyFee : Bool) (routeIn : List StepIn) (routeOut : List StepOut)
    (d : Denom) (amt : Int) (s : σ) :
    (applyQuery (multihopEstimateOutGivenExactAmountIn P c applyFee routeIn d amt s) s).1 = s ∧
    (applyQuery (multihopEstimateInGivenExactAmountOut P c routeOut d amt s) s).1 = s := ⟨rfl, rfl⟩

/-! ## limits -/

/-- a routed exact-in swap that succeeds delivers at least the caller's minimum. -/
theorem min_out_respected (P : Pools σ) (c : FeeCfg) (sender : Addr) (route : List StepIn) (dIn : Denom)
    (amt minOut : Int) (s s' : σ) (y : Int) (recs : List HopRec)
    (h : routeExactAmountIn P c sender route dIn amt minOut s = .ok ((y, recs), s')) : minOut ≤ y := by
  have hv : validRouteIn route = true := by
    unfold routeExactAmountIn at h
    split at h
    · assumption
    · cases h
  rw [route_in_eq_composition P c sender route dIn amt minOut s hv] at h
  have hne : route ≠ [] := by intro h0; subst h0; simp [validRouteIn] at hv
  exact composeIn_min P c sender minOut route dIn amt s y recs s' hne h

/-- a split exact-in route that succeeds delivers at least the caller's minimum in total. -/
theorem min_out_respected_split (P : Pools σ) (c : FeeCfg) (sender : Addr) (legs : List LegIn) (dIn : Denom)
    (minOut : Int) (s s' : σ) (total : Int) (recs : List HopRec)
    (h : splitRouteExactAmountIn P c sender legs dIn minOut s = .ok ((total, recs), s')) : minOut ≤ total := by
  obtain ⟨_, _, _, _, hm, _⟩ := split_eq_sum P c sender legs dIn minOut s s' total recs h
  exact hm

/-- a split exact-out route that succeeds charges at most the caller's maximum in total (taker fees included). -/
theorem max_in_respected_split (P : Pools σ) (c : FeeCfg) (sender : Addr) (legs : List LegOut) (dOut : Denom)
    (maxIn : Int) (s s' : σ) (total : Int) (recs : List HopRec)
    (h : splitRouteExactAmountOut P c sender legs dOut maxIn s = .ok ((total, recs), s')) : total ≤ maxIn := by
  obtain ⟨_, _, _, _, hm, _⟩ := split_out_eq_sum P c sender legs dOut maxIn s s' total recs h
  exact hm

/-- PARTIAL (the full claim `tin ≤ maxIn` is FALSE, see `max_in_violated_witness`): for a single routed exact-out
swap the caller's maximum bounds only what the FIRST POOL takes; the amount charged is that plus the first hop's
taker fee, which is not compared with the maximum.
Full statement (refuted): `routeExactAmountOut … maxIn … = .ok ((tin, _), _) → tin ≤ maxIn`. -/
theorem max_in_respected_partial (P : Pools σ) (c : FeeCfg) (sender : Addr) (route : List StepOut) (maxIn : Int)
    (dOut : Denom) (out : Int) (s s' : σ) (tin : Int) (recs : List HopRec)
    (h : routeExactAmountOut P c sender route maxIn dOut out s = .ok ((tin, recs), s')) :
    ∃ r rest, recs = r :: rest ∧ r.amtIn ≤ maxIn ∧
      (c.whitelist.contains sender = true → tin = r.amtIn) ∧
      (c.whitelist.contains sender = false → 0 ≤ r.fee) := by
  have hv : validRouteOut route = true := by
    unfold routeExactAmountOut at h
    split at h
    · assumption
    · cases h
  rw [route_out_eq_composition P c sender route maxIn dOut out s hv] at h
  cases he : expectedIns P c route dOut out s with
  | error e => rw [he] at h; cases h
  | ok v =>
    obtain ⟨ins, need⟩ := v
    rw [he] at h
    simp only at h
    have hl := expectedIns_length P c route dOut out s ins need he
    cases route with
    | nil => exact absurd rfl (validRouteOut_ne_nil hv)
    | cons st0 rest =>
      cases ins with
      | nil => simp at hl
      | cons i0 insR =>
        simp only [List.set_cons_zero, List.zip_cons_cons] at h
        -- whatever the first hop is asked for, its pool input passed the comparison with maxIn
        have key : ∀ (d : Denom) (a after : Int) (rec : HopRec) (s1 : σ),
            hopExactOut P c sender st0 maxIn d a s = .ok ((after, rec), s1) →
            rec.amtIn ≤ maxIn ∧ (c.whitelist.contains sender = true → after = rec.amtIn) ∧
              (c.whitelist.contains sender = false → 0 ≤ rec.fee) := by
          intro d a after rec s1 hh
          obtain ⟨cur, dl, f, s2, _, hle, hch, hrec⟩ := hopExactOut_ok hh
          subst hrec
          refine ⟨hle, ?_, ?_⟩
          · intro hw
            unfold chargeTakerFee at hch
            rw [hw] at hch
            simp only [if_true] at hch
            injection hch with hch
            injection hch with h1 _
            injection h1 with h2 _
            exact h2.symm
          · intro hw
            exact (chargeTakerFee_ok hw hch).2.1
        cases hz : rest.zip insR with
        | nil =>
          rw [hz] at h
          simp only [composeOut] at h
          cases hh : hopExactOut P c sender st0 maxIn dOut out s with
          | error e => rw [hh] at h; simp [finishOut] at h
          | ok v =>
            obtain ⟨⟨after, rec⟩, s1⟩ := v
            rw [hh] at h
            simp only [finishOut, if_true, List.reverse_nil, List.nil_append, List.map_cons, List.map_nil] at h
            injection h with h
            injection h with h1 _
            injection h1 with h2 h3
            obtain ⟨k1, k2, k3⟩ := key _ _ _ _ _ hh
            exact ⟨rec, [], h3.symm, k1, fun hw => by rw [← h2]; exact k2 hw, k3⟩
        | cons p tl =>
          obtain ⟨nx, a⟩ := p
          rw [hz] at h
          simp only [composeOut] at h
          cases hh : hopExactOut P c sender st0 maxIn nx.inDenom a s with
          | error e => rw [hh] at h; simp [finishOut] at h
          | ok v =>
            obtain ⟨⟨after, rec⟩, s1⟩ := v
            rw [hh] at h
            simp only at h
            cases h2 : composeOut P c sender ((nx, a) :: tl) dOut out s1 with
            | error e => rw [h2] at h; simp [finishOut] at h
            | ok v2 =>
              obtain ⟨rs, s2⟩ := v2
              rw [h2] at h
              simp only [finishOut, if_true, List.reverse_nil, List.nil_append, List.map_cons] at h
              injection h with h
              injection h with h1 _
              injection h1 with h3 h4
              obtain ⟨k1, k2, k3⟩ := key _ _ _ _ _ hh
              exact ⟨rec, rs.map (·.2), h4.symm, k1, fun hw => by rw [← h3]; exact k2 hw, k3⟩

/-! ## failure is atomic -/

/-- a message that fails leaves the state it started from (errors carry no state; the handler's cache context is
dropped), for every router entry point. -/
theorem failure_is_atomic {α : Type} (r : Except Err (α × σ)) (s : σ) (e : Err)
    (h : (applyTx r s).2 = .error e) : (applyTx r s).1 = s := by
  unfold applyTx at h ⊢
  cases r with
  | error e' => rfl
  | ok v => obtain ⟨a, s'⟩ := v; simp at h

/-- … and one that succeeds commits exactly the state the router computed. -/
theorem success_commits {α : Type} (r : Except Err (α × σ)) (s s' : σ) (a : α) (h : r = .ok (a, s')) :
    applyTx r s = (s', .ok a) := by
  subst h; rfl

/-! ## the taker fee -/

/-- exact-in: the pool gets `amount·(1 − fee)` rounded toward zero, the fee coin is the rest; for a non-negative
amount and a fee in `[0,1]` that is: swapped amount rounded DOWN, fee `amount·fee` rounded UP. -/
theorem taker_fee_formula_exact_in {a fee after f : Int} (h : calcTakerFeeExactIn a fee = some (after, f)) :
    IsTrunc ((P18 - fee) * a) P18 after ∧ f = a - after ∧
    (0 ≤ a → 0 ≤ fee → fee ≤ P18 → IsFloor (a * (P18 - fee)) P18 after ∧ IsCeil (a * fee) P18 f) := by
  obtain ⟨h1, h2⟩ := calcTakerFeeExactIn_val h
  refine ⟨by rw [h1]; exact tdiv_isTrunc _ _ P18_pos, h2, ?_⟩
  intro ha hf0 hf1
  have hnn : 0 ≤ (P18 - fee) * a := Int.mul_nonneg (by omega) ha
  have hfl := (tdiv_isTrunc ((P18 - fee) * a) P18 P18_pos).1 hnn
  rw [← h1] at hfl
  have hcomm : (P18 - fee) * a = a * (P18 - fee) := Int.mul_comm _ _
  rw [hcomm] at hfl
  refine ⟨hfl, ?_⟩
  obtain ⟨l1, l2⟩ := hfl
  subst h2
  unfold IsCeil
  rw [Int.mul_sub] at l1 l2
  rw [Int.add_mul] at l2
  constructor
  · rw [Int.sub_mul, Int.sub_mul]; omega
  · rw [Int.sub_mul]; omega

/-- exact-out: the amount charged is EXACTLY `⌈amount / (1 − fee)⌉` (rounded UP) for every fee in `[0,1)` and every
non-negative amount; the fee coin is the difference. -/
theorem taker_fee_formula_exact_out {a fee after f : Int} (h : calcTakerFeeExactOut a fee = some (after, f))
    (ha : 0 ≤ a) (hf0 : 0 ≤ fee) (hf1 : fee < P18) :
    IsCeil (a * P18) (P18 - fee) after ∧ f = after - a ∧ 0 ≤ f := by
  obtain ⟨hc, hf⟩ := calcTakerFeeExactOut_isCeil h ha hf0 hf1
  refine ⟨hc, hf, ?_⟩
  -- after·(1−fee) ≥ a and (1−fee) ≤ 1 ⇒ after ≥ a
  obtain ⟨_, hc2⟩ := hc
  generalize hr : P18 - fee = r at *
  have hrle : r ≤ P18 := by omega
  have hrpos : 0 < r := by omega
  rcases Int.lt_or_le after a with hlt | hge
  · exfalso
    have h1 : after * r ≤ after * P18 ∨ after < 0 := by
      rcases Int.lt_or_le after 0 with hn | hp
      · exact Or.inr hn
      · exact Or.inl (Int.mul_le_mul_of_nonneg_left hrle hp)
    rcases h1 with h1 | h1
    · have h2 : (after + 1) * P18 ≤ a * P18 := Int.mul_le_mul_of_nonneg_right (by omega) (by decide)
      rw [Int.add_mul] at h2
      have hP : (0 : Int) < P18 := P18_pos
      omega
    · have h2 : after * r < 0 := Int.mul_neg_of_neg_of_pos h1 hrpos
      have h3 : 0 ≤ a * P18 := Int.mul_nonneg ha (by decide)
      omega
  · omega

/-- the whitelist: a whitelisted sender is charged nothing and the whole amount goes to the pool. -/
theorem taker_fee_whitelisted (P : Pools σ) (c : FeeCfg) (sender : Addr) (dIn dOut : Denom) (amt : Int)
    (exactIn : Bool) (s : σ) (hw : c.whitelist.contains sender = true) :
    chargeTakerFee P c sender dIn amt dOut exactIn s = .ok ((amt, 0), s) := by
  unfold chargeTakerFee; rw [hw]; rfl

/-- what a non-whitelisted sender is charged: the formula for the pair's fee, transferred to the collector. -/
theorem taker_fee_charged (P : Pools σ) (c : FeeCfg) (sender : Addr) (dIn dOut : Denom) (amt after f : Int)
    (exactIn : Bool) (s s1 : σ) (hw : c.whitelist.contains sender = false)
    (h : chargeTakerFee P c sender dIn amt dOut exactIn s = .ok ((after, f), s1)) :
    (if exactIn then calcTakerFeeExactIn amt (getTradingPairTakerFee c dIn dOut)
     else calcTakerFeeExactOut amt (getTradingPairTakerFee c dIn dOut)) = some (after, f) ∧
    0 ≤ f ∧ P.sendFee sender dIn f s = .ok s1 := chargeTakerFee_ok hw h

/-- per-pair overrides: after `SetDenomPairTakerFee d0 d1 fee` with `fee ≠ default` the ORDERED pair `(d0,d1)`
trades at `fee`; every other ordered pair (the reverse one included) is unaffected. -/
theorem pair_fee_set (c : FeeCfg) (d0 d1 : Denom) (fee : Int) (hne : fee ≠ c.default) :
    getTradingPairTakerFee (setDenomPairTakerFee c d0 d1 fee) d0 d1 = fee := by
  unfold setDenomPairTakerFee getTradingPairTakerFee
  simp [hne, lookupPair]

theorem lookupPair_filter_ne (k k' : Denom × Denom) (hk : k' ≠ k) :
    ∀ l : List ((Denom × Denom) × Int), lookupPair k' (l.filter (fun p => p.1 ≠ k)) = lookupPair k' l := by
  intro l
  induction l with
  | nil => rfl
  | cons p rest ih =>
    obtain ⟨kp, v⟩ := p
    by_cases h1 : kp = k
    · subst h1
      have : ((kp, v) :: rest).filter (fun p => p.1 ≠ kp) = rest.filter (fun p => p.1 ≠ kp) := by simp
      rw [this, ih]
      simp [lookupPair, Ne.symm hk]
    · have : ((kp, v) :: rest).filter (fun p => p.1 ≠ k) = (kp, v) :: rest.filter (fun p => p.1 ≠ k) := by simp [h1]
      rw [this]
      simp only [lookupPair]
      rw [ih]

theorem pair_fee_other (c : FeeCfg) (d0 d1 e0 e1 : Denom) (fee : Int) (hne : (e0, e1) ≠ (d0, d1)) :
    getTradingPairTakerFee (setDenomPairTakerFee c d0 d1 fee) e0 e1 = getTradingPairTakerFee c e0 e1 := by
  unfold setDenomPairTakerFee getTradingPairTakerFee
  by_cases hf : fee = c.default
  · simp only [if_pos hf, lookupPair_filter_ne (d0, d1) (e0, e1) hne]
  · simp only [if_neg hf, lookupPair, if_neg (Ne.symm hne), lookupPair_filter_ne (d0, d1) (e0, e1) hne]

/-! ## witnesses: sub-claims the code (and so the model) violates -/

/-- toy pools over a trivial state: every pool trades 2:1, an exact-out request is filled completely. -/
def toyPools : Pools Unit where
  swapIn := fun _ _ _ _ x s => if x ≤ 1 then .error .pool else .ok ((x / 2, x), s)
  swapOut := fun _ _ _ _ x s => .ok ((2 * x, x), s)
  calcOut := fun _ _ _ x _ => if x ≤ 1 then .error .pool else .ok (x / 2)
  calcIn := fun _ _ _ x _ => .ok (2 * x)
  sendFee := fun _ _ _ s => .ok s

def onePercent : FeeCfg := ⟨10 ^ 16, [], []⟩

/-- `max_in_respected` is FALSE for a single routed exact-out swap: with a 1 % taker fee the pool takes 100, the
caller's maximum is 100, the message succeeds and charges 102. -/
theorem max_in_violated_witness :
    (routeExactAmountOut toyPools onePercent "alice" [⟨1, "uatom"⟩] 100 "uosmo" 50 ()).toOption.map (·.1.1) = some 102 := by
  decide +kernel

/-- the estimate query has no sender: for a whitelisted sender it differs from the executed amount although the
route visits each pool once and the pools are consistent (estimate 245, executed 250). -/
theorem estimate_ne_execute_whitelisted_witness :
    (routeExactAmountIn toyPools { onePercent with whitelist := ["alice"] } "alice" [⟨1, "uatom"⟩, ⟨2, "uusd"⟩] "uosmo" 1000 1 ()).toOption.map (·.1.1) = some 250 ∧
    (multihopEstimateOutGivenExactAmountIn toyPools { onePercent with whitelist := ["alice"] } true [⟨1, "uatom"⟩, ⟨2, "uusd"⟩] "uosmo" 1000 ()).toOption = some 245 := by
  decide +kernel

/-- pools that fill an exact-out request only partially (as a concentrated pool at its price limit does): the
router never looks at the delivered amount, the message succeeds, and the caller receives 7 instead of 50. -/
def partialPools : Pools Unit :=
  { toyPools with swapOut := fun _ _ _ _ x s => .ok ((2 * x, if x > 7 then 7 else x), s) }

theorem exact_out_partial_fill_witness :
    (routeExactAmountOut partialPools onePercent "alice" [⟨1, "uatom"⟩] 1000 "uosmo" 50 ()).toOption.map (·.1) =
      some (102, [⟨1, "uatom", 100, 2, "uosmo", 7⟩]) := by
  decide +kernel

/-- `SetDenomPairTakerFee` with a fee equal to the current default DELETES the override, so the pair follows a
later change of the default instead of keeping the fee that was set. -/
theorem set_pair_fee_default_quirk_witness :
    getTradingPairTakerFee { (setDenomPairTakerFee onePercent "uatom" "uosmo" (10 ^ 16)) with default := 0 } "uatom" "uosmo" = 0 := by
  decide +kernel

/-! ## non-vacuity: constant-product pools with state satisfy the hypotheses, and the theorems fire on them -/

abbrev CPState := List (PoolId × (Int × Int))

def getRes (p : PoolId) : CPState → Option (Int × Int)
  | [] => none
  | (q, r) :: rest => if q = p then some r else getRes p rest

def setRes (p : PoolId) (r : Int × Int) : CPState → CPState
  | [] => []
  | (q, r0) :: rest => if q = p then (q, r) :: rest else (q, r0) :: setRes p r rest

/-- constant product without spread: `out = ⌊b·x/(a+x)⌋`, `in = ⌊a·y/(b−y)⌋ + 1`. Reserve 0 belongs to the
lexicographically smaller denom. -/
def orient (dIn dOut : Denom) (r : Int × Int) : Int × Int := if dIn < dOut then r else (r.2, r.1)

def quoteOut (r : Int × Int) (x : Int) : Except Err Int :=
  if x ≤ 0 then .error .pool else if r.2 * x / (r.1 + x) ≤ 0 then .error .pool else .ok (r.2 * x / (r.1 + x))

def quoteIn (r : Int × Int) (y : Int) : Except Err Int :=
  if y ≤ 0 ∨ r.2 ≤ y then .error .pool else .ok (r.1 * y / (r.2 - y) + 1)

def cpPools : Pools CPState where
  calcOut := fun p dIn dOut x s =>
    match getRes p s with
    | none => .error .pool
    | some r => quoteOut (orient dIn dOut r) x
  calcIn := fun p dIn dOut y s =>
    match getRes p s with
    | none => .error .pool
    | some r => quoteIn (orient dIn dOut r) y
  swapIn := fun p _ dIn dOut x s =>
    match getRes p s with
    | none => .error .pool
    | some r =>
      match quoteOut (orient dIn dOut r) x with
      | .error e => .error e
      | .ok y => .ok ((y, x), setRes p (orient dIn dOut ((orient dIn dOut r).1 + x, (orient dIn dOut r).2 - y)) s)
  swapOut := fun p _ dIn dOut y s =>
    match getRes p s with
    | none => .error .pool
    | some r =>
      match quoteIn (orient dIn dOut r) y with
      | .error e => .error e
      | .ok x => .ok ((x, y), setRes p (orient dIn dOut ((orient dIn dOut r).1 + x, (orient dIn dOut r).2 - y)) s)
  sendFee := fun _ _ _ s => .ok s

theorem getRes_setRes_ne (p q : PoolId) (r : Int × Int) (h : q ≠ p) :
    ∀ s : CPState, getRes q (setRes p r s) = getRes q s := by
  intro s
  induction s with
  | nil => rfl
  | cons e rest ih =>
    obtain ⟨k, v⟩ := e
    unfold setRes
    by_cases hk : k = p
    · subst hk; simp [getRes, Ne.symm h]
    · simp only [if_neg hk, getRes]; rw [ih]

theorem cpPools_consistent : Consistent cpPools := by
  constructor
  · intro p a dIn dOut x s y tk s' h
    simp only [cpPools] at h ⊢
    cases hg : getRes p s with
    | none => rw [hg] at h; cases h
    | some r =>
      rw [hg] at h
      simp only at h ⊢
      cases hq : quoteOut (orient dIn dOut r) x with
      | error e => rw [hq] at h; cases h
      | ok y' =>
        rw [hq] at h
        injection h with h
        injection h with h1 _
        injection h1 with h2 _
        rw [h2]
  · intro p a dIn dOut x s cur dl s' h
    simp only [cpPools] at h ⊢
    cases hg : getRes p s with
    | none => rw [hg] at h; cases h
    | some r =>
      rw [hg] at h
      simp only at h ⊢
      cases hq : quoteIn (orient dIn dOut r) x with
      | error e => rw [hq] at h; cases h
      | ok y' =>
        rw [hq] at h
        injection h with h
        injection h with h1 _
        injection h1 with h2 _
        rw [h2]

theorem cpPools_framed : Framed cpPools := by
  constructor
  · intro p a dIn dOut x s r s' h q hq dI dO z
    simp only [cpPools] at h ⊢
    cases hg : getRes p s with
    | none => rw [hg] at h; cases h
    | some r0 =>
      rw [hg] at h
      simp only at h
      cases hqo : quoteOut (orient dIn dOut r0) x with
      | error e => rw [hqo] at h; cases h
      | ok y' =>
        rw [hqo] at h
        injection h with h
        injection h with _ h2
        rw [← h2, getRes_setRes_ne p q _ hq]
  · intro a d f s s' h q dI dO z
    simp only [cpPools] at h
    injection h with h
    rw [h]

def cpState : CPState := [(1, (1000000, 2000000)), (2, (5000000, 5000000)), (3, (3000000, 1000000))]
def cpFees : FeeCfg := ⟨10 ^ 15, [(("uatom", "uosmo"), 5 * 10 ^ 15)], ["carol"]⟩

/-- a 3-hop route over three different stateful pools executes; the estimate on the same state returns the
executed amount (`estimate_eq_execute_distinct_pools` applies: consistent, framed, distinct, not whitelisted). -/
example :
    (routeExactAmountIn cpPools cpFees "alice" [⟨1, "uosmo"⟩, ⟨2, "uusd"⟩, ⟨3, "uatom"⟩] "uatom" 10000 1 cpState).toOption.map (·.1.1)
      = some 57626 ∧
    (multihopEstimateOutGivenExactAmountIn cpPools cpFees true [⟨1, "uosmo"⟩, ⟨2, "uusd"⟩, ⟨3, "uatom"⟩] "uatom" 10000 cpState).toOption
      = some 57626 := by
  decide +kernel

example : (([⟨1, "uosmo"⟩, ⟨2, "uusd"⟩, ⟨3, "uatom"⟩] : List StepIn).map (·.pool)).Nodup := by decide
example : cpFees.whitelist.contains "alice" = false := by decide

/-- a route that REVISITS a pool: the estimate (all hops quoted on the initial state) differs from the execution
(the second visit sees the reserves the first one left): the distinctness hypothesis is needed. -/
example :
    (routeExactAmountIn cpPools cpFees "alice" [⟨1, "uosmo"⟩, ⟨1, "uatom"⟩] "uatom" 100000 1 cpState).toOption.map (·.1.1)
      ≠ (multihopEstimateOutGivenExactAmountIn cpPools cpFees true [⟨1, "uosmo"⟩, ⟨1, "uatom"⟩] "uatom" 100000 cpState).toOption := by
  decide +kernel

/-- exact-out over two stateful pools succeeds and its estimate equals the executed amount; a binding limit one
below the first pool's input fails with `limit`; the failed message leaves the state untouched. -/
example :
    (routeExactAmountOut cpPools cpFees "alice" [⟨1, "uatom"⟩, ⟨2, "uosmo"⟩] 100000 "uusd" 5000 cpState).toOption.map (·.1.1)
      = (multihopEstimateInGivenExactAmountOut cpPools cpFees [⟨1, "uatom"⟩, ⟨2, "uosmo"⟩] "uusd" 5000 cpState).toOption ∧
    (multihopEstimateInGivenExactAmountOut cpPools cpFees [⟨1, "uatom"⟩, ⟨2, "uosmo"⟩] "uusd" 5000 cpState).toOption.isSome = true ∧
    (applyTx (routeExactAmountOut cpPools cpFees "alice" [⟨1, "uatom"⟩, ⟨2, "uosmo"⟩] 100 "uusd" 5000 cpState) cpState).1
      = cpState ∧
    (routeExactAmountOut cpPools cpFees "alice" [⟨1, "uatom"⟩, ⟨2, "uosmo"⟩] 100 "uusd" 5000 cpState).toOption.isNone = true := by
  decide +kernel

/-- a split route: two legs over different pools, total = sum of the legs, compared with the minimum as a whole. -/
example :
    (splitRouteExactAmountIn cpPools cpFees "alice" [⟨[⟨1, "uosmo"⟩], 10000⟩, ⟨[⟨3, "uusd"⟩, ⟨2, "uosmo"⟩], 10000⟩] "uatom" 1 cpState).toOption.map (·.1.1)
      = some (19703 + 3311) := by
  decide +kernel

end OsmoVerif.Props.C05
