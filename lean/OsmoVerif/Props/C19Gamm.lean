/-
C19 — export/import of x/gamm (`Model/GammGenesis.lean` around the C02 state of `Model/GammKeeper.lean`).

`ExportGenesis` = pool records, gamm's own next pool number, params, migration records; the per-denom TOTAL LIQUIDITY store is not
exported: `InitGenesis` recomputes it as the sum over the pool records, while the running chain maintains it incrementally
(`RecordTotalLiquidityIncrease/Decrease` next to every transfer into / out of a pool account).

Results (all histories of all gamm / poolmanager messages, harness mints, parameter changes, migration-record updates):
 * NEW about the running chain: inside the pool-math contract (`clean`, C02) the incremental total liquidity EQUALS the sum over the
   pool records at every point (`gamm_total_liquidity_tracks_records`);
 * export → import changes nothing but the total liquidity, which becomes that sum (`gamm_export_import_eq`); so it is the identity on
   every clean reachable state, and it is NOT on the F13 history (a swap pays out a whole reserve: record stale, `clean = false`):
   witness — this is known finding F38, with its cause;
 * no message reads the total liquidity: after the import EVERY later history has the same outcomes and the SAME core state (bank, pool
   records, ids), and the `TotalLiquidity` query differs from the exporting chain's by a constant (`gamm_run_after_import`).
-/
import OsmoVerif.Proofs.GammGenesis
import OsmoVerif.Props.C02

namespace OsmoVerif.Props.C19Gamm
open OsmoVerif.Gamm OsmoVerif.Ledger

/-- reachable stores: any history on a fresh chain whose next pool id is `n` -/
def Reachable (g : GState) : Prop := ∃ n ops, g = runT (gInit n) ops

theorem gamm_reachable_inv {g : GState} (h : Reachable g) : GInv g := by
  obtain ⟨n, ops, rfl⟩ := h
  exact runT_inv ops (gInit_inv n)

/-- the layered model runs the C02 model unchanged: its core component after a history IS the C02 run (so every theorem of C02 and
the differential tie of the `gamm` engine apply to it) -/
theorem gamm_core_is_c02 (g : GState) (ops : List Op) : (runT g (ops.map GOp.op)).core = runOps g.core ops := by
  induction ops generalizing g with
  | nil => rfl
  | cons o os ih =>
    simp only [List.map_cons, runT, runOps]
    rw [ih]
    congr 1
    cases o with
    | msg m =>
      simp only [applyOpT, stepT, applyOp, apply]
      cases step g.core m <;> rfl
    | fund u n a => rfl
    | setParams p => rfl

/-- **the incremental total liquidity is the sum over the pool records** on every reachable state whose history stayed inside the
pool-math contract — what `RecordTotalLiquidityIncrease/Decrease` at pool creation, join, exit and every swap hop add up to. -/
theorem gamm_total_liquidity_tracks_records {g : GState} (h : Reachable g) (hc : g.core.clean = true) (d : Denom) :
    g.liquidity d = sumLiq g.core.pools d :=
  (gamm_reachable_inv h).tl hc d

/-- **Export → import, exactly**: pool records (ids distinct on reachable states: the table is reproduced entry by entry), bank,
poolmanager state, gamm's next pool number, params and migration records are EQUAL; the total liquidity of every denom is the sum over
the pool records. -/
theorem gamm_export_import_eq {g : GState} (h : Reachable g) :
    (gammExportImport g).core = g.core ∧ (gammExportImport g).nextPoolNumber = g.nextPoolNumber ∧
    (gammExportImport g).poolCreationFee = g.poolCreationFee ∧ (gammExportImport g).migration = g.migration ∧
    ∀ d, (gammExportImport g).liquidity d = sumLiq g.core.pools d :=
  gammExportImport_eq (gamm_reachable_inv h).nodup

/-- the `TotalLiquidity` query survives the import exactly when the running value already is the sum over the records … -/
theorem gamm_export_import_identity_iff {g : GState} (h : Reachable g) :
    (∀ d, (gammExportImport g).liquidity d = g.liquidity d) ↔ ∀ d, g.liquidity d = sumLiq g.core.pools d := by
  obtain ⟨_, _, _, _, h5⟩ := gamm_export_import_eq h
  constructor
  · intro hh d; rw [← hh d, h5 d]
  · intro hh d; rw [h5 d, hh d]

/-- … which is the case on every clean reachable state: there export → import is the identity on every observable -/
theorem gamm_export_import_identity_of_clean {g : GState} (h : Reachable g) (hc : g.core.clean = true) :
    (gammExportImport g).core = g.core ∧ ∀ d, (gammExportImport g).liquidity d = g.liquidity d :=
  ⟨(gamm_export_import_eq h).1, (gamm_export_import_identity_iff h).mpr (gamm_total_liquidity_tracks_records h hc)⟩

/-- the second store is the first with the total liquidity of every denom shifted by `off` -/
structure GSim (off : Denom → Int) (g t : GState) : Prop where
  core : t.core = g.core
  next : t.nextPoolNumber = g.nextPoolNumber
  fee : t.poolCreationFee = g.poolCreationFee
  mig : t.migration = g.migration
  tl : ∀ d, t.liquidity d = g.liquidity d + off d

/-- **`GSim off` is a bisimulation with a CONSTANT offset**: every operation has the same outcome, leaves equal cores, and moves both
total-liquidity stores by the same amount (no message reads the store). -/
theorem gamm_sim_step {off : Denom → Int} {g t : GState} (h : GSim off g t) (o : GOp) :
    GSim off (applyOpT g o) (applyOpT t o) ∧ outcomeT g o = outcomeT t o := by
  cases o with
  | setMigration recs => exact ⟨⟨h.core, h.next, h.fee, rfl, h.tl⟩, rfl⟩
  | setGammParams fee => exact ⟨⟨h.core, h.next, rfl, h.mig, h.tl⟩, rfl⟩
  | op o =>
    cases o with
    | fund u n a =>
      refine ⟨⟨?_, h.next, h.fee, h.mig, h.tl⟩, rfl⟩
      simp only [applyOpT, h.core]
    | setParams p =>
      refine ⟨⟨?_, h.next, h.fee, h.mig, h.tl⟩, rfl⟩
      simp only [applyOpT, h.core]
    | msg m =>
      refine ⟨?_, by simp only [outcomeT, h.core]⟩
      simp only [applyOpT, stepT, h.core]
      cases hs : step g.core m with
      | none => exact h
      | some c' =>
        simp only [Option.map_some]
        refine ⟨rfl, h.next, h.fee, h.mig, fun d => ?_⟩
        show aget (applyFlows t.totalLiq (flows g.core m)) d = aget (applyFlows g.totalLiq (flows g.core m)) d + off d
        rw [aget_applyFlows, aget_applyFlows]
        have := h.tl d
        unfold GState.liquidity at this
        omega

theorem gamm_run_sim {off : Denom → Int} : ∀ (ops : List GOp) {g t : GState}, GSim off g t →
    outcomesT g ops = outcomesT t ops ∧ GSim off (runT g ops) (runT t ops)
  | [], _, _, h => ⟨rfl, h⟩
  | o :: os, _, _, h => by
    obtain ⟨h1, h2⟩ := gamm_sim_step h o
    obtain ⟨h3, h4⟩ := gamm_run_sim os h1
    exact ⟨by simp only [outcomesT, h2, h3], h4⟩

/-- **Every later history**: after export → import of a reachable state, any further sequence of operations succeeds / fails
identically, the CORE states (bank balances, supplies, pool records, pool ids, parameters) are EQUAL at every point — hence every amount
a message reports and every pool / bank query —, and the `TotalLiquidity` query differs by the constant
`Σ records − running value at export time`, which is 0 when the exporting history was clean. -/
theorem gamm_run_after_import {g : GState} (h : Reachable g) (ops : List GOp) :
    outcomesT (gammExportImport g) ops = outcomesT g ops ∧
    (runT (gammExportImport g) ops).core = (runT g ops).core ∧
    ∀ d, (runT (gammExportImport g) ops).liquidity d = (runT g ops).liquidity d + (sumLiq g.core.pools d - g.liquidity d) := by
  obtain ⟨h1, h2, h3, h4, h5⟩ := gamm_export_import_eq h
  have hs : GSim (fun d => sumLiq g.core.pools d - g.liquidity d) g (gammExportImport g) :=
    ⟨h1, h2, h3, h4, fun d => by rw [h5 d]; omega⟩
  obtain ⟨ho, hr⟩ := gamm_run_sim ops hs
  exact ⟨ho.symm, hr.core, hr.tl⟩

/-! ## F38 with its cause: the history of C02's finding F13 (a balancer swap that pays out a whole reserve) -/

def gF13 : GState := runT (gInit 1) (C02.witnessOps.map GOp.op)

example : Reachable gF13 := ⟨1, _, rfl⟩

/-- the pool ACCOUNT holds 0 bbb and the running total liquidity says 0 bbb; the pool RECORD still reports 5 bbb (`sdk.NewCoins` dropped
the zero coin), so the imported node reports a total liquidity of 5 bbb: **the `TotalLiquidity` query changes across export → import**,
and stays 5 too high forever (`gamm_run_after_import`). -/
theorem gamm_import_recomputes_total_liquidity_witness :
    gF13.core.clean = false ∧ gF13.liquidity (.tok "bbb") = 0 ∧ gF13.core.bal (.pool 1) (.tok "bbb") = 0 ∧
    (gammExportImport gF13).liquidity (.tok "bbb") = 5 ∧
    gF13.liquidity (.tok "aaa") = 1900 ∧ (gammExportImport gF13).liquidity (.tok "aaa") = 1900 := by
  decide +kernel

/-! ## non-vacuity: the C02 demo history (every kind of message, two pools, a donation, taker fees), extended by migration records -/

def gDemo : GState := runT (gInit 1) (C02.demoOps.map GOp.op ++ [.setMigration [(1, 7)], .setGammParams [(.tok "ccc", 50)]])

example : Reachable gDemo := ⟨1, _, rfl⟩

/-- clean, so the import is the identity: total liquidity = Σ records for all three denoms (NOT the pool account balance: pool 1 holds 7
donated aaa more), migration records and params kept -/
example : gDemo.core.clean = true ∧
    (gDemo.liquidity (.tok "aaa"), gDemo.liquidity (.tok "bbb"), gDemo.liquidity (.tok "ccc")) =
      (sumLiq gDemo.core.pools (.tok "aaa"), sumLiq gDemo.core.pools (.tok "bbb"), sumLiq gDemo.core.pools (.tok "ccc")) ∧
    gDemo.liquidity (.tok "aaa") + 7 = gDemo.core.bal (.pool 1) (.tok "aaa") ∧ 0 < gDemo.liquidity (.tok "ccc") ∧
    (gammExportImport gDemo).migration = [(1, 7)] ∧ (gammExportImport gDemo).poolCreationFee = [(.tok "ccc", 50)] ∧
    (gammExportImport gDemo).liquidity (.tok "bbb") = gDemo.liquidity (.tok "bbb") := by
  decide +kernel

/-- a later swap on both chains: same outcome, same pool record, same total liquidity (instance of `gamm_run_after_import`) -/
example :
    let later : List GOp := [.op (.msg (.swapExactAmountIn 1 (.tok "aaa") 500 1 [⟨1, .tok "bbb", some 800⟩]))]
    outcomesT (gammExportImport gDemo) later = [true] ∧ outcomesT gDemo later = [true] ∧
    (runT (gammExportImport gDemo) later).liquidity (.tok "bbb") = (runT gDemo later).liquidity (.tok "bbb") ∧
    (runT gDemo later).liquidity (.tok "bbb") = gDemo.liquidity (.tok "bbb") - 800 := by
  decide +kernel

end OsmoVerif.Props.C19Gamm
