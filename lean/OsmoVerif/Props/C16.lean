/-
C16 — the store-backed sum-tree answers every range-sum query like a sorted map would.

All theorems are about the executable model `OsmoVerif.SumTree` (Model/SumTree.lean, a
line-by-line mirror of osmoutils/sumtree/{tree,node}.go tied to the Go code by the `sumtree`
correspondence engine, which compares every internal node after every operation) and the
reference `OsmoVerif.Spec.SortedMap`.  `abs s` is the leaf level read as a sorted map; `WF` is the
store invariant (Proofs/SumTreeWF.lean): leaves strictly sorted starting with the empty-key
sentinel, every level's children lists concatenate to the level below INCLUDING the
accumulations (child acc = accumulation of the child node), every node non-empty, stored under
its first child's key, at most `m` children, one node on top.

Structure of the result
* queries: correct on EVERY well-formed tree, any height, any fan-out (induction over levels);
* insert-only fragment (Set/Increase/Decrease — all that x/lockup uses): preserves `WF` and
  refines the sorted map for every m ≥ 2 and every finite history (induction over the history);
* `TotalAccumulatedValue` as coded returns the value at the empty key (F3);
* removal: the leaf level is always right, but the internal levels are not (F4, F5): witnesses.
-/
import OsmoVerif.Proofs.SumTreeInsert
import OsmoVerif.Proofs.SumTreeIter

namespace OsmoVerif.Props.C16
open OsmoVerif.SumTree OsmoVerif.Spec

/-! ## (b) every query is right on every well-formed tree -/

/-- three-way split (`SplitAcc`): never panics and equals (Σ_{<k}, value at k, Σ_{>k}). -/
theorem split_correct_of_WF {s : Store} (h : WF s) (k : Key) :
    splitAcc s k = some (SortedMap.split (abs s) k) := splitAcc_correct h k

/-- point lookup — needs no invariant at all -/
theorem get_correct (s : Store) (k : Key) : get s k = SortedMap.get (abs s) k := SumTree.get_correct s k

/-- `SubsetAccumulation(lo, hi)`, both bounds given -/
theorem subset_correct_of_WF {s : Store} (h : WF s) (lo hi : Key) :
    subset s (Ptr.of lo) (Ptr.of hi) = some (SortedMap.subset (abs s) lo hi) := SumTree.subset_correct h lo hi

/-- `SubsetAccumulation(lo, nil)` -/
theorem subset_open_right_correct_of_WF {s : Store} (h : WF s) (lo : Key) :
    subset s (Ptr.of lo) Ptr.nil = some (SortedMap.sumGe (abs s) lo) := SumTree.subset_open_right_correct h lo

/-- `PrefixSum(k)` = `SubsetAccumulation(nil, k)` (nil or non-nil `k`) -/
theorem prefix_correct_of_WF {s : Store} (h : WF s) (k : Ptr) :
    prefixSum s k = some (SortedMap.prefixSum (abs s) k.key) := SumTree.prefixSum_correct h k

/-- ordered iteration -/
theorem iterate_correct (s : Store) : iterate s = SortedMap.iterate (abs s) := rfl

/-- bounded ordered iteration, every bound shape: `Tree.Iterator(begin, end)` (the store iterator seeks to
`nodeKey(0, begin)` and scans up to `nodeKey(0, end)`, or to the end of the leaf level when `end` is the nil slice)
returns exactly the sorted map's entries with `begin ≤ key` and, for a non-nil `end`, `key < end` — also for
`begin > end`, `begin = end`, absent bounds, and the empty non-nil `end` (which selects nothing). -/
theorem iterRange_correct_of_WF {s : Store} (h : WF s) (b e : Ptr) :
    iterRange s b e = SortedMap.range (abs s) b.key (endBound e) := scan_eq_range b.key (endBound e) h.good.1

/-- `Tree.ReverseIterator(begin, end)`: the same entries in descending order -/
theorem iterRangeRev_correct_of_WF {s : Store} (h : WF s) (b e : Ptr) :
    iterRangeRev s b e = (SortedMap.range (abs s) b.key (endBound e)).reverse := by
  rw [iterRangeRev, iterRange_correct_of_WF h]

/-- an open upper end (`end == nil`) never cuts the scan short: every key `≥ begin` is visited, whether or not it
extends `begin` as a byte prefix -/
theorem iterRange_open_end_complete {s : Store} (h : WF s) (b : Ptr) (kv : Key × Int)
    (hm : kv ∈ abs s) (hge : ¬ kv.1 < b.key) : kv ∈ iterRange s b Ptr.nil := by
  rw [iterRange_correct_of_WF h, SortedMap.range, List.mem_filter]
  refine ⟨hm, ?_⟩
  have : decide (¬ kv.1 < b.key) = true := decide_eq_true hge
  rw [this]
  rfl

/-- unbounded iteration is the whole map (no invariant needed) -/
theorem iterRange_unbounded (s : Store) : iterRange s Ptr.nil Ptr.nil = iterate s := scan_nil_none s.leaves

/-- the reference quantities are consistent: total = left + exact + right for every key -/
theorem spec_total_split {s : Store} (h : WF s) (k : Key) :
    SortedMap.total (abs s) = (SortedMap.split (abs s) k).1 + (SortedMap.split (abs s) k).2.1 +
      (SortedMap.split (abs s) k).2.2 := total_eq h.good.1 k

/-! ## total (holds since the `fix:` commit for F3; before it the code returned the value at the empty key) -/

/-- `TotalAccumulatedValue` is the sum of all leaves on every well-formed tree. -/
theorem total_correct_of_WF {s : Store} (h : WF s) :
    total s = some (SortedMap.total (abs s)) := SumTree.total_correct h

example : ∃ s, (do let s0 ← new 4; let s1 ← set s0 (Ptr.of [97]) 3; set s1 (Ptr.of [98]) 5) = some s ∧
      total s = some 8 := by
  refine ⟨_, rfl, ?_⟩; decide

/-! ## (c) the insert-only fragment, every m ≥ 2, every history -/

theorem new_WF {m : Nat} (hm : 2 ≤ m) : ∃ s, new m = some s ∧ WF s ∧ abs s = [([], 0)] ∧ s.m = m :=
  new_wf hm

/-- `Set` never panics on a well-formed tree, keeps it well-formed, and is `insert` on the map -/
theorem set_preserves_WF {s : Store} (h : WF s) (k : Ptr) (v : Int) :
    ∃ s', set s k v = some s' ∧ WF s' ∧ abs s' = SortedMap.insert (abs s) k.key v ∧ s'.m = s.m :=
  set_wf h k v

theorem increase_preserves_WF {s : Store} (h : WF s) (k : Ptr) (v : Int) :
    ∃ s', increase s k v = some s' ∧ WF s' ∧
      abs s' = SortedMap.insert (abs s) k.key (SortedMap.get (abs s) k.key + v) ∧ s'.m = s.m :=
  applyOp_wf h (.incr k v)

theorem decrease_preserves_WF {s : Store} (h : WF s) (k : Ptr) (v : Int) :
    ∃ s', decrease s k v = some s' ∧ WF s' ∧
      abs s' = SortedMap.insert (abs s) k.key (SortedMap.get (abs s) k.key - v) ∧ s'.m = s.m :=
  applyOp_wf h (.decr k v)

/-- every finite Set/Increase/Decrease history from `NewTree(m)`, m ≥ 2, runs without panic,
ends in a well-formed store whose leaves are exactly the sorted map the history denotes -/
theorem reachable_insert_only {m : Nat} (hm : 2 ≤ m) (ops : List Op) :
    ∃ s0 s, new m = some s0 ∧ run s0 ops = some s ∧ WF s ∧
      abs s = ops.foldl specOp [([], 0)] := by
  obtain ⟨s0, h0, hw0, ha0, _⟩ := new_wf hm
  obtain ⟨s, h1, h2, h3, _⟩ := run_wf ops hw0
  exact ⟨s0, s, h0, h1, h2, by rw [h3, ha0]⟩

/-- C16 for the insert-only fragment: after any such history every three-way split (hence
every subset/prefix sum, by the theorems above) equals the sorted-map answer -/
theorem insert_only_queries_correct {m : Nat} (hm : 2 ≤ m) (ops : List Op) (k : Key) :
    ∃ s0 s, new m = some s0 ∧ run s0 ops = some s ∧
      splitAcc s k = some (SortedMap.split (ops.foldl specOp [([], 0)]) k) ∧
      get s k = SortedMap.get (ops.foldl specOp [([], 0)]) k ∧
      iterate s = ops.foldl specOp [([], 0)] := by
  obtain ⟨s0, s, h0, h1, hw, ha⟩ := reachable_insert_only hm ops
  exact ⟨s0, s, h0, h1, by rw [← ha]; exact splitAcc_correct hw k,
    by rw [← ha]; exact SumTree.get_correct s k, ha⟩

/-! ## (d) removal -/

/-- PARTIAL: the leaf level (hence `Get` and iteration) is right after any `Remove` that does not
panic, with no hypothesis on the store.
FULL STATEMENT aimed at (not proved; false without the guards, see witnesses):
  `WF' s → 3 ≤ s.m → k.key ≠ [] → ∃ s', remove s k = some s' ∧ WF' s' ∧ abs s' = erase (abs s) k.key`
for the weaker invariant WF' (node key ≤ first child key < next node key) under which
`accSplit = some r → r = SortedMap.split …` but `accSplit` may be `none` (F4). -/
theorem remove_abs_partial {s s' : Store} {k : Ptr} (h : remove s k = some s') :
    abs s' = SortedMap.erase (abs s) k.key := remove_abs h

theorem remove_get_correct_partial {s s' : Store} {k : Ptr} (h : remove s k = some s') (j : Key) :
    get s' j = SortedMap.get (SortedMap.erase (abs s) k.key) j := by
  rw [SumTree.get_correct, remove_abs h]

/-- F4 witness (m = 3 ≥ 3, empty key untouched): set a,b,c; remove b; SplitAcc(b) panics
(`Children[-1]`), although the sorted-map answer is (1, 0, 4). -/
theorem split_panics_after_remove_witness :
    ∃ s, (do let s0 ← new 3; let s1 ← set s0 (Ptr.of [97]) 1; let s2 ← set s1 (Ptr.of [98]) 2
             let s3 ← set s2 (Ptr.of [99]) 4; remove s3 (Ptr.of [98])) = some s ∧
      splitAcc s [98] = none ∧ SortedMap.split (abs s) [98] = (1, 0, 4) := by
  refine ⟨_, rfl, ?_, ?_⟩ <;> decide

/-- `Remove` breaks `WF` (node key = first child key) even in the benign case above -/
theorem remove_breaks_nodekey_witness :
    ∃ s, (do let s0 ← new 3; let s1 ← set s0 (Ptr.of [97]) 1; let s2 ← set s1 (Ptr.of [98]) 2
             let s3 ← set s2 (Ptr.of [99]) 4; remove s3 (Ptr.of [98])) = some s ∧
      s.levels.head? = some [([], [([], 0), ([97], 1)]), ([98], [([99], 4)])] := by
  refine ⟨_, rfl, ?_⟩; decide


/-- F5 witness, fan-out 2 (empty key untouched): set a..f = 1,2,4,8,16,32; remove d; remove e; set d 64:
the key f drops out of the internal levels, `SplitAcc(ε)` = (0,0,71) but the map says (0,0,103);
`Get`/iteration are still right. -/
theorem remove_m2_wrong_sum_witness :
    ∃ s, (do let s0 ← new 2; let s1 ← set s0 (Ptr.of [97]) 1; let s2 ← set s1 (Ptr.of [98]) 2
             let s3 ← set s2 (Ptr.of [99]) 4; let s4 ← set s3 (Ptr.of [100]) 8
             let s5 ← set s4 (Ptr.of [101]) 16; let s6 ← set s5 (Ptr.of [102]) 32
             let s7 ← remove s6 (Ptr.of [100]); let s8 ← remove s7 (Ptr.of [101])
             set s8 (Ptr.of [100]) 64) = some s ∧
      splitAcc s [] = some (0, 0, 71) ∧ SortedMap.split (abs s) [] = (0, 0, 103) := by
  refine ⟨_, rfl, ?_, ?_⟩ <;> decide

/-- F5 witness, empty-key sentinel removed (m = 3): set a,b,c = 1,2,4; remove ε; remove a; set a 64:
`SplitAcc(a)` panics on a PRESENT key; the map says (0,64,6). -/
theorem remove_sentinel_witness :
    ∃ s, (do let s0 ← new 3; let s1 ← set s0 (Ptr.of [97]) 1; let s2 ← set s1 (Ptr.of [98]) 2
             let s3 ← set s2 (Ptr.of [99]) 4; let s4 ← remove s3 (Ptr.of [])
             let s5 ← remove s4 (Ptr.of [97]); set s5 (Ptr.of [97]) 64) = some s ∧
      splitAcc s [97] = none ∧ SortedMap.split (abs s) [97] = (0, 64, 6) := by
  refine ⟨_, rfl, ?_, ?_⟩ <;> decide

/-- F9 witness, m = 3, empty key untouched: set a..e = 1,2,4,8,16; remove a, e, b, c: the sibling
merge in `pull` writes the accumulation of the left node from BEFORE the merge into the parent:
the root says 0 for the node `ε` whose children accumulate to 8 (internal aggregate ≠ leaves). -/
theorem remove_merge_stale_acc_witness :
    ∃ s, (do let s0 ← new 3; let s1 ← set s0 (Ptr.of [97]) 1; let s2 ← set s1 (Ptr.of [98]) 2
             let s3 ← set s2 (Ptr.of [99]) 4; let s4 ← set s3 (Ptr.of [100]) 8
             let s5 ← set s4 (Ptr.of [101]) 16; let s6 ← remove s5 (Ptr.of [97])
             let s7 ← remove s6 (Ptr.of [101]); let s8 ← remove s7 (Ptr.of [98])
             remove s8 (Ptr.of [99])) = some s ∧
      s.levels = [[([], [([], 0), ([100], 8)])], [([], [([], 0)])]] := by
  refine ⟨_, rfl, ?_⟩; decide

/-- F9 witness with a wrong (non-panic) answer, m = 4, empty key untouched (found by the engine on
the real code): after the merge the root under-counts by the merged-in child:
`SplitAcc(ε)` = (0,0,480), the map says (0,0,482). -/
theorem remove_m4_wrong_sum_witness :
    ∃ s, (do let s0 ← new 4; let s1 ← set s0 (Ptr.of [103]) 1; let s2 ← set s1 (Ptr.of [106]) 2
             let s3 ← set s2 (Ptr.of [105]) 4; let s4 ← set s3 (Ptr.of [102]) 8
             let s5 ← set s4 (Ptr.of [101]) 32; let s6 ← set s5 (Ptr.of [99]) 64
             let s7 ← set s6 (Ptr.of [97]) 128; let s8 ← set s7 (Ptr.of [100]) 256
             let s9 ← remove s8 (Ptr.of [102]); let s10 ← remove s9 (Ptr.of [105])
             remove s10 (Ptr.of [103])) = some s ∧
      splitAcc s [] = some (0, 0, 480) ∧ SortedMap.split (abs s) [] = (0, 0, 482) := by
  refine ⟨_, rfl, ?_, ?_⟩ <;> decide

/-! ## non-vacuity: a concrete three-level well-formed tree and the theorems applied to it -/

/-- m = 2; leaves ε,a,aa,b,c; three internal levels (splits at two levels happened) -/
def ex : Store :=
  ⟨2, [([], 0), ([97], 5), ([97, 97], 1), ([98], 3), ([99], 7)],
   [[([], [([], 0), ([97], 5)]), ([97, 97], [([97, 97], 1)]), ([98], [([98], 3), ([99], 7)])],
    [([], [([], 5), ([97, 97], 1)]), ([98], [([98], 10)])],
    [([], [([], 6), ([98], 10)])]]⟩

example : (do let s0 ← new 2; let s1 ← set s0 (Ptr.of [97]) 5; let s2 ← set s1 (Ptr.of [98]) 3
              let s3 ← set s2 (Ptr.of [99]) 7; set s3 (Ptr.of [97, 97]) 1) = some ex := by decide

example : splitAcc ex [98] = some (6, 3, 7) := by decide
example : subset ex (Ptr.of [97]) (Ptr.of [98]) = some 9 := by decide
-- bounded iteration: open end from a present key (later keys do NOT extend it), absent begin with a bound,
-- reverse with an upper bound, empty non-nil end
example : iterRange ex (Ptr.of [97]) Ptr.nil = [([97], 5), ([97, 97], 1), ([98], 3), ([99], 7)] := by decide
example : iterRange ex (Ptr.of [97, 0]) (Ptr.of [99]) = [([97, 97], 1), ([98], 3)] := by decide
example : iterRangeRev ex Ptr.nil (Ptr.of [98]) = [([97, 97], 1), ([97], 5), ([], 0)] := by decide
example : iterRange ex Ptr.nil (Ptr.of []) = [] := by decide
example : iterRange ex (Ptr.of [99]) (Ptr.of [97]) = [] := by decide

end OsmoVerif.Props.C16
