/-
C10 — TWAP equals the time-weighted mean of the recorded spot prices.

Theorems over `OsmoVerif.Twap` (Model/Twap.lean; tied to x/twap by the `twap` engine, which drives the
real keeper through the app and replays every record update / query through this model).

All statements are for EVERY well-formed store `WF s`; `history_well_formed` shows by induction over the
event list that every history (pool creation, then any sequence of end-of-block updates — accepted,
rejected or panicking — and pruning passes) produces one.  `now` is the block time of the query; the
hypothesis `∀ r ∈ s.hist, r.time ≤ now` says that no record is in the future.

Vocabulary (Spec/Twap.lean): `weights h a b` lists every record with the canonical milliseconds of
`[a,b]` during which its price was the last recorded one (the explicit overlap
`max 0 (min (ms tᵢ₊₁) b − max (ms tᵢ) a)`), `wsum sel ws = Σ sel(recordᵢ)·weightᵢ`, `InForce`, `IsErr`.

FULL: history_well_formed, arith_acc_is_integral, weights_sum_to_interval, arith_twap_eq_weighted_mean
(+ rounding form), arith_between_min_max, point_interval_is_last_recorded_price,
prune_preserves_answers_in_window, error_flagged_iff_interval_touches_error (+ the general form without
the zero-price hypothesis; + start_inside_error_period_flagged, interval_after_recovery_not_flagged: the two
directions at nanosecond resolution, drain / recovery / start inside one millisecond included), geom_eq_exp2_mean_log2 (exact, in terms of the model's exp2 / logBase2 /
sigFigRound).
SEVERAL POOLS / PAIRS (`World`, one `Store` per (pool, denom0, denom1); `endBlock` = the record loop of
`Keeper.EndBlock` over the changed pools, logging-and-continuing on a pool's error; FULL, all worlds):
endBlock_pool_independent (what a block does to pool B depends on pool B's stores and inputs only — not on
which other pools changed, nor on whether their updates were rejected), endBlock_other_pool_irrelevant,
changed_pool_gets_fresh_records (a pool whose update is acceptable on its own ends the block with a record at
the block time carrying the block's prices, for every pair, whatever the other pools did),
prune_world_pair_by_pair / prune_pair_leaves_other_pairs (a pass prunes every pair on its own records),
prune_world_preserves_answers_in_window, world_history_well_formed (so every single-pair theorem above holds
for every pair of every pool).
STORE KEYS (the model's keys are structured; the byte layout is covered separately): the key constructors the
keeper uses are REGENERATED from types/keys.go as token lists (`Gen.Twap.key_*`, tools/extract/gen_twap_keys.go) and
interpreted by `Keys.build`; FULL over those: prune_range_selects_own_pair_before_cutoff (the reverse range scan
of the pruning pass holds exactly the historical keys of ITS (pool, denom0, denom1) with a time string below the
cutoff's — for all pool ids and denoms whose bytes stay below the separator, prefixes of each other included),
lookup_range_selects_own_pair_up_to_time (getRecordAtOrBeforeTime), historical_key_injective, most_recent_key_injective.
Assumed, not modelled: FormatTimeString is fixed-width and order preserving; the iterator order is bytes.Compare.
GEOMETRIC ACCURACY (formerly PARTIAL, now theorems over Mathlib reals in Props/C10Geom.lean, composed from the C13 bounds of
LogBase2 / Exp2 / SigFigRound through this model): geom_twap_accuracy (|TWAP − 2^(Σ wᵢ·log₂ pᵢ / Σ wᵢ)| ≤ (5·10^-8 + 10^-17)·T + 2·10^-18),
geom_twap_between_min_max, geom_twap_reciprocal — each for every answered query with a NON-ZERO accumulator difference.
  The code (and so the model) VIOLATES all three for a zero accumulator difference: see the `_witness` theorems below and in
  C10Geom (recorded finding F14 = F-C10a / F-C10b).
-/
import OsmoVerif.Proofs.TwapQuery
import OsmoVerif.Proofs.TwapWorld
import OsmoVerif.Proofs.TwapKeys
import OsmoVerif.Proofs.NumLemmas

namespace OsmoVerif.Props.C10
open OsmoVerif.Twap OsmoVerif.Num OsmoVerif.Spec

/-! ## every history is well formed -/

/-- Induction over the event list: after a pool creation (at a time not before Go's zero time) any
sequence of end-of-block updates and pruning passes leaves the stores well formed: the index is a chain
in which every accumulator is its predecessor's advanced by the predecessor's price, the most recent
record is the last index entry, no error time lies after its record. -/
theorem history_well_formed {now height sp0 sp1 : Int} {e : Bool} (hz : zeroTime ≤ now) (ops : List Op) :
    WF (runOps (create {} now height sp0 sp1 e) ops) :=
  (WF.create hz).runOps ops

/-- one accepted end-of-block update: the new record sits at the block time with the block's prices, its
error time is the block time iff the spot price read failed (else inherited), and it extends the chain. -/
theorem update_step {s s' : Store} {now height sp0 sp1 : Int} {e : Bool} {r : TwapRecord}
    (hr : s.recent = some r) (h : update s now height sp0 sp1 e = .ok s') :
    ∃ n, s'.recent = some n ∧ n.time = now ∧ n.sp0 = sp0 ∧ n.sp1 = sp1 ∧
      n.lastErr = (if e then now else r.lastErr) ∧ (Step r n ∨ SameKey r n) := by
  unfold update at h
  rw [hr] at h
  simp only at h
  cases hu : updateRecord r now height sp0 sp1 e with
  | err => rw [hu] at h; cases h
  | panic => rw [hu] at h; cases h
  | ok n =>
    rw [hu] at h
    simp only [Res.bind] at h
    injection h with h
    subst h
    obtain ⟨a, _, c, d, _, f, g⟩ := updateRecord_spec hu
    exact ⟨n, rfl, a, c, d, f, g⟩

/-! ## the accumulators are integrals of the recorded prices -/

/-- **arith_acc_is_integral**: the accumulator stored in any record equals the accumulator of the first
retained record plus `Σ pᵢ·Δmsᵢ` over the records before it, exactly (likewise for the other direction
and for the geometric accumulator with `pᵢ` replaced by `twapLog pᵢ`).  For a history that was never
pruned the first record is the creation record, whose accumulators are zero (`newRecord`). -/
theorem arith_acc_is_integral {s : Store} (wf : WF s) {r0 r : TwapRecord} {rest : List TwapRecord}
    (hh : s.hist = r0 :: rest) (hr : r ∈ s.hist) :
    r.acc0 = r0.acc0 + wsum (·.sp0) (weights s.hist (canonicalMs r0.time) (canonicalMs r.time)) ∧
    r.acc1 = r0.acc1 + wsum (·.sp1) (weights s.hist (canonicalMs r0.time) (canonicalMs r.time)) ∧
    r.geom = r0.geom + wsum logW (weights s.hist (canonicalMs r0.time) (canonicalMs r.time)) := by
  have h0 : r0 ∈ s.hist := by rw [hh]; exact List.mem_cons_self
  have hle : r0.time ≤ r.time := by
    rw [hh] at hr
    rcases List.mem_cons.mp hr with h | h
    · rw [h]
    · exact Int.le_of_lt (Chain.head_lt (hh ▸ wf.chain) r h)
  have l0 := recAtOrBefore_self wf.chain h0
  have l1 := recAtOrBefore_self wf.chain hr
  have e0 := accDiff_eq_wsum (Chain.acc0 wf.chain) hle l0 l1
  have e1 := accDiff_eq_wsum (Chain.acc1 wf.chain) hle l0 l1
  have e2 := accDiff_eq_wsum (Chain.geomAcc wf.chain) hle l0 l1
  simp only [Int.sub_self, Int.mul_zero, Int.add_zero] at e0 e1 e2
  exact ⟨by omega, by omega, by omega⟩

theorem created_record_has_zero_accumulators (now height sp0 sp1 : Int) (e : Bool) :
    (newRecord now height sp0 sp1 e).acc0 = 0 ∧ (newRecord now height sp0 sp1 e).acc1 = 0 ∧
    (newRecord now height sp0 sp1 e).geom = 0 := ⟨rfl, rfl, rfl⟩

/-- the weights of an interval that starts at or after the first retained record are non-negative and
sum to the length of the interval in canonical milliseconds: they are the weights of a mean. -/
theorem weights_sum_to_interval {s : Store} (wf : WF s) {a b : Int} {ra : TwapRecord} (hab : a ≤ b)
    (hra : recAtOrBefore s.hist a = some ra) :
    wsum (fun _ => 1) (weights s.hist (canonicalMs a) (canonicalMs b)) = canonicalMs b - canonicalMs a ∧
    ∀ p ∈ weights s.hist (canonicalMs a) (canonicalMs b), 0 ≤ p.2 ∧ p.1 ∈ s.hist := by
  refine ⟨?_, fun p hp => weights_nonneg hp⟩
  have hrb : ∃ rb, recAtOrBefore s.hist b = some rb := by
    cases hh : s.hist with
    | nil => rw [hh] at hra; cases hra
    | cons r rs =>
      rw [hh] at hra
      have : r.time ≤ a := by
        rw [recAtOrBefore_cons] at hra
        split at hra
        · assumption
        · cases hra
      exact recAtOrBefore_some_of_head_le (by omega)
  obtain ⟨rb, hrb⟩ := hrb
  have := accDiff_eq_wsum (Chain.clock wf.chain) hab hra hrb
  omega

/-! ## arithmetic TWAP -/

/-- **arith_twap_eq_weighted_mean**: for a non-degenerate interval the arithmetic TWAP returned is the
code's division (`QuoInt64`, truncated) of `Σ pᵢ·overlapᵢ` by the interval length in canonical
milliseconds, the prices being the recorded end-of-block prices of the asked direction, interpolation
from the last recorded price included (the overlap of the last record reaches to the end time). -/
theorem arith_twap_eq_weighted_mean {s : Store} (wf : WF s) {now a b : Int} {q0 : Bool} {res : Int × Bool}
    (hnow : ∀ r ∈ s.hist, r.time ≤ now) (hne : a ≠ b)
    (h : getTwap s now a b q0 .arithmetic = .ok res) :
    arithFromDiff (wsum (fun r => if q0 then r.sp0 else r.sp1) (weights s.hist (canonicalMs a) (canonicalMs b)))
      (canonicalMs b - canonicalMs a) = some res.1 := by
  obtain ⟨hab, _, ra, rb, A, B, hra, hrb, hA, hB, hc⟩ := getTwap_ok wf hnow h
  obtain ⟨a1, _, _, a4, a5, _, _⟩ := interp_inherit_fields hA
  obtain ⟨b1, _, _, b4, b5, _, _⟩ := endRecord_fields hB
  obtain ⟨hv, _⟩ := computeTwap_value (by rw [a1, b1]; omega) hc
  unfold strategyTwap at hv
  simp only [a1, b1] at hv
  cases q0 with
  | true =>
    simp only [if_true] at hv ⊢
    cases hd : Dec.sub B.acc0 A.acc0 with
    | none => rw [hd] at hv; cases hv
    | some d =>
      rw [hd] at hv
      simp only [Option.bind_some] at hv
      have := decSub_some hd
      have e := accDiff_eq_wsum (Chain.acc0 wf.chain) hab hra hrb
      rw [← e, ← b4, ← a4, ← this]
      exact hv
  | false =>
    simp only [Bool.false_eq_true, if_false] at hv ⊢
    cases hd : Dec.sub B.acc1 A.acc1 with
    | none => rw [hd] at hv; cases hv
    | some d =>
      rw [hd] at hv
      simp only [Option.bind_some] at hv
      have := decSub_some hd
      have e := accDiff_eq_wsum (Chain.acc1 wf.chain) hab hra hrb
      rw [← e, ← b5, ← a5, ← this]
      exact hv

/-- the same with the rounding spelled out: the result is `Σ pᵢ·overlapᵢ / Δms` rounded toward zero
(= floor for the non-negative prices pools report), and `Δms > 0`. -/
theorem arith_twap_is_truncated_weighted_mean {s : Store} (wf : WF s) {now a b : Int} {q0 : Bool} {res : Int × Bool}
    (hnow : ∀ r ∈ s.hist, r.time ≤ now) (hne : a ≠ b)
    (h : getTwap s now a b q0 .arithmetic = .ok res) :
    0 < canonicalMs b - canonicalMs a ∧
    IsTrunc (wsum (fun r => if q0 then r.sp0 else r.sp1) (weights s.hist (canonicalMs a) (canonicalMs b)))
      (canonicalMs b - canonicalMs a) res.1 := by
  have hv := arith_twap_eq_weighted_mean wf hnow hne h
  obtain ⟨hab, _⟩ := getTwap_ok wf hnow h
  have hm := ms_mono hab
  unfold arithFromDiff Dec.quoInt at hv
  split at hv
  · cases hv
  · rename_i hz
    injection hv with hv
    have hpos : 0 < canonicalMs b - canonicalMs a := by omega
    exact ⟨hpos, hv ▸ tdiv_isTrunc _ _ hpos⟩

/-- **arith_between_min_max**: the arithmetic TWAP lies between any bounds of the prices that carry
positive weight in the interval (in particular between their minimum and maximum). -/
theorem arith_between_min_max {s : Store} (wf : WF s) {now a b lo hi : Int} {q0 : Bool} {res : Int × Bool}
    (hnow : ∀ r ∈ s.hist, r.time ≤ now) (hne : a ≠ b)
    (h : getTwap s now a b q0 .arithmetic = .ok res)
    (hb : ∀ p ∈ weights s.hist (canonicalMs a) (canonicalMs b), 0 < p.2 →
      lo ≤ (if q0 then p.1.sp0 else p.1.sp1) ∧ (if q0 then p.1.sp0 else p.1.sp1) ≤ hi) :
    lo ≤ res.1 ∧ res.1 ≤ hi := by
  obtain ⟨hpos, ht⟩ := arith_twap_is_truncated_weighted_mean wf hnow hne h
  obtain ⟨hab, _, ra, _, _, _, hra, _⟩ := getTwap_ok wf hnow h
  obtain ⟨hsum, hnn⟩ := weights_sum_to_interval wf hab hra
  obtain ⟨l1, l2⟩ := wsum_bounds (sel := fun r => if q0 then r.sp0 else r.sp1) (lo := lo) (hi := hi)
    (fun p hp => (hnn p hp).1) hb
  rw [hsum] at l1 l2
  generalize wsum (fun r => if q0 then r.sp0 else r.sp1) (weights s.hist (canonicalMs a) (canonicalMs b)) = S at *
  generalize canonicalMs b - canonicalMs a = W at *
  rcases Int.lt_or_le S 0 with hS | hS
  · obtain ⟨c1, c2⟩ := ht.2 hS
    constructor
    · have : (lo - 1) * W < res.1 * W := by rw [Int.sub_mul]; omega
      have := lt_of_mul_lt_mul_pos hpos this; omega
    · have : (res.1 - 1) * W < hi * W := by omega
      have := lt_of_mul_lt_mul_pos hpos this; omega
  · obtain ⟨c1, c2⟩ := ht.1 hS
    constructor
    · have : lo * W < (res.1 + 1) * W := by omega
      have := lt_of_mul_lt_mul_pos hpos this; omega
    · have : res.1 * W < (hi + 1) * W := by rw [Int.add_mul]; omega
      have := lt_of_mul_lt_mul_pos hpos this; omega

/-- an interval of length zero returns the last recorded price (either strategy). -/
theorem point_interval_is_last_recorded_price {s : Store} (wf : WF s) {now a : Int} {q0 : Bool} {st : Strategy}
    {res : Int × Bool} (hnow : ∀ r ∈ s.hist, r.time ≤ now) (h : getTwap s now a a q0 st = .ok res) :
    ∃ r, recAtOrBefore s.hist a = some r ∧ res.1 = (if q0 then r.sp0 else r.sp1) := by
  obtain ⟨_, _, ra, rb, A, B, hra, hrb, hA, hB, hc⟩ := getTwap_ok wf hnow h
  obtain ⟨a1, _, _, _⟩ := interp_inherit_fields hA
  obtain ⟨b1, b2, b3, _⟩ := endRecord_fields hB
  refine ⟨rb, hrb, ?_⟩
  unfold computeTwap at hc
  simp only at hc
  rw [if_pos (by rw [a1, b1]; omega)] at hc
  injection hc with hc
  rw [← hc, b2, b3]

/-! ## pruning -/

/-- **prune_preserves_answers_in_window**: a pruning pass with cutoff `lastKept` changes no answer (value,
flag, error or panic; either strategy) of a query whose start is at or after the cutoff. -/
theorem prune_preserves_answers_in_window {s : Store} (wf : WF s) {lastKept now a b : Int} {q0 : Bool} {st : Strategy}
    (ha : lastKept ≤ a) :
    getTwap (prune s lastKept) now a b q0 st = getTwap s now a b q0 st := by
  have key : ∀ t, lastKept ≤ t → getInterpolatedRecord (prune s lastKept) now t = getInterpolatedRecord s now t := by
    intro t ht
    unfold getInterpolatedRecord
    show (match recAtOrBefore (pruneHist s.hist lastKept) t with | none => _ | some r => _) = _
    rw [recAtOrBefore_pruneHist wf.chain ht]
    rfl
  unfold getTwap
  split
  · rfl
  · rename_i hab
    split
    · rename_i hbn
      unfold getTwapToNow
      rw [key a ha]
      rfl
    · split
      · rfl
      · rw [key a ha, key b (by omega)]

/-! ## the error flag -/

/-- the flag in full generality: a query is flagged iff an error record is in force during `[a,b]`, or
the record in force at the start / at the end has a zero `sp0` price and is interpolated (the code moves
the error time to the query time there because the geometric accumulator cannot be advanced). -/
theorem error_flag_general {s : Store} (wf : WF s) {now a b : Int} {q0 : Bool} {st : Strategy} {res : Int × Bool}
    (hnow : ∀ r ∈ s.hist, r.time ≤ now) (h : getTwap s now a b q0 st = .ok res) :
    ∃ ra rb, recAtOrBefore s.hist a = some ra ∧ recAtOrBefore s.hist b = some rb ∧
      (res.2 = true ↔ (∃ r, IsErr r ∧ InForce s.hist r a b) ∨ (ra.sp0 = 0 ∧ ra.time ≠ a) ∨ (rb.sp0 = 0 ∧ rb.time ≠ b)) := by
  obtain ⟨hab, _, ra, rb, A, B, hra, hrb, hA, hB, hc⟩ := getTwap_ok wf hnow h
  refine ⟨ra, rb, hra, hrb, ?_⟩
  obtain ⟨a1, _, _, _, _, _, a7⟩ := interp_inherit_fields hA
  obtain ⟨_, _, _, _, _, _, b7⟩ := endRecord_fields hB
  have hf := computeTwap_flag hc
  obtain ⟨ram, rat⟩ := recAtOrBefore_mem hra
  obtain ⟨rbm, rbt⟩ := recAtOrBefore_mem hrb
  have ralate := recAtOrBefore_latest wf.chain hra
  have rblate := recAtOrBefore_latest wf.chain hrb
  have raErr := wf.errLe ra ram
  have rbErr := wf.errLe rb rbm
  -- the two records in force at the ends are in force
  have inA : InForce s.hist ra a b := ⟨ram, by omega, fun r' hr' hlt => by
    rcases Int.lt_or_le a r'.time with h1 | h1
    · exact h1
    · have := ralate r' hr' h1; omega⟩
  have inB : InForce s.hist rb a b := ⟨rbm, rbt, fun r' hr' hlt => by
    rcases Int.lt_or_le b r'.time with h1 | h1
    · omega
    · have := rblate r' hr' h1; omega⟩
  rw [hf]
  unfold errFlag
  rw [Bool.or_eq_true, decide_eq_true_iff, decide_eq_true_iff, a1]
  constructor
  · rintro (hB' | hA')
    · -- the end record's error time is at or after the start
      by_cases zb : rb.sp0 = 0 ∧ rb.time ≠ b
      · exact Or.inr (Or.inr zb)
      · by_cases eb : rb.time = rb.lastErr
        · exact Or.inl ⟨rb, eb.symm, inB⟩
        · have hBl : B.lastErr = rb.lastErr := by
            rcases b7 with b7 | b7
            · rw [b7, if_neg zb, if_neg eb]
            · rw [b7, if_neg zb]
          rw [hBl] at hB'
          -- rb.lastErr ≥ a: it stems from an error record at or after a
          cases hh : s.hist with
          | nil => rw [hh] at ram; cases ram
          | cons hd tl =>
            have hc' : Chain (hd :: tl) := hh ▸ wf.chain
            have hdm : hd ∈ s.hist := by rw [hh]; exact List.mem_cons_self
            have hdle : hd.time ≤ ra.time := by
              rw [hh] at ram
              rcases List.mem_cons.mp ram with e | e
              · rw [e]
              · exact Int.le_of_lt (Chain.head_lt hc' ra e)
            rcases lastErr_origin hc' rb (hh ▸ rbm) with e | ⟨z, hz, hze, hzt, hzy⟩
            · -- inherited from the head: then the head is an error record at time a
              have := wf.errLe hd hdm
              have hde : IsErr hd := by unfold IsErr; omega
              refine Or.inl ⟨hd, hde, List.mem_cons_self, by omega, fun r' hr' hlt => by omega⟩
            · refine Or.inl ⟨z, hze, hz, by omega, fun r' hr' hlt => by omega⟩
    · -- the start record's error time is the start
      by_cases za : ra.sp0 = 0 ∧ ra.time ≠ a
      · exact Or.inr (Or.inl za)
      · by_cases ea : ra.time = ra.lastErr
        · exact Or.inl ⟨ra, ea.symm, inA⟩
        · rw [a7, if_neg za, if_neg ea] at hA'
          exact absurd (by omega : ra.time = ra.lastErr) ea
  · rintro (⟨r, hre, hrm, hrb', hrf⟩ | za | zb)
    · -- an error record in force
      rcases Int.lt_or_le a r.time with hgt | hle
      · -- strictly inside: the end record has inherited (at least) this error time
        left
        have hrle : r.time ≤ rb.time := rblate r hrm hrb'
        have hm := lastErr_mono wf.chain wf.errLe hrm rbm hrle
        unfold IsErr at hre
        have hge : a ≤ rb.lastErr := by omega
        rcases b7 with b7 | b7
        · rw [b7]; split
          · omega
          · split <;> omega
        · rw [b7]; split <;> omega
      · -- at or before the start: it is the start record
        right
        have h1 : r.time ≤ ra.time := ralate r hrm hle
        have h2 : ¬ r.time < ra.time := fun hlt => by have := hrf ra ram hlt; omega
        have : r = ra := chain_unique_time wf.chain hrm ram (by omega)
        subst this
        unfold IsErr at hre
        rw [a7]
        split
        · rfl
        · rw [if_pos hre.symm]
    · right; rw [a7, if_pos za]
    · left
      rcases b7 with b7 | b7 <;> rw [b7, if_pos zb] <;> omega

/-- **error_flagged_iff_interval_touches_error**: under the invariant the real pool modules guarantee
(a zero price is only ever recorded together with an error: gamm rejects non-positive and CL rejects zero
prices; the engine's oracle checks it on every record), a query is flagged exactly when the price of an
error record is in force at some instant of the interval. -/
theorem error_flagged_iff_interval_touches_error {s : Store} (wf : WF s) {now a b : Int} {q0 : Bool} {st : Strategy}
    {res : Int × Bool} (hnow : ∀ r ∈ s.hist, r.time ≤ now)
    (hzero : ∀ r ∈ s.hist, r.sp0 = 0 → IsErr r)
    (h : getTwap s now a b q0 st = .ok res) :
    res.2 = true ↔ ∃ r, IsErr r ∧ InForce s.hist r a b := by
  obtain ⟨hab, _⟩ := getTwap_ok wf hnow h
  obtain ⟨ra, rb, hra, hrb, hiff⟩ := error_flag_general wf hnow h
  rw [hiff]
  obtain ⟨ram, rat⟩ := recAtOrBefore_mem hra
  obtain ⟨rbm, rbt⟩ := recAtOrBefore_mem hrb
  constructor
  · rintro (h1 | ⟨z, _⟩ | ⟨z, _⟩)
    · exact h1
    · refine ⟨ra, hzero ra ram z, ram, by omega, fun r' hr' hlt => ?_⟩
      rcases Int.lt_or_le a r'.time with h1 | h1
      · exact h1
      · have := recAtOrBefore_latest wf.chain hra r' hr' h1; omega
    · refine ⟨rb, hzero rb rbm z, rbm, rbt, fun r' hr' hlt => ?_⟩
      rcases Int.lt_or_le b r'.time with h1 | h1
      · omega
      · have := recAtOrBefore_latest wf.chain hrb r' hr' h1; omega
  · exact Or.inl

/-- **start_inside_error_period_flagged** — the error flag at NANOSECOND resolution: if the record in force at the
start `a` is an error record, every answered interval `[a, b]` is flagged, wherever `a`, the record's time and the
next record (the recovery) sit inside their milliseconds.  The accumulators only see canonical milliseconds; the error
bookkeeping compares the nanosecond instants `time` / `lastErr`, and the start record interpolated to `a` inherits the
error AT `a` (`getInterpolatedRecord`), so `startRecord.LastErrorTime = startRecord.Time` holds exactly.  (A record time
rounded to milliseconds while the error time is not — seeded change C10-m7 — breaks `interp`'s `time := newTime`,
i.e. this theorem's model no longer is the code: T1 and the differential run report it.) -/
theorem start_inside_error_period_flagged {s : Store} (wf : WF s) {now a b : Int} {q0 : Bool} {st : Strategy}
    {res : Int × Bool} (hnow : ∀ r ∈ s.hist, r.time ≤ now) (h : getTwap s now a b q0 st = .ok res)
    {ra : TwapRecord} (hra : recAtOrBefore s.hist a = some ra) (he : IsErr ra) : res.2 = true := by
  obtain ⟨hab, _⟩ := getTwap_ok wf hnow h
  obtain ⟨ra', rb, hra', _, hiff⟩ := error_flag_general wf hnow h
  rw [hra] at hra'
  cases hra'
  obtain ⟨ram, rat⟩ := recAtOrBefore_mem hra
  refine hiff.mpr (Or.inl ⟨ra, he, ram, by omega, fun r' hr' hlt => ?_⟩)
  rcases Int.lt_or_le a r'.time with h1 | h1
  · exact h1
  · have := recAtOrBefore_latest wf.chain hra r' hr' h1; omega

/-- … and an interval that starts at or after the recovery record (no error record in force during it) is not
flagged, however few nanoseconds after the drain the recovery was recorded. -/
theorem interval_after_recovery_not_flagged {s : Store} (wf : WF s) {now a b : Int} {q0 : Bool} {st : Strategy}
    {res : Int × Bool} (hnow : ∀ r ∈ s.hist, r.time ≤ now) (hzero : ∀ r ∈ s.hist, r.sp0 = 0 → IsErr r)
    (h : getTwap s now a b q0 st = .ok res)
    (hclean : ∀ r ∈ s.hist, IsErr r → ¬ InForce s.hist r a b) : res.2 = false := by
  cases hf : res.2 with
  | false => rfl
  | true =>
    obtain ⟨r, he, hin⟩ := (error_flagged_iff_interval_touches_error wf hnow hzero h).mp hf
    exact absurd hin (hclean r hin.1 he)

/-! ## geometric TWAP -/

/-- **geom_eq_exp2_mean_log2**: for a non-degenerate interval the geometric TWAP returned is the model's
closing computation `geomFromDiff` (zero for a zero sum; otherwise `Exp2` of the absolute value of the
truncated mean, reciprocal taken for (negative mean, quote = asset0) and (non-negative mean, quote =
asset1), `Dec()`, `SigFigRound` to `SpotPriceSigFigs`: `geomFinish`) applied to `Σ twapLog(pᵢ)·overlapᵢ` and the
interval length — exact, in terms of the model's `logBase2` / `exp2` / `sigFigRound`.  Records with a zero
price contribute `0` (`logW`); by `error_flag_general` such an interval is flagged when it is interpolated
from one. -/
theorem geom_eq_exp2_mean_log2 {s : Store} (wf : WF s) {now a b : Int} {q0 : Bool} {res : Int × Bool}
    (hnow : ∀ r ∈ s.hist, r.time ≤ now) (hne : a ≠ b)
    (h : getTwap s now a b q0 .geometric = .ok res) :
    geomFromDiff q0 (wsum logW (weights s.hist (canonicalMs a) (canonicalMs b))) (canonicalMs b - canonicalMs a)
      = some res.1 := by
  obtain ⟨hab, _, ra, rb, A, B, hra, hrb, hA, hB, hc⟩ := getTwap_ok wf hnow h
  obtain ⟨a1, _, _, _, _, a6, _⟩ := interp_inherit_fields hA
  obtain ⟨b1, _, _, _, _, b6, _⟩ := endRecord_fields hB
  obtain ⟨hv, _⟩ := computeTwap_value (by rw [a1, b1]; omega) hc
  unfold strategyTwap at hv
  simp only [a1, b1] at hv
  cases hd : Dec.sub B.geom A.geom with
  | none => rw [hd] at hv; cases hv
  | some d =>
    rw [hd] at hv
    simp only [Option.bind_some] at hv
    have := decSub_some hd
    have e := accDiff_eq_wsum (Chain.geomAcc wf.chain) hab hra hrb
    rw [← e, ← b6, ← a6, ← this]
    exact hv

/-- the exponent really is the truncated weighted mean of the base-2 logarithms: for a non-zero sum the
value is `geomFinish` (`Exp2`, reciprocal rule, `Dec()`, `SigFigRound`) of `(Σ twapLog(pᵢ)·overlapᵢ).tdiv Δms`. -/
theorem geomFromDiff_eq (q0 : Bool) (S W : Int) (hS : S ≠ 0) (hW : W ≠ 0) :
    geomFromDiff q0 S W = geomFinish q0 (S.tdiv W) := by
  unfold geomFromDiff
  rw [if_neg hS]
  unfold Dec.quoInt
  rw [if_neg hW, Option.bind_some]

/-- and a zero sum (every logarithm in force zero, logarithms that cancel, or no millisecond of weight) is
answered with zero: the source of finding F-C10a. -/
theorem geomFromDiff_zero (q0 : Bool) (W : Int) : geomFromDiff q0 0 W = some 0 := rfl

/-! ## several pools and pairs -/

/-- **endBlock_pool_independent**: what the record loop of `EndBlock` does to the records of pool `B` is
determined by pool `B`'s own stores before the block and pool `B`'s own entry in the block (whether it
changed, the end-of-block prices of its pairs) — for ANY two worlds that agree on pool `B` and ANY two lists
of changed pools with the same entries for `B`: which other pools changed, in which order, with which
prices, and whether their updates were accepted or rejected, is irrelevant. -/
theorem endBlock_pool_independent {B : Nat} {now height : Int} {w1 w2 w1' w2' : World} {c1 c2 : List PoolInput}
    (hi1 : InputsOfOwnPool c1) (hi2 : InputsOfOwnPool c2) (hw : AgreeOn B w1 w2)
    (hB : c1.filter (fun p => decide (p.pool = B)) = c2.filter (fun p => decide (p.pool = B)))
    (h1 : endBlock now height w1 c1 = some w1') (h2 : endBlock now height w2 c2 = some w2') :
    AgreeOn B w1' w2' := by
  obtain ⟨a, ea, ha⟩ := endBlock_drop_others (B := B) hi1 h1
  obtain ⟨b, eb, hb⟩ := endBlock_drop_others (B := B) hi2 h2
  rw [hB] at ea
  have hiF : InputsOfOwnPool (c2.filter fun p => decide (p.pool = B)) := fun q hq => hi2 q (List.mem_filter.mp hq).1
  have hbF : ∀ q ∈ c2.filter (fun p => decide (p.pool = B)), q.pool = B := fun q hq => by
    simpa using (List.mem_filter.mp hq).2
  have r := endBlock_local (now := now) (height := height) hiF hbF hw
  rw [ea, eb] at r
  exact ha.trans (r.trans hb.symm)

/-- a changed pool `A ≠ B` more or less in the block — accepted, or rejected (`record already exists for this
time`, missing record, …) — leaves pool `B`'s records after the block the same. -/
theorem endBlock_other_pool_irrelevant {B : Nat} {now height : Int} {w w1' w2' : World} {c : List PoolInput} {pA : PoolInput}
    (hi : InputsOfOwnPool (pA :: c)) (hA : pA.pool ≠ B)
    (h1 : endBlock now height w (pA :: c) = some w1') (h2 : endBlock now height w c = some w2') :
    AgreeOn B w1' w2' :=
  endBlock_pool_independent hi (fun q hq => hi q (List.mem_cons_of_mem _ hq)) (AgreeOn.refl B w)
    (List.filter_cons_of_neg (by simpa using hA)) h1 h2

/-- **changed_pool_gets_fresh_records**: if the update of changed pool `B` is acceptable on its own (run alone on
the state before the block, `updateRecords` returns no error), then after the block — whatever the other
changed pools did — every pair of `B` has a most recent record at the block time and height with the block's
end-of-block prices of that pair. -/
theorem changed_pool_gets_fresh_records {B : Nat} {now height : Int} {w w' wB : World} {c : List PoolInput} {p : PoolInput}
    (hi : InputsOfOwnPool c) (hp : c.filter (fun q => decide (q.pool = B)) = [p])
    (hd : (p.pairs.map (·.key)).Nodup)
    (hacc : updateRecords w now height p.pairs = some (wB, false))
    (h : endBlock now height w c = some w') :
    ∀ i ∈ p.pairs, ∃ s n, w'.get i.key = some s ∧ s.recent = some n ∧ n.time = now ∧ n.height = height ∧
      n.sp0 = i.sp0 ∧ n.sp1 = i.sp1 := by
  have hpm : p ∈ c.filter (fun q => decide (q.pool = B)) := by rw [hp]; exact List.mem_cons_self
  have hpc : p ∈ c := (List.mem_filter.mp hpm).1
  have hpB : p.pool = B := by simpa using (List.mem_filter.mp hpm).2
  have hi1 : InputsOfOwnPool [p] := fun q hq => by
    rcases List.mem_cons.mp hq with e | e
    · exact e ▸ hi p hpc
    · cases e
  have h2 : endBlock now height w [p] = some wB := by
    unfold endBlock; rw [hacc]; rfl
  have hf : [p].filter (fun q => decide (q.pool = B)) = [p] := List.filter_cons_of_pos (by simpa using hpB)
  have ag := endBlock_pool_independent (B := B) hi hi1 (AgreeOn.refl B w) (by rw [hp, hf]) h h2
  intro i hi'
  obtain ⟨s, n, a, b⟩ := updateRecords_fresh hd hacc i hi'
  exact ⟨s, n, by rw [ag i.key ((hi p hpc i hi').trans hpB)]; exact a, b⟩

/-- a list of changed pools without two entries of the same pool: the entries of `p`'s pool are `[p]`. -/
theorem filter_own_pool_eq_singleton {c : List PoolInput} (hn : (c.map (·.pool)).Nodup) {p : PoolInput} (hp : p ∈ c) :
    c.filter (fun q => decide (q.pool = p.pool)) = [p] := by
  induction c with
  | nil => cases hp
  | cons x xs ih =>
    rw [List.map_cons, List.nodup_cons] at hn
    rcases List.mem_cons.mp hp with e | e
    · subst e
      rw [List.filter_cons_of_pos (by simp)]
      congr 1
      apply List.filter_eq_nil_iff.mpr
      intro q hq
      simp only [decide_eq_true_eq]
      intro hqp
      exact hn.1 (List.mem_map.mpr ⟨q, hq, hqp⟩)
    · have hx : x.pool ≠ p.pool := fun h => hn.1 (List.mem_map.mpr ⟨p, e, h.symm⟩)
      rw [List.filter_cons_of_neg (by simpa using hx)]
      exact ih hn.2 e

/-- **endBlock_records_every_changed_pool**: the record loop of `EndBlock` has NO capacity: for a list of changed pools of
ANY length (one entry per pool — the transient store holds a pool id once), every pool whose update is acceptable on its
own has, after the block, for every one of its pairs a most recent record at the block time and height with the block's
end-of-block prices — the first pool of the list and the last, whatever the order of the list (the order of the
changed-pool store is the little-endian one of the ids, not the numeric one) and however many pools precede it. -/
theorem endBlock_records_every_changed_pool {now height : Int} {w w' : World} {c : List PoolInput}
    (hi : InputsOfOwnPool c) (hn : (c.map (·.pool)).Nodup)
    (hd : ∀ p ∈ c, (p.pairs.map (·.key)).Nodup)
    (hacc : ∀ p ∈ c, ∃ wB, updateRecords w now height p.pairs = some (wB, false))
    (h : endBlock now height w c = some w') :
    ∀ p ∈ c, ∀ i ∈ p.pairs, ∃ s n, w'.get i.key = some s ∧ s.recent = some n ∧ n.time = now ∧ n.height = height ∧
      n.sp0 = i.sp0 ∧ n.sp1 = i.sp1 := by
  intro p hp
  obtain ⟨wB, hB⟩ := hacc p hp
  exact changed_pool_gets_fresh_records (B := p.pool) hi (filter_own_pool_eq_singleton hn hp) (hd p hp) hB h

/-- **prune_world_pair_by_pair**: a completed pruning pass prunes every pair's index on its own records: the
stores of a pair after the pass are a function of that pair's stores before it (no record of any other
pair, of this or another pool, is read or removed). -/
theorem prune_world_pair_by_pair (w : World) (lastKept : Int) (k : PairKey) :
    (pruneWorld w lastKept).get k = (w.get k).map fun s => prune s lastKept := pruneWorld_get w lastKept k

/-- the pass on one pair leaves every record of every other pair untouched. -/
theorem prune_pair_leaves_other_pairs (w : World) {k k' : PairKey} (lastKept : Int) (h : k' ≠ k) :
    (prunePair w k lastKept).get k' = w.get k' := prunePair_get_other w lastKept h

/-- **prune_world_preserves_answers_in_window**: a completed pass changes no answer of any pair of any pool
for a query starting at or after the cutoff. -/
theorem prune_world_preserves_answers_in_window {w : World} (hw : WorldWF w) (k : PairKey)
    {lastKept now a b : Int} {q0 : Bool} {st : Strategy} (ha : lastKept ≤ a) :
    getTwapW (pruneWorld w lastKept) k now a b q0 st = getTwapW w k now a b q0 st := by
  unfold getTwapW
  rw [pruneWorld_get]
  cases hk : w.get k with
  | none => rfl
  | some s => exact prune_preserves_answers_in_window (hw k s hk) ha

/-- every world history is well formed pair by pair: pool creations (new pools: new keys), blocks (any changed
pools, accepted or rejected updates), pruning passes.  So every theorem above about one pair's `Store` holds for
every pair of every pool of a world. -/
theorem world_history_well_formed :
    WorldWF [] ∧
    (∀ {w : World} {now height : Int} {is : List PairInput}, WorldWF w → zeroTime ≤ now →
      (∀ i ∈ is, w.get i.key = none) → (is.map (·.key)).Nodup → WorldWF (createPairs w now height is)) ∧
    (∀ {w w' : World} {now height : Int} {c : List PoolInput}, WorldWF w → endBlock now height w c = some w' → WorldWF w') ∧
    (∀ {w : World} (lastKept : Int), WorldWF w → WorldWF (pruneWorld w lastKept)) :=
  ⟨fun _ _ h => (by cases h),
   fun {_ _ _ _} hw hz hn hd => WorldWF.createPairs hz hw hn hd,
   fun {_ _ _ _ _} hw h => WorldWF.endBlock hw h,
   fun c hw => WorldWF.pruneWorld hw c⟩

/-! ## the byte layout of the store keys

`Gen.Twap.key_*` are regenerated from x/twap/types/keys.go (and from which constructor `StoreHistoricalTWAP`,
`pruneRecordsBeforeTimeButNewest`, `getRecordAtOrBeforeTime` pass to the store): a changed format string, a dropped
separator, another constructor changes these definitions and the theorems are re-checked against the new ones.
`Below sep x`: no byte of `x` reaches the separator (decimal pool ids, valid denoms, the sortable time format). -/

section keys
open OsmoVerif.Twap.Keys

/-- `Keys.sepByte` is the byte of the regenerated `KeySeparator`. -/
theorem sepByte_is_KeySeparator : ofString Gen.Twap.KeySeparator = [sepByte] := by decide +kernel

/-- **prune_range_selects_own_pair_before_cutoff**: the range `[start, end)` of the pruning pass for (pool, d0, d1)
and cutoff time string `a.time` contains the historical key of a record (k.pool, k.d0, k.d1, k.time) iff it is a
record of the SAME pool and pair and its time string is below the cutoff's.  No record of another pair — a denom
that extends `d1`, a pool id that extends `pool` — is ever in the range. -/
theorem prune_range_selects_own_pair_before_cutoff {a k : Args} {lo hi key : Bytes}
    (ha1 : Below sepByte a.pool) (ha2 : Below sepByte a.d0) (ha3 : Below sepByte a.d1)
    (hk1 : Below sepByte k.pool) (hk2 : Below sepByte k.d0) (hk3 : Below sepByte k.d1)
    (hlo : build a Gen.Twap.key_pruneStart = some lo) (hhi : build a Gen.Twap.key_pruneEnd = some hi)
    (hkey : build k Gen.Twap.key_hist = some key) :
    (¬ lt key lo ∧ lt key hi) ↔ (k.pool = a.pool ∧ k.d0 = a.d0 ∧ k.d1 = a.d1 ∧ lt k.time a.time) := by
  have hs : ofString "|" = [sepByte] := by decide +kernel
  simp only [Gen.Twap.key_pruneStart, Gen.Twap.key_pruneEnd, Gen.Twap.key_hist, build, tok, hs] at hlo hhi hkey
  simp at hlo hhi hkey
  subst hlo hhi hkey
  generalize ofString "historical_pool_index|" = P
  have := three_field_range (sep := sepByte) (P := P) (kt := k.time) (t := a.time) ha1 ha2 ha3 hk1 hk2 hk3
  simpa only [List.append_assoc, List.cons_append, List.nil_append, List.append_nil] using this

/-- **lookup_range_selects_own_pair_up_to_time**: the range of `getRecordAtOrBeforeTime` for (pool, d0, d1, t) contains
the historical key of a record iff it is a record of the same pool and pair whose time string is not above `t`'s
(time strings have one width). -/
theorem lookup_range_selects_own_pair_up_to_time {a k : Args} {lo hi key : Bytes}
    (ha1 : Below sepByte a.pool) (ha2 : Below sepByte a.d0) (ha3 : Below sepByte a.d1)
    (hk1 : Below sepByte k.pool) (hk2 : Below sepByte k.d0) (hk3 : Below sepByte k.d1)
    (hlen : k.time.length = a.time.length)
    (hlo : build a Gen.Twap.key_lookupStart = some lo) (hhi : build a Gen.Twap.key_lookupEnd = some hi)
    (hkey : build k Gen.Twap.key_hist = some key) :
    (¬ lt key lo ∧ lt key hi) ↔ (k.pool = a.pool ∧ k.d0 = a.d0 ∧ k.d1 = a.d1 ∧ ¬ lt a.time k.time) := by
  have hs : ofString "|" = [sepByte] := by decide +kernel
  simp only [Gen.Twap.key_lookupStart, Gen.Twap.key_lookupEnd, Gen.Twap.key_hist, build, tok, hs] at hlo hhi hkey
  simp at hlo hhi hkey
  subst hlo hhi hkey
  generalize ofString "historical_pool_index|" = P
  generalize hd : ofString "." = dot
  have hdot : ∃ c, dot = [c] := ⟨46, by rw [← hd]; decide +kernel⟩
  obtain ⟨c, hc⟩ := hdot
  subst hc
  have := three_field_range (sep := sepByte) (P := P) (kt := k.time) (t := a.time ++ [c]) ha1 ha2 ha3 hk1 hk2 hk3
  rw [lt_snoc_of_same_length c hlen] at this
  simpa only [List.append_assoc, List.cons_append, List.nil_append, List.append_nil] using this

/-- one historical key per (pool, pair, time string). -/
theorem historical_key_injective {a k : Args} {x : Bytes}
    (ha1 : Below sepByte a.pool) (ha2 : Below sepByte a.d0) (ha3 : Below sepByte a.d1)
    (hk1 : Below sepByte k.pool) (hk2 : Below sepByte k.d0) (hk3 : Below sepByte k.d1)
    (h1 : build a Gen.Twap.key_hist = some x) (h2 : build k Gen.Twap.key_hist = some x) :
    k.pool = a.pool ∧ k.d0 = a.d0 ∧ k.d1 = a.d1 ∧ k.time = a.time := by
  have hs : ofString "|" = [sepByte] := by decide +kernel
  simp only [Gen.Twap.key_hist, build, tok, hs] at h1 h2
  simp at h1 h2
  rw [← h2] at h1
  have e := List.append_cancel_left h1
  obtain ⟨e1, e⟩ := field_unique ha1 hk1 e
  obtain ⟨e2, e⟩ := field_unique ha2 hk2 e
  obtain ⟨e3, e4⟩ := field_unique ha3 hk3 e
  exact ⟨e1.symm, e2.symm, e3.symm, e4.symm⟩

/-- one most recent key per (pool, pair). -/
theorem most_recent_key_injective {a k : Args} {x : Bytes}
    (ha1 : Below sepByte a.pool20) (ha2 : Below sepByte a.d0) (hk1 : Below sepByte k.pool20) (hk2 : Below sepByte k.d0)
    (h1 : build a Gen.Twap.key_recent = some x) (h2 : build k Gen.Twap.key_recent = some x) :
    k.pool20 = a.pool20 ∧ k.d0 = a.d0 ∧ k.d1 = a.d1 := by
  have hs : ofString "|" = [sepByte] := by decide +kernel
  simp only [Gen.Twap.key_recent, build, tok, hs] at h1 h2
  simp at h1 h2
  rw [← h2] at h1
  have e := List.append_cancel_left h1
  obtain ⟨e1, e⟩ := field_unique ha1 hk1 e
  obtain ⟨e2, e3⟩ := field_unique ha2 hk2 e
  exact ⟨e1.symm, e2.symm, e3.symm⟩

/-- non-vacuity, on denoms that extend each other (uusd / uusdc) and pool ids that extend each other (1 / 10): the pruning
range of (1, uatom, uusd) with cutoff 2030-01-03 holds the older record of its own pair, not the newer one, and no
record of (1, uatom, uusdc) or (10, uatom, uusd); a start key WITHOUT the trailing separator would hold the
(1, uatom, uusdc) record. -/
example :
    let mk (pool d0 d1 time : String) : Args := ⟨ofString pool, [], ofString d0, ofString d1, ofString time⟩
    let a := mk "1" "uatom" "uusd" "2030-01-03T00:00:00.000000000"
    let inRange (k : Args) (start : List (String × String)) : Bool :=
      match build a start, build a Gen.Twap.key_pruneEnd, build k Gen.Twap.key_hist with
      | some lo, some hi, some key => decide (¬ lt key lo ∧ lt key hi)
      | _, _, _ => false
    inRange (mk "1" "uatom" "uusd" "2030-01-02T00:00:00.000000000") Gen.Twap.key_pruneStart = true ∧
    inRange (mk "1" "uatom" "uusd" "2030-01-04T00:00:00.000000000") Gen.Twap.key_pruneStart = false ∧
    inRange (mk "1" "uatom" "uusdc" "2030-01-02T00:00:00.000000000") Gen.Twap.key_pruneStart = false ∧
    inRange (mk "10" "uatom" "uusd" "2030-01-02T00:00:00.000000000") Gen.Twap.key_pruneStart = false ∧
    inRange (mk "1" "uatom" "uusdc" "2030-01-04T00:00:00.000000000") (Gen.Twap.key_pruneStart.dropLast) = true := by
  decide +kernel

end keys

/-! ## recorded findings: the zero accumulator difference -/

/-- F-C10a witness: a pool whose price is exactly 1 (log₂ = 0) for 5 s: the geometric TWAP is reported as
0 in BOTH quote directions (true value 1; the product of the two directions is 0, not 1), while the
arithmetic TWAP is 1. -/
theorem geom_zero_when_all_prices_one_witness :
    let s := runOps (create {} 1000000000 1 P18 P18 false) [.update 3000000000 2 P18 P18 false, .update 6000000000 3 P18 P18 false]
    getTwap s 7000000000 1000000000 6000000000 true .geometric = .ok (0, false) ∧
    getTwap s 7000000000 1000000000 6000000000 false .geometric = .ok (0, false) ∧
    getTwap s 7000000000 1000000000 6000000000 true .arithmetic = .ok (P18, false) := by decide +kernel

/-- F-C10b witness: start and end 500 ns apart inside one canonical millisecond: the arithmetic strategy
divides by a zero millisecond delta (Go panic), the geometric strategy returns 0 although the price in
force is 4. -/
theorem sub_millisecond_interval_witness :
    let s := runOps (create {} 1000000000 1 (4 * P18) (P18 / 4) false) [.update 3000000000 2 (4 * P18) (P18 / 4) false]
    getTwap s 7000000000 3000000000 3000000500 true .arithmetic = .panic ∧
    getTwap s 7000000000 3000000000 3000000500 true .geometric = .ok (0, false) := by decide +kernel

/-! ## non-vacuity -/

/-- a history with a price change, an error block and a pruning pass; answers of both strategies. -/
example :
    let s := runOps (create {} 1000000000 1 (2 * P18) (P18 / 2) false)
      [.update 1000000000 1 (4 * P18) (P18 / 4) false, .update 3000000000 2 P18 P18 false,
       .update 6000000000 3 P18 P18 true, .prune 4000000000]
    s.hist.length = 2 ∧
    getTwap s 7000000000 3000000000 6000000000 true .arithmetic = .ok (P18, true) ∧
    getTwap s 7000000000 1000000000 6000000000 true .arithmetic = .err := by decide +kernel

example :
    let s := runOps (create {} 1000000000 1 (2 * P18) (P18 / 2) false)
      [.update 1000000000 1 (4 * P18) (P18 / 4) false, .update 3000000000 2 P18 P18 false]
    getTwap s 7000000000 1000000000 5000000000 true .arithmetic = .ok (5 * P18 / 2, false) ∧
    getTwap s 7000000000 1000000000 5000000000 true .geometric = .ok (2 * P18, false) ∧
    getTwap s 7000000000 1000000000 5000000000 false .geometric = .ok (P18 / 2, false) ∧
    weights s.hist (canonicalMs 1000000000) (canonicalMs 5000000000) =
      [(⟨1000000000, 1, 4 * P18, P18 / 4, 0, 0, 0, zeroTime⟩, 2000),
       (⟨3000000000, 2, P18, P18, 8000 * P18, 500 * P18, 4000 * P18, zeroTime⟩, 2000)] := by decide +kernel

/-- block times with sub-millisecond parts: the pool is drained at 3 s + 700 ns and recovers 200 ns later, INSIDE the same
canonical millisecond.  Flag of the answer (both strategies): start between drain and recovery → flagged; start on the
recovery record or 1 ns after it → not flagged; the instants themselves (start = end); an interval ending on / 1 ns before the drain. -/
example :
    let s := runOps (create {} 1000000300 1 (2 * P18) (P18 / 2) false)
      [.update 3000000700 2 0 0 true, .update 3000000900 3 (4 * P18) (P18 / 4) false, .update 5000000100 4 (4 * P18) (P18 / 4) false]
    let flag := fun (r : Res (Int × Bool)) => match r with | .ok (_, f) => some f | _ => none
    flag (getTwap s 6000000000 3000000800 5000000300 true .arithmetic) = some true ∧
    flag (getTwap s 6000000000 3000000800 5000000300 true .geometric) = some true ∧
    flag (getTwap s 6000000000 3000000900 5000000300 true .arithmetic) = some false ∧
    flag (getTwap s 6000000000 3000000901 5000000300 false .geometric) = some false ∧
    flag (getTwap s 6000000000 3000000800 3000000800 true .arithmetic) = some true ∧
    flag (getTwap s 6000000000 3000000700 3000000700 true .geometric) = some true ∧
    flag (getTwap s 6000000000 3000000900 3000000900 true .arithmetic) = some false ∧
    flag (getTwap s 6000000000 1000000300 3000000700 true .arithmetic) = some true ∧
    flag (getTwap s 6000000000 1000000300 3000000699 true .arithmetic) = some false := by decide +kernel

/-- two pools, two blocks with the SAME timestamp: pool 1 (two pairs, one denom a prefix of the other) changed in
both blocks — its second update is rejected and its records stay; pool 2 changed only in the second block and
gets its record there.  The block without pool 1 leaves pool 2 with the same stores. -/
example :
    let P : Int := P18
    let k1a : PairKey := ⟨1, "uatom", "uusd"⟩
    let k1b : PairKey := ⟨1, "uatom", "uusdc"⟩
    let k1c : PairKey := ⟨1, "uusd", "uusdc"⟩
    let k2 : PairKey := ⟨2, "uusd", "uusdc"⟩
    let w0 := createPairs (createPairs [] 1000000000 1 [⟨k1a, 2 * P, P / 2, false⟩, ⟨k1b, 4 * P, P / 4, false⟩, ⟨k1c, 2 * P, P / 2, false⟩])
      1000000000 1 [⟨k2, P, P, false⟩]
    let in1 : PoolInput := ⟨1, [⟨k1a, 3 * P, P / 3, false⟩, ⟨k1b, 5 * P, P / 5, false⟩, ⟨k1c, 2 * P, P / 2, false⟩]⟩
    let in2 : PoolInput := ⟨2, [⟨k2, 8 * P, P / 8, false⟩]⟩
    ((endBlock 3000000000 2 w0 [in1]).bind fun w1 =>
      (endBlock 3000000000 3 w1 [in1, in2]).bind fun w2 =>
      (endBlock 3000000000 3 w1 [in2]).map fun w2' =>
        decide (
          (updateRecords w1 3000000000 3 in1.pairs).map (·.2) = some true ∧      -- pool 1 is rejected in the second block
          w2.get k1a = w1.get k1a ∧ w2.get k1b = w1.get k1b ∧ w2.get k1c = w1.get k1c ∧
          ((w2.get k2).bind (·.recent)).map (fun r => (r.time, r.height, r.sp0)) = some (3000000000, 3, 8 * P) ∧
          w2.get k2 = w2'.get k2 ∧
          getTwapW (pruneWorld w2 3000000000) k1b 5000000000 3000000000 5000000000 true .arithmetic = .ok (5 * P, false) ∧
          getTwapW (pruneWorld w2 3000000000) k2 5000000000 3000000000 5000000000 true .arithmetic = .ok (8 * P, false) ∧
          (pruneWorld w2 3000000000).get k2 = (w2.get k2).map (fun s => prune s 3000000000))) = some true := by
  decide +kernel

/-- the order in which `updateRecords` visits a pool's pairs is the byte order of the most recent keys: with the
separator above every denom character a denom sorts AFTER its own extensions. -/
example :
    (sortByRecentKey [⟨⟨1, "uusd", "zzz"⟩, 0, 0, false⟩, ⟨⟨1, "uusdc", "zzz"⟩, 0, 0, false⟩, ⟨⟨1, "uusd", "uusdc"⟩, 0, 0, false⟩]).map
      (fun i => (i.key.d0, i.key.d1)) = [("uusdc", "zzz"), ("uusd", "uusdc"), ("uusd", "zzz")] := by decide +kernel

/-- `n` two-asset pools created in one block (price 2), ids in the order of the changed-pool store for ids up to 511:
256, 1, 257, 2, … (low byte first), and a block that changes every one of them (price 4). -/
def manyIds (n : Nat) : List Nat := (List.range n).map fun i => if i % 2 = 0 then 256 + i / 2 else (i + 1) / 2
def manyWorld (n : Nat) : World :=
  (manyIds n).foldl (fun w id => createPairs w 1000000000 1 [⟨⟨id, "uatom", "uusd"⟩, 2 * P18, P18 / 2, false⟩]) []
def manyChanged (n : Nat) : List PoolInput :=
  (manyIds n).map fun id => ⟨id, [⟨⟨id, "uatom", "uusd"⟩, 4 * P18, P18 / 4, false⟩]⟩

/-- 130 pools change in one block (more than any small capacity): the hypotheses of `endBlock_records_every_changed_pool`
hold and the LAST pool of the list has its record. -/
example :
    let w := manyWorld 130
    let c := manyChanged 130
    c.length = 130 ∧ (c.map (·.pool)).Nodup ∧
    (∀ p ∈ c, (∀ i ∈ p.pairs, i.key.pool = p.pool) ∧ (p.pairs.map (·.key)).Nodup ∧
      (updateRecords w 3000000000 2 p.pairs).map (·.2) = some false) ∧
    ((endBlock 3000000000 2 w c).bind fun w' => (w'.get ⟨65, "uatom", "uusd"⟩).bind fun s => s.recent.map fun r => (r.time, r.height, r.sp0, r.sp1))
      = some (3000000000, 2, 4 * P18, P18 / 4) ∧
    c.getLast?.map (·.pool) = some 65 := by decide +kernel

end OsmoVerif.Props.C10
