/-
C14 — tick and price conversions: bounds, rejection outside the range, spacing rounding, and
partial correctness of the sqrt-price → tick bucket search.  (Closed formula, strict monotonicity of
tick→price and monotonicity of tick→sqrt-price are in Props/C14Mono.lean.)
-/
import OsmoVerif.Model.Tick
import OsmoVerif.Proofs.NumLemmas

namespace OsmoVerif.Props.C14
open OsmoVerif.Tick OsmoVerif.Num OsmoVerif.MathM OsmoVerif.Gen

/-! ## constants regenerated from the source -/
theorem tick_constants :
    CL.MinInitializedTick = -108000000 ∧ CL.MaxTick = 342000000 ∧ CL.MinInitializedTickV2 = -270000000 ∧
    CL.MinCurrentTick = CL.MinInitializedTick - 1 ∧ CL.MinCurrentTickV2 = CL.MinInitializedTickV2 - 1 ∧
    CL.ExponentAtPriceOne = -6 ∧ geoDist = 9000000 ∧
    CL.MaxSpotPriceBigDec = 10 ^ 38 * P36 ∧ CL.MinSpotPriceV2 = 10 ^ 6 ∧ CL.MinSpotPriceBigDec = 10 ^ 24 := by
  decide +kernel

/-! ## out-of-range ticks and prices are rejected -/
theorem tick_out_of_range_rejected {t : Int} (h : t < CL.MinCurrentTickV2 ∨ t > CL.MaxTick) :
    tickToPrice t = none ∧ tickToSqrtPrice t = none := by
  have hc := tick_constants
  have h0 : t ≠ 0 := by omega
  have h1 : ¬ (t = CL.MinInitializedTickV2 ∨ t = CL.MinCurrentTickV2) := by omega
  have hag : tickToAdditiveGeometric t = none := by
    unfold tickToAdditiveGeometric
    rw [if_neg h0, if_neg h1]
    rcases h with h | h
    · rw [if_pos h]
    · by_cases h2 : t < CL.MinCurrentTickV2
      · rw [if_pos h2]
      · rw [if_neg h2, if_pos h]
  have hp : tickToPrice t = none := by
    unfold tickToPrice
    rw [if_neg h0, if_neg h1, hag]; rfl
  exact ⟨hp, by unfold tickToSqrtPrice; rw [hp]; rfl⟩

theorem price_out_of_range_rejected {p : Int} (h : p > CL.MaxSpotPriceBigDec ∨ p < CL.MinSpotPriceV2) :
    calculatePriceToTick p = none := by
  unfold calculatePriceToTick
  by_cases h0 : p < 0
  · rw [if_pos h0]
  · rw [if_neg h0, if_pos h]

/-! ## rounding a tick to a spacing never moves it up, never out of range -/
/-- the code's "truncated remainder, plus spacing if negative" is the Euclidean remainder. -/
theorem tmod_adjust_eq_emod (t s : Int) (hs : 0 < s) :
    (if t.tmod s < 0 then t.tmod s + s else t.tmod s) = t % s := by
  obtain ⟨e, hp, hn⟩ := tdiv_tmod_spec t s hs
  have h1 := Int.emod_nonneg t (by omega : s ≠ 0)
  have h2 := Int.emod_lt_of_pos t hs
  have h3 := Int.mul_ediv_add_emod t s
  generalize t.tmod s = m0 at *
  generalize t.tdiv s = q at *
  generalize t / s = q' at *
  generalize t % s = m' at *
  have hb : (t < 0 → -s < m0 ∧ m0 ≤ 0) ∧ (0 ≤ t → 0 ≤ m0 ∧ m0 < s) := ⟨hn, hp⟩
  split
  · rename_i hneg
    have key : s * (q - 1 - q') = m' - (m0 + s) := by
      rw [Int.mul_sub, Int.mul_sub, Int.mul_comm s q]; omega
    have hrange : -s < m0 := by
      rcases Int.lt_or_le t 0 with ht | ht
      · exact (hn ht).1
      · have := hp ht; omega
    have : q - 1 - q' = 0 := by
      rcases Int.lt_trichotomy (q - 1 - q') 0 with hlt | heq | hgt
      · have : s * (q - 1 - q') ≤ s * (-1) := Int.mul_le_mul_of_nonneg_left (by omega) (by omega)
        omega
      · exact heq
      · have : s * 1 ≤ s * (q - 1 - q') := Int.mul_le_mul_of_nonneg_left (by omega) (by omega)
        omega
    rw [this] at key; omega
  · rename_i hnn
    have hb : 0 ≤ m0 ∧ m0 < s := by
      rcases Int.lt_or_le t 0 with ht | ht
      · have := hn ht; omega
      · exact hp ht
    have key : s * (q - q') = m' - m0 := by rw [Int.mul_sub, Int.mul_comm s q]; omega
    have : q - q' = 0 := by
      rcases Int.lt_trichotomy (q - q') 0 with hlt | heq | hgt
      · have : s * (q - q') ≤ s * (-1) := Int.mul_le_mul_of_nonneg_left (by omega) (by omega)
        omega
      · exact heq
      · have : s * 1 ≤ s * (q - q') := Int.mul_le_mul_of_nonneg_left (by omega) (by omega)
        omega
    rw [this] at key; omega

/-- closed form of `RoundDownTickToSpacing`: `t − (t mod s)` (Euclidean), range-checked. -/
theorem roundDown_eq {t s : Int} (hs : 0 < s) :
    roundDownTickToSpacing t s =
      if t - t % s > CL.MaxTick ∨ t - t % s < CL.MinInitializedTickV2 then none else some (t - t % s) := by
  unfold roundDownTickToSpacing
  rw [if_neg (by omega)]
  simp only [tmod_adjust_eq_emod t s hs]
  have : (if t % s ≠ 0 then t - t % s else t) = t - t % s := by
    split
    · rfl
    · rename_i h; have : t % s = 0 := by omega
      omega
  rw [this]

theorem roundDown_spec {t s r : Int} (hs : 0 < s) (h : roundDownTickToSpacing t s = some r) :
    r ≤ t ∧ t - s < r ∧ r % s = 0 ∧ CL.MinInitializedTickV2 ≤ r ∧ r ≤ CL.MaxTick := by
  rw [roundDown_eq hs] at h
  have h1 := Int.emod_nonneg t (by omega : s ≠ 0)
  have h2 := Int.emod_lt_of_pos t hs
  split at h
  · cases h
  · rename_i hr
    injection h with h
    subst h
    refine ⟨by omega, by omega, ?_, by omega, by omega⟩
    have : t - t % s = s * (t / s) := by have := Int.mul_ediv_add_emod t s; omega
    rw [this]; exact Int.mul_emod_right _ _

theorem roundDown_rejects_only_out_of_range {t s : Int} (hs : 0 < s) (h : roundDownTickToSpacing t s = none) :
    t - t % s > CL.MaxTick ∨ t - t % s < CL.MinInitializedTickV2 := by
  rw [roundDown_eq hs] at h
  split at h
  · assumption
  · cases h

/-! ## sqrt price → tick: the returned tick's bucket contains the sqrt price -/
/-- Partial correctness by construction of the ±1 correction: whenever a tick is returned, the
sqrt price is at or above that tick's sqrt price and below the next tick's (upper edge exclusive),
except at the very top where the maximum sqrt price maps to the (inclusive) last tick. -/
theorem sqrtPriceToTick_bucket {s t : Int} (h : calculateSqrtPriceToTick s = some t) :
    ∃ lo, tickToSqrtPrice t = some lo ∧ lo ≤ s ∧
      ((∃ hi, tickToSqrtPrice (t + 1) = some hi ∧ s < hi) ∨
       (tickToSqrtPrice t = some s ∧ ∃ below, tickToSqrtPrice (t - 1) = some below ∧ below ≤ s)) := by
  unfold calculateSqrtPriceToTick at h
  cases hp : BigDec.mul s s with
  | none => rw [hp] at h; cases h
  | some price =>
    rw [hp] at h
    simp only [Option.bind_some, bind] at h
    cases ht0 : calculatePriceToTick price with
    | none => rw [ht0] at h; cases h
    | some tick0 =>
      rw [ht0] at h
      simp only [Option.bind_some] at h
      split at h
      · cases h
      · -- name the adjusted candidate
        generalize hadj : (if tick0 ≤ CL.MinInitializedTickV2 then (CL.MinInitializedTickV2 + 1, true)
            else if tick0 ≥ CL.MaxTick - 1 then (CL.MaxTick - 2, true) else (tick0, false)) = adj at h
        obtain ⟨tick, oob⟩ := adj
        simp only at h
        cases h1 : tickToSqrtPrice (tick + 1) with
        | none => rw [h1] at h; cases h
        | some sp1 =>
          rw [h1] at h
          simp only [Option.bind_some] at h
          split at h
          · rename_i hge1
            cases h2 : tickToSqrtPrice (tick + 2) with
            | none => rw [h2] at h; cases h
            | some sp2 =>
              rw [h2] at h
              simp only [Option.bind_some] at h
              split at h
              · cases h
              · rename_i hnot
                split at h
                · rename_i heq
                  injection h with h; subst h; subst heq
                  refine ⟨s, h2, Int.le_refl _, Or.inr ⟨h2, sp1, ?_, hge1⟩⟩
                  have : tick + 2 - 1 = tick + 1 := by omega
                  rw [this]; exact h1
                · rename_i hne
                  injection h with h; subst h
                  refine ⟨sp1, h1, hge1, Or.inl ⟨sp2, ?_, ?_⟩⟩
                  · have : tick + 1 + 1 = tick + 2 := by omega
                    rw [this]; exact h2
                  · -- not (s ≥ sp2 [if !oob]) and not (s > sp2 [if oob]) and s ≠ sp2 ⇒ s < sp2
                    cases oob <;> simp at hnot <;> omega
          · rename_i hlt1
            cases h0 : tickToSqrtPrice tick with
            | none => rw [h0] at h; cases h
            | some sp0 =>
              rw [h0] at h
              simp only [Option.bind_some] at h
              split at h
              · rename_i hge0
                injection h with h; subst h
                exact ⟨sp0, h0, hge0, Or.inl ⟨sp1, h1, by omega⟩⟩
              · rename_i hlt0
                cases hm : tickToSqrtPrice (tick - 1) with
                | none => rw [hm] at h; cases h
                | some spm =>
                  rw [hm] at h
                  simp only [Option.bind_some] at h
                  split at h
                  · cases h
                  · rename_i hgem
                    injection h with h; subst h
                    refine ⟨spm, hm, by omega, Or.inl ⟨sp0, ?_, by omega⟩⟩
                    have : tick - 1 + 1 = tick := by omega
                    rw [this]; exact h0

/-! ## non-vacuity -/
example : tickToPrice 1 = some 1000001000000000000000000000000000000 := by decide +kernel
example : calculateSqrtPriceToTick 1000000499999875001000000000000000000 = some 1 := by decide +kernel
example : roundDownTickToSpacing (-17) 10 = some (-20) := by decide +kernel

end OsmoVerif.Props.C14
