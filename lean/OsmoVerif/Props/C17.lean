/- C17 — epoch timers tick once per elapsed period and hook failures stay contained.

Model: `OsmoVerif/Model/Epochs.lean` (mirror of x/epochs BeginBlocker + MultiEpochHooks +
osmoutils.ApplyFuncIfNoError; tied to the Go code by the `epochs` engine).  Vocabulary:
`OsmoVerif/Spec/Epochs.lean`.  All theorems quantify over ALL states / blocks / scripts / histories
(`Reach`: arbitrary block times, heights and scripts, any number of timers and subscribers; `ReachMono`:
block times non-decreasing — the only place where that hypothesis is needed is `tick_iff_after_end_mono`
and `started_start_le`).  "Committed" = the block's BeginBlocker did not panic; a panicking (out-of-gas)
block is rolled back as a whole (`oog_propagates`). -/
import OsmoVerif.Proofs.EpochsReach
import OsmoVerif.Proofs.EpochsPrefix
import OsmoVerif.Proofs.EpochsViews
namespace OsmoVerif.Props.C17
open OsmoVerif.Epochs

/-- Bridge between the model's block function and the hook-free per-timer step: a block either fails as
a whole (state unchanged, nothing signalled) or every timer `e` is replaced by `pureStep e` and the
signals attributed to `e` are exactly `pureSignals e`. -/
theorem block_timer_effect (s : State) (b : Block) (hd : Distinct s.timers) (e : EpochInfo) (he : e ∈ s.timers) :
    ((beginBlock s b).panicked = true ∧ stepBlock s b = s ∧ committedSignals s b = []) ∨
    ((beginBlock s b).panicked = false ∧ pureStep b.t b.h e ∈ (stepBlock s b).timers ∧
      sigsFor e.identifier (committedSignals s b) = (pureSignals b.t e).map (fun s => (s.kind, s.epoch))) := by
  rcases stepBlock_cases s b with h | ⟨hp, ht, _, hs⟩
  · exact Or.inl h
  · refine Or.inr ⟨hp, ?_, ?_⟩
    · rw [ht]; exact List.mem_map.2 ⟨e, he, rfl⟩
    · rw [hs]; exact sigsFor_flatMap _ _ hd e he

/-- identifiers stay distinct (so "the timer with identifier id" is well defined in every reachable state) -/
theorem distinct_preserved (s : State) (b : Block) (hd : Distinct s.timers) : Distinct (stepBlock s b).timers :=
  distinct_stepBlock s b hd

theorem reach_distinct {s : State} {tr : List Signal} (h : Reach s tr) : Distinct s.timers := (reach_inv h).distinct

/-- a script without out-of-gas outcomes never makes BeginBlocker panic -/
theorem noOog_not_panicked (s : State) (b : Block) (hn : NoOog b.script) : (beginBlock s b).panicked = false :=
  processTimers_noOog _ _ _ hn _ _

/-! ### timers -/

/-- never ticks (no state change, no signal) in a block whose time is before the start time -/
theorem no_tick_before_start (s : State) (b : Block) (hd : Distinct s.timers) (e : EpochInfo) (he : e ∈ s.timers)
    (hlt : b.t < e.startTime) :
    e ∈ (stepBlock s b).timers ∧ sigsFor e.identifier (committedSignals s b) = [] := by
  have ht := ticks_false_of_lt hlt
  rcases block_timer_effect s b hd e he with ⟨_, h, hs⟩ | ⟨_, h, hs⟩
  · rw [h, hs]; exact ⟨he, rfl⟩
  · simp only [pureStep, pureSignals, ht] at h hs
    exact ⟨h, by simpa using hs⟩

/-- the first committed block at or after the start time starts epoch 1 AT the start time (not at the
block time), records the block height, and raises exactly `start 1` -/
theorem first_tick_sets_start (s : State) (b : Block) (hd : Distinct s.timers) (e : EpochInfo) (he : e ∈ s.timers)
    (hns : e.epochCountingStarted = false) (hle : e.startTime ≤ b.t) (hnp : (beginBlock s b).panicked = false) :
    ∃ e' ∈ (stepBlock s b).timers, e'.identifier = e.identifier ∧ e'.startTime = e.startTime ∧
      e'.duration = e.duration ∧ e'.epochCountingStarted = true ∧ e'.currentEpoch = 1 ∧
      e'.currentEpochStartTime = e.startTime ∧ e'.currentEpochStartHeight = b.h ∧
      sigsFor e.identifier (committedSignals s b) = [(Kind.epochStart, 1)] := by
  have ht : ticks b.t e = true := by simp [ticks, hle, hns]
  rcases block_timer_effect s b hd e he with ⟨hp, _, _⟩ | ⟨_, h, hs⟩
  · rw [hnp] at hp; cases hp
  · refine ⟨_, h, ?_⟩
    simp only [pureStep, pureSignals, ht, hns] at hs ⊢
    simp [hs]

/-- per block a timer advances by at most one epoch: it is unchanged (no signal), or starts epoch 1
(`start 1`), or moves from epoch n to n+1 with its start time advanced by exactly one duration
(`end n` then `start (n+1)`) — also after arbitrarily long downtime. -/
theorem at_most_one_tick_per_block (s : State) (b : Block) (hd : Distinct s.timers) (e : EpochInfo) (he : e ∈ s.timers) :
    ∃ e' ∈ (stepBlock s b).timers, e'.identifier = e.identifier ∧ e'.startTime = e.startTime ∧ e'.duration = e.duration ∧
      ((e' = e ∧ sigsFor e.identifier (committedSignals s b) = []) ∨
       (e.epochCountingStarted = false ∧ e'.epochCountingStarted = true ∧ e'.currentEpoch = 1 ∧
          sigsFor e.identifier (committedSignals s b) = [(Kind.epochStart, 1)]) ∨
       (e.epochCountingStarted = true ∧ e'.epochCountingStarted = true ∧ e'.currentEpoch = e.currentEpoch + 1 ∧
          e'.currentEpochStartTime = e.currentEpochStartTime + e.duration ∧
          sigsFor e.identifier (committedSignals s b) =
            [(Kind.epochEnd, e.currentEpoch), (Kind.epochStart, e.currentEpoch + 1)])) := by
  rcases block_timer_effect s b hd e he with ⟨_, h, hs⟩ | ⟨_, h, hs⟩
  · exact ⟨e, by rw [h]; exact he, rfl, rfl, rfl, Or.inl ⟨rfl, by rw [hs]; rfl⟩⟩
  · refine ⟨_, h, pureStep_identifier _ _ _, pureStep_startTime _ _ _, pureStep_duration _ _ _, ?_⟩
    rw [hs]
    unfold pureStep pureSignals
    cases ht : ticks b.t e
    · left; simp
    · cases hst : e.epochCountingStarted
      · right; left; simp
      · right; right; simp

/-- a counting timer (block time not before its start time) ticks in a committed block exactly when the
block time is STRICTLY after the end of the current epoch; otherwise it is untouched. -/
theorem tick_iff_after_end (s : State) (b : Block) (hd : Distinct s.timers) (e : EpochInfo) (he : e ∈ s.timers)
    (hst : e.epochCountingStarted = true) (hle : e.startTime ≤ b.t) (hnp : (beginBlock s b).panicked = false) :
    ∃ e' ∈ (stepBlock s b).timers, e'.identifier = e.identifier ∧
      (e'.currentEpoch = e.currentEpoch + 1 ↔ e.currentEpochStartTime + e.duration < b.t) ∧
      (¬ e.currentEpochStartTime + e.duration < b.t → e' = e) := by
  rcases block_timer_effect s b hd e he with ⟨hp, _, _⟩ | ⟨_, h, _⟩
  · rw [hnp] at hp; cases hp
  · refine ⟨_, h, pureStep_identifier _ _ _, ?_, ?_⟩
    · unfold pureStep
      by_cases h2 : e.currentEpochStartTime + e.duration < b.t
      · simp [ticks, hle, h2, hst]
      · simp [ticks, h2, hst]; omega
    · intro h2
      simp [pureStep, ticks, h2, hst]

/-- with non-decreasing block times a counting timer's start time is never in the future … -/
theorem started_start_le {s : State} {T : Int} (h : ReachMono s T) (e : EpochInfo) (he : e ∈ s.timers)
    (hst : e.epochCountingStarted = true) : e.startTime ≤ T := reachMono_started_le h e he hst

/-- … hence, over every history with non-decreasing block times, a counting timer ticks in a committed
block iff the block time is strictly after the current epoch's end — no side condition. -/
theorem tick_iff_after_end_mono {s : State} {T : Int} (h : ReachMono s T) (b : Block) (hT : T ≤ b.t)
    (hd : Distinct s.timers) (e : EpochInfo) (he : e ∈ s.timers)
    (hst : e.epochCountingStarted = true) (hnp : (beginBlock s b).panicked = false) :
    ∃ e' ∈ (stepBlock s b).timers, e'.identifier = e.identifier ∧
      (e'.currentEpoch = e.currentEpoch + 1 ↔ e.currentEpochStartTime + e.duration < b.t) ∧
      (¬ e.currentEpochStartTime + e.duration < b.t → e' = e) :=
  tick_iff_after_end s b hd e he hst (by have := reachMono_started_le h e he hst; omega) hnp

/-- GRID: in every reachable state every counting timer's epoch start time is
`startTime + (currentEpoch − 1)·duration`, whatever the block spacing, downtime, heights or hook outcomes. -/
theorem grid {s : State} {tr : List Signal} (h : Reach s tr) (e : EpochInfo) (he : e ∈ s.timers)
    (hst : e.epochCountingStarted = true) :
    e.currentEpochStartTime = e.startTime + (e.currentEpoch - 1) * e.duration :=
  (reach_inv h).grid e he hst

/-- the grid is also preserved from ANY on-grid state (e.g. running timers imported at genesis) -/
theorem grid_preserved (s : State) (b : Block) (hg : ∀ e ∈ s.timers, OnGrid e) : ∀ e ∈ (stepBlock s b).timers, OnGrid e := by
  intro x hx
  rcases stepBlock_cases s b with ⟨_, h, _⟩ | ⟨_, h, _, _⟩
  · rw [h] at hx; exact hg x hx
  · rw [h] at hx
    obtain ⟨e, he, rfl⟩ := List.mem_map.1 hx
    exact pureStep_onGrid _ _ _ (hg e he)

/-- epoch numbers of counting timers are ≥ 1 in every reachable state -/
theorem epoch_pos {s : State} {tr : List Signal} (h : Reach s tr) (e : EpochInfo) (he : e ∈ s.timers)
    (hst : e.epochCountingStarted = true) : 1 ≤ e.currentEpoch := (reach_inv h).pos e he hst

/-! ### signal order -/

/-- SIGNAL ORDER: in every reachable state the committed signal history of every timer is EXACTLY the
first `sigCount e` elements of `start 1, end 1, start 2, end 2, …` where `sigCount e = 2·currentEpoch − 1`
for a counting timer and `0` otherwise. -/
theorem signal_order {s : State} {tr : List Signal} (h : Reach s tr) (e : EpochInfo) (he : e ∈ s.timers) :
    sigsFor e.identifier tr = canon (sigCount e) := (reach_inv h).sigs e he

/-- the same in the recursive (automaton) formulation -/
theorem signal_order_rec {s : State} {tr : List Signal} (h : Reach s tr) (e : EpochInfo) (he : e ∈ s.timers) :
    CanonFrom none (sigsFor e.identifier tr) := by
  rw [signal_order h e he]; exact canonFrom_canon _

/-- each signal at most once … -/
theorem signal_once {s : State} {tr : List Signal} (h : Reach s tr) (e : EpochInfo) (he : e ∈ s.timers) :
    (sigsFor e.identifier tr).Nodup := by
  rw [signal_order h e he]; exact canon_nodup _

/-- … and the signals that a counting timer in epoch `n` has raised are exactly `start 1 … start n` and
`end 1 … end (n−1)`: position `2m−1` (from 0) holds `end m`, position `2m` holds `start (m+1)`; so
`end m` immediately precedes `start (m+1)`. -/
theorem stream_positions (m : Nat) (hm : 1 ≤ m) :
    sigAt (2 * m - 1) = (Kind.epochEnd, (m : Int)) ∧ sigAt (2 * m) = (Kind.epochStart, (m : Int) + 1) :=
  ⟨sigAt_odd _ _ (by omega), sigAt_even _ _ (by omega)⟩

/-- no signal in the history belongs to an unknown timer -/
theorem signals_have_timers {s : State} {tr : List Signal} (h : Reach s tr) :
    ∀ sig ∈ tr, ∃ e ∈ s.timers, e.identifier = sig.timer := (reach_inv h).traceIds

/-! ### the state visible to subscribers inside a signal -/

/-- START-OF-EPOCH n IS SIGNALLED IN EPOCH n: a subscriber that queries the epochs keeper from inside
`BeforeEpochStart(id, n)` reads the TICKED record of that timer (the tick is stored before the signal): epoch
number `n`, counting started, start height = this block's height (0 blocks since the epoch start), and — for
every timer on the grid, i.e. every reachable one (`grid`) — start time `startTime + (n−1)·duration`; for the
first epoch that is the timer's start time ("each timer starts at its start time").  Holds for every
invocation of every block, also of a block that later fails (out of gas). -/
theorem state_visible_at_start_signal (s : State) (b : Block) (v : View) (hv : v ∈ blockViews s b)
    (hk : v.call.kind = .epochStart) :
    ∃ e ∈ s.timers, e.identifier = v.call.timer ∧ ticks b.t e = true ∧ v.own = pureStep b.t b.h e ∧
      v.own.currentEpoch = v.call.epoch ∧ v.own.epochCountingStarted = true ∧
      v.own.currentEpochStartHeight = b.h ∧ v.sinceStart = 0 ∧
      (e.epochCountingStarted = false → v.call.epoch = 1 ∧ v.own.currentEpochStartTime = e.startTime) ∧
      (e.epochCountingStarted = true → v.call.epoch = e.currentEpoch + 1 ∧
          v.own.currentEpochStartTime = e.currentEpochStartTime + e.duration) ∧
      (OnGrid e → v.own.currentEpochStartTime = e.startTime + (v.call.epoch - 1) * e.duration) := by
  obtain ⟨e, he, subs', hc, hown, hsince⟩ := mem_viewsFrom b.t b.h b.script s.timers [] s.subs v hv
  obtain ⟨hid, ht, hstart, _⟩ := processTimer_call_spec b.t b.h b.script e subs' v.call hc
  obtain ⟨hinfo, hep⟩ := hstart hk
  have hown' : v.own = pureStep b.t b.h e := by rw [hown, hk]; exact hinfo
  refine ⟨e, he, hid.symm, ht, hown', ?_⟩
  rw [hsince, hown', hep]
  cases hst : e.epochCountingStarted
  · refine ⟨rfl, ?_, ?_, ?_, ?_, ?_, ?_⟩ <;> simp [pureStep, ht, hst, OnGrid]
  · refine ⟨rfl, ?_, ?_, ?_, ?_, ?_, ?_⟩ <;> simp [pureStep, ht, hst, OnGrid]
    intro hg; rw [hg, Int.sub_mul, Int.one_mul]; omega

/-- … over every history (`Reach`): the start time a subscriber reads inside `start n` is on the grid. -/
theorem state_visible_at_start_signal_grid {s : State} {tr : List Signal} (h : Reach s tr) (b : Block) (v : View)
    (hv : v ∈ blockViews s b) (hk : v.call.kind = .epochStart) :
    ∃ e ∈ s.timers, e.identifier = v.call.timer ∧ v.own.currentEpoch = v.call.epoch ∧
      v.own.epochCountingStarted = true ∧ v.own.currentEpochStartHeight = b.h ∧
      v.own.currentEpochStartTime = e.startTime + (v.call.epoch - 1) * e.duration := by
  obtain ⟨e, he, hid, _, _, h1, h2, h3, _, _, _, hg⟩ := state_visible_at_start_signal s b v hv hk
  exact ⟨e, he, hid, h1, h2, h3, hg ((reach_inv h).grid e he)⟩

/-- END-OF-EPOCH n IS SIGNALLED WHILE THE TIMER IS STILL IN EPOCH n: inside `AfterEpochEnd(id, n)` the stored
record is the one from before the block (nothing of the tick is stored yet): epoch `n`, its start time and
the height of the block in which epoch `n` started. -/
theorem state_visible_at_end_signal (s : State) (b : Block) (v : View) (hv : v ∈ blockViews s b)
    (hk : v.call.kind = .epochEnd) :
    ∃ e ∈ s.timers, e.identifier = v.call.timer ∧ v.own = e ∧ e.currentEpoch = v.call.epoch ∧
      e.epochCountingStarted = true ∧ v.sinceStart = b.h - e.currentEpochStartHeight := by
  obtain ⟨e, he, subs', hc, hown, hsince⟩ := mem_viewsFrom b.t b.h b.script s.timers [] s.subs v hv
  obtain ⟨hid, _, _, hend⟩ := processTimer_call_spec b.t b.h b.script e subs' v.call hc
  obtain ⟨hst, hep⟩ := hend hk
  have hown' : v.own = e := by rw [hown, hk]; rfl
  exact ⟨e, he, hid.symm, hown', hep.symm, hst, by rw [hsince, hown']⟩

/-! ### hook containment -/

/-- HOOK CONTAINMENT (stated for every block in which nothing runs out of gas; `hook_containment` below
instantiates it for oog-free scripts): BeginBlocker completes; the epoch state is the hook-free step of
every timer (so it does not depend on what subscribers do); every subscriber is invoked exactly once per
signal, in registration order, signals in order (`planCalls`); subscriber `j`'s store is the fold of
exactly its `ok` invocations' writes (`foldOk`: writes of erroring / panicking invocations are dropped
entirely, including the writes made before the failure); no store appears or disappears. -/
theorem hook_containment_of_not_panicked (s : State) (b : Block) (hnp : (beginBlock s b).panicked = false) :
    (beginBlock s b).timers = s.timers.map (pureStep b.t b.h) ∧
    (beginBlock s b).signals = s.timers.flatMap (pureSignals b.t) ∧
    (beginBlock s b).calls = planCalls s.subs.length (s.timers.flatMap (pureSignals b.t)) ∧
    (beginBlock s b).subs.length = s.subs.length ∧
    ∀ j, (beginBlock s b).subs[j]? = (s.subs[j]?).map (foldOk b.script j (s.timers.flatMap (pureSignals b.t))) := by
  obtain ⟨a1, a2, a3, a4⟩ := processTimers_ok b.t b.h b.script s.timers s.subs hnp
  refine ⟨a1, a2, a3, ?_, ?_⟩
  · show (processTimers b.t b.h b.script s.timers s.subs).subs.length = _
    rw [a4, foldl_applySignal_length]
  · intro j
    show (processTimers b.t b.h b.script s.timers s.subs).subs[j]? = _
    rw [a4, foldl_applySignal_getElem?]

theorem hook_containment (s : State) (b : Block) (hn : NoOog b.script) :
    (beginBlock s b).panicked = false ∧
    (beginBlock s b).timers = s.timers.map (pureStep b.t b.h) ∧
    (beginBlock s b).signals = s.timers.flatMap (pureSignals b.t) ∧
    (beginBlock s b).calls = planCalls s.subs.length (s.timers.flatMap (pureSignals b.t)) ∧
    (beginBlock s b).subs.length = s.subs.length ∧
    ∀ j, (beginBlock s b).subs[j]? = (s.subs[j]?).map (foldOk b.script j (s.timers.flatMap (pureSignals b.t))) :=
  ⟨noOog_not_panicked s b hn, hook_containment_of_not_panicked s b (noOog_not_panicked s b hn)⟩

/-- the epoch state and the signals advance identically under any two oog-free scripts -/
theorem epoch_state_script_independent (s : State) (t h : Int) (scr1 scr2 : Script) (h1 : NoOog scr1) (h2 : NoOog scr2) :
    (beginBlock s ⟨t, h, scr1⟩).timers = (beginBlock s ⟨t, h, scr2⟩).timers ∧
    (beginBlock s ⟨t, h, scr1⟩).signals = (beginBlock s ⟨t, h, scr2⟩).signals ∧
    (beginBlock s ⟨t, h, scr1⟩).calls = (beginBlock s ⟨t, h, scr2⟩).calls := by
  obtain ⟨_, a1, a2, a3, _⟩ := hook_containment s ⟨t, h, scr1⟩ h1
  obtain ⟨_, b1, b2, b3, _⟩ := hook_containment s ⟨t, h, scr2⟩ h2
  exact ⟨a1.trans b1.symm, a2.trans b2.symm, a3.trans b3.symm⟩

/-- what `planCalls` says: the invocation list is, signal by signal, subscribers `0 … k−1` in order -/
theorem planCalls_cons (k : Nat) (sig : Signal) (rest : List Signal) :
    planCalls k (sig :: rest) =
      (List.range' 0 k).map (fun i => ({ timer := sig.timer, kind := sig.kind, epoch := sig.epoch, sub := i } : Call))
        ++ planCalls k rest := by
  simp [planCalls, callsOf]

/-- what `foldOk` says for one more signal: an `ok` invocation's writes are applied, anything else leaves
the store exactly as it was -/
theorem foldOk_cons (scr : Script) (j : Nat) (sig : Signal) (rest : List Signal) (st : Store) :
    foldOk scr j (sig :: rest) st =
      foldOk scr j rest (if (scr sig.timer sig.kind j).outcome = .ok then applyWrites st (scr sig.timer sig.kind j).writes else st) := by
  simp [foldOk, contain]

/-! ### out of gas -/

/-- OUT OF GAS PROPAGATES: BeginBlocker panics iff an invoked hook ran out of gas; nothing is invoked
after that hook; if any invocation of the ideal plan is out of gas then BeginBlocker does panic (the
recover in ApplyFuncIfNoError must not swallow it); a panicking block commits nothing. -/
theorem oog_propagates (s : State) (b : Block) :
    ((beginBlock s b).panicked = true ↔ ∃ c ∈ (beginBlock s b).calls, c.isOog b.script) ∧
    (∀ c ∈ (beginBlock s b).calls.dropLast, ¬ c.isOog b.script) ∧
    ((∃ c ∈ planCalls s.subs.length (s.timers.flatMap (pureSignals b.t)), c.isOog b.script) →
        (beginBlock s b).panicked = true) ∧
    ((beginBlock s b).panicked = true → stepBlock s b = s ∧ committedSignals s b = []) := by
  have w := processTimers_wellCut b.t b.h b.script s.timers s.subs
  refine ⟨w.1, w.2, ?_, ?_⟩
  · intro hex
    cases hp : (beginBlock s b).panicked with
    | true => rfl
    | false =>
      have hc := (hook_containment_of_not_panicked s b hp).2.2.1
      have : (beginBlock s b).panicked = true := w.1.2 (by rw [show (processTimers b.t b.h b.script s.timers s.subs).calls = (beginBlock s b).calls from rfl, hc]; exact hex)
      rw [hp] at this; cases this
  · intro hp
    simp [stepBlock, committedSignals, hp]

/-- … and, whether or not something runs out of gas, the invocations that did take place are an initial
segment of the ideal plan (every subscriber once per signal in registration order): together with
`oog_propagates` the invocation list of a failing block is the plan cut right after its first
out-of-gas invocation. -/
theorem calls_prefix_of_plan (s : State) (b : Block) :
    (beginBlock s b).calls <+: planCalls s.subs.length (s.timers.flatMap (pureSignals b.t)) :=
  processTimers_calls_prefix b.t b.h b.script s.timers s.subs

/-- `AddEpochInfo` succeeds exactly for a valid timer with an unused identifier (identifier non-empty,
duration ≠ 0 — negative is accepted —, current epoch and start height ≥ 0). -/
theorem add_epoch_info_iff (ctxT ctxH : Int) (e : EpochInfo) (s : State) :
    (addEpochInfo ctxT ctxH e s).isSome = true ↔
      ((e.identifier ≠ "" ∧ e.duration ≠ 0 ∧ 0 ≤ e.currentEpoch ∧ 0 ≤ e.currentEpochStartHeight) ∧
        ∀ x ∈ s.timers, x.identifier ≠ e.identifier) := by
  have hval : validate e = true ↔ (e.identifier ≠ "" ∧ e.duration ≠ 0 ∧ 0 ≤ e.currentEpoch ∧ 0 ≤ e.currentEpochStartHeight) := by
    simp [validate, and_assoc]
  have hany : (s.timers.any fun x => x.identifier == e.identifier) = false ↔ ∀ x ∈ s.timers, x.identifier ≠ e.identifier := by
    simp
  rw [← hval, ← hany]
  unfold addEpochInfo
  cases hv : validate e <;> cases ha : (s.timers.any fun x => x.identifier == e.identifier) <;> simp

/-- a successfully added timer: start time defaulted to the context's block time iff it was the zero
time, start height := context height, everything else as given; other timers untouched. -/
theorem add_epoch_info_effect {ctxT ctxH : Int} {e : EpochInfo} {s s' : State} (h : addEpochInfo ctxT ctxH e s = some s') :
    ∃ e', e'.identifier = e.identifier ∧ e'.epochCountingStarted = e.epochCountingStarted ∧
      e'.currentEpoch = e.currentEpoch ∧ e'.currentEpochStartTime = e.currentEpochStartTime ∧
      e'.duration = e.duration ∧ e'.startTime = (if e.startTime = 0 then ctxT else e.startTime) ∧
      e'.currentEpochStartHeight = ctxH ∧ s'.subs = s.subs ∧ ∀ x, x ∈ s'.timers ↔ x = e' ∨ x ∈ s.timers := by
  obtain ⟨e', h1, h2, h3, h4, h5, h6, h7, _, _, ht, hs⟩ := addEpochInfo_some h
  exact ⟨e', h1, h2, h3, h4, h5, h6, h7, hs, fun x => by rw [ht]; exact mem_insertTimer _ _ _⟩

/-- an out-of-gas hook's own writes, and every error / ordinary panic, are contained at the level of one
invocation: `applyIfNoError` returns the store unchanged for `err`/`panic`, the written copy for `ok`,
and propagates (`none`) exactly for `oog`. -/
theorem applyIfNoError_spec (st : Store) (r : HookRun) :
    (r.outcome = .ok → applyIfNoError st r = some (applyWrites st r.writes)) ∧
    (r.outcome = .err → applyIfNoError st r = some st) ∧
    (r.outcome = .panic → applyIfNoError st r = some st) ∧
    (applyIfNoError st r = none ↔ r.outcome = .oog) := by
  refine ⟨?_, ?_, ?_, applyIfNoError_eq_none st r⟩ <;> intro h <;> simp [applyIfNoError, h]

/-! ### non-vacuity -/

section Examples

def exTimerA : EpochInfo := ⟨"day", 0, 10, 0, 0, false, 0⟩
def exTimerB : EpochInfo := ⟨"Week", 150, 7, 0, 0, false, 0⟩

/-- sub 0 writes and succeeds, sub 1 writes then errors on `end`, panics on `start` -/
def exScript : Script := fun _ k i =>
  match i, k with
  | 0, _ => ⟨.ok, [("a", "1")]⟩
  | _, .epochEnd => ⟨.err, [("x", "9")]⟩
  | _, .epochStart => ⟨.panic, [("y", "9")]⟩

def exOogScript : Script := fun _ k i =>
  match i, k with
  | 1, .epochStart => ⟨.oog, [("z", "1")]⟩
  | _, _ => ⟨.ok, [("a", "2")]⟩

def exS0 : State := initState 2
def exS1 : State := (addEpochInfo 100 5 exTimerA exS0).getD exS0
def exS2 : State := (addEpochInfo 100 5 exTimerB exS1).getD exS1

example : NoOog exScript := by
  intro id k i; unfold exScript; split <;> simp

example : exS2.timers.map (·.identifier) = ["Week", "day"] := by decide

theorem exS1_eq : addEpochInfo 100 5 exTimerA exS0 = some exS1 := by rfl
theorem exS2_eq : addEpochInfo 100 5 exTimerB exS1 = some exS2 := by rfl

example : Reach exS2 [] :=
  .add 100 5 exTimerB (.add 100 5 exTimerA (.init 2) rfl exS1_eq) rfl exS2_eq

-- a block before the start time of "Week" but at the (defaulted) start time of "day"
example : ((stepBlock exS2 ⟨100, 6, exScript⟩).timers.map (fun e => (e.identifier, e.epochCountingStarted, e.currentEpoch, e.currentEpochStartTime)))
    = [("Week", false, 0, 0), ("day", true, 1, 100)] := by decide

-- exactly at the epoch end nothing happens; one nanosecond later the timer ticks
example : ((stepBlock (stepBlock exS2 ⟨100, 6, exScript⟩) ⟨110, 7, exScript⟩).timers.map (·.currentEpoch)) = [0, 1] := by decide
example : ((stepBlock (stepBlock exS2 ⟨100, 6, exScript⟩) ⟨111, 7, exScript⟩).timers.map (·.currentEpoch)) = [0, 2] := by decide

-- after a long downtime only ONE epoch per block, and the start time stays on the grid
example : ((stepBlock (stepBlock exS2 ⟨100, 6, exScript⟩) ⟨100000, 7, exScript⟩).timers.map
    (fun e => (e.currentEpoch, e.currentEpochStartTime))) = [(1, 150), (2, 110)] := by decide

-- containment: sub 1's writes are discarded (err / panic), sub 0's are kept, both were invoked
example : (beginBlock (stepBlock exS2 ⟨100, 6, exScript⟩) ⟨111, 7, exScript⟩).subs = [[("a", "1")], []] := by decide
example : (beginBlock (stepBlock exS2 ⟨100, 6, exScript⟩) ⟨111, 7, exScript⟩).calls.map (fun c => (c.kind, c.epoch, c.sub))
    = [(.epochEnd, 1, 0), (.epochEnd, 1, 1), (.epochStart, 2, 0), (.epochStart, 2, 1)] := by decide

-- inside the signals of the tick 1 → 2 of "day": `end 1` sees epoch 1 (start 100, height 6), `start 2` sees
-- epoch 2 (start 110 = 100 + 1·10, this block's height 7, 0 blocks since the start)
example : (blockViews (stepBlock exS2 ⟨100, 6, exScript⟩) ⟨111, 7, exScript⟩).map
    (fun v => (v.call.kind, v.call.epoch, v.call.sub, v.own.currentEpoch))
    = [(.epochEnd, 1, 0, 1), (.epochEnd, 1, 1, 1), (.epochStart, 2, 0, 2), (.epochStart, 2, 1, 2)] := by decide
example : (blockViews (stepBlock exS2 ⟨100, 6, exScript⟩) ⟨111, 7, exScript⟩).map
    (fun v => (v.own.currentEpochStartTime, v.own.currentEpochStartHeight, v.sinceStart))
    = [(100, 6, 1), (100, 6, 1), (110, 7, 0), (110, 7, 0)] := by decide

-- out of gas: the block panics and is rolled back
example : (beginBlock exS2 ⟨100, 6, exOogScript⟩).panicked = true := by decide
example : (stepBlock exS2 ⟨100, 6, exOogScript⟩).timers = exS2.timers := by decide

-- the hypotheses of the timer theorems are satisfiable on this state
example : Distinct exS2.timers := by unfold Distinct; decide
example : ∃ e ∈ exS2.timers, e.epochCountingStarted = false ∧ e.startTime ≤ (100 : Int) ∧
    (beginBlock exS2 ⟨100, 6, exScript⟩).panicked = false := by decide

end Examples

end OsmoVerif.Props.C17
