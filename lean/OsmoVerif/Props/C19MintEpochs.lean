/-
C19 — export/import of x/mint and x/epochs, completed (the one-step facts are in `Props/C19.lean` (B4)).

x/epochs: `epochs_run_after_import` there assumes a sorted, valid timer list.  Here: those hypotheses hold on EVERY reachable state
(`GenReach`: `AddEpochInfo` under a context with non-zero block time and non-negative height; blocks with non-negative height, any
times / scripts), so on every reachable state the chain's own export is accepted, the imported state is the exported one with
`CurrentEpochStartHeight := import height` on every timer — the EXACT difference —, and every later block list commits the same signals
and subscriber stores.  The two ways `InitGenesis` can deviate are witnessed (negative height: panic; zero start time: rewritten).

x/mint: `InitGenesis` keeps everything but `Minter.EpochProvisions`, which becomes `Params.GenesisEpochProvisions` — the EXACT
difference; the imported chain IS the exporting chain restarted from that provisions value (equal runs), and what survives is the
reduction SCHEDULE: which epochs reduce, and the last reduction epoch, never depend on the provisions.
-/
import OsmoVerif.Proofs.DetEpochsReach
import OsmoVerif.Props.C19

namespace OsmoVerif.Props.C19MintEpochs
open List OsmoVerif.Det OsmoVerif.Epochs

/-! ## x/epochs -/

/-- states reachable on a real chain: heights are non-negative and a block time is never Go's zero time -/
inductive GenReach : State → Prop
  | init (k : Nat) : GenReach (initState k)
  | add {s s'} (ctxT ctxH : Int) (e : EpochInfo) : GenReach s → ctxT ≠ 0 → 0 ≤ ctxH → addEpochInfo ctxT ctxH e s = some s' → GenReach s'
  | block {s} (b : Block) : GenReach s → 0 ≤ b.h → GenReach (stepBlock s b)

/-- the timers are in store order, pass `EpochInfo.Validate` and have a start time -/
theorem epochs_reachable_genOK {s : State} (h : GenReach s) : GenOK s := by
  induction h with
  | init k => exact genOK_init k
  | add ctxT ctxH e _ hT hH ha ih => exact genOK_add ih hT hH ha
  | block b _ hH ih => exact genOK_block ih b hH

/-- **Export → import on every reachable state**: `InitGenesis` accepts the export and yields the exported state with the start height of
every timer replaced by the import height (and nothing else changed) -/
theorem epochs_export_import_on_reachable (ctxT ctxH : Int) {s : State} (h : GenReach s) :
    epochsImport ctxT ctxH s.subs (epochsExport s) = some { timers := s.timers.map (setH ctxH), subs := s.subs } :=
  C19.epochs_export_import_eq_modulo_start_height ctxT ctxH s (epochs_reachable_genOK h).sorted (epochs_reachable_genOK h).valid

/-- … which is the exported state itself exactly when every timer's current epoch started at the import height -/
theorem epochs_export_import_identity_iff (ctxH : Int) (s : State) :
    ({ timers := s.timers.map (setH ctxH), subs := s.subs } : State) = s ↔ ∀ e ∈ s.timers, e.currentEpochStartHeight = ctxH := by
  obtain ⟨timers, subs⟩ := s
  simp only [State.mk.injEq, and_true]
  induction timers with
  | nil => simp
  | cons e r ih =>
    simp only [List.map_cons, List.cons.injEq, List.mem_cons, forall_eq_or_imp, ih]
    constructor
    · intro ⟨h1, h2⟩
      refine ⟨?_, h2⟩
      rw [← h1]; rfl
    · intro ⟨h1, h2⟩
      refine ⟨?_, h2⟩
      obtain ⟨a1, a2, a3, a4, a5, a6, a7⟩ := e
      simp only [setH] at h1 ⊢
      rw [h1]

/-- **Every later block list** (any times, heights, hook scripts, out-of-gas panics included): the imported chain commits the same keeper
signals, the same subscriber stores, and timers equal up to `CurrentEpochStartHeight` — on every reachable state. -/
theorem epochs_run_after_import_on_reachable (ctxT ctxH : Int) {s : State} (h : GenReach s) (bs : List Block) :
    ∃ s', epochsImport ctxT ctxH s.subs (epochsExport s) = some s' ∧
      (epochsRun s' bs).2 = (epochsRun s bs).2 ∧
      (epochsRun s' bs).1.subs = (epochsRun s bs).1.subs ∧
      AllEqModH (epochsRun s' bs).1.timers (epochsRun s bs).1.timers :=
  C19.epochs_run_after_import ctxT ctxH s (epochs_reachable_genOK h).sorted (epochs_reachable_genOK h).valid bs

/-- the difference does not heal by itself: a timer that does not tick keeps the wrong height forever; one that ticks gets the block's
height on both chains -/
theorem epochs_height_after_tick (t h : Int) (e : EpochInfo) (ctxH : Int) :
    (pureStep t h (setH ctxH e)).currentEpochStartHeight =
      if ticks t e then h else ctxH := by
  have ht : ticks t (setH ctxH e) = ticks t e := rfl
  unfold pureStep
  rw [ht]
  cases ticks t e with
  | false => rfl
  | true =>
    have hs : (setH ctxH e).epochCountingStarted = e.epochCountingStarted := rfl
    simp only [if_true, hs]
    split <;> rfl

/-- a week timer in its 7th epoch (started at height 14) and a day timer: the state after two blocks -/
def epDemo : State :=
  (epochsRun ((addEpochInfo 100 3 ⟨"week", 0, 70, 0, 0, false, 0⟩ ((addEpochInfo 100 3 ⟨"day", 0, 10, 0, 0, false, 0⟩ (initState 1)).getD (initState 1))).getD
    (initState 1)) [⟨105, 4, fun _ _ _ => ⟨.ok, [("k", "v")]⟩⟩, ⟨120, 5, fun _ _ _ => ⟨.ok, []⟩⟩]).1

example : epDemo.timers.map (fun e => (e.identifier, e.currentEpoch, e.currentEpochStartHeight)) = [("day", 2, 5), ("week", 1, 4)] ∧
    (epochsImport 200 9 epDemo.subs (epochsExport epDemo)).map (fun s => s.timers.map (fun e => (e.identifier, e.currentEpoch, e.currentEpochStartHeight))) =
      some [("day", 2, 9), ("week", 1, 9)] ∧
    (epochsImport 200 9 epDemo.subs (epochsExport epDemo)).map (·.subs) = some epDemo.subs := by
  decide

/-- the two deviations `AddEpochInfo` allows for, outside the reachable states: a NEGATIVE start height fails `Validate` (`InitGenesis`
panics), a ZERO start time is replaced by the import block time -/
theorem epochs_import_deviations_witness :
    epochsImport 700 28 [] [⟨"day", 100, 86400, 7, 604900, true, -1⟩] = none ∧
    (epochsImport 700 28 [] [⟨"day", 0, 86400, 0, 0, false, 3⟩]).map (fun s => s.timers.map (·.startTime)) = some [700] := by
  decide

/-! ## x/mint -/

/-- **Export → import, exactly**: params and the last reduction epoch are kept; the provisions become `GenesisEpochProvisions` (the vesting
balance is bank state) -/
theorem mint_export_import_eq (g0 : Int) (p : Mint.Params) (s : Mint.State) (v : Int) :
    mintInit (mintExport g0 p s) v = (p, { s with provisions := g0, devVesting := v }) := rfl

/-- a second export → import changes nothing more -/
theorem mint_import_idempotent (g0 : Int) (p : Mint.Params) (s : Mint.State) (v : Int) :
    mintInit (mintExport g0 (mintInit (mintExport g0 p s) v).1 (mintInit (mintExport g0 p s) v).2) v = mintInit (mintExport g0 p s) v := rfl

/-- **every later epoch**: the imported chain is the exporting chain with the provisions reset — the same runs, epoch by epoch -/
theorem mint_run_after_import_eq_reset (g0 : Int) (p : Mint.Params) (s : Mint.State) (es : List Int) :
    mintRun (mintInit (mintExport g0 p s) s.devVesting).1 (mintInit (mintExport g0 p s) s.devVesting).2 es =
      mintRun p { s with provisions := g0 } es := rfl

/-- what one successful `AfterEpochEnd` does to the schedule: nothing before the start epoch; afterwards minting happens and the last
reduction epoch is a function of the epoch number, the params and the previous last reduction epoch ONLY -/
theorem mint_epoch_schedule {p : Mint.Params} {s s' : Mint.State} {e : Int} {o : Option Mint.Obs}
    (h : Mint.afterEpochEnd p s e = some (s', o)) :
    (e < p.startEpoch ∧ s' = s ∧ o = none) ∨
    (¬ e < p.startEpoch ∧ o.isSome = true ∧
      s'.lastReduction = (if e ≥ p.reductionPeriod + (if e = p.startEpoch then e else s.lastReduction) then e
                          else (if e = p.startEpoch then e else s.lastReduction))) := by
  unfold Mint.afterEpochEnd at h
  split at h
  · rename_i hlt
    injection h with h; injection h with h1 h2
    exact Or.inl ⟨hlt, h1.symm, h2.symm⟩
  · rename_i hge
    right
    simp only at h
    split at h
    · cases h
    · split at h
      · cases h
      · split at h
        · split at h
          · cases h
          · split at h
            · cases h
            · split at h
              · cases h
              · split at h
                · cases h
                · injection h with h; injection h with h1 h2
                  subst h1; subst h2
                  refine ⟨hge, rfl, ?_⟩
                  simp only [ge_iff_le, decide_eq_true_eq]
        · cases h

/-- **the reduction schedule survives the import**: two chains that agree on the last reduction epoch — e.g. an exporting chain and the
chain imported from it, whatever their provisions — and both process epoch `e` successfully, mint in the same epochs and agree on the
last reduction epoch afterwards -/
theorem mint_schedule_step {p : Mint.Params} {s t s' t' : Mint.State} {e : Int} {o o' : Option Mint.Obs}
    (hl : s.lastReduction = t.lastReduction)
    (hs : Mint.afterEpochEnd p s e = some (s', o)) (ht : Mint.afterEpochEnd p t e = some (t', o')) :
    s'.lastReduction = t'.lastReduction ∧ o.isSome = o'.isSome := by
  rcases mint_epoch_schedule hs with ⟨h1, h2, h3⟩ | ⟨h1, h2, h3⟩ <;>
    rcases mint_epoch_schedule ht with ⟨k1, k2, k3⟩ | ⟨k1, k2, k3⟩
  · rw [h2, k2, h3, k3]; exact ⟨hl, rfl⟩
  · exact absurd h1 k1
  · exact absurd k1 h1
  · rw [h3, k3, hl, h2, k2]; exact ⟨rfl, rfl⟩

/-- the states after a list of epochs (a failing hook leaves the state as it was) -/
def mintStates (p : Mint.Params) : Mint.State → List Int → List Mint.State
  | _, [] => []
  | s, e :: es =>
    match Mint.afterEpochEnd p s e with
    | none => s :: mintStates p s es
    | some (s', _) => s' :: mintStates p s' es

/-- … over any list of epochs during which no hook fails on either chain -/
theorem mint_schedule_run (p : Mint.Params) : ∀ (es : List Int) (s t : Mint.State), s.lastReduction = t.lastReduction →
    (∀ o ∈ mintRun p s es, o.isSome = true) → (∀ o ∈ mintRun p t es, o.isSome = true) →
    (mintStates p s es).map (·.lastReduction) = (mintStates p t es).map (·.lastReduction) ∧
    (mintRun p s es).map (fun o => o.map (·.isSome)) = (mintRun p t es).map (fun o => o.map (·.isSome))
  | [], _, _, _, _, _ => ⟨rfl, rfl⟩
  | e :: es, s, t, hl, hs, ht => by
    cases h1 : Mint.afterEpochEnd p s e with
    | none =>
      have := hs none (by simp only [mintRun, h1]; exact List.mem_cons_self)
      cases this
    | some r1 =>
      cases h2 : Mint.afterEpochEnd p t e with
      | none =>
        have := ht none (by simp only [mintRun, h2]; exact List.mem_cons_self)
        cases this
      | some r2 =>
        obtain ⟨s', o⟩ := r1
        obtain ⟨t', o'⟩ := r2
        obtain ⟨k1, k2⟩ := mint_schedule_step hl h1 h2
        have hs' : ∀ x ∈ mintRun p s' es, x.isSome = true := fun x hx => hs x (by simp only [mintRun, h1]; exact List.mem_cons_of_mem _ hx)
        have ht' : ∀ x ∈ mintRun p t' es, x.isSome = true := fun x hx => ht x (by simp only [mintRun, h2]; exact List.mem_cons_of_mem _ hx)
        obtain ⟨i1, i2⟩ := mint_schedule_run p es s' t' k1 hs' ht'
        simp only [mintStates, mintRun, h1, h2, List.map_cons, i1, i2, k1, Option.map_some, k2]
        exact ⟨trivial, trivial⟩

/-- on the example of `Props/C19` (one reduction before the export, genesis provisions 5000000): exporter and imported chain reduce in the
same epochs (5 and 7) and mint in every epoch — different amounts -/
example :
    let imp := mintInit (mintExport (5000000 * 1000000000000000000) C19.exMintParams C19.exMintState) 100000000
    (mintStates C19.exMintParams C19.exMintState [4, 5, 6, 7]).map (·.lastReduction) = [3, 5, 5, 7] ∧
    (mintStates imp.1 imp.2 [4, 5, 6, 7]).map (·.lastReduction) = [3, 5, 5, 7] ∧
    (mintRun C19.exMintParams C19.exMintState [4, 5]).map (fun o => o.map (fun o => o.map (·.minted))) =
      [some (some 2500000), some (some 1250000)] ∧
    (mintRun imp.1 imp.2 [4, 5]).map (fun o => o.map (fun o => o.map (·.minted))) = [some (some 5000000), some (some 2500000)] := by
  decide +kernel

end OsmoVerif.Props.C19MintEpochs
