/-
C13 — `Pow` / `PowApprox` ("fractional power to the documented power precision", powPrecision = 10^-8) over Mathlib
reals (`Real.rpow` is the meaning of the true value; `dv x = x/10^18` the value of a raw `Dec`).

The clause is FALSE on part of the documented domain `(0, 2)` (findings F9, F10) and TRUE on its middle.  Proved here:

1. `pow_accuracy_mid` (FULL): for every base `0.5 ≤ b ≤ 1.5` and every exponent `0 ≤ e ≤ 10^8` (integer part by
   `LegacyDec.Power`, fractional part by `PowApprox`, exponent 1/2 by `ApproxSqrt`) with `max(1,b)^⌊e⌋ ≤ 10^38`,
   `Pow(b, e)` RETURNS (no panic, no overflow, iteration limit never reached) and
   `|Pow(b,e) − b^e| ≤ max(1,b)^⌊e⌋ · 10^-8`.
   * `pow_accuracy_mid_le_one`: for `0.5 ≤ b ≤ 1` this is the documented ABSOLUTE `10^-8`, for all exponents up to `10^8`
     (the callers' weight ratios are below `2^20`).
   * `pow_accuracy_upper` (FULL; extends the interval to `1 ≤ b ≤ 1.99`, exponents up to 100):
     `|Pow(b,e) − b^e| ≤ b^⌊e⌋·10^-8 ≤ b^e·10^-8` (RELATIVE `10^-8`), total.  The absolute `10^-8` is FALSE there:
     `pow_abs_precision_fails_above_one_witness` (`Pow(1.5, 3.25)` is off by `1.06·10^-8`) — the product
     `integerPow·fractionalPow` scales the series error by `b^⌊e⌋`.  `pow_accuracy_mid_ge_one`: the same on `[1, 1.5]`
     for exponents up to 200.
   Ingredients (`Proofs/MathPow*.lean`): (a) Mathlib's binomial series `Real.one_add_rpow_hasFPowerSeriesOnBall_zero`
   and two remainder bounds after the stopping rule `term < 10^-8`: GEOMETRIC `term·(n/(n+1))·q/(1−q)` for
   `|b − 1| ≤ q` (any sign; below the last term iff `q ≤ 1/2`: exactly the "INCORRECT assumption" of the code comment,
   correct on `[0.5, 1.5]`) and ALTERNATING `term·(n/(n+1))·q` for `b ≥ 1` (every `q < 1`); (b) the iteration bound:
   at most 27 iterations on `[0.5, 1.5]`, 1840 on `[1, 1.99]` (`|C(a,k)·x^k| ≤ q^k`); the three roundings per iteration do
   NOT accumulate in the term (error fixed point `(2·mulErr + quoErr)/(1−q)`) and add at most `N` times that to the sum:
   `PowApprox` is within `0.9643·10^-8` resp. `0.9896·10^-8`; (c) `Power(n)` is within
   `max(1,b)^n·((1+½·10^-18)^n − 1)`; `ApproxSqrt` within `5·10^-18` (Newton's error at least halves per round, 300 rounds).
2. `powApprox_accuracy_general` (FULL): the same analysis for ANY radius `q < 1` and either sign: if `|b − 1| ≤ q`,
   `q^N + D < 10^-8`, `N + 1 < 150000`, then `PowApprox` returns within
   `powApproxEps q N D ≈ 10^-8·(N/(N+1))·q/(1−q)`; `powApprox_accuracy_wide`: on `[0.1, 1.9]` at most 175 iterations,
   error `≤ 9·10^-8` (not `10^-8`: F9).
3. Frontier witnesses: `pow_accuracy_fails_below_witness` (`Pow(0.4718, 0.1)` and `Pow(0.4631, 0.25)` are off by more
   than `10^-8`; by the 80-digit reference search the true frontier of the `10^-8` claim for fractional exponents is
   `b ≈ 0.4737`: the proved interval stops 0.026 short of it on the low side).
   `pow_panics_near_two_witness` (F10 side): `Pow(1.999999999999999999, 0.02) = none` — an in-domain PANIC, proved
   ANALYTICALLY (150000 iterations are out of reach of kernel evaluation: `decide +kernel` times out): every true term
   `(a/k)·Π_{i<k}(1 − a/i)·x^k` stays above `9·10^-8` up to the iteration limit (`H_k ≤ 1 + ln k`), the computed terms
   are within `10^-12` of them, so the stopping rule never fires (`Proofs/MathPowPanic`);
   `powApprox_panics_of_slow_series`: the criterion for any input.
NOT PROVED: F10's own witness exponent 0.34 (the same argument needs `Π_{i<k}(1 − 1.34/i) ≳ k^-1.34/Γ`, a Gamma-function
bound, instead of the Weierstrass product inequality; it stays a keyed known finding decided by the engine), the
interval `(0.4737, 0.5)` (the geometric bound is not sharp enough: it ignores the decay of `(k − a)/(k + 1)`), and
`1.99 < b < 1.9999…` (true by the same alternating argument while the series needs fewer than 150000 terms, but the
per-iteration rounding budget `N·(2·mulErr + quoErr)/(1 − q)` then exceeds the slack `10^-8·(1 − q)`).
-/
import OsmoVerif.Proofs.MathPowMid
import OsmoVerif.Proofs.MathPowPanic

namespace OsmoVerif.Props.C13Pow
open OsmoVerif.MathM OsmoVerif.Num OsmoVerif.Gen OsmoVerif.GammMath

/-! ## 1. the middle of the domain -/

/-- FULL. `Pow` on bases in `[0.5, 1.5]`, exponents in `[0, 10^8]`: totality and
`|Pow(b,e) − b^e| ≤ max(1,b)^⌊e⌋·10^-8`. -/
theorem pow_accuracy_mid {b e : Int} (hb1 : 5 * 10 ^ 17 ≤ b) (hb2 : b ≤ 15 * 10 ^ 17) (he0 : 0 ≤ e)
    (he1 : e ≤ 10 ^ 8 * P18) (hbig : (max 1 (dv b)) ^ ⌊dv e⌋₊ ≤ 10 ^ 38) :
    ∃ r, pow b e = some r ∧ |dv r - dv b ^ dv e| ≤ (max 1 (dv b)) ^ ⌊dv e⌋₊ / 10 ^ 8 :=
  pow_mid_spec hb1 hb2 he0 he1 hbig

/-- FULL. Bases in `[0.5, 1]` (the exact-in swap, the single-asset exit): the documented ABSOLUTE precision `10^-8`,
every exponent up to `10^8`, and `Pow` never fails. -/
theorem pow_accuracy_mid_le_one {b e : Int} (hb1 : 5 * 10 ^ 17 ≤ b) (hb2 : b ≤ P18) (he0 : 0 ≤ e)
    (he1 : e ≤ 10 ^ 8 * P18) :
    ∃ r, pow b e = some r ∧ |dv r - dv b ^ dv e| ≤ 1 / 10 ^ 8 := by
  have hB : dv b ≤ 1 := by have := dv_le hb2; rwa [dv_P18] at this
  have hm : max 1 (dv b) = 1 := max_eq_left hB
  have := P18_val
  obtain ⟨r, hr, h⟩ := pow_accuracy_mid hb1 (by omega) he0 he1 (by rw [hm, one_pow]; norm_num)
  rw [hm, one_pow] at h
  exact ⟨r, hr, h⟩

/-- FULL. Bases in `[1, 1.5]` (the exact-out swap, the single-asset join), exponents up to 200: `Pow` never fails
and the error is at most `b^⌊e⌋·10^-8`, hence RELATIVE `10^-8`. -/
theorem pow_accuracy_mid_ge_one {b e : Int} (hb1 : P18 ≤ b) (hb2 : b ≤ 15 * 10 ^ 17) (he0 : 0 ≤ e)
    (he1 : e ≤ 200 * P18) :
    ∃ r, pow b e = some r ∧ |dv r - dv b ^ dv e| ≤ dv b ^ ⌊dv e⌋₊ / 10 ^ 8 ∧
      |dv r - dv b ^ dv e| ≤ dv b ^ dv e / 10 ^ 8 := by
  have hB : 1 ≤ dv b := by have := dv_le hb1; rwa [dv_P18] at this
  have hB2 : dv b ≤ 3 / 2 := by
    have := dv_le hb2; unfold dv at this ⊢; push_cast at this
    linarith only [this, show ((15 : ℝ) * 10 ^ 17) / 10 ^ 18 = 3 / 2 by norm_num]
  have hm : max 1 (dv b) = dv b := max_eq_right hB
  have hE0 : 0 ≤ dv e := dv_nonneg he0
  have hE : dv e ≤ 200 := by
    have := dv_le he1; rw [dv_P18_mul] at this; push_cast at this; exact this
  have hfl : ⌊dv e⌋₊ ≤ 200 := by
    have : ⌊dv e⌋₊ ≤ ⌊(200 : ℝ)⌋₊ := Nat.floor_le_floor hE
    simpa using this
  have hbig : dv b ^ ⌊dv e⌋₊ ≤ 10 ^ 38 := by
    calc dv b ^ ⌊dv e⌋₊ ≤ dv b ^ 200 := pow_le_pow_right₀ hB hfl
      _ ≤ (3 / 2) ^ 200 := pow_le_pow_left₀ (by linarith only [hB]) hB2 200
      _ ≤ 10 ^ 38 := by norm_num
  have := P18_val
  obtain ⟨r, hr, h⟩ := pow_accuracy_mid (by omega) hb2 he0 (by omega) (by rw [hm]; exact hbig)
  rw [hm] at h
  refine ⟨r, hr, h, h.trans ?_⟩
  apply div_le_div_of_nonneg_right _ (by positivity)
  rw [← Real.rpow_natCast]
  exact Real.rpow_le_rpow_of_exponent_le hB (Nat.floor_le hE0)

/-- FULL. Bases in `[1, 1.99]` (ALTERNATING series: remainder below the first omitted term for every `b < 2`),
exponents up to 100: `Pow` never fails and `|Pow(b,e) − b^e| ≤ b^⌊e⌋·10^-8 ≤ b^e·10^-8`. -/
theorem pow_accuracy_upper {b e : Int} (hb1 : P18 ≤ b) (hb2 : b ≤ 199 * 10 ^ 16) (he0 : 0 ≤ e)
    (he1 : e ≤ 100 * P18) :
    ∃ r, pow b e = some r ∧ |dv r - dv b ^ dv e| ≤ dv b ^ ⌊dv e⌋₊ / 10 ^ 8 ∧
      |dv r - dv b ^ dv e| ≤ dv b ^ dv e / 10 ^ 8 := by
  have hB : 1 ≤ dv b := by have := dv_le hb1; rwa [dv_P18] at this
  have hB2 : dv b ≤ 199 / 100 := by
    have := dv_le hb2; unfold dv at this ⊢; push_cast at this
    linarith only [this, show ((199 : ℝ) * 10 ^ 16) / 10 ^ 18 = 199 / 100 by norm_num]
  have hm : max 1 (dv b) = dv b := max_eq_right hB
  have hE0 : 0 ≤ dv e := dv_nonneg he0
  have hE : dv e ≤ 100 := by
    have := dv_le he1; rw [dv_P18_mul] at this; push_cast at this; exact this
  have hfl : ⌊dv e⌋₊ ≤ 100 := by
    have : ⌊dv e⌋₊ ≤ ⌊(100 : ℝ)⌋₊ := Nat.floor_le_floor hE
    simpa using this
  have hbig : dv b ^ ⌊dv e⌋₊ ≤ 10 ^ 38 := by
    calc dv b ^ ⌊dv e⌋₊ ≤ dv b ^ 100 := pow_le_pow_right₀ hB hfl
      _ ≤ (199 / 100) ^ 100 := pow_le_pow_left₀ (by linarith only [hB]) hB2 100
      _ ≤ 10 ^ 38 := by norm_num
  obtain ⟨r, hr, h⟩ := pow_upper_spec hb1 hb2 he0 he1 (by rw [hm]; exact hbig)
  rw [hm] at h
  refine ⟨r, hr, h, h.trans ?_⟩
  apply div_le_div_of_nonneg_right _ (by positivity)
  rw [← Real.rpow_natCast]
  exact Real.rpow_le_rpow_of_exponent_le hB (Nat.floor_le hE0)

/-- FULL. The fractional power alone on `[1, 1.99]`: `PowApprox` returns (at most 1840 iterations) within
`0.9896·10^-8` — the documented precision, absolute. -/
theorem powApprox_accuracy_upper {b a : Int} (hb1 : P18 ≤ b) (hb2 : b ≤ 199 * 10 ^ 16) (ha0 : 0 < a)
    (ha1 : a < P18) :
    ∃ r, powApprox b a Osmomath.powPrecision = some r ∧ |dv r - dv b ^ dv a| ≤ 9896 / 10 ^ 12 :=
  powApprox_upper_all hb1 hb2 ha0 ha1

/-- the oracle's tolerance `10^-8·(1 + b^e)` (engines `math`, `gammmath`) is a THEOREM on `[0.5, 1.99]`. -/
theorem pow_accuracy_mid_oracle_form {b e : Int} (hb1 : 5 * 10 ^ 17 ≤ b) (hb2 : b ≤ 199 * 10 ^ 16) (he0 : 0 ≤ e)
    (he1 : e ≤ 100 * P18) :
    ∃ r, pow b e = some r ∧ |dv r - dv b ^ dv e| ≤ (1 + dv b ^ dv e) / 10 ^ 8 := by
  have := P18_val
  have hpos : 0 ≤ dv b ^ dv e := Real.rpow_nonneg (dv_nonneg (by omega)) _
  rcases Int.lt_or_le b P18 with h | h
  · obtain ⟨r, hr, hacc⟩ := pow_accuracy_mid_le_one hb1 (by omega) he0 (by omega)
    refine ⟨r, hr, hacc.trans ?_⟩
    apply div_le_div_of_nonneg_right _ (by positivity); linarith only [hpos]
  · obtain ⟨r, hr, _, hacc⟩ := pow_accuracy_upper h hb2 he0 he1
    refine ⟨r, hr, hacc.trans ?_⟩
    apply div_le_div_of_nonneg_right _ (by positivity); linarith only [hpos]

/-- FULL. The fractional power alone on `[0.5, 1.5]`: `PowApprox` returns within `0.9643·10^-8` (series, at most 27
iterations) resp. `5·10^-18` (exponent 1/2, `ApproxSqrt`). -/
theorem powApprox_accuracy_mid {b a : Int} (hb1 : 5 * 10 ^ 17 ≤ b) (hb2 : b ≤ 15 * 10 ^ 17) (ha0 : 0 < a)
    (ha1 : a < P18) :
    ∃ r, powApprox b a Osmomath.powPrecision = some r ∧ |dv r - dv b ^ dv a| ≤ 9643 / 10 ^ 12 :=
  powApprox_mid_all hb1 hb2 ha0 ha1

/-- FULL. `ApproxSqrt` on `[0.25, 2.25]`: returns within `5·10^-18` of the real square root. -/
theorem approxSqrt_accuracy {d : Int} (h1 : 25 * 10 ^ 16 ≤ d) (h2 : d ≤ 225 * 10 ^ 16) :
    ∃ r, approxSqrt d = some r ∧ |dv r - √(dv d)| ≤ 5 / 10 ^ 18 :=
  approxSqrt_spec h1 h2

/-- FULL. `LegacyDec.Power(n)` for a base `0 ≤ b`, `β = max(1,b)`, while `(β·(1+½·10^-18))^n ≤ 10^40`:
returns within `β^n·((1 + ½·10^-18)^n − 1)` of `b^n`. -/
theorem decPower_accuracy {base : Int} {n : ℕ} (hb : 0 ≤ base) (hn : n < 2 ^ 64)
    (hbig : (max 1 (dv base) * (1 + mulErr)) ^ n ≤ 10 ^ 40) :
    ∃ r, decPower base n = some r ∧
      |dv r - dv base ^ n| ≤ (max 1 (dv base)) ^ n * ((1 + mulErr) ^ n - 1) :=
  decPower_spec (dv_nonneg hb) (le_max_right _ _) (le_max_left _ _) rfl hn hbig

/-! ## 2. any radius `q < 1` -/

/-- FULL. `PowApprox` for a base within `q < 1` of 1 and an exponent in `(0, 1]` other than 1/2: if the per-term error
`D` is a fixed point bound (`q·D + 2·mulErr + quoErr ≤ D`) and `q^N + D < 10^-8` (iteration bound `N`, below the
limit), it RETURNS within `powApproxEps q N D = N·D + (10^-8 + D)·(N/(N+1))·q/(1−q) + D/(1−q)`. -/
theorem powApprox_accuracy_general {b a : Int} {q D : ℝ} {N : ℕ} (hb : 0 < b) (hbq : |dv b - 1| ≤ q)
    (hq1 : q < 1) (ha0 : 0 < a) (ha1 : a ≤ P18) (hne : a ≠ Osmomath.one_half)
    (hD : q * D + (2 * mulErr + quoErr) ≤ D) (hD1 : D ≤ 1 / 10 ^ 10)
    (hN : q ^ N + D < 1 / 10 ^ 8) (hNL : N + 1 < Osmomath.powIterationLimit) :
    ∃ r, powApprox b a Osmomath.powPrecision = some r ∧ |dv r - dv b ^ dv a| ≤ powApproxEps q N D :=
  powApprox_series_spec hb hbq hq1 ha0 ha1 hne hD hD1 hN hNL

/-- FULL. On `[0.1, 1.9]`: at most 175 iterations, error at most `9·10^-8` (`≈ 10^-8·q/(1−q)`, `q = 0.9`; the
documented `10^-8` is false there: F9 and the witnesses below). -/
theorem powApprox_accuracy_wide {b a : Int} (hb1 : 10 ^ 17 ≤ b) (hb2 : b ≤ 19 * 10 ^ 17) (ha0 : 0 < a)
    (ha1 : a ≤ P18) (hne : a ≠ Osmomath.one_half) :
    ∃ r, powApprox b a Osmomath.powPrecision = some r ∧ |dv r - dv b ^ dv a| ≤ 9 / 10 ^ 8 := by
  have h1 : (1 : ℝ) / 10 ≤ dv b := by
    have := dv_le hb1; unfold dv at this ⊢; push_cast at this
    linarith only [this, show ((10 : ℝ) ^ 17) / 10 ^ 18 = 1 / 10 by norm_num]
  have h2 : dv b ≤ 19 / 10 := by
    have := dv_le hb2; unfold dv at this ⊢; push_cast at this
    linarith only [this, show ((19 : ℝ) * 10 ^ 17) / 10 ^ 18 = 19 / 10 by norm_num]
  obtain ⟨r, hr, hacc⟩ := powApprox_accuracy_general (b := b) (a := a) (q := 9 / 10) (D := 2 / 10 ^ 17) (N := 175)
    (by omega) (by rw [abs_le]; constructor <;> linarith only [h1, h2]) (by norm_num) ha0 ha1 hne
    (by unfold mulErr quoErr; norm_num) (by norm_num) (by norm_num) (by decide)
  exact ⟨r, hr, hacc.trans (by unfold powApproxEps; norm_num)⟩

/-! ## 3. frontier witnesses -/

/-- WITNESS (F9 side of the frontier): the `10^-8` claim FAILS just below the proved interval, with typical exponents:
`Pow(0.4718, 0.1) = 0.927632163403420043 > 0.4718^0.1 + 10^-8` (the largest base on the 10^-4 grid that fails with
exponent 1/10) and `Pow(0.4631, 0.25) = 0.824933044421919905 > 0.4631^0.25 + 10^-8` (… with exponent 1/4, a 1:4 pool). -/
theorem pow_accuracy_fails_below_witness :
    (pow 471800000000000000 100000000000000000 = some 927632163403420043 ∧
      dv 471800000000000000 ^ dv 100000000000000000 + 1 / 10 ^ 8 < dv 927632163403420043) ∧
    (pow 463100000000000000 250000000000000000 = some 824933044421919905 ∧
      dv 463100000000000000 ^ dv 250000000000000000 + 1 / 10 ^ 8 < dv 824933044421919905) := by
  refine ⟨⟨by decide +kernel, ?_⟩, ⟨by decide +kernel, ?_⟩⟩
  · have e : dv 100000000000000000 = ((10 : ℕ) : ℝ)⁻¹ := by unfold dv; norm_num
    rw [e]
    have := rpow_inv_lt (b := dv 471800000000000000) (x := dv 927632163403420043 - 1 / 10 ^ 8) (q := 10)
      (by unfold dv; norm_num) (by unfold dv; norm_num) (by norm_num) (by unfold dv; norm_num)
    linarith only [this]
  · have e : dv 250000000000000000 = ((4 : ℕ) : ℝ)⁻¹ := by unfold dv; norm_num
    rw [e]
    have := rpow_inv_lt (b := dv 463100000000000000) (x := dv 824933044421919905 - 1 / 10 ^ 8) (q := 4)
      (by unfold dv; norm_num) (by unfold dv; norm_num) (by norm_num) (by unfold dv; norm_num)
    linarith only [this]

/-- WITNESS: above base 1 the ABSOLUTE `10^-8` is false inside the proved interval (so the factor `b^⌊e⌋` of
`pow_accuracy_mid` is needed): `Pow(1.5, 3.25) = 3.735051489635457860 > 1.5^3.25 + 10^-8`. -/
theorem pow_abs_precision_fails_above_one_witness :
    pow 1500000000000000000 3250000000000000000 = some 3735051489635457860 ∧
      dv 1500000000000000000 ^ dv 3250000000000000000 + 1 / 10 ^ 8 < dv 3735051489635457860 := by
  refine ⟨by decide +kernel, ?_⟩
  have e : dv 3250000000000000000 = ((13 : ℕ) : ℝ) * ((4 : ℕ) : ℝ)⁻¹ := by unfold dv; norm_num
  have hb : (0 : ℝ) ≤ dv 1500000000000000000 := by unfold dv; norm_num
  rw [e, Real.rpow_mul hb, Real.rpow_natCast]
  have := rpow_inv_lt (b := dv 1500000000000000000 ^ 13) (x := dv 3735051489635457860 - 1 / 10 ^ 8) (q := 4)
    (by positivity) (by unfold dv; norm_num) (by norm_num) (by unfold dv; norm_num)
  linarith only [this]

/-- WITNESS (F10 side of the frontier): an in-domain input on which `Pow` PANICS — `Pow(1.999999999999999999, 0.02)`
runs into the 150000-iteration limit (every term of the series stays above `9·10^-8`).  It fails loudly (`none`),
but inside the documented domain `(0, 2)`. -/
theorem pow_panics_near_two_witness : pow 1999999999999999999 20000000000000000 = none :=
  pow_near_two_panics

/-- … for ANY input: if every true term `|C(a,k)·x^k|`, `1 ≤ k ≤ 150000`, is at least `2·10^-8`, `PowApprox` panics. -/
theorem powApprox_panics_of_slow_series {base exp x : Int} {xn : Bool} (hb : 0 < base)
    (hx : absDiffSign base P18 = some (x, xn)) (hx0 : 0 ≤ x) (hx1 : dv x ≤ 1) (he0 : 0 < exp) (he1 : exp ≤ P18)
    (hne : exp ≠ Osmomath.one_half)
    (hT : ∀ k : ℕ, 1 ≤ k → k ≤ Osmomath.powIterationLimit → 2 / 10 ^ 8 ≤ |pterm (dv exp) (sg xn * dv x) k|) :
    powApprox base exp Osmomath.powPrecision = none := by
  rw [powApprox_eq hb (by omega) hne hx]
  exact powApproxLoop_panics hx0 hx1 he0.le he1 hT (Osmomath.powIterationLimit + 2) 0 1 P18 P18 0 false (by omega)
    (by decide) (by norm_num) (by norm_num) P18_pos.le
    (by
      have : pterm (dv exp) (sg xn * dv x) 0 = 1 := rfl
      rw [this, sg_false, one_mul, dv_P18, sub_self, abs_zero]; simp)
    (by rw [dv_P18]; norm_num)

/-! ## non-vacuity -/

/-- the hypotheses of `pow_accuracy_mid` on concrete values: the edge base 0.5 with the worst exponent found by the
reference search (error `8.99·10^-9`), a 1:4 pool exponent, an exponent with integer part. -/
example : pow 500000000000000000 57701716247018928 = some 960793500824925982 := by decide +kernel
example : pow 700000000000000000 250000000000000000 = some 914691221065675168 := by decide +kernel
example : ∃ r, pow 500000000000000000 57701716247018928 = some r ∧
    |dv r - dv 500000000000000000 ^ dv 57701716247018928| ≤ 1 / 10 ^ 8 :=
  pow_accuracy_mid_le_one (by decide) (by decide) (by decide) (by decide)
example : ∃ r, pow 1500000000000000000 3250000000000000000 = some r ∧
    |dv r - dv 1500000000000000000 ^ dv 3250000000000000000| ≤
      dv 1500000000000000000 ^ ⌊dv 3250000000000000000⌋₊ / 10 ^ 8 := by
  obtain ⟨r, h1, h2, _⟩ := pow_accuracy_mid_ge_one (b := 1500000000000000000) (e := 3250000000000000000)
    (by decide) (by decide) (by decide) (by decide)
  exact ⟨r, h1, h2⟩
example : pow 1990000000000000000 2340000000000000000 = some 5003987319688884151 := by decide +kernel
example : ∃ r, pow 1990000000000000000 2340000000000000000 = some r ∧
    |dv r - dv 1990000000000000000 ^ dv 2340000000000000000| ≤ dv 1990000000000000000 ^ dv 2340000000000000000 / 10 ^ 8 := by
  obtain ⟨r, h1, _, h2⟩ := pow_accuracy_upper (b := 1990000000000000000) (e := 2340000000000000000)
    (by decide) (by decide) (by decide) (by decide)
  exact ⟨r, h1, h2⟩
example : ∃ r, powApprox 150000000000000000 300000000000000000 Osmomath.powPrecision = some r ∧
    |dv r - dv 150000000000000000 ^ dv 300000000000000000| ≤ 9 / 10 ^ 8 :=
  powApprox_accuracy_wide (by decide) (by decide) (by decide) (by decide) (by decide)

end OsmoVerif.Props.C13Pow
