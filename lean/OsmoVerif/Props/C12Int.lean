/-
C12 — the INTEGER side: `osmomath.BigInt` (osmomath/int.go, 1024 bits), the sdk `Int` (256 bits), the
BigDec ↔ integer operations of osmomath/decimal.go and `DivIntByU64ToBigDec` (rounding_direction.go).

Every theorem is about the executable model `Model/NumInt.lean` (tied to the Go code by the `num`
correspondence engine, harness/cmd/pure/numint.go).  "fits n bits" is `|x| < 2^n` (`big.Int.BitLen() ≤ n`).
Rounding is stated with the uniquely determining specs of `Spec/Rounding.lean`; `sgnMul b n / |b|` is the
exact quotient `n / b` with the divisor made positive.  Only property theorems and non-vacuity examples.
-/
import OsmoVerif.Proofs.NumIntLemmas
import OsmoVerif.Proofs.NumIntText
import OsmoVerif.Props.C12

namespace OsmoVerif.Props.C12Int
open OsmoVerif.Num OsmoVerif.Spec OsmoVerif.Gen

/-! ## BigInt: Add / Sub / Mul return the exact result iff it fits 1024 bits, else fail -/

theorem bigint_add_exact_iff_fits (a b : Int) :
    ((a + b).natAbs < 2 ^ Osmomath.maxBitLen → BigInt.add a b = some (a + b)) ∧
    (¬ (a + b).natAbs < 2 ^ Osmomath.maxBitLen → BigInt.add a b = none) :=
  ⟨fun h => chkBigInt_of_fits (lt_fitsBits h), fun h => chkBigInt_of_not_fits (fun hh => h (fitsBits_lt hh))⟩

theorem bigint_sub_exact_iff_fits (a b : Int) :
    ((a - b).natAbs < 2 ^ Osmomath.maxBitLen → BigInt.sub a b = some (a - b)) ∧
    (¬ (a - b).natAbs < 2 ^ Osmomath.maxBitLen → BigInt.sub a b = none) :=
  ⟨fun h => chkBigInt_of_fits (lt_fitsBits h), fun h => chkBigInt_of_not_fits (fun hh => h (fitsBits_lt hh))⟩

/-- whatever `Mul` returns is the exact product and fits (no hypothesis on the operands). -/
theorem bigint_mul_sound {a b r : Int} (h : BigInt.mul a b = some r) :
    r = a * b ∧ r.natAbs < 2 ^ Osmomath.maxBitLen := by
  unfold BigInt.mul at h
  split at h
  · cases h
  · obtain ⟨rfl, hf⟩ := chkBigInt_some h
    exact ⟨rfl, fitsBits_lt hf⟩

/-- the cheap pre-check (`len a + len b − 1 > 1024`) NEVER rejects a representable product of two values of the
type: `Mul` is total on representable results. -/
theorem bigint_mul_total_on_representable {a b : Int} (ha : a.natAbs < 2 ^ Osmomath.maxBitLen)
    (hb : b.natAbs < 2 ^ Osmomath.maxBitLen) (hab : (a * b).natAbs < 2 ^ Osmomath.maxBitLen) :
    BigInt.mul a b = some (a * b) := by
  unfold BigInt.mul
  rw [mulPre_false_of_fits (lt_fitsBits ha) (lt_fitsBits hb) hab]
  exact chkBigInt_of_fits (lt_fitsBits hab)

/-- for operands of the type: the exact product iff it fits 1024 bits, `none` ("Int overflow") otherwise. -/
theorem bigint_mul_exact_iff_fits {a b : Int} (ha : a.natAbs < 2 ^ Osmomath.maxBitLen)
    (hb : b.natAbs < 2 ^ Osmomath.maxBitLen) :
    ((a * b).natAbs < 2 ^ Osmomath.maxBitLen → BigInt.mul a b = some (a * b)) ∧
    (¬ (a * b).natAbs < 2 ^ Osmomath.maxBitLen → BigInt.mul a b = none) := by
  refine ⟨bigint_mul_total_on_representable ha hb, fun h => ?_⟩
  cases hm : BigInt.mul a b with
  | none => rfl
  | some r => obtain ⟨rfl, hr⟩ := bigint_mul_sound hm; exact absurd hr h

/-- the pre-check alone: for non-zero operands it fires only on a real overflow. -/
theorem bigint_mul_precheck_sound {a b : Int} (ha : a ≠ 0) (hb : b ≠ 0) (h : BigInt.mulPre a b = true) :
    ¬ (a * b).natAbs < 2 ^ Osmomath.maxBitLen := mulPre_imp_overflow ha hb h

/-- `MulRaw`, `AddRaw`, `SubRaw`, `QuoRaw`, `ModRaw` are the same functions on `NewBigInt(int64)`; an int64
is always a value of the type. -/
theorem int64_is_bigint {n : Int} (h : isInt64 n = true) : n.natAbs < 2 ^ Osmomath.maxBitLen := by
  unfold isInt64 int64Min int64Max at h
  have : n.natAbs ≤ 2 ^ 63 := by
    simp only [Bool.and_eq_true, decide_eq_true_eq] at h; omega
  exact Nat.lt_of_le_of_lt this (by decide +kernel)

/-! ## BigInt: Quo truncates, Mod is Euclidean (the sign convention as coded), both stay in range -/

theorem bigint_quo_trunc {a b r : Int} (h : BigInt.quo a b = some r) :
    b ≠ 0 ∧ IsTrunc (sgnMul b a) b.natAbs r ∧ r.natAbs ≤ a.natAbs := by
  unfold BigInt.quo at h; split at h
  · cases h
  · cases h; exact ⟨by assumption, tdiv_general_isTrunc _ _ (by assumption), Int.natAbs_tdiv_le_natAbs _ _⟩

theorem bigint_quo_div_zero (a : Int) : BigInt.quo a 0 = none ∧ BigInt.mod a 0 = none := ⟨rfl, rfl⟩

/-- `Mod` is `big.Int.Mod`: the EUCLIDEAN remainder — never negative, below `|b|`, congruent to `a`. -/
theorem bigint_mod_spec {a b r : Int} (h : BigInt.mod a b = some r) :
    b ≠ 0 ∧ 0 ≤ r ∧ r < b.natAbs ∧ ∃ q, a = q * b + r := by
  unfold BigInt.mod at h; split at h
  · cases h
  · cases h
    rename_i hb
    exact ⟨hb, Int.emod_nonneg _ hb, Int.emod_lt _ hb, a / b, by rw [Int.mul_comm]; exact (Int.mul_ediv_add_emod a b).symm⟩

/-- … hence `Quo` (truncated) and `Mod` (Euclidean) do NOT recombine for a negative dividend: −7 = (−3)·2 − 1,
but `Mod` returns +1. -/
theorem bigint_quo_mod_not_complementary_witness :
    BigInt.quo (-7) 2 = some (-3) ∧ BigInt.mod (-7) 2 = some 1 ∧ (-3 : Int) * 2 + 1 ≠ -7 := by decide

/-- for a non-negative dividend and a positive divisor they do. -/
theorem bigint_quo_mod_complementary_nonneg {a b q r : Int} (ha : 0 ≤ a) (hb : 0 < b)
    (hq : BigInt.quo a b = some q) (hr : BigInt.mod a b = some r) : a = q * b + r := by
  unfold BigInt.quo at hq; unfold BigInt.mod at hr
  rw [if_neg (by omega)] at hq hr
  cases hq; cases hr
  rw [Int.tdiv_eq_ediv_of_nonneg ha, Int.mul_comm]
  exact (Int.mul_ediv_add_emod a b).symm

/-- Neg / Abs / Min / Max need no check: the range is symmetric and they select or negate. -/
theorem bigint_neg_abs_in_range {a : Int} (ha : a.natAbs < 2 ^ Osmomath.maxBitLen) :
    (∃ r, BigInt.neg a = some r ∧ r = -a ∧ r.natAbs < 2 ^ Osmomath.maxBitLen) ∧
    (∃ r, BigInt.abs a = some r ∧ r = (a.natAbs : Int) ∧ r.natAbs < 2 ^ Osmomath.maxBitLen) :=
  ⟨⟨_, rfl, rfl, by rw [Int.natAbs_neg]; exact ha⟩, ⟨_, rfl, rfl, by simpa using ha⟩⟩

theorem bigint_min_max (a b : Int) :
    (∃ r, BigInt.min a b = some r ∧ r ≤ a ∧ r ≤ b ∧ (r = a ∨ r = b)) ∧
    (∃ r, BigInt.max a b = some r ∧ a ≤ r ∧ b ≤ r ∧ (r = a ∨ r = b)) := by
  constructor
  · refine ⟨_, rfl, ?_⟩; split <;> omega
  · refine ⟨_, rfl, ?_⟩; split <;> omega

/-! ## BigInt: conversions -/

/-- `ToDec` / `NewBigDecFromInt`: exact, and the result always fits the BigDec bound (no check needed). -/
theorem bigint_toDec_exact_in_range {a : Int} (ha : a.natAbs < 2 ^ Osmomath.maxBitLen) :
    BigInt.toDec a = some (a * P36) ∧ chk (a * P36) = some (a * P36) :=
  ⟨rfl, chk_of_fits (fits_dec_of_mul ha P36_natAbs_lt)⟩

theorem bigint_int64_iff (a : Int) :
    (-(2 ^ 63) ≤ a ∧ a < 2 ^ 63 → BigInt.int64 a = some a) ∧ (¬ (-(2 ^ 63) ≤ a ∧ a < 2 ^ 63) → BigInt.int64 a = none) := by
  unfold BigInt.int64 isInt64 int64Min int64Max
  constructor
  · intro h; rw [if_pos (by simp only [Bool.and_eq_true, decide_eq_true_eq]; omega)]
  · intro h; rw [if_neg (by simp only [Bool.and_eq_true, decide_eq_true_eq]; omega)]

theorem bigint_uint64_iff (a : Int) :
    (0 ≤ a ∧ a < 2 ^ 64 → BigInt.uint64 a = some a) ∧ (¬ (0 ≤ a ∧ a < 2 ^ 64) → BigInt.uint64 a = none) := by
  unfold BigInt.uint64 isUint64 uint64Max
  constructor
  · intro h; rw [if_pos (by simp only [Bool.and_eq_true, decide_eq_true_eq]; omega)]
  · intro h; rw [if_neg (by simp only [Bool.and_eq_true, decide_eq_true_eq]; omega)]

/-- `NewBigIntFromBigInt` / `NewBigIntWithDecimal`: the value iff it fits, else panic; a negative exponent panics. -/
theorem bigint_constructors (x n : Int) (dec : Nat) :
    (x.natAbs < 2 ^ Osmomath.maxBitLen → BigInt.ofBig x = some x) ∧
    (¬ x.natAbs < 2 ^ Osmomath.maxBitLen → BigInt.ofBig x = none) ∧
    ((n * 10 ^ dec).natAbs < 2 ^ Osmomath.maxBitLen → BigInt.withDecimal n dec = some (n * 10 ^ dec)) ∧
    (¬ (n * 10 ^ dec).natAbs < 2 ^ Osmomath.maxBitLen → BigInt.withDecimal n dec = none) ∧
    BigInt.withDecimal n (-(dec : Int) - 1) = none := by
  refine ⟨fun h => chkBigInt_of_fits (lt_fitsBits h), fun h => chkBigInt_of_not_fits (fun hh => h (fitsBits_lt hh)), ?_, ?_, ?_⟩
  · intro h; unfold BigInt.withDecimal; rw [if_neg (by omega), Int.toNat_natCast]; exact chkBigInt_of_fits (lt_fitsBits h)
  · intro h; unfold BigInt.withDecimal; rw [if_neg (by omega), Int.toNat_natCast]
    exact chkBigInt_of_not_fits (fun hh => h (fitsBits_lt hh))
  · unfold BigInt.withDecimal; rw [if_pos (by omega)]

/-! ## sdk Int (256 bits): the same statement with the sdk's single post-check -/
theorem sint_exact_iff_fits (a b : Int) :
    ((a + b).natAbs < 2 ^ Osmomath.sdkMaxBitLen → SInt.add a b = some (a + b)) ∧
    (¬ (a + b).natAbs < 2 ^ Osmomath.sdkMaxBitLen → SInt.add a b = none) ∧
    ((a - b).natAbs < 2 ^ Osmomath.sdkMaxBitLen → SInt.sub a b = some (a - b)) ∧
    (¬ (a - b).natAbs < 2 ^ Osmomath.sdkMaxBitLen → SInt.sub a b = none) ∧
    ((a * b).natAbs < 2 ^ Osmomath.sdkMaxBitLen → SInt.mul a b = some (a * b)) ∧
    (¬ (a * b).natAbs < 2 ^ Osmomath.sdkMaxBitLen → SInt.mul a b = none) :=
  ⟨fun h => chkInt_of_fits (lt_fitsBits h), fun h => chkInt_of_not_fits (fun hh => h (fitsBits_lt hh)),
   fun h => chkInt_of_fits (lt_fitsBits h), fun h => chkInt_of_not_fits (fun hh => h (fitsBits_lt hh)),
   fun h => chkInt_of_fits (lt_fitsBits h), fun h => chkInt_of_not_fits (fun hh => h (fitsBits_lt hh))⟩

/-! ## BigDec ↔ integer: QuoInt / QuoInt64 truncate toward zero for either sign; MulInt exact iff it fits -/

theorem quoInt_trunc {a b r : Int} (h : BigDec.quoInt a b = some r) :
    b ≠ 0 ∧ IsTrunc (sgnMul b a) b.natAbs r ∧ r.natAbs ≤ a.natAbs := by
  unfold BigDec.quoInt at h; split at h
  · cases h
  · cases h; exact ⟨by assumption, tdiv_general_isTrunc _ _ (by assumption), Int.natAbs_tdiv_le_natAbs _ _⟩

theorem quoInt64_trunc {a b r : Int} (h : BigDec.quoInt64 a b = some r) :
    b ≠ 0 ∧ IsTrunc (sgnMul b a) b.natAbs r ∧ r.natAbs ≤ a.natAbs := quoInt_trunc h

/-- a truncated quotient never overshoots: `|r·b| ≤ |a|`, and it is symmetric in the sign of the dividend. -/
theorem quoInt64_no_overshoot_and_odd {a b r : Int} (h : BigDec.quoInt64 a b = some r) :
    (r * b).natAbs ≤ a.natAbs ∧ BigDec.quoInt64 (-a) b = some (-r) := by
  unfold BigDec.quoInt64 BigDec.quoInt at h ⊢; split at h
  · cases h
  · cases h
    rename_i hb
    refine ⟨?_, by rw [if_neg hb, Int.neg_tdiv]⟩
    rw [Int.natAbs_mul, Int.natAbs_tdiv]
    exact Nat.div_mul_le_self _ _

/-- `QuoInt64` agrees with `QuoInt` on every operand pair. -/
theorem quoInt64_eq_quoInt (a b : Int) : BigDec.quoInt64 a b = BigDec.quoInt a b := rfl

theorem mulInt_exact_iff_fits (a b : Int) :
    ((a * b).natAbs < 2 ^ Osmomath.maxDecBitLen → BigDec.mulInt a b = some (a * b) ∧ BigDec.mulInt64 a b = some (a * b)) ∧
    (¬ (a * b).natAbs < 2 ^ Osmomath.maxDecBitLen → BigDec.mulInt a b = none ∧ BigDec.mulInt64 a b = none) := by
  constructor
  · intro h; exact ⟨chk_of_fits (lt_fitsBits h), chk_of_fits (lt_fitsBits h)⟩
  · intro h
    have : chk (a * b) = none := by unfold chk; rw [if_neg (fun hh => h (fitsBits_lt hh))]
    exact ⟨this, this⟩

/-- `TruncateInt64` / `RoundInt64`: the rounded integer part when it is an int64, a panic otherwise. -/
theorem truncateInt64_spec {a r : Int} (h : BigDec.truncateInt64 a = some r) :
    IsTrunc a P36 r ∧ -(2 ^ 63) ≤ r ∧ r < 2 ^ 63 := by
  unfold BigDec.truncateInt64 at h
  simp only at h
  split at h
  · cases h
    rename_i hi
    unfold isInt64 int64Min int64Max at hi
    simp only [Bool.and_eq_true, decide_eq_true_eq] at hi
    exact ⟨tdiv_isTrunc _ _ P36_pos, by omega, by omega⟩
  · cases h

theorem roundInt64_spec {a r : Int} (h : BigDec.roundInt64 a = some r) :
    IsHalfEven a P36 r ∧ -(2 ^ 63) ≤ r ∧ r < 2 ^ 63 := by
  unfold BigDec.roundInt64 at h
  simp only at h
  split at h
  · cases h
    rename_i hi
    unfold isInt64 int64Min int64Max at hi
    simp only [Bool.and_eq_true, decide_eq_true_eq] at hi
    exact ⟨chopRound_isHalfEven _ _ P36_pos P36_even, by omega, by omega⟩
  · cases h

theorem int64_conversions_fail_outside (a : Int) :
    (¬ (-(2 ^ 63) ≤ a.tdiv P36 ∧ a.tdiv P36 < 2 ^ 63) → BigDec.truncateInt64 a = none) ∧
    (¬ (-(2 ^ 63) ≤ chopRound P36 a ∧ chopRound P36 a < 2 ^ 63) → BigDec.roundInt64 a = none) := by
  unfold BigDec.truncateInt64 BigDec.roundInt64 isInt64 int64Min int64Max
  constructor <;> intro h <;> simp only <;>
    rw [if_neg (by simp only [Bool.and_eq_true, decide_eq_true_eq]; omega)]

/-! ## the constructors `NewBigDecFrom…WithPrec` -/

/-- `prec ≤ 36`: the result is `i / 10^prec` exactly (`r · 10^prec = i · 10^36`); other precisions panic. -/
theorem fromIntWithPrec_exact (i : Int) (prec : Nat) :
    (prec ≤ Osmomath.BigDecPrecision → ∃ r, BigDec.fromIntWithPrec i prec = some r ∧ r * 10 ^ prec = i * P36) ∧
    (Osmomath.BigDecPrecision < prec → BigDec.fromIntWithPrec i prec = none) ∧
    BigDec.fromIntWithPrec i (-(prec : Int) - 1) = none := by
  refine ⟨fun h => ?_, fun h => ?_, ?_⟩
  · unfold BigDec.fromIntWithPrec
    rw [if_neg (by omega), Int.toNat_natCast]
    refine ⟨_, rfl, ?_⟩
    unfold P36
    rw [Int.mul_assoc, ← Int.pow_add]
    congr 2; omega
  · unfold BigDec.fromIntWithPrec; rw [if_pos (by omega)]
  · unfold BigDec.fromIntWithPrec; rw [if_pos (by omega)]

/-- through the TYPED constructors (`NewBigDecFromInt(WithPrec)`, `ToDec`: a BigInt; `BigDecFromSDKInt`: an sdk Int)
the result always fits the BigDec bound, so the missing assertion cannot be observed. -/
theorem fromIntWithPrec_in_range {i r : Int} {prec : Int} (hi : i.natAbs < 2 ^ Osmomath.maxBitLen)
    (h : BigDec.fromIntWithPrec i prec = some r) : chk r = some r := by
  unfold BigDec.fromIntWithPrec at h
  split at h
  · cases h
  · cases h
    rename_i hp
    exact chk_of_fits (fits_dec_of_mul hi (pow10_natAbs_lt (Nat.sub_le _ _)))

/-- F71: on a raw `*big.Int` of more than 1024 bits `NewBigDecFromBigInt` returns a value that no checked
operation produces or accepts (`assertMaxBitLen` would panic on it). -/
theorem fromBigInt_unchecked_witness :
    BigDec.fromIntWithPrec (2 ^ 1200) 0 = some (2 ^ 1200 * P36) ∧ chk (2 ^ 1200 * P36) = none ∧
    BigDec.add (2 ^ 1200 * P36) 0 = none := by decide +kernel

theorem fromDecMulDec_exact {a b r : Int} (h : BigDec.fromDecMulDec a b = some r) :
    r = a * b ∧ r * (P18 * P18) = (a * b) * P36 := by
  cases h; exact ⟨rfl, by congr 1⟩

/-! ## DivIntByU64ToBigDec: what each RoundingDirection does, as coded

For a divisor below 2^63 (the range `int64(u)` keeps): RoundUp is the CEILING of `i·10^36 / u` for either sign
of `i`; RoundDown is the quotient truncated toward ZERO (`QuoInt64`) — for a negative dividend that is the
neighbour ABOVE the exact quotient, not the floor —; RoundBankers is half-even of the quotient truncated at 72
decimals.  A zero divisor, RoundUnconstrained (0) and every other mode are errors. -/

theorem divIntByU64_rounding {i u r : Int} (hu : 0 < u) (hu63 : u < 2 ^ 63) :
    (divIntByU64 i u 1 = .ok r → IsCeil (i * P36) u r) ∧
    (divIntByU64 i u 2 = .ok r → IsTrunc (i * P36) u r) ∧
    (divIntByU64 i u 3 = .ok r → ∃ t, IsTrunc (i * P36 * P36) u t ∧ IsHalfEven t P36 r) := by
  have hv : u64ToI64 u = u := u64ToI64_of_le (by unfold int64Max; omega)
  have hne : u ≠ 0 := by omega
  have hup : 0 < u * P36 := Int.mul_pos hu P36_pos
  have habs : ((u * P36).natAbs : Int) = u * P36 := by omega
  have habsu : (u.natAbs : Int) = u := by omega
  have lift : ∀ {o : Option Int}, Res.ofOption o = .ok r → o = some r := by
    intro o h; cases o with
    | none => cases h
    | some v => cases h; rfl
  refine ⟨fun h => ?_, fun h => ?_, fun h => ?_⟩
  · unfold divIntByU64 at h
    rw [if_neg hne] at h
    simp only [hv, if_true] at h
    obtain ⟨_, hc⟩ := OsmoVerif.Props.C12.quoRoundUp_ceil (lift h)
    rw [sgnMul_of_pos _ hup, habs] at hc
    exact IsCeil.cancel_right P36_pos hc
  · unfold divIntByU64 at h
    rw [if_neg hne] at h
    simp only [hv, show ((2 : Int) = 1) = False from by decide, if_false, if_true] at h
    obtain ⟨_, ht, _⟩ := quoInt64_trunc (lift h)
    rwa [sgnMul_of_pos _ hu, habsu] at ht
  · unfold divIntByU64 at h
    rw [if_neg hne] at h
    simp only [hv, show ((3 : Int) = 1) = False from by decide, show ((3 : Int) = 2) = False from by decide,
      if_false, if_true] at h
    obtain ⟨_, t, ht, hh⟩ := OsmoVerif.Props.C12.quo_half_even_of_trunc72 (lift h)
    rw [sgnMul_of_pos _ hup, habs] at ht
    refine ⟨t, IsTrunc.cancel_right P36_pos ?_, hh⟩
    have e : i * P36 * (P36 * P36) = i * P36 * P36 * P36 := by rw [Int.mul_assoc (i * P36) P36 P36]
    rwa [e] at ht

/-- RoundDown by a divisor below 2^63 always returns (no overflow check is involved). -/
theorem divIntByU64_roundDown_total (i : Int) {u : Int} (hu : 0 < u) (hu63 : u < 2 ^ 63) :
    ∃ r, divIntByU64 i u 2 = .ok r := by
  have hv : u64ToI64 u = u := u64ToI64_of_le (by unfold int64Max; omega)
  unfold divIntByU64
  rw [if_neg (by omega)]
  simp only [hv, show ((2 : Int) = 1) = False from by decide, if_false, if_true]
  unfold BigDec.quoInt64 BigDec.quoInt
  rw [if_neg (by omega)]
  exact ⟨_, rfl⟩

theorem divIntByU64_errors (i u round : Int) :
    divIntByU64 i 0 round = .err ∧ (round ≠ 1 → round ≠ 2 → round ≠ 3 → divIntByU64 i u round = .err) := by
  refine ⟨rfl, fun h1 h2 h3 => ?_⟩
  unfold divIntByU64
  simp only [if_neg h1, if_neg h2, if_neg h3]
  split <;> rfl

/-- RoundDown of a NEGATIVE dividend goes toward zero: −1 / 2^37 = −7.2759576141834259033203125·10⁻¹² is returned
as …312 (above it), where a floor would be …313. -/
theorem divIntByU64_roundDown_is_toward_zero_witness :
    divIntByU64 (-1) (2 ^ 37) 2 = .ok (-7275957614183425903320312) ∧
    ¬ IsFloor (-1 * P36) (2 ^ 37) (-7275957614183425903320312) ∧
    divIntByU64 (-1) (2 ^ 37) 1 = .ok (-7275957614183425903320312) := by
  refine ⟨by decide +kernel, ?_, by decide +kernel⟩
  unfold IsFloor; decide +kernel

/-- F70: from 2^63 on `int64(u)` wraps and the dividend is divided by `u − 2^64`: wrong sign, wrong magnitude. -/
theorem divIntByU64_wrap_witness :
    divIntByU64 5 (2 ^ 64 - 1) 2 = .ok (-5 * P36) ∧ IsTrunc (5 * P36) (2 ^ 64 - 1) 271050543121376108 ∧
    divIntByU64 1 (2 ^ 63) 1 = .ok (-108420217248550443) ∧ IsCeil (1 * P36) (2 ^ 63) 108420217248550444 := by
  refine ⟨by decide +kernel, ?_, by decide +kernel, ?_⟩
  · unfold IsTrunc IsFloor IsCeil; decide +kernel
  · unfold IsCeil; decide +kernel

/-! ## text and binary encodings of BigInt (`String` = `Marshal` = decimal text; the decoders read base 0) -/

/-- the exact truth for EVERY integer: decoding the printed form returns the value iff it fits 1024 bits. -/
theorem bigint_text_roundtrip (a : Int) :
    BigInt.fromChars (BigInt.toChars a) = if fitsBits Osmomath.maxBitLen a then some a else none := by
  unfold BigInt.fromChars BigInt.toChars
  rw [IntText.parseBase0_intChars]
  rfl

/-- every value of the type survives `NewBigIntFromString(String())` and `Unmarshal(Marshal())`. -/
theorem bigint_roundtrip_in_range {a : Int} (ha : a.natAbs < 2 ^ Osmomath.maxBitLen) :
    BigInt.fromChars (BigInt.toChars a) = some a := by
  rw [bigint_text_roundtrip, if_pos (lt_fitsBits ha)]

/-- the sdk Int likewise (bound 256 bits). -/
theorem sint_text_roundtrip (a : Int) :
    SInt.fromChars (BigInt.toChars a) = if fitsBits Osmomath.sdkMaxBitLen a then some a else none := by
  unfold SInt.fromChars BigInt.toChars
  rw [IntText.parseBase0_intChars]
  rfl

/-- `BigDec.Unmarshal(Marshal(x))` reads the raw integer with the same scanner (bound `maxBitLen`):
it is the model's `marshalRoundtrip`. -/
theorem bigdec_unmarshal_marshal (a : Int) :
    BigDec.unmarshalChars (IntText.intChars a) = BigDec.marshalRoundtrip a := by
  unfold BigDec.unmarshalChars
  rw [IntText.parseBase0_intChars]
  rfl

theorem bigint_toChars_injective {a b : Int} (h : BigInt.toChars a = BigInt.toChars b) : a = b := by
  have ha := IntText.parseBase0_intChars a
  have hb := IntText.parseBase0_intChars b
  unfold BigInt.toChars at h
  rw [h, hb] at ha
  cases ha; rfl

/-- `Size()` is the length of the text: sign + decimal digits. -/
theorem bigint_size (a : Int) :
    BigInt.size a = (if a < 0 then 1 else 0) + (Nat.toDigits 10 a.natAbs).length := by
  unfold BigInt.size BigInt.toChars IntText.intChars
  split <;> simp <;> omega

/-- the canonical language: optional '-', decimal digits without a leading zero, value = the digits. -/
theorem bigint_fromChars_decimal {c : Char} {cs : List Char} (h0 : c ≠ '0') (hall : (c :: cs).all Char.isDigit = true) :
    BigInt.fromChars (c :: cs) = chkBigInt (Nat.ofDigitChars 10 (c :: cs) 0 : Nat) ∧
    BigInt.fromChars ('-' :: c :: cs) = chkBigInt (-((Nat.ofDigitChars 10 (c :: cs) 0 : Nat) : Int)) := by
  obtain ⟨h1, h2⟩ := IntText.parseBase0_decimal h0 hall
  unfold BigInt.fromChars
  rw [h1, h2]
  exact ⟨rfl, rfl⟩

/-- rejected for ALL strings of the shape: empty, a bare sign, a leading `_`, and any character that is neither
alphanumeric nor `_` (space, '.', ',', newline, NUL, non-ASCII bytes, a sign that is not first …) anywhere. -/
theorem bigint_fromChars_rejects (pre post cs : List Char) (c : Char) (hc : IntText.digitVal c = 63) (hu : c ≠ '_')
    (hpos : pre ≠ [] ∨ (c ≠ '-' ∧ c ≠ '+')) :
    BigInt.fromChars [] = none ∧ BigInt.fromChars ['-'] = none ∧ BigInt.fromChars ['+'] = none ∧
    BigInt.fromChars ('_' :: cs) = none ∧ BigInt.fromChars ('-' :: '_' :: cs) = none ∧
    BigInt.fromChars (pre ++ c :: post) = none := by
  unfold BigInt.fromChars
  refine ⟨rfl, rfl, rfl, ?_, ?_, ?_⟩
  · rw [IntText.parseBase0_cons]
    simp only [show ('_' : Char) = '-' ↔ False from by decide, show ('_' : Char) = '+' ↔ False from by decide, if_false]
    rw [IntText.scanNat_leading_underscore]; rfl
  · rw [IntText.parseBase0_cons]
    simp only [if_true]
    rw [IntText.scanNat_leading_underscore]; rfl
  · rw [IntText.parseBase0_bad_char pre post c hc hu hpos]; rfl

/-- the decoders read Go's base-0 literals, not only decimal text (as coded): prefixes, a bare leading zero is
OCTAL, `_` between digits; digits outside the base are rejected. -/
theorem bigint_fromChars_base0_witness :
    BigInt.fromChars "0x1F".toList = some 31 ∧ BigInt.fromChars "010".toList = some 8 ∧
    BigInt.fromChars "1_000".toList = some 1000 ∧ BigInt.fromChars "-0b101".toList = some (-5) ∧
    BigInt.fromChars "08".toList = none ∧ BigInt.fromChars "1__0".toList = none ∧ BigInt.fromChars "1_".toList = none ∧
    BigInt.fromChars "0x".toList = none ∧ BigInt.fromChars "-0".toList = some 0 ∧ BigInt.fromChars "+7".toList = some 7 := by
  decide +kernel

/-! ## non-vacuity: the bit-length boundary, both signs, power-of-two divisors -/
example : BigInt.mul (2 ^ 1024 - 1) 1 = some (2 ^ 1024 - 1) := by decide +kernel            -- bit lengths 1024 + 1
example : BigInt.mul (-(2 ^ 1024 - 1)) (-1) = some (2 ^ 1024 - 1) := by decide +kernel
example : BigInt.mul (2 ^ 512) (2 ^ 511) = some (2 ^ 1023) := by decide +kernel              -- 513 + 512 = 1025, fits
example : BigInt.mul (2 ^ 512) (2 ^ 512) = none := by decide +kernel                         -- 513 + 513 = 1026
example : BigInt.mul (2 ^ 513 - 1) (2 ^ 512 - 1) = none := by decide +kernel                 -- 513 + 512 = 1025, 1025 bits
example : BigInt.mulPre (2 ^ 513 - 1) (2 ^ 512 - 1) = false := by decide +kernel             -- … caught by the exact check
example : BigInt.mul 0 0 = some 0 := by decide +kernel
example : BigInt.add (2 ^ 1024 - 1) 1 = none ∧ BigInt.sub (-(2 ^ 1024 - 1)) 1 = none := by decide +kernel
example : BigInt.quo (-(2 ^ 1024 - 1)) 2 = some (-(2 ^ 1023 - 1)) := by decide +kernel       -- toward zero
example : BigDec.quoInt64 (-1) 2 = some 0 := by decide +kernel                                -- −1e-36 / 2 = 0
example : BigDec.quoInt64 (-(10 ^ 36)) (2 ^ 37) = some (-7275957614183425903320312) := by decide +kernel
example : BigDec.quoInt64 (10 ^ 36) (-(2 ^ 37)) = some (-7275957614183425903320312) := by decide +kernel
example : BigInt.fromChars (BigInt.toChars (-(2 ^ 1024 - 1))) = some (-(2 ^ 1024 - 1)) := by
  rw [bigint_text_roundtrip]; decide +kernel
example : BigInt.fromChars (BigInt.toChars (2 ^ 1024)) = none := by rw [bigint_text_roundtrip]; decide +kernel

end OsmoVerif.Props.C12Int
