/-
C04 (stableswap invariant), part 1: the EXACT invariant over ℚ.

  * `kq x y w = x·y·(x² + y² + w)`: the two-asset kernel (`cfmmConstantMultiNoV` without rounding);
    `hq x yf w = x·(x² + yf² + w)` (`cfmmConstantMultiNoVY`).
  * (A) monotonicity of `kq` in each argument on the non-negative orthant, and the n-asset invariant
    `ssK xs = (Π xᵢ)·(Σ xᵢ²)`, its permutation invariance, its factorisation through two distinguished assets
    (`ssK (x :: y :: rest) = kq x y (Σ rest²) · Π rest`) and its coordinatewise monotonicity.
  * (B) the exact algebra of the solver: the Horner form evaluated by `iterKCalculator` is EXACTLY
    `hq (x0 − xOut) yf w − hq x0 yf w`, `targetKCalculator` is EXACTLY `kq x0 y0 w / yf − hq x0 yf w`, so in exact
    arithmetic `target ≤ iterK xf  ⇔  kq x0 y0 w ≤ kq xf yf w`.
-/
import OsmoVerif.Proofs.GammMathSolver
import Mathlib.Algebra.Order.Field.Basic
import Mathlib.Data.Rat.Cast.Order
import Mathlib.Algebra.BigOperators.Group.List.Basic
import Mathlib.Tactic.Ring
import Mathlib.Tactic.Linarith
import Mathlib.Tactic.Positivity
import Mathlib.Tactic.FieldSimp

namespace OsmoVerif.GammMath.SS

/-- exact `cfmmConstantMultiNoV`: `x·y·(x² + y² + w)`. -/
def kq (x y w : ℚ) : ℚ := x * y * (x ^ 2 + y ^ 2 + w)
/-- exact `cfmmConstantMultiNoVY`: `x·(x² + y² + w)`. -/
def hq (x y w : ℚ) : ℚ := x * (x ^ 2 + y ^ 2 + w)

theorem kq_eq_hq_mul (x y w : ℚ) : kq x y w = hq x y w * y := by unfold kq hq; ring
theorem kq_symm (x y w : ℚ) : kq x y w = kq y x w := by unfold kq; ring

theorem kq_nonneg {x y w : ℚ} (hx : 0 ≤ x) (hy : 0 ≤ y) (hw : 0 ≤ w) : 0 ≤ kq x y w := by
  unfold kq; positivity

/-! ### (A) monotonicity -/

/-- exact gain of the kernel when the first reserve grows by `d ≥ 0`. -/
theorem kq_add_x (x y w d : ℚ) :
    kq (x + d) y w = kq x y w + d * y * (3 * x ^ 2 + y ^ 2 + w) + y * d ^ 2 * (3 * x + d) := by
  unfold kq; ring

theorem kq_gain_x {x y w d : ℚ} (hx : 0 ≤ x) (hy : 0 ≤ y) (hd : 0 ≤ d) :
    kq x y w + d * y * (3 * x ^ 2 + y ^ 2 + w) ≤ kq (x + d) y w := by
  rw [kq_add_x]
  have : 0 ≤ y * d ^ 2 * (3 * x + d) := by positivity
  linarith

theorem kq_mono_x {x x' y w : ℚ} (hx : 0 ≤ x) (hy : 0 ≤ y) (hw : 0 ≤ w) (h : x ≤ x') :
    kq x y w ≤ kq x' y w := by
  have hd : 0 ≤ x' - x := by linarith
  have := kq_gain_x (w := w) hx hy hd
  have h2 : 0 ≤ (x' - x) * y * (3 * x ^ 2 + y ^ 2 + w) := by positivity
  have e : x + (x' - x) = x' := by ring
  rw [e] at this
  linarith

theorem kq_mono_y {x y y' w : ℚ} (hx : 0 ≤ x) (hy : 0 ≤ y) (hw : 0 ≤ w) (h : y ≤ y') :
    kq x y w ≤ kq x y' w := by
  rw [kq_symm x y, kq_symm x y']; exact kq_mono_x hy hx hw h

theorem kq_mono_w {x y w w' : ℚ} (hx : 0 ≤ x) (hy : 0 ≤ y) (h : w ≤ w') :
    kq x y w ≤ kq x y w' := by
  unfold kq
  have : 0 ≤ x * y := by positivity
  nlinarith

/-- FULL (A): the kernel is non-decreasing in each of its three arguments on `x, y, w ≥ 0`. -/
theorem kq_mono {x x' y y' w w' : ℚ} (hx : 0 ≤ x) (hy : 0 ≤ y) (hw : 0 ≤ w)
    (h1 : x ≤ x') (h2 : y ≤ y') (h3 : w ≤ w') : kq x y w ≤ kq x' y' w' :=
  calc kq x y w ≤ kq x' y w := kq_mono_x hx hy hw h1
    _ ≤ kq x' y' w := kq_mono_y (by linarith) hy hw h2
    _ ≤ kq x' y' w' := kq_mono_w (by linarith) (by linarith) h3

/-- the kernel is exactly linear in `w`. -/
theorem kq_sub_w (x y w d : ℚ) : kq x y (w - d) = kq x y w - x * y * d := by unfold kq; ring

/-! ### the n-asset invariant -/

/-- sum of the squares. -/
def sumSq (xs : List ℚ) : ℚ := (xs.map fun x => x ^ 2).sum

/-- the n-asset stableswap invariant `(Π xᵢ)·(Σ xᵢ²)` on exact (scaled) reserves. -/
def ssK (xs : List ℚ) : ℚ := xs.prod * sumSq xs

theorem sumSq_cons (x : ℚ) (xs : List ℚ) : sumSq (x :: xs) = x ^ 2 + sumSq xs := by
  unfold sumSq; simp

theorem sumSq_nonneg (xs : List ℚ) : 0 ≤ sumSq xs := by
  induction xs with
  | nil => simp [sumSq]
  | cons x xs ih => rw [sumSq_cons]; positivity

/-- FULL: factorisation through two distinguished assets: with `w` the squares of the others,
`K = k(x, y, w) · Π others`. -/
theorem ssK_cons_cons (x y : ℚ) (rest : List ℚ) :
    ssK (x :: y :: rest) = kq x y (sumSq rest) * rest.prod := by
  unfold ssK kq
  rw [sumSq_cons, sumSq_cons]
  simp only [List.prod_cons]
  ring

theorem ssK_perm {xs ys : List ℚ} (h : xs.Perm ys) : ssK xs = ssK ys := by
  unfold ssK sumSq
  rw [h.prod_eq, (h.map _).sum_eq]

theorem prod_nonneg_of_forall {xs : List ℚ} (h : ∀ x ∈ xs, 0 ≤ x) : 0 ≤ xs.prod := by
  induction xs with
  | nil => simp
  | cons x xs ih =>
    rw [List.prod_cons]
    exact mul_nonneg (h x (by simp)) (ih fun z hz => h z (by simp [hz]))

/-- FULL (A), n assets: the invariant is non-decreasing in every coordinate on non-negative reserves. -/
theorem ssK_mono {xs ys : List ℚ} (h : List.Forall₂ (fun x y => 0 ≤ x ∧ x ≤ y) xs ys) : ssK xs ≤ ssK ys := by
  have key : 0 ≤ xs.prod ∧ xs.prod ≤ ys.prod ∧ sumSq xs ≤ sumSq ys := by
    induction h with
    | nil => simp [sumSq]
    | @cons x y xs ys hxy _ ih =>
      obtain ⟨h0, h1, h2⟩ := ih
      obtain ⟨hx, hle⟩ := hxy
      rw [List.prod_cons, List.prod_cons, sumSq_cons, sumSq_cons]
      refine ⟨by positivity, ?_, ?_⟩
      · exact mul_le_mul hle h1 h0 (by linarith)
      · have : x ^ 2 ≤ y ^ 2 := by nlinarith
        linarith
  obtain ⟨h0, h1, h2⟩ := key
  unfold ssK
  exact mul_le_mul h1 h2 (sumSq_nonneg _) (by linarith)

/-! ### (B) the solver's algebra, exactly -/

/-- FULL (B1): the Horner form of `iterKCalculator` (`quad = 3·x0`, `lin = −(3·x0² + w + yf²)`,
`((−xOut + quad)·xOut + lin)·xOut`) is EXACTLY `h(x0 − xOut) − h(x0)`. -/
theorem iterK_horner (x0 xo yf w : ℚ) :
    ((-xo + 3 * x0) * xo + -(3 * x0 * x0 + w + yf * yf)) * xo = hq (x0 - xo) yf w - hq x0 yf w := by
  unfold hq; ring

/-- FULL (B2): `targetKCalculator` (`k(x0,y0,w)/yf − (yf² + w + x0²)·x0`) is EXACTLY `k(x0,y0,w)/yf − h(x0)`. -/
theorem targetK_exact (x0 y0 w yf : ℚ) :
    kq x0 y0 w / yf - (yf * yf + w + x0 * x0) * x0 = kq x0 y0 w / yf - hq x0 yf w := by
  unfold hq; ring

/-- FULL (B3): in exact arithmetic the solver's acceptance test `target ≤ iterK xf` IS
`k(x0, y0, w) ≤ k(xf, yf, w)`. -/
theorem target_le_iterK_iff {x0 y0 w yf xf : ℚ} (hyf : 0 < yf) :
    kq x0 y0 w / yf - hq x0 yf w ≤ hq xf yf w - hq x0 yf w ↔ kq x0 y0 w ≤ kq xf yf w := by
  rw [kq_eq_hq_mul xf yf w, sub_le_sub_iff_right, div_le_iff₀ hyf]

example : kq 3 4 0 = kq 4 3 0 := by norm_num [kq]
example : ssK [4, 3, 2] = kq 4 3 4 * 2 := by norm_num [ssK, sumSq, kq]
example : ssK [1, 1, 2] ≤ ssK [1, 3 / 2, 2] :=
  ssK_mono (by repeat (first | exact List.Forall₂.nil | refine List.Forall₂.cons (by norm_num) ?_))

end OsmoVerif.GammMath.SS

