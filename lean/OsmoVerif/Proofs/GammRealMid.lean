/-
Bridge between the C13 accuracy theorem of `Pow` on bases in `[0.5, 1.5]` (`Proofs/MathPowMid`) and the balancer `Pow`
calls of C04Real: the accuracy of ONE call, and when the base of each call is in the interval (Mathlib reals; nothing
here is used by the executable model).
-/
import OsmoVerif.Proofs.MathPowMid
import OsmoVerif.Proofs.GammRealLpExact

namespace OsmoVerif.GammMath
open OsmoVerif.Num OsmoVerif.MathM OsmoVerif.Gen OsmoVerif.Spec

theorem quoErr_lt_ulp : quoErr < 1 / 10 ^ 18 := by unfold quoErr; norm_num

theorem dv_half : dv (5 * 10 ^ 17) = 1 / 2 := by unfold dv; norm_num
theorem dv_three_halves : dv (15 * 10 ^ 17) = 3 / 2 := by unfold dv; norm_num
theorem dv_199 : dv (199 * 10 ^ 16) = 199 / 100 := by unfold dv; norm_num

/-- ONE `Pow` call with a base in `[0.5, 1]`: absolute `10^-8`. -/
theorem pow_call_le_one {y e pw : Int} (h : pow y e = some pw) (hy1 : 5 * 10 ^ 17 ≤ y) (hy2 : y ≤ P18)
    (he0 : 0 ≤ e) (he1 : e ≤ 10 ^ 8 * P18) : |dv pw - dv y ^ dv e| ≤ 1 / 10 ^ 8 := by
  have hB : dv y ≤ 1 := by have := dv_le hy2; rwa [dv_P18] at this
  have hm : max 1 (dv y) = 1 := max_eq_left hB
  have := P18_val
  obtain ⟨r, hr, hacc⟩ := pow_mid_spec hy1 (by omega) he0 he1 (by rw [hm, one_pow]; norm_num)
  rw [hm, one_pow] at hacc
  rw [h] at hr; cases hr
  exact hacc

/-- ONE `Pow` call with a base in `[1, 1.99]` and an exponent up to 100: relative `10^-8`. -/
theorem pow_call_ge_one {y e pw : Int} (h : pow y e = some pw) (hy1 : P18 ≤ y) (hy2 : y ≤ 199 * 10 ^ 16)
    (he0 : 0 ≤ e) (he1 : e ≤ 100 * P18) : |dv pw - dv y ^ dv e| ≤ dv y ^ dv e / 10 ^ 8 := by
  have hB : 1 ≤ dv y := by have := dv_le hy1; rwa [dv_P18] at this
  have hB2 : dv y ≤ 199 / 100 := by have := dv_le hy2; rwa [dv_199] at this
  have hm : max 1 (dv y) = dv y := max_eq_right hB
  have hE0 : 0 ≤ dv e := dv_nonneg he0
  have hE : dv e ≤ 100 := by
    have := dv_le he1; rw [dv_P18_mul] at this; push_cast at this; exact this
  have hfl : ⌊dv e⌋₊ ≤ 100 := by
    have : ⌊dv e⌋₊ ≤ ⌊(100 : ℝ)⌋₊ := Nat.floor_le_floor hE
    simpa using this
  have hbig : dv y ^ ⌊dv e⌋₊ ≤ 10 ^ 38 := by
    calc dv y ^ ⌊dv e⌋₊ ≤ dv y ^ 100 := pow_le_pow_right₀ hB hfl
      _ ≤ (199 / 100) ^ 100 := pow_le_pow_left₀ (by linarith only [hB]) hB2 100
      _ ≤ 10 ^ 38 := by norm_num
  obtain ⟨r, hr, hacc⟩ := pow_upper_spec hy1 hy2 he0 he1 (by rw [hm]; exact hbig)
  rw [hm] at hacc
  rw [h] at hr; cases hr
  refine hacc.trans ?_
  apply div_le_div_of_nonneg_right _ (by positivity)
  rw [← Real.rpow_natCast]
  exact Real.rpow_le_rpow_of_exponent_le hB (Nat.floor_le hE0)

/-- … with the constant bound `2^M·10^-8` for exponents up to `M`. -/
theorem pow_call_ge_one_const {y e pw : Int} {M : ℝ} (h : pow y e = some pw) (hy1 : P18 ≤ y)
    (hy2 : y ≤ 199 * 10 ^ 16) (he0 : 0 ≤ e) (he1 : e ≤ 100 * P18) (hM : dv e ≤ M) :
    |dv pw - dv y ^ dv e| ≤ (2 : ℝ) ^ M / 10 ^ 8 := by
  have hB : 1 ≤ dv y := by have := dv_le hy1; rwa [dv_P18] at this
  have hB2 : dv y ≤ 2 := by have := dv_le hy2; rw [dv_199] at this; linarith only [this]
  refine (pow_call_ge_one h hy1 hy2 he0 he1).trans ?_
  apply div_le_div_of_nonneg_right _ (by positivity)
  calc dv y ^ dv e ≤ (2 : ℝ) ^ dv e := Real.rpow_le_rpow (by linarith only [hB]) hB2 (dv_nonneg he0)
    _ ≤ (2 : ℝ) ^ M := Real.rpow_le_rpow_of_exponent_le (by norm_num) hM

/-- the rounded weight ratio of weights within `2^20` of each other is a legal exponent for the `≤ 1` theorem. -/
theorem wr_range {w1 w2 wr : Int} (h : Dec.quo (toDec w1) (toDec w2) = some wr) (h1 : 0 < w1) (h2 : 0 < w2)
    (hr : w1 ≤ 2 ^ 20 * w2) : 0 ≤ wr ∧ wr ≤ 10 ^ 8 * P18 := by
  have hw2 : (0 : ℝ) < w2 := by exact_mod_cast h2
  have hw1 : (0 : ℝ) < w1 := by exact_mod_cast h1
  have hr' : (w1 : ℝ) ≤ 2 ^ 20 * w2 := by exact_mod_cast hr
  have he := wRatio_error h
  have hE : wRatio w1 w2 ≤ 2 ^ 20 := by unfold wRatio; rw [div_le_iff₀ hw2]; exact hr'
  have hE0 : 0 ≤ wRatio w1 w2 := by unfold wRatio; positivity
  obtain ⟨e1, e2⟩ := abs_le.mp he
  have hq := quoErr_lt_ulp
  constructor
  · apply MathM.nonneg_of_dv; linarith only [e1, hE0, hq]
  · apply int_le_of_dv
    rw [dv_P18_mul]; push_cast
    linarith only [e2, hE, hq, show (2 : ℝ) ^ 20 ≤ 10 ^ 8 by norm_num]

/-- … and within `99` for the `≥ 1` theorem. -/
theorem wr_range_100 {w1 w2 wr : Int} (h : Dec.quo (toDec w1) (toDec w2) = some wr) (h1 : 0 < w1) (h2 : 0 < w2)
    (hr : w1 ≤ 99 * w2) : 0 ≤ wr ∧ wr ≤ 100 * P18 := by
  have hw2 : (0 : ℝ) < w2 := by exact_mod_cast h2
  have hw1 : (0 : ℝ) < w1 := by exact_mod_cast h1
  have hr' : (w1 : ℝ) ≤ 99 * w2 := by exact_mod_cast hr
  have he := wRatio_error h
  have hE : wRatio w1 w2 ≤ 99 := by unfold wRatio; rw [div_le_iff₀ hw2]; exact hr'
  have hE0 : 0 ≤ wRatio w1 w2 := by unfold wRatio; positivity
  obtain ⟨e1, e2⟩ := abs_le.mp he
  have hq := quoErr_lt_ulp
  constructor
  · apply MathM.nonneg_of_dv; linarith only [e1, hE0, hq]
  · apply int_le_of_dv
    rw [dv_P18_mul]; push_cast
    linarith only [e2, hE, hq]

/-- EXACT-IN swap: the base is in `[0.5, 1]` as soon as the token in (after the spread factor) does not exceed the
in-reserve — a MaxInRatio-style condition. -/
theorem outBase_mid {Rin amt spread y : Int}
    (hy : Dec.quo (toDec Rin) (amt * (P18 - spread) + toDec Rin) = some y)
    (hR : 0 < Rin) (ha : 0 ≤ amt) (hs1 : spread ≤ P18) (hmax : amt * (P18 - spread) ≤ toDec Rin) :
    5 * 10 ^ 17 ≤ y ∧ y ≤ P18 ∧ 1 / 2 ≤ outBase Rin amt spread := by
  have he := outBase_error hy
  obtain ⟨hB0, hB1⟩ := outBase_pos_le_one hR ha hs1
  have hR' : (0 : ℝ) < Rin := by exact_mod_cast hR
  have ha' : (0 : ℝ) ≤ amt := by exact_mod_cast ha
  have hs' : dv spread ≤ 1 := by have := dv_le hs1; rwa [dv_P18] at this
  have hmax' : (amt : ℝ) * (1 - dv spread) ≤ Rin := by
    have := dv_le hmax
    rwa [dv_int_mul, dv_sub, dv_P18, dv_toDec] at this
  have hBh : 1 / 2 ≤ outBase Rin amt spread := by
    unfold outBase
    have hm : 0 ≤ (amt : ℝ) * (1 - dv spread) := mul_nonneg ha' (by linarith only [hs'])
    rw [div_le_div_iff₀ (by norm_num) (by linarith only [hR', hm])]
    linarith only [hmax']
  obtain ⟨e1, e2⟩ := abs_le.mp he
  have hq := quoErr_lt_ulp
  refine ⟨?_, ?_, hBh⟩
  · apply int_ge_of_dv; rw [dv_half]; linarith only [e1, hBh, hq]
  · apply int_le_of_dv; rw [dv_P18]; linarith only [e2, hB1, hq]

/-- EXACT-OUT swap: the base is in `[1, 1.99]` as soon as `199·a ≤ 99·R_out` (token out below 49.7 % of the
out-reserve) — a MaxOutRatio-style condition. -/
theorem inBase_mid {Rout amt y : Int} (hy : Dec.quo (toDec Rout) (toDec Rout - toDec amt) = some y)
    (hR : 0 < Rout) (ha : 0 ≤ amt) (hmax : 199 * amt ≤ 99 * Rout) : P18 ≤ y ∧ y ≤ 199 * 10 ^ 16 := by
  have he := inBase_error hy
  have hR' : (0 : ℝ) < Rout := by exact_mod_cast hR
  have ha' : (0 : ℝ) ≤ amt := by exact_mod_cast ha
  have hmax' : 199 * (amt : ℝ) ≤ 99 * Rout := by exact_mod_cast hmax
  have hd : (0 : ℝ) < (Rout : ℝ) - amt := by linarith only [hR', hmax', ha']
  have hB1 : 1 ≤ inBase Rout amt := by
    unfold inBase; rw [le_div_iff₀ hd]; linarith only [ha']
  have hB2 : inBase Rout amt ≤ 199 / 100 := by
    unfold inBase; rw [div_le_iff₀ hd]; linarith only [hmax']
  obtain ⟨e1, e2⟩ := abs_le.mp he
  have hq := quoErr_lt_ulp
  constructor
  · apply int_ge_of_dv; rw [dv_P18]; linarith only [e1, hB1, hq]
  · apply int_le_of_dv; rw [dv_199]; linarith only [e2, hB2, hq]

end OsmoVerif.GammMath
