/- C11: every entry point of Model/Superfluid.lean preserves the invariant. Core only. -/
import OsmoVerif.Proofs.SuperfluidInv

namespace OsmoVerif.Superfluid
open OsmoVerif.Num

theorem inv_mint {s s' : State} {a : Int} {k : AccKey} (h : Inv s) (hc : mintAndDelegate s a k = .ok s') : Inv s' := by
  obtain ⟨_, _, hs'⟩ := mintAndDelegate_ok hc
  subst hs'
  exact h.ledger_frame _ _ _

theorem inv_burn {s s' : State} {a : Int} {k : AccKey} (h : Inv s) (hc : forceUndelegateAndBurn s a k = .ok s') : Inv s' := by
  rcases forceUndelegateAndBurn_ok hc with ⟨_, hs'⟩ | ⟨sh, _, _, _, hs'⟩
  · subst hs'; exact h
  · subst hs'; exact h.ledger_frame _ _ _

/-- what the ledger primitives leave alone. -/
structure SameLockup (s s' : State) : Prop where
  locks : s'.locks = s.locks
  synths : s'.synths = s.synths
  conns : s'.conns = s.conns
  now : s'.now = s.now
  ub : s'.unbondingTime = s.unbondingTime
  last : s'.lastLockId = s.lastLockId
  vals : s'.validators = s.validators

theorem SameLockup.refl (s : State) : SameLockup s s := ⟨rfl, rfl, rfl, rfl, rfl, rfl, rfl⟩

theorem mint_same {s s' : State} {a : Int} {k : AccKey} (hc : mintAndDelegate s a k = .ok s') : SameLockup s s' := by
  obtain ⟨_, _, hs'⟩ := mintAndDelegate_ok hc
  subst hs'; exact ⟨rfl, rfl, rfl, rfl, rfl, rfl, rfl⟩

theorem burn_same {s s' : State} {a : Int} {k : AccKey} (hc : forceUndelegateAndBurn s a k = .ok s') : SameLockup s s' := by
  rcases forceUndelegateAndBurn_ok hc with ⟨_, hs'⟩ | ⟨sh, _, _, _, hs'⟩
  · subst hs'; exact SameLockup.refl _
  · subst hs'; exact ⟨rfl, rfl, rfl, rfl, rfl, rfl, rfl⟩

/-! ## SuperfluidDelegate -/

/-- the guards of `SuperfluidDelegate` and the shape of its result. -/
theorem superfluidDelegate_ok {s s' : State} {sender id val : Nat} (hc : superfluidDelegate s sender id val = .ok s') :
    ∃ l s3 amt, s.locks id = some l ∧ l.owner = sender ∧ l.single = true ∧ l.denom ∈ s.assets ∧ l.endTime = none ∧
      s.unbondingTime ≤ l.duration ∧ alreadyStaking s id = false ∧
      createSynth { getOrCreateAcc s (l.denom, val) with
            conns := upd (getOrCreateAcc s (l.denom, val)).conns id (some (l.denom, val)) } id .bonding (l.denom, val) = .ok s3 ∧
      osmoTokens s3 l.denom l.amount = .ok amt ∧ amt ≠ 0 ∧ mintAndDelegate s3 amt (l.denom, val) = .ok s' := by
  unfold superfluidDelegate at hc
  split at hc
  · cases hc
  · rename_i l hl
    split at hc
    · cases hc
    · rename_i h1
      split at hc
      · cases hc
      · rename_i h2
        split at hc
        · cases hc
        · rename_i h3
          split at hc
          · cases hc
          · rename_i h4
            split at hc
            · cases hc
            · rename_i h5
              split at hc
              · cases hc
              · rename_i h6
                dsimp only at hc
                split at hc
                · cases hc
                · rename_i s3 h7
                  split at hc
                  · cases hc
                  · rename_i amt h8
                    split at hc
                    · cases hc
                    · rename_i h9
                      refine ⟨l, s3, amt, hl, by simpa using h1, ?_, by simpa using h3, ?_, by omega, by simpa using h6, h7, h8, h9, hc⟩
                      · cases hb : l.single with
                        | true => rfl
                        | false => exact absurd hb h2
                      · cases hh : l.endTime with
                        | none => rfl
                        | some e => rw [hh] at h4; exact absurd rfl h4

theorem inv_superfluidDelegate {s s' : State} {sender id val : Nat} (h : Inv s)
    (hc : superfluidDelegate s sender id val = .ok s') : Inv s' := by
  obtain ⟨l, s3, amt, hl, _, _, _, hend, hdur, _, h7, _, _, h10⟩ := superfluidDelegate_ok hc
  obtain ⟨hval, _, _⟩ := mintAndDelegate_ok h10
  -- validators of s3 are those of s
  have hv : s3.validators = s.validators := by
    obtain ⟨_, _, _, _, _, hs3⟩ := createSynth_ok h7
    subst hs3
    dsimp only
    unfold getOrCreateAcc; split <;> rfl
  exact inv_mint (inv_connectBonding h hl hend hdur (by rw [← hv]; exact hval) h7) h10

/-! ## SuperfluidUndelegate -/

theorem undelegateCommon_ok {s s' : State} {sender id : Nat} {key : AccKey}
    (hc : undelegateCommon s sender id = .ok (s', key)) :
    ∃ l s2 amt, s.locks id = some l ∧ l.owner = sender ∧ l.single = true ∧ s.conns id = some key ∧
      deleteSynth { s with conns := upd s.conns id none } id .bonding (l.denom, key.2) = .ok s2 ∧
      osmoTokens s2 key.1 l.amount = .ok amt ∧ forceUndelegateAndBurn s2 amt key = .ok s' := by
  unfold undelegateCommon at hc
  split at hc
  · cases hc
  · rename_i l hl
    split at hc
    · cases hc
    · rename_i h1
      split at hc
      · cases hc
      · rename_i h2
        split at hc
        · cases hc
        · rename_i k hk
          dsimp only at hc
          split at hc
          · cases hc
          · rename_i s2 h3
            split at hc
            · cases hc
            · rename_i amt h4
              split at hc
              · cases hc
              · rename_i s3 h5
                injection hc with hc
                injection hc with e1 e2
                subst e1; subst e2
                refine ⟨l, s2, amt, hl, by simpa using h1, ?_, hk, h3, h4, h5⟩
                cases hb : l.single with
                | true => rfl
                | false => exact absurd hb h2

theorem inv_undelegateCommon {s s' : State} {sender id : Nat} {key : AccKey} (h : Inv s)
    (hc : undelegateCommon s sender id = .ok (s', key)) : Inv s' := by
  obtain ⟨l, s2, amt, hl, _, _, hk, h3, _, h5⟩ := undelegateCommon_ok hc
  exact inv_burn (inv_disconnectBonding h hl hk h3) h5

/-- after `undelegateCommon` the lock itself is untouched and carries no marker. -/
theorem undelegateCommon_lock {s s' : State} {sender id : Nat} {key : AccKey} (h : Inv s)
    (hc : undelegateCommon s sender id = .ok (s', key)) :
    s'.locks = s.locks ∧ s'.now = s.now ∧ s'.unbondingTime = s.unbondingTime ∧ s'.lastLockId = s.lastLockId ∧
    ∃ l, s.locks id = some l ∧ l.endTime = none := by
  obtain ⟨l, s2, amt, hl, _, _, hk, h3, _, h5⟩ := undelegateCommon_ok hc
  obtain ⟨_, _, _, hs2⟩ := (deleteSynth_ok h3).2
  have hb := burn_same h5
  obtain ⟨l', hl', _, _, _, _, hend, _⟩ := h.conn_lock hk
  rw [hl] at hl'; injection hl' with hl'; subst hl'
  subst hs2
  exact ⟨hb.locks, hb.now, hb.ub, hb.last, l, hl, hend⟩

theorem inv_superfluidUndelegate {s s' : State} {sender id : Nat} (h : Inv s)
    (hc : superfluidUndelegate s sender id = .ok s') : Inv s' := by
  unfold superfluidUndelegate at hc
  split at hc
  · cases hc
  · rename_i s1 key h1
    have hi := inv_undelegateCommon h h1
    obtain ⟨f1, _, _, _, l, hl, hend⟩ := undelegateCommon_lock h h1
    refine inv_createUnbonding hi ?_ hc
    intro l' le hl' hle
    rw [f1, hl] at hl'; injection hl' with hl'; subst hl'
    rw [hend] at hle; cases hle

/-! ## SuperfluidUnbondLock / BeginUnlocking -/

theorem unbondLock_ok {s s' : State} {id sender nid : Nat} {coins : Option Int}
    (hc : unbondLock s id sender coins = .ok (s', nid)) :
    ∃ l sy, s.locks id = some l ∧ l.owner = sender ∧ s.synths id = [sy] ∧ sy.endTime ≠ none ∧
      beginUnlock s id coins = .ok (s', nid) := by
  unfold unbondLock at hc
  split at hc
  · cases hc
  · rename_i l hl
    split at hc
    · cases hc
    · rename_i h1
      split at hc
      · cases hc
      · split at hc
        · cases hc
        · cases hc
        · rename_i sy hsy
          split at hc
          · cases hc
          · rename_i h3
            exact ⟨l, sy, hl, by simpa using h1, hsy, by simpa using h3, hc⟩

theorem inv_unbondLock {s s' : State} {id sender nid : Nat} {coins : Option Int} (h : Inv s)
    (hc : unbondLock s id sender coins = .ok (s', nid)) : Inv s' := by
  obtain ⟨l, sy, hl, _, hsy, hen, hb⟩ := unbondLock_ok hc
  refine inv_beginUnlock h ?_ hb
  cases hcn : s.conns id with
  | none => rfl
  | some k =>
    obtain ⟨_, _, hs, _⟩ := h.conn_lock hcn
    rw [hsy] at hs
    injection hs with hs _
    subst hs
    simp [mkB] at hen

theorem inv_msgBeginUnlocking {s s' : State} {sender id nid : Nat} {coins : Option Int} (h : Inv s)
    (hc : msgBeginUnlocking s sender id coins = .ok (s', nid)) : Inv s' := by
  unfold msgBeginUnlocking at hc
  split at hc
  · cases hc
  · split at hc
    · cases hc
    · split at hc
      · cases hc
      · rename_i hs
        exact inv_beginUnlock h (h.nosynth_noconn hs) hc

/-! ## AddTokensToLockByID -/

theorem inv_increaseHook {s s' : State} {id denom : Nat} {a : Int} (h : Inv s)
    (hc : increaseHook s id denom a = .ok s') : Inv s' := by
  unfold increaseHook at hc
  split at hc
  · injection hc with hc; subst hc; exact h
  · split at hc
    · injection hc with hc; subst hc; exact h
    · split at hc
      · cases hc
      · injection hc with hc; subst hc; exact h
      · split at hc
        · injection hc with hc; subst hc; exact h
        · split at hc
          · cases hc
          · injection hc with hc; subst hc; exact h
          · rename_i s2 hm
            injection hc with hc; subst hc
            exact inv_mint h hm

theorem inv_addTokensToLock {s s' : State} {sender id : Nat} {a : Int} (h : Inv s)
    (hc : addTokensToLock s sender id a = .ok s') : Inv s' := by
  unfold addTokensToLock at hc
  split at hc
  · cases hc
  · rename_i l hl
    split at hc
    · cases hc
    · split at hc
      · cases hc
      · split at hc
        · cases hc
        · rename_i ha
          have hrange := h.id_range hl
          have hok := h.lockOK id
          rw [hl] at hok
          simp only [LockOK] at hok
          dsimp only at hc
          -- the lock with more tokens, before the accumulation store is touched
          split at hc
          · cases hc
          · -- no marker: plain lock
            rename_i hsy
            refine inv_increaseHook ?_ hc
            have hnc := h.nosynth_noconn hsy
            refine ⟨h.rf0, h.rf1, h.ub0, h.mult0, ?_, ?_, h.connAcc, ?_⟩
            · intro i hi
              dsimp only at hi ⊢
              simp only [upd]
              rw [if_neg (by omega)]
              exact h.bound i hi
            · intro i
              dsimp only
              simp only [upd]
              by_cases e : i = id
              · subst e
                rw [if_pos rfl, hsy, hnc]
                simp only [LockOK]
                exact ⟨by omega, Or.inl (by simp)⟩
              · rw [if_neg e]; exact h.lockOK i
            · intro k
              rw [h.accumEq k]
              symm
              apply sumConn_congr
              intro i _ _
              unfold connAmt
              dsimp only
              simp only [upd]
              by_cases e : i = id
              · subst e; rw [hnc]
              · rw [if_neg e]
          · rename_i sy hsy
            refine inv_increaseHook ?_ hc
            rcases hok.2 with h1 | ⟨k, h2, h3, h4, h5, h6, h7⟩ | ⟨k, e, h2, h3, h4, h5, h6, h7⟩
            · rw [h1.1] at hsy; cases hsy
            · -- delegated lock: the staking accumulation grows with it
              rw [h2] at hsy
              injection hsy with hsy _
              subst hsy
              refine ⟨h.rf0, h.rf1, h.ub0, h.mult0, ?_, ?_, h.connAcc, ?_⟩
              · intro i hi
                dsimp only at hi ⊢
                simp only [upd]
                rw [if_neg (by omega)]
                exact h.bound i hi
              · intro i
                dsimp only
                simp only [upd]
                by_cases e : i = id
                · subst e
                  rw [if_pos rfl, h2, h3]
                  simp only [LockOK]
                  exact ⟨by omega, Or.inr (Or.inl ⟨k, rfl, rfl, h4, h5, h6, h7⟩)⟩
                · rw [if_neg e]; exact h.lockOK i
              · intro k'
                dsimp only
                simp only [mkB]
                by_cases ek : k' = k
                · subst ek
                  simp only [updK, if_true]
                  rw [accFrom_accAdd, if_pos (Int.le_refl _), h.accumEq]
                  refine Eq.trans ?_ (sumConn_update (s := s) id hrange.1 hrange.2 ?_).symm
                  · have c1 : connAmt s k' id = l.amount := by
                      unfold connAmt; rw [h3, hl]; simp
                    rw [c1]
                    unfold connAmt
                    dsimp only
                    simp only [upd, if_true]
                    rw [h3]
                    simp
                    omega
                  · intro i hi
                    unfold connAmt
                    dsimp only
                    simp only [upd]
                    rw [if_neg hi]
                · simp only [updK, bkey_ne ek, if_false]
                  rw [h.accumEq]
                  symm
                  apply sumConn_congr
                  intro i _ _
                  unfold connAmt
                  dsimp only
                  simp only [upd]
                  by_cases e : i = id
                  · subst e
                    rw [if_pos rfl, h3, hl]
                    dsimp only
                    have hne : ¬ k = k' := fun hh => ek hh.symm
                    simp only [hne, if_false]
                  · rw [if_neg e]
            · -- undelegating lock: only the unstaking accumulation changes
              rw [h2] at hsy
              injection hsy with hsy _
              subst hsy
              refine ⟨h.rf0, h.rf1, h.ub0, h.mult0, ?_, ?_, h.connAcc, ?_⟩
              · intro i hi
                dsimp only at hi ⊢
                simp only [upd]
                rw [if_neg (by omega)]
                exact h.bound i hi
              · intro i
                dsimp only
                simp only [upd]
                by_cases e' : i = id
                · subst e'
                  rw [if_pos rfl, h2, h3]
                  simp only [LockOK]
                  exact ⟨by omega, Or.inr (Or.inr ⟨k, e, rfl, trivial, h4, h5, h6, h7⟩)⟩
                · rw [if_neg e']; exact h.lockOK i
              · intro k'
                dsimp only
                simp only [mkU, updK, ukey_ne, if_false]
                rw [h.accumEq]
                symm
                apply sumConn_congr
                intro i _ _
                unfold connAmt
                dsimp only
                simp only [upd]
                by_cases e' : i = id
                · subst e'; rw [h3]
                · rw [if_neg e']

end OsmoVerif.Superfluid
