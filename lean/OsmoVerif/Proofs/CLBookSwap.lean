/-
C07 helpers, part 6: the swap loop (`CL.loopBody` / `CL.swapLoop` / `CL.computeSwap` / `CL.execSwap`) seen from
the book-keeping side: what one iteration does to (sqrt price, tick, liquidity) and to the tick iterator,
the loop invariants "price and tick agree" (unconditional) and "liquidity = active liquidity at the current
tick, iterator = initialised ticks ahead of the current tick" (under the assumption that no iteration moved
the price against the swap direction, `MonoRun`).  Core only.
-/
import OsmoVerif.Proofs.CLBookInv
import OsmoVerif.Proofs.CLBookPrice

namespace OsmoVerif.CLBook
open OsmoVerif.CLPool OsmoVerif.CL OsmoVerif.Num OsmoVerif.Tick OsmoVerif.Gen

/-! ## one iteration -/

theorem ite_none_eq_some {β} (c : Prop) [Decidable c] (y : Option β) (x : β) :
    ((if c then none else y) = some x) ↔ (¬ c ∧ y = some x) := by
  split <;> simp [*]

/-- what one successful iteration of the swap loop does to the pool fields and to the tick iterator. -/
def BodyRel (og zfo : Bool) (spf limit : Int) (st : SwapSt) (nt net : Int) (rest : Ticks)
    (st' : SwapSt) (ahead' : Ticks) (c : Bool) : Prop :=
  ∃ nextSp r, tickToSqrtPrice nt = some nextSp ∧
    (if og then stepOutGivenIn zfo spf st.pool.sqrtPrice
        (if zfo then (if nextSp < limit then limit else nextSp) else (if nextSp > limit then limit else nextSp))
        st.pool.liquidity st.remaining
      else stepInGivenOut zfo spf st.pool.sqrtPrice
        (if zfo then (if nextSp < limit then limit else nextSp) else (if nextSp > limit then limit else nextSp))
        st.pool.liquidity st.remaining) = some r ∧
    r.sqrtPriceNext = st'.pool.sqrtPrice ∧
    ((c = true ∧ nextSp = st'.pool.sqrtPrice ∧ st'.pool.tick = (if zfo then nt - 1 else nt) ∧
        Dec.add st.pool.liquidity (if zfo then -net else net) = some st'.pool.liquidity ∧ ahead' = rest) ∨
     (c = false ∧ nextSp ≠ st'.pool.sqrtPrice ∧
        ¬ (if zfo then nextSp > st'.pool.sqrtPrice else nextSp < st'.pool.sqrtPrice) ∧
        ahead' = (nt, net) :: rest ∧ st'.pool.liquidity = st.pool.liquidity ∧
        ((st.pool.sqrtPrice ≠ st'.pool.sqrtPrice ∧ calculateSqrtPriceToTick st'.pool.sqrtPrice = some st'.pool.tick) ∨
         (st.pool.sqrtPrice = st'.pool.sqrtPrice ∧ st'.pool.tick = st.pool.tick))))

theorem loopBody_nil {og zfo : Bool} {spf limit : Int} {st : SwapSt} : loopBody og zfo spf limit st [] = none := rfl

theorem loopBody_spec {og zfo : Bool} {spf limit : Int} {st st' : SwapSt} {nt net : Int} {rest ahead' : Ticks} {c : Bool}
    (h : loopBody og zfo spf limit st ((nt, net) :: rest) = some (st', ahead', c)) :
    BodyRel og zfo spf limit st nt net rest st' ahead' c := by
  unfold loopBody at h
  cases og
  · simp only [Bool.false_eq_true, ↓reduceIte, Option.bind_eq_bind, ite_none_eq_some, Option.bind_eq_some_iff,
      Option.pure_def, Option.bind_some] at h
    obtain ⟨nextSp, hsp, r, hr, hprog, spread, _, rem, _, cc, _, cal, _, h⟩ := h
    refine ⟨nextSp, r, hsp, by simpa using hr, ?_⟩
    by_cases hcross : nextSp = r.sqrtPriceNext
    · simp only [hcross, ↓reduceIte, Option.bind_eq_some_iff, ite_none_eq_some, Option.some.injEq, Prod.mk.injEq] at h
      obtain ⟨a, ha, _, h1, h2, h3⟩ := h
      subst h1
      exact ⟨rfl, Or.inl ⟨h3.symm, hcross, rfl, ha, h2.symm⟩⟩
    · simp only [hcross, ↓reduceIte, ite_none_bind] at h
      obtain ⟨hguard, h⟩ := h
      by_cases hmove : st.pool.sqrtPrice ≠ r.sqrtPriceNext
      · rw [if_pos hmove] at h
        simp only [Option.bind_eq_some_iff, ite_none_eq_some, Option.some.injEq, Prod.mk.injEq] at h
        obtain ⟨t, ht, _, h1, h2, h3⟩ := h
        subst h1
        exact ⟨rfl, Or.inr ⟨h3.symm, hcross, hguard, h2.symm, rfl, Or.inl ⟨hmove, ht⟩⟩⟩
      · rw [if_neg hmove] at h
        simp only [ite_none_eq_some, Option.some.injEq, Prod.mk.injEq] at h
        obtain ⟨_, h1, h2, h3⟩ := h
        subst h1
        exact ⟨rfl, Or.inr ⟨h3.symm, hcross, hguard, h2.symm, rfl, Or.inr ⟨Decidable.not_not.mp hmove, rfl⟩⟩⟩
  · simp only [↓reduceIte, Option.bind_eq_bind, ite_none_eq_some, Option.bind_eq_some_iff,
      Option.pure_def, Option.bind_some] at h
    obtain ⟨nextSp, hsp, r, hr, hprog, spread, _, cc, _, rem, _, cal, _, h⟩ := h
    refine ⟨nextSp, r, hsp, by simpa using hr, ?_⟩
    by_cases hcross : nextSp = r.sqrtPriceNext
    · simp only [hcross, ↓reduceIte, Option.bind_eq_some_iff, ite_none_eq_some, Option.some.injEq, Prod.mk.injEq] at h
      obtain ⟨a, ha, _, h1, h2, h3⟩ := h
      subst h1
      exact ⟨rfl, Or.inl ⟨h3.symm, hcross, rfl, ha, h2.symm⟩⟩
    · simp only [hcross, ↓reduceIte, ite_none_bind] at h
      obtain ⟨hguard, h⟩ := h
      by_cases hmove : st.pool.sqrtPrice ≠ r.sqrtPriceNext
      · rw [if_pos hmove] at h
        simp only [Option.bind_eq_some_iff, ite_none_eq_some, Option.some.injEq, Prod.mk.injEq] at h
        obtain ⟨t, ht, _, h1, h2, h3⟩ := h
        subst h1
        exact ⟨rfl, Or.inr ⟨h3.symm, hcross, hguard, h2.symm, rfl, Or.inl ⟨hmove, ht⟩⟩⟩
      · rw [if_neg hmove] at h
        simp only [ite_none_eq_some, Option.some.injEq, Prod.mk.injEq] at h
        obtain ⟨_, h1, h2, h3⟩ := h
        subst h1
        exact ⟨rfl, Or.inr ⟨h3.symm, hcross, hguard, h2.symm, rfl, Or.inr ⟨Decidable.not_not.mp hmove, rfl⟩⟩⟩

/-! ## the tick iterator -/

theorem filter_up_head {tl : Ticks} (hs : tl.Pairwise (fun a b => a.1 < b.1)) {cur : Int} {x : Int × Int} {rest : Ticks}
    (h : tl.filter (fun t => decide (t.1 > cur)) = x :: rest) :
    x ∈ tl ∧ x.1 > cur ∧ (∀ y ∈ tl, y.1 > cur → x.1 ≤ y.1) ∧ rest = tl.filter (fun t => decide (t.1 > x.1)) := by
  induction tl with
  | nil => cases h
  | cons a as ih =>
    have hs' := List.pairwise_cons.mp hs
    by_cases ha : a.1 > cur
    · rw [List.filter_cons_of_pos (by simpa using ha)] at h
      injection h with h1 h2
      subst h1
      refine ⟨List.mem_cons_self, ha, ?_, ?_⟩
      · intro y hy _
        rcases List.mem_cons.mp hy with rfl | hy
        · exact Int.le_refl _
        · have := hs'.1 y hy; omega
      · rw [List.filter_cons_of_neg (by simp), ← h2]
        apply List.filter_congr
        intro y hy
        have := hs'.1 y hy
        simp only [decide_eq_decide]
        omega
    · rw [List.filter_cons_of_neg (by simpa using ha)] at h
      obtain ⟨i1, i2, i3, i4⟩ := ih hs'.2 h
      refine ⟨List.mem_cons_of_mem _ i1, i2, ?_, ?_⟩
      · intro y hy hyc
        rcases List.mem_cons.mp hy with rfl | hy
        · omega
        · exact i3 y hy hyc
      · rw [List.filter_cons_of_neg (by simp; omega)]; exact i4

theorem filter_down_head {L : Ticks} (hs : L.Pairwise (fun a b => a.1 > b.1)) {cur : Int} {x : Int × Int} {rest : Ticks}
    (h : L.filter (fun t => decide (t.1 ≤ cur)) = x :: rest) :
    x ∈ L ∧ x.1 ≤ cur ∧ (∀ y ∈ L, y.1 ≤ cur → y.1 ≤ x.1) ∧ rest = L.filter (fun t => decide (t.1 ≤ x.1 - 1)) := by
  induction L with
  | nil => cases h
  | cons a as ih =>
    have hs' := List.pairwise_cons.mp hs
    by_cases ha : a.1 ≤ cur
    · rw [List.filter_cons_of_pos (by simpa using ha)] at h
      injection h with h1 h2
      subst h1
      refine ⟨List.mem_cons_self, ha, ?_, ?_⟩
      · intro y hy _
        rcases List.mem_cons.mp hy with rfl | hy
        · exact Int.le_refl _
        · have := hs'.1 y hy; omega
      · rw [List.filter_cons_of_neg (by simp), ← h2]
        apply List.filter_congr
        intro y hy
        have := hs'.1 y hy
        simp only [decide_eq_decide]
        omega
    · rw [List.filter_cons_of_neg (by simpa using ha)] at h
      obtain ⟨i1, i2, i3, i4⟩ := ih hs'.2 h
      refine ⟨List.mem_cons_of_mem _ i1, i2, ?_, ?_⟩
      · intro y hy hyc
        rcases List.mem_cons.mp hy with rfl | hy
        · omega
        · exact i3 y hy hyc
      · rw [List.filter_cons_of_neg (by simp; omega)]; exact i4

theorem ticksAhead_up (tl : Ticks) (cur : Int) : ticksAhead false tl cur = tl.filter (fun t => decide (t.1 > cur)) := by
  simp [ticksAhead]

theorem ticksAhead_down (tl : Ticks) (cur : Int) :
    ticksAhead true tl cur = tl.reverse.filter (fun t => decide (t.1 ≤ cur)) := by
  simp [ticksAhead, List.filter_reverse]

/-- the iterator depends only on which stored ticks are at or below the current tick. -/
theorem ticksAhead_congr (zfo : Bool) (tl : Ticks) {c c' : Int} (h : ∀ x ∈ tl, (x.1 ≤ c ↔ x.1 ≤ c')) :
    ticksAhead zfo tl c = ticksAhead zfo tl c' := by
  cases zfo
  · rw [ticksAhead_up, ticksAhead_up]
    apply List.filter_congr
    intro x hx
    have := h x hx
    simp only [decide_eq_decide]; omega
  · rw [ticksAhead_down, ticksAhead_down]
    apply List.filter_congr
    intro x hx
    have := h x (List.mem_reverse.mp hx)
    simp only [decide_eq_decide]; omega

/-! ## the tick list of a pool that satisfies the core invariant -/

structure TicksOK (spacing : Int) (tl : Ticks) (ps : List Position) : Prop where
  sorted : tl.Pairwise (fun a b => a.1 < b.1)
  net : ∀ x ∈ tl, x.2 = netAt ps x.1
  used : ∀ b, Used ps b → ∃ x ∈ tl, x.1 = b
  aligned : ∀ x ∈ tl, x.1.tmod spacing = 0
  bounds : ∀ x ∈ tl, CL.MinInitializedTick ≤ x.1 ∧ x.1 ≤ CL.MaxTick
  range : ∀ q ∈ ps, q.lower < q.upper
  liqPos : ∀ q ∈ ps, 0 < q.liq

theorem ticksOK_of_core {p : Pool} (hc : InvCore p) :
    TicksOK p.spacing (p.ticks.map fun t => (t.tick, t.net)) p.positions := by
  have hbound : ∀ x ∈ (p.ticks.map fun t => (t.tick, t.net)), Used p.positions x.1 := by
    intro x hx
    obtain ⟨t, ht, e⟩ := List.mem_map.mp hx
    subst e
    exact (hc.stored t.tick).mp ⟨t, ht, rfl⟩
  refine ⟨?_, ?_, ?_, ?_, ?_, hc.pos.range, hc.pos.liqPos⟩
  · rw [List.pairwise_map]; exact hc.sorted
  · intro x hx
    obtain ⟨t, ht, e⟩ := List.mem_map.mp hx
    subst e
    show t.net = _
    rw [← hc.net, (of_mem_sorted hc.sorted ht).2]
  · intro b hb
    obtain ⟨t, ht, e⟩ := (hc.stored b).mpr hb
    exact ⟨(t.tick, t.net), List.mem_map_of_mem ht, e⟩
  · intro x hx
    obtain ⟨q, hq, hb⟩ := hbound x hx
    have := hc.pos.aligned q hq
    rcases hb with hb | hb <;> rw [← hb]
    · exact this.1
    · exact this.2
  · intro x hx
    obtain ⟨q, hq, hb⟩ := hbound x hx
    have h1 := hc.pos.bounds q hq
    have h2 := hc.pos.range q hq
    rcases hb with hb | hb <;> rw [← hb] <;> omega

theorem Dec.add_some {a b c : Int} (h : Dec.add a b = some c) : c = a + b := by
  unfold Dec.add chkDec at h
  split at h
  · injection h with h; exact h.symm
  · cases h

/-! ## loop invariants -/

/-- liquidity is the active liquidity at the current tick and the iterator holds the ticks ahead of it. -/
def LA (zfo : Bool) (tl : Ticks) (ps : List Position) (pool : PoolSt) (ahead : Ticks) : Prop :=
  pool.liquidity = activeAt ps pool.tick ∧ ahead = ticksAhead zfo tl pool.tick

/-- price/tick agreement is re-established by every iteration, whatever the step arithmetic does. -/
theorem body_agree {og zfo : Bool} {spf limit : Int} {st st' : SwapSt} {nt net : Int} {rest ahead' : Ticks} {c : Bool}
    {spacing : Int} (hb : BodyRel og zfo spf limit st nt net rest st' ahead' c)
    (ha : Agree spacing st.pool.sqrtPrice st.pool.tick) : Agree spacing st'.pool.sqrtPrice st'.pool.tick := by
  obtain ⟨nextSp, r, hsp, _, _, hcase⟩ := hb
  rcases hcase with ⟨_, e1, e2, _, _⟩ | ⟨_, _, _, _, _, hmove⟩
  · rw [← e1, e2]
    cases zfo
    · exact (agreeAll_cross hsp).1.agree _
    · exact (agreeAll_cross hsp).2.agree _
  · rcases hmove with ⟨_, hcalc⟩ | ⟨e1, e2⟩
    · exact (agreeAll_of_calc hcalc).agree _
    · rw [← e1, e2]; exact ha

/-- the sqrt price stays positive. -/
theorem body_pos {og zfo : Bool} {spf limit : Int} {st st' : SwapSt} {nt net : Int} {rest ahead' : Ticks} {c : Bool}
    (hb : BodyRel og zfo spf limit st nt net rest st' ahead' c)
    (ha : 0 < st.pool.sqrtPrice) : 0 < st'.pool.sqrtPrice := by
  obtain ⟨nextSp, r, hsp, _, _, hcase⟩ := hb
  rcases hcase with ⟨_, e1, _, _, _⟩ | ⟨_, _, _, _, _, hmove⟩
  · rw [← e1]; exact tts_pos hsp
  · rcases hmove with ⟨_, hcalc⟩ | ⟨e1, _⟩
    · exact pos_of_calc hcalc
    · rw [← e1]; exact ha

theorem body_LA {og zfo : Bool} {spf limit : Int} {st st' : SwapSt} {nt net : Int} {rest ahead' : Ticks} {c : Bool}
    {spacing : Int} {tl : Ticks} {ps : List Position} (hok : TicksOK spacing tl ps)
    (hb : BodyRel og zfo spf limit st nt net rest st' ahead' c)
    (ha : Agree spacing st.pool.sqrtPrice st.pool.tick)
    (hla : LA zfo tl ps st.pool ((nt, net) :: rest))
    (hm : if zfo then st'.pool.sqrtPrice ≤ st.pool.sqrtPrice else st.pool.sqrtPrice ≤ st'.pool.sqrtPrice) :
    LA zfo tl ps st'.pool ahead' := by
  obtain ⟨hliq, hahead⟩ := hla
  obtain ⟨nextSp, r, hsp, _, _, hcase⟩ := hb
  have hused : ∀ t, Used ps t → ∃ x ∈ tl, x.1 = t := hok.used
  rcases hcase with ⟨_, e1, e2, e3, e4⟩ | ⟨_, hne, hguard, e4, e5, hmove⟩
  · -- crossing
    have hl := Dec.add_some e3
    cases zfo
    · simp only [Bool.false_eq_true, ↓reduceIte] at e2 hl
      rw [ticksAhead_up] at hahead
      obtain ⟨f1, f2, f3, f4⟩ := filter_up_head hok.sorted hahead.symm
      refine ⟨?_, ?_⟩
      · have hnet : net = netAt ps nt := hok.net _ f1
        rw [hl, e2, activeAt_step hok.range nt, ← hnet, hliq]
        have : activeAt ps st.pool.tick = activeAt ps (nt - 1) := by
          apply activeAt_same_bucket
          intro t ht
          obtain ⟨y, hy, e⟩ := hused t ht
          have := f3 y hy
          simp only at f2 this
          omega
        rw [this]
      · rw [e4, e2, ticksAhead_up]; exact f4
    · simp only [↓reduceIte] at e2 hl
      rw [ticksAhead_down] at hahead
      have hsd : tl.reverse.Pairwise (fun a b => a.1 > b.1) := by
        rw [List.pairwise_reverse]; exact hok.sorted
      obtain ⟨f1, f2, f3, f4⟩ := filter_down_head hsd hahead.symm
      have f1' := List.mem_reverse.mp f1
      refine ⟨?_, ?_⟩
      · have hstep := activeAt_step hok.range nt
        have hnet : net = netAt ps nt := hok.net _ f1'
        rw [← hnet] at hstep
        have : activeAt ps st.pool.tick = activeAt ps nt := by
          apply activeAt_same_bucket
          intro t ht
          obtain ⟨y, hy, e⟩ := hused t ht
          have := f3 y (List.mem_reverse.mpr hy)
          simp only at f2 this
          omega
        rw [hl, e2, hliq, this]
        omega
      · rw [e4, e2, ticksAhead_down]; exact f4
  · -- inside the bucket
    rcases hmove with ⟨hmv, hcalc⟩ | ⟨_, e2⟩
    · -- the recomputed tick lies in the same bucket of initialised ticks
      have hall := agreeAll_of_calc hcalc
      have hbucket : ∀ x ∈ tl, (x.1 ≤ st.pool.tick ↔ x.1 ≤ st'.pool.tick) := by
        intro x hx
        obtain ⟨s, hs⟩ := tts_total (hok.bounds x hx).1 (hok.bounds x hx).2
        have hA := ha x.1 s (hok.aligned x hx) hs
        have hB := hall x.1 s hs
        cases zfo
        · simp only [Bool.false_eq_true, ↓reduceIte] at hm hguard
          rw [ticksAhead_up] at hahead
          obtain ⟨f1, f2, f3, _⟩ := filter_up_head hok.sorted hahead.symm
          have hnext : x.1 > st.pool.tick → nextSp ≤ s := fun hgt => tts_mono hsp hs (f3 x hx hgt)
          constructor
          · intro hle
            have := hA.1 hle
            apply Classical.byContradiction; intro hgt
            have := hB.2 (by omega)
            omega
          · intro hle
            have := hB.1 hle
            apply Classical.byContradiction; intro hgt
            have := hnext (by omega)
            omega
        · simp only [↓reduceIte] at hm hguard
          rw [ticksAhead_down] at hahead
          have hsd : tl.reverse.Pairwise (fun a b => a.1 > b.1) := by
            rw [List.pairwise_reverse]; exact hok.sorted
          obtain ⟨f1, f2, f3, _⟩ := filter_down_head hsd hahead.symm
          have hnext : x.1 ≤ st.pool.tick → s ≤ nextSp :=
            fun hle => tts_mono hs hsp (f3 x (List.mem_reverse.mpr hx) hle)
          constructor
          · intro hle
            have := hnext hle
            apply Classical.byContradiction; intro hgt
            have := hB.2 (by omega)
            omega
          · intro hle
            have := hB.1 hle
            apply Classical.byContradiction; intro hgt
            have := hA.2 (by omega)
            omega
      refine ⟨?_, ?_⟩
      · rw [e5, hliq]
        apply activeAt_same_bucket
        intro t ht
        obtain ⟨y, hy, e⟩ := hused t ht
        rw [← e]; exact hbucket y hy
      · rw [e4, hahead]; exact ticksAhead_congr zfo tl hbucket
    · exact ⟨by rw [e5, e2]; exact hliq, by rw [e4, e2]; exact hahead⟩

/-- every iteration of this run of the swap loop moved the sqrt price in the direction of the swap
(down for zero-for-one, up for one-for-zero) or not at all. -/
def MonoRun (og zfo : Bool) (spf limit : Int) : Nat → SwapSt → Ticks → Prop
  | 0, _, _ => True
  | fuel + 1, st, ahead =>
    if st.remaining > 1 ∧ st.pool.sqrtPrice ≠ limit then
      match loopBody og zfo spf limit st ahead with
      | none => True
      | some (st', ahead', _) =>
        (if zfo then st'.pool.sqrtPrice ≤ st.pool.sqrtPrice else st.pool.sqrtPrice ≤ st'.pool.sqrtPrice) ∧
        MonoRun og zfo spf limit fuel st' ahead'
    else True

theorem swapLoop_agree {og zfo : Bool} {spf limit : Int} {spacing : Int} :
    ∀ (fuel : Nat) (st : SwapSt) (ahead : Ticks) (steps crossed : Nat) (st' : SwapSt) (s' c' : Nat),
      swapLoop og zfo spf limit fuel st ahead steps crossed = some (st', s', c') →
      Agree spacing st.pool.sqrtPrice st.pool.tick → Agree spacing st'.pool.sqrtPrice st'.pool.tick := by
  intro fuel
  induction fuel with
  | zero => intro st ahead steps crossed st' s' c' h; cases h
  | succ fuel ih =>
    intro st ahead steps crossed st' s' c' h ha
    unfold swapLoop at h
    split at h
    · cases hb : loopBody og zfo spf limit st ahead with
      | none => rw [hb] at h; cases h
      | some res =>
        obtain ⟨st1, ahead1, c1⟩ := res
        rw [hb] at h
        simp only at h
        cases ahead with
        | nil => rw [loopBody_nil] at hb; cases hb
        | cons x rest =>
          obtain ⟨nt, net⟩ := x
          exact ih _ _ _ _ _ _ _ h (body_agree (loopBody_spec hb) ha)
    · injection h with h
      injection h with h1 _
      subst h1; exact ha

theorem swapLoop_pos {og zfo : Bool} {spf limit : Int} :
    ∀ (fuel : Nat) (st : SwapSt) (ahead : Ticks) (steps crossed : Nat) (st' : SwapSt) (s' c' : Nat),
      swapLoop og zfo spf limit fuel st ahead steps crossed = some (st', s', c') →
      0 < st.pool.sqrtPrice → 0 < st'.pool.sqrtPrice := by
  intro fuel
  induction fuel with
  | zero => intro st ahead steps crossed st' s' c' h; cases h
  | succ fuel ih =>
    intro st ahead steps crossed st' s' c' h ha
    unfold swapLoop at h
    split at h
    · cases hb : loopBody og zfo spf limit st ahead with
      | none => rw [hb] at h; cases h
      | some res =>
        obtain ⟨st1, ahead1, c1⟩ := res
        rw [hb] at h
        simp only at h
        cases ahead with
        | nil => rw [loopBody_nil] at hb; cases hb
        | cons x rest =>
          obtain ⟨nt, net⟩ := x
          exact ih _ _ _ _ _ _ _ h (body_pos (loopBody_spec hb) ha)
    · injection h with h
      injection h with h1 _
      subst h1; exact ha

theorem swapLoop_LA {og zfo : Bool} {spf limit : Int} {spacing : Int} {tl : Ticks} {ps : List Position}
    (hok : TicksOK spacing tl ps) :
    ∀ (fuel : Nat) (st : SwapSt) (ahead : Ticks) (steps crossed : Nat) (st' : SwapSt) (s' c' : Nat),
      swapLoop og zfo spf limit fuel st ahead steps crossed = some (st', s', c') →
      MonoRun og zfo spf limit fuel st ahead →
      Agree spacing st.pool.sqrtPrice st.pool.tick → LA zfo tl ps st.pool ahead →
      st'.pool.liquidity = activeAt ps st'.pool.tick := by
  intro fuel
  induction fuel with
  | zero => intro st ahead steps crossed st' s' c' h; cases h
  | succ fuel ih =>
    intro st ahead steps crossed st' s' c' h hmono ha hla
    unfold swapLoop at h
    unfold MonoRun at hmono
    split at h
    · rename_i hcond
      rw [if_pos hcond] at hmono
      cases hb : loopBody og zfo spf limit st ahead with
      | none => rw [hb] at h; cases h
      | some res =>
        obtain ⟨st1, ahead1, c1⟩ := res
        rw [hb] at h hmono
        simp only at h hmono
        cases ahead with
        | nil => rw [loopBody_nil] at hb; cases hb
        | cons x rest =>
          obtain ⟨nt, net⟩ := x
          have hrel := loopBody_spec hb
          exact ih _ _ _ _ _ _ _ h hmono.2 (body_agree hrel ha) (body_LA hok hrel ha hla hmono.1)
    · injection h with h
      injection h with h1 _
      subst h1; exact hla.1

end OsmoVerif.CLBook
