/-
C03 helpers, part 3: decomposition of a successful within-bucket step into the amount-delta calls
between the current and the NEXT sqrt price, their rounding into the returned 18-decimal amounts, and
the resulting comparison with the exact curve.
-/
import OsmoVerif.Proofs.CLRound2

namespace OsmoVerif.CL
open OsmoVerif.Num OsmoVerif.Gen OsmoVerif.Spec OsmoVerif.Props

/-- the token that goes IN for a direction: zero-for-one pays token0. -/
def deltaIn (zfo : Bool) (liq p q : Int) : Option Int :=
  if zfo then calcAmount0Delta liq p q true else calcAmount1Delta liq p q true
/-- the token that comes OUT: zero-for-one receives token1. -/
def deltaOut (zfo : Bool) (liq p q : Int) : Option Int :=
  if zfo then calcAmount1Delta liq p q false else calcAmount0Delta liq p q false

/-- everything a successful out-given-in step tells us. -/
theorem stepOutGivenIn_decomp {zfo : Bool} {spf sp target liq remaining : Int} {r : StepResult}
    (h : stepOutGivenIn zfo spf sp target liq remaining = some r) :
    ∃ x y amtIn0 oneMinus,
      deltaIn zfo liq r.sqrtPriceNext sp = some x ∧
      deltaOut zfo liq r.sqrtPriceNext sp = some y ∧
      IsCeil x Pdiff r.amountSpecified ∧ IsTrunc y Pdiff r.amountOther ∧
      spreadChargeOutGivenIn (decide (target = r.sqrtPriceNext)) r.amountSpecified remaining spf = some r.spreadCharge ∧
      deltaIn zfo liq target sp = some amtIn0 ∧ oneMinus = P18 - spf ∧
      (if remaining * oneMinus ≥ amtIn0 then some target
        else if zfo then (BigDec.fromDec liq).bind fun l => nextSqrtPriceAmount0In sp l (remaining * oneMinus)
        else nextSqrtPriceAmount1In sp liq (remaining * oneMinus)) = some r.sqrtPriceNext := by
  rw [stepOutGivenIn_eq] at h
  obtain ⟨amtIn0, h0, h1⟩ := Option.bind_eq_some_iff.mp h
  obtain ⟨oneMinus, hone, h2⟩ := Option.bind_eq_some_iff.mp h1
  obtain ⟨spNext, hsp, h3⟩ := Option.bind_eq_some_iff.mp h2
  obtain ⟨amtIn, hin, h4⟩ := Option.bind_eq_some_iff.mp h3
  obtain ⟨amtOut, hout, h5⟩ := Option.bind_eq_some_iff.mp h4
  obtain ⟨amtInFinal, hfin, h6⟩ := Option.bind_eq_some_iff.mp h5
  obtain ⟨charge, hch, h7⟩ := Option.bind_eq_some_iff.mp h6
  obtain ⟨out, hdec, h8⟩ := Option.bind_eq_some_iff.mp h7
  clear h h1 h2 h3 h4 h5 h6 h7
  cases h8
  refine ⟨amtIn, amtOut, amtIn0, oneMinus, ?_, hout, C12.decRoundUp_ceil hfin, C12.dec_toward_zero hdec, hch, h0,
    dec_sub_exact hone, hsp⟩
  show deltaIn zfo liq spNext sp = some amtIn
  by_cases hr : target = spNext
  · rw [if_pos hr] at hin
    cases hin
    rw [← hr]; exact h0
  · rw [if_neg hr] at hin
    exact hin

/-- everything a successful in-given-out step tells us. -/
theorem stepInGivenOut_decomp {zfo : Bool} {spf sp target liq remainingOut : Int} {r : StepResult}
    (h : stepInGivenOut zfo spf sp target liq remainingOut = some r) :
    ∃ x y out0,
      deltaIn zfo liq r.sqrtPriceNext sp = some x ∧
      deltaOut zfo liq r.sqrtPriceNext sp = some y ∧
      IsCeil x Pdiff r.amountOther ∧
      IsTrunc (if y > remainingOut * Pdiff then remainingOut * Pdiff else y) Pdiff r.amountSpecified ∧
      spreadChargeFromAmountIn r.amountOther spf = some r.spreadCharge ∧
      deltaOut zfo liq target sp = some out0 ∧
      (if remainingOut * Pdiff ≥ out0 then some target
        else if zfo then nextSqrtPriceAmount1Out sp liq (remainingOut * Pdiff)
        else (BigDec.fromDec liq).bind fun l => nextSqrtPriceAmount0Out sp l remainingOut) = some r.sqrtPriceNext := by
  rw [stepInGivenOut_eq] at h
  obtain ⟨remBig, hrem, h1⟩ := Option.bind_eq_some_iff.mp h
  obtain ⟨out0, h0, h2⟩ := Option.bind_eq_some_iff.mp h1
  obtain ⟨spNext, hsp, h3⟩ := Option.bind_eq_some_iff.mp h2
  obtain ⟨out, hout, h4⟩ := Option.bind_eq_some_iff.mp h3
  obtain ⟨amtIn, hin, h5⟩ := Option.bind_eq_some_iff.mp h4
  obtain ⟨amtInFinal, hfin, h6⟩ := Option.bind_eq_some_iff.mp h5
  obtain ⟨charge, hch, h7⟩ := Option.bind_eq_some_iff.mp h6
  obtain ⟨outDec, hdec, h8⟩ := Option.bind_eq_some_iff.mp h7
  clear h h1 h2 h3 h4 h5 h6 h7
  cases h8
  have er := C12.fromDec_exact hrem
  subst er
  refine ⟨amtIn, out, out0, hin, ?_, C12.decRoundUp_ceil hfin, C12.dec_toward_zero hdec, hch, h0, hsp⟩
  show deltaOut zfo liq spNext sp = some out
  by_cases hr : target = spNext
  · rw [if_pos hr] at hout
    cases hout
    rw [← hr]; exact h0
  · rw [if_neg hr] at hout
    exact hout

/-! ### positivity of the next sqrt price -/

theorem mulRoundUp_pos {a b r : Int} (ha : 0 < a) (hb : 0 < b) (h : BigDec.mulRoundUp a b = some r) : 0 < r :=
  ceil_pos P36_pos (Int.mul_pos ha hb) (C12.mulRoundUp_ceil h)

theorem Pdiff_nonneg : 0 ≤ Pdiff := Int.le_of_lt Pdiff_pos

/-- `GetNextSqrtPriceFromAmount0InRoundingUp` stays positive. -/
theorem nextSqrtPriceAmount0In_pos {sp liq amt r : Int} (hsp : 0 < sp) (hl : 0 < liq) (ha : 0 ≤ amt)
    (h : nextSqrtPriceAmount0In sp liq amt = some r) : 0 < r := by
  rw [nextSqrtPriceAmount0In_eq] at h
  by_cases hz : amt = 0
  · rw [if_pos hz] at h; cases h; exact hsp
  · rw [if_neg hz] at h
    obtain ⟨product, hp, h1⟩ := Option.bind_eq_some_iff.mp h
    obtain ⟨denom, hd, h2⟩ := Option.bind_eq_some_iff.mp h1
    obtain ⟨num, hn, h3⟩ := Option.bind_eq_some_iff.mp h2
    have p0 : 0 ≤ product :=
      (trunc_nonneg_le P36_pos (Int.mul_nonneg ha (Int.le_of_lt hsp)) (C12.mulTruncate_toward_zero hp)).1
    have ed := C12.add_exact hd
    have n0 : 0 < num := mulRoundUp_pos hl hsp hn
    have d0 : 0 < denom := by omega
    exact ceil_pos d0 (Int.mul_pos n0 P36_pos) (quoRoundUpMut_ceil_pos d0 h3)

/-- `GetNextSqrtPriceFromAmount1InRoundingDown` does not decrease the price. -/
theorem nextSqrtPriceAmount1In_ge {sp liq amt r : Int} (hl : 0 < liq) (ha : 0 ≤ amt)
    (h : nextSqrtPriceAmount1In sp liq amt = some r) : sp ≤ r := by
  rw [nextSqrtPriceAmount1In_eq] at h
  obtain ⟨q, hq, h1⟩ := Option.bind_eq_some_iff.mp h
  have q0 : 0 ≤ q :=
    (trunc_nonneg_le hl (Int.mul_nonneg ha P18_nonneg) (quoTruncateDec_trunc_pos hl hq)).1
  have := C12.add_exact h1
  omega

theorem stepOutGivenIn_next_pos {zfo : Bool} {spf sp target liq remaining : Int} {r : StepResult}
    (hl : 0 < liq) (hsp : 0 < sp) (ht : 0 < target) (hs1 : spf < P18) (hrem : 0 ≤ remaining)
    (h : stepOutGivenIn zfo spf sp target liq remaining = some r) : 0 < r.sqrtPriceNext := by
  obtain ⟨x, y, amtIn0, oneMinus, -, -, -, -, -, -, hone, hn⟩ := stepOutGivenIn_decomp h
  have hrl : 0 ≤ remaining * oneMinus := Int.mul_nonneg hrem (by omega)
  split at hn
  · cases hn; exact ht
  · cases zfo
    · rw [if_neg (by decide)] at hn
      have := nextSqrtPriceAmount1In_ge hl hrl hn
      omega
    · rw [if_pos rfl] at hn
      obtain ⟨l, hlb, hn⟩ := Option.bind_eq_some_iff.mp hn
      have := C12.fromDec_exact hlb
      subst this
      exact nextSqrtPriceAmount0In_pos hsp (Int.mul_pos hl Pdiff_pos) hrl hn

/-- `GetNextSqrtPriceFromAmount1OutRoundingDown` does not undershoot the target when the requested
amount is below the (rounded-down) amount available up to the target. -/
theorem nextSqrtPriceAmount1Out_ge_target {sp target liq amt out0 r : Int} (hl : 0 < liq) (hdir : target ≤ sp)
    (h0 : calcAmount1Delta liq target sp false = some out0) (hlt : amt < out0)
    (h : nextSqrtPriceAmount1Out sp liq amt = some r) : target ≤ r := by
  rw [nextSqrtPriceAmount1Out_eq] at h
  obtain ⟨q, hq, h1⟩ := Option.bind_eq_some_iff.mp h
  have cq := quoByDecRoundUp_ceil_pos hl hq
  have e := C12.sub_exact h1
  obtain ⟨hb, -⟩ := amount1_roundDown_any (Int.le_of_lt hl) h0
  have ea : ((target - sp).natAbs : Int) = sp - target := by omega
  rw [ea] at hb
  have h2 : amt * P18 < out0 * P18 := Int.mul_lt_mul_of_pos_right hlt P18_pos
  have h3 : (q - 1) * liq < (sp - target) * liq := by have := cq.1; omega
  have := lt_of_mul_lt_mul_pos hl h3
  omega

/-- `GetNextSqrtPriceFromAmount0OutRoundingUp` stays positive when the requested amount is below the
(rounded-down) amount available up to the target. -/
theorem nextSqrtPriceAmount0Out_pos {sp target liq rem out0 r : Int} (hl : 0 < liq) (hsp : 0 < sp)
    (hdir : sp ≤ target)
    (h0 : calcAmount0Delta liq target sp false = some out0) (hlt : rem * Pdiff < out0)
    (h : nextSqrtPriceAmount0Out sp (liq * Pdiff) rem = some r) : 0 < r := by
  rw [nextSqrtPriceAmount0Out_eq] at h
  by_cases hz : rem = 0
  · rw [if_pos hz] at h; cases h; exact hsp
  · rw [if_neg hz] at h
    obtain ⟨product, hp, h1⟩ := Option.bind_eq_some_iff.mp h
    obtain ⟨denom, hd, h2⟩ := Option.bind_eq_some_iff.mp h1
    obtain ⟨num, hn, h3⟩ := Option.bind_eq_some_iff.mp h2
    have ht : 0 < target := by omega
    have cp : IsCeil (sp * rem) P18 product := C12.mulRoundUpDec_ceil hp
    have ed := C12.sub_exact hd
    have n0 : 0 < num := mulRoundUp_pos (Int.mul_pos hl Pdiff_pos) hsp hn
    have dne : denom ≠ 0 := (C12.quoRoundUpMut_ceil h3).1
    obtain ⟨hb, -⟩ := amount0_roundDown_any ht hsp (Int.le_of_lt hl) h0
    have ea : ((target - sp).natAbs : Int) = target - sp := by omega
    rw [ea] at hb
    have tsP : 0 ≤ target * sp * P18 := Int.mul_nonneg (Int.mul_nonneg (by omega) (by omega)) P18_nonneg
    -- rem·sp ≤ liq·10^36
    have key : rem * sp ≤ liq * P36 := by
      have h4 : rem * Pdiff * (target * sp) * P18 ≤ out0 * (target * sp) * P18 := by
        have := Int.mul_le_mul_of_nonneg_right (Int.le_of_lt hlt) tsP
        calc rem * Pdiff * (target * sp) * P18 = rem * Pdiff * (target * sp * P18) := by ring
          _ ≤ out0 * (target * sp * P18) := this
          _ = out0 * (target * sp) * P18 := by ring
      have h5 : (target - sp) * liq * (P36 * P36) ≤ target * liq * (P36 * P36) := by
        apply Int.mul_le_mul_of_nonneg_right _ (Int.mul_nonneg P36_nonneg P36_nonneg)
        apply Int.mul_le_mul_of_nonneg_right _ (Int.le_of_lt hl)
        omega
      have h6 : rem * sp * (target * P36) ≤ liq * P36 * (target * P36) := by
        calc rem * sp * (target * P36) = rem * Pdiff * (target * sp) * P18 := by
              rw [P36_eq_mul, Pdiff_eq_P18]; ring
          _ ≤ out0 * (target * sp) * P18 := h4
          _ ≤ (target - sp) * liq * (P36 * P36) := hb
          _ ≤ target * liq * (P36 * P36) := h5
          _ = liq * P36 * (target * P36) := by ring
      exact Int.le_of_mul_le_mul_right h6 (Int.mul_pos ht P36_pos)
    have hpl : product ≤ liq * Pdiff := by
      have h7 : (product - 1) * P18 < liq * Pdiff * P18 := by
        calc (product - 1) * P18 < sp * rem := cp.1
          _ = rem * sp := by ring
          _ ≤ liq * P36 := key
          _ = liq * Pdiff * P18 := by rw [P36_eq_mul, Pdiff_eq_P18]; ring
      have := lt_of_mul_lt_mul_pos P18_pos h7
      omega
    have d0 : 0 < denom := by omega
    exact ceil_pos d0 (Int.mul_pos n0 P36_pos) (quoRoundUpMut_ceil_pos d0 h3)

/-- in-given-out: the next sqrt price is positive when the target lies in the swap direction. -/
theorem stepInGivenOut_next_pos {zfo : Bool} {spf sp target liq remainingOut : Int} {r : StepResult}
    (hl : 0 < liq) (hsp : 0 < sp) (ht : 0 < target)
    (hdir : if zfo then target ≤ sp else sp ≤ target)
    (h : stepInGivenOut zfo spf sp target liq remainingOut = some r) : 0 < r.sqrtPriceNext := by
  obtain ⟨x, y, out0, -, -, -, -, -, h0, hn⟩ := stepInGivenOut_decomp h
  split at hn
  · cases hn; exact ht
  · rename_i hlt
    cases zfo
    · rw [if_neg (by decide)] at hn hdir
      obtain ⟨l, hlb, hn⟩ := Option.bind_eq_some_iff.mp hn
      have := C12.fromDec_exact hlb
      subst this
      exact nextSqrtPriceAmount0Out_pos hl hsp hdir h0 (by omega) hn
    · rw [if_pos rfl] at hn hdir
      have := nextSqrtPriceAmount1Out_ge_target hl hdir h0 (by omega) hn
      omega

/-! ### from the rounded amount deltas to the curve -/

theorem ge0_of_roundUp {liq p q x S : Int} (hp : 0 < p) (hq : 0 < q) (hl : 0 ≤ liq)
    (hx : calcAmount0Delta liq p q true = some x) (hS : IsCeil x Pdiff S) :
    Ge0 liq p q S ∧ ∃ k, 0 ≤ k ∧ S = k * P18 := by
  obtain ⟨k, e, k0, hk⟩ := amount0_roundUp_any hp hq hl hx
  subst e
  have eS : S = k * P18 := by
    have : k * P36 = (k * P18) * Pdiff := by rw [P36_eq_mul, Pdiff_eq_P18]; ring
    rw [this] at hS
    exact hS.exact Pdiff_pos
  refine ⟨?_, k, k0, eS⟩
  unfold Ge0
  rw [← P36_eq, eS]
  calc ((p - q).natAbs : Int) * liq * P36 ≤ k * (p * q) * P18 := hk
    _ = k * P18 * (p * q) := by ring

theorem ge1_of_roundUp {liq p q x S : Int} (hl : 0 ≤ liq)
    (hx : calcAmount1Delta liq p q true = some x) (hS : IsCeil x Pdiff S) :
    Ge1 liq p q S ∧ ∃ k, 0 ≤ k ∧ S = k * P18 := by
  obtain ⟨k, e, k0, hk⟩ := amount1_roundUp_any hl hx
  subst e
  have eS : S = k * P18 := by
    have : k * P36 = (k * P18) * Pdiff := by rw [P36_eq_mul, Pdiff_eq_P18]; ring
    rw [this] at hS
    exact hS.exact Pdiff_pos
  refine ⟨?_, k, k0, eS⟩
  unfold Ge1
  rw [← P36_eq, eS]
  calc ((p - q).natAbs : Int) * liq ≤ k * P36 * P18 := hk
    _ = k * P18 * P36 := by ring

theorem le0_of_roundDown {liq p q y m O : Int} (hp : 0 < p) (hq : 0 < q) (hl : 0 ≤ liq)
    (hy : calcAmount0Delta liq p q false = some y) (hm0 : 0 ≤ m) (hm : m ≤ y) (hO : IsTrunc m Pdiff O) :
    Le0 liq p q O ∧ 0 ≤ O := by
  obtain ⟨hb, y0⟩ := amount0_roundDown_any hp hq hl hy
  obtain ⟨O0, hO⟩ := trunc_nonneg_le Pdiff_pos hm0 hO
  refine ⟨?_, O0⟩
  unfold Le0
  rw [← P36_eq]
  have pq : 0 ≤ p * q * P18 := Int.mul_nonneg (Int.mul_nonneg (by omega) (by omega)) P18_nonneg
  apply Int.le_of_mul_le_mul_right _ P36_pos
  calc O * (p * q) * P36 = O * Pdiff * (p * q * P18) := by rw [P36_eq_mul, Pdiff_eq_P18]; ring
    _ ≤ y * (p * q * P18) := Int.mul_le_mul_of_nonneg_right (by omega) pq
    _ = y * (p * q) * P18 := by ring
    _ ≤ ((p - q).natAbs : Int) * liq * (P36 * P36) := hb
    _ = ((p - q).natAbs : Int) * liq * P36 * P36 := by ring

theorem le1_of_roundDown {liq p q y m O : Int} (hl : 0 ≤ liq)
    (hy : calcAmount1Delta liq p q false = some y) (hm0 : 0 ≤ m) (hm : m ≤ y) (hO : IsTrunc m Pdiff O) :
    Le1 liq p q O ∧ 0 ≤ O := by
  obtain ⟨hb, y0⟩ := amount1_roundDown_any hl hy
  obtain ⟨O0, hO⟩ := trunc_nonneg_le Pdiff_pos hm0 hO
  refine ⟨?_, O0⟩
  unfold Le1
  rw [← P36_eq]
  calc O * P36 = O * Pdiff * P18 := by rw [P36_eq_mul, Pdiff_eq_P18]; ring
    _ ≤ y * P18 := Int.mul_le_mul_of_nonneg_right (by omega) P18_nonneg
    _ ≤ ((p - q).natAbs : Int) * liq := hb

/-- amount paid IN is at least the exact curve amount between the two prices (and a whole number of tokens). -/
def InGe (zfo : Bool) (liq p q amt : Int) : Prop := if zfo then Ge0 liq p q amt else Ge1 liq p q amt
/-- amount paid OUT is at most the exact curve amount between the two prices. -/
def OutLe (zfo : Bool) (liq p q amt : Int) : Prop := if zfo then Le1 liq p q amt else Le0 liq p q amt

theorem inGe_of_deltaIn {zfo : Bool} {liq p q x S : Int} (hp : 0 < p) (hq : 0 < q) (hl : 0 ≤ liq)
    (hx : deltaIn zfo liq p q = some x) (hS : IsCeil x Pdiff S) :
    InGe zfo liq p q S ∧ ∃ k, 0 ≤ k ∧ S = k * P18 := by
  unfold deltaIn at hx; unfold InGe
  cases zfo
  · exact ge1_of_roundUp hl hx hS
  · exact ge0_of_roundUp hp hq hl hx hS

theorem outLe_of_deltaOut {zfo : Bool} {liq p q y m O : Int} (hp : 0 < p) (hq : 0 < q) (hl : 0 ≤ liq)
    (hy : deltaOut zfo liq p q = some y) (hm0 : 0 ≤ m) (hm : m ≤ y) (hO : IsTrunc m Pdiff O) :
    OutLe zfo liq p q O ∧ 0 ≤ O := by
  unfold deltaOut at hy; unfold OutLe
  cases zfo
  · exact le0_of_roundDown hp hq hl hy hm0 hm hO
  · exact le1_of_roundDown hl hy hm0 hm hO

theorem deltaOut_nonneg {zfo : Bool} {liq p q y : Int} (hp : 0 < p) (hq : 0 < q) (hl : 0 ≤ liq)
    (hy : deltaOut zfo liq p q = some y) : 0 ≤ y := by
  unfold deltaOut at hy
  cases zfo
  · exact (amount0_roundDown_any hp hq hl hy).2
  · exact (amount1_roundDown_any hl hy).2

/-! ### an empty bucket (zero liquidity): all deltas are zero and the step goes straight to the target -/

theorem ceil_zero {d r : Int} (hd : 0 < d) (h : IsCeil 0 d r) : r = 0 := by
  have : IsCeil (0 * d) d r := by rwa [Int.zero_mul]
  exact this.exact hd

theorem trunc_zero {d r : Int} (hd : 0 < d) (h : IsTrunc 0 d r) : r = 0 := by
  have : IsTrunc (0 * d) d r := by rwa [Int.zero_mul]
  exact this.exact hd

theorem amount0_roundUp_zero_liq {a b r : Int} (ha : 0 < a) (hb : 0 < b)
    (h : calcAmount0Delta 0 a b true = some r) : r = 0 := by
  have key : ∀ {a b : Int}, 0 < a → a ≤ b → calcAmount0Delta 0 a b true = some r → r = 0 := by
    intro a b ha hab h
    rw [calcAmount0Delta_roundUp_eq hab] at h
    obtain ⟨d, hd, h1⟩ := Option.bind_eq_some_iff.mp h
    obtain ⟨x, hx, h2⟩ := Option.bind_eq_some_iff.mp h1
    obtain ⟨y, hy, hr⟩ := Option.bind_eq_some_iff.mp h2
    have hb : 0 < b := by omega
    have cx : IsCeil (d * 0) P18 x := C12.mulRoundUpDec_ceil hx
    rw [Int.mul_zero] at cx
    have := ceil_zero P18_pos cx; subst this
    have cy := quoRoundUpMut_ceil_pos hb hy
    rw [Int.zero_mul] at cy
    have := ceil_zero hb cy; subst this
    obtain ⟨k, hk, ck⟩ := quoRoundUpNextInt_ceil_pos ha hr
    have := ceil_zero ha ck; subst this
    rw [hk, Int.zero_mul]
  rcases Int.le_total a b with hab | hab
  · exact key ha hab h
  · rw [calcAmount0Delta_comm] at h; exact key hb hab h

theorem amount0_roundDown_zero_liq {a b r : Int} (ha : 0 < a) (hb : 0 < b)
    (h : calcAmount0Delta 0 a b false = some r) : r = 0 := by
  have key : ∀ {a b : Int}, 0 < a → a ≤ b → calcAmount0Delta 0 a b false = some r → r = 0 := by
    intro a b ha hab h
    rw [calcAmount0Delta_roundDown_eq hab] at h
    obtain ⟨d, hd, h1⟩ := Option.bind_eq_some_iff.mp h
    obtain ⟨x, hx, h2⟩ := Option.bind_eq_some_iff.mp h1
    obtain ⟨y, hy, hr⟩ := Option.bind_eq_some_iff.mp h2
    have hb : 0 < b := by omega
    have cx : IsTrunc (d * 0) P18 x := C12.mulTruncateDec_toward_zero hx
    rw [Int.mul_zero] at cx
    have := trunc_zero P18_pos cx; subst this
    have cy := quoTruncate_trunc_pos hb hy
    rw [Int.zero_mul] at cy
    have := trunc_zero hb cy; subst this
    have cr := quoTruncate_trunc_pos ha hr
    rw [Int.zero_mul] at cr
    exact trunc_zero ha cr
  rcases Int.le_total a b with hab | hab
  · exact key ha hab h
  · rw [calcAmount0Delta_comm] at h; exact key hb hab h

theorem amount1_roundUp_zero_liq {a b r : Int} (h : calcAmount1Delta 0 a b true = some r) : r = 0 := by
  rw [calcAmount1Delta_roundUp_eq] at h
  obtain ⟨d, hd, h1⟩ := Option.bind_eq_some_iff.mp h
  obtain ⟨x, hx, hr⟩ := Option.bind_eq_some_iff.mp h1
  have cx : IsCeil ((d.natAbs : Int) * 0) P18 x := C12.mulRoundUpDec_ceil hx
  rw [Int.mul_zero] at cx
  have := ceil_zero P18_pos cx; subst this
  obtain ⟨k, hk, ck⟩ := C12.ceil_ceil hr
  have := ceil_zero P36_pos ck; subst this
  rw [hk, Int.zero_mul]

theorem amount1_roundDown_zero_liq {a b r : Int} (h : calcAmount1Delta 0 a b false = some r) : r = 0 := by
  rw [calcAmount1Delta_roundDown_eq] at h
  obtain ⟨d, hd, hr⟩ := Option.bind_eq_some_iff.mp h
  have cx : IsTrunc ((d.natAbs : Int) * 0) P18 r := C12.mulTruncateDec_toward_zero hr
  rw [Int.mul_zero] at cx
  exact trunc_zero P18_pos cx

theorem deltaIn_zero_liq {zfo : Bool} {p q x : Int} (hp : 0 < p) (hq : 0 < q)
    (h : deltaIn zfo 0 p q = some x) : x = 0 := by
  unfold deltaIn at h
  cases zfo
  · exact amount1_roundUp_zero_liq h
  · exact amount0_roundUp_zero_liq hp hq h

theorem deltaOut_zero_liq {zfo : Bool} {p q y : Int} (hp : 0 < p) (hq : 0 < q)
    (h : deltaOut zfo 0 p q = some y) : y = 0 := by
  unfold deltaOut at h
  cases zfo
  · exact amount0_roundDown_zero_liq hp hq h
  · exact amount1_roundDown_zero_liq h

/-- out-given-in: positive next price, liquidity merely non-negative. -/
theorem stepOutGivenIn_next_pos' {zfo : Bool} {spf sp target liq remaining : Int} {r : StepResult}
    (hl : 0 ≤ liq) (hsp : 0 < sp) (ht : 0 < target) (hs1 : spf < P18) (hrem : 0 ≤ remaining)
    (h : stepOutGivenIn zfo spf sp target liq remaining = some r) : 0 < r.sqrtPriceNext := by
  rcases Int.lt_or_le 0 liq with hpos | hz
  · exact stepOutGivenIn_next_pos hpos hsp ht hs1 hrem h
  · have : liq = 0 := by omega
    subst this
    obtain ⟨x, y, amtIn0, oneMinus, -, -, -, -, -, h0, hone, hn⟩ := stepOutGivenIn_decomp h
    have := deltaIn_zero_liq ht hsp h0
    subst this
    have hrl : 0 ≤ remaining * oneMinus := Int.mul_nonneg hrem (by omega)
    rw [if_pos hrl] at hn
    cases hn; exact ht

/-- in-given-out: positive next price, liquidity merely non-negative. -/
theorem stepInGivenOut_next_pos' {zfo : Bool} {spf sp target liq remainingOut : Int} {r : StepResult}
    (hl : 0 ≤ liq) (hsp : 0 < sp) (ht : 0 < target) (hrem : 0 ≤ remainingOut)
    (hdir : if zfo then target ≤ sp else sp ≤ target)
    (h : stepInGivenOut zfo spf sp target liq remainingOut = some r) : 0 < r.sqrtPriceNext := by
  rcases Int.lt_or_le 0 liq with hpos | hz
  · exact stepInGivenOut_next_pos hpos hsp ht hdir h
  · have : liq = 0 := by omega
    subst this
    obtain ⟨x, y, out0, -, -, -, -, -, h0, hn⟩ := stepInGivenOut_decomp h
    have := deltaOut_zero_liq ht hsp h0
    subst this
    have hrl : 0 ≤ remainingOut * Pdiff := Int.mul_nonneg hrem Pdiff_nonneg
    rw [if_pos hrl] at hn
    cases hn; exact ht

end OsmoVerif.CL
