/- C11, refresh at an exchange rate ≠ 1: ONE iteration of `RefreshIntermediaryDelegationAmounts` — all three branches,
the rejected force-undelegation included — for any validator (`T, S > 0`), any delegation, any expected amount. -/
import OsmoVerif.Proofs.SuperfluidRefreshQ

namespace OsmoVerif.Superfluid
open OsmoVerif.Num OsmoVerif.Spec

/-- the refresh wants to force-undelegate (`expected < currentAmount`) and the shares for the difference exceed the
account's delegation: `⌊S·(cur − e)/T⌋ > d`, i.e. `S·(cur − e) ≥ (d+1)·T`. -/
def BurnRejected (s : SState) (key : AccKey) (e : Int) : Prop :=
  ∃ d cur, s.k.dsh key = some d ∧ currentS s key = some cur ∧ e < cur ∧
    (d + 1) * (s.k.val key.2).tokens ≤ (s.k.val key.2).shares * (cur - e)

/-- a successful refresh step has read a current amount and an expected amount. -/
theorem refreshOneS_reads {s s' : SState} {key : AccKey} (hv : key.2 ∈ s.b.validators) (hc : refreshOneS s key = .ok s') :
    ∃ cur e, currentS s key = some cur ∧ expectedDelegation s.b key = .ok e := by
  unfold refreshOneS at hc
  rw [if_neg (by simpa using hv)] at hc
  split at hc
  · cases hc
  · rename_i cur hcur
    split at hc
    · cases hc
    · rename_i e he
      exact ⟨cur, e, hcur, he⟩

theorem currentS_nonneg {s : SState} {key : AccKey} {cur : Int}
    (hT : 0 ≤ (s.k.val key.2).tokens) (hS : 0 < (s.k.val key.2).shares) (hd0 : 0 ≤ shOf s.k key)
    (h : currentS s key = some cur) : 0 ≤ cur := by
  cases hd : s.k.dsh key with
  | none => rw [currentS_none hd] at h; injection h with h; omega
  | some d =>
    rw [shOf_of_some hd] at hd0
    obtain ⟨t, ht, hr2, _⟩ := currentS_spec hd h
    obtain ⟨q, _, _, _, _, ht0⟩ := tokensFromShares_spec hT hS hd0 ht
    exact RefreshArith.halfEven_nonneg P18_pos ht0 hr2

/-- **ONE REFRESH STEP, any exchange rate.**  Account `key` on a validator with `T, S > 0`, delegation shares
`0 ≤ d ≤ S`, expected amount `e ≥ 0`, everything inside the 256-bit ranges.  After the step EITHER
* the force-undelegation was rejected (`BurnRejected`): nothing changed, the expected amount is 0, and the stake — at
  least `cur − ½ − ½·10⁻¹⁸ ≥ ½ − ½·10⁻¹⁸`, at most `cur − T/S`, with `cur ≥ 1` ANY whole number — stays; OR
* `−(½ + 10⁻¹⁸) − T/S < stake' − e < ½ + 10⁻¹⁸ + T/S + leak`, where `leak` is 0 unless the account lost shares
  (a force-undelegation), and then the fraction `d'/S' ≤ 1` of its validator the account still holds (its part of the at
  most one token the truncated payout leaves behind). -/
theorem refreshOneS_bound {s s' : SState} {key : AccKey} {e : Int} (hv : key.2 ∈ s.b.validators)
    (hT : 0 < (s.k.val key.2).tokens) (hS : 0 < (s.k.val key.2).shares)
    (hd0 : 0 ≤ shOf s.k key) (hdS : shOf s.k key ≤ (s.k.val key.2).shares)
    (hSr : (s.k.val key.2).shares * (e + 1) ≤ decUpper) (hTr : (s.k.val key.2).tokens + e < powLimit)
    (he : expectedDelegation s.b key = .ok e) (he0 : 0 ≤ e) (hc : refreshOneS s key = .ok s') :
    (BurnRejected s key e ∧ s' = s ∧ e = 0 ∧
      ∃ cur : Int, currentS s key = some cur ∧ 1 ≤ cur ∧
        (cur : ℚ) - 1 / 2 - uQ / 2 ≤ stakeQ s.k key ∧ stakeQ s.k key ≤ (cur : ℚ) - rateQ s.k key.2) ∨
    (¬ BurnRejected s key e ∧
      -(1 / 2 + uQ) - rateQ s.k key.2 < stakeQ s'.k key - e ∧
      stakeQ s'.k key - e < 1 / 2 + uQ + rateQ s.k key.2 +
        (if shOf s'.k key < shOf s.k key then fracQ s'.k key else 0)) := by
  obtain ⟨cur, e', hcur, he'⟩ := refreshOneS_reads hv hc
  rw [he] at he'; injection he' with he'; subst he'
  have hcur0 : 0 ≤ cur := currentS_nonneg (Int.le_of_lt hT) hS hd0 hcur
  obtain ⟨cv1, cv2⟩ := current_vs_stake (Int.le_of_lt hT) hS hd0 hcur
  have hu := uQ_pos
  have hu2 := uQ_le
  have huu : uQ * uQ ≤ uQ / 2 := by nlinarith
  have hrate : 0 < rateQ s.k key.2 := by
    unfold rateQ
    exact div_pos (by exact_mod_cast hT) (by exact_mod_cast hS)
  have hSdec : (s.k.val key.2).shares ≤ decUpper := by
    have : (s.k.val key.2).shares * 1 ≤ (s.k.val key.2).shares * (e + 1) :=
      Int.mul_le_mul_of_nonneg_left (by omega) (Int.le_of_lt hS)
    omega
  rcases refreshOneS_cases hv hcur he hc with ⟨heq, hs'⟩ | ⟨hlt, hm⟩ | ⟨hgt, hb⟩
  · -- equal: nothing to do
    subst hs'; subst heq
    refine Or.inr ⟨?_, ?_, ?_⟩
    · rintro ⟨d, c, _, hc', hlt, _⟩
      rw [hcur] at hc'; injection hc' with hc'; omega
    · linarith
    · rw [if_neg (by omega)]; linarith
  · -- mint + delegate the difference
    have hacc := mintS_accepts (a := e - cur) hv (by omega) hT hS hd0 hdS (by omega) (by
      have : (s.k.val key.2).shares * (e - cur + 1) ≤ (s.k.val key.2).shares * (e + 1) :=
        Int.mul_le_mul_of_nonneg_left (by omega) (Int.le_of_lt hS)
      omega)
    obtain ⟨s1, hs1⟩ := hacc
    rcases hm with hm | ⟨_, err, _, herr⟩
    · obtain ⟨m1, m2⟩ := mintS_stakeQ_own hT hS hd0 hdS hm
      obtain ⟨i, _, _, hi, _, _, hd', _⟩ := mintS_effect hT hS hm
      have hcast : ((e - cur : Int) : ℚ) = (e : ℚ) - cur := by push_cast; ring
      rw [hcast] at m1 m2
      refine Or.inr ⟨?_, ?_, ?_⟩
      · rintro ⟨d, c, _, hc', hlt', _⟩
        rw [hcur] at hc'; injection hc' with hc'; omega
      · linarith
      · rw [if_neg (by rw [shOf_of_some hd']; omega)]; linarith
    · rw [hs1] at herr; cases herr
  · -- force-undelegate + burn the difference
    cases hd : s.k.dsh key with
    | none =>
      rw [currentS_none hd] at hcur; injection hcur with hcur; omega
    | some d =>
      have ed : shOf s.k key = d := shOf_of_some hd
      rw [ed] at hd0 hdS
      obtain ⟨t, ht, hr2, hcI⟩ := currentS_spec hd hcur
      rcases hb with hb | ⟨hs', err, hne, herr⟩
      · obtain ⟨b1, b2, b3, b4, b5, b6⟩ := burnS_stakeQ_own hT hS hd hd0 hdS hb
        have hcast : ((cur - e : Int) : ℚ) = (cur : ℚ) - e := by push_cast; ring
        rw [hcast] at b1 b2 b6
        refine Or.inr ⟨?_, ?_, ?_⟩
        · rintro ⟨d', c, hd', hc', _, hrej⟩
          rw [hcur] at hc'; injection hc' with hc'; subst hc'
          rw [hd] at hd'; injection hd' with hd'; subst hd'
          exact burnS_rejects hT hS hd (by omega) hrej hb
        · linarith
        · by_cases hlt : shOf s'.k key < shOf s.k key
          · rw [if_pos hlt]; linarith
          · rw [if_neg hlt]
            obtain ⟨c1, c2⟩ := b6 (by omega)
            rw [c1]; linarith
      · -- the burn failed and was only logged: the only such failure is "invalid shares amount"
        have hrej := burnS_error_is_rejection hv hT hS hd hd0 hdS hSdec (by omega) (by omega) herr hne
        obtain ⟨q, q1, q2, hr1, _, _⟩ := tokensFromShares_spec (Int.le_of_lt hT) hS hd0 ht
        obtain ⟨cb1, _⟩ := RefreshArith.cur_bounds P18_pos hS q1 q2 hr1 hr2
        have hrej' : (d + 1) * (s.k.val key.2).tokens ≤ (cur - e) * (s.k.val key.2).shares := by
          rw [Int.mul_comm (cur - e)]; exact hrej
        have hez : e ≤ 0 := RefreshArith.reject_expected_zero (by decide) hS hT cb1 hrej'
        have he00 : e = 0 := by omega
        have hle := RefreshArith.reject_stake_le he0 hS hrej'
        refine Or.inl ⟨⟨d, cur, hd, hcur, hgt, hrej⟩, hs', he00, cur, hcur, by omega, by linarith, ?_⟩
        have c : ((d * (s.k.val key.2).tokens + (s.k.val key.2).tokens : Int) : ℚ) ≤ ((cur * (s.k.val key.2).shares : Int) : ℚ) := by
          exact_mod_cast hle
        push_cast at c
        have hSq : (0 : ℚ) < ((s.k.val key.2).shares : ℚ) := by exact_mod_cast hS
        unfold stakeQ rateQ
        rw [ed, le_sub_iff_add_le, ← add_div, div_le_iff₀ hSq]
        exact c

/-- **exactly when the force-undelegation is rejected**: in the branch `expected < currentAmount`, on a healthy
validator inside the ranges, `forceUndelegateAndBurnOsmoTokens` fails (the refresh logs "invalid shares amount" and goes
on) if and only if `S·(cur − e) ≥ (d+1)·T`. -/
theorem burn_rejected_iff {s : SState} {key : AccKey} {d cur e : Int} (hv : key.2 ∈ s.b.validators)
    (hT : 0 < (s.k.val key.2).tokens) (hS : 0 < (s.k.val key.2).shares) (hd : s.k.dsh key = some d)
    (hd0 : 0 ≤ d) (hdS : d ≤ (s.k.val key.2).shares) (hSr : (s.k.val key.2).shares ≤ decUpper)
    (hcur : currentS s key = some cur) (hgt : e < cur) (he0 : 0 ≤ e)
    (hr : (s.k.val key.2).shares * (cur - e) ≤ decUpper) :
    (∀ s', burnS s (cur - e) key ≠ .ok s') ↔ (d + 1) * (s.k.val key.2).tokens ≤ (s.k.val key.2).shares * (cur - e) := by
  obtain ⟨_, _, _, hcI⟩ := currentS_spec hd hcur
  constructor
  · intro h
    by_contra hacc
    obtain ⟨s', hs'⟩ := burnS_accepts hv hT hS hd hd0 hdS hSr (by omega) (by omega) hr (by omega)
    exact h s' hs'
  · intro hrej s'
    exact burnS_rejects hT hS hd (by omega) hrej

end OsmoVerif.Superfluid
