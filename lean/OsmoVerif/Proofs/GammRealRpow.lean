/- A perturbation lemma for real powers (Mathlib reals): how far `b^e` moves when base and exponent are replaced by
nearby `B`, `E`.  Elementary (no mean value theorem): `b^e = exp(e·ln b)`, `|exp u − exp v| ≤ max(exp u, exp v)·|u − v|`
and `ln x ≤ x − 1`. -/
import Mathlib.Analysis.SpecialFunctions.Pow.Real
import Mathlib.Tactic.Linarith
import Mathlib.Tactic.Ring
import Mathlib.Tactic.Positivity
import Mathlib.Tactic.NormNum
import Mathlib.Tactic.FieldSimp

namespace OsmoVerif.GammMath
open Real

/-- `|exp u − exp v| ≤ M·|u − v|` when both exponentials are at most `M`. -/
theorem exp_sub_abs_le {u v M : ℝ} (hu : exp u ≤ M) (hv : exp v ≤ M) : |exp u - exp v| ≤ M * |u - v| := by
  have key : ∀ u v : ℝ, v ≤ u → exp u ≤ M → exp u - exp v ≤ M * (u - v) := by
    intro u v hle hu
    have h1 : exp v = exp u * exp (v - u) := by rw [← Real.exp_add]; congr 1; ring
    have h2 : (v - u) + 1 ≤ exp (v - u) := Real.add_one_le_exp _
    have h3 : 0 < exp u := Real.exp_pos _
    have : exp u - exp v ≤ exp u * (u - v) := by rw [h1]; nlinarith
    have : exp u * (u - v) ≤ M * (u - v) := mul_le_mul_of_nonneg_right hu (by linarith)
    linarith
  rcases le_total v u with h | h
  · have h0 : exp v ≤ exp u := Real.exp_le_exp.mpr h
    rw [abs_of_nonneg (by linarith), abs_of_nonneg (by linarith)]
    exact key u v h hu
  · have h0 : exp u ≤ exp v := Real.exp_le_exp.mpr h
    rw [abs_of_nonpos (by linarith), abs_of_nonpos (by linarith)]
    have := key v u h hv
    linarith

/-- `|ln b − ln B| ≤ |b − B|/β` when both are at least `β > 0`. -/
theorem log_sub_abs_le {b B β : ℝ} (hβ : 0 < β) (hb : β ≤ b) (hB : β ≤ B) : |log b - log B| ≤ |b - B| / β := by
  have key : ∀ b B : ℝ, β ≤ b → β ≤ B → log b - log B ≤ |b - B| / β := by
    intro b B hb hB
    have hb0 : 0 < b := by linarith
    have hB0 : 0 < B := by linarith
    rw [← Real.log_div hb0.ne' hB0.ne']
    have h1 := Real.log_le_sub_one_of_pos (div_pos hb0 hB0)
    have e : b / B - 1 = (b - B) / B := by field_simp
    rw [e] at h1
    have h2 : (b - B) / B ≤ |b - B| / B := div_le_div_of_nonneg_right (le_abs_self _) hB0.le
    have h3 : |b - B| / B ≤ |b - B| / β := div_le_div_of_nonneg_left (abs_nonneg _) hβ hB
    linarith
  rw [abs_le]
  constructor
  · have := key B b hB hb
    rw [abs_sub_comm] at this; linarith
  · exact key b B hb hB

/-- `|ln B| ≤ 1/β` for `β ≤ B ≤ 2`, `β ≤ 1`. -/
theorem log_abs_le {B β : ℝ} (hβ : 0 < β) (hβ1 : β ≤ 1) (hB : β ≤ B) (hB2 : B ≤ 2) : |log B| ≤ 1 / β := by
  have hB0 : 0 < B := by linarith
  have h1 : 1 ≤ 1 / β := by rw [le_div_iff₀ hβ]; linarith
  rw [abs_le]
  constructor
  · have := Real.log_le_sub_one_of_pos (inv_pos.mpr hB0)
    rw [Real.log_inv] at this
    have h2 : B⁻¹ ≤ 1 / β := by rw [inv_eq_one_div]; exact div_le_div_of_nonneg_left zero_le_one hβ hB
    linarith
  · have := Real.log_le_sub_one_of_pos hB0
    linarith

/-- a power with base in `(0, 2]` and exponent in `[0, M]` is at most `2^M`. -/
theorem rpow_le_two_pow {b e M : ℝ} (hb : 0 < b) (hb2 : b ≤ 2) (he : 0 ≤ e) (heM : e ≤ M) : b ^ e ≤ (2 : ℝ) ^ M :=
  le_trans (Real.rpow_le_rpow hb.le hb2 he) (Real.rpow_le_rpow_of_exponent_le (by norm_num) heM)

/-- PERTURBATION of a real power in base and exponent: for bases in `[β, 2]` (`0 < β ≤ 1`) and exponents in
`[0, M]`,  `|b^e − B^E| ≤ 2^M·(M·|b − B| + |e − E|)/β`. -/
theorem rpow_perturb {b B e E β M κ₁ κ₂ : ℝ} (hβ : 0 < β) (hβ1 : β ≤ 1) (hb : β ≤ b) (hB : β ≤ B)
    (hb2 : b ≤ 2) (hB2 : B ≤ 2) (he0 : 0 ≤ e) (hE0 : 0 ≤ E) (heM : e ≤ M) (hEM : E ≤ M)
    (h1 : |b - B| ≤ κ₁) (h2 : |e - E| ≤ κ₂) :
    |b ^ e - B ^ E| ≤ (2 : ℝ) ^ M * (M * κ₁ + κ₂) / β := by
  have hb0 : 0 < b := by linarith
  have hB0 : 0 < B := by linarith
  have hM0 : 0 ≤ M := by linarith
  have m1 := rpow_le_two_pow hb0 hb2 he0 heM
  have m2 := rpow_le_two_pow hB0 hB2 hE0 hEM
  rw [Real.rpow_def_of_pos hb0, Real.rpow_def_of_pos hB0] at *
  have h3 := exp_sub_abs_le m1 m2
  have l1 := log_sub_abs_le hβ hb hB
  have l2 := log_abs_le hβ hβ1 hB hB2
  have hpow : 0 < (2 : ℝ) ^ M := Real.rpow_pos_of_pos (by norm_num) _
  -- |e·ln b − E·ln B| ≤ e·|ln b − ln B| + |e − E|·|ln B|
  have e1 : log b * e - log B * E = e * (log b - log B) + (e - E) * log B := by ring
  have h4 : |log b * e - log B * E| ≤ (M * κ₁ + κ₂) / β := by
    rw [e1]
    refine le_trans (abs_add_le _ _) ?_
    rw [abs_mul, abs_mul, abs_of_nonneg he0]
    have a1 : e * |log b - log B| ≤ M * (κ₁ / β) := by
      apply mul_le_mul heM (le_trans l1 (div_le_div_of_nonneg_right h1 hβ.le)) (abs_nonneg _) hM0
    have a2 : |e - E| * |log B| ≤ κ₂ * (1 / β) := by
      apply mul_le_mul h2 l2 (abs_nonneg _) (le_trans (abs_nonneg _) h2)
    have e2 : (M * κ₁ + κ₂) / β = M * (κ₁ / β) + κ₂ * (1 / β) := by field_simp
    rw [e2]; linarith
  calc |exp (log b * e) - exp (log B * E)| ≤ (2 : ℝ) ^ M * |log b * e - log B * E| := h3
    _ ≤ (2 : ℝ) ^ M * ((M * κ₁ + κ₂) / β) := mul_le_mul_of_nonneg_left h4 hpow.le
    _ = (2 : ℝ) ^ M * (M * κ₁ + κ₂) / β := by ring

end OsmoVerif.GammMath
