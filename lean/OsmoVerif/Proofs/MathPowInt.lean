/-
`LegacyDec.Power(n)` (square-and-multiply, every product half-even at 18 decimals): RELATIVE error analysis over Mathlib
reals (nothing here is used by the executable model).  With `b` the value of the base, `β = max 1 b` and `h = 1/2·10^-18`:
each intermediate `d ≈ b^m`, `tmp ≈ b^t` carries an error `≤ β^m·((1+h)^k − 1)` where `k` counts the roundings that
entered it (`k ≤ m − 1` for `d`, `k ≤ t` for `tmp`); a rounded product of two such values has
`k = k₁ + k₂ + 1`.  Hence `|Power(n) − b^n| ≤ β^n·((1+h)^n − 1) ≤ β^n·n·10^-18` (for `n ≤ 10^18`), and no product leaves
the `LegacyDec` range while `(β·(1+h))^n ≤ 10^40`.
-/
import OsmoVerif.Proofs.MathPowNum
import Mathlib.Tactic.Positivity
import Mathlib.Tactic.GCongr

namespace OsmoVerif.MathM
open OsmoVerif.Num OsmoVerif.Gen OsmoVerif.GammMath

/-- a rounded product of two approximations with relative error factors `A`, `B`: factor `A·B·(1+h)`. -/
theorem relprod {x y X Y Gx Gy A B h r : ℝ} (hX : |X| ≤ Gx) (hY : |Y| ≤ Gy) (hA : 1 ≤ A) (hB : 1 ≤ B)
    (hG : 1 ≤ Gx * Gy) (hGx : 0 ≤ Gx) (hGy : 0 ≤ Gy) (h0 : 0 ≤ h) (hx : |x - X| ≤ Gx * (A - 1))
    (hy : |y - Y| ≤ Gy * (B - 1)) (hr : |r - x * y| ≤ h) : |r - X * Y| ≤ Gx * Gy * (A * B * (1 + h) - 1) := by
  have hyabs : |y| ≤ Gy * B := by
    have := abs_add_le (y - Y) Y
    rw [sub_add_cancel] at this
    linarith only [this, hy, hY]
  have e : r - X * Y = (r - x * y) + (x - X) * y + X * (y - Y) := by ring
  have h1 : |(x - X) * y| ≤ Gx * (A - 1) * (Gy * B) := by
    rw [abs_mul]; exact mul_le_mul hx hyabs (abs_nonneg _) (by nlinarith only [hGx, hA])
  have h2 : |X * (y - Y)| ≤ Gx * (Gy * (B - 1)) := by
    rw [abs_mul]; exact mul_le_mul hX hy (abs_nonneg _) hGx
  have h3 := abs_add_three (r - x * y) ((x - X) * y) (X * (y - Y))
  rw [← e] at h3
  have hAB : 1 ≤ A * B := by nlinarith only [hA, hB]
  have h4 : h ≤ Gx * Gy * (A * B * h) := by
    have : 1 * (1 * h) ≤ Gx * Gy * (A * B * h) :=
      mul_le_mul hG (mul_le_mul_of_nonneg_right hAB h0) (by positivity) (by positivity)
    linarith only [this]
  have e2 : Gx * Gy * (A * B * (1 + h) - 1) =
      Gx * (A - 1) * (Gy * B) + Gx * (Gy * (B - 1)) + Gx * Gy * (A * B * h) := by ring
  rw [e2]
  linarith only [h1, h2, h3, h4, hr]

theorem relabs {x X G A : ℝ} (hX : |X| ≤ G) (hx : |x - X| ≤ G * (A - 1)) : |x| ≤ G * A := by
  have := abs_add_le (x - X) X
  rw [sub_add_cancel] at this
  linarith only [this, hx, hX]

/-- one round of the loop as equations. -/
theorem decPowLoop_odd {f i : Nat} {d tmp t' d' : Int} (hi : i > 1) (ho : i % 2 ≠ 0)
    (h1 : Dec.mul tmp d = some t') (h2 : Dec.mul d d = some d') :
    decPowLoop (f + 1) i d tmp = decPowLoop f (i / 2) d' t' := by
  rw [decPowLoop, if_pos hi, if_pos ho, h1, h2]; rfl

theorem decPowLoop_even {f i : Nat} {d tmp d' : Int} (hi : i > 1) (ho : ¬ i % 2 ≠ 0)
    (h2 : Dec.mul d d = some d') :
    decPowLoop (f + 1) i d tmp = decPowLoop f (i / 2) d' tmp := by
  rw [decPowLoop, if_pos hi, if_neg ho, h2]; rfl

theorem decPowLoop_done {f i : Nat} {d tmp : Int} (hi : ¬ i > 1) :
    decPowLoop (f + 1) i d tmp = some (d, tmp) := by
  rw [decPowLoop, if_neg hi]

section
variable {b β : ℝ} (hb0 : 0 ≤ b) (hbβ : b ≤ β) (hβ : 1 ≤ β)
include hb0 hbβ hβ

theorem abs_pow_le_env (m : ℕ) : |b ^ m| ≤ β ^ m := by
  rw [abs_of_nonneg (by positivity)]; exact pow_le_pow_left₀ hb0 hbβ m

/-- a rounded product inside the loop: it succeeds and its error exponent is `ka + kb + 1`. -/
theorem decPow_mul {x y : Int} {ma mb ka kb n : ℕ} (hka : ka ≤ ma) (hkb : kb ≤ mb) (hn : ma + mb ≤ n)
    (hbig : (β * (1 + mulErr)) ^ n ≤ 10 ^ 40)
    (hx : |dv x - b ^ ma| ≤ β ^ ma * ((1 + mulErr) ^ ka - 1))
    (hy : |dv y - b ^ mb| ≤ β ^ mb * ((1 + mulErr) ^ kb - 1)) :
    ∃ r, Dec.mul x y = some r ∧
      |dv r - b ^ (ma + mb)| ≤ β ^ (ma + mb) * ((1 + mulErr) ^ (ka + kb + 1) - 1) := by
  have hh := mulErr_pos
  have h1h : (1 : ℝ) ≤ 1 + mulErr := by linarith
  have hβ0 : (0 : ℝ) ≤ β := by linarith
  have hA : (1 : ℝ) ≤ (1 + mulErr) ^ ka := one_le_pow₀ h1h
  have hB : (1 : ℝ) ≤ (1 + mulErr) ^ kb := one_le_pow₀ h1h
  have hxa := relabs (abs_pow_le_env hb0 hbβ hβ ma) hx
  have hya := relabs (abs_pow_le_env hb0 hbβ hβ mb) hy
  have hγ : (1 : ℝ) ≤ β * (1 + mulErr) := by nlinarith only [hβ, h1h]
  have htot : |dv x * dv y| ≤ 10 ^ 40 := by
    rw [abs_mul]
    calc |dv x| * |dv y| ≤ (β ^ ma * (1 + mulErr) ^ ka) * (β ^ mb * (1 + mulErr) ^ kb) :=
          mul_le_mul hxa hya (abs_nonneg _) (by positivity)
      _ ≤ (β ^ ma * (1 + mulErr) ^ ma) * (β ^ mb * (1 + mulErr) ^ mb) := by
          gcongr
      _ = (β * (1 + mulErr)) ^ (ma + mb) := by rw [pow_add, mul_pow, mul_pow]
      _ ≤ (β * (1 + mulErr)) ^ n := pow_le_pow_right₀ hγ hn
      _ ≤ 10 ^ 40 := hbig
  obtain ⟨r, hr⟩ := Dec_mul_total htot
  refine ⟨r, hr, ?_⟩
  have e := Dec_mul_dv_error hr
  have hG : (1 : ℝ) ≤ β ^ ma * β ^ mb := by
    rw [← pow_add]; exact one_le_pow₀ hβ
  have := relprod (abs_pow_le_env hb0 hbβ hβ ma) (abs_pow_le_env hb0 hbβ hβ mb) hA hB hG (by positivity)
    (by positivity) hh.le hx hy e
  rw [pow_add, pow_add β, pow_succ, pow_add (1 + mulErr)]
  exact this

/-- the square-and-multiply loop: invariant `i·m + t = n`, `d ≈ b^m`, `tmp ≈ b^t`. -/
theorem decPowLoop_spec {n : ℕ} (hbig : (β * (1 + mulErr)) ^ n ≤ 10 ^ 40) :
    ∀ (f i : ℕ) (d tmp : Int) (m t kd kt : ℕ), i < 2 ^ f → 1 ≤ i → i * m + t = n → kd + 1 ≤ m → kt ≤ t →
      |dv d - b ^ m| ≤ β ^ m * ((1 + mulErr) ^ kd - 1) → |dv tmp - b ^ t| ≤ β ^ t * ((1 + mulErr) ^ kt - 1) →
      ∃ d' tmp' m' t' kd' kt', decPowLoop f i d tmp = some (d', tmp') ∧ m' + t' = n ∧ kd' + 1 ≤ m' ∧ kt' ≤ t' ∧
        |dv d' - b ^ m'| ≤ β ^ m' * ((1 + mulErr) ^ kd' - 1) ∧
        |dv tmp' - b ^ t'| ≤ β ^ t' * ((1 + mulErr) ^ kt' - 1) := by
  intro f
  induction f with
  | zero => intro i _ _ _ _ _ _ h1 h2; omega
  | succ f ih =>
    intro i d tmp m t kd kt hi hi1 hn hkd hkt hd ht
    by_cases h1 : i > 1
    · -- the square `d·d`
      have hmm : m + m ≤ n := by
        have : 2 * m ≤ i * m := Nat.mul_le_mul_right m h1
        omega
      obtain ⟨d', hd', ed'⟩ := decPow_mul hb0 hbβ hβ (n := n) (by omega : kd ≤ m) (by omega : kd ≤ m) hmm hbig hd hd
      have hi2 : i / 2 < 2 ^ f := by
        rw [pow_succ] at hi; omega
      have hi3 : 1 ≤ i / 2 := by omega
      by_cases ho : i % 2 ≠ 0
      · have hmt : t + m ≤ n := by
          have : 1 * m ≤ i * m := Nat.mul_le_mul_right m hi1
          omega
        obtain ⟨t', ht', et'⟩ := decPow_mul hb0 hbβ hβ (n := n) hkt (by omega : kd ≤ m) hmt hbig ht hd
        rw [decPowLoop_odd h1 ho ht' hd']
        apply ih (i / 2) d' t' (m + m) (t + m) (kd + kd + 1) (kt + kd + 1) hi2 hi3 _ (by omega) (by omega) ed' et'
        have : i = 2 * (i / 2) + 1 := by omega
        calc i / 2 * (m + m) + (t + m) = (2 * (i / 2) + 1) * m + t := by ring
          _ = n := by rw [← this]; exact hn
      · rw [decPowLoop_even h1 ho hd']
        apply ih (i / 2) d' tmp (m + m) t (kd + kd + 1) kt hi2 hi3 _ (by omega) hkt ed' ht
        have : i = 2 * (i / 2) := by omega
        calc i / 2 * (m + m) + t = (2 * (i / 2)) * m + t := by ring
          _ = n := by rw [← this]; exact hn
    · rw [decPowLoop_done h1]
      have : i = 1 := by omega
      subst this
      exact ⟨d, tmp, m, t, kd, kt, rfl, by omega, hkd, hkt, hd, ht⟩

/-- `LegacyDec.Power(n)`: returns, within `β^n·((1+h)^n − 1)` of `b^n`. -/
theorem decPower_spec {base : Int} {n : ℕ} (hbase : dv base = b) (hn : n < 2 ^ 64)
    (hbig : (β * (1 + mulErr)) ^ n ≤ 10 ^ 40) :
    ∃ r, decPower base n = some r ∧ |dv r - b ^ n| ≤ β ^ n * ((1 + mulErr) ^ n - 1) := by
  unfold decPower
  by_cases h0 : n = 0
  · rw [if_pos h0]
    exact ⟨P18, rfl, by subst h0; simp [dv_P18]⟩
  · rw [if_neg h0]
    obtain ⟨d', tmp', m', t', kd', kt', hl, hmt, hkd, hkt, hd, ht⟩ :=
      decPowLoop_spec hb0 hbβ hβ hbig 64 n base P18 1 0 0 0 hn (by omega) (by omega) (by omega) (by omega)
        (by rw [hbase]; simp) (by simp [dv_P18])
    obtain ⟨r, hr, er⟩ := decPow_mul hb0 hbβ hβ (n := n) (by omega : kd' ≤ m') hkt (by omega) hbig hd ht
    rw [hl]
    simp only [Option.bind_eq_bind, Option.bind_some, bind]
    refine ⟨r, hr, ?_⟩
    rw [hmt] at er
    have h1h : (1 : ℝ) ≤ 1 + mulErr := by have := mulErr_pos; linarith
    have hmono : (1 + mulErr) ^ (kd' + kt' + 1) ≤ (1 + mulErr) ^ n := pow_le_pow_right₀ h1h (by omega)
    have hβn : (0 : ℝ) ≤ β ^ n := by positivity
    calc _ ≤ β ^ n * ((1 + mulErr) ^ (kd' + kt' + 1) - 1) := er
      _ ≤ _ := by apply mul_le_mul_of_nonneg_left _ hβn; linarith only [hmono]

end

/-- `(1 + h)^n ≤ 1 + 2nh` while `2nh ≤ 1`. -/
theorem one_add_pow_le {h : ℝ} (h0 : 0 ≤ h) (n : ℕ) (hn : 2 * n * h ≤ 1) : (1 + h) ^ n ≤ 1 + 2 * n * h := by
  induction n with
  | zero => simp
  | succ n ih =>
    have hn' : 2 * (n : ℝ) * h ≤ 1 := by
      push_cast at hn; nlinarith only [hn, h0]
    have := ih hn'
    rw [pow_succ]
    push_cast
    have h1 : (1 + h) ^ n * (1 + h) ≤ (1 + 2 * n * h) * (1 + h) := by gcongr
    nlinarith only [h1, hn', h0]

end OsmoVerif.MathM
