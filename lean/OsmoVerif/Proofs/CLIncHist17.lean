/-
C08 (incentives, histories) helpers, part 17: the parts of a claim against the exact entitlements — per accumulator,
2 · (scaled-down coins) · factor · 10¹⁸ ≤ 2 · entitlement + 10¹⁸ (the half unit is the half-even `MulDec` rounding of the
settlement).  Core only.
-/
import OsmoVerif.Proofs.CLIncHist16

namespace OsmoVerif.CLIncP
open OsmoVerif.Num OsmoVerif.CL OsmoVerif.CLPool OsmoVerif.CLFees OsmoVerif.CLInc OsmoVerif.CLFeesP OsmoVerif.CLBook
open OsmoVerif.Accum (amt sorted hev)
open OsmoVerif.Gen

theorem coinsAddAll_nonneg : ∀ (cs acc r : Coins), (∀ c ∈ acc, 0 ≤ c.2) → (∀ c ∈ cs, 0 ≤ c.2) → coinsAddAll acc cs = some r →
    ∀ c ∈ r, 0 ≤ c.2 := by
  intro cs
  induction cs with
  | nil => intro acc r ha _ h; simp only [coinsAddAll, Option.some.injEq] at h; subst h; exact ha
  | cons c t ih =>
    obtain ⟨e, x⟩ := c
    intro acc r ha hc h
    simp only [coinsAddAll, Option.bind_eq_some_iff] at h
    obtain ⟨a, hadd, hrest⟩ := h
    exact ih a r (coinsAdd_nonneg acc e x a ha (hc (e, x) List.mem_cons_self) hadd) (fun c h' => hc c (List.mem_cons_of_mem _ h')) hrest

theorem scaleDownCoins_nonneg (factor : Int) : ∀ (cs down : Coins), scaleDownCoins factor cs = some down → ∀ c ∈ down, 0 ≤ c.2 := by
  intro cs
  induction cs with
  | nil => intro down h c hc; simp only [scaleDownCoins, Option.some.injEq] at h; subst h; cases hc
  | cons x t ih =>
    obtain ⟨e, y⟩ := x
    intro down h c hc
    simp only [scaleDownCoins, Option.bind_eq_some_iff, Option.map_eq_some_iff] at h
    obtain ⟨z, _, r, hr, e'⟩ := h
    subst e'
    split at hc
    · rcases List.mem_cons.mp hc with rfl | hc
      · simp only; omega
      · exact ih r hr c hc
    · exact ih r hr c hc

theorem claimLoop_nonneg {factor age : Int} {id : Nat} :
    ∀ (accs : List UAcc) (outs : List DC) (ups : List Int) (accs' : List UAcc) (coll forf : Coins) (byUp : List Coins),
      claimLoop factor age id accs outs ups = some (accs', coll, forf, byUp) →
      (∀ c ∈ coll, 0 ≤ c.2) ∧ (∀ c ∈ forf, 0 ≤ c.2) := by
  intro accs
  induction accs with
  | nil =>
    intro outs ups accs' coll forf byUp h
    cases outs <;> cases ups <;> simp only [claimLoop, Option.some.injEq, Prod.mk.injEq, reduceCtorEq] at h
    obtain ⟨_, e1, e2, _⟩ := h
    subst e1; subst e2
    exact ⟨fun c hc => (by cases hc), fun c hc => (by cases hc)⟩
  | cons a as ih =>
    intro outs ups accs' coll forf byUp h
    cases outs with
    | nil => simp [claimLoop] at h
    | cons o os =>
      cases ups with
      | nil => simp [claimLoop] at h
      | cons up ups' =>
        simp only [claimLoop, Option.bind_eq_some_iff] at h
        obtain ⟨⟨a', scaled⟩, _, down, hdown, ⟨as', coll0, forf0, byUp0⟩, hrest, h⟩ := h
        simp only at h hdown
        obtain ⟨i1, i2⟩ := ih os ups' as' coll0 forf0 byUp0 hrest
        have hdn := scaleDownCoins_nonneg factor scaled down hdown
        split at h
        · simp only [Option.map_eq_some_iff, Prod.mk.injEq] at h
          obtain ⟨forf', hadd, _, e1, e2, _⟩ := h
          subst e1; subst e2
          exact ⟨i1, coinsAddAll_nonneg _ _ _ i2 hdn hadd⟩
        · simp only [Option.map_eq_some_iff, Prod.mk.injEq] at h
          obtain ⟨coll', hadd, _, e1, e2, _⟩ := h
          subst e1; subst e2
          exact ⟨coinsAddAll_nonneg _ _ _ i1 hdn hadd, i2⟩

/-- the raw total of accumulator `k` for record `r` at growth inside `X`. -/
def rawTotal (r : URec) (X : Int) (d : String) : Int := amt r.unclaimed d + hev r.shares (X - amt r.snap d)

/-- per accumulator: the claim part against the raw total, and what is handed to the re-deposit. -/
theorem claim_parts {f : Fees} {i i2 : Inc} {pos : Position} {coll forf : Coins} {byUp : List Coins} {T : Int}
    (hf : FullInv f) (hp : IncPart f i) (hmem : pos ∈ f.pool.positions) (hT : joinOf i pos.id = some T)
    (hclaim : claimAll i f.pool.tick pos.lower pos.upper pos.id = some (i2, coll, forf, byUp)) (d : String) :
    (∀ c ∈ coll, 0 ≤ c.2) ∧ (∀ c ∈ forf, 0 ≤ c.2) ∧
    ∀ k, k < 6 → ∃ (r : URec) (cs : Coins), getURec (accAt i k).recs pos.id = some r ∧ r.shares = pos.liq ∧
      0 ≤ insU i f.pool.tick k d pos.lower pos.upper - amt r.snap d ∧
      0 ≤ rawTotal r (insU i f.pool.tick k d pos.lower pos.upper) d ∧
      0 ≤ claimPart i f.pool.tick pos.lower pos.upper pos.id k d ∧
      claimPart i f.pool.tick pos.lower pos.upper pos.id k d * i.factor ≤
        (rawTotal r (insU i f.pool.tick k d pos.lower pos.upper) d).tdiv P18 * P18 ∧
      byUp[k]? = some cs ∧
      amt cs d = (if i.now - T < upAt k then (rawTotal r (insU i f.pool.tick k d pos.lower pos.upper) d).tdiv P18 else 0) := by
  have hlu := hf.pool.core.pos.range pos hmem
  have hliqpos := hf.pool.core.pos.liqPos pos hmem
  have hs1 := hp.sortedInc
  obtain ⟨sl, su⟩ := hp.stored pos hmem
  obtain ⟨tl, htl⟩ := Option.isSome_iff_exists.mp sl
  obtain ⟨tu, htu⟩ := Option.isSome_iff_exists.mp su
  obtain ⟨_, _, T', hj, _, hloop, _⟩ := claimAll_stage hlu hs1 htl htu hclaim
  have hT' : T' = T := by unfold joinOf at hT; rw [hj] at hT; injection hT
  subst hT'
  have houts : ∃ outs, outsideAll i f.pool.tick pos.lower pos.upper = some outs := by
    unfold claimAll at hclaim
    simp only [Option.bind_eq_some_iff] at hclaim
    obtain ⟨_, _, h⟩ := hclaim
    split at h
    · cases h
    · simp only [Option.bind_eq_some_iff] at h
      obtain ⟨outs, ho, _⟩ := h
      exact ⟨outs, ho⟩
  obtain ⟨outs, ho⟩ := houts
  rw [ho] at hloop
  simp only [Option.getD_some] at hloop
  obtain ⟨n1, n2⟩ := claimLoop_nonneg _ _ _ _ _ _ _ hloop
  refine ⟨n1, n2, fun k hk => ?_⟩
  obtain ⟨_, _, _, _, hget⟩ := claimLoop_get hloop
  obtain ⟨a, ha, hm⟩ := hp.get hk
  obtain ⟨a', o, up, scaled, down, _, h2, h3, h4, h5, h6⟩ := hget k a ha
  have ok := hp.accs a hm
  obtain ⟨r, hr, hsh⟩ := ok.recs pos hmem
  obtain ⟨ss, su'⟩ := ok.sortedR pos.id r hr
  obtain ⟨o', ho2, hso, hamt⟩ := outsideAll_sorted hlu hs1 htl htu ho k a ha
  rw [h2] at ho2; injection ho2 with ho2; subst ho2
  obtain ⟨total, ins, _, _, _, _, _, _, c7⟩ := claimOne_eff hr (by omega) ok.sortedV ss su' hso hamt h4
  obtain ⟨t1, t2, t3, t4⟩ := c7 d
  have hraw : rawTotal r (insU i f.pool.tick k d pos.lower pos.upper) d = amt total d := by unfold rawTotal; rw [t1]
  have hpart : claimPart i f.pool.tick pos.lower pos.upper pos.id k d = amt down d := by
    unfold claimPart downOf
    rw [ho, accAt_of ha]
    simp only [Option.getD_some, h2, h4, h5]
  obtain ⟨d0, d1⟩ := scaleDownCoins_le hp.factor d scaled down (claimOne_coins_nonneg h4) h5
  have hup : upAt k = up := by unfold upAt; rw [h3]; rfl
  have hsome : (getURec a.recs pos.id).isSome = true := by rw [hr]; rfl
  simp only [hsome, true_and] at h6
  refine ⟨r, _, by rw [accAt_of ha]; exact hr, hsh, t2, by rw [hraw]; exact t4, by rw [hpart]; exact d0,
    by rw [hpart, hraw, ← t3]; exact d1, h6, ?_⟩
  rw [hup, hraw]
  split
  · exact t3
  · rfl

/-- entitlement of the claimed position in accumulator `k` against its raw total: `2·total·10¹⁸ ≤ 2·entitlement + 10¹⁸`. -/
theorem rawTotal_le_ent {s : Full} {k : Nat} {d : String} {q : Position} {r : URec}
    (hr : getURec (accAt s.inc k).recs q.id = some r) (hsh : 0 ≤ r.shares)
    (hx : 0 ≤ insU s.inc s.fees.pool.tick k d q.lower q.upper - amt r.snap d) :
    2 * (rawTotal r (insU s.inc s.fees.pool.tick k d q.lower q.upper) d * P18) ≤ 2 * ent s d k q + P18 := by
  unfold ent rawTotal
  rw [hr]
  simp only
  have := settle_bound hx hsh
  unfold hev
  rw [Int.add_mul]
  omega

end OsmoVerif.CLIncP
