/-
C03 with a caller-supplied price limit, part 6: HOW FAR the price can pass the limit.
* exact-out, zero-for-one: never (`run_within_limit_out_zfo`).
* exact-in: by less than what ONE whole token of the token paid in moves the price — the amount needed to reach the
  target is rounded up to a whole token, and a remaining amount between the exact need and that whole token takes the
  "target not reached" branch with more than the exact need:
    one-for-zero  `(next − target)·liq < 10^54`            (exact token1 amount between target and next < 1 token),
    zero-for-one  `exact0 liq next target < 10^18 + gain0`  (exact token0 amount between next and target < 1 token + 10^-24).
-/
import OsmoVerif.Proofs.CLLimit4

namespace OsmoVerif.CLLimit
open OsmoVerif.CLPool OsmoVerif.CLBook OsmoVerif.CLSolv OsmoVerif.CL OsmoVerif.Num OsmoVerif.Tick OsmoVerif.Gen
open OsmoVerif.Spec OsmoVerif.Props

/-! ## exact-out, zero-for-one -/

theorem run_within_limit_out_zfo {spf limit : Int} {st st' : SwapSt} {tr : List StepRec}
    (h : Run false true spf limit st tr st') (hall : ∀ e ∈ tr, RecGoodL false true limit e)
    (hside : LimSide true limit st.pool.sqrtPrice) : LimSide true limit st'.pool.sqrtPrice := by
  induction h with
  | nil st => exact hside
  | @cons st st1 st2 target r tr hrem htgt hstep hadv hrun ih =>
    apply ih (fun e he => hall e (List.mem_cons_of_mem _ he))
    obtain ⟨⟨⟨hliq, _⟩, hsp, hn, hdir⟩, _, hsT⟩ := hall _ List.mem_cons_self
    simp only [↓reduceIte] at hdir
    unfold LimSide at hsT ⊢
    simp only [↓reduceIte] at hsT ⊢
    unfold stepOf at hstep
    simp only [Bool.false_eq_true, ↓reduceIte] at hstep
    have := stepInGivenOut_zfo_nopass hliq hsp (by omega) (by omega) hdir.2.1 hstep
    rw [hadv.1]; omega

/-! ## exact-in, one-for-zero -/

theorem stepOutGivenIn_ofz_pass_bound {spf sp target liq remaining : Int} {r : StepResult}
    (hl : 0 ≤ liq) (hs1 : spf < P18) (hrem : 0 ≤ remaining) (hdir : sp ≤ target)
    (h : stepOutGivenIn false spf sp target liq remaining = some r) :
    (r.sqrtPriceNext - target) * liq < P36 * P18 := by
  have hpp : 0 < P36 * P18 := Int.mul_pos P36_pos P18_pos
  obtain ⟨x, y, amtIn0, oneMinus, _, _, _, _, _, h0, hone, hnext⟩ := stepOutGivenIn_decomp h
  subst hone
  by_cases hc : remaining * (P18 - spf) ≥ amtIn0
  · rw [if_pos hc] at hnext
    injection hnext with e
    rw [← e, Int.sub_self, Int.zero_mul]; exact hpp
  · rw [if_neg hc] at hnext
    simp only [Bool.false_eq_true, ↓reduceIte] at hnext
    rw [nextSqrtPriceAmount1In_eq] at hnext
    obtain ⟨q, hq, hx⟩ := Option.bind_eq_some_iff.mp hnext
    have ex := C12.add_exact hx
    have hlpos : 0 < liq := by
      rcases Int.lt_or_le 0 liq with hp | hz
      · exact hp
      · have e0 : liq = 0 := by omega
        subst e0
        unfold BigDec.quoTruncateDec at hq
        simp at hq
    have tq := quoTruncateDec_trunc_pos hlpos hq
    have hamt : 0 ≤ remaining * (P18 - spf) * P18 :=
      Int.mul_nonneg (Int.mul_nonneg hrem (by omega)) P18_nonneg
    have hq1 : q * liq ≤ remaining * (P18 - spf) * P18 := (trunc_nonneg_le hlpos hamt tq).2
    unfold deltaIn at h0
    simp only [Bool.false_eq_true, ↓reduceIte] at h0
    obtain ⟨k, ek, hk⟩ := amount1_roundUp_upper h0
    have eabs : ((sp - target).natAbs : Int) = target - sp := by omega
    rw [eabs] at hk
    have h2 : remaining * (P18 - spf) * P18 < k * P36 * P18 := by
      have : remaining * (P18 - spf) < k * P36 := by omega
      exact Int.mul_lt_mul_of_pos_right this P18_pos
    have h3 : k * P36 * P18 = (k - 1) * (P36 * P18) + P36 * P18 := by ring
    have h4 : (r.sqrtPriceNext - target) * liq = q * liq - (target - sp) * liq := by rw [ex]; ring
    omega

/-! ## exact-in, zero-for-one -/

/-- `GetNextSqrtPriceFromAmount0InRoundingUp` does not move the price further than the amount pays for. -/
theorem next0In_exact_le {sp l amt x : Int} (h : nextSqrtPriceAmount0In sp l amt = some x)
    (hl : 0 < l) (hsp : 0 < sp) (ha : 0 ≤ amt) : (sp - x) * l * P36 ≤ amt * (x * sp) := by
  have hx0 := nextSqrtPriceAmount0In_pos hsp hl ha h
  rw [nextSqrtPriceAmount0In_eq] at h
  by_cases hz : amt = 0
  · rw [if_pos hz] at h; injection h with e
    subst e; subst hz; simp
  · rw [if_neg hz] at h
    obtain ⟨product, hp, h1⟩ := Option.bind_eq_some_iff.mp h
    obtain ⟨denom, hd, h2⟩ := Option.bind_eq_some_iff.mp h1
    obtain ⟨num, hn, h3⟩ := Option.bind_eq_some_iff.mp h2
    have has : 0 ≤ amt * sp := Int.mul_nonneg ha (Int.le_of_lt hsp)
    obtain ⟨p0, hp1⟩ := trunc_nonneg_le P36_pos has (C12.mulTruncate_toward_zero hp)
    have ed := C12.add_exact hd
    have cn := C12.mulRoundUp_ceil hn
    have d0 : 0 < denom := by omega
    have cx := quoRoundUpMut_ceil_pos d0 h3
    have k1 : l * sp ≤ x * denom := by have := cn.2; have := cx.2; omega
    have k2 : (sp - x) * l ≤ x * product := by
      rw [ed] at k1
      have : (sp - x) * l = l * sp - x * l := by ring
      have : x * (product + l) = x * product + x * l := by ring
      omega
    calc (sp - x) * l * P36 ≤ x * product * P36 := Int.mul_le_mul_of_nonneg_right k2 P36_nonneg
      _ = x * (product * P36) := by ring
      _ ≤ x * (amt * sp) := Int.mul_le_mul_of_nonneg_left hp1 (Int.le_of_lt hx0)
      _ = amt * (x * sp) := by ring

/-- `L·(1/n − 1/b) = L·(1/n − 1/a) + L·(1/a − 1/b)` for `n ≤ a ≤ b`. -/
theorem exact0_add {liq n a b : Int} (hn : 0 < n) (hna : n ≤ a) (hab : a ≤ b) :
    exact0 liq n b = exact0 liq n a + exact0 liq a b := by
  rw [exact0_sorted (by omega : n ≤ b), exact0_sorted hna, exact0_sorted hab]
  have qn : (0 : ℚ) < n := by exact_mod_cast hn
  have qa : (0 : ℚ) < a := by exact_mod_cast (by omega : 0 < a)
  have qb : (0 : ℚ) < b := by exact_mod_cast (by omega : 0 < b)
  field_simp
  ring

theorem exact0_nonneg {liq a b : Int} (hl : 0 ≤ liq) (ha : 0 < a) (hab : a ≤ b) : 0 ≤ exact0 liq a b := by
  rw [exact0_sorted hab]
  have qa : (0 : ℚ) < a := by exact_mod_cast ha
  have qb : (a : ℚ) ≤ b := by exact_mod_cast hab
  have ql : (0 : ℚ) ≤ liq := by exact_mod_cast hl
  have : (0 : ℚ) < b := by linarith
  apply div_nonneg
  · have : (0 : ℚ) ≤ (b : ℚ) - a := by linarith
    positivity
  · positivity

theorem stepOutGivenIn_zfo_pass_bound {spf sp target liq remaining : Int} {r : StepResult}
    (hl : 0 ≤ liq) (hsp : 0 < sp) (ht : 0 < target) (hts : target ≤ sp) (hs1 : spf < P18) (hrem : 0 ≤ remaining)
    (h : stepOutGivenIn true spf sp target liq remaining = some r) (hpass : r.sqrtPriceNext < target) :
    exact0 liq r.sqrtPriceNext target < 10 ^ 18 + gain0 target sp := by
  have hn0 := stepOutGivenIn_next_pos' hl hsp ht hs1 hrem h
  obtain ⟨x, y, amtIn0, oneMinus, _, _, _, _, _, h0, hone, hnext⟩ := stepOutGivenIn_decomp h
  subst hone
  have hc : ¬ remaining * (P18 - spf) ≥ amtIn0 := by
    intro hc
    rw [if_pos hc] at hnext
    injection hnext with e; omega
  rw [if_neg hc] at hnext
  simp only [↓reduceIte] at hnext
  obtain ⟨l, hlb, hnx⟩ := Option.bind_eq_some_iff.mp hnext
  have el := C12.fromDec_exact hlb
  subst el
  have hamt : 0 ≤ remaining * (P18 - spf) := Int.mul_nonneg hrem (by omega)
  have hlpos : 0 < liq := by
    rcases Int.lt_or_le 0 liq with hp | hz
    · exact hp
    · have e0 : liq = 0 := by omega
      subst e0
      unfold deltaIn at h0
      simp only [↓reduceIte] at h0
      have := amount0_roundUp_zero_liq ht hsp h0
      omega
  have k1 := next0In_exact_le hnx (Int.mul_pos hlpos Pdiff_pos) hsp hamt
  unfold deltaIn at h0
  simp only [↓reduceIte] at h0
  -- the whole-token amount needed for the target, as a ceiling at 18 decimals
  obtain ⟨k, ek, k0, _⟩ := amount0_roundUp_any ht hsp hl h0
  have cS : IsCeil amtIn0 Pdiff (k * P18) := by
    rw [ek]
    have : k * P36 = (k * P18) * Pdiff := by rw [P36_eq_mul, Pdiff_eq_P18]; ring
    rw [this]
    exact ⟨by rw [Int.sub_mul]; have := Pdiff_pos; omega, Int.le_refl _⟩
  have q2 := in0_upper ht hsp h0 cS
  -- rational forms
  have qn : (0 : ℚ) < r.sqrtPriceNext := by exact_mod_cast hn0
  have qs : (0 : ℚ) < sp := by exact_mod_cast hsp
  have q1 : exact0 liq r.sqrtPriceNext sp ≤ ((remaining * (P18 - spf) : Int) : ℚ) / 10 ^ 18 := by
    rw [exact0_sorted (by omega : r.sqrtPriceNext ≤ sp)]
    rw [div_le_div_iff₀ (by positivity) (by positivity)]
    have : (((sp - r.sqrtPriceNext) * (liq * Pdiff) * P36 : Int) : ℚ) ≤
        ((remaining * (P18 - spf) * (r.sqrtPriceNext * sp) : Int) : ℚ) := Int.cast_le.mpr k1
    push_cast at this ⊢
    rw [Pdiff_cast, P36_cast] at this
    push_cast at this
    linarith
  have q3 : ((remaining * (P18 - spf) : Int) : ℚ) / 10 ^ 18 < ((k * P18 : Int) : ℚ) := by
    rw [div_lt_iff₀ (by positivity)]
    have h1 : remaining * (P18 - spf) < k * P36 := by omega
    have : ((remaining * (P18 - spf) : Int) : ℚ) < ((k * P36 : Int) : ℚ) := Int.cast_lt.mpr h1
    push_cast at this ⊢
    rw [P36_cast, P18_cast] at this
    rw [P18_cast]
    linarith
  have q4 := exact0_add (liq := liq) hn0 (by omega : r.sqrtPriceNext ≤ target) hts
  linarith

/-! ## along a run -/

/-- `L·(1/n − 1/a) ≤ L·(1/n − 1/b)` for `n ≤ a ≤ b`. -/
theorem exact0_mono_right {liq n a b : Int} (hl : 0 ≤ liq) (hn : 0 < n) (hna : n ≤ a) (hab : a ≤ b) :
    exact0 liq n a ≤ exact0 liq n b := by
  rw [exact0_add hn hna hab]
  have := exact0_nonneg hl (by omega : 0 < a) hab
  linarith

/-- bound on how far a step of an exact-in swap can end beyond the LIMIT. -/
def PassBound (zfo : Bool) (limit : Int) (e : StepRec) : Prop :=
  if zfo then
    e.res.sqrtPriceNext < limit →
      exact0 e.st.pool.liquidity e.res.sqrtPriceNext limit < 10 ^ 18 + 1 / 10 ^ 6
  else (e.res.sqrtPriceNext - limit) * e.st.pool.liquidity < P36 * P18

theorem gain0_le {p q : Int} (hp : 1000000000000000000000000000000 ≤ p) (hq : 1000000000000000000000000000000 ≤ q) :
    gain0 p q ≤ 1 / 10 ^ 6 := by
  unfold gain0
  have qp : (10 : ℚ) ^ 30 ≤ p := by exact_mod_cast hp
  have qq : (10 : ℚ) ^ 30 ≤ q := by exact_mod_cast hq
  have h1 : (10 : ℚ) ^ 54 / ((p : ℚ) * q) ≤ 10 ^ 54 / (10 ^ 30 * 10 ^ 30) :=
    div_le_div_of_nonneg_left (by positivity) (by positivity) (mul_le_mul qp qq (by positivity) (by linarith [show (0:ℚ) < 10^30 by positivity]))
  have h4 : ((10 : ℚ) ^ 54 / (10 ^ 30 * 10 ^ 30)) ≤ 1 / 10 ^ 6 := by norm_num
  linarith

theorem run_pass_bound {zfo : Bool} {spf limit : Int} {st st' : SwapSt} {tr : List StepRec}
    (hs1 : spf < P18) (h : Run true zfo spf limit st tr st') (hall : ∀ e ∈ tr, RecGoodL true zfo limit e) :
    ∀ e ∈ tr, PassBound zfo limit e := by
  intro e he
  obtain ⟨⟨⟨hliq, _⟩, hsp, hn, hdir⟩, _, hsT⟩ := hall e he
  obtain ⟨hrem, _, hstep⟩ := h.mem e he
  unfold stepOf at hstep
  simp only [↓reduceIte] at hstep
  unfold PassBound
  unfold LimSide at hsT
  cases zfo
  · simp only [Bool.false_eq_true, ↓reduceIte] at hdir hsT ⊢
    have := stepOutGivenIn_ofz_pass_bound hliq hs1 (by omega) hdir.1 hstep
    have h2 : (e.res.sqrtPriceNext - limit) * e.st.pool.liquidity ≤ (e.res.sqrtPriceNext - e.target) * e.st.pool.liquidity :=
      Int.mul_le_mul_of_nonneg_right (by omega) hliq
    omega
  · simp only [↓reduceIte] at hdir hsT ⊢
    intro hpass
    have ht : 0 < e.target := by omega
    have b := stepOutGivenIn_zfo_pass_bound hliq hsp ht hdir.2.1 hs1 (by omega) hstep (by omega)
    have m := exact0_mono_right hliq hn (by omega : e.res.sqrtPriceNext ≤ limit) hsT
    have g := gain0_le hdir.1 (by omega : 1000000000000000000000000000000 ≤ e.st.pool.sqrtPrice)
    linarith

end OsmoVerif.CLLimit
