/-
`Pow(base, exp)` assembled: integer part by `LegacyDec.Power` (`Proofs/MathPowInt`), fractional part by `PowApprox`
(`Proofs/MathPowLoop`, exponent 1/2 by `ApproxSqrt`: `Proofs/MathPowSqrt`), one final half-even product.
Mathlib reals; nothing here is used by the executable model.
-/
import OsmoVerif.Proofs.MathPowLoop
import OsmoVerif.Proofs.MathPowSqrt
import OsmoVerif.Proofs.MathPowInt
import Mathlib.Algebra.Order.Floor.Semiring

namespace OsmoVerif.MathM
open OsmoVerif.Num OsmoVerif.Gen OsmoVerif.GammMath

/-- integer / fractional split of a non-negative raw exponent. -/
theorem pow_split {e : Int} (he0 : 0 ≤ e) :
    ∃ (n : ℕ) (fr : Int), e.tdiv P18 = n ∧ e - e.tdiv P18 * P18 = fr ∧ 0 ≤ fr ∧ fr < P18 ∧
      dv e = n + dv fr ∧ ⌊dv e⌋₊ = n := by
  obtain ⟨h1, hp, _⟩ := tdiv_tmod_spec e P18 P18_pos
  obtain ⟨hp1, hp2⟩ := hp he0
  have hq0 : 0 ≤ e.tdiv P18 := Int.tdiv_nonneg he0 P18_pos.le
  obtain ⟨n, hn⟩ := Int.eq_ofNat_of_zero_le hq0
  have hfr : e - e.tdiv P18 * P18 = e.tmod P18 := by omega
  have hdv : dv e = n + dv (e.tmod P18) := by
    have : e = (n : Int) * P18 + e.tmod P18 := by rw [← hn]; omega
    conv_lhs => rw [this]
    rw [dv_add, dv_P18_mul]; norm_cast
  refine ⟨n, e.tmod P18, hn, hfr, hp1, hp2, hdv, ?_⟩
  rw [hdv, Nat.floor_eq_iff (by have := dv_nonneg hp1; positivity)]
  have h0 := dv_nonneg hp1
  have h1' : dv (e.tmod P18) < 1 := by have := dv_lt hp2; rwa [dv_P18] at this
  constructor <;> linarith

/-- the control flow of `Pow` on a non-negative exponent. -/
theorem pow_unfold {b e fr : Int} {n : ℕ} (hb0 : 0 < b) (hb2 : b < 2 * P18) (hq : e.tdiv P18 = n)
    (hfr : e - e.tdiv P18 * P18 = fr) (hfr0 : 0 ≤ fr) (hfr1 : fr < P18) :
    pow b e = (decPower b n).bind fun I =>
      if fr = 0 then some I else (powApprox b fr Osmomath.powPrecision).bind fun fp => Dec.mul I fp := by
  have hs : Dec.sub e (e.tdiv P18 * P18) = some fr := by
    rw [← hfr]
    apply Dec_sub_total
    rw [← dv_sub, hfr, abs_of_nonneg (dv_nonneg hfr0)]
    have := dv_lt hfr1; rw [dv_P18] at this
    linarith only [this, show (1 : ℝ) ≤ 10 ^ 40 by norm_num]
  unfold pow
  rw [if_neg (by omega), if_neg (by omega)]
  show (Dec.sub e (e.tdiv P18 * P18)).bind _ = _
  rw [hs]
  have hneg : ¬ (e.tdiv P18 < 0) := by omega
  simp only [Option.bind_eq_bind, Option.bind_some, bind, if_neg hneg, hq, Int.toNat_natCast]
  rfl

theorem powApprox_half {base p : Int} (hb : 0 < base) : powApprox base Osmomath.one_half p = approxSqrt base := by
  unfold powApprox
  rw [if_neg (by omega), if_neg (by decide), if_pos rfl]

/-- the fractional power for bases in `[0.5, 1.5]` and every exponent in `(0, 1)` (series or square root). -/
theorem powApprox_mid_all {base fr : Int} (hb1 : 5 * 10 ^ 17 ≤ base) (hb2 : base ≤ 15 * 10 ^ 17)
    (he0 : 0 < fr) (he1 : fr < P18) :
    ∃ r, powApprox base fr Osmomath.powPrecision = some r ∧ |dv r - dv base ^ dv fr| ≤ 9643 / 10 ^ 12 := by
  by_cases hh : fr = Osmomath.one_half
  · subst hh
    rw [powApprox_half (by omega)]
    obtain ⟨r, hr, hacc⟩ := approxSqrt_spec (d := base) (by omega) (by omega)
    refine ⟨r, hr, ?_⟩
    have e : dv Osmomath.one_half = 1 / 2 := by rw [one_half_val]; unfold dv; norm_num
    rw [e, ← Real.sqrt_eq_rpow]
    exact hacc.trans (by norm_num)
  · exact powApprox_mid hb1 hb2 he0 he1.le hh

/-- ASSEMBLY of `Pow` from any accuracy `εf` of the fractional power at this base: for exponents up to `M` with
`εf + 3·M·10^-18 + 10^-12 ≤ 10^-8` and `max(1,b)^⌊e⌋ ≤ 10^38` it returns within `max(1,b)^⌊e⌋·10^-8`. -/
theorem pow_assemble {b e : Int} {εf M : ℝ} (hb0 : 0 < b) (hb2 : b < 2 * P18) (he0 : 0 ≤ e) (heM : dv e ≤ M)
    (hM : M ≤ 10 ^ 9) (hbud : εf + 3 * M / 10 ^ 18 + 1 / 10 ^ 12 ≤ 1 / 10 ^ 8)
    (hbig : (max 1 (dv b)) ^ ⌊dv e⌋₊ ≤ 10 ^ 38)
    (hfp : ∀ fr : Int, 0 < fr → fr < P18 →
      ∃ fp, powApprox b fr Osmomath.powPrecision = some fp ∧ |dv fp - dv b ^ dv fr| ≤ εf) :
    ∃ r, pow b e = some r ∧ |dv r - dv b ^ dv e| ≤ (max 1 (dv b)) ^ ⌊dv e⌋₊ / 10 ^ 8 := by
  obtain ⟨n, fr, hq, hfr, hfr0, hfr1, hdv, hfloor⟩ := pow_split he0
  rw [hfloor] at hbig ⊢
  have hB0 : 0 < dv b := dv_pos hb0
  have hB2 : dv b ≤ 2 := by
    have := dv_le hb2.le; rw [dv_int_mul, dv_P18] at this; push_cast at this; linarith only [this]
  generalize hβ : max 1 (dv b) = β at *
  have hβ1 : 1 ≤ β := by rw [← hβ]; exact le_max_left _ _
  have hbβ : dv b ≤ β := by rw [← hβ]; exact le_max_right _ _
  have hβ2 : β ≤ 2 := by rw [← hβ]; exact max_le (by norm_num) hB2
  have hG1 : 1 ≤ β ^ n := one_le_pow₀ hβ1
  have hF0 := dv_nonneg hfr0
  have hF1 : dv fr < 1 := by have := dv_lt hfr1; rwa [dv_P18] at this
  have hn0 : (0 : ℝ) ≤ n := by positivity
  have hnM : (n : ℝ) ≤ M := by linarith only [heM, hdv, hF0]
  have hnr : (n : ℝ) ≤ 10 ^ 9 := hnM.trans hM
  have hn64 : n < 2 ^ 64 := by
    have : (n : ℝ) < ((2 ^ 64 : ℕ) : ℝ) := by push_cast; linarith only [hnr, show (10 : ℝ) ^ 9 < 2 ^ 64 by norm_num]
    exact_mod_cast this
  have hh := mulErr_pos
  have h2n : 2 * (n : ℝ) * mulErr = n / 10 ^ 18 := by unfold mulErr; ring
  have hρ : (1 + mulErr) ^ n ≤ 1 + n / 10 ^ 18 := by
    have := one_add_pow_le hh.le n (by
      rw [h2n, div_le_one (by positivity)]; linarith only [hnr, show (10 : ℝ) ^ 9 ≤ 10 ^ 18 by norm_num])
    rwa [h2n] at this
  have hρ' : (n : ℝ) / 10 ^ 18 ≤ M / 10 ^ 18 := div_le_div_of_nonneg_right hnM (by positivity)
  have hM1 : M / 10 ^ 18 ≤ 1 / 10 ^ 9 := by
    rw [div_le_div_iff₀ (by positivity) (by positivity)]; linarith only [hM]
  have hεf0 : 0 ≤ εf := by
    obtain ⟨_, _, h⟩ := hfp 1 (by decide) (by decide)
    exact le_trans (abs_nonneg _) h
  have hM0 : 0 ≤ M := hn0.trans hnM
  have hεf1 : εf ≤ 1 / 10 ^ 8 := by
    have : 0 ≤ 3 * M / 10 ^ 18 := by positivity
    linarith only [hbud, this, show (0 : ℝ) ≤ 1 / 10 ^ 12 by positivity]
  have hbig' : (β * (1 + mulErr)) ^ n ≤ 10 ^ 40 := by
    rw [mul_pow]
    calc β ^ n * (1 + mulErr) ^ n ≤ 10 ^ 38 * (1 + 1 / 10 ^ 9) :=
          mul_le_mul hbig (by linarith only [hρ, hρ', hM1]) (by positivity) (by positivity)
      _ ≤ 10 ^ 40 := by norm_num
  obtain ⟨I, hI, eI⟩ := decPower_spec hB0.le hbβ hβ1 (base := b) rfl hn64 hbig'
  have eI' : |dv I - dv b ^ n| ≤ β ^ n * (M / 10 ^ 18) := by
    apply eI.trans
    apply mul_le_mul_of_nonneg_left _ (by positivity)
    linarith only [hρ, hρ']
  rw [pow_unfold hb0 hb2 hq hfr hfr0 hfr1, hI, Option.bind_some]
  have hsplit : dv b ^ dv e = dv b ^ n * dv b ^ dv fr := by
    rw [hdv, Real.rpow_add hB0, Real.rpow_natCast]
  by_cases hz : fr = 0
  · rw [if_pos hz]
    refine ⟨I, rfl, ?_⟩
    rw [hsplit, hz, dv_zero, Real.rpow_zero, mul_one]
    apply eI'.trans
    rw [div_eq_mul_one_div (β ^ n)]
    apply mul_le_mul_of_nonneg_left _ (by positivity)
    have : 0 ≤ 2 * M / 10 ^ 18 := by positivity
    linarith only [hbud, hεf0, this, show (0 : ℝ) ≤ 1 / 10 ^ 12 by positivity,
      show 3 * M / 10 ^ 18 = M / 10 ^ 18 + 2 * M / 10 ^ 18 by ring]
  · rw [if_neg hz]
    obtain ⟨fp, hfp', efp⟩ := hfp fr (by omega) hfr1
    rw [hfp', Option.bind_some]
    have hX0 : 0 ≤ dv b ^ dv fr := Real.rpow_nonneg hB0.le _
    have hX : dv b ^ dv fr ≤ 2 := by
      calc dv b ^ dv fr ≤ β ^ dv fr := Real.rpow_le_rpow hB0.le hbβ hF0
        _ ≤ β ^ (1 : ℝ) := Real.rpow_le_rpow_of_exponent_le hβ1 hF1.le
        _ = β := Real.rpow_one β
        _ ≤ 2 := hβ2
    have hFp : |dv fp| ≤ 21 / 10 := by
      have := abs_add_le (dv fp - dv b ^ dv fr) (dv b ^ dv fr)
      rw [sub_add_cancel, abs_of_nonneg hX0] at this
      linarith only [this, efp, hX, hεf1, show (1 : ℝ) / 10 ^ 8 ≤ 1 / 10 by norm_num]
    have hbn0 : 0 ≤ dv b ^ n := by positivity
    have hbn : dv b ^ n ≤ β ^ n := pow_le_pow_left₀ hB0.le hbβ n
    have hIabs : |dv I| ≤ β ^ n * 2 := by
      have := abs_add_le (dv I - dv b ^ n) (dv b ^ n)
      rw [sub_add_cancel, abs_of_nonneg hbn0] at this
      have h1 : β ^ n * (M / 10 ^ 18) ≤ β ^ n * 1 :=
        mul_le_mul_of_nonneg_left (by linarith only [hM1, show (1 : ℝ) / 10 ^ 9 ≤ 1 by norm_num]) (by positivity)
      linarith only [this, eI', hbn, h1]
    obtain ⟨r, hr⟩ := Dec_mul_total (a := I) (b := fp) (by
      rw [abs_mul]
      calc |dv I| * |dv fp| ≤ (β ^ n * 2) * (21 / 10) := mul_le_mul hIabs hFp (abs_nonneg _) (by positivity)
        _ ≤ (10 ^ 38 * 2) * (21 / 10) := by gcongr
        _ ≤ 10 ^ 40 := by norm_num)
    refine ⟨r, hr, ?_⟩
    have er := Dec_mul_dv_error hr
    rw [hsplit]
    have e : dv r - dv b ^ n * dv b ^ dv fr =
        (dv r - dv I * dv fp) + (dv I - dv b ^ n) * dv fp + dv b ^ n * (dv fp - dv b ^ dv fr) := by ring
    have h1 : |(dv I - dv b ^ n) * dv fp| ≤ β ^ n * (M / 10 ^ 18) * (21 / 10) := by
      rw [abs_mul]; exact mul_le_mul eI' hFp (abs_nonneg _) (by positivity)
    have h2 : |dv b ^ n * (dv fp - dv b ^ dv fr)| ≤ β ^ n * εf := by
      rw [abs_mul, abs_of_nonneg hbn0]; exact mul_le_mul hbn efp (abs_nonneg _) (by positivity)
    have h3 := abs_add_three (dv r - dv I * dv fp) ((dv I - dv b ^ n) * dv fp) (dv b ^ n * (dv fp - dv b ^ dv fr))
    rw [← e] at h3
    have h4 : mulErr ≤ β ^ n * (1 / 10 ^ 12) := by
      have : mulErr ≤ 1 * (1 / 10 ^ 12) := by unfold mulErr; norm_num
      nlinarith only [this, hG1]
    have h5 : β ^ n * (M / 10 ^ 18) * (21 / 10) + β ^ n * εf + β ^ n * (1 / 10 ^ 12) ≤ β ^ n / 10 ^ 8 := by
      have e3 : β ^ n * (M / 10 ^ 18) * (21 / 10) + β ^ n * εf + β ^ n * (1 / 10 ^ 12) =
          β ^ n * (εf + 21 / 10 * (M / 10 ^ 18) + 1 / 10 ^ 12) := by ring
      rw [e3, div_eq_mul_one_div (β ^ n)]
      apply mul_le_mul_of_nonneg_left _ (by positivity)
      have : 0 ≤ M / 10 ^ 18 := by positivity
      linarith only [hbud, this, show 3 * M / 10 ^ 18 = 3 * (M / 10 ^ 18) by ring]
    linarith only [h1, h2, h3, h4, h5, er]

/-- `Pow` on bases in `[0.5, 1.5]`: it returns, within `max(1,b)^⌊e⌋·10^-8` of the real power
(exponents up to `10^8`; no overflow while `max(1,b)^⌊e⌋ ≤ 10^38`). -/
theorem pow_mid_spec {b e : Int} (hb1 : 5 * 10 ^ 17 ≤ b) (hb2 : b ≤ 15 * 10 ^ 17) (he0 : 0 ≤ e)
    (he1 : e ≤ 10 ^ 8 * P18) (hbig : (max 1 (dv b)) ^ ⌊dv e⌋₊ ≤ 10 ^ 38) :
    ∃ r, pow b e = some r ∧ |dv r - dv b ^ dv e| ≤ (max 1 (dv b)) ^ ⌊dv e⌋₊ / 10 ^ 8 := by
  have := P18_val
  have hE : dv e ≤ 10 ^ 8 := by
    have := dv_le he1; rw [dv_P18_mul] at this; push_cast at this; exact this.trans (by norm_num)
  exact pow_assemble (εf := 9643 / 10 ^ 12) (M := 10 ^ 8) (by omega) (by omega) he0 hE (by norm_num) (by norm_num)
    hbig (fun fr h0 h1 => powApprox_mid_all hb1 hb2 h0 h1)

/-- the fractional power for bases in `[1, 1.99]` (ALTERNATING remainder; at most 1840 iterations) and every exponent
in `(0, 1)`: within `0.9896·10^-8`. -/
theorem powApprox_upper_all {base fr : Int} (hb1 : P18 ≤ base) (hb2 : base ≤ 199 * 10 ^ 16)
    (he0 : 0 < fr) (he1 : fr < P18) :
    ∃ r, powApprox base fr Osmomath.powPrecision = some r ∧ |dv r - dv base ^ dv fr| ≤ 9896 / 10 ^ 12 := by
  have := P18_val
  by_cases hh : fr = Osmomath.one_half
  · subst hh
    rw [powApprox_half (by omega)]
    obtain ⟨r, hr, hacc⟩ := approxSqrt_spec (d := base) (by omega) (by omega)
    refine ⟨r, hr, ?_⟩
    have e : dv Osmomath.one_half = 1 / 2 := by rw [one_half_val]; unfold dv; norm_num
    rw [e, ← Real.sqrt_eq_rpow]
    exact hacc.trans (by norm_num)
  · have h2 : dv base - 1 ≤ 99 / 100 := by
      have := dv_le hb2; unfold dv at this ⊢; push_cast at this
      linarith only [this, show ((199 : ℝ) * 10 ^ 16) / 10 ^ 18 = 199 / 100 by norm_num]
    obtain ⟨r, hr, hacc⟩ := powApprox_series_spec_alt (base := base) (exp := fr) (q := 99 / 100)
      (D := 4 / 10 ^ 16) (N := 1840) hb1 h2 (by norm_num) he0 he1.le hh
      (by unfold mulErr quoErr; norm_num) (by norm_num)
      (by
        have h230 : ((99 : ℝ) / 100) ^ 230 ≤ 992 / 10000 := by norm_num
        have : ((99 : ℝ) / 100) ^ 1840 ≤ (992 / 10000) ^ 8 := by
          rw [show 1840 = 230 * 8 by norm_num, pow_mul]
          exact pow_le_pow_left₀ (by positivity) h230 8
        have h8 : ((992 : ℝ) / 10000) ^ 8 + 4 / 10 ^ 16 < 1 / 10 ^ 8 := by norm_num
        generalize ((99 : ℝ) / 100) ^ 1840 = z at this ⊢
        generalize ((992 : ℝ) / 10000) ^ 8 = w at this h8
        linarith only [this, h8])
      (by decide)
    exact ⟨r, hr, hacc.trans (by unfold powApproxEpsK; norm_num)⟩

/-- `Pow` on bases in `[1, 1.99]`, exponents up to 100: it returns, within `b^⌊e⌋·10^-8`. -/
theorem pow_upper_spec {b e : Int} (hb1 : P18 ≤ b) (hb2 : b ≤ 199 * 10 ^ 16) (he0 : 0 ≤ e)
    (he1 : e ≤ 100 * P18) (hbig : (max 1 (dv b)) ^ ⌊dv e⌋₊ ≤ 10 ^ 38) :
    ∃ r, pow b e = some r ∧ |dv r - dv b ^ dv e| ≤ (max 1 (dv b)) ^ ⌊dv e⌋₊ / 10 ^ 8 := by
  have := P18_val
  have hE : dv e ≤ 100 := by
    have := dv_le he1; rw [dv_P18_mul] at this; push_cast at this; exact this
  exact pow_assemble (εf := 9896 / 10 ^ 12) (M := 100) (by omega) (by omega) he0 hE (by norm_num) (by norm_num)
    hbig (fun fr h0 h1 => powApprox_upper_all hb1 hb2 h0 h1)

/-- `b^(1/q) < x` from `b < x^q`. -/
theorem rpow_inv_lt {b x : ℝ} {q : ℕ} (hb : 0 ≤ b) (hx : 0 ≤ x) (hq : q ≠ 0) (h : b < x ^ q) :
    b ^ ((q : ℝ)⁻¹) < x := by
  have h1 : b ^ ((q : ℝ)⁻¹) < (x ^ q) ^ ((q : ℝ)⁻¹) :=
    Real.rpow_lt_rpow hb h (by positivity)
  rwa [Real.pow_rpow_inv_natCast hx hq] at h1

end OsmoVerif.MathM
