/-
`Pow(base, exp)` assembled: integer part by `LegacyDec.Power` (`Proofs/MathPowInt`), fractional part by `PowApprox`
(`Proofs/MathPowLoop`, exponent 1/2 by `ApproxSqrt`: `Proofs/MathPowSqrt`), one final half-even product.
Mathlib reals; nothing here is used by the executable model.
-/
import OsmoVerif.Proofs.MathPowLoop
import OsmoVerif.Proofs.MathPowSqrt
import OsmoVerif.Proofs.MathPowInt
import Mathlib.Algebra.Order.Floor.Semiring

namespace OsmoVerif.MathM
open OsmoVerif.Num OsmoVerif.Gen OsmoVerif.GammMath

/-- integer / fractional split of a non-negative raw exponent. -/
theorem pow_split {e : Int} (he0 : 0 ≤ e) :
    ∃ (n : ℕ) (fr : Int), e.tdiv P18 = n ∧ e - e.tdiv P18 * P18 = fr ∧ 0 ≤ fr ∧ fr < P18 ∧
      dv e = n + dv fr ∧ ⌊dv e⌋₊ = n := by
  obtain ⟨h1, hp, _⟩ := tdiv_tmod_spec e P18 P18_pos
  obtain ⟨hp1, hp2⟩ := hp he0
  have hq0 : 0 ≤ e.tdiv P18 := Int.tdiv_nonneg he0 P18_pos.le
  obtain ⟨n, hn⟩ := Int.eq_ofNat_of_zero_le hq0
  have hfr : e - e.tdiv P18 * P18 = e.tmod P18 := by omega
  have hdv : dv e = n + dv (e.tmod P18) := by
    have : e = (n : Int) * P18 + e.tmod P18 := by rw [← hn]; omega
    conv_lhs => rw [this]
    rw [dv_add, dv_P18_mul]; norm_cast
  refine ⟨n, e.tmod P18, hn, hfr, hp1, hp2, hdv, ?_⟩
  rw [hdv, Nat.floor_eq_iff (by have := dv_nonneg hp1; positivity)]
  have h0 := dv_nonneg hp1
  have h1' : dv (e.tmod P18) < 1 := by have := dv_lt hp2; rwa [dv_P18] at this
  constructor <;> linarith

/-- the control flow of `Pow` on a non-negative exponent. -/
theorem pow_unfold {b e fr : Int} {n : ℕ} (hb0 : 0 < b) (hb2 : b < 2 * P18) (hq : e.tdiv P18 = n)
    (hfr : e - e.tdiv P18 * P18 = fr) (hfr0 : 0 ≤ fr) (hfr1 : fr < P18) :
    pow b e = (decPower b n).bind fun I =>
      if fr = 0 then some I else (powApprox b fr Osmomath.powPrecision).bind fun fp => Dec.mul I fp := by
  have hs : Dec.sub e (e.tdiv P18 * P18) = some fr := by
    rw [← hfr]
    apply Dec_sub_total
    rw [← dv_sub, hfr, abs_of_nonneg (dv_nonneg hfr0)]
    have := dv_lt hfr1; rw [dv_P18] at this
    linarith only [this, show (1 : ℝ) ≤ 10 ^ 40 by norm_num]
  unfold pow
  rw [if_neg (by omega), if_neg (by omega)]
  show (Dec.sub e (e.tdiv P18 * P18)).bind _ = _
  rw [hs]
  have hneg : ¬ (e.tdiv P18 < 0) := by omega
  simp only [Option.bind_eq_bind, Option.bind_some, bind, if_neg hneg, hq, Int.toNat_natCast]
  rfl

theorem powApprox_half {base p : Int} (hb : 0 < base) : powApprox base Osmomath.one_half p = approxSqrt base := by
  unfold powApprox
  rw [if_neg (by omega), if_neg (by decide), if_pos rfl]

/-- the fractional power for bases in `[0.5, 1.5]` and every exponent in `(0, 1)` (series or square root). -/
theorem powApprox_mid_all {base fr : Int} (hb1 : 5 * 10 ^ 17 ≤ base) (hb2 : base ≤ 15 * 10 ^ 17)
    (he0 : 0 < fr) (he1 : fr < P18) :
    ∃ r, powApprox base fr Osmomath.powPrecision = some r ∧ |dv r - dv base ^ dv fr| ≤ 9643 / 10 ^ 12 := by
  by_cases hh : fr = Osmomath.one_half
  · subst hh
    rw [powApprox_half (by omega)]
    obtain ⟨r, hr, hacc⟩ := approxSqrt_spec (d := base) (by omega) (by omega)
    refine ⟨r, hr, ?_⟩
    have e : dv Osmomath.one_half = 1 / 2 := by rw [one_half_val]; unfold dv; norm_num
    rw [e, ← Real.sqrt_eq_rpow]
    exact hacc.trans (by norm_num)
  · exact powApprox_mid hb1 hb2 he0 he1.le hh

/-- `Pow` on bases in `[0.5, 1.5]`: it returns, within `max(1,b)^⌊e⌋·10^-8` of the real power
(exponents up to `10^8`; no overflow while `max(1,b)^⌊e⌋ ≤ 10^38`). -/
theorem pow_mid_spec {b e : Int} (hb1 : 5 * 10 ^ 17 ≤ b) (hb2 : b ≤ 15 * 10 ^ 17) (he0 : 0 ≤ e)
    (he1 : e ≤ 10 ^ 8 * P18) (hbig : (max 1 (dv b)) ^ ⌊dv e⌋₊ ≤ 10 ^ 38) :
    ∃ r, pow b e = some r ∧ |dv r - dv b ^ dv e| ≤ (max 1 (dv b)) ^ ⌊dv e⌋₊ / 10 ^ 8 := by
  obtain ⟨n, fr, hq, hfr, hfr0, hfr1, hdv, hfloor⟩ := pow_split he0
  rw [hfloor] at hbig ⊢
  have hB1 : (1 : ℝ) / 2 ≤ dv b := by
    have := dv_le hb1; unfold dv at this ⊢; push_cast at this
    linarith only [this, show ((5 : ℝ) * 10 ^ 17) / 10 ^ 18 = 1 / 2 by norm_num]
  have hB2 : dv b ≤ 3 / 2 := by
    have := dv_le hb2; unfold dv at this ⊢; push_cast at this
    linarith only [this, show ((15 : ℝ) * 10 ^ 17) / 10 ^ 18 = 3 / 2 by norm_num]
  have hB0 : 0 < dv b := by linarith only [hB1]
  generalize hβ : max 1 (dv b) = β at *
  have hβ1 : 1 ≤ β := by rw [← hβ]; exact le_max_left _ _
  have hbβ : dv b ≤ β := by rw [← hβ]; exact le_max_right _ _
  have hβ2 : β ≤ 3 / 2 := by rw [← hβ]; exact max_le (by norm_num) hB2
  have hG1 : 1 ≤ β ^ n := one_le_pow₀ hβ1
  -- the exponent bound
  have hF0 := dv_nonneg hfr0
  have hF1 : dv fr < 1 := by have := dv_lt hfr1; rwa [dv_P18] at this
  have hnr : (n : ℝ) ≤ 10 ^ 8 := by
    have := dv_le he1
    rw [dv_P18_mul] at this; push_cast at this
    linarith only [this, hdv, hF0]
  have hn64 : n < 2 ^ 64 := by
    have : (n : ℝ) < ((2 ^ 64 : ℕ) : ℝ) := by push_cast; linarith only [hnr, show (10 : ℝ) ^ 8 < 2 ^ 64 by norm_num]
    exact_mod_cast this
  have hh := mulErr_pos
  have hρ : (1 + mulErr) ^ n ≤ 1 + 1 / 10 ^ 10 := by
    have h2n : 2 * (n : ℝ) * mulErr ≤ 1 / 10 ^ 10 := by
      unfold mulErr; nlinarith only [hnr]
    have := one_add_pow_le hh.le n (by linarith only [h2n, show (1 : ℝ) / 10 ^ 10 ≤ 1 by norm_num])
    linarith only [this, h2n]
  have hρ1 : (1 : ℝ) ≤ (1 + mulErr) ^ n := one_le_pow₀ (by linarith only [hh])
  have hbig' : (β * (1 + mulErr)) ^ n ≤ 10 ^ 40 := by
    rw [mul_pow]
    calc β ^ n * (1 + mulErr) ^ n ≤ 10 ^ 38 * (1 + 1 / 10 ^ 10) := mul_le_mul hbig hρ (by positivity) (by positivity)
      _ ≤ 10 ^ 40 := by norm_num
  obtain ⟨I, hI, eI⟩ := decPower_spec hB0.le hbβ hβ1 (base := b) rfl hn64 hbig'
  have eI' : |dv I - dv b ^ n| ≤ β ^ n * (1 / 10 ^ 10) := by
    apply eI.trans
    apply mul_le_mul_of_nonneg_left _ (by positivity)
    linarith only [hρ]
  rw [pow_unfold (by omega) (by have := P18_val; omega) hq hfr hfr0 hfr1, hI, Option.bind_some]
  have hsplit : dv b ^ dv e = dv b ^ n * dv b ^ dv fr := by
    rw [hdv, Real.rpow_add hB0, Real.rpow_natCast]
  by_cases hz : fr = 0
  · rw [if_pos hz]
    refine ⟨I, rfl, ?_⟩
    rw [hsplit, hz, dv_zero, Real.rpow_zero, mul_one]
    apply eI'.trans
    rw [div_eq_mul_one_div]
    apply mul_le_mul_of_nonneg_left (by norm_num) (by positivity)
  · rw [if_neg hz]
    obtain ⟨fp, hfp, efp⟩ := powApprox_mid_all hb1 hb2 (by omega) hfr1
    rw [hfp, Option.bind_some]
    -- magnitudes
    have hX0 : 0 ≤ dv b ^ dv fr := Real.rpow_nonneg hB0.le _
    have hX : dv b ^ dv fr ≤ 3 / 2 := by
      calc dv b ^ dv fr ≤ β ^ dv fr := Real.rpow_le_rpow hB0.le hbβ hF0
        _ ≤ β ^ (1 : ℝ) := Real.rpow_le_rpow_of_exponent_le hβ1 hF1.le
        _ = β := Real.rpow_one β
        _ ≤ 3 / 2 := hβ2
    have hFp : |dv fp| ≤ 8 / 5 := by
      have := abs_add_le (dv fp - dv b ^ dv fr) (dv b ^ dv fr)
      rw [sub_add_cancel, abs_of_nonneg hX0] at this
      linarith only [this, efp, hX, show (9643 : ℝ) / 10 ^ 12 ≤ 1 / 10 by norm_num]
    have hbn0 : 0 ≤ dv b ^ n := by positivity
    have hbn : dv b ^ n ≤ β ^ n := pow_le_pow_left₀ hB0.le hbβ n
    have hIabs : |dv I| ≤ β ^ n * 2 := by
      have := abs_add_le (dv I - dv b ^ n) (dv b ^ n)
      rw [sub_add_cancel, abs_of_nonneg hbn0] at this
      nlinarith only [this, eI', hbn, hG1]
    obtain ⟨r, hr⟩ := Dec_mul_total (a := I) (b := fp) (by
      rw [abs_mul]
      calc |dv I| * |dv fp| ≤ (β ^ n * 2) * (8 / 5) := mul_le_mul hIabs hFp (abs_nonneg _) (by positivity)
        _ ≤ (10 ^ 38 * 2) * (8 / 5) := by gcongr
        _ ≤ 10 ^ 40 := by norm_num)
    refine ⟨r, hr, ?_⟩
    have er := Dec_mul_dv_error hr
    rw [hsplit]
    have e : dv r - dv b ^ n * dv b ^ dv fr =
        (dv r - dv I * dv fp) + (dv I - dv b ^ n) * dv fp + dv b ^ n * (dv fp - dv b ^ dv fr) := by ring
    have h1 : |(dv I - dv b ^ n) * dv fp| ≤ β ^ n * (1 / 10 ^ 10) * (8 / 5) := by
      rw [abs_mul]; exact mul_le_mul eI' hFp (abs_nonneg _) (by positivity)
    have h2 : |dv b ^ n * (dv fp - dv b ^ dv fr)| ≤ β ^ n * (9643 / 10 ^ 12) := by
      rw [abs_mul, abs_of_nonneg hbn0]; exact mul_le_mul hbn efp (abs_nonneg _) (by positivity)
    have h3 := abs_add_three (dv r - dv I * dv fp) ((dv I - dv b ^ n) * dv fp) (dv b ^ n * (dv fp - dv b ^ dv fr))
    rw [← e] at h3
    have h4 : mulErr ≤ β ^ n * (1 / 10 ^ 12) := by
      have : mulErr ≤ 1 * (1 / 10 ^ 12) := by unfold mulErr; norm_num
      nlinarith only [this, hG1]
    have e2 : β ^ n / 10 ^ 8 = β ^ n * (1 / 10 ^ 12) + β ^ n * (1 / 10 ^ 10) * (8 / 5) + β ^ n * (9643 / 10 ^ 12)
        + β ^ n * (196 / 10 ^ 12) := by ring
    have h5 : 0 ≤ β ^ n * (196 / 10 ^ 12) := by positivity
    rw [e2]
    linarith only [h1, h2, h3, h4, h5, er]

/-- `b^(1/q) < x` from `b < x^q`. -/
theorem rpow_inv_lt {b x : ℝ} {q : ℕ} (hb : 0 ≤ b) (hx : 0 ≤ x) (hq : q ≠ 0) (h : b < x ^ q) :
    b ^ ((q : ℝ)⁻¹) < x := by
  have h1 : b ^ ((q : ℝ)⁻¹) < (x ^ q) ^ ((q : ℝ)⁻¹) :=
    Real.rpow_lt_rpow hb h (by positivity)
  rwa [Real.pow_rpow_inv_natCast hx hq] at h1

end OsmoVerif.MathM
