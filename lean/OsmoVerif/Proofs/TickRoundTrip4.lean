/-
Helper lemmas for Props/C14RoundTrip (4/4): the 36-decimal regime (ticks below `MinInitializedTick`), where the
price is below `MinSpotPriceBigDec`, the 18-decimal chop is skipped and the search works at full precision.

* `sqrtPriceToTick_lo_bucket`: the one bucket of that regime the function still serves,
  `[√price(MinCurrentTick), √price(MinInitializedTick))`, in spacing −13;
* `roundTrip_lo_rejected`: for every tick below `MinCurrentTick` the product `s·s` of its 36-decimal least root
  rounds back to the price exactly, the candidate is the tick itself, and the function rejects it.
Proof file: single Mathlib tactic modules only.
-/
import OsmoVerif.Proofs.TickRoundTrip3

namespace OsmoVerif.Tick
open OsmoVerif.Num OsmoVerif.MathM OsmoVerif.Gen OsmoVerif.Spec OsmoVerif.Props.C13

/-- unfolding of `calculatePriceToTick` on an unchopped price below `10^-12` once the intermediate values are known. -/
theorem priceToTick_unfold_lo {p0 a filled : Int} {e : Nat}
    (h1 : 10 ^ 6 ≤ p0) (h2 : p0 < 10 ^ 24)
    (hgeo : findGeoDown 64 p0 (-1) = some (10 ^ e, 10 ^ (e + 1), 10 ^ (e - 6), 9000000 * ((e : Int) - 36)))
    (hsub : BigDec.sub p0 (10 ^ e) = some a)
    (hquo : BigDec.quo a (10 ^ (e - 6)) = some filled)
    (hti : (filled.tdiv (10 ^ 36)).natAbs < 2 ^ 63) :
    calculatePriceToTick p0 = some (filled.tdiv (10 ^ 36) + 9000000 * ((e : Int) - 36)) := by
  obtain ⟨_, _, _, _, _, c6, c7⟩ := tick_consts
  obtain ⟨d1, d2, d3, d4, d5⟩ := consts2
  unfold calculatePriceToTick
  rw [if_neg (by omega), c6, c7, if_neg (by omega), d2, if_neg (by omega), d1, if_neg (by omega)]
  simp only [bind, Option.bind_some]
  rw [if_neg (by omega), hgeo]
  simp only [Option.bind_some, hsub, hquo]
  rw [if_pos hti]

/-- the candidate of a price `(10^6 + k)·10^(e−6) + ρ` of spacing `e ≤ 23`. -/
theorem priceToTick_lo_spacing {p0 k ρ : Int} {e : Nat} (he1 : 6 ≤ e) (he2 : e ≤ 23)
    (hk0 : 0 ≤ k) (hk1 : k < 9000000) (hr0 : 0 ≤ ρ) (hr1 : ρ < 10 ^ (e - 6))
    (hp : p0 = (10 ^ 6 + k) * 10 ^ (e - 6) + ρ) :
    ∃ c, calculatePriceToTick p0 = some c ∧
      (c = 9000000 * ((e : Int) - 36) + k ∨ c = 9000000 * ((e : Int) - 36) + k + 1) ∧
      (2 * ρ ≤ 10 ^ (e - 6) → c = 9000000 * ((e : Int) - 36) + k) := by
  have hinc := pow10_pos (e - 6)
  have hE : (10 : Int) ^ e = 10 ^ 6 * 10 ^ (e - 6) := by rw [← Int.pow_add]; congr 1; omega
  have hE1 : (10 : Int) ^ (e + 1) = 10 ^ 7 * 10 ^ (e - 6) := by rw [← Int.pow_add]; congr 1; omega
  have hkI : 0 ≤ k * 10 ^ (e - 6) := Int.mul_nonneg hk0 (Int.le_of_lt hinc)
  have hkI2 : (k + 1) * 10 ^ (e - 6) ≤ 9000000 * 10 ^ (e - 6) :=
    Int.mul_le_mul_of_nonneg_right (by omega) (Int.le_of_lt hinc)
  have hpe : p0 = 10 ^ e + (k * 10 ^ (e - 6) + ρ) := by rw [hp, hE]; ring
  have e24 : (10 : Int) ^ (e + 1) ≤ 10 ^ 24 := pow10_le (by omega)
  have e6 : (10 : Int) ^ 6 ≤ 10 ^ e := pow10_le (by omega)
  have hlt : p0 < 10 ^ (e + 1) := by rw [hpe, hE1, hE]; rw [Int.add_mul] at hkI2; omega
  have hgeo : findGeoDown 64 p0 (-1) = some (10 ^ e, 10 ^ (e + 1), 10 ^ (e - 6), 9000000 * ((e : Int) - 36)) := by
    have := findGeoDown_eq (p := p0) (e := e) he1 (by omega) (fun _ => hlt) (35 - e) 35 64 (by omega)
      (by omega) (by omega)
    rw [tickExp_tab e (by omega) (by omega)] at this
    simpa using this
  obtain ⟨filled, hquo, hti, hsmall⟩ := quo_trunc (k := k) (ρ := ρ) (e := e) he1 (by omega) hk0 (by omega) hr0 hr1
  have hsub : BigDec.sub p0 (10 ^ e) = some (k * 10 ^ (e - 6) + ρ) := by
    unfold BigDec.sub
    have : p0 - 10 ^ e = k * 10 ^ (e - 6) + ρ := by omega
    rw [this]
    exact chk_of_fits (fits_small (by omega) (by omega))
  have key := priceToTick_unfold_lo (p0 := p0) (e := e) (by omega) (by omega) hgeo hsub hquo
    (by rcases hti with h | h <;> rw [h] <;> omega)
  refine ⟨_, key, ?_, ?_⟩
  · rcases hti with h | h <;> rw [h] <;> omega
  · intro hs; rw [hsmall hs]; omega

/-- `calculatePriceToTick` on the unchopped prices of the last extended-range tick. -/
theorem priceToTick_lo {p0 : Int} (h1 : 9999999 * 10 ^ 17 ≤ p0) (h2 : p0 < 10 ^ 24) :
    calculatePriceToTick p0 = some (-108000001) ∨ calculatePriceToTick p0 = some (-108000000) := by
  obtain ⟨c, hc, hor, _⟩ := priceToTick_lo_spacing (p0 := p0) (k := 8999999) (ρ := p0 - 9999999 * 10 ^ 17) (e := 23)
    (by omega) (by omega) (by omega) (by omega) (by omega) (by omega) (by omega)
  rcases hor with h | h
  · left; rw [hc, h]; rfl
  · right; rw [hc, h]; rfl

theorem sqrtPriceToTick_lo_bucket {s : Int} (h1 : 999999949999998749999937499997 ≤ s) (h2 : s < 10 ^ 30) :
    calculateSqrtPriceToTick s = some (-108000001) := by
  obtain ⟨c1, c2, c3, c4, _⟩ := tick_consts
  obtain ⟨d1, d2, d3, d4, d5⟩ := consts2
  obtain ⟨b1, b2⟩ := Props.C14Mono.regime_boundary_step
  rw [c1] at b1 b2
  have hs : 0 ≤ s := by omega
  have hhe := chopRound_isHalfEven P36 (s * s) P36_pos P36_even
  rw [d2] at hhe
  generalize hp0 : chopRound (10 ^ 36) (s * s) = p0 at hhe
  have a : (999999949999998749999937499997 : Int) * 999999949999998749999937499997 ≤ s * s :=
    Int.mul_le_mul h1 h1 (by omega) hs
  have b : s * s < 10 ^ 30 * 10 ^ 30 := by
    have x1 : s * s ≤ s * 10 ^ 30 := Int.mul_le_mul_of_nonneg_left (by omega) hs
    have x2 : s * 10 ^ 30 < 10 ^ 30 * 10 ^ 30 := Int.mul_lt_mul_of_pos_right h2 (by omega)
    omega
  have hb : 9999999 * 10 ^ 17 ≤ p0 ∧ p0 ≤ 10 ^ 24 := by
    obtain ⟨u1, u2, _⟩ := hhe
    generalize s * s = S at *
    constructor <;> omega
  have hmul : BigDec.mul s s = some p0 := by
    unfold BigDec.mul
    rw [d2, hp0]
    exact chk_of_fits (fits_small (by omega) (by omega))
  obtain ⟨y, hy⟩ := Props.C14Mono.tickToSqrtPrice_total (t := -108000000 + 1) (by omega) (by omega)
  have hylt : s < y := by
    have := Props.C14Mono.tickToSqrtPrice_strictMono (t1 := -108000000) (t2 := -108000000 + 1) (by omega)
      (by omega) (by omega) b2 hy
    omega
  have hcand : calculatePriceToTick p0 = some (-108000001) ∨ calculatePriceToTick p0 = some (-108000000) := by
    rcases Int.lt_or_eq_of_le hb.2 with h | h
    · exact priceToTick_lo hb.1 h
    · right; rw [h]; decide +kernel
  rcases hcand with hc | hc
  · rw [calc_of_candidate hmul hc (by omega) (by omega)]
    have e : (-108000001 : Int) + 1 = -108000000 := by omega
    exact corrTail_same false (by rw [e]; exact b2) b1 h2 h1
  · rw [calc_of_candidate hmul hc (by omega) (by omega)]
    exact corrTail_below false hy b2 b1 hylt h2 h1

/-! ## below `MinCurrentTick`: the candidate is the tick itself and is rejected -/

theorem roundTrip_lo_rejected {t s : Int} (h1 : -270000001 ≤ t) (h2 : t < -108000001)
    (hs : tickToSqrtPrice t = some s) : calculateSqrtPriceToTick s = none := by
  obtain ⟨d1, d2, d3, d4, d5⟩ := consts2
  rcases Int.lt_or_le (-270000000) t with hgt | hfloor
  · -- the price in spacing form
    obtain ⟨lo, _⟩ := sqrt_spec h1 (by omega) hs
    have hm := lo (by omega)
    rw [priceOf_above hgt] at hm
    obtain ⟨e, he⟩ : ∃ e : Nat, t / 9000000 + 36 = e := ⟨(t / 9000000 + 36).toNat, by omega⟩
    generalize hk : t % 9000000 = k at *
    have ht : t = 9000000 * ((e : Int) - 36) + k := by omega
    have he1 : 6 ≤ e := by omega
    have he2 : e ≤ 23 := by omega
    have hF := F_spacing_lt (e := e) (k := k) he1 (by omega) (by omega) (by omega)
    rw [← ht] at hF
    have hinc := pow10_pos (e - 6)
    have hFlt : F t < 10 ^ 24 := by
      have := F_strictMono (t1 := t) (t2 := -108000000) (by omega) (by omega)
      rwa [F_launch] at this
    have hFpos : 10 ^ 6 ≤ F t := by
      have := F_mono (t1 := -269999999) (t2 := t) (by omega) (by omega); rw [F_lo] at this; omega
    -- the least root and its square
    obtain ⟨_, hs0, g, l⟩ := monotonicSqrtRaw_least hm
    have hpos : 0 < s := msqrt_pos hm (by push_cast; omega)
    have l := l hpos
    push_cast at g l
    obtain ⟨x, rfl⟩ : ∃ x, s = x + 1 := ⟨s - 1, by omega⟩
    have ex : x + 1 - 1 = x := by omega
    rw [ex] at l
    have e2 : (x + 1) * (x + 1) = x * x + 2 * x + 1 := by ring
    have hx : x < 10 ^ 30 := by
      by_contra hc
      have : (10 : Int) ^ 30 * 10 ^ 30 ≤ x * x := Int.mul_le_mul (by omega) (by omega) (by norm_num) (by omega)
      omega
    have hhe := chopRound_isHalfEven P36 ((x + 1) * (x + 1)) P36_pos P36_even
    rw [d2] at hhe
    generalize hp0 : chopRound (10 ^ 36) ((x + 1) * (x + 1)) = p0 at hhe
    have hp0F : p0 = F t := by
      obtain ⟨u1, u2, _⟩ := hhe
      rw [e2] at u1 u2 g
      generalize x * x = X at *
      omega
    have hmul : BigDec.mul (x + 1) (x + 1) = some (F t) := by
      unfold BigDec.mul
      rw [d2, hp0, hp0F]
      exact chk_of_fits (fits_small (by omega) (by omega))
    obtain ⟨c, hc, _, hexact⟩ := priceToTick_lo_spacing (p0 := F t) (k := k) (ρ := 0) (e := e) he1 he2 (by omega)
      (by omega) (by omega) hinc (by omega)
    have hct : c = t := by rw [hexact (by omega)]; omega
    subst hct
    rw [calc_eq, hmul]
    simp only [Option.bind_some, hc]
    rw [consts3, if_pos (by omega)]
  · -- the two floor ticks share the sqrt price 10^-15
    obtain ⟨a, b, _⟩ := Props.C14Mono.tickToSqrtPrice_ends
    obtain ⟨_, _, c3, c4, _⟩ := tick_consts
    have hs' : s = 10 ^ 3 * Pdiff := by
      rcases (by omega : t = -270000001 ∨ t = -270000000) with h | h
      · rw [h, ← c4, a] at hs; injection hs with hs; exact hs.symm
      · rw [h, ← c3, b] at hs; injection hs with hs; exact hs.symm
    rw [hs']; decide +kernel

end OsmoVerif.Tick
