/-
C03 helpers, part 5: every step of a run is on the pool's side of the exact curve; the run is a
contiguous price path; totals.
-/
import OsmoVerif.Proofs.CLRound4
import OsmoVerif.Props.C14
import OsmoVerif.Props.C14Mono

namespace OsmoVerif.CL
open OsmoVerif.Num OsmoVerif.Gen OsmoVerif.Spec OsmoVerif.Props

/-- side conditions of a step that the swap code takes from the pool's invariants: non-negative
liquidity, and (needed for in-given-out only) the target lies in the swap direction. -/
def StepOK (ogi zfo : Bool) (sp target liq : Int) : Prop :=
  0 ≤ liq ∧ (ogi = false → if zfo then target ≤ sp else sp ≤ target)

/-- every tick that has a sqrt price has a positive one. -/
theorem tickToSqrtPrice_pos {t s : Int} (h : Tick.tickToSqrtPrice t = some s) : 0 < s := by
  by_cases hr : t < CL.MinCurrentTickV2 ∨ t > CL.MaxTick
  · rw [(C14.tick_out_of_range_rejected hr).2] at h; cases h
  · exact (C14Mono.tickToSqrtPrice_in_bounds (by omega) (by omega) h).1

theorem targetFrom_pos {zfo : Bool} {limit target : Int} (hlim : 0 < limit) (h : TargetFrom zfo limit target) :
    0 < target := by
  obtain ⟨nextTick, nextSp, hns, rfl⟩ := h
  have := tickToSqrtPrice_pos hns
  unfold targetOf
  cases zfo
  · rw [if_neg (by decide)]; split <;> omega
  · rw [if_pos rfl]; split <;> omega

/-- amounts (in, out) of a step result for a swap kind. -/
def resIn (ogi : Bool) (r : StepResult) : Int := if ogi then r.amountSpecified else r.amountOther
def resOut (ogi : Bool) (r : StepResult) : Int := if ogi then r.amountOther else r.amountSpecified

theorem stepOutGivenIn_curve {zfo : Bool} {spf sp target liq remaining : Int} {r : StepResult}
    (hl0 : 0 ≤ liq) (hsp : 0 < sp) (ht : 0 < target) (hs0 : 0 ≤ spf) (hs1 : spf < P18) (hrem : 0 ≤ remaining)
    (h : stepOutGivenIn zfo spf sp target liq remaining = some r) :
    0 < r.sqrtPriceNext ∧
    InGe zfo liq r.sqrtPriceNext sp r.amountSpecified ∧ (∃ k, 0 ≤ k ∧ r.amountSpecified = k * P18) ∧
    OutLe zfo liq r.sqrtPriceNext sp r.amountOther ∧ 0 ≤ r.amountOther ∧
    0 ≤ r.spreadCharge ∧ (spf = 0 → r.spreadCharge = 0) ∧
    (target = r.sqrtPriceNext → r.amountSpecified * spf ≤ r.spreadCharge * (P18 - spf)) ∧
    (target ≠ r.sqrtPriceNext → 0 < spf → r.spreadCharge = remaining - r.amountSpecified) := by
  have hn := stepOutGivenIn_next_pos' hl0 hsp ht hs1 hrem h
  obtain ⟨x, y, amtIn0, oneMinus, hx, hy, cS, cO, hch, -, -, -⟩ := stepOutGivenIn_decomp h
  obtain ⟨g, k, k0, ek⟩ := inGe_of_deltaIn hn hsp hl0 hx cS
  have y0 := deltaOut_nonneg hn hsp hl0 hy
  obtain ⟨l, o0⟩ := outLe_of_deltaOut hn hsp hl0 hy y0 (Int.le_refl _) cO
  have a0 : 0 ≤ r.amountSpecified := by rw [ek]; exact Int.mul_nonneg k0 P18_nonneg
  obtain ⟨c0, cz, cr, cn⟩ := spreadChargeOutGivenIn_spec a0 hs0 hs1 hch
  refine ⟨hn, g, ⟨k, k0, ek⟩, l, o0, c0, cz, ?_, ?_⟩
  · intro e; exact cr (decide_eq_true e)
  · intro e; exact cn (decide_eq_false e)

theorem stepInGivenOut_curve {zfo : Bool} {spf sp target liq remainingOut : Int} {r : StepResult}
    (hl0 : 0 ≤ liq) (hsp : 0 < sp) (ht : 0 < target) (hs0 : 0 ≤ spf) (hs1 : spf < P18) (hrem : 0 ≤ remainingOut)
    (hdir : if zfo then target ≤ sp else sp ≤ target)
    (h : stepInGivenOut zfo spf sp target liq remainingOut = some r) :
    0 < r.sqrtPriceNext ∧
    InGe zfo liq r.sqrtPriceNext sp r.amountOther ∧ (∃ k, 0 ≤ k ∧ r.amountOther = k * P18) ∧
    OutLe zfo liq r.sqrtPriceNext sp r.amountSpecified ∧ 0 ≤ r.amountSpecified ∧
    r.amountSpecified ≤ remainingOut ∧
    0 ≤ r.spreadCharge ∧ r.amountOther * spf ≤ r.spreadCharge * (P18 - spf) := by
  have hn := stepInGivenOut_next_pos' hl0 hsp ht hrem hdir h
  obtain ⟨x, y, out0, hx, hy, cS, cO, hch, -, -⟩ := stepInGivenOut_decomp h
  obtain ⟨g, k, k0, ek⟩ := inGe_of_deltaIn hn hsp hl0 hx cS
  have y0 := deltaOut_nonneg hn hsp hl0 hy
  have rp : 0 ≤ remainingOut * Pdiff := Int.mul_nonneg hrem Pdiff_nonneg
  have m0 : 0 ≤ (if y > remainingOut * Pdiff then remainingOut * Pdiff else y) := by split <;> omega
  have my : (if y > remainingOut * Pdiff then remainingOut * Pdiff else y) ≤ y := by split <;> omega
  have mr : (if y > remainingOut * Pdiff then remainingOut * Pdiff else y) ≤ remainingOut * Pdiff := by
    split <;> omega
  obtain ⟨l, o0⟩ := outLe_of_deltaOut hn hsp hl0 hy m0 my cO
  have a0 : 0 ≤ r.amountOther := by rw [ek]; exact Int.mul_nonneg k0 P18_nonneg
  obtain ⟨cg, c0⟩ := spreadChargeFromAmountIn_ge a0 hs0 hs1 hch
  have cap : r.amountSpecified ≤ remainingOut := by
    have := (trunc_nonneg_le Pdiff_pos m0 cO).2
    exact Int.le_of_mul_le_mul_right (Int.le_trans this mr) Pdiff_pos
  exact ⟨hn, g, ⟨k, k0, ek⟩, l, o0, cap, c0, cg⟩

/-- both kinds at once. -/
theorem stepOf_curve {ogi zfo : Bool} {spf sp target liq rem : Int} {r : StepResult}
    (hok : StepOK ogi zfo sp target liq) (hsp : 0 < sp) (ht : 0 < target)
    (hs0 : 0 ≤ spf) (hs1 : spf < P18) (hrem : 0 ≤ rem)
    (h : stepOf ogi zfo spf sp target liq rem = some r) :
    0 < r.sqrtPriceNext ∧
    InGe zfo liq r.sqrtPriceNext sp (resIn ogi r) ∧ (∃ k, 0 ≤ k ∧ resIn ogi r = k * P18) ∧
    OutLe zfo liq r.sqrtPriceNext sp (resOut ogi r) ∧ 0 ≤ resOut ogi r ∧ 0 ≤ r.spreadCharge := by
  obtain ⟨hl, hdir⟩ := hok
  unfold stepOf at h
  unfold resIn resOut
  cases ogi
  · rw [if_neg (by decide)] at h
    simp only [Bool.false_eq_true, if_false]
    obtain ⟨a, b, c, d, e, -, f, -⟩ := stepInGivenOut_curve hl hsp ht hs0 hs1 hrem (hdir rfl) h
    exact ⟨a, b, c, d, e, f⟩
  · rw [if_pos rfl] at h
    simp only [if_true]
    obtain ⟨a, b, c, d, e, f, -⟩ := stepOutGivenIn_curve hl hsp ht hs0 hs1 hrem h
    exact ⟨a, b, c, d, e, f⟩

/-! ### runs -/

theorem Run.mem {ogi zfo : Bool} {spf limit : Int} {st st' : SwapSt} {tr : List StepRec}
    (h : Run ogi zfo spf limit st tr st') :
    ∀ e ∈ tr, e.st.remaining > 1 ∧ TargetFrom zfo limit e.target ∧
      stepOf ogi zfo spf e.st.pool.sqrtPrice e.target e.st.pool.liquidity e.st.remaining = some e.res := by
  induction h with
  | nil st => intro e he; cases he
  | cons hrem htgt hstep hadv hrun ih =>
    intro e he
    rcases List.mem_cons.mp he with rfl | he
    · exact ⟨hrem, htgt, hstep⟩
    · exact ih e he

/-- the recorded steps form a contiguous sqrt-price path from `p` to `p'`. -/
def Path : Int → List StepRec → Int → Prop
  | p, [], p' => p' = p
  | p, e :: tr, p' => e.st.pool.sqrtPrice = p ∧ Path e.res.sqrtPriceNext tr p'

theorem Run.path {ogi zfo : Bool} {spf limit : Int} {st st' : SwapSt} {tr : List StepRec}
    (h : Run ogi zfo spf limit st tr st') : Path st.pool.sqrtPrice tr st'.pool.sqrtPrice := by
  induction h with
  | nil st => exact rfl
  | cons hrem htgt hstep hadv hrun ih =>
    refine ⟨rfl, ?_⟩
    rw [← hadv.1]; exact ih

/-- every step of a run is on the pool's side of the exact curve of its bucket, provided the run starts
at a positive price with a positive limit and the pool-invariant side conditions hold at each step. -/
theorem Run.curve {ogi zfo : Bool} {spf limit : Int} {st st' : SwapSt} {tr : List StepRec}
    (h : Run ogi zfo spf limit st tr st') (hs0 : 0 ≤ spf) (hs1 : spf < P18)
    (hsp : 0 < st.pool.sqrtPrice) (hlim : 0 < limit)
    (hok : ∀ e ∈ tr, StepOK ogi zfo e.st.pool.sqrtPrice e.target e.st.pool.liquidity) :
    0 < st'.pool.sqrtPrice ∧
    ∀ e ∈ tr, 0 < e.st.pool.sqrtPrice ∧ 0 < e.res.sqrtPriceNext ∧
      InGe zfo e.st.pool.liquidity e.res.sqrtPriceNext e.st.pool.sqrtPrice (e.amtIn ogi) ∧
      (∃ k, 0 ≤ k ∧ e.amtIn ogi = k * P18) ∧
      OutLe zfo e.st.pool.liquidity e.res.sqrtPriceNext e.st.pool.sqrtPrice (e.amtOut ogi) ∧
      0 ≤ e.amtOut ogi ∧ 0 ≤ e.res.spreadCharge := by
  induction h with
  | nil st => exact ⟨hsp, fun e he => by cases he⟩
  | cons hrem htgt hstep hadv hrun ih =>
    have ht := targetFrom_pos hlim htgt
    obtain ⟨a, b⟩ := stepOf_curve (hok _ List.mem_cons_self) hsp ht hs0 hs1 (by omega) hstep
    obtain ⟨i1, i2⟩ := ih (by rw [hadv.1]; exact a) (fun e he => hok e (List.mem_cons_of_mem _ he))
    refine ⟨i1, fun e he => ?_⟩
    rcases List.mem_cons.mp he with rfl | he
    · exact ⟨hsp, a, b⟩
    · exact i2 e he

theorem sums_nonneg {ogi : Bool} :
    ∀ (tr : List StepRec), (∀ e ∈ tr, 0 ≤ e.amtOut ogi ∧ 0 ≤ e.res.spreadCharge) →
      0 ≤ sumOut ogi tr ∧ 0 ≤ sumCharge tr
  | [], _ => ⟨Int.le_refl _, Int.le_refl _⟩
  | e :: tr, h => by
    obtain ⟨a, b⟩ := sums_nonneg tr (fun e he => h e (List.mem_cons_of_mem _ he))
    obtain ⟨c, d⟩ := h e List.mem_cons_self
    unfold sumOut sumCharge
    omega

end OsmoVerif.CL
