/-
`SigFigRound`, part 2: rounding facts (monotonicity of half-even and floor), the specification of
the result for a positive `tenToSigFig`, and the grid form for `tenToSigFig = 10^s`.
-/
import OsmoVerif.Proofs.MathSigFig

namespace OsmoVerif.Spec
open OsmoVerif.Num

/-! ### rounding facts -/

theorem IsHalfEven.mono {n n' d r r' : Int} (hd : 0 < d) (h : IsHalfEven n d r) (h' : IsHalfEven n' d r')
    (hn : n ≤ n') : r ≤ r' := by
  obtain ⟨a, b, c⟩ := h; obtain ⟨a', b', c'⟩ := h'
  by_contra hc
  have h1 : r' + 1 ≤ r := by omega
  have h2 : (r' + 1) * d ≤ r * d := Int.mul_le_mul_of_nonneg_right h1 (by omega)
  rw [Int.add_mul] at h2
  -- 2n ≥ 2rd - d ≥ 2r'd + d ≥ 2n' ≥ 2n
  have e1 : r * d = r' * d + d := by omega
  have t1 : 2 * (n - r * d) = -d := by omega
  have t2 : 2 * (n' - r' * d) = d := by omega
  have := c (Or.inr t1); have := c' (Or.inl t2)
  have e2 : r = r' + 1 := by
    have : (r - r') * d = 1 * d := by rw [Int.sub_mul]; omega
    have := Int.eq_of_mul_eq_mul_right (by omega) this
    omega
  omega

theorem IsHalfEven.nonneg {n d r : Int} (hd : 0 < d) (h : IsHalfEven n d r) (hn : 0 ≤ n) : 0 ≤ r := by
  have h0 : IsHalfEven (0 * d) d 0 := ⟨by omega, by omega, fun _ => rfl⟩
  exact IsHalfEven.mono hd h0 h (by omega)

theorem IsFloor.mono {n n' d r r' : Int} (hd : 0 < d) (h : IsFloor n d r) (h' : IsFloor n' d r')
    (hn : n ≤ n') : r ≤ r' := by
  obtain ⟨a, b⟩ := h; obtain ⟨a', b'⟩ := h'
  have : r * d < (r' + 1) * d := by omega
  have := lt_of_mul_lt_mul_pos hd this
  omega

theorem IsFloor.ge_of_mul_le {n d r q : Int} (hd : 0 < d) (h : IsFloor n d r) (hq : q * d ≤ n) : q ≤ r := by
  have : q * d < (r + 1) * d := by have := h.2; omega
  have := lt_of_mul_lt_mul_pos hd this
  omega

end OsmoVerif.Spec

namespace OsmoVerif.MathM
open OsmoVerif.Num OsmoVerif.Gen OsmoVerif.Spec

theorem tdiv_isFloor {n d : Int} (hd : 0 < d) (hn : 0 ≤ n) : IsFloor n d (n.tdiv d) :=
  (tdiv_isTrunc n d hd).1 hn

/-- `chopRound P18 x < 2^256` (the `RoundInt` bit-length check), as a condition on `x ≥ 0`. -/
theorem halfEven_lt_iff {x n B : Int} (h : IsHalfEven x P18 n) (hB : B % 2 = 0) :
    n < B ↔ 2 * x < (2 * B - 1) * P18 := by
  obtain ⟨a, b, c⟩ := h
  have hP := P18_pos
  constructor
  · intro hn
    have h1 : n * P18 ≤ (B - 1) * P18 := Int.mul_le_mul_of_nonneg_right (by omega) (by omega)
    have e : (2 * B - 1) * P18 = 2 * ((B - 1) * P18) + P18 := by ring
    rw [e]
    by_contra hc
    have t : 2 * (x - n * P18) = P18 := by omega
    have := c (Or.inl t)
    have e2 : n * P18 = (B - 1) * P18 := by omega
    have := Int.eq_of_mul_eq_mul_right (by omega) e2
    omega
  · intro hx
    by_contra hc
    have h1 : B * P18 ≤ n * P18 := Int.mul_le_mul_of_nonneg_right (by omega) (by omega)
    have e : (2 * B - 1) * P18 = 2 * (B * P18) - P18 := by ring
    omega

/-! ### specification for positive `tenToSigFig` -/

theorem sigNum_isHalfEven (d t : Int) (k : Nat) : IsHalfEven (d * 10 ^ k * t) P18 (sigNum d t k) :=
  chopRound_isHalfEven P18 _ P18_pos P18_even

/-- For `d, t > 0`: the result is `⌊n·10^18 / (t·10^k)⌋` with `n` the half-even rounding of
`d·10^k·t / 10^18` and `k` the scaling exponent. -/
theorem sigFigRound_pos_spec {d t r : Int} (hd : 0 < d) (ht : 0 < t) (h : sigFigRound d t = some r) :
    ∃ (k : Nat) (n : Int), SigK d k ∧ IsHalfEven (d * 10 ^ k * t) P18 n ∧ 0 ≤ n ∧ n < 2 ^ 256 ∧
      t * 10 ^ k < 2 ^ 256 ∧ IsFloor (n * P18) (t * 10 ^ k) r := by
  obtain ⟨k, hk, _, _, _, hn, hden, rfl⟩ := (sigFigRound_some_iff hd).mp h
  have hK : (0 : Int) < 10 ^ k := by positivity
  have hhe := sigNum_isHalfEven d t k
  have hn0 : 0 ≤ sigNum d t k := hhe.nonneg P18_pos (by positivity)
  have hden0 : 0 < t * 10 ^ k := by positivity
  refine ⟨k, sigNum d t k, hk, hhe, hn0, by omega, by omega, ?_⟩
  exact tdiv_isFloor hden0 (Int.mul_nonneg hn0 (by decide))

/-! ### `tenToSigFig = 10^s`: the final `QuoInt` is exact -/

/-- For `t = 10^s` the result lies on the grid: `r·10^(s+k) = n·10^18` with `n` the half-even rounding of
`d·10^(k+s)/10^18`; when the grid is finer than the representation (`s + k > 18`) the value is unchanged. -/
theorem sigFigRound_pow10_spec {d r : Int} {s : Nat} (hd : 0 < d) (h : sigFigRound d (10 ^ s) = some r) :
    ∃ (k : Nat) (n : Int), SigK d k ∧ IsHalfEven (d * 10 ^ k * 10 ^ s) P18 n ∧ 0 ≤ n ∧ n < 2 ^ 256 ∧
      (10 : Int) ^ s * 10 ^ k < 2 ^ 256 ∧ r * (10 ^ s * 10 ^ k) = n * P18 ∧ (18 < s + k → r = d) := by
  have ht : (0 : Int) < 10 ^ s := by positivity
  obtain ⟨k, n, hk, hn, hn0, hnB, hden, hfl⟩ := sigFigRound_pos_spec hd ht h
  have hK : (0 : Int) < 10 ^ k := by positivity
  have hden0 : (0 : Int) < 10 ^ s * 10 ^ k := by positivity
  refine ⟨k, n, hk, hn, hn0, hnB, hden, ?_⟩
  rcases Nat.lt_or_ge 18 (s + k) with hlt | hge
  · obtain ⟨c, hc⟩ : ∃ c, s + k = 18 + c := ⟨s + k - 18, by omega⟩
    have eden : (10 : Int) ^ s * 10 ^ k = 10 ^ c * P18 := by
      rw [P18_val, ← pow_add, ← pow_add, hc, Nat.add_comm]
    have ex : d * 10 ^ k * 10 ^ s = (d * 10 ^ c) * P18 := by
      calc d * 10 ^ k * 10 ^ s = d * ((10 : Int) ^ s * 10 ^ k) := by ring
        _ = _ := by rw [eden]; ring
    rw [ex] at hn
    have hn' := hn.exact P18_pos
    have e2 : n * P18 = d * ((10 : Int) ^ s * 10 ^ k) := by rw [hn', eden]; ring
    rw [e2] at hfl
    have hr := hfl.exact hden0
    subst hr
    exact ⟨e2.symm, fun _ => rfl⟩
  · obtain ⟨c, hc⟩ : ∃ c, 18 = s + k + c := ⟨18 - (s + k), by omega⟩
    have eP : P18 = 10 ^ c * ((10 : Int) ^ s * 10 ^ k) := by
      rw [P18_val, ← pow_add, ← pow_add, hc]; congr 1; omega
    have e2 : n * P18 = (n * 10 ^ c) * ((10 : Int) ^ s * 10 ^ k) := by rw [eP]; ring
    rw [e2] at hfl
    have hr := hfl.exact hden0
    subst hr
    exact ⟨e2.symm, fun h => by omega⟩

end OsmoVerif.MathM
