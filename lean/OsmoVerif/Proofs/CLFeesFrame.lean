/-
C08 helpers, part 8: what the `CLPool` operations leave alone — the spread-reward address totals `fee0/fee1` (only a
swap adds to them, on the token-in side) and the accumulator scaling factor of the pool.  Core + the C01 helper file
`CLSolvOps`.
-/
import OsmoVerif.Proofs.CLSolvOps
import OsmoVerif.Proofs.CLFeesSum

namespace OsmoVerif.CLFeesP
open OsmoVerif.CLPool OsmoVerif.CL OsmoVerif.CLBook OsmoVerif.Num OsmoVerif.CLFees OsmoVerif.CLRewards OsmoVerif.Gen OsmoVerif.CLSolv

theorem createMin_frame {p : Pool} {owner : String} {lower upper a0 a1 m0 m1 : Int}
    {p' : Pool} {id : Nat} {r0 r1 liq l' u' : Int}
    (h : CLPool.createPositionMin p owner lower upper a0 a1 m0 m1 = some (p', id, r0, r1, liq, l', u')) :
    p'.fee0 = p.fee0 ∧ p'.fee1 = p.fee1 ∧ p'.scale = p.scale := by
  unfold CLPool.createPositionMin at h
  simp only [Option.bind_eq_bind] at h
  by_cases c7 : p.positions.isEmpty = true
  · simp only [c7, ↓reduceIte, ite_none_bind, Option.bind_eq_some_iff, Option.pure_def, Option.bind_some,
      Option.some.injEq, Prod.mk.injEq] at h
    obtain ⟨c1, _, spL, _, spU, _, lower', _, upper', _, c3, _, price, _, s, _, sp, _, t, f4, liq0, _, c4,
      ⟨p3, x0, x1, le, ue⟩, e6, g1, g2, t1, t2, t3, t4, t5, t6, t7⟩ := h
    simp only at t1
    obtain ⟨_, _, f0, f1, _, _, _, _, _, fs, _⟩ := updatePosition_frame e6
    rw [← t1]; exact ⟨f0, f1, fs⟩
  · simp only [c7, Bool.false_eq_true, ↓reduceIte, ite_none_bind, Option.bind_eq_some_iff, Option.pure_def, Option.bind_some,
      Option.some.injEq, Prod.mk.injEq] at h
    obtain ⟨c1, _, spL, _, spU, _, lower', _, upper', _, c3, liq0, _, c4,
      ⟨p3, x0, x1, le, ue⟩, e6, g1, g2, t1, t2, t3, t4, t5, t6, t7⟩ := h
    simp only at t1
    obtain ⟨_, _, f0, f1, _, _, _, _, _, fs, _⟩ := updatePosition_frame e6
    rw [← t1]; exact ⟨f0, f1, fs⟩

theorem withdraw_frame {p : Pool} {owner : String} {id : Nat} {req : Int} {p' : Pool} {o0 o1 : Int}
    (h : CLPool.withdrawPosition p owner id req = some (p', o0, o1)) :
    p'.fee0 = p.fee0 ∧ p'.fee1 = p.fee1 ∧ p'.scale = p.scale := by
  unfold CLPool.withdrawPosition at h
  simp only [Option.bind_eq_bind, ite_none_bind, Option.bind_eq_some_iff,
    Option.some.injEq, Prod.mk.injEq] at h
  obtain ⟨pos, e1, c1, c2, c3, ⟨p1, a0, a1, le, ue⟩, e2, c4, h1, h2, h3⟩ := h
  simp only at h1 h2 h3 c4
  obtain ⟨_, _, f0, f1, _, _, _, _, _, fs, _⟩ := updatePosition_frame e2
  subst h1
  by_cases c5 : req = pos.liq
  · by_cases c6 : (p1.positions.filter (fun x => decide (x.id ≠ id))).isEmpty = true
    · simp only [c5, c6, ↓reduceIte]; exact ⟨f0, f1, fs⟩
    · simp only [c5, c6, Bool.false_eq_true, ↓reduceIte]; exact ⟨f0, f1, fs⟩
  · simp only [c5, ↓reduceIte]; exact ⟨f0, f1, fs⟩

theorem transfer_frame {p : Pool} {sender : String} {id : Nat} {newOwner : String} {p' : Pool}
    (h : CLPool.transferPosition p sender id newOwner = some p') :
    p'.fee0 = p.fee0 ∧ p'.fee1 = p.fee1 ∧ p'.scale = p.scale := by
  obtain ⟨_, _, _, e⟩ := transferPosition_some h
  rw [e]; exact ⟨rfl, rfl, rfl⟩

theorem swap_frame {p : Pool} {og zfo : Bool} {spec : Int} {p' : Pool} {ain aout fee : Int}
    (h : CLPool.swap p og zfo spec = some (p', ain, aout, fee)) :
    p'.scale = p.scale ∧
    (if zfo then p'.fee0 = p.fee0 + fee ∧ p'.fee1 = p.fee1 else p'.fee1 = p.fee1 + fee ∧ p'.fee0 = p.fee0) := by
  unfold CLPool.swap at h
  simp only [Option.bind_eq_bind, ite_none_bind, Option.bind_eq_some_iff] at h
  obtain ⟨c1, ⟨r, f⟩, e1, c2, h⟩ := h
  simp only at h c2
  cases zfo
  · simp only [Bool.false_eq_true, ↓reduceIte] at h ⊢
    split at h
    · cases h
    · simp only [Option.some.injEq, Prod.mk.injEq] at h
      obtain ⟨h1, h2, h3, h4⟩ := h
      subst h1; subst h4
      exact ⟨rfl, rfl, rfl⟩
  · simp only [↓reduceIte] at h ⊢
    split at h
    · cases h
    · simp only [Option.some.injEq, Prod.mk.injEq] at h
      obtain ⟨h1, h2, h3, h4⟩ := h
      subst h1; subst h4
      exact ⟨rfl, rfl, rfl⟩

end OsmoVerif.CLFeesP
