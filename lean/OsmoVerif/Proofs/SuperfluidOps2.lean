/- C11: sweeps (lockup EndBlocker), epoch, the composite undelegate-and-unbond, and whole histories. Core only. -/
import OsmoVerif.Proofs.SuperfluidOps

namespace OsmoVerif.Superfluid
open OsmoVerif.Num

/-! ## EndBlocker sweeps -/

/-- no matured marker is left on lock `id`. -/
def NoMatured (s : State) (id : Nat) : Prop := ∀ x, x ∈ s.synths id → isMatured s.now x = false

/-- what the marker sweep leaves alone. -/
structure SameLocks (s s' : State) : Prop where
  locks : s'.locks = s.locks
  conns : s'.conns = s.conns
  now : s'.now = s.now
  ub : s'.unbondingTime = s.unbondingTime
  last : s'.lastLockId = s.lastLockId
  ledger : s'.deleg = s.deleg ∧ s'.supply = s.supply ∧ s'.offset = s.offset
  params : s'.mult = s.mult ∧ s'.assets = s.assets ∧ s'.riskFactor = s.riskFactor ∧ s'.validators = s.validators

theorem SameLocks.refl (s : State) : SameLocks s s := ⟨rfl, rfl, rfl, rfl, rfl, ⟨rfl, rfl, rfl⟩, ⟨rfl, rfl, rfl, rfl⟩⟩
theorem SameLocks.trans {a b c : State} (h1 : SameLocks a b) (h2 : SameLocks b c) : SameLocks a c :=
  ⟨h2.locks.trans h1.locks, h2.conns.trans h1.conns, h2.now.trans h1.now, h2.ub.trans h1.ub, h2.last.trans h1.last,
   ⟨h2.ledger.1.trans h1.ledger.1, h2.ledger.2.1.trans h1.ledger.2.1, h2.ledger.2.2.trans h1.ledger.2.2⟩,
   ⟨h2.params.1.trans h1.params.1, h2.params.2.1.trans h1.params.2.1, h2.params.2.2.1.trans h1.params.2.2.1, h2.params.2.2.2.trans h1.params.2.2.2⟩⟩

theorem deleteSynth_same {s s' : State} {id : Nat} {kind : SKind} {key : AccKey} (hc : deleteSynth s id kind key = .ok s') :
    SameLocks s s' ∧ ∀ j, j ≠ id → s'.synths j = s.synths j := by
  obtain ⟨_, l, _, _, hs'⟩ := deleteSynth_ok hc
  subst hs'
  refine ⟨⟨rfl, rfl, rfl, rfl, rfl, ⟨rfl, rfl, rfl⟩, ⟨rfl, rfl, rfl, rfl⟩⟩, ?_⟩
  intro j hj
  dsimp only
  simp only [upd, if_neg hj]

/-- sweeping the matured markers of one lock. -/
theorem sweepOne {s s' : State} {id : Nat} (h : Inv s)
    (hc : deleteSynths s id ((s.synths id).filter (isMatured s.now)) = .ok s') :
    Inv s' ∧ SameLocks s s' ∧ (∀ j, j ≠ id → s'.synths j = s.synths j) ∧ NoMatured s' id ∧
    (∀ x, x ∈ s.synths id → isMatured s.now x = false → x ∈ s'.synths id) := by
  have hok := h.lockOK id
  have hnil : s.synths id = [] → Inv s' ∧ SameLocks s s' ∧ (∀ j, j ≠ id → s'.synths j = s.synths j) ∧ NoMatured s' id ∧
      (∀ x, x ∈ s.synths id → isMatured s.now x = false → x ∈ s'.synths id) := by
    intro hs
    rw [hs] at hc
    simp only [List.filter_nil, deleteSynths] at hc
    injection hc with hc
    subst hc
    exact ⟨h, SameLocks.refl _, fun _ _ => rfl, (by intro x hx; rw [hs] at hx; cases hx), fun x hx _ => hx⟩
  unfold LockOK at hok
  split at hok
  · exact hnil hok.1
  · rcases hok.2 with h1 | ⟨k, h2, _⟩ | ⟨k, e, h2, _⟩
    · exact hnil h1.1
    · rw [h2] at hc
      have : isMatured s.now (mkB s.unbondingTime k) = false := by simp [isMatured, mkB]
      simp only [List.filter, this, deleteSynths] at hc
      injection hc with hc
      subst hc
      refine ⟨h, SameLocks.refl _, fun _ _ => rfl, ?_, fun x hx _ => hx⟩
      intro x hx
      rw [h2] at hx
      simp only [List.mem_singleton] at hx
      subst hx
      exact this
    · rw [h2] at hc
      cases hm : isMatured s.now (mkU s.unbondingTime k e) with
      | false =>
        simp only [List.filter, hm, deleteSynths] at hc
        injection hc with hc
        subst hc
        refine ⟨h, SameLocks.refl _, fun _ _ => rfl, ?_, fun x hx _ => hx⟩
        intro x hx
        rw [h2] at hx
        simp only [List.mem_singleton] at hx
        subst hx
        exact hm
      | true =>
        simp only [List.filter, hm, deleteSynths] at hc
        split at hc
        · cases hc
        · rename_i s1 hd
          injection hc with hc
          subst hc
          have hd' : deleteSynth s id .unbonding k = .ok s1 := hd
          obtain ⟨hsame, hother⟩ := deleteSynth_same hd'
          refine ⟨inv_deleteUnbonding h hd', hsame, hother, ?_, ?_⟩
          · obtain ⟨_, l, _, _, hs1⟩ := deleteSynth_ok hd'
            subst hs1
            intro x hx
            dsimp only at hx
            simp only [upd, if_true] at hx
            rw [h2] at hx
            simp [synthMatch, mkU] at hx
          · intro x hx hnm
            rw [h2] at hx
            simp only [List.mem_singleton] at hx
            subst hx
            rw [hm] at hnm; cases hnm

theorem inv_sweepSynths {s : State} (h : Inv s) : ∀ (n : Nat) (s' : State), sweepSynths s n = .ok s' →
    Inv s' ∧ SameLocks s s' ∧ (∀ id, 1 ≤ id → id ≤ n → NoMatured s' id) ∧
    (∀ id x, x ∈ s.synths id → isMatured s.now x = false → x ∈ s'.synths id)
  | 0, s', hc => by
    unfold sweepSynths at hc
    injection hc with hc
    subst hc
    exact ⟨h, SameLocks.refl _, fun id h1 h2 => by omega, fun _ _ hx _ => hx⟩
  | n + 1, s', hc => by
    unfold sweepSynths at hc
    split at hc
    · cases hc
    · rename_i s1 h1
      obtain ⟨i1, f1, m1, k1⟩ := inv_sweepSynths h n s1 h1
      obtain ⟨i2, f2, o2, m2, k2⟩ := sweepOne i1 hc
      refine ⟨i2, f1.trans f2, ?_, ?_⟩
      · intro id hid1 hid2
        by_cases e : id = n + 1
        · subst e; exact m2
        · intro x hx
          rw [o2 id e] at hx
          rw [f2.now]
          exact m1 id hid1 (by omega) x hx
      · intro id x hx hnm
        have hx1 := k1 id x hx hnm
        by_cases e : id = n + 1
        · subst e
          exact k2 x hx1 (by rw [f1.now]; exact hnm)
        · rw [o2 id e]; exact hx1

/-- a lock whose end time has passed carries no marker once the matured markers are swept. -/
theorem matured_lock_plain {s : State} (h : Inv s) {id : Nat} {l : Lock} {e : Int} (hl : s.locks id = some l)
    (he : l.endTime = some e) (hen : e ≤ s.now) (hm : NoMatured s id) : s.synths id = [] := by
  have hok := h.lockOK id
  rw [hl] at hok
  simp only [LockOK] at hok
  rcases hok.2 with h1 | ⟨k, _, _, _, _, _, h7⟩ | ⟨k, e', h2, _, _, _, _, h8⟩
  · exact h1.1
  · rw [he] at h7; cases h7
  · have := hm (mkU s.unbondingTime k e') (by rw [h2]; simp)
    have hle := h8 e he
    simp only [isMatured, mkU, decide_eq_false_iff_not] at this
    omega

theorem inv_sweepLocks {s : State} (N : Nat) : ∀ (n : Nat) (s' : State), Inv s → (∀ id, 1 ≤ id → id ≤ N → NoMatured s id) →
    n ≤ N → sweepLocks s n = .ok s' →
    Inv s' ∧ s'.synths = s.synths ∧ s'.now = s.now ∧ s'.conns = s.conns ∧ s'.unbondingTime = s.unbondingTime ∧
    (s'.deleg = s.deleg ∧ s'.supply = s.supply ∧ s'.offset = s.offset) ∧
    (∀ id, s'.locks id = s.locks id ∨ (∃ l e, s.locks id = some l ∧ l.endTime = some e ∧ e ≤ s.now)) ∧
    (s'.mult = s.mult ∧ s'.assets = s.assets ∧ s'.riskFactor = s.riskFactor ∧ s'.lastLockId = s.lastLockId ∧ s'.accum = s.accum ∧
      s'.validators = s.validators)
  | 0, s', h, _, _, hc => by
    unfold sweepLocks at hc
    injection hc with hc
    subst hc
    exact ⟨h, rfl, rfl, rfl, rfl, ⟨rfl, rfl, rfl⟩, fun _ => Or.inl rfl, ⟨rfl, rfl, rfl, rfl, rfl, rfl⟩⟩
  | n + 1, s', h, hm, hn, hc => by
    unfold sweepLocks at hc
    split at hc
    · cases hc
    · rename_i s1 h1
      obtain ⟨i1, f1, f2, f3, f4, f5, f6, f7⟩ := inv_sweepLocks N n s1 h hm (by omega) h1
      split at hc
      · injection hc with hc; subst hc; exact ⟨i1, f1, f2, f3, f4, f5, f6, f7⟩
      · rename_i l hl
        split at hc
        · injection hc with hc; subst hc; exact ⟨i1, f1, f2, f3, f4, f5, f6, f7⟩
        · rename_i e he
          split at hc
          · rename_i hen
            split at hc
            · cases hc
            · rename_i s2 hu
              injection hc with hc
              subst hc
              have hm1 : NoMatured s1 (n + 1) := by
                intro x hx
                rw [f1] at hx
                rw [f2]
                exact hm (n + 1) (by omega) hn x hx
              have hplain := matured_lock_plain i1 hl he hen hm1
              obtain ⟨l', e', hl', he', hen', hs2⟩ := unlockMatured_ok hu
              refine ⟨inv_unlockMatured i1 hplain hu, ?_, ?_, ?_, ?_, ?_, ?_, ?_⟩
              · subst hs2; exact f1
              · subst hs2; exact f2
              · subst hs2; exact f3
              · subst hs2; exact f4
              · subst hs2; exact f5
              · intro id
                subst hs2
                dsimp only
                simp only [upd]
                by_cases eid : id = n + 1
                · subst eid
                  rcases f6 (n + 1) with g | g
                  · right
                    rw [g] at hl'
                    exact ⟨l', e', hl', he', by rw [← f2]; exact hen'⟩
                  · exact Or.inr g
                · rw [if_neg eid]; exact f6 id
              · subst hs2; exact f7
          · injection hc with hc; subst hc; exact ⟨i1, f1, f2, f3, f4, f5, f6, f7⟩

theorem inv_endBlock {s s' : State} (h : Inv s) (hc : endBlock s = .ok s') : Inv s' := by
  unfold endBlock at hc
  split at hc
  · cases hc
  · rename_i s1 h1
    obtain ⟨i1, f1, m1, _⟩ := inv_sweepSynths h _ s1 h1
    rw [← f1.last] at m1
    exact (inv_sweepLocks s1.lastLockId s1.lastLockId s' i1 m1 (Nat.le_refl _) hc).1

theorem inv_withdraw {s s' : State} {id : Nat} (h : Inv s) (hc : withdraw s id = .ok s') : Inv s' := by
  unfold withdraw at hc
  split at hc
  · cases hc
  · rename_i s1 h1
    obtain ⟨i1, f1, m1, _⟩ := inv_sweepSynths h _ s1 h1
    obtain ⟨l, e, hl, he, hen, _⟩ := unlockMatured_ok hc
    have hr := i1.id_range hl
    rw [f1.last] at hr
    exact inv_unlockMatured i1 (matured_lock_plain i1 hl he hen (m1 id hr.1 hr.2)) hc

/-! ## epoch -/

theorem chopRoundNonneg_nonneg {P d : Int} (hP : 0 < P) (hd : 0 ≤ d) : 0 ≤ chopRoundNonneg P d := by
  have hq : 0 ≤ d.tdiv P := Int.tdiv_nonneg hd (Int.le_of_lt hP)
  unfold chopRoundNonneg
  dsimp only
  split
  · exact hq
  · split
    · exact hq
    · split
      · omega
      · split <;> omega

theorem chopRound_nonneg {P d : Int} (hP : 0 < P) (hd : 0 ≤ d) : 0 ≤ chopRound P d := by
  unfold chopRound
  rw [if_neg (by omega)]
  exact chopRoundNonneg_nonneg hP hd

theorem chkDec_eq {x r : Int} (h : chkDec x = some r) : r = x := by
  unfold chkDec at h
  split at h
  · injection h with h; exact h.symm
  · cases h

theorem chkInt_eq {x r : Int} (h : chkInt x = some r) : r = x := by
  unfold chkInt at h
  split at h
  · injection h with h; exact h.symm
  · cases h

theorem decQuo_nonneg {a b m : Int} (ha : 0 ≤ a) (hb : 0 ≤ b) (h : Dec.quo a b = some m) : 0 ≤ m := by
  unfold Dec.quo at h
  split at h
  · cases h
  · rw [chkDec_eq h]
    apply chopRound_nonneg (by decide)
    exact Int.tdiv_nonneg (Int.mul_nonneg ha (by decide)) hb

/-- what the multiplier update leaves alone: everything but `mult` and `assets`. -/
structure SameButMult (s s' : State) : Prop where
  now : s'.now = s.now
  ub : s'.unbondingTime = s.unbondingTime
  rf : s'.riskFactor = s.riskFactor
  vals : s'.validators = s.validators
  locks : s'.locks = s.locks
  last : s'.lastLockId = s.lastLockId
  synths : s'.synths = s.synths
  conns : s'.conns = s.conns
  accs : s'.accs = s.accs
  accum : s'.accum = s.accum
  ledger : s'.deleg = s.deleg ∧ s'.supply = s.supply ∧ s'.offset = s.offset

theorem SameButMult.inv {s s' : State} (f : SameButMult s s') (h : Inv s) (hm : ∀ d, 0 ≤ s'.mult d) : Inv s' := by
  refine ⟨by rw [f.rf]; exact h.rf0, by rw [f.rf]; exact h.rf1, by rw [f.ub]; exact h.ub0, hm, ?_, ?_, ?_, ?_⟩
  · rw [f.last, f.locks]; exact h.bound
  · intro id; rw [f.ub, f.now, f.locks, f.synths, f.conns]; exact h.lockOK id
  · rw [f.conns, f.vals, f.accs]; exact h.connAcc
  · intro k
    rw [f.accum, f.ub, f.last, h.accumEq k]
    unfold sumConn
    apply sumTo_congr
    intro i _ _
    unfold connAmt
    rw [f.conns, f.locks]

theorem updateMults_spec : ∀ (ups : List (Nat × Int × Int × Bool)) (s s' : State) (b : Bool),
    (∀ d, 0 ≤ s.mult d) → updateMults s ups = .ok (s', b) → SameButMult s s' ∧ ∀ d, 0 ≤ s'.mult d
  | [], s, s', b, hm, hc => by
    unfold updateMults at hc
    injection hc with hc
    injection hc with hc _
    subst hc
    exact ⟨⟨rfl, rfl, rfl, rfl, rfl, rfl, rfl, rfl, rfl, rfl, rfl, rfl, rfl⟩, hm⟩
  | (d, osmo, q, cl) :: r, s, s', b, hm, hc => by
    unfold updateMults at hc
    split at hc
    · cases hc
    · split at hc
      · cases hc
      · rename_i hneg
        have ho : 0 ≤ osmo := by omega
        have hq : 0 ≤ q := by omega
        have step : ∀ m, Dec.quo (osmo * P18) q = some m → updateMults { s with mult := upd s.mult d m } r = .ok (s', b) →
            SameButMult s s' ∧ ∀ d, 0 ≤ s'.mult d := by
          intro m hmq hrec
          have hm0 := decQuo_nonneg (Int.mul_nonneg ho (by decide)) hq hmq
          obtain ⟨f, g⟩ := updateMults_spec r _ s' b (by
            intro d'
            dsimp only
            simp only [upd]
            split
            · exact hm0
            · exact hm d') hrec
          exact ⟨⟨f.now, f.ub, f.rf, f.vals, f.locks, f.last, f.synths, f.conns, f.accs, f.accum, f.ledger⟩, g⟩
        split at hc
        · split at hc
          · exact updateMults_spec r s s' b hm hc
          · split at hc
            · exact updateMults_spec r s s' b hm hc
            · rename_i m hmq
              exact step m hmq hc
        · split at hc
          · injection hc with hc
            injection hc with hc _
            subst hc
            refine ⟨⟨rfl, rfl, rfl, rfl, rfl, rfl, rfl, rfl, rfl, rfl, rfl, rfl, rfl⟩, ?_⟩
            intro d'
            dsimp only
            simp only [upd]
            split
            · omega
            · exact hm d'
          · split at hc
            · cases hc
            · rename_i m hmq
              exact step m hmq hc

theorem inv_refreshOne {s s' : State} {k : AccKey} (h : Inv s) (hc : refreshOne s k = .ok s') : Inv s' := by
  unfold refreshOne at hc
  split at hc
  · injection hc with hc; subst hc; exact h
  · split at hc
    · cases hc
    · split at hc
      · split at hc
        · cases hc
        · injection hc with hc; subst hc; exact h
        · rename_i s2 hm; injection hc with hc; subst hc; exact inv_mint h hm
      · split at hc
        · split at hc
          · cases hc
          · injection hc with hc; subst hc; exact h
          · rename_i s2 hm; injection hc with hc; subst hc; exact inv_burn h hm
        · injection hc with hc; subst hc; exact h

theorem inv_refreshAll : ∀ (accs : List (AccKey × Nat)) (s s' : State), Inv s → refreshAll s accs = .ok s' → Inv s'
  | [], s, s', h, hc => by
    unfold refreshAll at hc; injection hc with hc; subst hc; exact h
  | (k, g) :: r, s, s', h, hc => by
    unfold refreshAll at hc
    split at hc
    · cases hc
    · rename_i s1 h1
      exact inv_refreshAll r s1 s' (inv_refreshOne h h1) hc

theorem inv_epoch {s s' : State} {ups : List (Nat × Int × Int × Bool)} (h : Inv s) (hc : epoch s ups = .ok s') : Inv s' := by
  unfold epoch at hc
  split at hc
  · cases hc
  · rename_i s1 h1
    injection hc with hc; subst hc
    obtain ⟨f, g⟩ := updateMults_spec ups s _ false h.mult0 h1
    exact f.inv h g
  · rename_i s1 h1
    obtain ⟨f, g⟩ := updateMults_spec ups s s1 true h.mult0 h1
    exact inv_refreshAll s.accs s1 s' (f.inv h g) hc

/-! ## SuperfluidUndelegateAndUnbondLock -/

/-- locks, clock and parameters are the same. -/
structure SameCore (s s' : State) : Prop where
  locks : s'.locks = s.locks
  now : s'.now = s.now
  ub : s'.unbondingTime = s.unbondingTime
  last : s'.lastLockId = s.lastLockId

theorem SameCore.trans {a b c : State} (h1 : SameCore a b) (h2 : SameCore b c) : SameCore a c :=
  ⟨h2.locks.trans h1.locks, h2.now.trans h1.now, h2.ub.trans h1.ub, h2.last.trans h1.last⟩

theorem createSynth_core {s s' : State} {id : Nat} {kind : SKind} {key : AccKey} (hc : createSynth s id kind key = .ok s') :
    SameCore s s' := by
  obtain ⟨_, l, _, _, _, hs'⟩ := createSynth_ok hc
  subst hs'; exact ⟨rfl, rfl, rfl, rfl⟩

theorem deleteSynth_core {s s' : State} {id : Nat} {kind : SKind} {key : AccKey} (hc : deleteSynth s id kind key = .ok s') :
    SameCore s s' := by
  have := (deleteSynth_same hc).1
  exact ⟨this.locks, this.now, this.ub, this.last⟩

theorem getOrCreateAcc_core (s : State) (key : AccKey) : SameCore s (getOrCreateAcc s key) := by
  unfold getOrCreateAcc; split <;> exact ⟨rfl, rfl, rfl, rfl⟩

theorem superfluidDelegate_core {s s' : State} {sender id val : Nat} (hc : superfluidDelegate s sender id val = .ok s') :
    SameCore s s' := by
  obtain ⟨l, s3, amt, _, _, _, _, _, _, _, h7, _, _, h10⟩ := superfluidDelegate_ok hc
  have c1 := getOrCreateAcc_core s (l.denom, val)
  have c2 := createSynth_core h7
  have c3 := mint_same h10
  exact ⟨c3.locks.trans (c2.locks.trans c1.locks), c3.now.trans (c2.now.trans c1.now), c3.ub.trans (c2.ub.trans c1.ub),
    c3.last.trans (c2.last.trans c1.last)⟩

theorem superfluidUndelegate_core {s s' : State} {sender id : Nat} (h : Inv s) (hc : superfluidUndelegate s sender id = .ok s') :
    SameCore s s' := by
  unfold superfluidUndelegate at hc
  split at hc
  · cases hc
  · rename_i s1 key h1
    obtain ⟨f1, f2, f3, f4, _⟩ := undelegateCommon_lock h h1
    exact (SameCore.mk f1 f2 f3 f4).trans (createSynth_core hc)

theorem inv_undelegateAndUnbond {s s' : State} {id sender nid : Nat} {amount : Int} (h : Inv s)
    (hc : superfluidUndelegateAndUnbondLock s id sender amount = .ok (s', nid)) : Inv s' := by
  unfold superfluidUndelegateAndUnbondLock at hc
  split at hc
  · cases hc
  · rename_i l hl
    split at hc
    · cases hc
    · split at hc
      · cases hc
      · split at hc
        · cases hc
        · split at hc
          · cases hc
          · rename_i key hkey
            split at hc
            · cases hc
            · rename_i s1 hu
              have i1 := inv_superfluidUndelegate h hu
              have c1 := superfluidUndelegate_core h hu
              split at hc
              · cases hc
              · rename_i s2 nid' hb
                have i2 := inv_unbondLock i1 hb
                split at hc
                · split at hc
                  · cases hc
                  · injection hc with hc
                    injection hc with hc _
                    subst hc
                    exact i2
                · rename_i hne
                  split at hc
                  · cases hc
                  · rename_i hnid
                    split at hc
                    · cases hc
                    · rename_i s3 hd
                      have i3 := inv_deleteUnbonding i2 hd
                      have c3 := deleteSynth_core hd
                      split at hc
                      · cases hc
                      · rename_i s4 hdel
                        have i4 := inv_superfluidDelegate i3 hdel
                        have c4 := superfluidDelegate_core hdel
                        split at hc
                        · cases hc
                        · rename_i s5 hcs
                          injection hc with hc
                          injection hc with hc _
                          subst hc
                          refine inv_createUnbonding i4 ?_ hcs
                          -- the split-off lock ends no earlier than unbonding time from now
                          obtain ⟨l1, sy, hl1, _, _, _, hbu⟩ := unbondLock_ok hb
                          obtain ⟨l1', hl1', _, hcase⟩ := beginUnlock_ok hbu
                          rw [hl1] at hl1'; injection hl1' with hl1'; subst hl1'
                          rw [c1.locks, hl] at hl1; injection hl1 with hl1; subst hl1
                          obtain ⟨l0, hl0, _, _, hdur, _⟩ := h.conn_lock hkey
                          rw [hl] at hl0; injection hl0 with hl0; subst hl0
                          rcases hcase with ⟨hn, _⟩ | ⟨a, _, _, _, _, hn, hs2⟩
                          · exact absurd hn hnid
                          · intro l' le hl' hle
                            rw [c4.locks, c3.locks, hs2] at hl'
                            dsimp only at hl'
                            rw [hn] at hl'
                            simp only [upd, if_true] at hl'
                            injection hl' with hl'
                            subst hl'
                            dsimp only at hle
                            injection hle with hle
                            have n4 : s4.now = s.now := by
                              rw [c4.now, c3.now, hs2]; exact c1.now
                            have u4 : s4.unbondingTime = s.unbondingTime := by
                              rw [c4.ub, c3.ub, hs2]; exact c1.ub
                            have n1 : s1.now = s.now := c1.now
                            rw [n4, u4]
                            omega

/-! ## every call, every history -/

theorem map_ok {ε α β : Type} {f : α → β} {x : Except ε α} {y : β} (h : x.map f = .ok y) : ∃ r, x = .ok r ∧ f r = y := by
  cases x with
  | error e => simp [Except.map] at h
  | ok r => simp only [Except.map] at h; injection h with h; exact ⟨r, rfl, h⟩

theorem inv_applyOp {s s' : State} {op : Op} (h : Inv s) (hc : applyOp s op = .ok s') : Inv s' := by
  unfold applyOp at hc
  obtain ⟨p, hp, hps⟩ := map_ok hc
  subst hps
  cases op with
  | lock o d a du sg =>
    obtain ⟨r, hr, hpr⟩ := map_ok (show (createLock s o d a du sg).map _ = .ok p from hp)
    subst hpr
    exact inv_createLock h (show createLock s o d a du sg = .ok (r.1, r.2) from hr)
  | addToLock snd id a =>
    obtain ⟨r, hr, hpr⟩ := map_ok (show (addTokensToLock s snd id a).map _ = .ok p from hp)
    subst hpr
    exact inv_addTokensToLock h hr
  | delegate snd id v =>
    obtain ⟨r, hr, hpr⟩ := map_ok (show (superfluidDelegate s snd id v).map _ = .ok p from hp)
    subst hpr
    exact inv_superfluidDelegate h hr
  | undelegate snd id =>
    obtain ⟨r, hr, hpr⟩ := map_ok (show (superfluidUndelegate s snd id).map _ = .ok p from hp)
    subst hpr
    exact inv_superfluidUndelegate h hr
  | unbond snd id =>
    obtain ⟨r, hr, hpr⟩ := map_ok (show (superfluidUnbondLock s id snd).map _ = .ok p from hp)
    subst hpr
    unfold superfluidUnbondLock at hr
    split at hr
    · cases hr
    · rename_i s1 n1 hu
      injection hr with hr; subst hr
      exact inv_unbondLock h hu
  | undelegateAndUnbond snd id a =>
    obtain ⟨r, hr, hpr⟩ := map_ok (show (superfluidUndelegateAndUnbondLock s id snd a).map _ = .ok p from hp)
    subst hpr
    exact inv_undelegateAndUnbond h (show superfluidUndelegateAndUnbondLock s id snd a = Except.ok (r.1, r.2) from hr)
  | beginUnlock snd id c =>
    obtain ⟨r, hr, hpr⟩ := map_ok (show (msgBeginUnlocking s snd id c).map _ = .ok p from hp)
    subst hpr
    exact inv_msgBeginUnlocking h (show msgBeginUnlocking s snd id c = Except.ok (r.1, r.2) from hr)
  | withdraw id =>
    obtain ⟨r, hr, hpr⟩ := map_ok (show (withdraw s id).map _ = .ok p from hp)
    subst hpr
    exact inv_withdraw h hr
  | endBlock =>
    obtain ⟨r, hr, hpr⟩ := map_ok (show (endBlock s).map _ = .ok p from hp)
    subst hpr
    exact inv_endBlock h hr
  | advance dt =>
    obtain ⟨r, hr, hpr⟩ := map_ok (show (advance s dt).map _ = .ok p from hp)
    subst hpr
    exact inv_advance h hr
  | epoch ups =>
    obtain ⟨r, hr, hpr⟩ := map_ok (show (epoch s ups).map _ = .ok p from hp)
    subst hpr
    exact inv_epoch h hr

theorem inv_step {s : State} (op : Op) (h : Inv s) : Inv (step s op) := by
  unfold step
  split
  · rename_i s' hs; exact inv_applyOp h hs
  · exact h

theorem inv_run : ∀ (ops : List Op) (s : State), Inv s → Inv (run s ops)
  | [], _, h => h
  | op :: r, s, h => inv_run r (step s op) (inv_step op h)

end OsmoVerif.Superfluid
