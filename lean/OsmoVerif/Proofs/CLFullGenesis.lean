/-
C19 / x/concentrated-liquidity genesis over the layered state: lemmas about `Model/CLFullGenesis.lean`.
`FullWF` = the store shape a KV store gives for free (ascending keys, the three per-tick lists aligned with the tick list, one
spread-reward record per live position, the live uptime records / join times in position order, incentive records in key order).
On a `FullWF` state: `ExportGenesis` does not panic, `InitGenesis` succeeds and yields `canon s` = the state with the accumulator
records and join times of positions that no longer exist REMOVED (nothing else changes).  Core only.
-/
import OsmoVerif.Model.CLFullGenesis
import OsmoVerif.Proofs.CLPoolGenesis

namespace OsmoVerif.CLInc
open OsmoVerif.Num OsmoVerif.CL OsmoVerif.CLPool OsmoVerif.CLFees OsmoVerif.CLBook

/-! ## generic list facts -/

theorem mapM_some_of_forall {α β : Type} (f : α → Option β) (g : α → β) : ∀ (l : List α), (∀ x ∈ l, f x = some (g x)) →
    l.mapM f = some (l.map g)
  | [], _ => rfl
  | x :: xs, h => by
    rw [List.mapM_cons, h x List.mem_cons_self, mapM_some_of_forall f g xs (fun y hy => h y (List.mem_cons_of_mem _ hy))]
    rfl

theorem putK_last {α : Type} (key : α → Int) {pre : List α} {x : α} (h : ∀ y ∈ pre, key y < key x) :
    putK key pre x = pre ++ [x] := by
  induction pre with
  | nil => rfl
  | cons y ys ih =>
    have h1 := h y List.mem_cons_self
    simp only [putK, if_neg (show ¬ key x < key y by omega), if_neg (show ¬ key x = key y by omega),
      ih (fun z hz => h z (List.mem_cons_of_mem _ hz)), List.cons_append]

/-- KV sets in ascending key order on the empty store reproduce the list -/
theorem foldl_putK {α : Type} (key : α → Int) : ∀ (l pre : List α), ((pre ++ l).map key).Pairwise (· < ·) →
    l.foldl (putK key) pre = pre ++ l
  | [], pre, _ => by simp
  | x :: xs, pre, h => by
    have hx : ∀ y ∈ pre, key y < key x := by
      intro y hy
      rw [List.map_append] at h
      exact (List.pairwise_append.mp h).2.2 (key y) (List.mem_map_of_mem hy) (key x) (by simp)
    rw [List.foldl_cons, putK_last key hx, foldl_putK key xs (pre ++ [x]) (by simpa [List.append_assoc] using h)]
    simp [List.append_assoc]

/-- in a list with pairwise distinct keys, looking a member's key up finds that member -/
theorem find_of_distinct {α : Type} (key : α → Int) : ∀ (l : List α), (l.map key).Pairwise (· < ·) → ∀ e ∈ l,
    l.find? (fun x => key x = key e) = some e
  | [], _, _, h => by cases h
  | y :: ys, hs, e, he => by
    rw [List.map_cons, List.pairwise_cons] at hs
    rcases List.mem_cons.mp he with rfl | he'
    · simp
    · have hne : ¬ key y = key e := by
        have := hs.1 (key e) (List.mem_map_of_mem he')
        omega
      rw [List.find?_cons_of_neg (by simpa using hne)]
      exact find_of_distinct key ys hs.2 e he'

/-- dropping entries the predicate cannot hit does not change `find?` -/
theorem find_filter {α : Type} (p q : α → Bool) (hpq : ∀ x, p x = true → q x = true) : ∀ (l : List α),
    (l.filter q).find? p = l.find? p
  | [] => rfl
  | x :: xs => by
    have ih := find_filter p q hpq xs
    cases hq : q x with
    | true =>
      rw [List.filter_cons_of_pos hq]
      simp only [List.find?_cons]
      cases p x with
      | true => rfl
      | false => exact ih
    | false =>
      rw [List.filter_cons_of_neg (by rw [hq]; simp)]
      have hp : p x = false := by
        cases hp : p x with
        | false => rfl
        | true => have := hpq x hp; rw [hq] at this; cases this
      simp only [List.find?_cons, hp]
      exact ih

/-! ## incentive records -/

/-- the key order of the incentive-record store: (uptime index, record id) -/
def recLt (r x : IncRec) : Prop := r.uptime < x.uptime ∨ (r.uptime = x.uptime ∧ r.id < x.id)

instance (r x : IncRec) : Decidable (recLt r x) := by unfold recLt; infer_instance

/-- the condition under which `insertRec` appends: no stored key is AFTER the new one (equal keys go behind) -/
theorem insertRec_last {pre : List IncRec} {r : IncRec} (h : ∀ x ∈ pre, ¬ recLt r x) : insertRec pre r = pre ++ [r] := by
  induction pre with
  | nil => rfl
  | cons x xs ih =>
    have h1 := h x List.mem_cons_self
    have : ¬ (r.uptime < x.uptime ∨ (r.uptime = x.uptime ∧ r.id < x.id)) := h1
    simp only [insertRec, if_neg this, ih (fun y hy => h y (List.mem_cons_of_mem _ hy)), List.cons_append]

theorem foldl_insertRec : ∀ (l pre : List IncRec), (pre ++ l).Pairwise (fun a b => ¬ recLt b a) → l.foldl insertRec pre = pre ++ l
  | [], pre, _ => by simp
  | x :: xs, pre, h => by
    have hx : ∀ y ∈ pre, ¬ recLt x y := fun y hy => (List.pairwise_append.mp h).2.2 y hy x List.mem_cons_self
    rw [List.foldl_cons, insertRec_last hx, foldl_insertRec xs (pre ++ [x]) (by simpa [List.append_assoc] using h)]
    simp [List.append_assoc]

/-! ## the store shape -/

/-- the position exists -/
def live (s : Full) (id : Nat) : Bool := s.fees.pool.positions.any (·.id = id)

/-- the state with the uptime records and join times of positions that no longer exist removed -/
def canon (s : Full) : Full :=
  { s with inc := { s.inc with accs := s.inc.accs.map (fun a => { a with recs := a.recs.filter (fun r => live s r.id) }),
                               join := s.inc.join.filter (fun e => live s e.1) } }

structure FullWF (s : Full) : Prop where
  posSorted : IdSorted s.fees.pool.positions
  tickSorted : Sorted s.fees.pool.ticks
  outs : s.fees.acc.outs.map (·.1) = s.fees.pool.ticks.map (·.tick)
  trackers : s.inc.trackers.map (·.1) = s.fees.pool.ticks.map (·.tick)
  recs : s.fees.acc.recs.map (·.id) = s.fees.pool.positions.map (·.id)
  urecs : ∀ a ∈ s.inc.accs, (a.recs.filter (fun r => live s r.id)).map (·.id) = s.fees.pool.positions.map (·.id)
  join : (s.inc.join.filter (fun e => live s e.1)).map (·.1) = s.fees.pool.positions.map (·.id)
  records : s.inc.records.Pairwise (fun a b => ¬ recLt b a)

instance (s : Full) : Decidable (FullWF s) :=
  decidable_of_iff
    ((s.fees.pool.positions.map (fun (q : Position) => q.id)).Pairwise (fun (a b : Nat) => a < b) ∧ List.Pairwise (fun (a b : TickInfo) => a.tick < b.tick) s.fees.pool.ticks ∧ s.fees.acc.outs.map (·.1) = s.fees.pool.ticks.map (·.tick) ∧
     s.inc.trackers.map (·.1) = s.fees.pool.ticks.map (·.tick) ∧ s.fees.acc.recs.map (·.id) = s.fees.pool.positions.map (·.id) ∧
     (∀ a ∈ s.inc.accs, (a.recs.filter (fun r => live s r.id)).map (·.id) = s.fees.pool.positions.map (·.id)) ∧
     (s.inc.join.filter (fun e => live s e.1)).map (·.1) = s.fees.pool.positions.map (·.id) ∧ s.inc.records.Pairwise (fun a b => ¬ recLt b a))
    ⟨fun ⟨a, b, c, d, e, f, g, h⟩ => ⟨a, b, c, d, e, f, g, h⟩, fun ⟨a, b, c, d, e, f, g, h⟩ => ⟨a, b, c, d, e, f, g, h⟩⟩

/-! ## ticks -/

theorem tickKeys_sorted {s : Full} (h : FullWF s) : (s.fees.pool.ticks.map (·.tick)).Pairwise (· < ·) := by
  have := h.tickSorted
  unfold Sorted at this
  exact List.pairwise_map.mpr this

/-- the value the export reads for a stored tick (proof-level default, never used on a `FullWF` state) -/
def outAt (s : Full) (t : Int) : V2 := (getOut s.fees.acc.outs t).getD V2.zero
def trAt (s : Full) (t : Int) : List DC := (getTr s.inc.trackers t).getD []

theorem getOut_mem {s : Full} (h : FullWF s) : ∀ e ∈ s.fees.acc.outs, getOut s.fees.acc.outs e.1 = some e.2 := by
  intro e he
  unfold getOut
  have hs : (s.fees.acc.outs.map (fun x => x.1)).Pairwise (· < ·) := by rw [h.outs]; exact tickKeys_sorted h
  have := find_of_distinct (fun (x : Int × V2) => x.1) s.fees.acc.outs hs e he
  have e2 : (fun (x : Int × V2) => decide (x.1 = e.1)) = (fun x => decide ((fun (x : Int × V2) => x.1) x = (fun (x : Int × V2) => x.1) e)) := rfl
  rw [e2, this]
  rfl

theorem getTr_mem {s : Full} (h : FullWF s) : ∀ e ∈ s.inc.trackers, getTr s.inc.trackers e.1 = some e.2 := by
  intro e he
  unfold getTr
  have hs : (s.inc.trackers.map (fun x => x.1)).Pairwise (· < ·) := by rw [h.trackers]; exact tickKeys_sorted h
  have := find_of_distinct (fun (x : Int × List DC) => x.1) s.inc.trackers hs e he
  have e2 : (fun (x : Int × List DC) => decide (x.1 = e.1)) =
      (fun x => decide ((fun (x : Int × List DC) => x.1) x = (fun (x : Int × List DC) => x.1) e)) := rfl
  rw [e2, this]
  rfl

theorem outs_eq {s : Full} (h : FullWF s) : s.fees.pool.ticks.map (fun t => (t.tick, outAt s t.tick)) = s.fees.acc.outs := by
  have e1 : s.fees.acc.outs = s.fees.acc.outs.map (fun e => (e.1, outAt s e.1)) := by
    conv => lhs; rw [← List.map_id s.fees.acc.outs]
    apply List.map_congr_left
    intro e he
    unfold outAt
    rw [getOut_mem h e he]
    rfl
  rw [e1]
  have e2 : s.fees.acc.outs.map (fun e => (e.1, outAt s e.1)) = (s.fees.acc.outs.map (·.1)).map (fun k => (k, outAt s k)) := by
    rw [List.map_map]; rfl
  rw [e2, h.outs, List.map_map]
  rfl

theorem trackers_eq {s : Full} (h : FullWF s) : s.fees.pool.ticks.map (fun t => (t.tick, trAt s t.tick)) = s.inc.trackers := by
  have e1 : s.inc.trackers = s.inc.trackers.map (fun e => (e.1, trAt s e.1)) := by
    conv => lhs; rw [← List.map_id s.inc.trackers]
    apply List.map_congr_left
    intro e he
    unfold trAt
    rw [getTr_mem h e he]
    rfl
  rw [e1]
  have e2 : s.inc.trackers.map (fun e => (e.1, trAt s e.1)) = (s.inc.trackers.map (·.1)).map (fun k => (k, trAt s k)) := by
    rw [List.map_map]; rfl
  rw [e2, h.trackers, List.map_map]
  rfl

theorem mem_keys_of {α β : Type} {l : List α} {m : List β} {f : α → Int} {g : β → Int} (h : l.map f = m.map g) {y : β} (hy : y ∈ m) :
    ∃ x ∈ l, f x = g y := by
  have : g y ∈ l.map f := by rw [h]; exact List.mem_map_of_mem hy
  obtain ⟨x, hx, e⟩ := List.mem_map.mp this
  exact ⟨x, hx, e⟩

theorem exportTicks_eq {s : Full} (h : FullWF s) :
    s.fees.pool.ticks.mapM (exportTick s) =
      some (s.fees.pool.ticks.map fun t => (⟨t.tick, t.gross, t.net, outAt s t.tick, trAt s t.tick⟩ : GTick)) := by
  apply mapM_some_of_forall
  intro t ht
  obtain ⟨e, he, hk⟩ := mem_keys_of h.outs ht
  obtain ⟨e', he', hk'⟩ := mem_keys_of h.trackers ht
  have h1 := getOut_mem h e he
  have h2 := getTr_mem h e' he'
  have hk1 : e.1 = t.tick := hk
  have hk2 : e'.1 = t.tick := hk'
  rw [hk1] at h1
  rw [hk2] at h2
  unfold exportTick outAt trAt
  rw [h1, h2]
  rfl

/-! ## positions -/

theorem posKeys_sorted {s : Full} (h : FullWF s) : (s.fees.pool.positions.map (fun q => (q.id : Int))).Pairwise (· < ·) := by
  have := h.posSorted
  unfold IdSorted at this
  rw [List.pairwise_map] at this ⊢
  exact this.imp (fun hlt => by omega)

theorem live_of_mem {s : Full} {q : Position} (hq : q ∈ s.fees.pool.positions) : live s q.id = true := by
  unfold live
  rw [List.any_eq_true]
  exact ⟨q, hq, by simp⟩

def recAt (s : Full) (id : Nat) : Rec := (getRec s.fees.acc.recs id).getD ⟨id, 0, V2.zero, V2.zero⟩
def urecAt (a : UAcc) (id : Nat) : URec := (getURec a.recs id).getD ⟨id, 0, [], []⟩
def joinAt (s : Full) (id : Nat) : Int := ((s.inc.join.find? (·.1 = id)).map (·.2)).getD 0

theorem natKeys {α : Type} {l : List α} {m : List Position} {f : α → Nat} (h : l.map f = m.map (·.id)) :
    l.map (fun x => (f x : Int)) = m.map (fun q => (q.id : Int)) := by
  have := congrArg (List.map (fun (n : Nat) => (n : Int))) h
  rw [List.map_map, List.map_map] at this
  exact this

theorem getRec_mem {s : Full} (h : FullWF s) : ∀ r ∈ s.fees.acc.recs, getRec s.fees.acc.recs r.id = some r := by
  intro r hr
  unfold getRec
  have hs : (s.fees.acc.recs.map (fun x => (x.id : Int))).Pairwise (· < ·) := by rw [natKeys h.recs]; exact posKeys_sorted h
  have := find_of_distinct (fun (x : Rec) => (x.id : Int)) s.fees.acc.recs hs r hr
  have e2 : (fun (x : Rec) => decide (x.id = r.id)) = (fun x => decide ((x.id : Int) = (r.id : Int))) := by
    funext x; simp
  rw [e2]
  exact this

theorem recs_eq {s : Full} (h : FullWF s) :
    s.fees.pool.positions.map (fun q => (⟨q.id, (recAt s q.id).shares, (recAt s q.id).snap, (recAt s q.id).unclaimed⟩ : Rec)) =
      s.fees.acc.recs := by
  have e1 : s.fees.acc.recs = s.fees.acc.recs.map (fun r => (⟨r.id, (recAt s r.id).shares, (recAt s r.id).snap, (recAt s r.id).unclaimed⟩ : Rec)) := by
    conv => lhs; rw [← List.map_id s.fees.acc.recs]
    apply List.map_congr_left
    intro r hr
    unfold recAt
    rw [getRec_mem h r hr]
    rfl
  rw [e1]
  have e2 : s.fees.acc.recs.map (fun r => (⟨r.id, (recAt s r.id).shares, (recAt s r.id).snap, (recAt s r.id).unclaimed⟩ : Rec)) =
      (s.fees.acc.recs.map (·.id)).map (fun k => (⟨k, (recAt s k).shares, (recAt s k).snap, (recAt s k).unclaimed⟩ : Rec)) := by
    rw [List.map_map]; rfl
  rw [e2, h.recs, List.map_map]
  rfl

/-- a live uptime record is found by `getURec`, in the full list and in the filtered one alike -/
theorem getURec_filter (s : Full) (a : UAcc) (id : Nat) (hl : live s id = true) :
    getURec (a.recs.filter (fun r => live s r.id)) id = getURec a.recs id := by
  unfold getURec
  exact find_filter _ _ (fun x hx => by simp only [decide_eq_true_eq] at hx; rw [hx]; exact hl) a.recs

theorem getURec_mem {s : Full} (h : FullWF s) {a : UAcc} (ha : a ∈ s.inc.accs) :
    ∀ r ∈ a.recs.filter (fun r => live s r.id), getURec a.recs r.id = some r := by
  intro r hr
  have hl : live s r.id = true := (List.mem_filter.mp hr).2
  rw [← getURec_filter s a r.id hl]
  unfold getURec
  have hs : ((a.recs.filter (fun r => live s r.id)).map (fun x => (x.id : Int))).Pairwise (· < ·) := by
    rw [natKeys (h.urecs a ha)]; exact posKeys_sorted h
  have := find_of_distinct (fun (x : URec) => (x.id : Int)) _ hs r hr
  have e2 : (fun (x : URec) => decide (x.id = r.id)) = (fun x => decide ((x.id : Int) = (r.id : Int))) := by
    funext x; simp
  rw [e2]
  exact this

theorem urecs_eq {s : Full} (h : FullWF s) {a : UAcc} (ha : a ∈ s.inc.accs) :
    s.fees.pool.positions.map (fun q => (⟨q.id, (urecAt a q.id).shares, (urecAt a q.id).snap, (urecAt a q.id).unclaimed⟩ : URec)) =
      a.recs.filter (fun r => live s r.id) := by
  have e1 : a.recs.filter (fun r => live s r.id) = (a.recs.filter (fun r => live s r.id)).map
      (fun r => (⟨r.id, (urecAt a r.id).shares, (urecAt a r.id).snap, (urecAt a r.id).unclaimed⟩ : URec)) := by
    conv => lhs; rw [← List.map_id (a.recs.filter (fun r => live s r.id))]
    apply List.map_congr_left
    intro r hr
    unfold urecAt
    rw [getURec_mem h ha r hr]
    rfl
  rw [e1]
  have e2 : (a.recs.filter (fun r => live s r.id)).map
      (fun r => (⟨r.id, (urecAt a r.id).shares, (urecAt a r.id).snap, (urecAt a r.id).unclaimed⟩ : URec)) =
      ((a.recs.filter (fun r => live s r.id)).map (·.id)).map
        (fun k => (⟨k, (urecAt a k).shares, (urecAt a k).snap, (urecAt a k).unclaimed⟩ : URec)) := by
    rw [List.map_map]; rfl
  rw [e2, h.urecs a ha, List.map_map]
  rfl

theorem join_find_filter (s : Full) (id : Nat) (hl : live s id = true) :
    (s.inc.join.filter (fun e => live s e.1)).find? (·.1 = id) = s.inc.join.find? (·.1 = id) :=
  find_filter _ _ (fun x hx => by simp only [decide_eq_true_eq] at hx; rw [hx]; exact hl) s.inc.join

theorem join_mem {s : Full} (h : FullWF s) : ∀ e ∈ s.inc.join.filter (fun e => live s e.1), s.inc.join.find? (·.1 = e.1) = some e := by
  intro e he
  have hl : live s e.1 = true := (List.mem_filter.mp he).2
  rw [← join_find_filter s e.1 hl]
  have hs : ((s.inc.join.filter (fun e => live s e.1)).map (fun x => (x.1 : Int))).Pairwise (· < ·) := by
    rw [natKeys h.join]; exact posKeys_sorted h
  have := find_of_distinct (fun (x : Nat × Int) => (x.1 : Int)) _ hs e he
  have e2 : (fun (x : Nat × Int) => decide (x.1 = e.1)) = (fun x => decide ((x.1 : Int) = (e.1 : Int))) := by
    funext x; simp
  rw [e2]
  exact this

theorem join_eq {s : Full} (h : FullWF s) :
    s.fees.pool.positions.map (fun q => (q.id, joinAt s q.id)) = s.inc.join.filter (fun e => live s e.1) := by
  have e1 : s.inc.join.filter (fun e => live s e.1) = (s.inc.join.filter (fun e => live s e.1)).map (fun e => (e.1, joinAt s e.1)) := by
    conv => lhs; rw [← List.map_id (s.inc.join.filter (fun e => live s e.1))]
    apply List.map_congr_left
    intro e he
    unfold joinAt
    rw [join_mem h e he]
    rfl
  rw [e1]
  have e2 : (s.inc.join.filter (fun e => live s e.1)).map (fun e => (e.1, joinAt s e.1)) =
      ((s.inc.join.filter (fun e => live s e.1)).map (·.1)).map (fun k => (k, joinAt s k)) := by
    rw [List.map_map]; rfl
  rw [e2, h.join, List.map_map]
  rfl

/-- the exported position data -/
def gpos (s : Full) (q : Position) : GPosition :=
  ⟨q, joinAt s q.id, ⟨(recAt s q.id).shares, (recAt s q.id).snap, (recAt s q.id).unclaimed⟩,
    s.inc.accs.map fun a => ⟨(urecAt a q.id).shares, (urecAt a q.id).snap, (urecAt a q.id).unclaimed⟩⟩

theorem exportPositions_eq {s : Full} (h : FullWF s) :
    s.fees.pool.positions.mapM (exportPosition s) = some (s.fees.pool.positions.map (gpos s)) := by
  apply mapM_some_of_forall
  intro q hq
  have hl := live_of_mem hq
  -- join time
  obtain ⟨e, he, hk⟩ := mem_keys_of (natKeys h.join) hq
  have hj := join_mem h e he
  have hke : e.1 = q.id := by
    have hk0 : ((e.1 : Nat) : Int) = (q.id : Int) := hk
    omega
  rw [hke] at hj
  -- spread-reward record
  obtain ⟨r, hr, hkr⟩ := mem_keys_of (natKeys h.recs) hq
  have hrec := getRec_mem h r hr
  have hkr' : r.id = q.id := by
    have hk0 : ((r.id : Nat) : Int) = (q.id : Int) := hkr
    omega
  rw [hkr'] at hrec
  -- uptime records
  have hu : s.inc.accs.mapM (fun a => (getURec a.recs q.id).map fun u => (⟨u.shares, u.snap, u.unclaimed⟩ : GRec DC)) =
      some (s.inc.accs.map fun a => ⟨(urecAt a q.id).shares, (urecAt a q.id).snap, (urecAt a q.id).unclaimed⟩) := by
    apply mapM_some_of_forall
    intro a ha
    obtain ⟨u, hu, hku⟩ := mem_keys_of (natKeys (h.urecs a ha)) hq
    have hur := getURec_mem h ha u hu
    have hku' : u.id = q.id := by
      have hk0 : ((u.id : Nat) : Int) = (q.id : Int) := hku
      omega
    rw [hku'] at hur
    unfold urecAt
    rw [hur]
    rfl
  unfold exportPosition gpos joinAt recAt
  rw [hj, hrec, hu]
  rfl

/-! ## the uptime accumulators at import -/

theorem setUptimeRecs_map (id : Nat) (F : UAcc → UAcc) (G : UAcc → GRec DC) : ∀ (l : List UAcc),
    setUptimeRecs id (l.map F) (l.map G) =
      some (l.map fun a => { F a with recs := putK (fun (r : URec) => (r.id : Int)) (F a).recs ⟨id, (G a).shares, (G a).snap, (G a).unclaimed⟩ })
  | [] => rfl
  | a :: as => by
    simp only [List.map_cons, setUptimeRecs, setUptimeRecs_map id F G as, Option.map_some]

/-- accumulator `a` with the records `rec a q` of the positions `ps`, KV-set in that order -/
def uaccOf (rec : UAcc → Position → URec) (ps : List Position) (a : UAcc) : UAcc :=
  { value := a.value, total := a.total, recs := (ps.map (rec a)).foldl (putK (fun (r : URec) => (r.id : Int))) [] }

def grecOf (r : URec) : GRec DC := ⟨r.shares, r.snap, r.unclaimed⟩

/-- the position loop on the uptime accumulators: accumulator `a` ends up with the records of all processed positions -/
theorem foldlM_setUptimeRecs (accs : List UAcc) (rec : UAcc → Position → URec) (hid : ∀ a q, (rec a q).id = q.id)
    (jt : Position → Int) (sr : Position → GRec V2) :
    ∀ (ps pre : List Position),
    (ps.map fun q => (⟨q, jt q, sr q, accs.map fun a => grecOf (rec a q)⟩ : GPosition)).foldlM
        (fun us p => setUptimeRecs p.pos.id us p.uptimeRecs) (accs.map (uaccOf rec pre)) =
      some (accs.map (uaccOf rec (pre ++ ps)))
  | [], pre => by simp
  | q :: qs, pre => by
    rw [List.map_cons, List.foldlM_cons]
    have h1 := setUptimeRecs_map q.id (uaccOf rec pre) (fun a => grecOf (rec a q)) accs
    simp only at h1 ⊢
    rw [h1]
    simp only [bind, Option.bind]
    have e : (accs.map fun a => ({ uaccOf rec pre a with
          recs := putK (fun (r : URec) => (r.id : Int)) (uaccOf rec pre a).recs
            ⟨q.id, (grecOf (rec a q)).shares, (grecOf (rec a q)).snap, (grecOf (rec a q)).unclaimed⟩ } : UAcc)) =
        accs.map (uaccOf rec (pre ++ [q])) := by
      apply List.map_congr_left
      intro a _
      unfold uaccOf grecOf
      simp only [List.map_append, List.foldl_append, List.map_cons, List.map_nil, List.foldl_cons, List.foldl_nil]
      have : (⟨q.id, (rec a q).shares, (rec a q).snap, (rec a q).unclaimed⟩ : URec) = rec a q := by
        rw [← hid a q]
      rw [this]
    rw [e, foldlM_setUptimeRecs accs rec hid jt sr qs (pre ++ [q])]
    simp [List.append_assoc]

/-! ## export → import -/

def gtick (s : Full) (t : TickInfo) : GTick := ⟨t.tick, t.gross, t.net, outAt s t.tick, trAt s t.tick⟩

/-- the document `ExportGenesis` produces on a well-formed state -/
def exported (s : Full) : FullGenesis :=
  { spacing := s.fees.pool.spacing, spf := s.fees.pool.spf, scale := s.fees.pool.scale, sqrtPrice := s.fees.pool.sqrtPrice,
    curTick := s.fees.pool.tick, liquidity := s.fees.pool.liquidity, lastLiquidityUpdate := s.inc.last,
    ticks := s.fees.pool.ticks.map (gtick s), spreadAcc := (s.fees.acc.global, s.fees.acc.totalShares),
    uptimeAccs := s.inc.accs.map fun a => (a.value, a.total),
    incentiveRecords := s.inc.records,
    positions := s.fees.pool.positions.map (gpos s), nextPositionId := s.fees.pool.nextId, nextIncentiveRecordId := s.inc.nextRec }

theorem exportFull_eq {s : Full} (h : FullWF s) : exportFull s = some (exported s) := by
  unfold exportFull
  rw [exportTicks_eq h, sortPosById_sorted h.posSorted, exportPositions_eq h]
  rfl

/-- the record of position `q` in uptime accumulator `a`, as re-created by the import -/
def urecOf (a : UAcc) (q : Position) : URec := ⟨q.id, (urecAt a q.id).shares, (urecAt a q.id).snap, (urecAt a q.id).unclaimed⟩

theorem importUAccs_eq {s : Full} (h : FullWF s) :
    (s.fees.pool.positions.map (gpos s)).foldlM (fun us p => setUptimeRecs p.pos.id us p.uptimeRecs)
        ((s.inc.accs.map fun a => (a.value, a.total)).map fun a => ({ value := a.1, total := a.2, recs := [] } : UAcc)) =
      some (s.inc.accs.map fun a => { a with recs := a.recs.filter (fun r => live s r.id) }) := by
  have e0 : ((s.inc.accs.map fun a => (a.value, a.total)).map fun a => ({ value := a.1, total := a.2, recs := [] } : UAcc)) =
      s.inc.accs.map (uaccOf urecOf []) := by
    rw [List.map_map]; rfl
  have e1 : s.fees.pool.positions.map (gpos s) =
      s.fees.pool.positions.map fun q => (⟨q, joinAt s q.id, ⟨(recAt s q.id).shares, (recAt s q.id).snap, (recAt s q.id).unclaimed⟩,
        s.inc.accs.map fun a => grecOf (urecOf a q)⟩ : GPosition) := rfl
  rw [e0, e1, foldlM_setUptimeRecs s.inc.accs urecOf (fun _ _ => rfl)]
  congr 1
  apply List.map_congr_left
  intro a ha
  unfold uaccOf
  simp only [List.nil_append]
  have hk : ((s.fees.pool.positions.map (urecOf a)).map (fun (r : URec) => (r.id : Int))).Pairwise (· < ·) := by
    rw [List.map_map]; exact posKeys_sorted h
  rw [foldl_putK _ _ [] (by simpa using hk), List.nil_append]
  have := urecs_eq h ha
  unfold urecOf
  rw [this]

theorem foldl_map' {α β γ : Type} (f : α → β) (g : γ → β → γ) : ∀ (l : List α) (init : γ),
    (l.map f).foldl g init = l.foldl (fun acc x => g acc (f x)) init
  | [], _ => rfl
  | x :: xs, init => by simp only [List.map_cons, List.foldl_cons, foldl_map' f g xs]

/-- **export → import on a well-formed layered state**: `ExportGenesis` does not panic, `InitGenesis` succeeds, and the result is the
state itself minus the uptime records and join times of positions that no longer exist -/
theorem exportImportFull_eq {s : Full} (h : FullWF s) : exportImportFull s = some (canon s) := by
  unfold exportImportFull
  rw [exportFull_eq h]
  simp only [Option.bind_some]
  unfold initFull
  have hu := importUAccs_eq h
  have hu' : (exported s).positions.foldlM (fun accs p => setUptimeRecs p.pos.id accs p.uptimeRecs)
      ((exported s).uptimeAccs.map fun a => ({ value := a.1, total := a.2, recs := [] } : UAcc)) =
      some (s.inc.accs.map fun a => { a with recs := a.recs.filter (fun r => live s r.id) }) := hu
  rw [hu']
  simp only [Option.map_some]
  -- ticks
  have t1 : (exported s).ticks.foldl (fun ts t => putTick ts ⟨t.tick, t.gross, t.net⟩) [] = s.fees.pool.ticks := by
    show (s.fees.pool.ticks.map (gtick s)).foldl _ [] = _
    rw [foldl_map']
    have : (fun (acc : List TickInfo) (x : TickInfo) => putTick acc ⟨(gtick s x).tick, (gtick s x).gross, (gtick s x).net⟩) = putTick := by
      funext acc x; rfl
    rw [this, foldl_putTick s.fees.pool.ticks [] (by simpa using h.tickSorted), List.nil_append]
  have t2 : (exported s).ticks.foldl (fun os t => putK (fun (e : Int × V2) => e.1) os (t.tick, t.spreadOut)) [] = s.fees.acc.outs := by
    show (s.fees.pool.ticks.map (gtick s)).foldl _ [] = _
    rw [foldl_map']
    have e : (fun (acc : List (Int × V2)) (x : TickInfo) => putK (fun (e : Int × V2) => e.1) acc ((gtick s x).tick, (gtick s x).spreadOut)) =
        (fun acc x => putK (fun (e : Int × V2) => e.1) acc ((fun t : TickInfo => (t.tick, outAt s t.tick)) x)) := rfl
    rw [e, ← foldl_map' (fun t : TickInfo => (t.tick, outAt s t.tick)) (putK (fun (e : Int × V2) => e.1)), outs_eq h]
    have hk : (s.fees.acc.outs.map (fun (e : Int × V2) => e.1)).Pairwise (· < ·) := by rw [h.outs]; exact tickKeys_sorted h
    rw [foldl_putK _ _ [] (by simpa using hk), List.nil_append]
  have t3 : (exported s).ticks.foldl (fun ts t => putK (fun (e : Int × List DC) => e.1) ts (t.tick, t.uptime)) [] = s.inc.trackers := by
    show (s.fees.pool.ticks.map (gtick s)).foldl _ [] = _
    rw [foldl_map']
    have e : (fun (acc : List (Int × List DC)) (x : TickInfo) => putK (fun (e : Int × List DC) => e.1) acc ((gtick s x).tick, (gtick s x).uptime)) =
        (fun acc x => putK (fun (e : Int × List DC) => e.1) acc ((fun t : TickInfo => (t.tick, trAt s t.tick)) x)) := rfl
    rw [e, ← foldl_map' (fun t : TickInfo => (t.tick, trAt s t.tick)) (putK (fun (e : Int × List DC) => e.1)), trackers_eq h]
    have hk : (s.inc.trackers.map (fun (e : Int × List DC) => e.1)).Pairwise (· < ·) := by rw [h.trackers]; exact tickKeys_sorted h
    rw [foldl_putK _ _ [] (by simpa using hk), List.nil_append]
  -- positions
  have p1 : (exported s).positions.foldl (fun ps p => putPos ps p.pos) [] = s.fees.pool.positions := by
    show (s.fees.pool.positions.map (gpos s)).foldl _ [] = _
    rw [foldl_map']
    have : (fun (acc : List Position) (x : Position) => putPos acc (gpos s x).pos) = putPos := by funext acc x; rfl
    rw [this, foldl_putPos s.fees.pool.positions [] (by simpa using h.posSorted), List.nil_append]
  have p2 : (exported s).positions.foldl (fun rs p => putK (fun (r : Rec) => (r.id : Int)) rs
      ⟨p.pos.id, p.spreadRec.shares, p.spreadRec.snap, p.spreadRec.unclaimed⟩) [] = s.fees.acc.recs := by
    show (s.fees.pool.positions.map (gpos s)).foldl _ [] = _
    rw [foldl_map']
    have e : (fun (acc : List Rec) (x : Position) => putK (fun (r : Rec) => (r.id : Int)) acc
          ⟨(gpos s x).pos.id, (gpos s x).spreadRec.shares, (gpos s x).spreadRec.snap, (gpos s x).spreadRec.unclaimed⟩) =
        (fun acc x => putK (fun (r : Rec) => (r.id : Int)) acc
          ((fun q : Position => (⟨q.id, (recAt s q.id).shares, (recAt s q.id).snap, (recAt s q.id).unclaimed⟩ : Rec)) x)) := rfl
    rw [e, ← foldl_map' (fun q : Position => (⟨q.id, (recAt s q.id).shares, (recAt s q.id).snap, (recAt s q.id).unclaimed⟩ : Rec))
      (putK (fun (r : Rec) => (r.id : Int))), recs_eq h]
    have hk : (s.fees.acc.recs.map (fun (r : Rec) => (r.id : Int))).Pairwise (· < ·) := by rw [natKeys h.recs]; exact posKeys_sorted h
    rw [foldl_putK _ _ [] (by simpa using hk), List.nil_append]
  have p3 : (exported s).positions.foldl (fun js p => putK (fun (e : Nat × Int) => (e.1 : Int)) js (p.pos.id, p.joinTime)) [] =
      s.inc.join.filter (fun e => live s e.1) := by
    show (s.fees.pool.positions.map (gpos s)).foldl _ [] = _
    rw [foldl_map']
    have e : (fun (acc : List (Nat × Int)) (x : Position) => putK (fun (e : Nat × Int) => (e.1 : Int)) acc ((gpos s x).pos.id, (gpos s x).joinTime)) =
        (fun acc x => putK (fun (e : Nat × Int) => (e.1 : Int)) acc ((fun q : Position => (q.id, joinAt s q.id)) x)) := rfl
    rw [e, ← foldl_map' (fun q : Position => (q.id, joinAt s q.id)) (putK (fun (e : Nat × Int) => (e.1 : Int))), join_eq h]
    have hk : ((s.inc.join.filter (fun e => live s e.1)).map (fun (e : Nat × Int) => (e.1 : Int))).Pairwise (· < ·) := by
      rw [natKeys h.join]; exact posKeys_sorted h
    rw [foldl_putK _ _ [] (by simpa using hk), List.nil_append]
  have r1 : (exported s).incentiveRecords.foldl insertRec [] = s.inc.records :=
    (foldl_insertRec s.inc.records [] (by simpa using h.records)).trans (List.nil_append _)
  rw [t1, t2, t3, p1, p2, p3, r1]
  rfl

/-- nothing to prune: no uptime record / join time of a dead position -/
def NoDead (s : Full) : Prop :=
  (∀ a ∈ s.inc.accs, ∀ r ∈ a.recs, live s r.id = true) ∧ ∀ e ∈ s.inc.join, live s e.1 = true

theorem canon_eq_of_noDead {s : Full} (h : NoDead s) : canon s = s := by
  unfold canon
  have e1 : s.inc.accs.map (fun a => { a with recs := a.recs.filter (fun r => live s r.id) }) = s.inc.accs := by
    conv => rhs; rw [← List.map_id s.inc.accs]
    apply List.map_congr_left
    intro a ha
    have : a.recs.filter (fun r => live s r.id) = a.recs := List.filter_eq_self.mpr (fun r hr => h.1 a ha r hr)
    rw [this]
    rfl
  have e2 : s.inc.join.filter (fun e => live s e.1) = s.inc.join := List.filter_eq_self.mpr (fun e he => h.2 e he)
  rw [e1, e2]

end OsmoVerif.CLInc
