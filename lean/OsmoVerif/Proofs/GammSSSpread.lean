/-
C04 (stableswap invariant), part 14: a spread charge pays for the roundings.  FULL conditional variant for exact-in:
on a pool whose scaled reserves are all ≥ 1, if `40·R_in ≤ tokenIn·spread·10^18` (spread as a raw 18-decimal `Dec`;
e.g. spread 0.3 %, tokenIn 1 and any in-reserve up to 7.5·10^31) the exact invariant does not decrease.
-/
import OsmoVerif.Proofs.GammSSRel2

set_option linter.unusedSimpArgs false

namespace OsmoVerif.GammMath.SS
open OsmoVerif.Num OsmoVerif.MathM OsmoVerif.Gen OsmoVerif.Spec

/-- the kernel grows at least proportionally with its second argument. -/
theorem kq_scale_y {x y w r : ℚ} (hx : 0 ≤ x) (hy : 0 ≤ y) (hr : 0 ≤ r) :
    (1 + r) * kq x y w ≤ kq x (y * (1 + r)) w := by
  unfold kq
  have h1 : y ^ 2 ≤ (y * (1 + r)) ^ 2 := by
    have : y ≤ y * (1 + r) := by nlinarith
    nlinarith
  have : x * y * (1 + r) * (x ^ 2 + y ^ 2 + w) ≤ x * y * (1 + r) * (x ^ 2 + (y * (1 + r)) ^ 2 + w) :=
    mul_le_mul_of_nonneg_left (by linarith) (by positivity)
  nlinarith

/-- the amount entering the curve, as a rational inequality: `tin·(1 − spread)` up to half a raw unit. -/
theorem ammIn_rq {spread tin ammIn : Int}
    (h : ((oneMinus spread).bind fun om => BigDec.mul tin om) = some ammIn) :
    |rq ammIn - rq tin * (1 - (spread : ℚ) / 10 ^ 18)| ≤ eps / 2 := by
  unfold oneMinus at h
  cases ho : Dec.sub P18 spread with
  | none => simp [ho] at h
  | some om =>
    simp only [ho, Option.map_some, Option.bind_some] at h
    have hom := Dec_sub_spec ho
    have := BigDec_mul_rq h
    have e : rq (om * Pdiff) = 1 - (spread : ℚ) / 10 ^ 18 := by
      rw [hom]
      unfold rq
      rw [Pdiff_val, P18_val]
      push_cast
      field_simp
      ring
    rwa [e] at this

/-- FULL (conditional): exact-in with a spread charge large enough to pay for every rounding. -/
theorem ssSwapOut_spread_full {p p' : SSPool} {dIn dOut : String} {amt spread out : Int}
    (hnd : NodupDenoms p.assets) (hamt : 0 ≤ amt) (hs : 0 ≤ spread) (hs1 : spread ≤ P18)
    (hvalid : ∀ a ∈ p.assets, a.sf ≤ a.amount)
    (hbig : ∀ aIn, findSS p.assets dIn = some aIn → 40 * aIn.amount ≤ amt * spread * 10 ^ 18)
    (h : ssSwapOut p [(dIn, amt)] dOut spread = .ok (out, p')) :
    ssInvariant p ≤ ssInvariant p' := by
  obtain ⟨hc, hv, hp', _, hpos⟩ := ssSwapOut_spec h
  obtain ⟨aIn, aOut, x0, y0, w, ammIn, xOut, rem, hIn, hOut, hne, sfIn, sfOut, sfO, hx0, hy0, hrem, hw, hsol,
    o1, hxo, amIn, amOut, q1, _, _, tin, htin, hamm⟩ := ssCalcOut_point hamt hs hc
  obtain ⟨hxf, hyf, hx0p, hy0p, hwp, hsolq⟩ := solver_post_exact_partial hsol
  obtain ⟨solrun, hsr, -, -, habs, -⟩ := Props.C04.stableswap_solver_post hsol
  obtain ⟨-, -, -, hyin, -, -⟩ := solverSetup_spec hsr
  have hbig' := hbig aIn hIn
  -- the other assets
  have hZ1 : ∀ z ∈ (othersOf p dIn dOut).map xq, 1 ≤ z := by
    intro z hz
    obtain ⟨c, hc, rfl⟩ := List.mem_map.mp hz
    exact one_le_xq (sfO c hc) (hvalid c (List.mem_filter.mp hc).1)
  have hZ : ∀ z ∈ (othersOf p dIn dOut).map xq, 0 ≤ z := fun z hz => le_trans zero_le_one (hZ1 z hz)
  have hO : ∀ c ∈ othersOf p dIn dOut, 0 < c.sf ∧ 0 ≤ c.amount := by
    intro c hc
    have := hvalid c (List.mem_filter.mp hc).1
    have := sfO c hc
    exact ⟨this, by omega⟩
  obtain ⟨w1, w2⟩ := w_bounds hrem hO hw
  obtain ⟨e0, e1⟩ := swap_invariant_decomp hnd hne hIn hOut
    (hp' : p'.assets = p.assets.map (swapOutAsset dIn dOut amt out))
  have hP := prod_nonneg_of_forall hZ
  have hWn := sumSq_nonneg ((othersOf p dIn dOut).map xq)
  obtain ⟨bx1, bx2, _⟩ := scaled_down_rq sfOut (Int.le_of_lt amOut) hx0
  obtain ⟨by1, by2, _⟩ := scaled_down_rq sfIn (Int.le_of_lt amIn) hy0
  obtain ⟨t1, t2, t3⟩ := scaled_down_rq sfIn hamt htin
  have sfq : (0 : ℚ) < aOut.sf := by exact_mod_cast sfOut
  have sfiq : (0 : ℚ) < aIn.sf := by exact_mod_cast sfIn
  have hX := one_le_xq sfOut (hvalid _ (findSS_some hOut).1)
  have hY := one_le_xq sfIn (hvalid _ (findSS_some hIn).1)
  have hXo : |rq xOut| ≤ rq x0 := by
    rw [← rq_natAbs]; exact rq_le_rq.mpr (Int.le_of_lt habs)
  have hsolq' : kq (rq x0) (rq y0) (rq w) - solverErr (rq x0) (rq y0) (rq (y0 + ammIn)) (rq xOut)
      ≤ kq (rq x0 - rq xOut) (rq (y0 + ammIn)) (rq w) := by
    rw [← rq_sub]; exact hsolq
  have hxf' : 0 < rq x0 - rq xOut := by rw [← rq_sub]; exact rq_pos.mpr hxf
  have hYf : 0 < rq (y0 + ammIn) := rq_pos.mpr hyf
  have hYb : rq (y0 + ammIn) ≤ 2 * xq aIn := by
    have : y0 + ammIn ≤ 2 * y0 := by omega
    have := rq_le_rq.mpr this
    rw [rq_mul_int] at this
    have e : rq 2 * (y0 : ℚ) = 2 * rq y0 := by unfold rq; push_cast; ring
    rw [e] at this
    have : rq y0 ≤ xq aIn := by1
    linarith
  -- the chain, stopped at the solver's point
  have main : kq (xq aOut) (xq aIn) (sumSq ((othersOf p dIn dOut).map xq))
      - swapErr (xq aOut) (xq aIn) ((othersOf p dIn dOut).map xq)
      ≤ kq (rq x0 - rq xOut) (rq (y0 + ammIn)) (sumSq ((othersOf p dIn dOut).map xq)) := by
    unfold swapErr
    rw [List.length_map]
    exact chain_out hsolq' (rq_pos.mpr hx0p) (rq_pos.mpr hy0p) hxf' hYf hXo
      (rq_pos.mpr hxo).le bx1 bx2.le by1 by2.le le_rfl le_rfl hYb w1 w2
      (by have := eps_pos; positivity) (wErr_nonneg hZ) hWn
  have hrel := swapErr_le_rel hX hY hZ1
  have hlen : ((othersOf p dIn dOut).length : ℚ) ≤ 6 := by
    have h8 := validLiquidity_length hv
    rw [List.length_map] at h8
    have := (perm_two hnd hne hIn hOut).length_eq
    simp only [List.length_cons] at this
    have : (othersOf p dIn dOut).length ≤ 6 := by unfold othersOf; omega
    exact_mod_cast this
  rw [List.length_map] at hrel
  have he := eps_pos
  have hK : 0 ≤ kq (xq aOut) (xq aIn) (sumSq ((othersOf p dIn dOut).map xq)) :=
    kq_nonneg (by linarith) (by linarith) hWn
  have h18 : swapErr (xq aOut) (xq aIn) ((othersOf p dIn dOut).map xq)
      ≤ 18 * eps * kq (xq aOut) (xq aIn) (sumSq ((othersOf p dIn dOut).map xq)) :=
    le_trans hrel (mul_le_mul_of_nonneg_right (mul_le_mul_of_nonneg_right (by linarith) he.le) hK)
  -- the spread charge left in the pool: g = Y' − Yf ≥ 19·eps·Yf
  have eY' : xq { aIn with amount := aIn.amount + amt } = xq aIn + (amt : ℚ) / aIn.sf := by
    unfold xq; simp only; push_cast; rw [add_div]
  have eX' : xq { aOut with amount := aOut.amount - out } = xq aOut - (out : ℚ) / aOut.sf := by
    unfold xq; simp only; push_cast; rw [sub_div]
  have hX' : rq x0 - rq xOut ≤ xq { aOut with amount := aOut.amount - out } := by
    rw [eX']; have : rq x0 ≤ xq aOut := bx1; linarith [q1]
  have ham := (abs_le.mp (ammIn_rq hamm)).2
  have hσ0 : (0 : ℚ) ≤ (spread : ℚ) / 10 ^ 18 := by
    have : (0 : ℚ) ≤ spread := by exact_mod_cast hs
    positivity
  have hσ1 : (spread : ℚ) / 10 ^ 18 ≤ 1 := by
    rw [div_le_one (by positivity)]
    have : ((spread : Int) : ℚ) ≤ ((P18 : Int) : ℚ) := by exact_mod_cast hs1
    rwa [P18_val] at this
  -- amt·σ ≥ 40·eps·R_in, hence (amt/sf)·σ ≥ 40·eps·Y
  have hbigq : 40 * eps * xq aIn ≤ (amt : ℚ) / aIn.sf * ((spread : ℚ) / 10 ^ 18) := by
    have : (40 : ℚ) * aIn.amount ≤ amt * spread * 10 ^ 18 := by exact_mod_cast hbig'
    unfold xq eps
    rw [div_mul_div_comm, mul_div_assoc', div_le_div_iff₀ sfiq (by positivity)]
    nlinarith
  have hg : 19 * eps * rq (y0 + ammIn) ≤ xq { aIn with amount := aIn.amount + amt } - rq (y0 + ammIn) := by
    rw [eY', rq_add]
    have hy0' : rq y0 ≤ xq aIn := by1
    have hYfle : rq (y0 + ammIn) ≤ 2 * xq aIn := hYb
    rw [rq_add] at hYfle
    have htσ : rq tin * ((spread : ℚ) / 10 ^ 18) ≥ (amt : ℚ) / aIn.sf * ((spread : ℚ) / 10 ^ 18) - eps := by
      have : ((amt : ℚ) / aIn.sf - rq tin) * ((spread : ℚ) / 10 ^ 18) ≤ eps * 1 :=
        mul_le_mul (by linarith) hσ1 hσ0 he.le
      linarith
    have l1 : 19 * eps * (rq y0 + rq ammIn) ≤ 19 * eps * (2 * xq aIn) :=
      mul_le_mul_of_nonneg_left hYfle (by positivity)
    have l2 : eps * 1 ≤ eps * xq aIn := mul_le_mul_of_nonneg_left hY he.le
    have l3 : rq tin * (1 - (spread : ℚ) / 10 ^ 18) = rq tin - rq tin * ((spread : ℚ) / 10 ^ 18) := by ring
    rw [l3] at ham
    linarith
  -- kq X' Y' W ≥ kq Xf (Yf·(1 + 19 eps)) W ≥ (1 + 19 eps)·kq Xf Yf W
  have hscale := kq_scale_y (w := sumSq ((othersOf p dIn dOut).map xq)) hxf'.le hYf.le
    (show (0 : ℚ) ≤ 19 * eps by positivity)
  have hmono : kq (rq x0 - rq xOut) (rq (y0 + ammIn) * (1 + 19 * eps)) (sumSq ((othersOf p dIn dOut).map xq))
      ≤ kq (xq { aOut with amount := aOut.amount - out }) (xq { aIn with amount := aIn.amount + amt })
          (sumSq ((othersOf p dIn dOut).map xq)) :=
    kq_mono hxf'.le (by positivity) hWn hX' (by linarith) le_rfl
  have hKf : 0 ≤ kq (rq x0 - rq xOut) (rq (y0 + ammIn)) (sumSq ((othersOf p dIn dOut).map xq)) :=
    kq_nonneg hxf'.le hYf.le hWn
  have he36 : eps ≤ 1 / 1000 := by unfold eps; norm_num
  have fin : kq (xq aOut) (xq aIn) (sumSq ((othersOf p dIn dOut).map xq))
      ≤ kq (xq { aOut with amount := aOut.amount - out }) (xq { aIn with amount := aIn.amount + amt })
          (sumSq ((othersOf p dIn dOut).map xq)) := by
    have a : (1 - 18 * eps) * kq (xq aOut) (xq aIn) (sumSq ((othersOf p dIn dOut).map xq))
        ≤ kq (rq x0 - rq xOut) (rq (y0 + ammIn)) (sumSq ((othersOf p dIn dOut).map xq)) := by linarith
    have b : (1 + 19 * eps) * ((1 - 18 * eps) * kq (xq aOut) (xq aIn) (sumSq ((othersOf p dIn dOut).map xq)))
        ≤ (1 + 19 * eps) * kq (rq x0 - rq xOut) (rq (y0 + ammIn)) (sumSq ((othersOf p dIn dOut).map xq)) :=
      mul_le_mul_of_nonneg_left a (by positivity)
    have c : 1 ≤ (1 + 19 * eps) * (1 - 18 * eps) := by nlinarith
    have d := mul_le_mul_of_nonneg_right c hK
    have e : (1 + 19 * eps) * (1 - 18 * eps) * kq (xq aOut) (xq aIn) (sumSq ((othersOf p dIn dOut).map xq))
        = (1 + 19 * eps) * ((1 - 18 * eps) * kq (xq aOut) (xq aIn) (sumSq ((othersOf p dIn dOut).map xq))) := by
      ring
    linarith
  rw [e0, e1, kq_symm (xq aIn), kq_symm (xq { aIn with amount := aIn.amount + amt })]
  exact mul_le_mul_of_nonneg_right fin hP

end OsmoVerif.GammMath.SS
