/- Generic lemmas for the lockup model: association lists, the lock store, sums over locks, the
reference index.  Core only. -/
import OsmoVerif.Model.Lockup
namespace OsmoVerif.Lockup

/-! ## association lists -/

theorem aget_aadd {κ : Type} [DecidableEq κ] (l : List (κ × Int)) (k k' : κ) (a : Int) :
    aget (aadd l k a) k' = aget l k' + (if k = k' then a else 0) := by
  induction l with
  | nil =>
    simp only [aadd, aget]
    split <;> omega
  | cons x xs ih =>
    obtain ⟨kx, v⟩ := x
    simp only [aadd]
    by_cases h : kx = k
    · subst h
      simp only [if_true, aget]
      split <;> omega
    · simp only [if_neg h, aget]
      by_cases h2 : kx = k'
      · subst h2
        have : ¬ k = kx := fun e => h e.symm
        simp only [if_true, if_neg this]; omega
      · simp only [if_neg h2]; exact ih

theorem accSumGE_aadd (l : List ((Denom × Int) × Int)) (dn0 : Denom) (k : Int) (a : Int) (dn : Denom) (d : Int) :
    accSumGE (aadd l (dn0, k) a) dn d = accSumGE l dn d + (if dn0 = dn ∧ d ≤ k then a else 0) := by
  induction l with
  | nil =>
    simp only [aadd, accSumGE]; omega
  | cons x xs ih =>
    obtain ⟨⟨dx, kx⟩, v⟩ := x
    simp only [aadd]
    by_cases h : (dx, kx) = (dn0, k)
    · injection h with h1 h2
      subst h1; subst h2
      simp only [if_true, accSumGE]
      split <;> omega
    · simp only [if_neg h, accSumGE, ih]; omega

theorem mem_insertBy {α : Type} (le : α → α → Bool) (a x : α) (l : List α) : x ∈ insertBy le a l ↔ x = a ∨ x ∈ l := by
  induction l with
  | nil => simp [insertBy]
  | cons b bs ih =>
    simp only [insertBy]
    split
    · simp
    · simp only [List.mem_cons, ih]
      constructor
      · rintro (e | e | e)
        · exact Or.inr (Or.inl e)
        · exact Or.inl e
        · exact Or.inr (Or.inr e)
      · rintro (e | e | e)
        · exact Or.inr (Or.inl e)
        · exact Or.inl e
        · exact Or.inr (Or.inr e)

theorem mem_isortBy {α : Type} (le : α → α → Bool) (x : α) (l : List α) : x ∈ isortBy le l ↔ x ∈ l := by
  induction l with
  | nil => simp [isortBy]
  | cons a as ih => simp only [isortBy, mem_insertBy, ih, List.mem_cons]

/-! ## sums over the lock store -/

def lsum (f : Lock → Int) : List Lock → Int
  | [] => 0
  | l :: ls => f l + lsum f ls

def ids (L : List Lock) : List Nat := L.map (·.id)

theorem getLockL_some {L : List Lock} {i : Nat} {l : Lock} (h : getLockL L i = some l) : l ∈ L ∧ l.id = i := by
  unfold getLockL at h
  have h1 := List.find?_some h
  have h2 := List.mem_of_find?_eq_some h
  exact ⟨h2, by simpa using h1⟩

theorem getLockL_none {L : List Lock} {i : Nat} (h : getLockL L i = none) : ∀ l ∈ L, l.id ≠ i := by
  unfold getLockL at h
  intro l hl
  have := List.find?_eq_none.mp h l hl
  simpa using this

theorem getLockL_of_mem {L : List Lock} {l : Lock} (hn : (ids L).Nodup) (h : l ∈ L) : getLockL L l.id = some l := by
  induction L with
  | nil => cases h
  | cons x xs ih =>
    simp only [ids, List.map_cons, List.nodup_cons] at hn
    simp only [getLockL, List.find?_cons]
    by_cases hx : x.id = l.id
    · simp only [hx, decide_true]
      rcases List.mem_cons.mp h with e | e
      · rw [e]
      · exact absurd (List.mem_map.mpr ⟨l, e, hx.symm⟩) hn.1
    · simp only [hx, decide_false]
      rcases List.mem_cons.mp h with e | e
      · exact absurd (by rw [e]) hx
      · exact ih hn.2 e

/-- `L'` is `L` with the lock of id `new.id` (previously `old`, if any) replaced by / inserted as `new`. -/
structure Put (L L' : List Lock) (old : Option Lock) (new : Lock) : Prop where
  mem : ∀ x, x ∈ L' ↔ x = new ∨ (x ∈ L ∧ x.id ≠ new.id)
  nodup : (ids L').Nodup
  sum : ∀ f : Lock → Int, lsum f L' = lsum f L - (match old with | some o => f o | none => 0) + f new

theorem put_setLockL {L : List Lock} (new : Lock) (hn : (ids L).Nodup) :
    Put L (setLockL L new) (getLockL L new.id) new := by
  induction L with
  | nil =>
    refine ⟨?_, ?_, ?_⟩
    · intro x; simp [setLockL]
    · simp [setLockL, ids]
    · intro f; simp [setLockL, lsum, getLockL]
  | cons x xs ih =>
    simp only [ids, List.map_cons, List.nodup_cons] at hn
    have ih := ih hn.2
    by_cases hx : x.id = new.id
    · have hnot : ∀ y ∈ xs, y.id ≠ new.id := by
        intro y hy e
        exact hn.1 (List.mem_map.mpr ⟨y, hy, by rw [e, hx]⟩)
      have hset : setLockL (x :: xs) new = new :: xs := by simp [setLockL, hx]
      have hget : getLockL (x :: xs) new.id = some x := by simp [getLockL, hx]
      rw [hset, hget]
      refine ⟨?_, ?_, ?_⟩
      · intro y
        simp only [List.mem_cons]
        constructor
        · rintro (e | e)
          · exact Or.inl e
          · exact Or.inr ⟨Or.inr e, hnot y e⟩
        · rintro (e | ⟨e | e, hne⟩)
          · exact Or.inl e
          · exact absurd (by rw [e]; exact hx) hne
          · exact Or.inr e
      · simp only [ids, List.map_cons, List.nodup_cons]
        refine ⟨?_, hn.2⟩
        rw [← hx]; exact hn.1
      · intro f; simp only [lsum]; omega
    · have hset : setLockL (x :: xs) new = x :: setLockL xs new := by simp [setLockL, hx]
      have hget : getLockL (x :: xs) new.id = getLockL xs new.id := by simp [getLockL, hx]
      rw [hset, hget]
      refine ⟨?_, ?_, ?_⟩
      · intro y
        simp only [List.mem_cons, ih.mem]
        constructor
        · rintro (e | e | e)
          · exact Or.inr ⟨Or.inl e, by rw [e]; exact hx⟩
          · exact Or.inl e
          · exact Or.inr ⟨Or.inr e.1, e.2⟩
        · rintro (e | ⟨e | e, hne⟩)
          · exact Or.inr (Or.inl e)
          · exact Or.inl e
          · exact Or.inr (Or.inr ⟨e, hne⟩)
      · simp only [ids, List.map_cons, List.nodup_cons]
        refine ⟨?_, ih.nodup⟩
        intro hmem
        obtain ⟨y, hy, hyx⟩ := List.mem_map.mp hmem
        rcases (ih.mem y).mp hy with e | ⟨e, _⟩
        · rw [e] at hyx; exact hx hyx.symm
        · exact hn.1 (List.mem_map.mpr ⟨y, e, hyx⟩)
      · intro f; simp only [lsum, ih.sum f]; omega

/-- `L'` is `L` without the lock `old`. -/
structure Del (L L' : List Lock) (old : Lock) : Prop where
  mem : ∀ x, x ∈ L' ↔ (x ∈ L ∧ x.id ≠ old.id)
  nodup : (ids L').Nodup
  sum : ∀ f : Lock → Int, lsum f L' = lsum f L - f old

theorem del_deleteLockL {L : List Lock} {old : Lock} (hn : (ids L).Nodup) (ho : old ∈ L) :
    Del L (deleteLockL L old.id) old := by
  induction L with
  | nil => cases ho
  | cons x xs ih =>
    simp only [ids, List.map_cons, List.nodup_cons] at hn
    by_cases hx : x.id = old.id
    · have hxo : x = old := by
        rcases List.mem_cons.mp ho with e | e
        · exact e.symm
        · exact absurd (List.mem_map.mpr ⟨old, e, hx.symm⟩) hn.1
      subst hxo
      have hnot : ∀ y ∈ xs, y.id ≠ x.id := fun y hy e => hn.1 (List.mem_map.mpr ⟨y, hy, e⟩)
      have hdel : deleteLockL (x :: xs) x.id = xs := by
        simp only [deleteLockL, List.filter_cons, ne_eq, not_true_eq_false, decide_false]
        simp only [Bool.false_eq_true, if_false]
        apply List.filter_eq_self.mpr
        intro y hy; simpa using hnot y hy
      rw [hdel]
      refine ⟨?_, hn.2, ?_⟩
      · intro y
        simp only [List.mem_cons]
        constructor
        · intro e; exact ⟨Or.inr e, hnot y e⟩
        · rintro ⟨e | e, hne⟩
          · exact absurd (by rw [e]) hne
          · exact e
      · intro f; simp only [lsum]; omega
    · have ho' : old ∈ xs := by
        rcases List.mem_cons.mp ho with e | e
        · exact absurd (by rw [e]) hx
        · exact e
      have ih := ih hn.2 ho'
      have hdel : deleteLockL (x :: xs) old.id = x :: deleteLockL xs old.id := by
        simp [deleteLockL, hx]
      rw [hdel]
      refine ⟨?_, ?_, ?_⟩
      · intro y
        simp only [List.mem_cons, ih.mem]
        constructor
        · rintro (e | e)
          · exact ⟨Or.inl e, by rw [e]; exact hx⟩
          · exact ⟨Or.inr e.1, e.2⟩
        · rintro ⟨e | e, hne⟩
          · exact Or.inl e
          · exact Or.inr ⟨e, hne⟩
      · simp only [ids, List.map_cons, List.nodup_cons]
        refine ⟨?_, ih.nodup⟩
        intro hmem
        obtain ⟨y, hy, hyx⟩ := List.mem_map.mp hmem
        exact hn.1 (List.mem_map.mpr ⟨y, ((ih.mem y).mp hy).1, hyx⟩)
      · intro f; simp only [lsum, ih.sum f]; omega

theorem mem_unique {L : List Lock} (hn : (ids L).Nodup) {a b : Lock} (ha : a ∈ L) (hb : b ∈ L) (h : a.id = b.id) : a = b := by
  have h1 := getLockL_of_mem hn ha
  have h2 := getLockL_of_mem hn hb
  rw [h] at h1; rw [h1] at h2; injection h2


/-! ## the reference index -/

theorem mem_delRefsL {refs : List (RefKey × Nat)} {ks : List RefKey} {id : Nat} {p : RefKey × Nat} :
    p ∈ delRefsL refs ks id ↔ p ∈ refs ∧ ¬ (p.2 = id ∧ p.1 ∈ ks) := by
  simp only [delRefsL, List.mem_filter, Bool.not_eq_eq_eq_not, Bool.not_true, Bool.and_eq_false_imp,
    decide_eq_true_eq, List.contains_eq_mem, decide_eq_false_iff_not, not_and]

theorem nodup_delRefsL {refs : List (RefKey × Nat)} (ks : List RefKey) (id : Nat) (h : refs.Nodup) :
    (delRefsL refs ks id).Nodup := List.Pairwise.filter _ h

theorem addRefsL_spec : ∀ (ks : List RefKey) (refs r : List (RefKey × Nat)) (id : Nat),
    addRefsL refs ks id = some r →
    (∀ p, p ∈ r ↔ p ∈ refs ∨ (p.2 = id ∧ p.1 ∈ ks)) ∧ (refs.Nodup → r.Nodup) := by
  intro ks
  induction ks with
  | nil =>
    intro refs r id h
    simp only [addRefsL, List.foldlM_nil] at h
    injection h with h; subst h
    exact ⟨by intro p; simp, fun hn => hn⟩
  | cons k ks ih =>
    intro refs r id h
    simp only [addRefsL, List.foldlM_cons] at h
    unfold addRef at h
    by_cases hm : (k, id) ∈ refs
    · simp [hm] at h
    · simp only [hm, if_false] at h
      have := ih ((k, id) :: refs) r id h
      refine ⟨?_, ?_⟩
      · intro p
        rw [this.1 p]
        simp only [List.mem_cons]
        constructor
        · rintro ((e | e) | e)
          · exact Or.inr ⟨by rw [e], Or.inl (by rw [e])⟩
          · exact Or.inl e
          · exact Or.inr ⟨e.1, Or.inr e.2⟩
        · rintro (e | ⟨e1, e2 | e2⟩)
          · exact Or.inl (Or.inr e)
          · exact Or.inl (Or.inl (by rw [← e1, ← e2]))
          · exact Or.inr ⟨e1, e2⟩
      · intro hn
        exact this.2 (List.nodup_cons.mpr ⟨hm, hn⟩)

/-- the index is exact for every lock except the (at most one) freshly split lock `o`, which has no
entry yet. -/
def RefsOK (o : Option Nat) (refs : List (RefKey × Nat)) (L : List Lock) : Prop :=
  ∀ k id, (k, id) ∈ refs ↔ (o ≠ some id ∧ ∃ l ∈ L, l.id = id ∧ k ∈ indexKeys l)

theorem indexKeys_sub (l : Lock) {k : RefKey} (h : k ∈ indexKeys l) :
    k ∈ (lockRefKeys l).map (RefKey.mk l.isUnlocking) := by
  unfold indexKeys at h
  split at h
  · exact h
  · obtain ⟨x, hx, rfl⟩ := List.mem_map.mp h
    apply List.mem_map.mpr
    refine ⟨x, ?_, rfl⟩
    unfold lockRefKeys
    simp only [List.append_assoc, List.mem_append]
    exact Or.inl hx

theorem refsOK_covered {o : Option Nat} {refs : List (RefKey × Nat)} {L : List Lock} (h : RefsOK o refs L)
    (hn : (ids L).Nodup) {ol : Lock} (hol : ol ∈ L) {k : RefKey} (hk : (k, ol.id) ∈ refs) :
    k ∈ (lockRefKeys ol).map (RefKey.mk ol.isUnlocking) := by
  obtain ⟨_, l, hl, hid, hkk⟩ := (h k ol.id).mp hk
  have := mem_unique hn hl hol hid
  subst this
  exact indexKeys_sub _ hkk

theorem refsOK_none_of_fresh {o : Option Nat} {refs : List (RefKey × Nat)} {L : List Lock} (h : RefsOK o refs L)
    {i : Nat} (hf : ∀ l ∈ L, l.id ≠ i) (k : RefKey) : (k, i) ∉ refs := by
  intro hk
  obtain ⟨_, l, hl, hid, _⟩ := (h k i).mp hk
  exact hf l hl hid

/-- the generic index lemma: `deleteRefs old ; addRefs new` (any superset of the old entries deleted). -/
theorem refsOK_put_reindex {o : Option Nat} {refs refs' : List (RefKey × Nat)} {L L' : List Lock}
    {old : Option Lock} {new : Lock} {ks : List RefKey}
    (h : RefsOK o refs L) (hp : Put L L' old new) (ho : o = none ∨ o = some new.id)
    (hks : ∀ k, (k, new.id) ∈ refs → k ∈ ks)
    (hadd : addRefsL (delRefsL refs ks new.id) (indexKeys new) new.id = some refs') :
    RefsOK none refs' L' := by
  intro k id
  rw [(addRefsL_spec _ _ _ _ hadd).1 (k, id), mem_delRefsL]
  simp only [ne_eq, reduceCtorEq, not_false_eq_true, true_and]
  by_cases hid : id = new.id
  · subst hid
    constructor
    · rintro (⟨h1, h2⟩ | ⟨_, h2⟩)
      · exact absurd ⟨rfl, hks k h1⟩ h2
      · exact ⟨new, (hp.mem new).mpr (Or.inl rfl), rfl, h2⟩
    · rintro ⟨l, hl, hlid, hk⟩
      rcases (hp.mem l).mp hl with e | ⟨_, e⟩
      · subst e; exact Or.inr ⟨rfl, hk⟩
      · exact absurd hlid e
  · constructor
    · rintro (⟨h1, _⟩ | ⟨h1, _⟩)
      · obtain ⟨_, l, hl, hlid, hk⟩ := (h k id).mp h1
        exact ⟨l, (hp.mem l).mpr (Or.inr ⟨hl, by rw [hlid]; exact hid⟩), hlid, hk⟩
      · exact absurd h1 hid
    · rintro ⟨l, hl, hlid, hk⟩
      rcases (hp.mem l).mp hl with e | ⟨e, _⟩
      · subst e; exact absurd hlid.symm hid
      · refine Or.inl ⟨(h k id).mpr ⟨?_, l, e, hlid, hk⟩, fun hh => hid hh.1⟩
        rcases ho with ho | ho
        · rw [ho]; simp
        · rw [ho]; intro e2; injection e2 with e2; exact hid e2.symm

theorem nodup_put_reindex {refs refs' : List (RefKey × Nat)} {new : Lock} {ks : List RefKey}
    (hn : refs.Nodup) (hadd : addRefsL (delRefsL refs ks new.id) (indexKeys new) new.id = some refs') : refs'.Nodup :=
  (addRefsL_spec _ _ _ _ hadd).2 (nodup_delRefsL _ _ hn)

/-- a lock record changes without touching its index keys. -/
theorem refsOK_put_same {o : Option Nat} {refs : List (RefKey × Nat)} {L L' : List Lock} {ol new : Lock}
    (h : RefsOK o refs L) (hn : (ids L).Nodup) (hp : Put L L' (some ol) new) (hol : ol ∈ L) (hid : ol.id = new.id)
    (hk : indexKeys new = indexKeys ol) : RefsOK o refs L' := by
  intro k id
  rw [h k id]
  constructor
  · rintro ⟨h0, l, hl, hlid, hkk⟩
    refine ⟨h0, ?_⟩
    by_cases e : l.id = new.id
    · have : l = ol := mem_unique hn hl hol (by rw [e, hid])
      subst this
      exact ⟨new, (hp.mem new).mpr (Or.inl rfl), by rw [← hlid, e], by rw [hk]; exact hkk⟩
    · exact ⟨l, (hp.mem l).mpr (Or.inr ⟨hl, e⟩), hlid, hkk⟩
  · rintro ⟨h0, l, hl, hlid, hkk⟩
    refine ⟨h0, ?_⟩
    rcases (hp.mem l).mp hl with e | ⟨e, _⟩
    · subst e
      exact ⟨ol, hol, by rw [hid, hlid], by rw [← hk]; exact hkk⟩
    · exact ⟨l, e, hlid, hkk⟩

/-- `SplitLock` stores a new lock without index entries. -/
theorem refsOK_put_orphan {refs : List (RefKey × Nat)} {L L' : List Lock} {new : Lock}
    (h : RefsOK none refs L) (hp : Put L L' none new) (hf : ∀ l ∈ L, l.id ≠ new.id) : RefsOK (some new.id) refs L' := by
  intro k id
  rw [h k id]
  simp only [ne_eq, reduceCtorEq, not_false_eq_true, true_and]
  constructor
  · rintro ⟨l, hl, hlid, hkk⟩
    have hne : l.id ≠ new.id := hf l hl
    refine ⟨?_, l, (hp.mem l).mpr (Or.inr ⟨hl, hne⟩), hlid, hkk⟩
    intro e; injection e with e; exact hne (by rw [hlid, e])
  · rintro ⟨h0, l, hl, hlid, hkk⟩
    rcases (hp.mem l).mp hl with e | ⟨e, _⟩
    · subst e; exact absurd (by rw [hlid]) h0
    · exact ⟨l, e, hlid, hkk⟩

theorem refsOK_del {o : Option Nat} {refs : List (RefKey × Nat)} {L L' : List Lock} {old : Lock} {ks : List RefKey}
    (h : RefsOK o refs L) (hd : Del L L' old) (ho : o = none ∨ o = some old.id)
    (hks : ∀ k, (k, old.id) ∈ refs → k ∈ ks) : RefsOK none (delRefsL refs ks old.id) L' := by
  intro k id
  rw [mem_delRefsL]
  simp only [ne_eq, reduceCtorEq, not_false_eq_true, true_and]
  constructor
  · rintro ⟨h1, h2⟩
    obtain ⟨_, l, hl, hlid, hkk⟩ := (h k id).mp h1
    by_cases e : id = old.id
    · subst e; exact absurd ⟨rfl, hks k h1⟩ h2
    · exact ⟨l, (hd.mem l).mpr ⟨hl, by rw [hlid]; exact e⟩, hlid, hkk⟩
  · rintro ⟨l, hl, hlid, hkk⟩
    obtain ⟨hl1, hl2⟩ := (hd.mem l).mp hl
    have hne : id ≠ old.id := by rw [← hlid]; exact hl2
    refine ⟨(h k id).mpr ⟨?_, l, hl1, hlid, hkk⟩, fun hh => hne hh.1⟩
    rcases ho with ho | ho
    · rw [ho]; simp
    · rw [ho]; intro e2; injection e2 with e2; exact hne e2.symm

end OsmoVerif.Lockup
