/- Lemmas for the integer side of C12 (`Model/NumInt.lean`): bit lengths, the 1024-bit check, the cheap
pre-check of `BigInt.Mul`, scaling of the rounding specs.  Core only. -/
import OsmoVerif.Model.NumInt
import OsmoVerif.Proofs.NumLemmas2

namespace OsmoVerif.Num
open OsmoVerif.Spec OsmoVerif.Gen

/-! ### bit length -/
theorem bitLen_zero : bitLen 0 = 0 := rfl

theorem bitLen_of_ne_zero {x : Int} (h : x ≠ 0) : bitLen x = x.natAbs.log2 + 1 := by
  unfold bitLen; rw [if_neg h]

/-- `2^(BitLen-1) ≤ |x| < 2^BitLen` for `x ≠ 0`. -/
theorem bitLen_bounds {x : Int} (h : x ≠ 0) :
    2 ^ (bitLen x - 1) ≤ x.natAbs ∧ x.natAbs < 2 ^ bitLen x := by
  have hn : x.natAbs ≠ 0 := by omega
  rw [bitLen_of_ne_zero h]
  exact ⟨by simpa using Nat.log2_self_le hn, Nat.lt_log2_self⟩

/-- `BitLen() ≤ n` is `|x| < 2^n` (what `fitsBits` says). -/
theorem fitsBits_iff_bitLen (n : Nat) (x : Int) : fitsBits n x = true ↔ bitLen x ≤ n := by
  constructor
  · intro h
    have hlt := fitsBits_lt h
    by_cases hx : x = 0
    · subst hx; rw [bitLen_zero]; exact Nat.zero_le _
    · have hn : x.natAbs ≠ 0 := by omega
      rw [bitLen_of_ne_zero hx]
      have := (Nat.log2_lt hn).2 hlt
      omega
  · intro h
    apply lt_fitsBits
    by_cases hx : x = 0
    · subst hx; exact Nat.pow_pos (by decide)
    · have hn : x.natAbs ≠ 0 := by omega
      rw [bitLen_of_ne_zero hx] at h
      exact (Nat.log2_lt hn).1 (by omega)

theorem fitsBits_neg' (n : Nat) (v : Int) : fitsBits n (-v) = fitsBits n v := by
  unfold fitsBits; rw [Int.natAbs_neg]

theorem fitsBits_natAbs (n : Nat) (v : Int) : fitsBits n (Int.ofNat v.natAbs) = fitsBits n v := by
  unfold fitsBits; simp

/-! ### the checks -/
theorem chkBigInt_of_fits {x : Int} (h : fitsBits Osmomath.maxBitLen x = true) : chkBigInt x = some x := by
  unfold chkBigInt; rw [if_pos h]
theorem chkBigInt_of_not_fits {x : Int} (h : ¬ fitsBits Osmomath.maxBitLen x = true) : chkBigInt x = none := by
  unfold chkBigInt; rw [if_neg h]
theorem chkBigInt_some {x r : Int} (h : chkBigInt x = some r) : r = x ∧ fitsBits Osmomath.maxBitLen x = true := by
  unfold chkBigInt at h; split at h
  · cases h; exact ⟨rfl, by assumption⟩
  · cases h
theorem chkInt_of_fits {x : Int} (h : fitsBits Osmomath.sdkMaxBitLen x = true) : chkInt x = some x := by
  unfold chkInt; rw [if_pos h]
theorem chkInt_of_not_fits {x : Int} (h : ¬ fitsBits Osmomath.sdkMaxBitLen x = true) : chkInt x = none := by
  unfold chkInt; rw [if_neg h]

/-- the bound as a proposition on `natAbs` -/
theorem fits_iff_lt (n : Nat) (x : Int) : fitsBits n x = true ↔ x.natAbs < 2 ^ n :=
  ⟨fitsBits_lt, lt_fitsBits⟩

/-! ### the pre-check of `BigInt.Mul` -/

/-- for non-zero operands the pre-check fires only when the product really overflows:
`len a + len b − 1` is the MINIMUM bit length of the product. -/
theorem mulPre_imp_overflow {a b : Int} (ha : a ≠ 0) (hb : b ≠ 0) (h : BigInt.mulPre a b = true) :
    ¬ (a * b).natAbs < 2 ^ Osmomath.maxBitLen := by
  unfold BigInt.mulPre at h
  have h' : (Osmomath.maxBitLen : Int) < ((bitLen a + bitLen b : Nat) : Int) - 1 := by simpa using h
  have hsum : Osmomath.maxBitLen + 2 ≤ bitLen a + bitLen b := by omega
  obtain ⟨la, _⟩ := bitLen_bounds ha
  obtain ⟨lb, _⟩ := bitLen_bounds hb
  have hla : 1 ≤ bitLen a := by rw [bitLen_of_ne_zero ha]; omega
  have hlb : 1 ≤ bitLen b := by rw [bitLen_of_ne_zero hb]; omega
  rw [Int.natAbs_mul]
  have hprod : 2 ^ (bitLen a - 1) * 2 ^ (bitLen b - 1) ≤ a.natAbs * b.natAbs := Nat.mul_le_mul la lb
  rw [← Nat.pow_add] at hprod
  have hexp : Osmomath.maxBitLen ≤ bitLen a - 1 + (bitLen b - 1) := by omega
  have := Nat.pow_le_pow_right (n := 2) (by decide) hexp
  omega

/-- operands within the bound: a representable product passes the pre-check. -/
theorem mulPre_false_of_fits {a b : Int} (ha : fitsBits Osmomath.maxBitLen a = true)
    (hb : fitsBits Osmomath.maxBitLen b = true) (hab : (a * b).natAbs < 2 ^ Osmomath.maxBitLen) :
    BigInt.mulPre a b = false := by
  cases hp : BigInt.mulPre a b with
  | false => rfl
  | true =>
    exfalso
    by_cases ha0 : a = 0
    · subst ha0
      unfold BigInt.mulPre at hp
      have hlb := (fitsBits_iff_bitLen _ _).1 hb
      rw [bitLen_zero] at hp
      have : (Osmomath.maxBitLen : Int) < ((0 + bitLen b : Nat) : Int) - 1 := by simpa using hp
      omega
    · by_cases hb0 : b = 0
      · subst hb0
        unfold BigInt.mulPre at hp
        have hla := (fitsBits_iff_bitLen _ _).1 ha
        rw [bitLen_zero] at hp
        have : (Osmomath.maxBitLen : Int) < ((bitLen a + 0 : Nat) : Int) - 1 := by simpa using hp
        omega
      · exact mulPre_imp_overflow ha0 hb0 hp hab

/-! ### magnitudes -/
theorem P36_natAbs_lt : P36.natAbs < 2 ^ Osmomath.BigDecimalPrecisionBits := by decide +kernel
theorem P18_natAbs_lt : P18.natAbs < 2 ^ Osmomath.sdkLegacyDecimalPrecisionBits := by decide +kernel

/-- a value of at most `m` bits times a factor below `2^k` has at most `m + k` bits. -/
theorem natAbs_mul_lt {a f : Int} {m k : Nat} (ha : a.natAbs < 2 ^ m) (hf : f.natAbs < 2 ^ k) :
    (a * f).natAbs < 2 ^ (m + k) := by
  rw [Int.natAbs_mul, Nat.pow_add]
  by_cases hf0 : f.natAbs = 0
  · rw [hf0, Nat.mul_zero]; exact Nat.mul_pos (Nat.pow_pos (by decide)) (Nat.pow_pos (by decide))
  · exact Nat.lt_of_lt_of_le (Nat.mul_lt_mul_of_pos_right ha (by omega)) (Nat.mul_le_mul_left _ (Nat.le_of_lt hf))

theorem maxDecBitLen_eq : Osmomath.maxDecBitLen = Osmomath.maxBitLen + Osmomath.BigDecimalPrecisionBits := by decide

/-- a BigInt times a factor below 2^120 fits the BigDec bound (1024 + 120 = 1144 bits). -/
theorem fits_dec_of_mul {a f : Int} (ha : a.natAbs < 2 ^ Osmomath.maxBitLen)
    (hf : f.natAbs < 2 ^ Osmomath.BigDecimalPrecisionBits) : fitsBits Osmomath.maxDecBitLen (a * f) = true := by
  apply lt_fitsBits
  rw [maxDecBitLen_eq]
  exact natAbs_mul_lt ha hf

theorem pow10_natAbs_lt {k : Nat} (hk : k ≤ Osmomath.BigDecPrecision) :
    ((10 : Int) ^ k).natAbs < 2 ^ Osmomath.BigDecimalPrecisionBits := by
  rw [Int.natAbs_pow]
  exact Nat.lt_of_le_of_lt (Nat.pow_le_pow_right (by decide) hk) (by decide +kernel)

/-! ### scaling a rounding spec by a positive factor -/
theorem IsCeil.cancel_right {n d r k : Int} (hk : 0 < k) (h : IsCeil (n * k) (d * k) r) : IsCeil n d r := by
  obtain ⟨h1, h2⟩ := h
  refine ⟨lt_of_mul_lt_mul_pos hk ?_, Int.le_of_mul_le_mul_right ?_ hk⟩
  · rw [Int.mul_assoc]; exact h1
  · rw [Int.mul_assoc]; exact h2

theorem IsFloor.cancel_right {n d r k : Int} (hk : 0 < k) (h : IsFloor (n * k) (d * k) r) : IsFloor n d r := by
  obtain ⟨h1, h2⟩ := h
  refine ⟨Int.le_of_mul_le_mul_right ?_ hk, lt_of_mul_lt_mul_pos hk ?_⟩
  · rw [Int.mul_assoc]; exact h1
  · rw [Int.mul_assoc]; exact h2

theorem IsTrunc.cancel_right {n d r k : Int} (hk : 0 < k) (h : IsTrunc (n * k) (d * k) r) : IsTrunc n d r := by
  refine ⟨fun hn => IsFloor.cancel_right hk (h.1 (Int.mul_nonneg hn (Int.le_of_lt hk))),
    fun hn => IsCeil.cancel_right hk (h.2 (Int.mul_neg_of_neg_of_pos hn hk))⟩

/-! ### int64 -/
theorem u64ToI64_of_le {u : Int} (h : u ≤ int64Max) : u64ToI64 u = u := by
  unfold u64ToI64; rw [if_pos h]

end OsmoVerif.Num
