/- The pro-rata arithmetic of `distributeInternal`: what one lock receives (`lockCoins`), what a gauge pays in
total (`sumPays ∘ lockPays`), and the bound  Σ_locks ⌊R·aᵢ/(S·e)⌋ ≤ R.  Core only. -/
import OsmoVerif.Proofs.IncentivesCoins

namespace OsmoVerif.Incentives

/-- the share formula of one lock for a remaining amount `R`. -/
def share (R amt den : Int) : Int := (R * amt).tdiv den

/-- the entry map of `lockCoins`. -/
def lockEntry (thr : Filter) (den amt : Int) (c : Denom × Int) : Option (Denom × Int) :=
  if thr c.1 (share c.2 amt den) && decide (0 < share c.2 amt den) then some (c.1, share c.2 amt den) else none

theorem lockCoins_eq (thr : Filter) (remain : Coins) (den amt : Int) :
    lockCoins thr remain den amt = remain.filterMap (lockEntry thr den amt) := rfl

theorem lockEntry_fst {thr : Filter} {den amt : Int} (e r : Denom × Int) (h : lockEntry thr den amt e = some r) :
    r.1 = e.1 := by
  unfold lockEntry at h
  split at h
  · cases h; rfl
  · cases h

/-- **what a lock receives per denom**: the floor share of the remaining amount of that denom when it is
worth the minimum and positive, nothing otherwise. -/
theorem lockCoins_amount (thr : Filter) {remain : Coins} (hr : validCoins remain = true) (den amt : Int) (d : Denom) :
    amountOf (lockCoins thr remain den amt) d =
      if thr d (share (amountOf remain d) amt den) && decide (0 < share (amountOf remain d) amt den)
      then share (amountOf remain d) amt den else 0 := by
  rw [lockCoins_eq]
  induction remain with
  | nil =>
    have : share 0 amt den = 0 := by simp [share]
    simp [amountOf, this]
  | cons hd t ih =>
    obtain ⟨e, v⟩ := hd
    obtain ⟨hv, hl, ht⟩ := validCoins_cons.mp hr
    have hlf : lb e (t.filterMap (lockEntry thr den amt)) = true := lb_filterMap _ lockEntry_fst hl
    by_cases hx : e = d
    · subst hx
      have ha : amountOf ((e, v) :: t) e = v := by simp only [amountOf, ↓reduceIte, amountOf_of_lb hl, Int.add_zero]
      rw [ha]
      simp only [List.filterMap_cons]
      have hle : lockEntry thr den amt (e, v) =
          if thr e (share v amt den) && decide (0 < share v amt den) then some (e, share v amt den) else none := rfl
      rw [hle]
      by_cases hc : (thr e (share v amt den) && decide (0 < share v amt den)) = true
      · simp only [hc, ↓reduceIte, amountOf, amountOf_of_lb hlf, Int.add_zero]
      · simp only [hc, Bool.false_eq_true, ↓reduceIte]
        exact amountOf_of_lb hlf
    · have ha : amountOf ((e, v) :: t) d = amountOf t d := by simp only [amountOf, if_neg hx, Int.zero_add]
      rw [ha, ← ih ht]
      simp only [List.filterMap_cons]
      cases hs : lockEntry thr den amt (e, v) with
      | none => rfl
      | some r =>
        have : r.1 = e := lockEntry_fst _ _ hs
        obtain ⟨r1, r2⟩ := r
        simp only at this; subst this
        simp only [amountOf, if_neg hx, Int.zero_add]

theorem lockCoins_valid (thr : Filter) {remain : Coins} (hr : validCoins remain = true) (den amt : Int) :
    validCoins (lockCoins thr remain den amt) = true := by
  rw [lockCoins_eq]
  induction remain with
  | nil => rfl
  | cons hd t ih =>
    obtain ⟨e, v⟩ := hd
    obtain ⟨hv, hl, ht⟩ := validCoins_cons.mp hr
    have hlf : lb e (t.filterMap (lockEntry thr den amt)) = true := lb_filterMap _ lockEntry_fst hl
    simp only [List.filterMap_cons]
    have hle : lockEntry thr den amt (e, v) =
        if thr e (share v amt den) && decide (0 < share v amt den) then some (e, share v amt den) else none := rfl
    rw [hle]
    by_cases hc : (thr e (share v amt den) && decide (0 < share v amt den)) = true
    · simp only [hc, ↓reduceIte]
      simp only [Bool.and_eq_true, decide_eq_true_eq] at hc
      exact validCoins_cons.mpr ⟨hc.2, hlf, ih ht⟩
    · simp only [hc, Bool.false_eq_true, ↓reduceIte]
      exact ih ht

/-! ### sums over pays -/

def paysAmt : List Pay → Denom → Int
  | [], _ => 0
  | p :: ps, d => amountOf p.coins d + paysAmt ps d

theorem amountOf_sumPays (ps : List Pay) (d : Denom) : amountOf (sumPays ps) d = paysAmt ps d := by
  induction ps with
  | nil => rfl
  | cons p ps ih => simp only [sumPays, amountOf_addCoins, ih, paysAmt]; omega

theorem valid_sumPays {ps : List Pay} (h : ∀ p ∈ ps, validCoins p.coins = true) : validCoins (sumPays ps) = true := by
  induction ps with
  | nil => rfl
  | cons p ps ih =>
    simp only [sumPays]
    exact valid_addCoins (ih (fun q hq => h q (List.mem_cons_of_mem _ hq))) (h p (List.mem_cons_self ..))

/-- Σ over the locks of what each receives of denom `d`. -/
def locksAmt (thr thr' : Filter) (remain : Coins) (den : Int) : List Lock → Denom → Int
  | [], _ => 0
  | l :: ls, d => amountOf (lockCoins thr remain den l.amount) d + locksAmt thr' thr' remain den ls d

theorem isEmpty_amountOf {c : Coins} (h : c.isEmpty = true) (d : Denom) : amountOf c d = 0 := by
  cases c with
  | nil => rfl
  | cons _ _ => cases h

theorem paysAmt_lockPays (thr thr' : Filter) (remain : Coins) (den : Int) (ls : List Lock) (d : Denom) :
    paysAmt (lockPays thr thr' remain den ls) d = locksAmt thr thr' remain den ls d := by
  induction ls generalizing thr with
  | nil => rfl
  | cons l ls ih =>
    simp only [lockPays, locksAmt]
    split
    · rename_i he
      rw [ih, isEmpty_amountOf he]; omega
    · simp only [paysAmt, ih]

theorem lockPays_valid (thr thr' : Filter) {remain : Coins} (hr : validCoins remain = true) (den : Int) (ls : List Lock) :
    ∀ p ∈ lockPays thr thr' remain den ls, validCoins p.coins = true := by
  induction ls generalizing thr with
  | nil => intro p hp; cases hp
  | cons l ls ih =>
    intro p hp
    simp only [lockPays] at hp
    split at hp
    · exact ih _ p hp
    · rcases List.mem_cons.mp hp with rfl | h
      · exact lockCoins_valid thr hr den _
      · exact ih _ p h

/-! ### the bound -/

theorem share_nonneg {R amt den : Int} (hR : 0 ≤ R) (ha : 0 ≤ amt) (hd : 0 < den) : 0 ≤ share R amt den := by
  unfold share
  rw [Int.tdiv_eq_ediv_of_nonneg (Int.mul_nonneg hR ha)]
  exact Int.ediv_nonneg (Int.mul_nonneg hR ha) (by omega)

theorem den_mul_share_le {R amt den : Int} (hR : 0 ≤ R) (ha : 0 ≤ amt) (hd : 0 < den) :
    den * share R amt den ≤ R * amt := by
  unfold share
  rw [Int.tdiv_eq_ediv_of_nonneg (Int.mul_nonneg hR ha)]
  exact Int.mul_ediv_self_le (by omega)

theorem lockCoins_amount_le (thr : Filter) {remain : Coins} (hr : validCoins remain = true) {den : Int} (hd : 0 < den)
    (amt : Nat) (d : Denom) :
    0 ≤ amountOf (lockCoins thr remain den amt) d ∧
    amountOf (lockCoins thr remain den amt) d ≤ share (amountOf remain d) amt den := by
  rw [lockCoins_amount thr hr]
  have hn := share_nonneg (amountOf_nonneg hr d) (Int.natCast_nonneg amt) hd
  split <;> omega

theorem den_mul_locksAmt_le (thr thr' : Filter) {remain : Coins} (hr : validCoins remain = true) {den : Int} (hd : 0 < den)
    (ls : List Lock) (d : Denom) :
    0 ≤ locksAmt thr thr' remain den ls d ∧ den * locksAmt thr thr' remain den ls d ≤ amountOf remain d * lockSum ls := by
  induction ls generalizing thr with
  | nil => simp [locksAmt, lockSum]
  | cons l ls ih =>
    have ih := ih thr'
    obtain ⟨h0, h1⟩ := lockCoins_amount_le thr hr hd l.amount d
    have h2 := den_mul_share_le (amountOf_nonneg hr d) (Int.natCast_nonneg l.amount) hd
    have h3 : den * amountOf (lockCoins thr remain den l.amount) d ≤ den * share (amountOf remain d) l.amount den :=
      Int.mul_le_mul_of_nonneg_left h1 (by omega)
    simp only [locksAmt, lockSum, Int.mul_add]
    omega

/-- **Σ of the floor shares never exceeds the remaining amount** (`S = lockSum > 0`, `e ≥ 1` remaining epochs). -/
theorem locksAmt_le_remain (thr thr' : Filter) {remain : Coins} (hr : validCoins remain = true) (ls : List Lock) {e : Int}
    (hS : 0 < lockSum ls) (he : 1 ≤ e) (d : Denom) :
    0 ≤ locksAmt thr thr' remain (lockSum ls * e) ls d ∧ locksAmt thr thr' remain (lockSum ls * e) ls d ≤ amountOf remain d := by
  have hd : 0 < lockSum ls * e := Int.mul_pos hS (by omega)
  obtain ⟨h0, h1⟩ := den_mul_locksAmt_le thr thr' hr hd ls d
  refine ⟨h0, ?_⟩
  have hR := amountOf_nonneg hr d
  have h2 : lockSum ls * 1 ≤ lockSum ls * e := Int.mul_le_mul_of_nonneg_left he (by omega)
  have h3 : amountOf remain d * (lockSum ls * 1) ≤ amountOf remain d * (lockSum ls * e) :=
    Int.mul_le_mul_of_nonneg_left h2 hR
  rw [Int.mul_one] at h3
  have h4 : lockSum ls * e * locksAmt thr thr' remain (lockSum ls * e) ls d ≤ lockSum ls * e * amountOf remain d := by
    rw [Int.mul_comm (lockSum ls * e) (amountOf remain d)]
    omega
  exact Int.le_of_mul_le_mul_left h4 hd

end OsmoVerif.Incentives
