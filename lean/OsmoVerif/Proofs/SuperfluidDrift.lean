/- C11: how far the stake of an intermediary account can be from the exact value of the locks connected to it
between two epoch refreshes: every stake-changing call moves it by `value(amount moved)`, which is within one
base unit of the exact product, so the distance grows by at most one unit per such call. Core only. -/
import OsmoVerif.Proofs.SuperfluidFrames

namespace OsmoVerif.Superfluid
open OsmoVerif.Num

/-- `GetSuperfluidOSMOTokens(denom, x)` as a total function of the state's parameters. -/
def vOf (s : State) (d : Nat) (x : Int) : Int := if s.mult d = 0 then 0 else value (s.mult d) s.riskFactor x

/-- the total the refresh reads for account `k`. -/
def accB (s : State) (k : AccKey) : Int := accFrom (s.accum (.bonding, k)) s.unbondingTime

/-- `10^36 · stake − multiplier · total · (10^18 − riskFactor)`: the signed distance, scaled by `10^36`, between
the stake of account `k` and the exact (unrounded) risk-adjusted value of the total connected to it. -/
def dev (s : State) (k : AccKey) : Int :=
  delegated s k * (P18 * P18) - s.mult k.1 * accB s k * (P18 - s.riskFactor)

/-- the parameters the value depends on. -/
structure SameP (s s' : State) : Prop where
  mult : s'.mult = s.mult
  assets : s'.assets = s.assets
  rf : s'.riskFactor = s.riskFactor
  ub : s'.unbondingTime = s.unbondingTime
  vals : s'.validators = s.validators

theorem SameP.refl (s : State) : SameP s s := ⟨rfl, rfl, rfl, rfl, rfl⟩
theorem SameP.trans {a b c : State} (h1 : SameP a b) (h2 : SameP b c) : SameP a c :=
  ⟨h2.mult.trans h1.mult, h2.assets.trans h1.assets, h2.rf.trans h1.rf, h2.ub.trans h1.ub, h2.vals.trans h1.vals⟩

theorem SameP.vOf {s s' : State} (h : SameP s s') (d : Nat) (x : Int) : vOf s' d x = vOf s d x := by
  unfold Superfluid.vOf; rw [h.mult, h.rf]

/-- one adjustment of the pair (stake, connected total) of an account, for multiplier `m` and risk factor `rf`:
nothing; add `x` and its value; remove `x` and its value; remove `x` from an account that has no stake. -/
def Move1 (v : Int → Int) (p p' : Int × Int) : Prop :=
  p' = p ∨
  (∃ x, p'.2 = p.2 + x ∧ p'.1 = p.1 + v x) ∨
  (∃ x, p'.2 = p.2 - x ∧ p'.1 = p.1 - v x) ∨
  (∃ x, 0 ≤ x ∧ p'.2 = p.2 - x ∧ 0 ≤ p'.2 ∧ p.1 = 0 ∧ p'.1 = 0)

/-- at most `n` adjustments. -/
def MoveN (v : Int → Int) : Nat → Int × Int → Int × Int → Prop
  | 0, p, p' => p' = p
  | n + 1, p, p' => ∃ q, MoveN v n p q ∧ Move1 v q p'

theorem MoveN.mono {v : Int → Int} : ∀ {n : Nat} {p p' : Int × Int}, MoveN v n p p' → MoveN v (n + 1) p p'
  | _, _, p', h => ⟨p', h, Or.inl rfl⟩

/-- `10^36·D − m·A·w` for a pair. -/
def devP (m w : Int) (p : Int × Int) : Int := p.1 * (P18 * P18) - m * p.2 * w

theorem mul_add_mul (m a x w : Int) : m * (a + x) * w = m * a * w + m * x * w := by rw [Int.mul_add, Int.add_mul]
theorem mul_sub_mul (m a x w : Int) : m * (a - x) * w = m * a * w - m * x * w := by rw [Int.mul_sub, Int.sub_mul]

theorem move1_bound {m rf : Int} (h0 : 0 ≤ rf) (h1 : rf ≤ P18) (hm : 0 ≤ m) {p p' : Int × Int}
    (hmv : Move1 (fun x => if m = 0 then 0 else value m rf x) p p') {n : Int}
    (hlo : -(n * (P18 * P18)) ≤ devP m (P18 - rf) p) (hhi : devP m (P18 - rf) p ≤ n * (P18 * P18)) :
    -((n + 1) * (P18 * P18)) ≤ devP m (P18 - rf) p' ∧ devP m (P18 - rf) p' ≤ (n + 1) * (P18 * P18) := by
  have hPP : 0 ≤ P18 * P18 := by decide
  rw [Int.add_mul, Int.one_mul]
  unfold devP at *
  rcases hmv with he | ⟨x, ha, hd⟩ | ⟨x, ha, hd⟩ | ⟨x, hx, ha, ha0, hd0, hd0'⟩
  · subst he; constructor <;> omega
  · rw [ha, hd]
    by_cases hm0 : m = 0
    · simp only [hm0, if_true, Int.zero_mul, Int.add_zero] at *
      constructor <;> omega
    · simp only [hm0, if_false]
      obtain ⟨u1, u2⟩ := value_within_one_unit (m := m) (x := x) h0 h1
      rw [mul_add_mul, Int.add_mul]
      constructor <;> omega
  · rw [ha, hd]
    by_cases hm0 : m = 0
    · simp only [hm0, if_true, Int.zero_mul, Int.sub_zero] at *
      constructor <;> omega
    · simp only [hm0, if_false]
      obtain ⟨u1, u2⟩ := value_within_one_unit (m := m) (x := x) h0 h1
      rw [mul_sub_mul, Int.sub_mul]
      constructor <;> omega
  · -- no stake before and after: the distance shrinks towards zero
    rw [hd0']
    rw [hd0] at hlo hhi
    have hw : 0 ≤ P18 - rf := by omega
    have hle : p'.2 ≤ p.2 := by omega
    have k1 : m * p'.2 * (P18 - rf) ≤ m * p.2 * (P18 - rf) :=
      Int.mul_le_mul_of_nonneg_right (Int.mul_le_mul_of_nonneg_left hle hm) hw
    have k2 : 0 ≤ m * p'.2 * (P18 - rf) := Int.mul_nonneg (Int.mul_nonneg hm ha0) hw
    constructor <;> omega

theorem moveN_bound {m rf : Int} (h0 : 0 ≤ rf) (h1 : rf ≤ P18) (hm : 0 ≤ m) :
    ∀ (c : Nat) {p p' : Int × Int}, MoveN (fun x => if m = 0 then 0 else value m rf x) c p p' → ∀ {n : Int},
      -(n * (P18 * P18)) ≤ devP m (P18 - rf) p → devP m (P18 - rf) p ≤ n * (P18 * P18) →
      -((n + c) * (P18 * P18)) ≤ devP m (P18 - rf) p' ∧ devP m (P18 - rf) p' ≤ (n + c) * (P18 * P18)
  | 0, p, p', h, n, hlo, hhi => by
    have : p' = p := h
    subst this
    simp only [Int.natCast_zero, Int.add_zero]
    exact ⟨hlo, hhi⟩
  | c + 1, p, p', h, n, hlo, hhi => by
    obtain ⟨q, hq, h1q⟩ := h
    obtain ⟨a, b⟩ := moveN_bound h0 h1 hm c hq hlo hhi
    have := move1_bound h0 h1 hm h1q a b
    have e : n + ((c + 1 : Nat) : Int) = n + (c : Int) + 1 := by push_cast; omega
    rw [e]; exact this

/-! ## what each primitive does to (stake, connected total) -/

/-- the pair of account `k`. -/
def pairOf (s : State) (k : AccKey) : Int × Int := (delegated s k, accB s k)

theorem dev_eq_devP (s : State) (k : AccKey) : dev s k = devP (s.mult k.1) (P18 - s.riskFactor) (pairOf s k) := rfl

/-- nothing the pair depends on changed. -/
structure SameDA (s s' : State) : Prop where
  p : SameP s s'
  deleg : s'.deleg = s.deleg
  accumB : ∀ k, s'.accum (.bonding, k) = s.accum (.bonding, k)

theorem SameDA.refl (s : State) : SameDA s s := ⟨SameP.refl s, rfl, fun _ => rfl⟩
theorem SameDA.trans {a b c : State} (h1 : SameDA a b) (h2 : SameDA b c) : SameDA a c :=
  ⟨h1.p.trans h2.p, h2.deleg.trans h1.deleg, fun k => (h2.accumB k).trans (h1.accumB k)⟩

theorem SameDA.pair {s s' : State} (h : SameDA s s') (k : AccKey) : pairOf s' k = pairOf s k := by
  unfold pairOf delegated accB
  rw [h.deleg, h.accumB k, h.p.ub]

theorem da_createLock {s s' : State} {o d : Nat} {a du : Int} {sg : Bool} {id : Nat}
    (hc : createLock s o d a du sg = .ok (s', id)) : SameDA s s' := by
  unfold createLock at hc
  split at hc
  · cases hc
  · injection hc with hc
    injection hc with hc _
    subst hc
    exact ⟨⟨rfl, rfl, rfl, rfl, rfl⟩, rfl, fun _ => rfl⟩

theorem da_beginUnlock {s s' : State} {id nid : Nat} {c : Option Int} (hc : beginUnlock s id c = .ok (s', nid)) :
    SameDA s s' := by
  obtain ⟨l, _, _, hcase⟩ := beginUnlock_ok hc
  rcases hcase with ⟨_, _, hs'⟩ | ⟨a, _, _, _, _, _, hs'⟩ <;>
    (subst hs'; exact ⟨⟨rfl, rfl, rfl, rfl, rfl⟩, rfl, fun _ => rfl⟩)

theorem da_getOrCreateAcc (s : State) (key : AccKey) : SameDA s (getOrCreateAcc s key) := by
  unfold getOrCreateAcc; split <;> exact ⟨⟨rfl, rfl, rfl, rfl, rfl⟩, rfl, fun _ => rfl⟩

theorem da_createUnbonding {s s' : State} {id : Nat} {key : AccKey} (hc : createSynth s id .unbonding key = .ok s') :
    SameDA s s' := by
  obtain ⟨_, l, _, _, _, hs'⟩ := createSynth_ok hc
  subst hs'
  refine ⟨⟨rfl, rfl, rfl, rfl, rfl⟩, rfl, fun k => ?_⟩
  dsimp only
  simp only [updK, ukey_ne, if_false]

theorem da_deleteUnbonding {s s' : State} {id : Nat} {key : AccKey} (hc : deleteSynth s id .unbonding key = .ok s') :
    SameDA s s' := by
  obtain ⟨_, l, _, _, hs'⟩ := deleteSynth_ok hc
  subst hs'
  refine ⟨⟨rfl, rfl, rfl, rfl, rfl⟩, rfl, fun k => ?_⟩
  dsimp only
  simp only [updK, ukey_ne, if_false]

theorem sameP_mint {s s' : State} {a : Int} {k : AccKey} (hc : mintAndDelegate s a k = .ok s') :
    SameP s s' ∧ ∀ k', s'.accum k' = s.accum k' := by
  obtain ⟨f, _⟩ := mint_ledger hc
  exact ⟨⟨f.mult, f.assets, f.rf, f.ub, f.vals⟩, fun k' => by rw [f.accum]⟩

theorem sameP_burn {s s' : State} {a : Int} {k : AccKey} (hc : forceUndelegateAndBurn s a k = .ok s') :
    SameP s s' ∧ ∀ k', s'.accum k' = s.accum k' := by
  obtain ⟨f, _⟩ := burn_ledger hc
  exact ⟨⟨f.mult, f.assets, f.rf, f.ub, f.vals⟩, fun k' => by rw [f.accum]⟩

/-! ## SuperfluidDelegate, SuperfluidUndelegate, add-to-lock -/

/-- assets carry the non-zero multipliers (true of every `reset` state; no call but the epoch touches either). -/
def MultAsset (s : State) : Prop := ∀ d, s.mult d ≠ 0 → d ∈ s.assets

theorem osmoTokens_vOf {s : State} {d : Nat} {x v : Int} (h : osmoTokens s d x = .ok v) : v = vOf s d x :=
  osmoTokens_eq h

theorem move_superfluidDelegate {s s' : State} {sender id val : Nat} (hc : superfluidDelegate s sender id val = .ok s') :
    SameP s s' ∧ ∀ k, Move1 (vOf s k.1) (pairOf s k) (pairOf s' k) := by
  obtain ⟨l, s3, amt, hl, _, _, _, _, _, _, h7, h8, _, h10⟩ := superfluidDelegate_ok hc
  have g := da_getOrCreateAcc s (l.denom, val)
  obtain ⟨_, l', hl', _, _, hs3⟩ := createSynth_ok h7
  dsimp only at hl'
  rw [(getOrCreateAcc_core s (l.denom, val)).locks, hl] at hl'
  injection hl' with hl'; subst hl'
  -- parameters and ledger of s3
  have p3 : SameP s s3 := by
    subst hs3
    exact ⟨g.p.mult, g.p.assets, g.p.rf, g.p.ub, g.p.vals⟩
  have d3 : s3.deleg = s.deleg := by subst hs3; exact g.deleg
  obtain ⟨pm, am⟩ := sameP_mint h10
  obtain ⟨_, dm⟩ := mint_ledger h10
  have hamt : amt = vOf s l.denom l.amount := by rw [osmoTokens_vOf h8, p3.vOf]
  refine ⟨p3.trans pm, fun k => ?_⟩
  have hub : s'.unbondingTime = s.unbondingTime := (p3.trans pm).ub
  have hd3 : ∀ k', delegated s3 k' = delegated s k' := by
    intro k'; unfold delegated; rw [d3]
  by_cases ek : k = (l.denom, val)
  · subst ek
    refine Or.inr (Or.inl ⟨l.amount, ?_, ?_⟩)
    · show accB s' _ = accB s _ + l.amount
      unfold accB
      rw [am, hub]
      subst hs3
      dsimp only
      simp only [updK, if_true]
      rw [accFrom_accAdd, g.p.ub, if_pos (Int.le_refl _), g.accumB]
    · show delegated s' _ = delegated s _ + vOf s l.denom l.amount
      rw [dm, if_pos rfl, hd3, hamt]
  · refine Or.inl ?_
    unfold pairOf
    congr 1
    · rw [dm, if_neg ek, hd3]
    · unfold accB
      rw [am, hub]
      subst hs3
      dsimp only
      simp only [updK, bkey_ne ek, if_false]
      rw [g.accumB]

theorem move_undelegateCommon {s s' : State} {sender id : Nat} {key : AccKey} (h : Inv s) (h' : Inv s')
    (hc : undelegateCommon s sender id = .ok (s', key)) :
    SameP s s' ∧ ∀ k, Move1 (vOf s k.1) (pairOf s k) (pairOf s' k) := by
  obtain ⟨l, s2, amt, hl, _, _, hk, h3, h4, h5⟩ := undelegateCommon_ok hc
  obtain ⟨l0, hl0, _, _, hdur, hden, _, hpos⟩ := h.conn_lock hk
  rw [hl] at hl0; injection hl0 with hl0; subst hl0
  have hkey : (l.denom, key.2) = key := by rw [← hden]
  rw [hkey] at h3
  obtain ⟨_, l', hl', _, hs2⟩ := deleteSynth_ok h3
  dsimp only at hl'
  rw [hl] at hl'; injection hl' with hl'; subst hl'
  have p2 : SameP s s2 := by subst hs2; exact ⟨rfl, rfl, rfl, rfl, rfl⟩
  have d2 : ∀ k', delegated s2 k' = delegated s k' := by
    intro k'; subst hs2; rfl
  have a2 : ∀ k, accB s2 k = accB s k - (if k = key then l.amount else 0) := by
    intro k
    unfold accB
    subst hs2
    dsimp only
    by_cases ek : k = key
    · subst ek
      simp only [updK, if_true]
      rw [accFrom_accAdd, if_pos hdur]; omega
    · simp only [updK, bkey_ne ek, if_false]
      rw [if_neg ek]; omega
  obtain ⟨pb, ab⟩ := sameP_burn h5
  obtain ⟨_, db⟩ := burn_ledger h5
  have hamt : amt = vOf s key.1 l.amount := by rw [osmoTokens_vOf h4, p2.vOf]
  have hub : s'.unbondingTime = s2.unbondingTime := pb.ub
  have ab' : ∀ k, accB s' k = accB s2 k := by
    intro k; unfold accB; rw [ab, hub]
  refine ⟨p2.trans pb, fun k => ?_⟩
  rcases db with ⟨hnone, hs'⟩ | ⟨_, _, db⟩
  · -- the account had no delegation object: nothing was burned
    rw [hs'] at h' ⊢
    by_cases ek : k = key
    · subst ek
      refine Or.inr (Or.inr (Or.inr ⟨l.amount, by omega, ?_, ?_, ?_, ?_⟩))
      · show accB s2 k = accB s k - l.amount
        rw [a2, if_pos rfl]
      · show 0 ≤ accB s2 k
        unfold accB; rw [h'.accumEq]; exact sumConn_nonneg h' _ _
      · show delegated s k = 0
        rw [← d2]; unfold delegated; rw [hnone]
      · show delegated s2 k = 0
        unfold delegated; rw [hnone]
    · refine Or.inl ?_
      unfold pairOf
      rw [d2, a2, if_neg ek]; simp
  · by_cases ek : k = key
    · subst ek
      refine Or.inr (Or.inr (Or.inl ⟨l.amount, ?_, ?_⟩))
      · show accB s' k = accB s k - l.amount
        rw [ab', a2, if_pos rfl]
      · show delegated s' k = delegated s k - vOf s k.1 l.amount
        rw [db, if_pos rfl, d2, hamt]
    · refine Or.inl ?_
      unfold pairOf
      rw [db, if_neg ek, d2, ab', a2, if_neg ek]; simp

theorem move_superfluidUndelegate {s s' : State} {sender id : Nat} (h : Inv s)
    (hc : superfluidUndelegate s sender id = .ok s') :
    SameP s s' ∧ ∀ k, Move1 (vOf s k.1) (pairOf s k) (pairOf s' k) := by
  unfold superfluidUndelegate at hc
  split at hc
  · cases hc
  · rename_i s1 key h1
    obtain ⟨p1, m1⟩ := move_undelegateCommon h (inv_undelegateCommon h h1) h1
    have d := da_createUnbonding hc
    exact ⟨p1.trans d.p, fun k => by rw [d.pair k]; exact m1 k⟩

/-- a non-panic error of `osmoTokens` means a non-zero multiplier on a denom that is not an asset. -/
theorem osmoTokens_err {s : State} {d : Nat} {x : Int} {e : Err} (h : osmoTokens s d x = .error e) :
    e = .panic ∨ (s.mult d ≠ 0 ∧ d ∉ s.assets) := by
  unfold osmoTokens at h
  split at h
  · cases h
  · rename_i hm
    split at h
    · injection h with h; exact Or.inl h.symm
    · split at h
      · rename_i ha; exact Or.inr ⟨hm, ha⟩
      · split at h
        · injection h with h; exact Or.inl h.symm
        · unfold riskAdjusted at h
          split at h
          · injection h with h; exact Or.inl h.symm
          · split at h
            · injection h with h; exact Or.inl h.symm
            · split at h
              · injection h with h; exact Or.inl h.symm
              · cases h

theorem move_increaseHook {s s' : State} {id : Nat} {a : Int} {key : AccKey}
    (hc : increaseHook s id key.1 a = .ok s') (hpa : MultAsset s)
    (hcn : s.conns id = some key) (hv : key.2 ∈ s.validators) (hf : (findAcc s.accs key).isSome = true)
    (hm0 : 0 ≤ s.mult key.1) (hr0 : 0 ≤ s.riskFactor) (hr1 : s.riskFactor ≤ P18) (ha : 0 ≤ a) :
    SameP s s' ∧ (∀ k', s'.accum k' = s.accum k') ∧
    ∀ k, delegated s' k = if k = key then delegated s k + vOf s key.1 a else delegated s k := by
  unfold increaseHook at hc
  rw [hcn] at hc
  dsimp only at hc
  cases hfa : findAcc s.accs key with
  | none => rw [hfa] at hf; cases hf
  | some g =>
    rw [hfa] at hc
    dsimp only at hc
    rw [if_pos rfl] at hc
    have stay : SameP s s ∧ (∀ k', s.accum k' = s.accum k') := ⟨SameP.refl s, fun _ => rfl⟩
    split at hc
    · cases hc
    · rename_i e hne he
      rcases osmoTokens_err he with hp | ⟨hmne, hna⟩
      · subst hp; exact absurd rfl hne
      · exact absurd (hpa _ hmne) hna
    · rename_i amt hamt
      have hv' : amt = vOf s key.1 a := osmoTokens_vOf hamt
      split at hc
      · rename_i hz
        injection hc with hc; subst hc
        refine ⟨stay.1, stay.2, fun k => ?_⟩
        rw [← hv', hz]
        split <;> omega
      · rename_i hnz
        have hpos : 0 < amt := by
          have : 0 ≤ amt := by
            rw [hv']; unfold vOf
            split
            · omega
            · exact value_nonneg hm0 ha hr0 hr1
          omega
        split at hc
        · cases hc
        · rename_i e hne hme
          unfold mintAndDelegate at hme
          rw [if_neg (by simpa using hv), if_neg (by omega)] at hme
          cases hme
        · rename_i s3 hmint
          injection hc with hc; subst hc
          obtain ⟨pm, am⟩ := sameP_mint hmint
          obtain ⟨_, dm⟩ := mint_ledger hmint
          refine ⟨pm, am, fun k => ?_⟩
          rw [dm k, hv']
          by_cases ek : k = key
          · subst ek; simp
          · simp [ek]

theorem move_addTokensToLock {s s' : State} {sender id : Nat} {a : Int} (h : Inv s) (hpa : MultAsset s)
    (hc : addTokensToLock s sender id a = .ok s') :
    SameP s s' ∧ ∀ k, Move1 (vOf s k.1) (pairOf s k) (pairOf s' k) := by
  unfold addTokensToLock at hc
  split at hc
  · cases hc
  · rename_i l hl
    split at hc
    · cases hc
    · split at hc
      · cases hc
      · split at hc
        · cases hc
        · rename_i ha
          have hok := h.lockOK id
          rw [hl] at hok
          simp only [LockOK] at hok
          dsimp only at hc
          split at hc
          · cases hc
          · -- plain lock: the hook finds no connection
            rename_i hsy
            have hnc := h.nosynth_noconn hsy
            unfold increaseHook at hc
            dsimp only at hc
            rw [hnc] at hc
            injection hc with hc; subst hc
            refine ⟨⟨rfl, rfl, rfl, rfl, rfl⟩, fun k => Or.inl rfl⟩
          · rename_i sy hsy
            rcases hok.2 with h1 | ⟨k0, h2, h3, h4, h5, h6, h7⟩ | ⟨k0, e, h2, h3, _⟩
            · rw [h1.1] at hsy; cases hsy
            · -- delegated lock
              rw [h2] at hsy
              injection hsy with hsy _
              subst hsy
              obtain ⟨hv, hf⟩ := h.connAcc id k0 h3
              rw [← h6] at hc
              obtain ⟨pm, am, dm⟩ := move_increaseHook (key := k0) hc hpa h3 hv hf (h.mult0 _) h.rf0 h.rf1 (by omega)
              refine ⟨⟨pm.mult, pm.assets, pm.rf, pm.ub, pm.vals⟩, fun k => ?_⟩
              have hub : s'.unbondingTime = s.unbondingTime := pm.ub
              by_cases ek : k = k0
              · subst ek
                refine Or.inr (Or.inl ⟨a, ?_, ?_⟩)
                · show accB s' k = accB s k + a
                  unfold accB
                  rw [am, hub]
                  dsimp only
                  simp only [mkB, updK, if_true]
                  rw [accFrom_accAdd, if_pos (Int.le_refl _)]
                · show delegated s' k = delegated s k + vOf s k.1 a
                  rw [dm, if_pos rfl]; rfl
              · refine Or.inl ?_
                unfold pairOf
                congr 1
                · rw [dm, if_neg ek]; rfl
                · unfold accB
                  rw [am, hub]
                  dsimp only
                  simp only [mkB, updK, bkey_ne ek, if_false]
            · -- undelegating lock: no connection, only the unstaking accumulation moves
              rw [h2] at hsy
              injection hsy with hsy _
              subst hsy
              unfold increaseHook at hc
              dsimp only at hc
              rw [h3] at hc
              injection hc with hc; subst hc
              refine ⟨⟨rfl, rfl, rfl, rfl, rfl⟩, fun k => Or.inl ?_⟩
              unfold pairOf accB delegated
              dsimp only
              simp only [mkU, updK, ukey_ne, if_false]

/-! ## calls that only remove locks without connection (withdraw, EndBlocker) -/

theorem pair_same_of_conns {s s' : State} (h : Inv s) (h' : Inv s') (hcn : s'.conns = s.conns)
    (hlast : s'.lastLockId = s.lastLockId) (hd : s'.deleg = s.deleg) (_hub : s'.unbondingTime = s.unbondingTime)
    (hl : ∀ id, s'.locks id = s.locks id ∨ (∃ l e, s.locks id = some l ∧ l.endTime = some e)) (k : AccKey) :
    pairOf s' k = pairOf s k := by
  unfold pairOf
  congr 1
  · unfold delegated; rw [hd]
  · unfold accB
    rw [h'.accumEq, h.accumEq, hlast]
    apply sumConn_congr
    intro i _ _
    unfold connAmt
    rw [hcn]
    cases hc : s.conns i with
    | none => rfl
    | some k' =>
      obtain ⟨l, hl0, _, _, _, _, hend, _⟩ := h.conn_lock hc
      rcases hl i with e | ⟨l', e, hl', he⟩
      · rw [e]
      · rw [hl0] at hl'; injection hl' with hl'; subst hl'
        rw [hend] at he; cases he

/-! ## SuperfluidUndelegateAndUnbondLock: at most two adjustments -/

theorem move_undelegateAndUnbond {s s' : State} {id sender nid : Nat} {amount : Int} (h : Inv s)
    (hc : superfluidUndelegateAndUnbondLock s id sender amount = .ok (s', nid)) :
    SameP s s' ∧ ∀ k, MoveN (vOf s k.1) 2 (pairOf s k) (pairOf s' k) := by
  unfold superfluidUndelegateAndUnbondLock at hc
  split at hc
  · cases hc
  · split at hc
    · cases hc
    · split at hc
      · cases hc
      · split at hc
        · cases hc
        · split at hc
          · cases hc
          · split at hc
            · cases hc
            · rename_i s1 hu
              obtain ⟨p1, m1⟩ := move_superfluidUndelegate h hu
              split at hc
              · cases hc
              · rename_i s2 nid' hb
                obtain ⟨_, _, _, _, _, _, hbu⟩ := unbondLock_ok hb
                have d2 := da_beginUnlock hbu
                split at hc
                · split at hc
                  · cases hc
                  · injection hc with hc
                    injection hc with hc _
                    subst hc
                    refine ⟨p1.trans d2.p, fun k => MoveN.mono ⟨pairOf s k, rfl, ?_⟩⟩
                    rw [d2.pair k]; exact m1 k
                · split at hc
                  · cases hc
                  · split at hc
                    · cases hc
                    · rename_i s3 hd
                      have d3 := da_deleteUnbonding hd
                      split at hc
                      · cases hc
                      · rename_i s4 hdel
                        obtain ⟨p4, m4⟩ := move_superfluidDelegate hdel
                        split at hc
                        · cases hc
                        · rename_i s5 hcs
                          have d5 := da_createUnbonding hcs
                          injection hc with hc
                          injection hc with hc _
                          subst hc
                          have p3 : SameP s s3 := (p1.trans d2.p).trans d3.p
                          refine ⟨(p3.trans p4).trans d5.p, fun k => ?_⟩
                          refine ⟨pairOf s1 k, ⟨pairOf s k, rfl, m1 k⟩, ?_⟩
                          rw [d5.pair k]
                          have := m4 k
                          rw [d3.pair k, d2.pair k] at this
                          have hv : vOf s3 k.1 = vOf s k.1 := by funext x; exact p3.vOf k.1 x
                          rw [hv] at this
                          exact this

/-! ## every call except the epoch -/

/-- number of stake adjustments a call can make. -/
def cost : Op → Nat
  | .addToLock _ _ _ => 1
  | .delegate _ _ _ => 1
  | .undelegate _ _ => 1
  | .undelegateAndUnbond _ _ _ => 2
  | _ => 0

def isEpoch : Op → Bool
  | .epoch _ => true
  | _ => false

theorem moveN_of_same {v : Int → Int} {p p' : Int × Int} (h : p' = p) : ∀ c, MoveN v c p p'
  | 0 => h
  | c + 1 => MoveN.mono (moveN_of_same h c)

theorem moveN_of_move1 {v : Int → Int} {p p' : Int × Int} (h : Move1 v p p') : MoveN v 1 p p' := ⟨p, rfl, h⟩

theorem moves_applyOp {s s' : State} {op : Op} (h : Inv s) (hpa : MultAsset s) (hne : isEpoch op = false)
    (hc : applyOp s op = .ok s') :
    SameP s s' ∧ ∀ k, MoveN (vOf s k.1) (cost op) (pairOf s k) (pairOf s' k) := by
  have h' := inv_applyOp h hc
  unfold applyOp at hc
  obtain ⟨p, hp, hps⟩ := map_ok hc
  subst hps
  cases op with
  | lock o d a du sg =>
    obtain ⟨r, hr, hpr⟩ := map_ok (show (createLock s o d a du sg).map _ = .ok p from hp)
    subst hpr
    have d := da_createLock (show createLock s o d a du sg = Except.ok (r.1, r.2) from hr)
    exact ⟨d.p, fun k => moveN_of_same (d.pair k) _⟩
  | addToLock snd id a =>
    obtain ⟨r, hr, hpr⟩ := map_ok (show (addTokensToLock s snd id a).map _ = .ok p from hp)
    subst hpr
    obtain ⟨pp, m⟩ := move_addTokensToLock h hpa hr
    exact ⟨pp, fun k => moveN_of_move1 (m k)⟩
  | delegate snd id v =>
    obtain ⟨r, hr, hpr⟩ := map_ok (show (superfluidDelegate s snd id v).map _ = .ok p from hp)
    subst hpr
    obtain ⟨pp, m⟩ := move_superfluidDelegate hr
    exact ⟨pp, fun k => moveN_of_move1 (m k)⟩
  | undelegate snd id =>
    obtain ⟨r, hr, hpr⟩ := map_ok (show (superfluidUndelegate s snd id).map _ = .ok p from hp)
    subst hpr
    obtain ⟨pp, m⟩ := move_superfluidUndelegate h hr
    exact ⟨pp, fun k => moveN_of_move1 (m k)⟩
  | unbond snd id =>
    obtain ⟨r, hr, hpr⟩ := map_ok (show (superfluidUnbondLock s id snd).map _ = .ok p from hp)
    subst hpr
    unfold superfluidUnbondLock at hr
    split at hr
    · cases hr
    · rename_i s1 n1 hu
      injection hr with hr; subst hr
      obtain ⟨_, _, _, _, _, _, hbu⟩ := unbondLock_ok hu
      have d := da_beginUnlock hbu
      exact ⟨d.p, fun k => moveN_of_same (d.pair k) _⟩
  | undelegateAndUnbond snd id a =>
    obtain ⟨r, hr, hpr⟩ := map_ok (show (superfluidUndelegateAndUnbondLock s id snd a).map _ = .ok p from hp)
    subst hpr
    exact move_undelegateAndUnbond h (show superfluidUndelegateAndUnbondLock s id snd a = Except.ok (r.1, r.2) from hr)
  | beginUnlock snd id c =>
    obtain ⟨r, hr, hpr⟩ := map_ok (show (msgBeginUnlocking s snd id c).map _ = .ok p from hp)
    subst hpr
    unfold msgBeginUnlocking at hr
    split at hr
    · cases hr
    · split at hr
      · cases hr
      · split at hr
        · cases hr
        · have d := da_beginUnlock (show beginUnlock s id c = Except.ok (r.1, r.2) from hr)
          exact ⟨d.p, fun k => moveN_of_same (d.pair k) _⟩
  | withdraw id =>
    obtain ⟨r, hr, hpr⟩ := map_ok (show (withdraw s id).map _ = .ok p from hp)
    subst hpr
    unfold withdraw at hr
    split at hr
    · cases hr
    · rename_i s1 h1
      obtain ⟨i1, f1, _, _⟩ := inv_sweepSynths h _ s1 h1
      obtain ⟨l, e, hl, he, _, hs'⟩ := unlockMatured_ok hr
      have hp' : SameP s r := by
        subst hs'
        exact ⟨f1.params.1, f1.params.2.1, f1.params.2.2.1, f1.ub, f1.params.2.2.2⟩
      refine ⟨hp', fun k => moveN_of_same ?_ _⟩
      refine pair_same_of_conns h h' ?_ ?_ ?_ ?_ ?_ k
      · subst hs'; exact f1.conns
      · subst hs'; exact f1.last
      · subst hs'; exact f1.ledger.1
      · subst hs'; exact f1.ub
      · intro i
        subst hs'
        dsimp only
        simp only [upd]
        by_cases ei : i = id
        · subst ei
          right
          rw [f1.locks] at hl
          exact ⟨l, e, hl, he⟩
        · left; rw [if_neg ei, f1.locks]
  | endBlock =>
    obtain ⟨r, hr, hpr⟩ := map_ok (show (endBlock s).map _ = .ok p from hp)
    subst hpr
    unfold endBlock at hr
    split at hr
    · cases hr
    · rename_i s1 h1
      obtain ⟨i1, f1, m1, _⟩ := inv_sweepSynths h _ s1 h1
      rw [← f1.last] at m1
      obtain ⟨_, _, _, g3, g4, g5, g6, g7⟩ := inv_sweepLocks s1.lastLockId s1.lastLockId r i1 m1 (Nat.le_refl _) hr
      have hp' : SameP s r :=
        ⟨g7.1.trans f1.params.1, g7.2.1.trans f1.params.2.1, g7.2.2.1.trans f1.params.2.2.1, g4.trans f1.ub,
         g7.2.2.2.2.2.trans f1.params.2.2.2⟩
      refine ⟨hp', fun k => moveN_of_same ?_ _⟩
      refine pair_same_of_conns h h' (g3.trans f1.conns) (g7.2.2.2.1.trans f1.last) (g5.1.trans f1.ledger.1)
        (g4.trans f1.ub) ?_ k
      intro i
      rcases g6 i with e | ⟨l, e, hl, he, _⟩
      · left; rw [e, f1.locks]
      · right; rw [f1.locks] at hl; exact ⟨l, e, hl, he⟩
  | advance dt =>
    obtain ⟨r, hr, hpr⟩ := map_ok (show (advance s dt).map _ = .ok p from hp)
    subst hpr
    unfold advance at hr
    split at hr
    · cases hr
    · injection hr with hr; subst hr
      exact ⟨⟨rfl, rfl, rfl, rfl, rfl⟩, fun k => moveN_of_same rfl _⟩
  | epoch ups => simp [isEpoch] at hne

/-! ## histories without an epoch -/

def costs : List Op → Nat
  | [] => 0
  | op :: r => cost op + costs r

theorem PP_lit : P18 * P18 = 1000000000000000000000000000000000000 := by decide

theorem dev_sameP {s s' : State} (hp : SameP s s') (k : AccKey) :
    dev s' k = devP (s.mult k.1) (P18 - s.riskFactor) (pairOf s' k) := by
  rw [dev_eq_devP, hp.mult, hp.rf]

theorem multAsset_sameP {s s' : State} (hp : SameP s s') (h : MultAsset s) : MultAsset s' := by
  intro d hd
  rw [hp.mult] at hd
  rw [hp.assets]
  exact h d hd

/-- **between refreshes the distance grows by at most one base unit per stake adjustment.** -/
theorem drift_run : ∀ (ops : List Op) (s : State), Inv s → MultAsset s → (∀ op, op ∈ ops → isEpoch op = false) →
    ∀ (k : AccKey) (n : Int), -(n * (P18 * P18)) ≤ dev s k → dev s k ≤ n * (P18 * P18) →
      -((n + (costs ops : Nat)) * (P18 * P18)) ≤ dev (run s ops) k ∧ dev (run s ops) k ≤ (n + (costs ops : Nat)) * (P18 * P18)
  | [], s, _, _, _, k, n, hlo, hhi => by
    simp only [costs, Int.natCast_zero, Int.add_zero]
    exact ⟨hlo, hhi⟩
  | op :: r, s, h, hpa, hne, k, n, hlo, hhi => by
    have hne1 : isEpoch op = false := hne op List.mem_cons_self
    have hne2 : ∀ op', op' ∈ r → isEpoch op' = false := fun op' ho => hne op' (List.mem_cons_of_mem _ ho)
    have e : (n + ((costs (op :: r) : Nat) : Int)) = (n + (cost op : Nat)) + (costs r : Nat) := by
      simp only [costs]; push_cast; omega
    have hrun : run s (op :: r) = run (step s op) r := rfl
    rw [hrun, e]
    cases hc : applyOp s op with
    | error err =>
      have hs : step s op = s := by unfold step; rw [hc]
      rw [hs]
      refine drift_run r s h hpa hne2 k (n + (cost op : Nat)) ?_ ?_
      · rw [PP_lit] at *; omega
      · rw [PP_lit] at *; omega
    | ok s1 =>
      have hs : step s op = s1 := by unfold step; rw [hc]
      rw [hs]
      obtain ⟨hp, hm⟩ := moves_applyOp h hpa hne1 hc
      have hb := moveN_bound h.rf0 h.rf1 (h.mult0 k.1) (cost op) (hm k) (n := n)
        (by rw [← dev_eq_devP]; exact hlo) (by rw [← dev_eq_devP]; exact hhi)
      rw [← dev_sameP hp k] at hb
      exact drift_run r s1 (inv_applyOp h hc) (multAsset_sameP hp hpa) hne2 k _ hb.1 hb.2

/-! ## the multiplier / asset link is kept by the epoch as well -/

theorem multAsset_updateMults : ∀ (ups : List (Nat × Int × Int × Bool)) (s s' : State) (b : Bool),
    MultAsset s → updateMults s ups = .ok (s', b) → MultAsset s'
  | [], s, s', b, h, hc => by
    unfold updateMults at hc
    injection hc with hc
    injection hc with hc _
    subst hc; exact h
  | (d, osmo, q, cl) :: r, s, s', b, h, hc => by
    unfold updateMults at hc
    split at hc
    · cases hc
    · rename_i hd
      have hd' : d ∈ s.assets := by simpa using hd
      have step : ∀ m, updateMults { s with mult := upd s.mult d m } r = .ok (s', b) → MultAsset s' := by
        intro m hrec
        refine multAsset_updateMults r _ s' b ?_ hrec
        intro d' hd0
        dsimp only at hd0 ⊢
        simp only [upd] at hd0
        by_cases e : d' = d
        · subst e; exact hd'
        · rw [if_neg e] at hd0; exact h d' hd0
      split at hc
      · cases hc
      · split at hc
        · split at hc
          · exact multAsset_updateMults r s s' b h hc
          · split at hc
            · exact multAsset_updateMults r s s' b h hc
            · exact step _ hc
        · split at hc
          · injection hc with hc
            injection hc with hc _
            subst hc
            intro d' hd0
            dsimp only at hd0 ⊢
            simp only [upd] at hd0
            by_cases e : d' = d
            · rw [if_pos e] at hd0; exact absurd rfl hd0
            · rw [if_neg e] at hd0
              exact List.mem_filter.mpr ⟨h d' hd0, by simpa using e⟩
          · split at hc
            · cases hc
            · exact step _ hc

theorem multAsset_applyOp {s s' : State} {op : Op} (h : Inv s) (hpa : MultAsset s) (hc : applyOp s op = .ok s') :
    MultAsset s' := by
  cases hop : isEpoch op with
  | false => exact multAsset_sameP (moves_applyOp h hpa hop hc).1 hpa
  | true =>
    cases op with
    | epoch ups =>
      unfold applyOp at hc
      obtain ⟨p, hp, hps⟩ := map_ok hc
      subst hps
      obtain ⟨r, hr, hpr⟩ := map_ok (show (epoch s ups).map _ = .ok p from hp)
      subst hpr
      unfold epoch at hr
      split at hr
      · cases hr
      · rename_i s1 h1
        injection hr with hr; subst hr
        exact multAsset_updateMults ups s _ false hpa h1
      · rename_i s1 h1
        have m1 := multAsset_updateMults ups s s1 true hpa h1
        obtain ⟨f, g⟩ := updateMults_spec ups s s1 true h.mult0 h1
        obtain ⟨f2, _, _⟩ := refreshAll_spec s.accs s1 _ (f.inv h g) hr
        intro d hd
        dsimp only at hd ⊢
        rw [f2.mult] at hd
        rw [f2.assets]
        exact m1 d hd
    | _ => simp [isEpoch] at hop

theorem multAsset_run : ∀ (ops : List Op) (s : State), Inv s → MultAsset s → MultAsset (run s ops)
  | [], _, _, h => h
  | op :: r, s, hi, h => by
    show MultAsset (run (step s op) r)
    refine multAsset_run r (step s op) (inv_step op hi) ?_
    unfold step
    split
    · rename_i s' hs; exact multAsset_applyOp hi h hs
    · exact h

end OsmoVerif.Superfluid
