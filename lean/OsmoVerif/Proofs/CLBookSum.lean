/-
C07 helpers, part 1: sums over the position list of a concentrated pool.
`sumBy f ps = Σ_{q ∈ ps} f q`; the three book-keeping quantities (active liquidity at a tick, gross and
net liquidity of a boundary tick) are `sumBy` of a weight `W lower upper liq` that is additive in `liq`;
the three ways `updatePosition`/`withdrawPosition` change the position list (append a new position, add to
the liquidity of the position with a given id, delete that position) all change every additive sum by
`W lower upper delta` (`PosUpd`).  Core only.
-/
import OsmoVerif.Model.CLPool

namespace OsmoVerif.CLBook
open OsmoVerif.CLPool

/-- `Σ_{q ∈ ps} f q`. -/
def sumBy (f : Position → Int) : List Position → Int
  | [] => 0
  | q :: qs => f q + sumBy f qs

@[simp] theorem sumBy_nil (f : Position → Int) : sumBy f [] = 0 := rfl
@[simp] theorem sumBy_cons (f : Position → Int) (q : Position) (qs : List Position) :
    sumBy f (q :: qs) = f q + sumBy f qs := rfl

theorem sumBy_append (f : Position → Int) (a b : List Position) :
    sumBy f (a ++ b) = sumBy f a + sumBy f b := by
  induction a with
  | nil => simp
  | cons q qs ih => simp only [List.cons_append, sumBy_cons, ih]; omega

theorem sumBy_congr {f g : Position → Int} {ps : List Position} (h : ∀ q ∈ ps, f q = g q) :
    sumBy f ps = sumBy g ps := by
  induction ps with
  | nil => rfl
  | cons q qs ih =>
    simp only [sumBy_cons]
    rw [h q (List.mem_cons_self), ih (fun q hq => h q (List.mem_cons_of_mem _ hq))]

theorem sumBy_eq_zero {f : Position → Int} {ps : List Position} (h : ∀ q ∈ ps, f q = 0) :
    sumBy f ps = 0 := by
  induction ps with
  | nil => rfl
  | cons q qs ih =>
    simp only [sumBy_cons]
    rw [h q (List.mem_cons_self), ih (fun q hq => h q (List.mem_cons_of_mem _ hq))]; rfl

theorem sumBy_nonneg {f : Position → Int} {ps : List Position} (h : ∀ q ∈ ps, 0 ≤ f q) :
    0 ≤ sumBy f ps := by
  induction ps with
  | nil => simp
  | cons q qs ih =>
    simp only [sumBy_cons]
    have := h q (List.mem_cons_self)
    have := ih (fun q hq => h q (List.mem_cons_of_mem _ hq))
    omega

/-- a sum of non-negative terms is at least each term. -/
theorem sumBy_ge_term {f : Position → Int} {ps : List Position} (h : ∀ q ∈ ps, 0 ≤ f q)
    {q : Position} (hq : q ∈ ps) : f q ≤ sumBy f ps := by
  induction ps with
  | nil => cases hq
  | cons a as ih =>
    simp only [sumBy_cons]
    have h0 := h a (List.mem_cons_self)
    have hs : 0 ≤ sumBy f as := sumBy_nonneg (fun q hq => h q (List.mem_cons_of_mem _ hq))
    rcases List.mem_cons.mp hq with rfl | hq
    · omega
    · have := ih (fun q hq => h q (List.mem_cons_of_mem _ hq)) hq
      omega

/-! ## weights -/

/-- contribution of a position `[l, u)` with liquidity `x` to the active liquidity at tick `c`. -/
def actW (c l u x : Int) : Int := if l ≤ c ∧ c < u then x else 0
/-- contribution to the gross liquidity of tick `t`. -/
def grossW (t l u x : Int) : Int := (if l = t then x else 0) + (if u = t then x else 0)
/-- contribution to the net liquidity of tick `t`. -/
def netW (t l u x : Int) : Int := (if l = t then x else 0) - (if u = t then x else 0)

/-- a weight evaluated on a position. -/
def onPos (W : Int → Int → Int → Int) (q : Position) : Int := W q.lower q.upper q.liq

/-- total liquidity of the positions whose range contains tick `c`. -/
def activeAt (ps : List Position) (c : Int) : Int := sumBy (onPos (actW c)) ps
/-- total liquidity of the positions that use `t` as a boundary. -/
def grossAt (ps : List Position) (t : Int) : Int := sumBy (onPos (grossW t)) ps
/-- liquidity of the positions with lower tick `t` minus liquidity of those with upper tick `t`. -/
def netAt (ps : List Position) (t : Int) : Int := sumBy (onPos (netW t)) ps

/-- `t` is a boundary of some position. -/
def Used (ps : List Position) (t : Int) : Prop := ∃ q ∈ ps, q.lower = t ∨ q.upper = t

def Additive (W : Int → Int → Int → Int) : Prop := ∀ l u a b, W l u (a + b) = W l u a + W l u b

theorem Additive.zero {W} (h : Additive W) (l u : Int) : W l u 0 = 0 := by
  have := h l u 0 0
  simp only [Int.add_zero] at this
  omega

theorem Additive.neg {W} (h : Additive W) (l u a : Int) : W l u (-a) = - W l u a := by
  have := h l u a (-a)
  rw [Int.add_right_neg, h.zero] at this
  omega

theorem actW_additive (c : Int) : Additive (actW c) := by
  intro l u a b; unfold actW; split <;> omega
theorem grossW_additive (t : Int) : Additive (grossW t) := by
  intro l u a b; unfold grossW; split <;> split <;> omega
theorem netW_additive (t : Int) : Additive (netW t) := by
  intro l u a b; unfold netW; split <;> split <;> omega

/-! ## the three list updates -/

/-- every additive sum over `ps'` is the sum over `ps` plus the weight of `(l, u, d)`. -/
def PosUpd (ps ps' : List Position) (l u d : Int) : Prop :=
  ∀ W, Additive W → sumBy (onPos W) ps' = sumBy (onPos W) ps + W l u d

theorem PosUpd.active {ps ps' l u d} (h : PosUpd ps ps' l u d) (c : Int) :
    activeAt ps' c = activeAt ps c + actW c l u d := h _ (actW_additive c)
theorem PosUpd.gross {ps ps' l u d} (h : PosUpd ps ps' l u d) (t : Int) :
    grossAt ps' t = grossAt ps t + grossW t l u d := h _ (grossW_additive t)
theorem PosUpd.net {ps ps' l u d} (h : PosUpd ps ps' l u d) (t : Int) :
    netAt ps' t = netAt ps t + netW t l u d := h _ (netW_additive t)

theorem posUpd_append (ps : List Position) (id : Nat) (o : String) (l u d : Int) :
    PosUpd ps (ps ++ [⟨id, o, l, u, d⟩]) l u d := by
  intro W _
  rw [sumBy_append]
  simp only [sumBy_cons, sumBy_nil, onPos]
  omega

/-- ids are pairwise distinct. -/
def UniqueIds (ps : List Position) : Prop := ps.Pairwise (fun a b => a.id ≠ b.id)

theorem map_upd_of_no_id {ps : List Position} {id : Nat} (g : Position → Position)
    (h : ∀ q ∈ ps, q.id ≠ id) : (ps.map fun q => if q.id = id then g q else q) = ps := by
  induction ps with
  | nil => rfl
  | cons a as ih =>
    simp only [List.map_cons]
    rw [if_neg (h a List.mem_cons_self), ih (fun q hq => h q (List.mem_cons_of_mem _ hq))]

theorem filter_of_no_id {ps : List Position} {id : Nat}
    (h : ∀ q ∈ ps, q.id ≠ id) : (ps.filter fun q => q.id ≠ id) = ps := by
  induction ps with
  | nil => rfl
  | cons a as ih =>
    have ha := h a List.mem_cons_self
    rw [List.filter_cons_of_pos (by simpa using ha), ih (fun q hq => h q (List.mem_cons_of_mem _ hq))]

/-- adding `d` to the liquidity of the (unique) position with id `pos.id`. -/
theorem posUpd_map {ps : List Position} {pos : Position} (hu : UniqueIds ps) (hm : pos ∈ ps) (d : Int) :
    PosUpd ps (ps.map fun q => if q.id = pos.id then { q with liq := pos.liq + d } else q)
      pos.lower pos.upper d := by
  intro W hW
  induction ps with
  | nil => cases hm
  | cons a as ih =>
    have hu' := List.pairwise_cons.mp hu
    simp only [List.map_cons, sumBy_cons]
    rcases List.mem_cons.mp hm with rfl | hm'
    · rw [if_pos rfl, map_upd_of_no_id _ (fun q hq => Ne.symm (hu'.1 q hq))]
      simp only [onPos]
      rw [hW]; omega
    · have hne : a.id ≠ pos.id := hu'.1 pos hm'
      rw [if_neg hne, ih hu'.2 hm']
      omega

/-- deleting the (unique) position with id `pos.id`. -/
theorem posUpd_filter {ps : List Position} {pos : Position} (hu : UniqueIds ps) (hm : pos ∈ ps) :
    PosUpd ps (ps.filter fun q => q.id ≠ pos.id) pos.lower pos.upper (-pos.liq) := by
  intro W hW
  induction ps with
  | nil => cases hm
  | cons a as ih =>
    have hu' := List.pairwise_cons.mp hu
    rcases List.mem_cons.mp hm with rfl | hm'
    · rw [List.filter_cons_of_neg (by simp), filter_of_no_id (fun q hq => Ne.symm (hu'.1 q hq))]
      simp only [sumBy_cons, onPos]
      rw [hW.neg]; omega
    · have hne : a.id ≠ pos.id := hu'.1 pos hm'
      rw [List.filter_cons_of_pos (by simpa using hne)]
      simp only [sumBy_cons]
      rw [ih hu'.2 hm']
      omega

/-- filtering after the liquidity update is filtering the original list. -/
theorem filter_map_upd (ps : List Position) (id : Nat) (g : Position → Position) (hg : ∀ q, (g q).id = q.id) :
    ((ps.map fun q => if q.id = id then g q else q).filter fun q => q.id ≠ id) = ps.filter fun q => q.id ≠ id := by
  induction ps with
  | nil => rfl
  | cons a as ih =>
    simp only [List.map_cons]
    by_cases h : a.id = id
    · rw [if_pos h, List.filter_cons_of_neg (by simp [hg, h]), List.filter_cons_of_neg (by simp [h]), ih]
    · rw [if_neg h, List.filter_cons_of_pos (by simpa using h), List.filter_cons_of_pos (by simpa using h), ih]

/-! ## facts about the three quantities -/

/-- with positive liquidities, the gross liquidity of `t` vanishes exactly when no position uses `t`. -/
theorem grossAt_eq_zero_iff {ps : List Position} (hpos : ∀ q ∈ ps, 0 < q.liq) (t : Int) :
    grossAt ps t = 0 ↔ ¬ Used ps t := by
  have hnn : ∀ q ∈ ps, 0 ≤ onPos (grossW t) q := by
    intro q hq; have := hpos q hq
    simp only [onPos, grossW]; split <;> split <;> omega
  constructor
  · intro h ⟨q, hq, hb⟩
    have h1 := sumBy_ge_term hnn hq
    have := hpos q hq
    unfold grossAt at h
    rw [h] at h1
    simp only [onPos, grossW] at h1
    rcases hb with hb | hb
    · rw [if_pos hb] at h1; split at h1 <;> omega
    · rw [if_pos hb] at h1; split at h1 <;> omega
  · intro h
    apply sumBy_eq_zero
    intro q hq
    simp only [onPos, grossW]
    have h1 : ¬ q.lower = t := fun e => h ⟨q, hq, Or.inl e⟩
    have h2 : ¬ q.upper = t := fun e => h ⟨q, hq, Or.inr e⟩
    rw [if_neg h1, if_neg h2]; rfl

theorem netAt_eq_zero_of_not_used {ps : List Position} {t : Int} (h : ¬ Used ps t) : netAt ps t = 0 := by
  apply sumBy_eq_zero
  intro q hq
  simp only [onPos, netW]
  have h1 : ¬ q.lower = t := fun e => h ⟨q, hq, Or.inl e⟩
  have h2 : ¬ q.upper = t := fun e => h ⟨q, hq, Or.inr e⟩
  rw [if_neg h1, if_neg h2]; rfl

/-- crossing tick `t` upward adds its net liquidity (ranges are non-empty). -/
theorem activeAt_step {ps : List Position} (hr : ∀ q ∈ ps, q.lower < q.upper) (t : Int) :
    activeAt ps t = activeAt ps (t - 1) + netAt ps t := by
  unfold activeAt netAt
  induction ps with
  | nil => rfl
  | cons a as ih =>
    simp only [sumBy_cons]
    rw [ih (fun q hq => hr q (List.mem_cons_of_mem _ hq))]
    have := hr a List.mem_cons_self
    have : onPos (actW t) a = onPos (actW (t - 1)) a + onPos (netW t) a := by
      simp only [onPos, actW, netW]
      split <;> split <;> split <;> split <;> omega
    omega

/-- two ticks that no position boundary separates have the same active liquidity. -/
theorem activeAt_same_bucket {ps : List Position} {c c' : Int}
    (h : ∀ t, Used ps t → (t ≤ c ↔ t ≤ c')) : activeAt ps c = activeAt ps c' := by
  unfold activeAt
  apply sumBy_congr
  intro q hq
  have h1 := h q.lower ⟨q, hq, Or.inl rfl⟩
  have h2 := h q.upper ⟨q, hq, Or.inr rfl⟩
  simp only [onPos, actW]
  split <;> split <;> omega

theorem activeAt_nil (c : Int) : activeAt [] c = 0 := rfl

end OsmoVerif.CLBook
