/- C11 over the staking model: amount adjustments (add-to-lock, slash), the composite entry points, the epoch
refresh and the validator slash preserve the invariant; every history does.  Core only. -/
import OsmoVerif.Proofs.SuperfluidStk

namespace OsmoVerif.Superfluid
open OsmoVerif.Num

/-! ## changing the amount of a lock (AddTokensToLockByID: +δ, slash: −δ) -/

/-- a lock without marker changes its amount. -/
theorem inv_adjust_plain {b : State} {id : Nat} {l : Lock} {δ : Int} (h : Inv b) (hl : b.locks id = some l)
    (hsy : b.synths id = []) (hp : 0 < l.amount + δ) :
    Inv { b with locks := upd b.locks id (some { l with amount := l.amount + δ }) } := by
  have hrange := h.id_range hl
  have hnc := h.nosynth_noconn hsy
  refine ⟨h.rf0, h.rf1, h.ub0, h.mult0, ?_, ?_, h.connAcc, ?_⟩
  · intro i hi
    dsimp only at hi ⊢
    simp only [upd]
    rw [if_neg (by omega)]
    exact h.bound i hi
  · intro i
    dsimp only
    simp only [upd]
    by_cases e : i = id
    · subst e
      rw [if_pos rfl, hsy, hnc]
      simp only [LockOK]
      exact ⟨hp, Or.inl (by simp)⟩
    · rw [if_neg e]; exact h.lockOK i
  · intro k
    rw [h.accumEq k]
    symm
    apply sumConn_congr
    intro i _ _
    unfold connAmt
    dsimp only
    simp only [upd]
    by_cases e : i = id
    · subst e; rw [hnc]
    · rw [if_neg e]

/-- a lock with a marker changes its amount, and the marker's accumulation store changes by the same δ at the
marker's duration. -/
theorem inv_adjust_marked {b : State} {id : Nat} {l : Lock} {sy : Synth} {δ : Int} (h : Inv b) (hl : b.locks id = some l)
    (hsy : b.synths id = [sy]) (hp : 0 < l.amount + δ) :
    Inv { b with locks := upd b.locks id (some { l with amount := l.amount + δ }),
                 accum := updK b.accum (sy.kind, sy.key) (accAdd (b.accum (sy.kind, sy.key)) sy.duration δ) } := by
  have hrange := h.id_range hl
  have hok := h.lockOK id
  rw [hl] at hok
  simp only [LockOK] at hok
  rcases hok.2 with h1 | ⟨k, h2, h3, h4, h5, h6, h7⟩ | ⟨k, e, h2, h3, h4, h5, h6, h7⟩
  · rw [h1.1] at hsy; cases hsy
  · -- delegated lock: the staking accumulation moves with it
    rw [h2] at hsy
    injection hsy with hsy _
    subst hsy
    refine ⟨h.rf0, h.rf1, h.ub0, h.mult0, ?_, ?_, h.connAcc, ?_⟩
    · intro i hi
      dsimp only at hi ⊢
      simp only [upd]
      rw [if_neg (by omega)]
      exact h.bound i hi
    · intro i
      dsimp only
      simp only [upd]
      by_cases e : i = id
      · subst e
        rw [if_pos rfl, h2, h3]
        simp only [LockOK]
        exact ⟨hp, Or.inr (Or.inl ⟨k, rfl, rfl, h4, h5, h6, h7⟩)⟩
      · rw [if_neg e]; exact h.lockOK i
    · intro k'
      dsimp only
      simp only [mkB]
      by_cases ek : k' = k
      · subst ek
        simp only [updK, if_true]
        rw [accFrom_accAdd, if_pos (Int.le_refl _), h.accumEq]
        refine Eq.trans ?_ (sumConn_update (s := b) id hrange.1 hrange.2 ?_).symm
        · have c1 : connAmt b k' id = l.amount := by
            unfold connAmt; rw [h3, hl]; simp
          rw [c1]
          unfold connAmt
          dsimp only
          simp only [upd, if_true]
          rw [h3]
          simp
          omega
        · intro i hi
          unfold connAmt
          dsimp only
          simp only [upd]
          rw [if_neg hi]
      · simp only [updK, bkey_ne ek, if_false]
        rw [h.accumEq]
        symm
        apply sumConn_congr
        intro i _ _
        unfold connAmt
        dsimp only
        simp only [upd]
        by_cases e : i = id
        · subst e
          rw [if_pos rfl, h3, hl]
          dsimp only
          have hne : ¬ k = k' := fun hh => ek hh.symm
          simp only [hne, if_false]
        · rw [if_neg e]
  · -- undelegating lock: only the unstaking accumulation changes
    rw [h2] at hsy
    injection hsy with hsy _
    subst hsy
    refine ⟨h.rf0, h.rf1, h.ub0, h.mult0, ?_, ?_, h.connAcc, ?_⟩
    · intro i hi
      dsimp only at hi ⊢
      simp only [upd]
      rw [if_neg (by omega)]
      exact h.bound i hi
    · intro i
      dsimp only
      simp only [upd]
      by_cases e' : i = id
      · subst e'
        rw [if_pos rfl, h2, h3]
        simp only [LockOK]
        exact ⟨hp, Or.inr (Or.inr ⟨k, e, rfl, trivial, h4, h5, h6, h7⟩)⟩
      · rw [if_neg e']; exact h.lockOK i
    · intro k'
      dsimp only
      simp only [mkU, updK, ukey_ne, if_false]
      rw [h.accumEq]
      symm
      apply sumConn_congr
      intro i _ _
      unfold connAmt
      dsimp only
      simp only [upd]
      by_cases e' : i = id
      · subst e'; rw [h3]
      · rw [if_neg e']

/-! ## AddTokensToLockByID -/

/-- the hook mints or does nothing. -/
theorem increaseHookS_bank {s s' : SState} {id denom : Nat} {a : Int} (hc : increaseHookS s id denom a = .ok s') :
    BankOnly s.b s'.b := by
  unfold increaseHookS at hc
  split at hc
  · injection hc with hc; subst hc; exact BankOnly.refl _
  · split at hc
    · injection hc with hc; subst hc; exact BankOnly.refl _
    · split at hc
      · cases hc
      · injection hc with hc; subst hc; exact BankOnly.refl _
      · split at hc
        · injection hc with hc; subst hc; exact BankOnly.refl _
        · split at hc
          · cases hc
          · injection hc with hc; subst hc; exact BankOnly.refl _
          · rename_i s2 hm
            injection hc with hc; subst hc
            exact mintS_bank hm

/-- the lock after `AddTokensToLockByID` and before the superfluid hook. -/
def addedState (b : State) (id : Nat) (l : Lock) (amount : Int) : State :=
  match b.synths id with
  | [sy] => { b with locks := upd b.locks id (some { l with amount := l.amount + amount }),
                     accum := updK b.accum (sy.kind, sy.key) (accAdd (b.accum (sy.kind, sy.key)) sy.duration amount) }
  | _ => { b with locks := upd b.locks id (some { l with amount := l.amount + amount }) }

theorem addTokensToLockS_ok {s s' : SState} {sender id : Nat} {a : Int} (hc : addTokensToLockS s sender id a = .ok s') :
    ∃ l, s.b.locks id = some l ∧ l.owner = sender ∧ 0 < a ∧ (s.b.synths id = [] ∨ ∃ sy, s.b.synths id = [sy]) ∧
      increaseHookS { s with b := addedState s.b id l a } id l.denom a = .ok s' := by
  unfold addTokensToLockS at hc
  split at hc
  · cases hc
  · rename_i l hl
    split at hc
    · cases hc
    · rename_i h1
      split at hc
      · cases hc
      · split at hc
        · cases hc
        · rename_i ha
          dsimp only at hc
          split at hc
          · cases hc
          · rename_i hsy
            have hsy' : s.b.synths id = [] := hsy
            refine ⟨l, hl, by simpa using h1, by omega, Or.inl hsy', ?_⟩
            unfold addedState; rw [hsy']; exact hc
          · rename_i sy hsy
            have hsy' : s.b.synths id = [sy] := hsy
            refine ⟨l, hl, by simpa using h1, by omega, Or.inr ⟨sy, hsy'⟩, ?_⟩
            unfold addedState; rw [hsy']; exact hc

theorem inv_addedState {b : State} {id : Nat} {l : Lock} {a : Int} (h : Inv b) (hl : b.locks id = some l) (ha : 0 < a)
    (hs : b.synths id = [] ∨ ∃ sy, b.synths id = [sy]) : Inv (addedState b id l a) := by
  have hpos : 0 < l.amount := by
    have := h.lockOK id
    rw [hl] at this
    exact this.1
  rcases hs with hs | ⟨sy, hs⟩
  · unfold addedState; rw [hs]; exact inv_adjust_plain h hl hs (by omega)
  · unfold addedState; rw [hs]; exact inv_adjust_marked h hl hs (by omega)

theorem inv_addTokensToLockS {s s' : SState} {sender id : Nat} {a : Int} (h : Inv s.b)
    (hc : addTokensToLockS s sender id a = .ok s') : Inv s'.b := by
  obtain ⟨l, hl, _, ha, hs, hh⟩ := addTokensToLockS_ok hc
  exact (increaseHookS_bank hh).inv (inv_addedState h hl ha hs)

/-! ## SuperfluidUndelegateAndUnbondLock -/

theorem inv_undelegateAndUnbondS {s s' : SState} {id sender nid : Nat} {amount : Int} (h : Inv s.b)
    (hc : superfluidUndelegateAndUnbondLockS s id sender amount = .ok (s', nid)) : Inv s'.b := by
  unfold superfluidUndelegateAndUnbondLockS at hc
  split at hc
  · cases hc
  · rename_i l hl
    split at hc
    · cases hc
    · split at hc
      · cases hc
      · split at hc
        · cases hc
        · split at hc
          · cases hc
          · rename_i key hkey
            split at hc
            · cases hc
            · rename_i s1 hu
              have i1 := inv_superfluidUndelegateS h hu
              have c1 := superfluidUndelegateS_core h hu
              split at hc
              · cases hc
              · rename_i s2 nid' hb
                have i2 := inv_unbondLock i1 hb
                split at hc
                · split at hc
                  · cases hc
                  · injection hc with hc
                    injection hc with hc _
                    subst hc
                    exact i2
                · rename_i hne
                  split at hc
                  · cases hc
                  · rename_i hnid
                    split at hc
                    · cases hc
                    · rename_i s3 hd
                      have i3 := inv_deleteUnbonding i2 hd
                      have c3 := deleteSynth_core hd
                      split at hc
                      · cases hc
                      · rename_i s4 hdel
                        have i4 : Inv s4.b := inv_superfluidDelegateS (s := { s1 with b := s3 }) i3 hdel
                        have c4 : SameCore s3 s4.b := superfluidDelegateS_core (s := { s1 with b := s3 }) hdel
                        split at hc
                        · cases hc
                        · rename_i s5 hcs
                          injection hc with hc
                          injection hc with hc _
                          subst hc
                          refine inv_createUnbonding i4 ?_ hcs
                          obtain ⟨l1, sy, hl1, _, _, _, hbu⟩ := unbondLock_ok hb
                          obtain ⟨l1', hl1', _, hcase⟩ := beginUnlock_ok hbu
                          rw [hl1] at hl1'; injection hl1' with hl1'; subst hl1'
                          rw [c1.locks, hl] at hl1; injection hl1 with hl1; subst hl1
                          obtain ⟨l0, hl0, _, _, hdur, _⟩ := h.conn_lock hkey
                          rw [hl] at hl0; injection hl0 with hl0; subst hl0
                          rcases hcase with ⟨hn, _⟩ | ⟨a, _, _, _, _, hn, hs2⟩
                          · exact absurd hn hnid
                          · intro l' le hl' hle
                            rw [c4.locks, c3.locks, hs2] at hl'
                            dsimp only at hl'
                            rw [hn] at hl'
                            simp only [upd, if_true] at hl'
                            injection hl' with hl'
                            subst hl'
                            dsimp only at hle
                            injection hle with hle
                            have n4 : s4.b.now = s.b.now := by
                              rw [c4.now, c3.now, hs2]; exact c1.now
                            have u4 : s4.b.unbondingTime = s.b.unbondingTime := by
                              rw [c4.ub, c3.ub, hs2]; exact c1.ub
                            have n1 : s1.b.now = s.b.now := c1.now
                            rw [n4, u4]
                            omega

/-! ## the epoch refresh -/

theorem refreshOneS_bank {s s' : SState} {k : AccKey} (hc : refreshOneS s k = .ok s') : BankOnly s.b s'.b := by
  unfold refreshOneS at hc
  split at hc
  · injection hc with hc; subst hc; exact BankOnly.refl _
  · split at hc
    · cases hc
    · split at hc
      · cases hc
      · split at hc
        · split at hc
          · cases hc
          · injection hc with hc; subst hc; exact BankOnly.refl _
          · rename_i s2 hm; injection hc with hc; subst hc; exact mintS_bank hm
        · split at hc
          · split at hc
            · cases hc
            · injection hc with hc; subst hc; exact BankOnly.refl _
            · rename_i s2 hm; injection hc with hc; subst hc; exact burnS_bank hm
          · injection hc with hc; subst hc; exact BankOnly.refl _

theorem refreshAllS_bank : ∀ (accs : List (AccKey × Nat)) (s s' : SState), refreshAllS s accs = .ok s' → BankOnly s.b s'.b
  | [], s, s', hc => by
    unfold refreshAllS at hc; injection hc with hc; subst hc; exact BankOnly.refl _
  | (k, g) :: r, s, s', hc => by
    unfold refreshAllS at hc
    split at hc
    · cases hc
    · rename_i s1 h1
      exact (refreshOneS_bank h1).trans (refreshAllS_bank r s1 s' hc)

/-- the epoch: the multiplier update of Model/Superfluid.lean, then (unless an asset was unwound) a refresh that
touches only the bank and the staking state. -/
theorem epochS_ok {s s' : SState} {ups : List (Nat × Int × Int × Bool)} (hc : epochS s ups = .ok s') :
    ∃ b1 full, updateMults s.b ups = .ok (b1, full) ∧ BankOnly b1 s'.b ∧
      (full = true → refreshAllS { s with b := b1 } s.b.accs = .ok s') ∧ (full = false → s' = { s with b := b1 }) := by
  unfold epochS at hc
  split at hc
  · cases hc
  · rename_i b1 h1
    injection hc with hc; subst hc
    exact ⟨b1, false, h1, BankOnly.refl _, (fun h => by cases h), (fun _ => rfl)⟩
  · rename_i b1 h1
    exact ⟨b1, true, h1, refreshAllS_bank _ _ _ hc, (fun _ => hc), (fun h => by cases h)⟩

theorem epochOS_ok {s s' : SState} {ups : List (Nat × Int × Int × Bool)} {order : List AccKey} (hc : epochOS s ups order = .ok s') :
    (s.b.accs.all (fun p => order.contains p.1) ∧ order.all (fun k => (findAcc s.b.accs k).isSome)) ∧
    ∃ b1 full, updateMults s.b ups = .ok (b1, full) ∧ BankOnly b1 s'.b ∧
      (full = true → refreshAllS { s with b := b1 } (order.map fun k => (k, 0)) = .ok s') ∧ (full = false → s' = { s with b := b1 }) := by
  unfold epochOS at hc
  split at hc
  · cases hc
  · rename_i hperm
    refine ⟨Decidable.of_not_not hperm, ?_⟩
    split at hc
    · cases hc
    · rename_i b1 h1
      injection hc with hc; subst hc
      exact ⟨b1, false, h1, BankOnly.refl _, (fun h => by cases h), (fun _ => rfl)⟩
    · rename_i b1 h1
      exact ⟨b1, true, h1, refreshAllS_bank _ _ _ hc, (fun _ => hc), (fun h => by cases h)⟩

theorem inv_epochS {s s' : SState} {ups : List (Nat × Int × Int × Bool)} (h : Inv s.b) (hc : epochS s ups = .ok s') : Inv s'.b := by
  obtain ⟨b1, full, h1, hb, _, _⟩ := epochS_ok hc
  obtain ⟨f, g⟩ := updateMults_spec ups s.b b1 full h.mult0 h1
  exact hb.inv (f.inv h g)

theorem inv_epochOS {s s' : SState} {ups : List (Nat × Int × Int × Bool)} {order : List AccKey} (h : Inv s.b)
    (hc : epochOS s ups order = .ok s') : Inv s'.b := by
  obtain ⟨_, b1, full, h1, hb, _, _⟩ := epochOS_ok hc
  obtain ⟨f, g⟩ := updateMults_spec ups s.b b1 full h.mult0 h1
  exact hb.inv (f.inv h g)

end OsmoVerif.Superfluid
