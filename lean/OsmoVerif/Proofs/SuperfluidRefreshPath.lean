/- C11, stake tracking along histories at any exchange rate: every call of a slash-free history reaches the staking module
only through a short sequence of `mintOsmoTokensAndDelegate` / `forceUndelegateAndBurnOsmoTokens` calls (a `KPath`); the
share invariant holds along every history; the stake follows the nominal amounts up to `1 + ρ` tokens per call. -/
import OsmoVerif.Proofs.SuperfluidRefreshDrift

namespace OsmoVerif.Superfluid
open OsmoVerif.Num OsmoVerif.Spec

/-- `KPath s evs sts s'`: from `s` to `s'` the staking state changed only through the calls `evs` (in this order; `sts`
are the states they were made in), everything else that happened touched only the lockup / bank part `b`. -/
inductive KPath : SState → List StkEv → List SState → SState → Prop
  | done (s : SState) (b' : State) : KPath s [] [] { s with b := b' }
  | step {s : SState} (b0 : State) {s1 : SState} {ev : StkEv} {evs : List StkEv} {sts : List SState} {s' : SState} :
      applyEv { s with b := b0 } ev = .ok s1 → KPath s1 evs sts s' → KPath s (ev :: evs) ({ s with b := b0 } :: sts) s'

theorem KPath.refl (s : SState) : KPath s [] [] s := KPath.done s s.b

theorem KPath.of_k_eq {s s' : SState} (h : s'.k = s.k) : KPath s [] [] s' := by
  have : s' = { s with b := s'.b } := by
    cases s; cases s'; simp only at h; subst h; rfl
  rw [this]; exact KPath.done s s'.b

/-- the path does not depend on the lockup / bank part it starts from. -/
theorem KPath.withB {s : SState} {b' : State} {evs : List StkEv} {sts : List SState} {s' : SState}
    (h : KPath { s with b := b' } evs sts s') : KPath s evs sts s' := by
  cases h with
  | done _ b'' => exact KPath.done s b''
  | step b0 h1 h2 => exact KPath.step b0 h1 h2

theorem KPath.append {s s1 s2 : SState} {e1 e2 : List StkEv} {t1 t2 : List SState}
    (h1 : KPath s e1 t1 s1) (h2 : KPath s1 e2 t2 s2) : KPath s (e1 ++ e2) (t1 ++ t2) s2 := by
  induction h1 with
  | done s b' => exact h2.withB
  | step b0 ha _ ih => exact KPath.step b0 ha (ih h2)

theorem KPath.length {s s' : SState} {evs : List StkEv} {sts : List SState} (h : KPath s evs sts s') : sts.length = evs.length := by
  induction h with
  | done => rfl
  | step _ _ _ ih => simp [ih]

/-- one mint / burn as a path. -/
theorem KPath.single {s s' : SState} (b0 : State) {ev : StkEv} (h : applyEv { s with b := b0 } ev = .ok s') :
    KPath s [ev] [{ s with b := b0 }] s' := KPath.step b0 h (KPath.refl s')

/-- … followed by a change of the lockup part. -/
theorem KPath.single_then {s s1 : SState} (b0 b' : State) {ev : StkEv} (h : applyEv { s with b := b0 } ev = .ok s1) :
    KPath s [ev] [{ s with b := b0 }] { s1 with b := b' } := KPath.step b0 h (KPath.done s1 b')

/-! ## every entry point is a path -/

theorem kpath_delegate {s s' : SState} {snd id v : Nat} (hc : superfluidDelegateS s snd id v = .ok s') :
    ∃ l b3 amt, s.b.locks id = some l ∧ osmoTokens s.b l.denom l.amount = .ok amt ∧
      KPath s [.mint amt (l.denom, v)] [{ s with b := b3 }] s' := by
  obtain ⟨l, s3, amt, hl, _, _, _, _, _, _, hcs, hos, _, hm⟩ := superfluidDelegateS_ok hc
  obtain ⟨c1, c2, c3, c4, c5⟩ := createSynth_bank hcs
  obtain ⟨g1, g2, g3, g4, g5⟩ := getOrCreateAcc_bank s.b (l.denom, v)
  refine ⟨l, s3, amt, hl, ?_, KPath.single s3 hm⟩
  rw [← hos]
  exact (osmoTokens_congr (c3.trans g3) (c4.trans g4) (c5.trans g5) _ _).symm

theorem kpath_undelegateCommon {s s1 : SState} {snd id : Nat} {key : AccKey} (hc : undelegateCommonS s snd id = .ok (s1, key)) :
    ∃ l b2 amt, s.b.locks id = some l ∧ s.b.conns id = some key ∧ osmoTokens s.b key.1 l.amount = .ok amt ∧
      KPath s [.burn amt key] [{ s with b := b2 }] s1 := by
  obtain ⟨l, s2, amt, hl, _, _, hk, hds, hos, hb⟩ := undelegateCommonS_ok hc
  obtain ⟨_, _, c3, c4, c5⟩ := deleteSynth_bank hds
  refine ⟨l, s2, amt, hl, hk, ?_, KPath.single s2 hb⟩
  rw [← hos]
  exact (osmoTokens_congr (b := s.b) c3 c4 c5 _ _).symm

theorem kpath_undelegate {s s' : SState} {snd id : Nat} (hc : superfluidUndelegateS s snd id = .ok s') :
    ∃ l key b2 amt, s.b.locks id = some l ∧ s.b.conns id = some key ∧ osmoTokens s.b key.1 l.amount = .ok amt ∧
      KPath s [.burn amt key] [{ s with b := b2 }] s' := by
  obtain ⟨s1, key, b', h1, _, hs'⟩ := superfluidUndelegateS_ok hc
  obtain ⟨l, b2, amt, hl, hk, hos, hp⟩ := kpath_undelegateCommon h1
  subst hs'
  refine ⟨l, key, b2, amt, hl, hk, hos, ?_⟩
  have := KPath.append hp (KPath.done s1 b')
  simpa using this

theorem kpath_hook {s s' : SState} {id d : Nat} {a : Int} (hc : increaseHookS s id d a = .ok s') :
    ∃ evs sts, KPath s evs sts s' ∧ evs.length ≤ 1 := by
  unfold increaseHookS at hc
  split at hc
  · injection hc with hc; subst hc; exact ⟨[], [], KPath.refl _, by simp⟩
  · split at hc
    · injection hc with hc; subst hc; exact ⟨[], [], KPath.refl _, by simp⟩
    · split at hc
      · cases hc
      · injection hc with hc; subst hc; exact ⟨[], [], KPath.refl _, by simp⟩
      · split at hc
        · injection hc with hc; subst hc; exact ⟨[], [], KPath.refl _, by simp⟩
        · split at hc
          · cases hc
          · injection hc with hc; subst hc; exact ⟨[], [], KPath.refl _, by simp⟩
          · rename_i amt _ key _ _ s2 hm
            injection hc with hc; subst hc
            exact ⟨[.mint _ _], _, KPath.single s.b (show applyEv { s with b := s.b } (.mint _ _) = .ok s2 from hm), by simp⟩

theorem kpath_addToLock {s s' : SState} {snd id : Nat} {a : Int} (hc : addTokensToLockS s snd id a = .ok s') :
    ∃ evs sts, KPath s evs sts s' ∧ evs.length ≤ 1 := by
  obtain ⟨l, _, _, _, _, hh⟩ := addTokensToLockS_ok hc
  obtain ⟨evs, sts, hp, hlen⟩ := kpath_hook hh
  exact ⟨evs, sts, hp.withB, hlen⟩

theorem kpath_undelegateAndUnbond {s s' : SState} {id snd nid : Nat} {amount : Int}
    (hc : superfluidUndelegateAndUnbondLockS s id snd amount = .ok (s', nid)) :
    ∃ evs sts, KPath s evs sts s' ∧ evs.length ≤ 2 := by
  unfold superfluidUndelegateAndUnbondLockS at hc
  split at hc
  · cases hc
  · split at hc
    · cases hc
    · split at hc
      · cases hc
      · split at hc
        · cases hc
        · split at hc
          · cases hc
          · split at hc
            · cases hc
            · rename_i s1 hu
              obtain ⟨_, _, b2, _, _, _, _, hp1⟩ := kpath_undelegate hu
              split at hc
              · cases hc
              · rename_i b2' nid' hb
                split at hc
                · split at hc
                  · cases hc
                  · injection hc with hc
                    injection hc with hc _
                    subst hc
                    have := KPath.append hp1 (KPath.done s1 b2')
                    exact ⟨_, _, this, by simp⟩
                · split at hc
                  · cases hc
                  · split at hc
                    · cases hc
                    · rename_i b3 hd
                      split at hc
                      · cases hc
                      · rename_i s4 hdel
                        split at hc
                        · cases hc
                        · rename_i b5 hcs
                          injection hc with hc
                          injection hc with hc _
                          subst hc
                          obtain ⟨_, b3', _, _, _, hp2⟩ := kpath_delegate hdel
                          have hp2' : KPath s1 _ _ s4 := hp2.withB
                          have := KPath.append (KPath.append hp1 hp2') (KPath.done s4 b5)
                          exact ⟨_, _, this, by simp⟩

theorem kpath_refreshOne {s s' : SState} {key : AccKey} (hc : refreshOneS s key = .ok s') :
    ∃ evs sts, KPath s evs sts s' ∧ evs.length ≤ 1 := by
  unfold refreshOneS at hc
  split at hc
  · injection hc with hc; subst hc; exact ⟨[], [], KPath.refl _, by simp⟩
  · split at hc
    · cases hc
    · split at hc
      · cases hc
      · split at hc
        · split at hc
          · cases hc
          · injection hc with hc; subst hc; exact ⟨[], [], KPath.refl _, by simp⟩
          · rename_i s2 hm
            injection hc with hc; subst hc
            exact ⟨[.mint _ _], _, KPath.single s.b (show applyEv { s with b := s.b } (.mint _ _) = .ok s2 from hm), by simp⟩
        · split at hc
          · split at hc
            · cases hc
            · injection hc with hc; subst hc; exact ⟨[], [], KPath.refl _, by simp⟩
            · rename_i s2 hm
              injection hc with hc; subst hc
              exact ⟨[.burn _ _], _, KPath.single s.b (show applyEv { s with b := s.b } (.burn _ _) = .ok s2 from hm), by simp⟩
          · injection hc with hc; subst hc; exact ⟨[], [], KPath.refl _, by simp⟩

theorem kpath_refreshAll : ∀ (accs : List (AccKey × Nat)) (s s' : SState), refreshAllS s accs = .ok s' →
    ∃ evs sts, KPath s evs sts s' ∧ evs.length ≤ accs.length
  | [], s, s', hc => by
    unfold refreshAllS at hc; injection hc with hc; subst hc; exact ⟨[], [], KPath.refl _, by simp⟩
  | (k, g) :: r, s, s', hc => by
    obtain ⟨s1, h1, h2⟩ := refreshAllS_cons hc
    obtain ⟨e1, t1, p1, l1⟩ := kpath_refreshOne h1
    obtain ⟨e2, t2, p2, l2⟩ := kpath_refreshAll r s1 s' h2
    exact ⟨e1 ++ e2, t1 ++ t2, p1.append p2, by simp; omega⟩

/-- the number of staking calls a call of a history can make. -/
def stakeCalls (s : SState) : OpS → Nat
  | .base (.delegate ..) => 1
  | .base (.undelegate ..) => 1
  | .base (.addToLock ..) => 1
  | .base (.undelegateAndUnbond ..) => 2
  | .base (.epoch _) => s.b.accs.length
  | .epochO _ order => order.length
  | _ => 0

def isSlashOp : OpS → Bool
  | .slash .. => true
  | .slashRefill .. => true
  | _ => false

/-- **every call of a slash-free history is a path** of at most `stakeCalls` mint / burn calls. -/
theorem kpath_applyOpS {s s' : SState} {op : OpS} (hns : isSlashOp op = false) (hc : applyOpS s op = .ok s') :
    ∃ evs sts, KPath s evs sts s' ∧ evs.length ≤ stakeCalls s op := by
  cases op with
  | slash _ _ _ _ => cases hns
  | slashRefill _ _ _ _ _ => cases hns
  | epochO ups order =>
    unfold applyOpS at hc
    obtain ⟨q, hq, hqs⟩ := map_ok hc
    subst hqs
    obtain ⟨r, hr, hqr⟩ := map_ok (show (epochOS s ups order).map _ = .ok q from hq)
    subst hqr
    obtain ⟨_, b1, full, _, _, hf1, hf2⟩ := epochOS_ok hr
    cases full with
    | false => rw [hf2 rfl]; exact ⟨[], [], KPath.done s b1, by simp⟩
    | true =>
      obtain ⟨evs, sts, hp, hl⟩ := kpath_refreshAll _ _ _ (hf1 rfl)
      exact ⟨evs, sts, hp.withB, by simpa [stakeCalls] using hl⟩
  | base op =>
    by_cases hf : ledgerFree op = true
    · obtain ⟨_, hk⟩ := applyOpS_ledgerFree hf hc
      exact ⟨[], [], KPath.of_k_eq hk, by simp⟩
    · unfold applyOpS at hc
      obtain ⟨q, hq, hqs⟩ := map_ok hc
      subst hqs
      cases op with
      | addToLock snd id a =>
        obtain ⟨r, hr, hqr⟩ := map_ok (show (addTokensToLockS s snd id a).map _ = .ok q from hq)
        subst hqr
        obtain ⟨evs, sts, hp, hl⟩ := kpath_addToLock hr
        exact ⟨evs, sts, hp, hl⟩
      | delegate snd id v =>
        obtain ⟨r, hr, hqr⟩ := map_ok (show (superfluidDelegateS s snd id v).map _ = .ok q from hq)
        subst hqr
        obtain ⟨_, _, _, _, _, hp⟩ := kpath_delegate hr
        exact ⟨_, _, hp, by simp [stakeCalls]⟩
      | undelegate snd id =>
        obtain ⟨r, hr, hqr⟩ := map_ok (show (superfluidUndelegateS s snd id).map _ = .ok q from hq)
        subst hqr
        obtain ⟨_, _, _, _, _, _, _, hp⟩ := kpath_undelegate hr
        exact ⟨_, _, hp, by simp [stakeCalls]⟩
      | undelegateAndUnbond snd id a =>
        obtain ⟨r, hr, hqr⟩ := map_ok (show (superfluidUndelegateAndUnbondLockS s id snd a).map _ = .ok q from hq)
        subst hqr
        obtain ⟨evs, sts, hp, hl⟩ := kpath_undelegateAndUnbond (show superfluidUndelegateAndUnbondLockS s id snd a = .ok (r.1, r.2) from hr)
        exact ⟨evs, sts, hp, hl⟩
      | epoch ups =>
        obtain ⟨r, hr, hqr⟩ := map_ok (show (epochS s ups).map _ = .ok q from hq)
        subst hqr
        obtain ⟨b1, full, _, _, hf1, hf2⟩ := epochS_ok hr
        cases full with
        | false => rw [hf2 rfl]; exact ⟨[], [], KPath.done s b1, by simp⟩
        | true =>
          obtain ⟨evs, sts, hp, hl⟩ := kpath_refreshAll _ _ _ (hf1 rfl)
          exact ⟨evs, sts, hp.withB, by simpa [stakeCalls] using hl⟩
      | lock _ _ _ _ _ => exact absurd rfl hf
      | unbond _ _ => exact absurd rfl hf
      | beginUnlock _ _ _ => exact absurd rfl hf
      | withdraw _ => exact absurd rfl hf
      | endBlock => exact absurd rfl hf
      | advance _ => exact absurd rfl hf

/-- the staking calls a history can make at most. -/
def stakeCallsAlong : SState → List OpS → Nat
  | _, [] => 0
  | s, op :: r => stakeCalls s op + stakeCallsAlong (stepS s op) r

/-- **every slash-free history is a path.** -/
theorem kpath_runS : ∀ (ops : List OpS) (s : SState), (∀ op, op ∈ ops → isSlashOp op = false) →
    ∃ evs sts, KPath s evs sts (runS s ops) ∧ evs.length ≤ stakeCallsAlong s ops
  | [], s, _ => ⟨[], [], KPath.refl s, by simp [stakeCallsAlong]⟩
  | op :: r, s, hns => by
    obtain ⟨e2, t2, p2, l2⟩ := kpath_runS r (stepS s op) (fun o ho => hns o (List.mem_cons_of_mem _ ho))
    have h1 : ∃ e1 t1, KPath s e1 t1 (stepS s op) ∧ e1.length ≤ stakeCalls s op := by
      unfold stepS
      cases hc : applyOpS s op with
      | error e => exact ⟨[], [], KPath.refl s, by simp⟩
      | ok s' => exact kpath_applyOpS (hns op (List.mem_cons_self ..)) hc
    obtain ⟨e1, t1, p1, l1⟩ := h1
    refine ⟨e1 ++ e2, t1 ++ t2, p1.append p2, ?_⟩
    simp only [List.length_append, stakeCallsAlong]
    omega


/-! ## the share invariant along every history (slashes included) -/

/-- the staking-state invariant: the share invariant of every validator, and no validator with negative tokens or
shares. -/
def StkInv (k : Stk) : Prop := ShareInv k ∧ ∀ v, 0 ≤ (k.val v).tokens ∧ 0 ≤ (k.val v).shares

theorem stkInv_step {k k' : Stk} {key : AccKey} {δ : Int} {T' : Int} (h : StkInv k)
    (hkey : shOf k' key = shOf k key + δ) (hδ : 0 ≤ shOf k key + δ) (hoth : ∀ x, x ≠ key → shOf k' x = shOf k x)
    (hval : k'.val key.2 = { tokens := T', shares := (k.val key.2).shares + δ }) (hT' : 0 ≤ T')
    (hS' : 0 ≤ (k.val key.2).shares + δ) (hvoth : ∀ j, j ≠ key.2 → k'.val j = k.val j) : StkInv k' := by
  constructor
  · intro v
    by_cases hv : key.2 = v
    · subst hv
      exact (h.1 key.2).step hkey hδ hoth (by rw [hval])
    · exact (h.1 v).frame hv hoth hvoth
  · intro v
    by_cases hv : v = key.2
    · subst hv; rw [hval]; exact ⟨hT', hS'⟩
    · rw [hvoth v hv]; exact h.2 v

theorem stkInv_mintS {s s' : SState} {a : Int} {key : AccKey} (h : StkInv s.k) (hc : mintS s a key = .ok s') : StkInv s'.k := by
  obtain ⟨f1, f2⟩ := mintS_frame hc
  obtain ⟨hT0, hS0⟩ := h.2 key.2
  obtain ⟨_, ha, hex, v', issued, d', hadd, hdd, hs'⟩ := mintS_ok hc
  have hd0 := (h.1 key.2).1 key rfl
  have hdS := (h.1 key.2).le (key := key)
  by_cases hSz : (s.k.val key.2).shares = 0
  · -- the first delegation of the validator: the exchange rate is set to one
    have hdz : shOf s.k key = 0 := by omega
    unfold Val.addTokensFromDel at hadd
    dsimp only at hadd
    rw [if_pos hSz] at hadd
    dsimp only at hadd
    split at hadd
    · rename_i t sh' ht hsh
      injection hadd with hadd
      injection hadd with e1 e2
      have hsh' : sh' = (s.k.val key.2).shares + a * P18 := by unfold Dec.add at hsh; exact chkDec_eq hsh
      have ed' : d' = shOf s.k key + issued := by unfold Dec.add at hdd; exact chkDec_eq hdd
      have hP : 0 ≤ a * P18 := Int.mul_nonneg (by omega) (by decide)
      subst hs'
      refine stkInv_step (key := key) (δ := a * P18) (T' := t) h ?_ (by omega) (shOf_frame f1) ?_ ?_ (by omega) f2
      · simp [shOf, setDsh, updK, ed', ← e2]
      · simp [setDsh, setVal, upd, ← e1, hsh']
      · rw [chkInt_eq ht]; omega
    · cases hadd
  · have hSp : 0 < (s.k.val key.2).shares := by omega
    have hTp : 0 < (s.k.val key.2).tokens := by
      rcases Int.lt_or_le 0 (s.k.val key.2).tokens with h1 | h1
      · exact h1
      · exact absurd ⟨by omega, hSp⟩ hex
    obtain ⟨i, _, _, hi, _, hv', hd', _⟩ := mintS_effect hTp hSp hc
    exact stkInv_step (key := key) (δ := i) h (by rw [shOf_of_some hd']) (by omega) (shOf_frame f1) hv' (by omega) (by omega) f2

theorem stkInv_burnS {s s' : SState} {a : Int} {key : AccKey} (h : StkInv s.k) (hc : burnS s a key = .ok s') : StkInv s'.k := by
  obtain ⟨f1, f2⟩ := burnS_frame hc
  obtain ⟨hT0, hS0⟩ := h.2 key.2
  rcases (burnS_ok hc).2 with ⟨_, hs'⟩ | ⟨d, sh, d', v', got, hd, ha, hval, hle, hsub, hrem, hs'⟩
  · subst hs'; exact h
  · have hTp : 0 < (s.k.val key.2).tokens := by
      unfold validateUnbondAmount at hval
      split at hval
      · cases hval
      · omega
    obtain ⟨_, _, hsh0, _, _⟩ := validateUnbondAmount_ok hTp hS0 ha hval
    have ed : shOf s.k key = d := shOf_of_some hd
    have hdS := (h.1 key.2).le (key := key)
    have ed' : d' = d - sh := by unfold Dec.sub at hsub; exact chkDec_eq hsub
    have hv'' : v'.shares = (s.k.val key.2).shares - sh ∧ 0 ≤ v'.tokens := by
      rcases removeDelShares_spec hrem with ⟨r1, r2, _⟩ | ⟨_, _, r3, r4⟩
      · rw [r2]; exact ⟨by show (0 : Int) = _; omega, Int.le_refl _⟩
      · rw [r3]; exact ⟨rfl, by show 0 ≤ _ - got; omega⟩
    subst hs'
    refine stkInv_step (key := key) (δ := -sh) (T' := v'.tokens) h ?_ (by omega) (shOf_frame f1) ?_ hv''.2 (by omega) f2
    · have : (setDsh (setVal s.k key.2 v') key (if d' = 0 then none else some d')).dsh key = (if d' = 0 then none else some d') := by
        simp [setDsh, updK]
      rw [shOf_ite this, ed, ed']; omega
    · have : (setDsh (setVal s.k key.2 v') key (if d' = 0 then none else some d')).val key.2 = v' := by
        simp [setDsh, setVal, upd]
      rw [this]
      cases v' with
      | mk t sh' =>
        simp only at hv''
        rw [hv''.1]
        simp only [Val.mk.injEq, true_and]
        omega

theorem stkInv_kpath {s s' : SState} {evs : List StkEv} {sts : List SState} (hp : KPath s evs sts s') (h : StkInv s.k) :
    StkInv s'.k := by
  induction hp with
  | done s b' => exact h
  | @step s0 b0 s1 ev evs' sts' s2 ha _ ih =>
    apply ih
    cases ev with
    | mint a key => exact stkInv_mintS (s := { s0 with b := b0 }) h ha
    | burn a key => exact stkInv_burnS (s := { s0 with b := b0 }) h ha

/-- a validator that loses between none and all of its tokens, and no share, keeps the staking-state invariant. -/
theorem stkInv_burnTokens {k : Stk} {val : Nat} {burn : Int} (h : StkInv k) (hb0 : 0 ≤ burn) (hb1 : burn ≤ (k.val val).tokens) :
    StkInv (setVal k val { (k.val val) with tokens := (k.val val).tokens - burn }) := by
  obtain ⟨hT0, hS0⟩ := h.2 val
  have hv : ∀ v, (setVal k val { (k.val val) with tokens := (k.val val).tokens - burn }).val v =
      if v = val then { (k.val val) with tokens := (k.val val).tokens - burn } else k.val v := by
    intro v; simp only [setVal, upd]
  have hsh : ∀ x, shOf (setVal k val { (k.val val) with tokens := (k.val val).tokens - burn }) x = shOf k x := by
    intro x; rfl
  constructor
  · intro v
    constructor
    · intro key hk; rw [hsh]; exact (h.1 v).1 key hk
    · intro L hnd hL
      have := (h.1 v).2 L hnd hL
      rw [sumSh_congr L (fun x _ => hsh x), hv v]
      split
      · rename_i e'; subst e'; exact this
      · exact this
  · intro v
    rw [hv v]
    split
    · rename_i e'; subst e'
      exact ⟨by show 0 ≤ _ - burn; omega, hS0⟩
    · exact h.2 v

theorem stkInv_slashS {s s' : SState} {val : Nat} {p fr : Int} {skip : List Nat} {burn : Int} (hI : Inv s.b) (h : StkInv s.k)
    (hc : slashS s val p fr skip = .ok (s', burn)) : StkInv s'.k := by
  rcases slashS_ok hI hc with ⟨_, e⟩ | ⟨_, _, a, hb, b1, _, _, e⟩
  · subst e; exact h
  · obtain ⟨hT0, _⟩ := h.2 val
    obtain ⟨b0, b1'⟩ := burnAmount_bounds a (s.k.val val).tokens hT0
    subst e
    exact stkInv_burnTokens h (by omega) (by omega)

/-- the hooks of the top-ups are a path of at most one mint each. -/
theorem kpath_refillHooks : ∀ (r : List (Nat × Int)) (s s' : SState), refillHooks s r = .ok s' →
    ∃ evs sts, KPath s evs sts s' ∧ evs.length ≤ r.length
  | [], s, s', hc => by
    unfold refillHooks at hc; injection hc with hc; subst hc; exact ⟨[], [], KPath.refl _, by simp⟩
  | (id, a) :: r, s, s', hc => by
    unfold refillHooks at hc
    split at hc
    · cases hc
    · split at hc
      · cases hc
      · split at hc
        · cases hc
        · rename_i s1 h1
          obtain ⟨e1, t1, p1, l1⟩ := kpath_hook h1
          obtain ⟨e2, t2, p2, l2⟩ := kpath_refillHooks r s1 s' hc
          exact ⟨e1 ++ e2, t1 ++ t2, p1.append p2, by simp only [List.length_append, List.length_cons]; omega⟩

theorem stkInv_slashRefillS {s s' : SState} {val : Nat} {p fr : Int} {skip : List Nat} {refill : List (Nat × Int)} {burn : Int}
    (hI : Inv s.b) (h : StkInv s.k) (hc : slashRefillS s val p fr skip refill = .ok (s', burn)) : StkInv s'.k := by
  obtain ⟨_, _, a, hb, b1, _, _, hh⟩ := slashRefillS_ok hI hc
  obtain ⟨hT0, _⟩ := h.2 val
  obtain ⟨b0, b1'⟩ := burnAmount_bounds a (s.k.val val).tokens hT0
  obtain ⟨evs, sts, hp, _⟩ := kpath_refillHooks _ _ _ hh
  exact stkInv_kpath hp (stkInv_burnTokens h (by omega) (by omega))

/-- **the staking-state invariant holds along EVERY history** — slashes, epochs in any order, any exchange rate. -/
theorem stkInv_runS : ∀ (ops : List OpS) (s : SState), Inv s.b → StkInv s.k → StkInv (runS s ops).k
  | [], _, _, h => h
  | op :: r, s, hI, h => by
    refine stkInv_runS r (stepS s op) (inv_stepS op hI) ?_
    unfold stepS
    cases hc : applyOpS s op with
    | error e => exact h
    | ok s' =>
      by_cases hs : isSlashOp op = true
      · cases op with
        | slash v p f x =>
          unfold applyOpS at hc
          obtain ⟨q, hq, hqs⟩ := map_ok hc
          subst hqs
          obtain ⟨r', hr, hqr⟩ := map_ok (show (slashS s v p f x).map _ = .ok q from hq)
          subst hqr
          exact stkInv_slashS hI h (show slashS s v p f x = .ok (r'.1, r'.2) from hr)
        | slashRefill v p f x t =>
          unfold applyOpS at hc
          obtain ⟨q, hq, hqs⟩ := map_ok hc
          subst hqs
          obtain ⟨r', hr, hqr⟩ := map_ok (show (slashRefillS s v p f x t).map _ = .ok q from hq)
          subst hqr
          exact stkInv_slashRefillS hI h (show slashRefillS s v p f x t = .ok (r'.1, r'.2) from hr)
        | base _ => cases hs
        | epochO _ _ => cases hs
      · obtain ⟨evs, sts, hp, _⟩ := kpath_applyOpS (by simpa using hs) hc
        exact stkInv_kpath hp h

/-! ## the stake along a path -/

/-- the nominal amounts of the calls of a path for account `k`. -/
def nomPath (k : AccKey) : List StkEv → List SState → Int
  | ev :: evs, st :: sts => evNom k st ev + nomPath k evs sts
  | _, _ => 0

/-- **STAKE TRACKING ALONG A PATH, any exchange rate.** -/
theorem kpath_stake {k : AccKey} {p q : Int} (hq : 0 < q) {s s' : SState} {evs : List StkEv} {sts : List SState}
    (hp : KPath s evs sts s') (hI : ShareInvV s.k k.2) (hH : ∀ st, st ∈ sts → HealthyR p q k.2 st) :
    ShareInvV s'.k k.2 ∧
    -(callsOn k.2 evs : ℚ) * ((p : ℚ) / q + uQ / 2) ≤ stakeQ s'.k k - stakeQ s.k k - (nomPath k evs sts : ℚ) ∧
    stakeQ s'.k k - stakeQ s.k k - (nomPath k evs sts : ℚ) ≤ (callsOn k.2 evs : ℚ) * ((p : ℚ) / q + 1) := by
  induction hp with
  | done s b' => simp [callsOn, nomPath, hI]
  | @step s0 b0 s1 ev evs' sts' s2 ha _ ih =>
    obtain ⟨i1, a1, a2⟩ := applyEv_stake (s := { s0 with b := b0 }) hI hq (hH _ (List.mem_cons_self ..)) ha
    obtain ⟨i2, b1, b2⟩ := ih i1 (fun st hst => hH st (List.mem_cons_of_mem _ hst))
    have hcalls : (callsOn k.2 (ev :: evs') : ℚ) = ((if ev.key.2 = k.2 then 1 else 0 : Nat) : ℚ) + (callsOn k.2 evs' : ℚ) := by
      show (((if ev.key.2 = k.2 then 1 else 0) + callsOn k.2 evs' : Nat) : ℚ) = _
      push_cast; rfl
    have hnom : (nomPath k (ev :: evs') ({ s0 with b := b0 } :: sts') : ℚ) =
        (evNom k { s0 with b := b0 } ev : ℚ) + (nomPath k evs' sts' : ℚ) := by
      show ((evNom k { s0 with b := b0 } ev + nomPath k evs' sts' : Int) : ℚ) = _
      push_cast; rfl
    rw [hcalls, hnom]
    have e0 : stakeQ ({ s0 with b := b0 } : SState).k k = stakeQ s0.k k := rfl
    rw [e0] at a1 a2
    push_cast at a1 a2 ⊢
    refine ⟨i2, ?_, ?_⟩ <;> linarith

end OsmoVerif.Superfluid
