/- Helper lemmas for C05, exact-in side: index loop = hop-after-hop composition, split loop = legs in sequence,
min-out, estimate. Core only. -/
import OsmoVerif.Spec.Router

namespace OsmoVerif.Router
variable {σ : Type}

/-- post-processing of a composition result by the loop's accumulator. -/
def withAcc (acc : List HopRec) (r : Except Err ((Int × List HopRec) × σ)) : Except Err ((Int × List HopRec) × σ) :=
  match r with
  | .error e => .error e
  | .ok ((z, recs), s') => .ok ((z, acc.reverse ++ recs), s')

theorem routeInLoop_eq (P : Pools σ) (c : FeeCfg) (sender : Addr) (n : Nat) (minOut : Int) :
    ∀ (steps : List StepIn) (i : Nat) (dIn : Denom) (amt : Int) (acc : List HopRec) (s : σ),
      i + steps.length = n →
      routeInLoop P c sender n minOut i steps dIn amt acc s =
        withAcc acc (composeIn P c sender minOut steps dIn amt s) := by
  intro steps
  induction steps with
  | nil =>
    intro i dIn amt acc s _
    simp [routeInLoop, composeIn, withAcc]
  | cons st tl ih =>
    intro i dIn amt acc s hlen
    cases tl with
    | nil =>
      have hi : n - 1 = i := by simp at hlen; omega
      unfold routeInLoop composeIn
      rw [if_pos hi]
      cases h : swapExactAmountIn P c sender st.pool dIn amt st.outDenom minOut s with
      | error e => simp [withAcc]
      | ok r =>
        obtain ⟨⟨y, rec⟩, s'⟩ := r
        simp [routeInLoop, withAcc]
    | cons st' rest =>
      have hi : ¬ (n - 1 = i) := by simp at hlen; omega
      unfold routeInLoop composeIn
      rw [if_neg hi]
      cases h : swapExactAmountIn P c sender st.pool dIn amt st.outDenom 1 s with
      | error e => simp [withAcc]
      | ok r =>
        obtain ⟨⟨y, rec⟩, s'⟩ := r
        simp only
        rw [ih (i + 1) st.outDenom y (rec :: acc) s' (by simp at hlen ⊢; omega)]
        cases h2 : composeIn P c sender minOut (st' :: rest) st.outDenom y s' with
        | error e => simp [withAcc]
        | ok r2 =>
          obtain ⟨⟨z, recs⟩, s''⟩ := r2
          simp [withAcc]

theorem withAcc_nil (r : Except Err ((Int × List HopRec) × σ)) : withAcc [] r = r := by
  cases r with
  | error e => rfl
  | ok v => obtain ⟨⟨z, recs⟩, s'⟩ := v; simp [withAcc]

/-- the last hop's output is at least the caller's minimum. -/
theorem composeIn_min (P : Pools σ) (c : FeeCfg) (sender : Addr) (minOut : Int) :
    ∀ (steps : List StepIn) (dIn : Denom) (amt : Int) (s : σ) (y : Int) (recs : List HopRec) (s' : σ),
      steps ≠ [] → composeIn P c sender minOut steps dIn amt s = .ok ((y, recs), s') → minOut ≤ y := by
  intro steps
  induction steps with
  | nil => intro _ _ _ _ _ _ h; exact absurd rfl h
  | cons st tl ih =>
    intro dIn amt s y recs s' _ h
    cases tl with
    | nil =>
      unfold composeIn at h
      cases h1 : swapExactAmountIn P c sender st.pool dIn amt st.outDenom minOut s with
      | error e => rw [h1] at h; cases h
      | ok r =>
        obtain ⟨⟨y1, rec⟩, s1⟩ := r
        rw [h1] at h
        simp only at h
        injection h with h
        injection h with h2 h3
        injection h2 with h4 h5
        subst h4
        -- y1 came through the min-out comparison
        unfold swapExactAmountIn at h1
        split at h1
        · cases h1
        · split at h1
          · cases h1
          · split at h1
            · cases h1
            · rename_i hge
              injection h1 with h1
              injection h1 with h6 _
              injection h6 with h7 _
              subst h7
              omega
    | cons st' rest =>
      unfold composeIn at h
      cases h1 : swapExactAmountIn P c sender st.pool dIn amt st.outDenom 1 s with
      | error e => rw [h1] at h; cases h
      | ok r =>
        obtain ⟨⟨y1, rec⟩, s1⟩ := r
        rw [h1] at h
        simp only at h
        cases h2 : composeIn P c sender minOut (st' :: rest) st.outDenom y1 s1 with
        | error e => rw [h2] at h; cases h
        | ok r2 =>
          obtain ⟨⟨z, recs2⟩, s2⟩ := r2
          rw [h2] at h
          simp only at h
          injection h with h
          injection h with h3 _
          injection h3 with h4 _
          subst h4
          exact ih st.outDenom y1 s1 z recs2 s2 (by simp) h2

/-! ### split routes -/

theorem splitInLoop_spec (P : Pools σ) (c : FeeCfg) (sender : Addr) (dIn : Denom) :
    ∀ (legs : List LegIn) (total : Int) (acc : List HopRec) (s : σ) (t : Int) (recs : List HopRec) (s' : σ),
      splitInLoop P c sender dIn legs total acc s = .ok ((t, recs), s') →
      ∃ outs, legsIn P c sender dIn legs s = .ok (outs, s') ∧
        t = total + listSum (outs.map (·.1)) ∧ recs = acc ++ flattenRecs outs := by
  intro legs
  induction legs with
  | nil =>
    intro total acc s t recs s' h
    unfold splitInLoop at h
    injection h with h
    injection h with h1 h2
    injection h1 with h3 h4
    exact ⟨[], by simp [legsIn, h2], by simp [listSum, h3], by simp [flattenRecs, h4]⟩
  | cons l rest ih =>
    intro total acc s t recs s' h
    unfold splitInLoop at h
    split at h
    · cases h
    · rename_i hneg
      cases h1 : routeExactAmountIn P c sender l.route dIn l.amount 0 s with
      | error e => rw [h1] at h; cases h
      | ok r =>
        obtain ⟨⟨y, rs⟩, s1⟩ := r
        rw [h1] at h
        simp only at h
        split at h
        · cases h
        · rename_i tt htt
          have htt' : tt = total + y := by
            unfold Num.chkInt at htt
            split at htt
            · injection htt with htt; exact htt.symm
            · cases htt
          obtain ⟨outs, ho, hsum, hrecs⟩ := ih tt (acc ++ rs) s1 t recs s' h
          refine ⟨(y, rs) :: outs, ?_, ?_, ?_⟩
          · unfold legsIn
            rw [if_neg hneg, h1]
            simp only
            rw [ho]
          · simp [listSum]; omega
          · simp [flattenRecs, hrecs]

/-- a failing leg fails the whole split message. -/
theorem splitInLoop_error (P : Pools σ) (c : FeeCfg) (sender : Addr) (dIn : Denom) :
    ∀ (legs : List LegIn) (total : Int) (acc : List HopRec) (s : σ) (e : Err),
      legsIn P c sender dIn legs s = .error e →
      ∃ e', splitInLoop P c sender dIn legs total acc s = .error e' := by
  intro legs
  induction legs with
  | nil => intro _ _ _ _ h; simp [legsIn] at h
  | cons l rest ih =>
    intro total acc s e h
    unfold legsIn at h
    unfold splitInLoop
    split
    · exact ⟨_, rfl⟩
    · rename_i hneg
      rw [if_neg hneg] at h
      cases h1 : routeExactAmountIn P c sender l.route dIn l.amount 0 s with
      | error e1 => exact ⟨_, rfl⟩
      | ok r =>
        obtain ⟨⟨y, rs⟩, s1⟩ := r
        rw [h1] at h
        simp only at h ⊢
        split
        · exact ⟨_, rfl⟩
        · rename_i tt _
          cases h2 : legsIn P c sender dIn rest s1 with
          | error e2 => exact ih tt (acc ++ rs) s1 e2 h2
          | ok r2 => rw [h2] at h; obtain ⟨a, b⟩ := r2; simp at h

/-! ### estimate = execution for routes that visit each pool at most once -/

/-- `swapExactAmountIn` decomposed. -/
theorem swapExactAmountIn_ok {P : Pools σ} {c : FeeCfg} {sender : Addr} {pool : PoolId} {dIn dOut : Denom}
    {amt minOut y : Int} {rec : HopRec} {s s' : σ}
    (h : swapExactAmountIn P c sender pool dIn amt dOut minOut s = .ok ((y, rec), s')) :
    ∃ after f s1 taken, chargeTakerFee P c sender dIn amt dOut true s = .ok ((after, f), s1) ∧
      P.swapIn pool sender dIn dOut after s1 = .ok ((y, taken), s') ∧ minOut ≤ y ∧
      rec = ⟨pool, dIn, taken, f, dOut, y⟩ := by
  unfold swapExactAmountIn at h
  split at h
  · cases h
  · rename_i after f s1 hc
    split at h
    · cases h
    · rename_i y1 taken s2 hs
      split at h
      · cases h
      · rename_i hge
        injection h with h
        injection h with h1 h2
        injection h1 with h3 h4
        subst h3; subst h2
        exact ⟨after, f, s1, taken, hc, hs, by omega, h4.symm⟩

/-- a non-whitelisted sender's fee charge, decomposed. -/
theorem chargeTakerFee_ok {P : Pools σ} {c : FeeCfg} {sender : Addr} {dIn dOut : Denom} {amt after f : Int}
    {exactIn : Bool} {s s1 : σ} (hwl : c.whitelist.contains sender = false)
    (h : chargeTakerFee P c sender dIn amt dOut exactIn s = .ok ((after, f), s1)) :
    (if exactIn then calcTakerFeeExactIn amt (getTradingPairTakerFee c dIn dOut)
     else calcTakerFeeExactOut amt (getTradingPairTakerFee c dIn dOut)) = some (after, f) ∧
    0 ≤ f ∧ P.sendFee sender dIn f s = .ok s1 := by
  unfold chargeTakerFee at h
  rw [hwl] at h
  simp only [Bool.false_eq_true, if_false] at h
  split at h
  · cases h
  · rename_i a0 f0 hcalc
    split at h
    · cases h
    · rename_i hf
      split at h
      · cases h
      · rename_i s2 hs
        injection h with h
        injection h with h1 h2
        injection h1 with h3 h4
        subst h3; subst h4; subst h2
        exact ⟨hcalc, by omega, hs⟩

theorem estimate_of_loop (P : Pools σ) (hC : Consistent P) (hF : Framed P) (c : FeeCfg) (sender : Addr)
    (hwl : c.whitelist.contains sender = false) (n : Nat) (minOut : Int) (hmin : 1 ≤ minOut) :
    ∀ (steps : List StepIn) (i : Nat) (dIn : Denom) (amt : Int) (acc : List HopRec) (s s0 : σ)
      (y : Int) (recs : List HopRec) (s' : σ),
      (∀ st ∈ steps, ∀ dI dO z, P.calcOut st.pool dI dO z s = P.calcOut st.pool dI dO z s0) →
      (steps.map (·.pool)).Nodup →
      routeInLoop P c sender n minOut i steps dIn amt acc s = .ok ((y, recs), s') →
      estimateInLoop P c true steps dIn amt s0 = .ok y := by
  intro steps
  induction steps with
  | nil =>
    intro i dIn amt acc s s0 y recs s' _ _ h
    unfold routeInLoop at h
    injection h with h
    injection h with h1 _
    injection h1 with h2 _
    simp [estimateInLoop, h2]
  | cons st tl ih =>
    intro i dIn amt acc s s0 y recs s' hag hnd h
    unfold routeInLoop at h
    cases h1 : swapExactAmountIn P c sender st.pool dIn amt st.outDenom (if n - 1 = i then minOut else 1) s with
    | error e => rw [h1] at h; cases h
    | ok r =>
      obtain ⟨⟨y1, rec⟩, s2⟩ := r
      rw [h1] at h
      simp only at h
      obtain ⟨after, f, s1, taken, hch, hsw, hge, _⟩ := swapExactAmountIn_ok h1
      obtain ⟨hcalc, _, hsend⟩ := chargeTakerFee_ok hwl hch
      simp only [if_true] at hcalc
      have hy1 : 1 ≤ y1 := by
        split at hge <;> omega
      have hq : P.calcOut st.pool dIn st.outDenom after s0 = .ok y1 := by
        rw [← hag st (by simp), ← hF.fee_frame _ _ _ _ _ hsend]
        exact hC.calcOut_eq _ _ _ _ _ _ _ _ _ hsw
      unfold estimateInLoop
      simp only [if_true, hcalc, Option.map_some, hq]
      rw [if_neg (by omega)]
      have hnd' : (tl.map (·.pool)).Nodup ∧ ∀ st' ∈ tl, st'.pool ≠ st.pool := by
        simp only [List.map_cons, List.nodup_cons, List.mem_map, not_exists, not_and] at hnd
        exact ⟨hnd.2, fun st' hm => fun heq => hnd.1 st' hm heq⟩
      refine ih (i + 1) st.outDenom y1 (rec :: acc) s2 s0 y recs s' ?_ hnd'.1 h
      intro st' hm dI dO z
      rw [hF.swapIn_frame _ _ _ _ _ _ _ _ hsw st'.pool (hnd'.2 st' hm), hF.fee_frame _ _ _ _ _ hsend]
      exact hag st' (by simp [hm]) dI dO z

end OsmoVerif.Router
