/-
C03 helpers, part 2: the within-bucket step (`ComputeSwapWithinBucket{OutGivenIn,InGivenOut}`, both
strategies): which amount-delta calls produce the returned amounts, how they are rounded, the spread
charge, positivity of the next sqrt price, and the comparison with the exact constant-liquidity curve.
-/
import OsmoVerif.Proofs.CLRound1

namespace OsmoVerif.CL
open OsmoVerif.Num OsmoVerif.Gen OsmoVerif.Spec OsmoVerif.Props

/-! ### the exact curve, cross-multiplied
`p q` raw 36-decimal sqrt prices (either order), `liq` raw 18-decimal liquidity, `amt` raw 18-decimal
amount.  Exact token0 amount: `L·|1/√p − 1/√q|`, exact token1 amount: `L·|√p − √q|`. -/

/-- `amt/10^18 ≥ L·|p−q|/(p·q)` (token0). -/
def Ge0 (liq p q amt : Int) : Prop := ((p - q).natAbs : Int) * liq * 10 ^ 36 ≤ amt * (p * q)
/-- `amt/10^18 ≤ L·|p−q|/(p·q)` (token0). -/
def Le0 (liq p q amt : Int) : Prop := amt * (p * q) ≤ ((p - q).natAbs : Int) * liq * 10 ^ 36
/-- `amt/10^18 ≥ L·|p−q|` (token1). -/
def Ge1 (liq p q amt : Int) : Prop := ((p - q).natAbs : Int) * liq ≤ amt * 10 ^ 36
/-- `amt/10^18 ≤ L·|p−q|` (token1). -/
def Le1 (liq p q amt : Int) : Prop := amt * 10 ^ 36 ≤ ((p - q).natAbs : Int) * liq

/-! ### amount deltas, any argument order -/

theorem amount0_roundUp_any {liq a b r : Int} (ha : 0 < a) (hb : 0 < b) (hl : 0 ≤ liq)
    (h : calcAmount0Delta liq a b true = some r) :
    ∃ k, r = k * P36 ∧ 0 ≤ k ∧ ((a - b).natAbs : Int) * liq * P36 ≤ k * (a * b) * P18 := by
  rcases Int.le_total a b with hab | hab
  · obtain ⟨k, e, k0, hk⟩ := amount0_roundUp_sorted ha hab hl h
    refine ⟨k, e, k0, ?_⟩
    have : ((a - b).natAbs : Int) = b - a := by omega
    rw [this, ← Int.mul_assoc]; exact hk
  · rw [calcAmount0Delta_comm] at h
    obtain ⟨k, e, k0, hk⟩ := amount0_roundUp_sorted hb hab hl h
    refine ⟨k, e, k0, ?_⟩
    have : ((a - b).natAbs : Int) = a - b := by omega
    rw [this, Int.mul_comm a b, ← Int.mul_assoc]; exact hk

theorem amount0_roundDown_any {liq a b r : Int} (ha : 0 < a) (hb : 0 < b) (hl : 0 ≤ liq)
    (h : calcAmount0Delta liq a b false = some r) :
    r * (a * b) * P18 ≤ ((a - b).natAbs : Int) * liq * (P36 * P36) ∧ 0 ≤ r := by
  rcases Int.le_total a b with hab | hab
  · obtain ⟨hk, r0⟩ := amount0_roundDown_sorted ha hab hl h
    refine ⟨?_, r0⟩
    have : ((a - b).natAbs : Int) = b - a := by omega
    rw [this, ← Int.mul_assoc]; exact hk
  · rw [calcAmount0Delta_comm] at h
    obtain ⟨hk, r0⟩ := amount0_roundDown_sorted hb hab hl h
    refine ⟨?_, r0⟩
    have : ((a - b).natAbs : Int) = a - b := by omega
    rw [this, Int.mul_comm a b, ← Int.mul_assoc]; exact hk

theorem amount1_roundUp_any {liq a b r : Int} (hl : 0 ≤ liq)
    (h : calcAmount1Delta liq a b true = some r) :
    ∃ k, r = k * P36 ∧ 0 ≤ k ∧ ((a - b).natAbs : Int) * liq ≤ k * P36 * P18 := by
  rw [calcAmount1Delta_comm] at h
  exact amount1_roundUp_abs hl h

theorem amount1_roundDown_any {liq a b r : Int} (hl : 0 ≤ liq)
    (h : calcAmount1Delta liq a b false = some r) :
    r * P18 ≤ ((a - b).natAbs : Int) * liq ∧ 0 ≤ r := by
  rw [calcAmount1Delta_comm] at h
  exact amount1_roundDown_abs hl h

/-! ### LegacyDec plumbing -/

theorem chkDec_some {x r : Int} (h : chkDec x = some r) : r = x := by
  unfold chkDec at h; split at h
  · exact (Option.some.inj h).symm
  · cases h

theorem dec_add_exact {a b r : Int} (h : Dec.add a b = some r) : r = a + b := chkDec_some h
theorem dec_sub_exact {a b r : Int} (h : Dec.sub a b = some r) : r = a - b := chkDec_some h

/-! ### spread charge -/

/-- `computeSpreadRewardChargeFromAmountIn`: `c ≥ amountIn·spf/(1−spf)`. -/
theorem spreadChargeFromAmountIn_ge {amountIn spf c : Int} (ha : 0 ≤ amountIn) (hs0 : 0 ≤ spf) (hs1 : spf < P18)
    (h : spreadChargeFromAmountIn amountIn spf = some c) :
    amountIn * spf ≤ c * (P18 - spf) ∧ 0 ≤ c := by
  unfold spreadChargeFromAmountIn spfOverOneMinusSpf at h
  obtain ⟨q, hq, hc⟩ := Option.bind_eq_some_iff.mp h
  obtain ⟨one, hone, hq⟩ := Option.bind_eq_some_iff.mp hq
  have e := dec_sub_exact hone
  subst e
  have cq : IsCeil (spf * P18) (P18 - spf) q := C12.dec_quoRoundUp_ceil_nonneg hs0 (by omega) hq
  have cc : IsCeil (amountIn * q) P18 c := C12.dec_mulRoundUp_ceil hc
  have q0 : 0 ≤ q := ceil_nonneg (by omega) (Int.mul_nonneg hs0 P18_nonneg) cq
  have c0 : 0 ≤ c := ceil_nonneg P18_pos (Int.mul_nonneg ha q0) cc
  refine ⟨?_, c0⟩
  apply Int.le_of_mul_le_mul_right _ P18_pos
  calc amountIn * spf * P18 = amountIn * (spf * P18) := by ring
    _ ≤ amountIn * (q * (P18 - spf)) := Int.mul_le_mul_of_nonneg_left cq.2 ha
    _ = amountIn * q * (P18 - spf) := by ring
    _ ≤ c * P18 * (P18 - spf) := Int.mul_le_mul_of_nonneg_right cc.2 (by omega)
    _ = c * (P18 - spf) * P18 := by ring

/-- `computeSpreadRewardChargePerSwapStepOutGivenIn`. -/
theorem spreadChargeOutGivenIn_spec {reached : Bool} {amountIn remaining spf c : Int}
    (ha : 0 ≤ amountIn) (hs0 : 0 ≤ spf) (hs1 : spf < P18)
    (h : spreadChargeOutGivenIn reached amountIn remaining spf = some c) :
    0 ≤ c ∧ (spf = 0 → c = 0) ∧
    (reached = true → amountIn * spf ≤ c * (P18 - spf)) ∧
    (reached = false → 0 < spf → c = remaining - amountIn) := by
  have e : spreadChargeOutGivenIn reached amountIn remaining spf =
      if spf = 0 then some 0 else if spf < 0 then none else
        (if reached then spreadChargeFromAmountIn amountIn spf else Dec.sub remaining amountIn).bind
          fun c => if c < 0 then none else some c := by
    unfold spreadChargeOutGivenIn; cases reached <;> rfl
  rw [e] at h
  clear e
  by_cases hz : spf = 0
  · rw [if_pos hz] at h
    cases h
    subst hz
    exact ⟨Int.le_refl _, fun _ => rfl, fun _ => by simp, fun _ h0 => absurd h0 (by omega)⟩
  · rw [if_neg hz, if_neg (by omega)] at h
    obtain ⟨c', hc', h⟩ := Option.bind_eq_some_iff.mp h
    by_cases hn : c' < 0
    · rw [if_pos hn] at h; cases h
    · rw [if_neg hn] at h
      cases h
      refine ⟨by omega, fun h0 => absurd h0 hz, ?_, ?_⟩
      · intro hr
        rw [hr, if_pos rfl] at hc'
        exact (spreadChargeFromAmountIn_ge ha hs0 hs1 hc').1
      · intro hr _
        rw [hr, if_neg (by decide)] at hc'
        exact dec_sub_exact hc'

/-! ### equational forms of the steps (join points of the `do` blocks removed) -/

theorem ite_bind' {α β : Type} (c : Prop) [Decidable c] (a b : Option α) (f : α → Option β) :
    (if c then a else b).bind f = if c then a.bind f else b.bind f := by
  split <;> rfl

theorem stepOutGivenIn_eq (zfo : Bool) (spf sp target liq remaining : Int) :
    stepOutGivenIn zfo spf sp target liq remaining =
    (if zfo then calcAmount0Delta liq target sp true else calcAmount1Delta liq target sp true).bind fun amtIn0 =>
    (Dec.sub P18 spf).bind fun oneMinus =>
    (if remaining * oneMinus ≥ amtIn0 then some target
      else if zfo then (BigDec.fromDec liq).bind fun l => nextSqrtPriceAmount0In sp l (remaining * oneMinus)
      else nextSqrtPriceAmount1In sp liq (remaining * oneMinus)).bind fun spNext =>
    (if target = spNext then some amtIn0
      else if zfo then calcAmount0Delta liq spNext sp true else calcAmount1Delta liq spNext sp true).bind fun amtIn =>
    (if zfo then calcAmount1Delta liq spNext sp false else calcAmount0Delta liq spNext sp false).bind fun amtOut =>
    (BigDec.decRoundUp amtIn).bind fun amtInFinal =>
    (spreadChargeOutGivenIn (decide (target = spNext)) amtInFinal remaining spf).bind fun charge =>
    (BigDec.dec amtOut).bind fun out =>
    some ⟨spNext, amtInFinal, out, charge⟩ := by
  unfold stepOutGivenIn
  cases zfo <;> simp only [ite_bind', decide_eq_true_eq] <;> rfl

theorem stepInGivenOut_eq (zfo : Bool) (spf sp target liq remainingOut : Int) :
    stepInGivenOut zfo spf sp target liq remainingOut =
    (BigDec.fromDec remainingOut).bind fun remBig =>
    (if zfo then calcAmount1Delta liq target sp false else calcAmount0Delta liq target sp false).bind fun out0 =>
    (if remBig ≥ out0 then some target
      else if zfo then nextSqrtPriceAmount1Out sp liq remBig
      else (BigDec.fromDec liq).bind fun l => nextSqrtPriceAmount0Out sp l remainingOut).bind fun spNext =>
    (if target = spNext then some out0
      else if zfo then calcAmount1Delta liq spNext sp false else calcAmount0Delta liq spNext sp false).bind fun out =>
    (if zfo then calcAmount0Delta liq spNext sp true else calcAmount1Delta liq spNext sp true).bind fun amtIn =>
    (BigDec.decRoundUp amtIn).bind fun amtInFinal =>
    (spreadChargeFromAmountIn amtInFinal spf).bind fun charge =>
    (BigDec.dec (if out > remBig then remBig else out)).bind fun outDec =>
    some ⟨spNext, outDec, amtInFinal, charge⟩ := by
  unfold stepInGivenOut
  cases zfo <;> simp only [ite_bind', decide_eq_true_eq] <;> rfl

end OsmoVerif.CL
