/-
`LogBase2`: real-valued semantics of the integer model and the error analysis of the 300-iteration
squaring loop (Mathlib reals; nothing here is used by the executable model).
-/
import OsmoVerif.Proofs.MathLog
import Mathlib.Analysis.SpecialFunctions.Log.Base
import Mathlib.Analysis.Complex.ExponentialBounds

namespace OsmoVerif.MathM
open OsmoVerif.Num OsmoVerif.Gen OsmoVerif.Spec Real

/-- the real number a raw `BigDec` stands for. -/
noncomputable def bval (x : Int) : ℝ := (x : ℝ) / 10 ^ 36
/-- exact binary logarithm of the value of a raw `BigDec`. -/
noncomputable def lg2 (x : Int) : ℝ := Real.logb 2 (bval x)

theorem P36_cast : ((P36 : Int) : ℝ) = 10 ^ 36 := by rw [P36_val]; norm_num

theorem bval_ge_one {x : Int} (h : P36 ≤ x) : 1 ≤ bval x := by
  have : ((P36 : Int) : ℝ) ≤ (x : ℝ) := by exact_mod_cast h
  rw [P36_cast] at this
  unfold bval
  rw [le_div_iff₀ (by positivity)]; linarith

theorem bval_lt_two {x : Int} (h : x < 2 * P36) : bval x < 2 := by
  have : (x : ℝ) < ((2 * P36 : Int) : ℝ) := by exact_mod_cast h
  rw [Int.cast_mul, P36_cast] at this
  unfold bval
  rw [div_lt_iff₀ (by positivity)]; push_cast at this; linarith

/-! ### perturbation of `log₂` -/

/-- `|log₂ a − log₂ b| ≤ 2δ` when `a ≥ 1` and `|a − b| ≤ δ ≤ 1/4` (uses `ln 2 > 0.6931`). -/
theorem logb_two_perturb {a b δ : ℝ} (ha : 1 ≤ a) (hδ : δ ≤ 1 / 4) (hab : |a - b| ≤ δ) :
    |logb 2 a - logb 2 b| ≤ 2 * δ := by
  have hδ0 : 0 ≤ δ := le_trans (abs_nonneg _) hab
  obtain ⟨h1, h2⟩ := abs_le.mp hab
  have hb : 3 / 4 ≤ b := by linarith
  have hb0 : 0 < b := by linarith
  have ha0 : 0 < a := by linarith
  have hl2 : 0.6931471803 < Real.log 2 := Real.log_two_gt_d9
  have hl2pos : 0 < Real.log 2 := by linarith
  -- natural logs
  have u1 : Real.log a - Real.log b ≤ 4 / 3 * δ := by
    rw [← Real.log_div ha0.ne' hb0.ne']
    have := Real.log_le_sub_one_of_pos (div_pos ha0 hb0)
    have e : a / b - 1 = (a - b) / b := by field_simp
    rw [e] at this
    have : (a - b) / b ≤ δ / (3 / 4) := by
      calc (a - b) / b ≤ δ / b := by apply div_le_div_of_nonneg_right (by linarith) hb0.le
        _ ≤ δ / (3 / 4) := by apply div_le_div_of_nonneg_left hδ0 (by norm_num) hb
    have e2 : δ / (3 / 4) = 4 / 3 * δ := by ring
    linarith
  have u2 : Real.log b - Real.log a ≤ δ := by
    rw [← Real.log_div hb0.ne' ha0.ne']
    have := Real.log_le_sub_one_of_pos (div_pos hb0 ha0)
    have e : b / a - 1 = (b - a) / a := by field_simp
    rw [e] at this
    have : (b - a) / a ≤ δ / 1 := by
      calc (b - a) / a ≤ δ / a := by apply div_le_div_of_nonneg_right (by linarith) ha0.le
        _ ≤ δ / 1 := by apply div_le_div_of_nonneg_left hδ0 (by norm_num) ha
    linarith
  have e : logb 2 a - logb 2 b = (Real.log a - Real.log b) / Real.log 2 := by
    unfold Real.logb; ring
  rw [e, abs_le]
  constructor
  · rw [le_div_iff₀ hl2pos]; nlinarith
  · rw [div_le_iff₀ hl2pos]; nlinarith

/-! ### one squaring step, in reals -/

theorem lg2_step0 {x x' : Int} (hx : P36 ≤ x) (hx' : P36 ≤ x') (h : 2 * |x' * P36 - x * x| ≤ P36) :
    |lg2 x' - 2 * lg2 x| ≤ 1 / 10 ^ 36 := by
  have hv := bval_ge_one hx
  have hv' := bval_ge_one hx'
  have hr : (2 : ℝ) * |(x' : ℝ) * 10 ^ 36 - (x : ℝ) * x| ≤ 10 ^ 36 := by
    have : ((2 * |x' * P36 - x * x| : Int) : ℝ) ≤ ((P36 : Int) : ℝ) := by exact_mod_cast h
    push_cast at this; rw [P36_cast] at this; exact this
  have hab : |bval x' - bval x ^ 2| ≤ 1 / 2 / 10 ^ 36 := by
    have e : bval x' - bval x ^ 2 = ((x' : ℝ) * 10 ^ 36 - (x : ℝ) * x) / (10 ^ 36 * 10 ^ 36) := by
      unfold bval; field_simp
    rw [e, abs_div, abs_of_pos (by positivity : (0 : ℝ) < 10 ^ 36 * 10 ^ 36), div_le_iff₀ (by positivity)]
    have e2 : (1 : ℝ) / 2 / 10 ^ 36 * (10 ^ 36 * 10 ^ 36) = 10 ^ 36 / 2 := by field_simp
    rw [e2]
    generalize |(x' : ℝ) * 10 ^ 36 - (x : ℝ) * x| = A at hr ⊢
    linarith
  have := logb_two_perturb hv' (by norm_num) hab
  have e3 : logb 2 (bval x ^ 2) = 2 * lg2 x := by
    rw [Real.logb_pow]; unfold lg2; norm_num
  unfold lg2 at this ⊢
  rw [e3] at this
  unfold lg2 at this
  calc _ ≤ 2 * (1 / 2 / 10 ^ 36) := this
    _ = _ := by ring

theorem lg2_step1 {x x' : Int} (hx : P36 ≤ x) (hx' : P36 ≤ x') (h : 2 * |2 * x' * P36 - x * x| ≤ 3 * P36) :
    |lg2 x' - (2 * lg2 x - 1)| ≤ 3 / 2 / 10 ^ 36 := by
  have hv := bval_ge_one hx
  have hv' := bval_ge_one hx'
  have hr : (2 : ℝ) * |2 * (x' : ℝ) * 10 ^ 36 - (x : ℝ) * x| ≤ 3 * 10 ^ 36 := by
    have : ((2 * |2 * x' * P36 - x * x| : Int) : ℝ) ≤ ((3 * P36 : Int) : ℝ) := by exact_mod_cast h
    push_cast at this; rw [P36_cast] at this; exact this
  have hab : |bval x' - bval x ^ 2 / 2| ≤ 3 / 4 / 10 ^ 36 := by
    have e : bval x' - bval x ^ 2 / 2 = (2 * (x' : ℝ) * 10 ^ 36 - (x : ℝ) * x) / (2 * (10 ^ 36 * 10 ^ 36)) := by
      unfold bval; field_simp
    rw [e, abs_div, abs_of_pos (by positivity : (0 : ℝ) < 2 * (10 ^ 36 * 10 ^ 36)), div_le_iff₀ (by positivity)]
    have e2 : (3 : ℝ) / 4 / 10 ^ 36 * (2 * (10 ^ 36 * 10 ^ 36)) = 3 * 10 ^ 36 / 2 := by field_simp; ring
    rw [e2]
    generalize |2 * (x' : ℝ) * 10 ^ 36 - (x : ℝ) * x| = A at hr ⊢
    linarith
  have := logb_two_perturb hv' (by norm_num) hab
  have hvpos : 0 < bval x := by linarith
  have e3 : logb 2 (bval x ^ 2 / 2) = 2 * lg2 x - 1 := by
    rw [Real.logb_div (by positivity) (by norm_num), Real.logb_pow, Real.logb_self_eq_one (by norm_num)]
    unfold lg2; norm_num
  unfold lg2 at this ⊢
  rw [e3] at this
  unfold lg2 at this
  calc _ ≤ 2 * (3 / 4 / 10 ^ 36) := this
    _ = _ := by ring

/-! ### truncation of the bit weights `b_i = ⌊10^36 / 2^(i+1)⌋` -/

/-- value-level error of the `i`-th bit weight. -/
noncomputable def bErr (i : Nat) : ℝ := 1 / 2 ^ (i + 1) - ((P36 / 2 ^ (i + 1) : Int) : ℝ) / 10 ^ 36

theorem bErr_nonneg (i : Nat) : 0 ≤ bErr i := by
  unfold bErr
  have h2 : (0 : Int) < 2 ^ (i + 1) := by positivity
  have : P36 / 2 ^ (i + 1) * 2 ^ (i + 1) ≤ P36 := Int.ediv_mul_le _ (by omega)
  have : ((P36 / 2 ^ (i + 1) * 2 ^ (i + 1) : Int) : ℝ) ≤ ((P36 : Int) : ℝ) := by exact_mod_cast this
  rw [P36_cast] at this; push_cast at this
  rw [sub_nonneg, div_le_div_iff₀ (by positivity) (by positivity)]
  linarith

theorem bErr_le_ulp (i : Nat) : bErr i ≤ 1 / 10 ^ 36 := by
  unfold bErr
  have h2 : (0 : Int) < 2 ^ (i + 1) := by positivity
  have : P36 < (P36 / 2 ^ (i + 1) + 1) * 2 ^ (i + 1) := Int.lt_ediv_add_one_mul_self _ h2
  have : ((P36 : Int) : ℝ) < (((P36 / 2 ^ (i + 1) + 1) * 2 ^ (i + 1) : Int) : ℝ) := by exact_mod_cast this
  rw [P36_cast] at this; push_cast at this
  have h2r : (0 : ℝ) < 2 ^ (i + 1) := by positivity
  rw [sub_le_iff_le_add, ← add_div, div_le_div_iff₀ h2r (by positivity)]
  nlinarith

theorem bErr_le_weight (i : Nat) : bErr i ≤ 1 / 2 ^ (i + 1) := by
  unfold bErr
  have h2 : (0 : Int) < 2 ^ (i + 1) := by positivity
  have : 0 ≤ P36 / 2 ^ (i + 1) := Int.ediv_nonneg (by decide) (by omega)
  have : (0 : ℝ) ≤ ((P36 / 2 ^ (i + 1) : Int) : ℝ) := by exact_mod_cast this
  have : (0 : ℝ) ≤ ((P36 / 2 ^ (i + 1) : Int) : ℝ) / 10 ^ 36 := by positivity
  linarith

theorem bErr_exact {i : Nat} (hi : i + 1 ≤ 36) : bErr i = 0 := by
  unfold bErr
  have hdvd : (2 : Int) ^ (i + 1) ∣ P36 := by
    have h1 : (2 : Int) ^ (i + 1) ∣ 2 ^ 36 := pow_dvd_pow 2 hi
    have h2 : (2 : Int) ^ 36 ∣ P36 := by decide +kernel
    exact Dvd.dvd.trans h1 h2
  have : P36 / 2 ^ (i + 1) * 2 ^ (i + 1) = P36 := Int.ediv_mul_cancel hdvd
  have : ((P36 / 2 ^ (i + 1) * 2 ^ (i + 1) : Int) : ℝ) = ((P36 : Int) : ℝ) := by exact_mod_cast this
  rw [P36_cast] at this; push_cast at this
  rw [sub_eq_zero, div_eq_div_iff (by positivity) (by positivity)]
  linarith

/-- potential bounding the remaining weight truncations from position `i` on:
`84·10^-36 + 2^-120` up to bit 36 (exact weights), one ulp per bit up to bit 120, geometric afterwards. -/
noncomputable def bPot (i : Nat) : ℝ :=
  if i < 36 then 84 / 10 ^ 36 + 1 / 2 ^ 120
  else if i < 120 then ((120 - i : Nat) : ℝ) / 10 ^ 36 + 1 / 2 ^ 120
  else 1 / 2 ^ i

theorem bErr_le_pot (i : Nat) : |bErr i| ≤ bPot i - bPot (i + 1) := by
  rw [abs_of_nonneg (bErr_nonneg i)]
  unfold bPot
  by_cases h1 : i + 1 < 36
  · rw [if_pos (by omega), if_pos h1, bErr_exact (by omega)]; simp
  · by_cases h2 : i < 36
    · have : i = 35 := by omega
      subst this
      rw [bErr_exact (by omega)]
      norm_num
    · rw [if_neg h2, if_neg h1]
      by_cases h3 : i + 1 < 120
      · rw [if_pos (by omega), if_pos h3]
        have e : ((120 - i : Nat) : ℝ) = ((120 - (i + 1) : Nat) : ℝ) + 1 := by
          have : 120 - i = 120 - (i + 1) + 1 := by omega
          rw [this]; push_cast; ring
        rw [e]
        have := bErr_le_ulp i
        have e2 : (((120 - (i + 1) : Nat) : ℝ) + 1) / 10 ^ 36 + 1 / 2 ^ 120 -
            (((120 - (i + 1) : Nat) : ℝ) / 10 ^ 36 + 1 / 2 ^ 120) = 1 / 10 ^ 36 := by ring
        rw [e2]; exact this
      · rw [if_neg h3]
        by_cases h4 : i < 120
        · have : i = 119 := by omega
          subst this
          rw [if_pos (by omega)]
          have := bErr_le_ulp 119
          norm_num at this ⊢
          linarith
        · rw [if_neg h4]
          have := bErr_le_weight i
          have e2 : (1 : ℝ) / 2 ^ i - 1 / 2 ^ (i + 1) = 1 / 2 ^ (i + 1) := by
            rw [pow_succ]; field_simp; ring
          rw [e2]; exact this

end OsmoVerif.MathM
