/-
C19 / x/concentrated-liquidity genesis: every MESSAGE of the layered model commutes with `prune p` (same failure, same returned
amounts, pruned result) when `p` keeps the live position ids and the next position id.  Core only.
-/
import OsmoVerif.Proofs.CLFullGenesisPrune

namespace OsmoVerif.CLIncP
open OsmoVerif.Num OsmoVerif.CL OsmoVerif.CLPool OsmoVerif.CLFees OsmoVerif.CLInc OsmoVerif.CLFeesP OsmoVerif.CLBook

theorem prune_fees (p : Nat → Bool) (s : Full) : (prune p s).fees = s.fees := rfl
theorem prune_inc (p : Nat → Bool) (s : Full) : (prune p s).inc = pruneI p s.inc := rfl

theorem findPos_mem {pool : Pool} {id : Nat} {pos : Position} (h : findPos pool id = some pos) : pos ∈ pool.positions ∧ pos.id = id :=
  mem_of_find h

theorem createMin_prune (p : Nat → Bool) (s : Full) (owner : String) (l u a0 a1 m0 m1 : Int) (hc : InvCore s.fees.pool)
    (hp : p s.fees.pool.nextId = true) :
    CLInc.createPositionMin (prune p s) owner l u a0 a1 m0 m1 =
      (CLInc.createPositionMin s owner l u a0 a1 m0 m1).map (fun r => (prune p r.1, r.2)) := by
  unfold CLInc.createPositionMin
  rw [prune_fees, prune_inc]
  cases hf : CLFees.createPositionMin s.fees owner l u a0 a1 m0 m1 with
  | none => simp only [Option.map_none, Option.map_some, Option.bind_none, Option.bind_some]
  | some r =>
    obtain ⟨f', id, x0, x1, liq, lo, up⟩ := r
    obtain ⟨hpool, _, _, _⟩ := createMin_spec hf
    obtain ⟨eid, _, _, _, _, _⟩ := create_positions hc hpool
    have hpid : p id = true := by rw [eid]; exact hp
    simp only [Option.bind_some]
    rw [sync_prune]
    cases sync s.inc s.fees.pool.liquidity with
    | none => simp only [Option.map_none, Option.map_some, Option.bind_none, Option.bind_some]
    | some i1 =>
      simp only [Option.map_some, Option.bind_some]
      rw [initTr_prune, initTr_prune, updPosition_prune _ _ _ _ _ _ _ _ hpid]
      cases updPosition (initTr (initTr i1 f'.pool.tick lo) f'.pool.tick up) f'.pool.tick lo up id liq liq with
      | none => simp only [Option.map_none, Option.map_some, Option.bind_none, Option.bind_some]
      | some i3 =>
        simp only [Option.map_some]
        congr 2
        unfold prune pruneI
        simp only [List.filter_append, List.filter_cons, hpid, if_true, List.filter_nil]

theorem withdraw_prune (p : Nat → Bool) (s : Full) (owner : String) (id : Nat) (req : Int)
    (hp : ∀ q ∈ s.fees.pool.positions, p q.id = true) :
    CLInc.withdrawPosition (prune p s) owner id req =
      (CLInc.withdrawPosition s owner id req).map (fun r => (prune p r.1, r.2)) := by
  unfold CLInc.withdrawPosition
  rw [prune_fees, prune_inc]
  cases hfind : findPos s.fees.pool id with
  | none => simp only [Option.map_none, Option.map_some, Option.bind_none, Option.bind_some]
  | some pos =>
    obtain ⟨hmem, hid⟩ := findPos_mem hfind
    have hpid : p id = true := by rw [← hid]; exact hp pos hmem
    simp only [Option.bind_some]
    cases CLFees.withdrawPosition s.fees owner id req with
    | none => simp only [Option.map_none, Option.map_some, Option.bind_none, Option.bind_some]
    | some r =>
      obtain ⟨f', o0, o1⟩ := r
      simp only [Option.bind_some]
      rw [sync_prune]
      cases sync s.inc s.fees.pool.liquidity with
      | none => simp only [Option.map_none, Option.map_some, Option.bind_none, Option.bind_some]
      | some i1 =>
        simp only [Option.map_some, Option.bind_some]
        rw [claimAll_prune _ _ _ _ _ _ hpid]
        cases claimAll i1 s.fees.pool.tick pos.lower pos.upper id with
        | none => simp only [Option.map_none, Option.map_some, Option.bind_none, Option.bind_some]
        | some r2 =>
          obtain ⟨i2, coll, forf, byUp⟩ := r2
          simp only [Option.map_some, Option.bind_some, pruneI_bal]
          cases coinsSubAll i2.bal coll with
          | none => simp only [Option.map_none, Option.map_some, Option.bind_none, Option.bind_some]
          | some b =>
            simp only [Option.bind_some]
            have e : ({ pruneI p i2 with bal := b } : Inc) = pruneI p { i2 with bal := b } := rfl
            rw [e, updPosition_prune _ _ _ _ _ _ _ _ hpid]
            cases updPosition { i2 with bal := b } s.fees.pool.tick pos.lower pos.upper id (pos.liq - req) (-req) with
            | none => simp only [Option.map_none, Option.map_some, Option.bind_none, Option.bind_some]
            | some i3 =>
              simp only [Option.map_some, Option.bind_some]
              rw [redeposit_prune]
              cases redeposit i3 f'.pool.liquidity forf byUp with
              | none => simp only [Option.map_none, Option.map_some, Option.bind_none, Option.bind_some]
              | some i4 => simp only [Option.map_none, Option.map_some, Option.bind_none, Option.bind_some]; rfl

theorem add_prune (p : Nat → Bool) (s : Full) (owner : String) (id : Nat) (add0 add1 : Int) (hi : IncInv s)
    (hp : ∀ q ∈ s.fees.pool.positions, p q.id = true) (hn : p s.fees.pool.nextId = true) :
    CLInc.addToPosition (prune p s) owner id add0 add1 =
      (CLInc.addToPosition s owner id add0 add1).map (fun r => (prune p r.1, r.2)) := by
  unfold CLInc.addToPosition
  rw [prune_fees]
  cases hfind : findPos s.fees.pool id with
  | none => simp only [Option.map_none, Option.map_some, Option.bind_none, Option.bind_some]
  | some pos =>
    simp only [Option.bind_some]
    split
    · rfl
    · split
      · rfl
      · split
        · rfl
        · rw [withdraw_prune p s owner id pos.liq hp]
          cases hw : CLInc.withdrawPosition s owner id pos.liq with
          | none => simp only [Option.map_none, Option.map_some, Option.bind_none, Option.bind_some]
          | some r =>
            obtain ⟨s1, w0, w1⟩ := r
            simp only [Option.map_some, Option.bind_some, prune_fees]
            by_cases hemp : s1.fees.pool.positions.isEmpty = true
            · simp only [hemp, if_true, Option.map_none]
            · simp only [hemp, Bool.false_eq_true, if_false]
              -- the intermediate state: same next id, invariant kept
              have hw' : applyI s (.fee (.withdraw owner id pos.liq)) = some s1 := by simp only [applyI, hw, Option.map_some]
              have hi1 : IncInv s1 := (applyI_facts hi hw').inv
              have hfee := withdrawI_fees hw
              obtain ⟨pos0, _, hfind0, hw0, _, _⟩ := withdraw_spec hfee
              obtain ⟨_, _, _, hnext, _⟩ := withdraw_positions hfind0 hw0
              rw [createMin_prune p s1 owner pos.lower pos.upper (w0 + add0) (w1 + add1) w0 w1 hi1.fees.pool.core (by rw [hnext]; exact hn)]
              cases CLInc.createPositionMin s1 owner pos.lower pos.upper (w0 + add0) (w1 + add1) w0 w1 <;> (simp only [Option.map_none, Option.map_some, Option.bind_none, Option.bind_some] <;> rfl)

theorem swap_prune (p : Nat → Bool) (s : Full) (og zfo : Bool) (spec : Int) :
    CLInc.swap (prune p s) og zfo spec = (CLInc.swap s og zfo spec).map (fun r => (prune p r.1, r.2)) := by
  unfold CLInc.swap
  rw [prune_fees, prune_inc]
  cases CLFees.swap s.fees og zfo spec with
  | none => simp only [Option.map_none, Option.map_some, Option.bind_none, Option.bind_some]
  | some r =>
    obtain ⟨f', ain, aout, fee⟩ := r
    simp only [Option.bind_some]
    cases swapTrace s.fees.pool.scale og zfo s.fees.pool.spf (execPriceLimit zfo)
        ⟨s.fees.pool.sqrtPrice, s.fees.pool.tick, s.fees.pool.liquidity⟩ (s.fees.pool.ticks.map fun t => (t.tick, t.net)) spec with
    | none => simp only [Option.map_none, Option.map_some, Option.bind_none, Option.bind_some]
    | some trs =>
      simp only [Option.bind_some]
      split
      · rfl
      · rw [sync_prune]
        cases sync s.inc s.fees.pool.liquidity with
        | none => simp only [Option.map_none, Option.map_some, Option.bind_none, Option.bind_some]
        | some i1 =>
          simp only [Option.map_some, Option.bind_some, accValues_prune, pruneI_trackers]
          cases flipTicks (accValues i1) trs i1.trackers <;> (simp only [Option.map_none, Option.map_some, Option.bind_none, Option.bind_some] <;> rfl)

theorem icollect_prune (p : Nat → Bool) (s : Full) (sender : String) (id : Nat)
    (hp : ∀ q ∈ s.fees.pool.positions, p q.id = true) :
    collectIncentives (prune p s) sender id = (collectIncentives s sender id).map (fun r => (prune p r.1, r.2)) := by
  unfold collectIncentives
  rw [prune_fees, prune_inc]
  cases hfind : findPos s.fees.pool id with
  | none => simp only [Option.map_none, Option.map_some, Option.bind_none, Option.bind_some]
  | some pos =>
    obtain ⟨hmem, hid⟩ := findPos_mem hfind
    have hpid : p id = true := by rw [← hid]; exact hp pos hmem
    simp only [Option.bind_some]
    split
    · rfl
    · rw [sync_prune]
      cases sync s.inc s.fees.pool.liquidity with
      | none => simp only [Option.map_none, Option.map_some, Option.bind_none, Option.bind_some]
      | some i1 =>
        simp only [Option.map_some, Option.bind_some]
        rw [claimAll_prune _ _ _ _ _ _ hpid]
        cases claimAll i1 s.fees.pool.tick pos.lower pos.upper id with
        | none => simp only [Option.map_none, Option.map_some, Option.bind_none, Option.bind_some]
        | some r2 =>
          obtain ⟨i2, coll, forf, byUp⟩ := r2
          simp only [Option.map_some, Option.bind_some, pruneI_bal]
          cases coinsSubAll i2.bal coll <;> (simp only [Option.map_none, Option.map_some, Option.bind_none, Option.bind_some] <;> rfl)

theorem claimableIncentives_prune (p : Nat → Bool) (s : Full) (id : Nat) (hp : ∀ q ∈ s.fees.pool.positions, p q.id = true) :
    claimableIncentives (prune p s) id = claimableIncentives s id := by
  unfold claimableIncentives
  rw [prune_fees, prune_inc]
  cases hfind : findPos s.fees.pool id with
  | none => simp only [Option.map_none, Option.map_some, Option.bind_none, Option.bind_some]
  | some pos =>
    obtain ⟨hmem, hid⟩ := findPos_mem hfind
    have hpid : p id = true := by rw [← hid]; exact hp pos hmem
    simp only [Option.bind_some]
    rw [sync_prune]
    cases sync s.inc s.fees.pool.liquidity with
    | none => simp only [Option.map_none, Option.map_some, Option.bind_none, Option.bind_some]
    | some i1 =>
      simp only [Option.map_some, Option.bind_some]
      rw [claimAll_prune _ _ _ _ _ _ hpid]
      cases claimAll i1 s.fees.pool.tick pos.lower pos.upper id <;> (simp only [Option.map_none, Option.map_some, Option.bind_none, Option.bind_some] <;> rfl)

theorem createIncentive_prune (p : Nat → Bool) (s : Full) (id : Nat) (denom : String) (amount rate start : Int) (uptime : Nat) :
    createIncentive (prune p s) id denom amount rate start uptime = (createIncentive s id denom amount rate start uptime).map (prune p) := by
  unfold createIncentive
  rw [prune_fees, prune_inc, pruneI_now, pruneI_authorized]
  split
  · rfl
  · split
    · rfl
    · split
      · rfl
      · split
        · rfl
        · rw [sync_prune]
          cases sync s.inc s.fees.pool.liquidity with
          | none => simp only [Option.map_none, Option.map_some, Option.bind_none, Option.bind_some]
          | some i1 =>
            simp only [Option.map_some, Option.bind_some, pruneI_bal]
            cases Accum.coinsAdd i1.bal denom amount <;> (simp only [Option.map_none, Option.map_some, Option.bind_none, Option.bind_some] <;> rfl)

theorem syncNow_prune (p : Nat → Bool) (s : Full) : syncNow (prune p s) = (syncNow s).map (prune p) := by
  unfold syncNow
  rw [prune_fees, prune_inc, sync_prune]
  cases sync s.inc s.fees.pool.liquidity <;> (simp only [Option.map_none, Option.map_some, Option.bind_none, Option.bind_some] <;> rfl)

/-- **every message commutes with `prune p`** when `p` keeps the live positions and the next position id -/
theorem applyI_prune (p : Nat → Bool) {s : Full} (hi : IncInv s) (hp : ∀ q ∈ s.fees.pool.positions, p q.id = true)
    (hn : p s.fees.pool.nextId = true) (op : IOp) : applyI (prune p s) op = (applyI s op).map (prune p) := by
  cases op with
  | fee fop =>
    cases fop with
    | create o l u a0 a1 =>
      simp only [applyI, CLInc.createPosition, createMin_prune p s o l u a0 a1 0 0 hi.fees.pool.core hn, Option.map_map]
      rfl
    | withdraw o id liq =>
      simp only [applyI, withdraw_prune p s o id liq hp, Option.map_map]
      rfl
    | add o id a0 a1 =>
      simp only [applyI, add_prune p s o id a0 a1 hi hp hn, Option.map_map]
      rfl
    | transfer sd id n =>
      simp only [applyI, CLInc.transferPosition, prune_fees, Option.map_map]
      rfl
    | swap og zfo spec =>
      simp only [applyI, swap_prune, Option.map_map]
      rfl
    | collect sd id =>
      simp only [applyI, CLInc.collectSpread, prune_fees, Option.map_map]
      rfl
  | incentive id d a r st u => exact createIncentive_prune p s id d a r st u
  | advance ns => rfl
  | sync => exact syncNow_prune p s
  | icollect sd id =>
    simp only [applyI, icollect_prune p s sd id hp, Option.map_map]
    rfl

end OsmoVerif.CLIncP
