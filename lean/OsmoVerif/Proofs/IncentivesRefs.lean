/- The three reference stores of Model/Incentives as multisets of ids: `refsAdd` adds one id, `refsDel`
(swap-with-last) removes one, `activate` and `finishLoop` only move ids between stores.  Core only. -/
import OsmoVerif.Model.Incentives

namespace OsmoVerif.Incentives

theorem refsIds_nil : refsIds [] = [] := rfl
theorem refsIds_cons (t : Int) (l : List Nat) (r : Refs) : refsIds ((t, l) :: r) = l ++ refsIds r := by
  simp [refsIds]

theorem refsAdd_perm {r : Refs} {t : Int} {id : Nat} {r' : Refs} (h : refsAdd r t id = some r') :
    (refsIds r').Perm (id :: refsIds r) := by
  induction r generalizing r' with
  | nil =>
    simp only [refsAdd] at h; cases h
    simp [refsIds]
  | cons hd r ih =>
    obtain ⟨t', l⟩ := hd
    simp only [refsAdd] at h
    by_cases h1 : t < t'
    · rw [if_pos h1] at h; cases h
      simp only [refsIds_cons, List.nil_append, List.cons_append]
      exact List.Perm.refl _
    · rw [if_neg h1] at h
      by_cases h2 : t = t'
      · rw [if_pos h2] at h
        split at h
        · cases h
        · cases h
          simp only [refsIds_cons, List.append_assoc, List.cons_append, List.nil_append]
          exact List.perm_middle
      · rw [if_neg h2] at h
        cases hr : refsAdd r t id with
        | none => rw [hr] at h; cases h
        | some r'' =>
          rw [hr] at h; cases h
          simp only [refsIds_cons]
          exact ((ih hr).append_left l).trans List.perm_middle

/-- the key under which `refsAdd` files the id. -/
theorem refsAdd_mem {r : Refs} {t : Int} {id : Nat} {r' : Refs} (h : refsAdd r t id = some r') :
    ∃ l, (t, l) ∈ r' ∧ id ∈ l := by
  induction r generalizing r' with
  | nil => simp only [refsAdd] at h; cases h; exact ⟨[id], by simp, by simp⟩
  | cons hd r ih =>
    obtain ⟨t', l⟩ := hd
    simp only [refsAdd] at h
    by_cases h1 : t < t'
    · rw [if_pos h1] at h; cases h; exact ⟨[id], by simp, by simp⟩
    · rw [if_neg h1] at h
      by_cases h2 : t = t'
      · rw [if_pos h2] at h
        split at h
        · cases h
        · cases h; subst h2; exact ⟨l ++ [id], by simp, by simp⟩
      · rw [if_neg h2] at h
        cases hr : refsAdd r t id with
        | none => rw [hr] at h; cases h
        | some r'' =>
          rw [hr] at h; cases h
          obtain ⟨l', hm, hi⟩ := ih hr
          exact ⟨l', List.mem_cons_of_mem _ hm, hi⟩

theorem splitLast_eq {t i : List Nat} {z : Nat} (h : splitLast t = some (i, z)) : t = i ++ [z] := by
  induction t generalizing i with
  | nil => cases h
  | cons x t ih =>
    cases t with
    | nil => simp only [splitLast] at h; cases h; rfl
    | cons y t' =>
      simp only [splitLast] at h
      cases hs : splitLast (y :: t') with
      | none => rw [hs] at h; cases h
      | some r =>
        rw [hs] at h
        obtain ⟨r1, r2⟩ := r
        simp only [Option.map_some] at h
        cases h
        rw [ih hs]; rfl

theorem splitLast_none {t : List Nat} (h : splitLast t = none) : t = [] := by
  induction t with
  | nil => rfl
  | cons x t ih =>
    cases t with
    | nil => simp [splitLast] at h
    | cons y t' =>
      simp only [splitLast] at h
      cases hs : splitLast (y :: t') with
      | none => exact absurd (ih hs) (by simp)
      | some r => rw [hs] at h; cases h

theorem swapRemove_perm {l : List Nat} {id : Nat} {l' : List Nat} (h : swapRemove l id = some l') :
    l.Perm (id :: l') := by
  induction l generalizing l' with
  | nil => cases h
  | cons x t ih =>
    simp only [swapRemove] at h
    by_cases hx : x = id
    · rw [if_pos hx] at h
      subst hx
      cases hs : splitLast t with
      | none =>
        rw [hs] at h; cases h
        rw [splitLast_none hs]
      | some r =>
        obtain ⟨i, z⟩ := r
        rw [hs] at h; cases h
        rw [splitLast_eq hs]
        exact (List.perm_append_singleton z i).cons x
    · rw [if_neg hx] at h
      cases hr : swapRemove t id with
      | none => rw [hr] at h; cases h
      | some t' =>
        rw [hr] at h; cases h
        exact ((ih hr).cons x).trans (List.Perm.swap id x t')

theorem refsDel_perm {r : Refs} {t : Int} {id : Nat} {r' : Refs} (h : refsDel r t id = some r') :
    (refsIds r).Perm (id :: refsIds r') := by
  induction r generalizing r' with
  | nil => cases h
  | cons hd r ih =>
    obtain ⟨t', l⟩ := hd
    simp only [refsDel] at h
    by_cases h1 : t = t'
    · rw [if_pos h1] at h
      cases hs : swapRemove l id with
      | none => rw [hs] at h; cases h
      | some l' =>
        rw [hs] at h
        simp only [Option.map_some] at h
        have hp := swapRemove_perm hs
        have hr' : refsIds r' = l' ++ refsIds r := by
          cases h
          split
          · rename_i he
            have : l' = [] := by cases l' with
              | nil => rfl
              | cons _ _ => cases he
            rw [this]; rfl
          · exact refsIds_cons _ _ _
        rw [refsIds_cons, hr']
        exact hp.append_right _
    · rw [if_neg h1] at h
      cases hr : refsDel r t id with
      | none => rw [hr] at h; cases h
      | some r'' =>
        rw [hr] at h; cases h
        simp only [refsIds_cons]
        exact ((ih hr).append_left l).trans List.perm_middle

theorem refsAddAll_perm {r : Refs} {t : Int} {ids : List Nat} {r' : Refs} (h : refsAddAll r t ids = some r') :
    (refsIds r').Perm (ids ++ refsIds r) := by
  induction ids generalizing r with
  | nil => simp only [refsAddAll] at h; cases h; exact List.Perm.refl _
  | cons id ids ih =>
    simp only [refsAddAll] at h
    cases ha : refsAdd r t id with
    | none => rw [ha] at h; cases h
    | some r1 =>
      rw [ha] at h
      refine (ih h).trans ?_
      refine ((refsAdd_perm ha).append_left ids).trans ?_
      exact List.perm_middle

/-- activation only moves ids from the upcoming to the active store. -/
theorem activate_perm {now : Int} {up act up' act' : Refs} (h : activate now up act = some (up', act')) :
    (refsIds up' ++ refsIds act').Perm (refsIds up ++ refsIds act) := by
  induction up generalizing act up' act' with
  | nil => simp only [activate] at h; cases h; exact List.Perm.refl _
  | cons hd r ih =>
    obtain ⟨t, l⟩ := hd
    simp only [activate] at h
    by_cases ht : t ≤ now
    · rw [if_pos ht] at h
      cases ha : refsAddAll act t l with
      | none => rw [ha] at h; cases h
      | some act1 =>
        rw [ha] at h
        refine (ih h).trans ?_
        rw [refsIds_cons]
        have hp := refsAddAll_perm ha
        -- refsIds r ++ refsIds act1 ~ refsIds r ++ (l ++ refsIds act) ~ l ++ refsIds r ++ refsIds act
        refine (hp.append_left (refsIds r)).trans ?_
        rw [← List.append_assoc]
        exact List.perm_append_comm.append_right _
    · rw [if_neg ht] at h
      cases ha : activate now r act with
      | none => rw [ha] at h; cases h
      | some ua =>
        rw [ha] at h
        obtain ⟨u1, a1⟩ := ua
        simp only [Option.map_some] at h
        cases h
        rw [refsIds_cons, refsIds_cons, List.append_assoc, List.append_assoc]
        exact (ih ha).append_left l

/-- exactly the keys whose time has come leave the upcoming store. -/
theorem activate_upcoming {now : Int} {up act up' act' : Refs} (h : activate now up act = some (up', act')) :
    up' = up.filter (fun kv => decide (now < kv.1)) := by
  induction up generalizing act up' act' with
  | nil => simp only [activate] at h; cases h; rfl
  | cons hd r ih =>
    obtain ⟨t, l⟩ := hd
    simp only [activate] at h
    by_cases ht : t ≤ now
    · rw [if_pos ht] at h
      cases ha : refsAddAll act t l with
      | none => rw [ha] at h; cases h
      | some act1 =>
        rw [ha] at h
        rw [List.filter_cons_of_neg (by simp only [decide_eq_true_eq]; omega)]
        exact ih h
    · rw [if_neg ht] at h
      cases ha : activate now r act with
      | none => rw [ha] at h; cases h
      | some ua =>
        rw [ha] at h
        obtain ⟨u1, a1⟩ := ua
        simp only [Option.map_some] at h
        cases h
        rw [List.filter_cons_of_pos (by simp only [decide_eq_true_eq]; omega), ih ha]

theorem getGauge_id {gs : List Gauge} {id : Nat} {g : Gauge} (h : getGauge gs id = some g) : g.id = id := by
  unfold getGauge at h
  simpa using List.find?_some h

/-- the gauges `checkFinishDistribution` moves: candidates by the pre-distribution snapshot whose re-read record
(in `store`, what the distribution wrote) has all its epochs filled. -/
def finishing (store : List Gauge) (g : Gauge) : Bool :=
  !g.perpetual && decide (g.numEpochs ≤ g.filled + 1) &&
    (match getGauge store g.id with
     | some u => decide (u.numEpochs ≤ u.filled)
     | none => false)

theorem finishLoop_perm {store snap : List Gauge} {act fin act' fin' : Refs}
    (h : finishLoop store snap act fin = some (act', fin')) :
    (refsIds act).Perm (((snap.filter (finishing store)).map (·.id)) ++ refsIds act') ∧
    (refsIds fin').Perm (((snap.filter (finishing store)).map (·.id)) ++ refsIds fin) := by
  induction snap generalizing act fin with
  | nil => simp only [finishLoop] at h; cases h; exact ⟨List.Perm.refl _, List.Perm.refl _⟩
  | cons g gs ih =>
    simp only [finishLoop] at h
    by_cases hf : ¬ g.perpetual = true ∧ g.numEpochs ≤ g.filled + 1
    · rw [if_pos hf] at h
      cases hu : getGauge store g.id with
      | none => rw [hu] at h; cases h
      | some u =>
        rw [hu] at h
        simp only at h
        have hid : u.id = g.id := getGauge_id hu
        by_cases hlt : u.filled < u.numEpochs
        · rw [if_pos hlt] at h
          have hfin : ¬ finishing store g = true := by
            unfold finishing; rw [hu]
            simp only [Bool.and_eq_true, decide_eq_true_eq]
            intro hh; omega
          rw [List.filter_cons_of_neg hfin]
          exact ih h
        · rw [if_neg hlt] at h
          have hfin : finishing store g = true := by
            unfold finishing; rw [hu]
            simp only [Bool.and_eq_true, Bool.not_eq_true', decide_eq_true_eq]
            exact ⟨⟨by simpa using hf.1, hf.2⟩, by omega⟩
          cases hd : refsDel act u.start u.id with
          | none => rw [hd] at h; cases h
          | some act1 =>
            rw [hd] at h
            cases ha : refsAdd fin u.start u.id with
            | none => rw [ha] at h; cases h
            | some fin1 =>
              rw [ha] at h
              obtain ⟨i1, i2⟩ := ih h
              rw [List.filter_cons_of_pos hfin, List.map_cons, List.cons_append, List.cons_append, ← hid]
              constructor
              · exact (refsDel_perm hd).trans ((i1.cons u.id))
              · refine i2.trans ?_
                exact ((refsAdd_perm ha).append_left _).trans List.perm_middle
    · rw [if_neg hf] at h
      have hfin : ¬ finishing store g = true := by
        unfold finishing; simp only [Bool.and_eq_true, Bool.not_eq_true', decide_eq_true_eq]
        intro hh; exact hf ⟨by simp [hh.1.1], hh.1.2⟩
      rw [List.filter_cons_of_neg hfin]
      exact ih h

end OsmoVerif.Incentives
