/- C17 helper lemmas: whatever happens (also when a hook runs out of gas), the invocations that took
place are an initial segment of the ideal plan. -/
import OsmoVerif.Proofs.EpochsBlock
namespace OsmoVerif.Epochs

theorem runHooksFrom_subs_length (f : Nat → HookRun) : ∀ (l : List Store) (i : Nat),
    (runHooksFrom f i l).subs.length = l.length
  | [], _ => rfl
  | st :: r, i => by
    unfold runHooksFrom
    cases ha : applyIfNoError st (f i) with
    | none => rfl
    | some st' => simp [runHooksFrom_subs_length f r (i + 1)]

theorem range'_prefix (s m k : Nat) (h : m ≤ k) : List.range' s m <+: List.range' s k := by
  have : List.range' s k = List.range' s m ++ List.range' (s + m) (k - m) := by
    rw [List.range'_append_1]; congr; omega
  rw [this]; exact List.prefix_append _ _

theorem mkCalls_prefix (scr : Script) (id : String) (kd : Kind) (n : Int) (subs : List Store) :
    mkCalls id kd n (runHooksFrom (scr id kd) 0 subs).invoked <+: callsOf subs.length ⟨id, kd, n⟩ := by
  obtain ⟨m, hm, he⟩ := runHooksFrom_invoked_prefix (scr id kd) subs 0
  rw [he]
  exact (range'_prefix 0 m subs.length hm).map _

theorem processTimer_subs_length (t h : Int) (scr : Script) (e : EpochInfo) (subs : List Store) :
    (processTimer t h scr e subs).subs.length = subs.length := by
  unfold processTimer
  simp only
  repeat' split
  all_goals simp [runHooksFrom_subs_length]

theorem processTimer_calls_prefix (t h : Int) (scr : Script) (e : EpochInfo) (subs : List Store) :
    (processTimer t h scr e subs).calls <+: planCalls subs.length (pureSignals t e) := by
  by_cases h1 : t < e.startTime
  · simp [processTimer, h1]
  · have h1' : e.startTime ≤ t := by omega
    by_cases hs : e.epochCountingStarted = true
    · by_cases h2 : e.currentEpochStartTime + e.duration < t
      · have ht : ticks t e = true := by simp [ticks, h1', h2]
        simp only [processTimer, h1, hs, h2, ht, pureSignals]
        simp only [if_false, if_true, Bool.not_true, Bool.or_false, decide_true, Bool.false_eq_true]
        have p1 := mkCalls_prefix scr e.identifier .epochEnd e.currentEpoch subs
        by_cases hp1 : (runHooksFrom (scr e.identifier Kind.epochEnd) 0 subs).panicked = true
        · simp only [hp1, if_true]
          simp only [planCalls, List.flatMap_cons, List.flatMap_nil, List.append_nil]
          exact p1.trans (List.prefix_append _ _)
        · have hp1' : (runHooksFrom (scr e.identifier Kind.epochEnd) 0 subs).panicked = false := by
            cases hq : (runHooksFrom (scr e.identifier Kind.epochEnd) 0 subs).panicked <;> simp_all
          simp only [hp1', Bool.false_eq_true, if_false]
          have r1 := runHooksFrom_ok _ subs 0 hp1'
          have p2 := mkCalls_prefix scr e.identifier .epochStart (e.currentEpoch + 1)
            (runHooksFrom (scr e.identifier Kind.epochEnd) 0 subs).subs
          rw [runHooksFrom_subs_length] at p2
          simp only [planCalls, List.flatMap_cons, List.flatMap_nil, List.append_nil]
          rw [r1.2, mkCalls_range]
          exact (List.prefix_append_right_inj _).2 p2
      · simp [processTimer, h1, hs, h2]
    · have hs' : e.epochCountingStarted = false := by
        cases hq : e.epochCountingStarted <;> simp_all
      have ht : ticks t e = true := by simp [ticks, h1', hs']
      simp only [processTimer, h1, hs', ht, pureSignals]
      simp only [if_false, if_true, Bool.not_false, Bool.or_true, Bool.not_true, Bool.false_eq_true]
      simp only [planCalls, List.flatMap_cons, List.flatMap_nil, List.append_nil]
      exact mkCalls_prefix scr e.identifier .epochStart 1 subs

theorem processTimers_calls_prefix (t h : Int) (scr : Script) : ∀ (l : List EpochInfo) (subs : List Store),
    (processTimers t h scr l subs).calls <+: planCalls subs.length (l.flatMap (pureSignals t))
  | [], subs => by simp [processTimers]
  | e :: r, subs => by
    unfold processTimers
    simp only
    have p := processTimer_calls_prefix t h scr e subs
    simp only [List.flatMap_cons, planCalls_append]
    by_cases h1 : (processTimer t h scr e subs).panicked = true
    · simp only [h1, if_true]
      exact p.trans (List.prefix_append _ _)
    · have h1' : (processTimer t h scr e subs).panicked = false := by
        cases hq : (processTimer t h scr e subs).panicked <;> simp_all
      simp only [h1', Bool.false_eq_true, if_false]
      obtain ⟨_, _, a3, _⟩ := processTimer_ok t h scr e subs h1'
      have ih := processTimers_calls_prefix t h scr r (processTimer t h scr e subs).subs
      rw [processTimer_subs_length] at ih
      rw [a3]
      exact (List.prefix_append_right_inj _).2 ih

end OsmoVerif.Epochs
