/- Helper lemmas: the chop helpers of Model/Num meet the rounding specs. Core only. -/
import OsmoVerif.Model.Num
import OsmoVerif.Spec.Rounding

namespace OsmoVerif.Num
open OsmoVerif.Spec

/-- decomposition of truncated division by a positive divisor. -/
theorem tdiv_tmod_spec (n d : Int) (hd : 0 < d) :
    n.tdiv d * d + n.tmod d = n ∧
    (0 ≤ n → 0 ≤ n.tmod d ∧ n.tmod d < d) ∧
    (n < 0 → -d < n.tmod d ∧ n.tmod d ≤ 0) := by
  refine ⟨?_, ?_, ?_⟩
  · have := Int.mul_tdiv_add_tmod n d; rw [Int.mul_comm] at this; exact this
  · intro hn; exact ⟨Int.tmod_nonneg d hn, Int.tmod_lt_of_pos n hd⟩
  · intro hn
    refine ⟨Int.lt_tmod_of_pos n hd, ?_⟩
    have h1 : 0 ≤ (-n).tmod d := Int.tmod_nonneg d (by omega)
    rw [Int.neg_tmod] at h1; omega

theorem chopTrunc_isTrunc (P n : Int) (hP : 0 < P) : IsTrunc n P (chopTrunc P n) := by
  obtain ⟨e, hp, hn⟩ := tdiv_tmod_spec n P hP
  unfold chopTrunc IsTrunc IsFloor IsCeil
  generalize n.tdiv P = q at *
  generalize n.tmod P = r at *
  constructor
  · intro h; have := hp h; rw [Int.add_mul]; omega
  · intro h; have := hn h; rw [Int.sub_mul]; omega

theorem tdiv_isTrunc (n d : Int) (hd : 0 < d) : IsTrunc n d (n.tdiv d) := chopTrunc_isTrunc d n hd

theorem chopRoundNonneg_isHalfEven (P n : Int) (hP : 0 < P) (hev : P % 2 = 0) (hn : 0 ≤ n) :
    IsHalfEven n P (chopRoundNonneg P n) := by
  obtain ⟨e, hp, _⟩ := tdiv_tmod_spec n P hP
  have hp := hp hn
  have h2 : P.tdiv 2 = P / 2 := Int.tdiv_eq_ediv_of_nonneg (by omega)
  unfold chopRoundNonneg IsHalfEven
  simp only [h2]
  generalize n.tdiv P = q at *
  generalize n.tmod P = r at *
  split
  · refine ⟨by omega, by omega, fun h => by omega⟩
  · split
    · refine ⟨by omega, by omega, fun h => by omega⟩
    · split
      · rw [Int.add_mul]; refine ⟨by omega, by omega, fun h => by omega⟩
      · split
        · refine ⟨by omega, by omega, fun _ => by assumption⟩
        · rw [Int.add_mul]; refine ⟨by omega, by omega, fun _ => by omega⟩

theorem IsHalfEven.neg {n d r : Int} (h : IsHalfEven n d r) : IsHalfEven (-n) d (-r) := by
  obtain ⟨a, b, c⟩ := h
  unfold IsHalfEven
  rw [Int.neg_mul]
  refine ⟨by omega, by omega, fun h => ?_⟩
  have : r % 2 = 0 := c (by omega)
  omega

theorem chopRound_isHalfEven (P n : Int) (hP : 0 < P) (hev : P % 2 = 0) :
    IsHalfEven n P (chopRound P n) := by
  unfold chopRound
  split
  · have := IsHalfEven.neg (chopRoundNonneg_isHalfEven P (-n) hP hev (by omega))
    rwa [Int.neg_neg] at this
  · exact chopRoundNonneg_isHalfEven P n hP hev (by omega)

theorem chopRoundUp_isCeil (P n : Int) (hP : 0 < P) : IsCeil n P (chopRoundUp P n) := by
  unfold chopRoundUp IsCeil incBasedOnRem
  split
  · obtain ⟨e, hp, _⟩ := tdiv_tmod_spec (-n) P hP
    have hp := hp (by omega)
    generalize (-n).tdiv P = q at *
    generalize (-n).tmod P = r at *
    rw [Int.sub_mul, Int.neg_mul]; omega
  · obtain ⟨e, hp, _⟩ := tdiv_tmod_spec n P hP
    have hp := hp (by omega)
    generalize n.tdiv P = q at *
    generalize n.tmod P = r at *
    split
    · rw [Int.sub_mul]; omega
    · rw [Int.sub_mul, Int.add_mul]; omega

/-- ceiling of `n/d` for **non-negative** `n`: truncated quotient plus one iff remainder ≠ 0
(equivalently > 0).  This is the shape of `QuoRoundUp*` on non-negative operands. -/
theorem incRem_isCeil_nonneg (n d : Int) (hd : 0 < d) (hn : 0 ≤ n) :
    IsCeil n d (incBasedOnRem (n.tmod d) (n.tdiv d)) := by
  have := chopRoundUp_isCeil d n hd
  unfold chopRoundUp at this
  rwa [if_neg (by omega)] at this

theorem P36_pos : 0 < P36 := by decide
theorem P18_pos : 0 < P18 := by decide
theorem Pdiff_pos : 0 < Pdiff := by decide
theorem P36_even : P36 % 2 = 0 := by decide
theorem P18_even : P18 % 2 = 0 := by decide

theorem fitsBits_lt {n : Nat} {x : Int} (h : fitsBits n x = true) : x.natAbs < 2 ^ n := by
  unfold fitsBits at h; exact of_decide_eq_true h
theorem lt_fitsBits {n : Nat} {x : Int} (h : x.natAbs < 2 ^ n) : fitsBits n x = true := by
  unfold fitsBits; exact decide_eq_true h

theorem chk_some {x r : Int} (h : chk x = some r) : r = x ∧ fitsBits Gen.Osmomath.maxDecBitLen x = true := by
  unfold chk at h
  by_cases hf : fitsBits Gen.Osmomath.maxDecBitLen x = true
  · rw [if_pos hf] at h; exact ⟨(Option.some.inj h).symm, hf⟩
  · rw [if_neg hf] at h; cases h

theorem chk_none {x : Int} (h : chk x = none) : ¬ fitsBits Gen.Osmomath.maxDecBitLen x = true := by
  unfold chk at h
  intro hf
  rw [if_pos hf] at h; cases h

theorem chk_of_fits {x : Int} (h : fitsBits Gen.Osmomath.maxDecBitLen x = true) : chk x = some x := by
  unfold chk; rw [if_pos h]

end OsmoVerif.Num
