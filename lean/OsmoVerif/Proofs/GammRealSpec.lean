/- Helper lemmas for C04Real (integer level, no reals yet): `Pow(y, 1) = y`, exact quotients, the shape of the
balancer single-asset formulas (`calcPoolSharesOutGivenSingleAssetIn`, `calcSingleAssetInGivenPoolSharesOut`,
`calcPoolSharesInGivenSingleAssetOut`) GIVEN the value returned by `Pow`, and the pool update of a swap. -/
import OsmoVerif.Proofs.GammMathSwap

namespace OsmoVerif.GammMath
open OsmoVerif.Num OsmoVerif.MathM OsmoVerif.Gen OsmoVerif.Spec

set_option linter.unusedSimpArgs false

/-! ### exact cases of `Dec.quo`, `Dec.mul`, `Pow` -/

theorem two_P18_le_decUpper : 2 * P18 ≤ decUpper := by decide +kernel

theorem chkDec_of_small {y : Int} (h0 : 0 ≤ y) (h2 : y ≤ 2 * P18) : chkDec y = some y := by
  have := two_P18_le_decUpper
  unfold chkDec; rw [if_pos ⟨by omega, by omega⟩]

/-- `Pow(y, 1) = y` exactly: integer part 1 (`Power(1)` is `y·1`, an exact half-even product), fractional part 0,
so `PowApprox` is not even called. -/
theorem pow_exp_one {y : Int} (h0 : 0 < y) (h2 : y < 2 * P18) : pow y P18 = some y := by
  have h1 : P18.tdiv P18 = 1 := by decide
  have hs : Dec.sub P18 P18 = some 0 := by decide +kernel
  have hm : Dec.mul y P18 = some y := by
    unfold Dec.mul; rw [chopRound_mul_exact]; exact chkDec_of_small (by omega) (by omega)
  have hp : decPower y 1 = some y := by
    simp [decPower, decPowLoop, hm]
  unfold pow
  rw [if_neg (by omega), if_neg (by omega)]
  simp [h1, hs, hp]

/-- `x.Quo(1) = x`. -/
theorem Dec_quo_one {x r : Int} (h : Dec.quo x P18 = some r) : r = x := by
  unfold Dec.quo at h; rw [if_neg (by decide)] at h
  rw [chkDec_some h]
  have : (x * (P18 * P18)).tdiv P18 = x * P18 := by
    rw [← Int.mul_assoc]; exact Int.mul_tdiv_cancel _ (by decide)
  rw [this]; exact chopRound_mul_exact x

/-- `x.Quo(x) = 1`. -/
theorem Dec_quo_self {x r : Int} (h : Dec.quo x x = some r) : r = P18 := by
  unfold Dec.quo at h
  split at h
  · cases h
  · rename_i hx
    rw [chkDec_some h]
    have : (x * (P18 * P18)).tdiv x = P18 * P18 := Int.mul_tdiv_cancel_left _ hx
    rw [this]; exact chopRound_mul_exact P18

/-- `feeRatio = 1 − (1 − nw)·spread`, the product half-even at 18 decimals. -/
theorem feeRatio_spec {nw spread fr : Int} (h : feeRatio nw spread = some fr) :
    fr = P18 - chopRound P18 ((P18 - nw) * spread) := by
  unfold feeRatio at h
  cases h1 : Dec.sub P18 nw with
  | none => simp [h1] at h
  | some a =>
    cases h2 : Dec.mul a spread with
    | none => simp [h1, h2] at h
    | some b =>
      simp only [h1, h2, Option.bind_eq_bind, Option.bind_some, bind] at h
      rw [Dec_sub_spec h, show b = chopRound P18 (a * spread) from chkDec_some h2, Dec_sub_spec h1]

/-! ### single-asset formulas, Dec level -/

/-- `calcPoolSharesOutGivenSingleAssetIn` on integer-valued reserve `A`, share supply `S` and amount `a`:
the result is EXACTLY `(Pow((A + a·feeRatio)/A, nw) − 1)·S`; the exponent `nw.Quo(1)` is `nw` itself. -/
theorem sharesOutGivenSingleIn_spec {A nw S a spread r : Int}
    (h : sharesOutGivenSingleIn (toDec A) nw (toDec S) (toDec a) spread = some r) :
    ∃ fr y pw, feeRatio nw spread = some fr ∧ Dec.quo (toDec A + a * fr) (toDec A) = some y ∧
      pow y nw = some pw ∧ r = (pw - P18) * S := by
  unfold sharesOutGivenSingleIn at h
  cases h1 : feeRatio nw spread with
  | none => simp [h1] at h
  | some fr =>
    cases h2 : Dec.mul (toDec a) fr with
    | none => simp [h1, h2] at h
    | some af =>
      cases h3 : Dec.add (toDec A) af with
      | none => simp [h1, h2, h3] at h
      | some post =>
        cases h4 : solveCFI post (toDec A) nw (toDec S) P18 with
        | none => simp [h1, h2, h3, h4] at h
        | some x =>
          simp only [h1, h2, h3, h4, Option.bind_eq_bind, Option.bind_some, bind, pure] at h
          injection h with h
          obtain ⟨wr, y, pw, e1, e2, e3, e4⟩ := solveCFI_spec h4
          rw [Dec_quo_one e1] at e3
          rw [Dec_add_spec h3, Dec_toDec_mul h2] at e2
          refine ⟨fr, y, pw, rfl, e2, e3, ?_⟩
          rw [← h, e4, ← Int.neg_mul]; congr 1; omega

/-- `calcSingleAssetInGivenPoolSharesOut`: the curve input `(Pow((S + s)/S, 1/nw) − 1)·A` (exact given `Pow`) is
divided by `feeRatio` (half-even 18-decimal `Quo`). -/
theorem singleInGivenSharesOut_spec {A nw S so spread r : Int}
    (h : singleInGivenSharesOut (toDec A) nw (toDec S) (toDec so) spread = some r) :
    ∃ wr y pw fr, Dec.quo P18 nw = some wr ∧ Dec.quo (toDec S + toDec so) (toDec S) = some y ∧
      pow y wr = some pw ∧ feeRatio nw spread = some fr ∧ Dec.quo ((pw - P18) * A) fr = some r := by
  unfold singleInGivenSharesOut at h
  cases h1 : Dec.add (toDec S) (toDec so) with
  | none => simp [h1] at h
  | some post =>
    cases h2 : solveCFI post (toDec S) P18 (toDec A) nw with
    | none => simp [h1, h2] at h
    | some x =>
      cases h3 : feeRatio nw spread with
      | none => simp [h1, h2, h3] at h
      | some fr =>
        simp only [h1, h2, h3, Option.bind_eq_bind, Option.bind_some, bind] at h
        obtain ⟨wr, y, pw, e1, e2, e3, e4⟩ := solveCFI_spec h2
        rw [Dec_add_spec h1] at e2
        have hx : -x = (pw - P18) * A := by rw [e4, ← Int.neg_mul]; congr 1; omega
        rw [hx] at h
        exact ⟨wr, y, pw, fr, e1, e2, e3, rfl, h⟩

/-- `calcPoolSharesInGivenSingleAssetOut`: the amount out is first divided by `feeRatio` (half-even), the base is
`(A − out/feeRatio)/A`, the exponent `nw`; the share amount `(1 − Pow)·S` (exact given `Pow`) is divided by
`(1 − exitFee)` (half-even). -/
theorem sharesInGivenSingleOut_spec {A nw S o spread exitFee r : Int}
    (h : sharesInGivenSingleOut (toDec A) nw (toDec S) (toDec o) spread exitFee = some r) :
    ∃ fr outFee y pw, feeRatio nw spread = some fr ∧ Dec.quo (toDec o) fr = some outFee ∧
      Dec.quo (toDec A - outFee) (toDec A) = some y ∧ pow y nw = some pw ∧
      Dec.quo ((P18 - pw) * S) (P18 - exitFee) = some r := by
  unfold sharesInGivenSingleOut at h
  cases h1 : feeRatio nw spread with
  | none => simp [h1] at h
  | some fr =>
    cases h2 : Dec.quo (toDec o) fr with
    | none => simp [h1, h2] at h
    | some outFee =>
      cases h3 : Dec.sub (toDec A) outFee with
      | none => simp [h1, h2, h3] at h
      | some post =>
        cases h4 : solveCFI post (toDec A) nw (toDec S) P18 with
        | none => simp [h1, h2, h3, h4] at h
        | some sharesIn =>
          cases h5 : Dec.sub P18 exitFee with
          | none => simp [h1, h2, h3, h4, h5] at h
          | some oe =>
            simp only [h1, h2, h3, h4, h5, Option.bind_eq_bind, Option.bind_some, bind] at h
            obtain ⟨wr, y, pw, e1, e2, e3, e4⟩ := solveCFI_spec h4
            rw [Dec_quo_one e1] at e3
            rw [Dec_sub_spec h3] at e2
            rw [e4, Dec_sub_spec h5] at h
            exact ⟨fr, outFee, y, pw, rfl, h2, e2, e3, h⟩

/-! ### the pool update of a swap -/

theorem findAsset_denom {as : List BalAsset} {d : String} {a : BalAsset} (h : findAsset as d = some a) :
    a.denom = d := by
  unfold findAsset at h
  have := List.find?_some h
  exact of_decide_eq_true this

/-- `setAmount` rewrites the amount of (every) asset with the given denom and nothing else. -/
theorem findAsset_setAmount (as : List BalAsset) (d d' : String) (n : Int) :
    findAsset (setAmount as d n) d' =
      (findAsset as d').map (fun a => if a.denom = d then { a with amount := n } else a) := by
  unfold findAsset setAmount
  rw [List.find?_map]
  congr 1
  congr 1
  funext a
  simp only [Function.comp]
  split <;> rfl

theorem findAsset_setAmount_same {as : List BalAsset} {d : String} {a : BalAsset} (n : Int)
    (h : findAsset as d = some a) : findAsset (setAmount as d n) d = some { a with amount := n } := by
  rw [findAsset_setAmount, h, Option.map_some, if_pos (findAsset_denom h)]

theorem findAsset_setAmount_other {as : List BalAsset} {d d' : String} (n : Int) (hne : d ≠ d') :
    findAsset (setAmount as d n) d' = findAsset as d' := by
  rw [findAsset_setAmount]
  cases h : findAsset as d' with
  | none => rfl
  | some a => rw [Option.map_some, if_neg (by rw [findAsset_denom h]; exact Ne.symm hne)]

/-- the asset record read back after `applySwap`-style updates: the amount written, or — the `sdk.NewCoins` quirk,
finding F13 — the OLD amount when the new one is zero (a zero coin is dropped and never written). -/
def writtenAmount (old new : Int) : Int := if new = 0 then old else new

/-- FULL. `applySwap`: both assets exist, the denoms differ, neither new balance is negative; the in-asset record
holds `old + amtIn`, the out-asset record `old − amtOut` (except for the zero quirk, `writtenAmount`); every other
asset, the weights, the shares and the fees are untouched. -/
theorem balApplySwap_spec {p p' : BalPool} {dIn dOut : String} {amtIn amtOut : Int}
    (h : balApplySwap p dIn amtIn dOut amtOut = .ok p') :
    ∃ aIn aOut, findAsset p.assets dIn = some aIn ∧ findAsset p.assets dOut = some aOut ∧ dIn ≠ dOut ∧
      0 ≤ aIn.amount + amtIn ∧ 0 ≤ aOut.amount - amtOut ∧
      findAsset p'.assets dIn = some { aIn with amount := writtenAmount aIn.amount (aIn.amount + amtIn) } ∧
      findAsset p'.assets dOut = some { aOut with amount := writtenAmount aOut.amount (aOut.amount - amtOut) } ∧
      (∀ d, d ≠ dIn → d ≠ dOut → findAsset p'.assets d = findAsset p.assets d) ∧
      p'.totalWeight = p.totalWeight ∧ p'.totalShares = p.totalShares ∧ p'.swapFee = p.swapFee ∧
      p'.exitFee = p.exitFee := by
  unfold balApplySwap at h
  cases h1 : findAsset p.assets dIn with
  | none => simp [h1] at h; cases h
  | some aIn =>
    cases h2 : findAsset p.assets dOut with
    | none => simp [h1, h2] at h; cases h
    | some aOut =>
      simp only [h1, h2] at h
      cases h3 : iadd aIn.amount amtIn with
      | error e => simp [h3, bind, Except.bind] at h
      | ok nIn =>
        cases h4 : isub aOut.amount amtOut with
        | error e => simp [h3, h4, bind, Except.bind] at h
        | ok nOut =>
          simp only [h3, h4, bind, Except.bind] at h
          have e3 : nIn = aIn.amount + amtIn := by unfold iadd at h3; exact chkInt_some (pn_ok h3)
          have e4 : nOut = aOut.amount - amtOut := by unfold isub at h4; exact chkInt_some (pn_ok h4)
          split at h
          · cases h
          · rename_i hne
            split at h
            · cases h
            · rename_i hneg
              injection h with h
              have dIn_eq := findAsset_denom h1
              have dOut_eq := findAsset_denom h2
              subst h
              refine ⟨aIn, aOut, rfl, rfl, hne, by omega, by omega, ?_, ?_, ?_, rfl, rfl, rfl, rfl⟩
              · -- the in-asset
                simp only [writtenAmount, ← e3]
                by_cases z1 : nIn = 0 <;> by_cases z2 : nOut = 0 <;> simp only [z1, z2, if_true, if_false]
                · exact h1
                · rw [findAsset_setAmount_other _ (Ne.symm hne)]; exact h1
                · exact findAsset_setAmount_same _ h1
                · rw [findAsset_setAmount_other _ (Ne.symm hne)]; exact findAsset_setAmount_same _ h1
              · simp only [writtenAmount, ← e4]
                by_cases z1 : nIn = 0 <;> by_cases z2 : nOut = 0 <;> simp only [z1, z2, if_true, if_false]
                · exact h2
                · exact findAsset_setAmount_same _ h2
                · rw [findAsset_setAmount_other _ hne]; exact h2
                · apply findAsset_setAmount_same; rw [findAsset_setAmount_other _ hne]; exact h2
              · intro d hd1 hd2
                by_cases z1 : nIn = 0 <;> by_cases z2 : nOut = 0 <;> simp only [z1, z2, if_true, if_false]
                · rw [findAsset_setAmount_other _ (Ne.symm hd2)]
                · rw [findAsset_setAmount_other _ (Ne.symm hd1)]
                · rw [findAsset_setAmount_other _ (Ne.symm hd2), findAsset_setAmount_other _ (Ne.symm hd1)]

/-- `SwapOutAmtGivenIn` = `CalcOutAmtGivenIn` + `applySwap` of the WHOLE token in. -/
theorem balSwapOut_split {p p' : BalPool} {dIn dOut : String} {amt spread out : Int}
    (h : balSwapOut p [(dIn, amt)] dOut spread = .ok (out, p')) :
    balCalcOut p [(dIn, amt)] dOut spread = .ok out ∧ balApplySwap p dIn amt dOut out = .ok p' := by
  unfold balSwapOut at h
  cases hc : balCalcOut p [(dIn, amt)] dOut spread with
  | error e => simp [hc, bind, Except.bind] at h
  | ok o =>
    simp only [hc, bind, Except.bind] at h
    cases ha : balApplySwap p dIn amt dOut o with
    | error e => simp [ha] at h
    | ok q =>
      simp only [ha, pure, Except.pure] at h
      injection h with h; injection h with h1 h2
      subst h1; subst h2
      exact ⟨rfl, ha⟩

/-- `SwapInAmtGivenOut` = `CalcInAmtGivenOut` + `applySwap` of the computed token in. -/
theorem balSwapIn_split {p p' : BalPool} {dIn dOut : String} {amt spread tin : Int}
    (h : balSwapIn p [(dOut, amt)] dIn spread = .ok (tin, p')) :
    balCalcIn p [(dOut, amt)] dIn spread = .ok tin ∧ balApplySwap p dIn tin dOut amt = .ok p' := by
  unfold balSwapIn at h
  cases hc : balCalcIn p [(dOut, amt)] dIn spread with
  | error e => simp [hc, bind, Except.bind] at h
  | ok o =>
    simp only [hc, bind, Except.bind] at h
    cases ha : balApplySwap p dIn o dOut amt with
    | error e => simp [ha] at h
    | ok q =>
      simp only [ha, pure, Except.pure] at h
      injection h with h; injection h with h1 h2
      subst h1; subst h2
      exact ⟨rfl, ha⟩

end OsmoVerif.GammMath
